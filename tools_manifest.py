#!/usr/bin/env python3
# Regenerates MANIFEST.json from the table below (keeps it valid at all times).
import json, subprocess
CLAIMED = {
 # id: (technique, level text, level_note, design_ref)
}
import os, sys
here = os.path.dirname(os.path.abspath(__file__))
exec(open(os.path.join(here, 'manifest_table.py')).read())
props = [json.loads(l) for l in open(os.path.join(here, 'properties.jsonl'))]
hooks = subprocess.run(['git','-C','/repo','log','--format=%H %s','--grep=^verif hooks'],capture_output=True,text=True).stdout.strip().split('\n')
checks=[]; na=[]
for p in props:
    i=p['id']
    if i in CLAIMED:
        c=CLAIMED[i]
        checks.append({"property_id":i,"quick_cmd":f"./check {i} quick","thorough_cmd":f"./check {i} thorough","evidence_file":f"/verif/evidence/{i}.json",
          "replay_cmd_template":f"./check {i} quick --replay {{path}}","engine":"vh","technique":c[0],
          "level_claimed":{"category":"exploration","text":c[1],"design_ref":c[3]},"level_note":c[2]})
    else:
        na.append({"property_id":i,"reason":NOT_YET.get(i,"check not built yet in this session; the design (DESIGN.md section 3) gives the intended runtime monitor")})
m={"version":1,"setup_cmd":"./build.sh all","hooks":{"guard":"verif (Go build tag)","enable":"go build -tags verif (build.sh builds the harness with `replace github.com/evanw/esbuild => /repo`, so /repo's working tree is compiled with the hooks on)",
   "baseline_off_cmd":"cd /repo && go test -vet=off -count=1 -timeout 25m ./...","source_commits":[h.split()[0] for h in hooks if h],"add_only":True},
   "engines":[{"name":"vh","path":"/verif/harness","serves_properties":sorted(CLAIMED.keys()),"kind_free_text":"Go harness calling esbuild's pkg/api in-process (and the CLI/service binaries), with a pool of Node 20 oracle workers (V8 as reference engine, Node-bundled acorn as independent parser) observing executions"}],
   "checks":checks,"not_applicable":na,
   "notes":"Runtime monitoring family. Every check rebuilds the harness from /repo's working tree (build tag verif), runs workloads determined by VERIF_SEED and the tier, and writes /verif/evidence/<id>.json from counters maintained by the monitors. Known genuine defects are listed in known_findings.jsonl."}
json.dump(m,open(os.path.join(here,'MANIFEST.json'),'w'),indent=1)
print('claimed',len(checks),'not_applicable',len(na))
