#!/usr/bin/env python3
# Collects the outcome of seedrun.sh runs (/tmp/seedlogs/matrix-<seed>.txt) into seeded/DETECTION.json
# (seed -> {check, tier, exit, violations, first_signature}); existing entries are kept unless a newer log exists.
import json, re, glob, os
here=os.path.dirname(os.path.abspath(__file__))
path=os.path.join(here,'seeded','DETECTION.json')
det=json.load(open(path)) if os.path.exists(path) else {}
for f in sorted(glob.glob('/tmp/seedlogs/matrix-*.txt'))+sorted(glob.glob('/tmp/seedlogs/regress-*.txt')):
    b=os.path.basename(f)
    seed=b[7:-4] if b.startswith('matrix-') else 'regress:'+b[8:-4]   # regress:<fix commit> = the reverse of that fix
    txt=open(f,errors='replace').read()
    m=re.search(r'^(\S+) (\S+) (quick|thorough): exit=(\d+) violations=(\d+)',txt,re.M)
    if not m:
        if 'PATCH-DOES-NOT-APPLY' in txt: det[seed]={'check':seed.split('-')[0],'result':'patch does not apply to the current tree'}
        continue
    sig=re.search(r'signature: (.*)',txt)
    what=re.search(r'what: (.*)',txt)
    det[seed]={'check':m.group(2),'tier':m.group(3),'exit':int(m.group(4)),'violations':int(m.group(5)),
               'detected':int(m.group(5))>0,'first_signature':(sig.group(1)[:160] if sig else ''),'first_what':(what.group(1)[:220] if what else '')}
json.dump(det,open(path,'w'),indent=1,sort_keys=True)
n=sum(1 for v in det.values() if v.get('detected'))
print(len(det),'seeds recorded,',n,'detected; missed:',sorted(k for k,v in det.items() if not v.get('detected')))
