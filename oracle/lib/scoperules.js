'use strict';
// C15 monitors over the scope resolver's result.
// bindcheck: rules over symbol tags printed by esbuild (hook H6) vs the independently resolved binding graph of the same text.
// bindalign: hook-free comparison of the binding partitions of an input and its (renamed) output, occurrence by occurrence.

const PRIVATE_KINDS = new Set([8, 9, 10, 11, 12, 13, 14, 15, 16, 17]);
const K_UNBOUND = 0, K_ARGUMENTS = 5, K_LABEL = 18, K_MANGLED = 24;

function parseTag(t) {
  // <source>.<inner>.<kind>.<flags>.<original name>
  const m = /^(\d+)\.(\d+)\.(\d+)\.(\d+)\.([\s\S]*)$/.exec(t);
  if (!m) return null;
  return { sym: m[1] + '.' + m[2], kind: +m[3], flags: +m[4], orig: m[5] };
}

// names esbuild's own output may leave free on purpose (module-system variables of the output format)
const RUNTIME_FREE = new Set(['require', 'module', 'exports', '__filename', '__dirname', 'globalThis', 'Object', 'Symbol', 'TypeError', 'Error', 'Promise', 'Reflect', 'Proxy', 'WeakMap', 'WeakSet', 'Map', 'Set', 'Array', 'String', 'Function', 'SuppressedError']);

function bindcheck(analyze, req) {
  let res;
  try { res = analyze(req.code, req.goal || 'script', true); } catch (e) { return { ok: false, err: String(e && e.message) }; }
  const opts = req.opts || {};
  const viol = []; const add = (rule, name, detail) => { if (viol.length < 40) viol.push({ rule, name, detail }); };
  const bySym = new Map(); const byRaw = new Map();
  let tagged = 0, untagged = 0, untaggedNested = 0, free = 0, inWith = 0, pinnedChecked = 0, evalPinned = 0, topPinned = 0;
  const declById = res.decls;
  const around = (o) => req.code.slice(Math.max(0, o.start - 40), o.end + 20).replace(/\/\*@S[^*]*\*\//g, '');
  for (const o of res.occ) {
    if (o.raw < 0) free++;
    if (o.tag === undefined) {
      untagged++;
      if (o.role === 'ref' && o.ns === 'id' && o.raw >= 0) { const d = declById[o.raw]; if (!d.top && d.kind !== 'arguments') { untaggedNested++; if (opts.reportUntaggedNested) add('untagged-reference-bound-in-nested-scope', o.name, around(o)); } }
      continue;
    }
    const t = parseTag(o.tag);
    if (!t) { add('bad-tag', o.name, o.tag); continue; }
    tagged++;
    o.t = t;
    if (o.ambiguous) continue;
    if (t.kind === K_MANGLED) { res.propTags.push({ start: o.start, name: o.name, tag: o.tag }); continue; } // shorthand property {k}: the tag names the property, not the variable
    const nsOfTag = t.kind === K_LABEL ? 'label' : PRIVATE_KINDS.has(t.kind) ? 'private' : 'id';
    if (nsOfTag !== o.ns) { add('tag-namespace-mismatch', o.name, `tag kind ${t.kind} on a ${o.ns} occurrence: ${around(o)}`); continue; }
    let e = bySym.get(t.sym); if (!e) { e = { t, groups: new Map(), names: new Set() }; bySym.set(t.sym, e); }
    e.groups.set(o.decl, o); e.names.add(o.name);
    if (o.raw >= 0) { let r = byRaw.get(o.raw); if (!r) { r = new Map(); byRaw.set(o.raw, r); } r.set(t.sym, o); }
    // pinned names
    const printed = o.ns === 'private' ? '#' + o.name : o.name;
    const runtime = t.sym.startsWith('0.'); // a helper from esbuild's own runtime library, not a name of the input
    if (t.flags & 1) { pinnedChecked++; if (printed !== t.orig) add('pinned-symbol-renamed', t.orig, `printed as ${o.name}: ${around(o)}`); }
    if (t.kind === K_UNBOUND && o.name !== t.orig) add('free-name-renamed', t.orig, `printed as ${o.name}: ${around(o)}`);
    if (o.inWith && o.ns === 'id') { inWith++; if (o.name !== t.orig) add('name-inside-with-renamed', t.orig, `printed as ${o.name}: ${around(o)}`); }
    if (o.raw >= 0 && o.ns === 'id') {
      const d = declById[o.raw];
      if (d.evalVisible && !runtime && !opts.skipEvalVisibleRule) { evalPinned++; if (o.name !== t.orig) add('name-visible-to-direct-eval-renamed', t.orig, `printed as ${o.name}: ${around(o)}`); }
      if (opts.pinnedTop && d.top && d.scopeKind === 'program' && !runtime) { topPinned++; if (o.name !== t.orig) add('top-level-name-of-unwrapped-file-renamed', t.orig, `printed as ${o.name}: ${around(o)}`); }
    }
  }
  for (const [sym, e] of bySym) {
    const t = e.t;
    if (t.kind === K_UNBOUND) {
      for (const [g, o] of e.groups) if (g >= 0) add('free-name-captured', t.orig, `reference to the global ${t.orig} now binds to a ${declById[g].kind} declaration in a ${declById[g].scopeKind} scope: ${around(o)}`);
      continue;
    }
    if (e.groups.size > 1) {
      const parts = []; for (const [g, o] of e.groups) parts.push(g < 0 ? `free(${o.name})` : `${declById[g].kind}@scope${declById[g].scope}(${o.name}): ${around(o)}`);
      add(e.groups.has(-1) ? 'bound-symbol-partly-free' : 'one-symbol-two-declarations', t.orig, parts.join(' | '));
    } else if (e.groups.has(-1) && t.kind !== K_ARGUMENTS) {
      const o = e.groups.get(-1);
      if (!RUNTIME_FREE.has(o.name) && !(opts.allowFree && opts.allowFree.includes(o.name))) add('bound-symbol-is-free-in-output', t.orig, `printed as ${o.name}, no declaration in the output: ${around(o)}`);
    }
  }
  for (const [raw, syms] of byRaw) {
    if (syms.size > 1) {
      const d = declById[raw]; const parts = []; let bound = 0;
      for (const [sym, o] of syms) { parts.push(`${sym}:${o.t.orig}->${o.name}`); if (o.t.kind !== K_UNBOUND) bound++; }
      if (bound > 1) add('two-symbols-one-declaration', d.name, `${d.kind} in ${d.scopeKind} scope ${d.scope} is shared by symbols ${parts.join(', ')}: ${around([...syms.values()][1])}`);
    }
  }
  // mangled property tags: one symbol <-> one printed name
  const propBySym = new Map(), propByName = new Map(); let propTagged = 0;
  for (const p of res.propTags) {
    const t = parseTag(p.tag); if (!t || t.kind !== K_MANGLED) continue; propTagged++;
    const a = propBySym.get(t.sym); if (a === undefined) propBySym.set(t.sym, p.name); else if (a !== p.name) add('mangled-property-two-names', t.orig, `${a} and ${p.name}`);
    const b = propByName.get(p.name); if (b === undefined) propByName.set(p.name, t.orig); else if (b !== t.orig) add('two-mangled-properties-one-name', p.name, `${b} and ${t.orig}`);
  }
  const mangled = {}; for (const [n, o] of propByName) mangled[o] = n;
  return { ok: true, violations: viol, stats: { occ: res.occ.length, tagged, untagged, untaggedNested, free, symbols: bySym.size, decls: res.decls.length, scopes: res.scopes, inWith, pinnedChecked, evalPinned, topPinned, evals: res.evals, propTagged, orphanTags: res.orphanTags.length }, mangled, orphan: res.orphanTags.slice(0, 3) };
}

// hook-free: same number of binding occurrences in the same order, and the same partition into declarations
function bindalign(analyze, req) {
  let A, B;
  try { A = analyze(req.a, req.goalA || 'script', false); } catch (e) { return { ok: false, err: 'input: ' + String(e && e.message) }; }
  try { B = analyze(req.b, req.goalB || req.goalA || 'script', false); } catch (e) { return { ok: false, err: 'output: ' + String(e && e.message) }; }
  const fa = A.occ.filter(o => !o.ambiguous), fb = B.occ.filter(o => !o.ambiguous);
  if (fa.length !== fb.length) return { ok: true, aligned: false, na: fa.length, nb: fb.length };
  // when no renaming took place the two occurrence sequences must spell the same names: otherwise they are not the same sequence
  // (esbuild restructured the code, e.g. a block-level function became `let f2 = function…; var f = f2`) and nothing is compared
  if (req.sameNames) for (let i = 0; i < fa.length; i++) if (fa[i].name !== fb[i].name || fa[i].ns !== fb[i].ns) return { ok: true, aligned: false, na: fa.length, nb: fb.length, at: i };
  const viol = []; const mapAB = new Map(), mapBA = new Map();
  const ctx = (code, o) => code.slice(Math.max(0, o.start - 30), o.end + 15);
  for (let i = 0; i < fa.length; i++) {
    const a = fa[i], b = fb[i];
    if (a.ns !== b.ns || a.role !== b.role) return { ok: true, aligned: false, na: fa.length, nb: fb.length, at: i };
    // raw (unmerged) declarations on both sides: a renaming may keep or separate names the language binds separately
    const ka = a.ns + ':' + a.raw, kb = b.ns + ':' + b.raw;
    if ((a.decl < 0) !== (b.decl < 0)) { viol.push({ rule: a.decl < 0 ? 'free-name-captured' : 'bound-name-became-free', name: a.name, detail: `input: ${ctx(req.a, a)} | output: ${ctx(req.b, b)}` }); continue; }
    if (a.decl < 0) { if (a.name !== b.name) viol.push({ rule: 'free-name-renamed', name: a.name, detail: `${a.name} -> ${b.name}` }); continue; }
    const x = mapAB.get(ka); if (x === undefined) mapAB.set(ka, kb); else if (x !== kb) viol.push({ rule: 'one-declaration-split', name: a.name, detail: `input: ${ctx(req.a, a)} | output: ${ctx(req.b, b)}` });
    const y = mapBA.get(kb); if (y === undefined) mapBA.set(kb, ka); else if (y !== ka) viol.push({ rule: 'two-declarations-merged', name: a.name, detail: `input: ${ctx(req.a, a)} | output: ${ctx(req.b, b)}` });
    if (viol.length > 20) break;
  }
  return { ok: true, aligned: true, n: fa.length, decls: mapAB.size, violations: viol };
}

module.exports = { bindcheck, bindalign, parseTag };
