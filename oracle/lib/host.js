'use strict';
// Probe host: runs programs in fresh vm contexts and records a canonical trace of host calls.
const vm = require('vm');
const path = require('path');

const MAX_EVENTS = 200000;

function makeSer(opts) {
  const fnNames = !!(opts && opts.fnNames);
  const objToString = Object.prototype.toString;
  function isErr(v) { try { return objToString.call(v) === '[object Error]'; } catch (e) { return false; } }
  function ser(v, depth, seen) {
    switch (typeof v) {
      case 'undefined': return 'u';
      case 'boolean': return v ? 'T' : 'F';
      case 'number': return Object.is(v, -0) ? '-0' : String(v);
      case 'bigint': return v + 'n';
      case 'string': return JSON.stringify(v);
      case 'symbol': return 'S(' + (v.description === undefined ? '' : JSON.stringify(v.description)) + ')';
      case 'function': {
        if (fnNames) { let n; try { n = Object.getOwnPropertyDescriptor(v, 'name'); n = n && typeof n.value === 'string' ? n.value : '?'; } catch (e) { n = '?'; } return 'fn:' + n; }
        // scopegen gives functions and classes an own `$id` so that a reference identifies its declaration
        let id; try { const d = Object.getOwnPropertyDescriptor(v, '$id'); id = d && typeof d.value === 'number' ? d.value : undefined; } catch (e) {}
        return id === undefined ? 'fn' : 'fn#' + id;
      }
    }
    if (v === null) return 'n';
    if (depth > 6) return '…';
    if (!seen) seen = [];
    const at = seen.indexOf(v);
    if (at >= 0) return '#' + at;
    seen.push(v);
    try {
      if (isErr(v)) {
        let name = 'Error', msg = '';
        try { const n = v.name; if (typeof n === 'string') name = n; } catch (e) {}
        try { const m = v.message; if (typeof m === 'string' && m.charCodeAt(0) === 64) msg = ':' + m; } catch (e) {}
        return 'E(' + name + msg + ')';
      }
      let tag = '';
      try { tag = objToString.call(v); } catch (e) { tag = '[proxy?]'; }
      if (tag === '[object RegExp]') { try { return 'R(' + RegExp.prototype.toString.call(v) + ')'; } catch (e) { /* cross-realm */ }
        try { return 'R(/' + v.source + '/' + v.flags + ')'; } catch (e) { return 'R(?)'; } }
      let keys;
      try { keys = Reflect.ownKeys(v); } catch (e) { return tag + '{?}'; }
      const isArr = Array.isArray(v);
      const parts = [];
      if (isArr) {
        const n = v.length;
        for (let i = 0; i < n && i < 200; i++) {
          const d = Object.getOwnPropertyDescriptor(v, i);
          if (!d) parts.push('h'); else if (d.get || d.set) parts.push('acc'); else parts.push(ser(d.value, depth + 1, seen));
        }
        for (const k of keys) {
          if (k === 'length') continue;
          if (typeof k === 'string' && /^(0|[1-9][0-9]*)$/.test(k) && +k < n) continue;
          const d = Object.getOwnPropertyDescriptor(v, k);
          parts.push(ser(k, depth + 1, seen) + ':' + (d.get || d.set ? 'acc' : ser(d.value, depth + 1, seen)));
        }
        return '[' + parts.join(',') + ']';
      }
      for (const k of keys) {
        const d = Object.getOwnPropertyDescriptor(v, k);
        if (!d) continue;
        parts.push((typeof k === 'symbol' ? ser(k) : JSON.stringify(k)) + (d.enumerable ? '' : '~') + ':' + (d.get || d.set ? 'acc' : ser(d.value, depth + 1, seen)));
      }
      let proto = '';
      try { const p = Object.getPrototypeOf(v); if (p === null) proto = '^null'; } catch (e) {}
      return (tag === '[object Object]' ? '' : tag) + '{' + parts.join(',') + '}' + proto;
    } finally { seen.pop(); }
  }
  return ser;
}

class Overflow extends Error {}

// state: { trace, timers, seq, clock, unhandled }
function makeHost(opts) {
  const ser = makeSer(opts);
  const st = { trace: [], timers: [], seq: 0, clock: 0, unhandled: [], ser, overflow: false };
  const ctx = vm.createContext({}, { name: 'probe' });
  const push = (s) => { if (st.trace.length >= MAX_EVENTS) { st.overflow = true; throw new Overflow('trace overflow'); } st.trace.push(s); };
  const g = ctx;
  Object.defineProperty(g, '$', { value: function (...args) { let s = ''; for (let i = 0; i < args.length; i++) s += (i ? ',' : '') + ser(args[i], 0, null); push(s); return args[args.length - 1]; }, writable: false, enumerable: false, configurable: false });
  const setT = (fn, ms, ...a) => { const id = ++st.seq; ms = +ms; if (!(ms >= 0)) ms = 0; st.timers.push({ id, at: st.clock + ms, fn, a }); return id; };
  const clearT = (id) => { const i = st.timers.findIndex(t => t.id === id); if (i >= 0) st.timers.splice(i, 1); };
  for (const [k, v] of [['setTimeout', setT], ['clearTimeout', clearT], ['setImmediate', (fn, ...a) => setT(fn, 0, ...a)]]) Object.defineProperty(g, k, { value: v, writable: true, enumerable: false, configurable: true });
  // programs must not observe function source text: neutralise it inside the context
  vm.runInContext('Object.defineProperty(Function.prototype, "toString", { value: function toString() { return "function () { [source] }"; }, writable: false, configurable: false });', ctx);
  st.ctx = ctx;
  return st;
}

const tick = () => new Promise(r => setImmediate(r));

async function drain(st) {
  for (let i = 0; i < 20000; i++) {
    await tick();
    if (st.overflow) return;
    if (!st.timers.length) return;
    let bi = 0;
    for (let j = 1; j < st.timers.length; j++) { const a = st.timers[j], b = st.timers[bi]; if (a.at < b.at || (a.at === b.at && a.id < b.id)) bi = j; }
    const t = st.timers.splice(bi, 1)[0];
    st.clock = t.at;
    try { if (typeof t.fn === 'function') t.fn(...t.a); } catch (e) { if (!(e instanceof Overflow)) st.trace.push('uncaught:' + st.ser(e, 0, null)); }
  }
  st.trace.push('drain-limit');
}

function errTerm(st, e, phase) {
  if (e instanceof Overflow) return 'overflow';
  if (e && e.code === 'ERR_SCRIPT_EXECUTION_TIMEOUT') return 'timeout';
  return phase + ':' + st.ser(e, 0, null);
}

function resolveSpec(from, spec, files) {
  let p;
  if (spec.startsWith('./') || spec.startsWith('../')) p = path.posix.join(path.posix.dirname(from), spec);
  else if (spec.startsWith('/')) p = spec;
  else p = spec; // bare: looked up verbatim
  p = p.replace(/[?#].*$/, '');
  if (files[p]) return p;
  for (const ext of ['.js', '.mjs', '.cjs', '.json']) if (files[p + ext]) return p + ext;
  return null;
}

// Run a program: { files: {path:{code,kind}}, entry, kind: script|module|cjs, global, timeout }
// kinds of files: 'esm' | 'cjs' | 'json' | 'script'
async function run(req, current) {
  const st = makeHost(req);
  current.st = st;
  const files = req.files;
  const timeout = req.timeout || 3000;
  let term = 'ok', exportsRec = '';
  const esmCache = new Map(), cjsCache = new Map();
  const { ctx } = st;

  function requireFrom(from) {
    return function require(spec) {
      const p = resolveSpec(from, spec, files);
      if (!p) { const e = new Error('@cannot find ' + spec); throw e; }
      const f = files[p];
      if (f.kind === 'esm') { const e = new Error('@require of esm ' + spec); throw e; }
      return loadCJS(p);
    };
  }
  function loadCJS(p) {
    if (cjsCache.has(p)) return cjsCache.get(p).exports;
    const f = files[p];
    const module = vm.runInContext('({exports:{}})', ctx);
    cjsCache.set(p, module);
    if (f.kind === 'json') { module.exports = vm.runInContext('(' + f.code + '\n)', ctx, { filename: p }); return module.exports; }
    const fn = vm.compileFunction(f.code, ['exports', 'require', 'module', '__filename', '__dirname'], { parsingContext: ctx, filename: p,
      importModuleDynamically: (spec) => dynImport(p, spec) });
    fn.call(module.exports, module.exports, requireFrom(p), module, p, path.posix.dirname(p));
    return module.exports;
  }
  async function dynImport(from, spec) {
    const m = await getESM(from, spec);
    if (m.status === 'unlinked') await m.link(linker);
    if (m.status !== 'evaluated' && m.status !== 'errored') await m.evaluate();
    if (m.status === 'errored') throw m.error;
    return m;
  }
  async function getESM(from, spec) {
    const p = resolveSpec(from, spec, files);
    if (!p) throw new (vm.runInContext('Error', ctx))('@cannot find ' + spec);
    if (esmCache.has(p)) return esmCache.get(p);
    const f = files[p];
    let m;
    if (f.kind === 'esm') {
      m = new vm.SourceTextModule(f.code, { context: ctx, identifier: p, importModuleDynamically: (s) => dynImport(p, s),
        initializeImportMeta(meta) { meta.url = 'file://' + p; } });
    } else {
      // CommonJS / JSON seen from ESM: default = module.exports, plus own enumerable string keys as named exports
      let exp, err = null;
      try { exp = loadCJS(p); } catch (e) { err = e; }
      const names = ['default'];
      if (!err && exp && (typeof exp === 'object' || typeof exp === 'function') && f.kind !== 'json') for (const k of Object.keys(exp)) if (k !== 'default') names.push(k);
      m = new vm.SyntheticModule(names, function () { if (err) throw err; for (const n of names) this.setExport(n, n === 'default' ? exp : exp[n]); }, { context: ctx, identifier: p });
    }
    esmCache.set(p, m);
    return m;
  }
  const linker = (spec, ref) => getESM(ref.identifier, spec);

  try {
    const f = files[req.entry];
    if (req.prelude) vm.runInContext(req.prelude, ctx, { filename: 'prelude.js' });
    if (req.kind === 'module') {
      let m;
      try { m = await getESM('/', req.entry); } catch (e) { term = errTerm(st, e, 'syntax'); m = null; }
      if (m) {
        try { await m.link(linker); } catch (e) { term = errTerm(st, e, 'link'); m = null; }
      }
      if (m) {
        try { await m.evaluate({ timeout }); } catch (e) { term = errTerm(st, e, 'throw'); }
        await drain(st);
        if (m.status === 'evaluated') {
          const ns = m.namespace; const parts = [];
          for (const k of Object.keys(ns).sort()) { let v; try { v = st.ser(ns[k], 0, null); } catch (e) { v = 'TDZ'; } parts.push(JSON.stringify(k) + ':' + v); }
          exportsRec = 'ns{' + parts.join(',') + '}';
        }
      }
    } else if (req.kind === 'cjs') {
      let ok = true;
      try { vm.compileFunction(f.code, ['exports', 'require', 'module', '__filename', '__dirname'], { parsingContext: ctx }); }
      catch (e) { term = errTerm(st, e, 'syntax'); ok = false; }
      if (ok) {
        try { loadCJS(req.entry); } catch (e) { term = errTerm(st, e, 'throw'); }
        await drain(st);
        const m = cjsCache.get(req.entry);
        if (m && term === 'ok') exportsRec = 'cjs' + st.ser(m.exports, 0, null);
      }
    } else {
      let script = null;
      try { script = new vm.Script(f.code, { filename: req.entry, importModuleDynamically: (s) => dynImport(req.entry, s) }); }
      catch (e) { term = errTerm(st, e, 'syntax'); }
      if (script) {
        try { script.runInContext(ctx, { timeout }); } catch (e) { term = errTerm(st, e, 'throw'); }
        await drain(st);
        if (req.global) { try { exportsRec = 'g' + st.ser(vm.runInContext(req.global, ctx), 0, null); } catch (e) { exportsRec = 'g!' + st.ser(e, 0, null); } }
      }
    }
  } catch (e) {
    term = errTerm(st, e, 'host');
  }
  await tick();
  if (st.overflow) term = 'overflow';
  st.unhandled.sort();
  current.st = null;
  return { trace: st.trace, term, exports: exportsRec, unhandled: st.unhandled };
}

// Split a trace into segments at events of the form "[",<id>
function segments(trace) {
  const segs = new Map(); let cur = null; const pre = [];
  for (const ev of trace) {
    if (ev.startsWith('"[",')) { cur = []; segs.set(ev.slice(4), cur); continue; }
    (cur || pre).push(ev);
  }
  return { pre, segs };
}

function compare(a, b, opts) {
  const diffs = [];
  const res = { equal: true, eventsA: a.trace.length, eventsB: b.trace.length, segs: 0, termA: a.term, termB: b.term, diffs };
  if (a.term === 'overflow' || a.term === 'timeout' || b.term === 'overflow' || b.term === 'timeout') { res.inconclusive = true; }
  // dropEvents: events that the options under test allow to disappear (e.g. the body of a call marked pure whose
  // result is unused) are removed from both traces before they are compared
  if (opts && opts.dropEvents) {
    const re = new RegExp(opts.dropEvents);
    a = Object.assign({}, a, { trace: a.trace.filter(e => !re.test(e)) });
    b = Object.assign({}, b, { trace: b.trace.filter(e => !re.test(e)) });
  }
  const sa = segments(a.trace), sb = segments(b.trace);
  res.segs = sa.segs.size;
  // powTol: the language leaves finite results of ** implementation-approximated, so for programs that use it
  // numbers inside events may differ by a few ulps (relative 2e-15); everything else stays exact.
  const numRe = /-?\d+(?:\.\d+)?(?:e[+-]?\d+)?/g;
  const tolEq = (v, w) => {
    if (v === w) return true;
    if (!opts || !opts.powTol) return false;
    const sv = v.replace(numRe, '#'), sw = w.replace(numRe, '#');
    if (sv !== sw) return false;
    const nv = v.match(numRe) || [], nw = w.match(numRe) || [];
    if (nv.length !== nw.length) return false;
    for (let i = 0; i < nv.length; i++) { const a = +nv[i], b = +nw[i]; if (a !== b && !(Math.abs(a - b) <= 2e-15 * Math.max(Math.abs(a), Math.abs(b)))) return false; }
    return true;
  };
  const eqArr = (x, y) => x.length === y.length && x.every((v, i) => tolEq(v, y[i]));
  // a reported difference shows a window of events that starts shortly before the first differing position
  const win = (x, y) => { let i = 0; while (i < x.length && i < y.length && tolEq(x[i], y[i])) i++; const lo = Math.max(0, i - 8); return [x.slice(lo, lo + 60), y.slice(lo, lo + 60), lo]; };
  if (!eqArr(sa.pre, sb.pre)) { const [wa, wb, lo] = win(sa.pre, sb.pre); diffs.push({ seg: '', a: wa, b: wb, at: lo }); }
  for (const [id, ea] of sa.segs) {
    const eb = sb.segs.get(id);
    if (!eb) { diffs.push({ seg: id, a: ea.slice(0, 60), b: null }); continue; }
    if (!eqArr(ea, eb)) { const [wa, wb, lo] = win(ea, eb); diffs.push({ seg: id, a: wa, b: wb, at: lo }); }
    if (diffs.length > 50) break;
  }
  for (const id of sb.segs.keys()) if (!sa.segs.has(id)) { diffs.push({ seg: id, a: null, b: sb.segs.get(id).slice(0, 60) }); if (diffs.length > 50) break; }
  const normTerm = (t) => t.startsWith('syntax:') ? 'syntax' : t;
  if (normTerm(a.term) !== normTerm(b.term)) diffs.push({ seg: '@term', a: [a.term], b: [b.term] });
  if (!opts || !opts.ignoreExports) if (a.exports !== b.exports) diffs.push({ seg: '@exports', a: [a.exports], b: [b.exports] });
  if (!eqArr(a.unhandled, b.unhandled)) diffs.push({ seg: '@unhandled', a: a.unhandled, b: b.unhandled });
  res.equal = diffs.length === 0;
  return res;
}

module.exports = { run, compare, makeSer, segments };
