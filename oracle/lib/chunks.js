'use strict';
// Static facts about emitted JavaScript files: import/export statements parsed by acorn.
module.exports.ops = ({ acorn }) => {
  function facts(code, goal) {
    const ast = acorn.parse(code, { ecmaVersion: 'latest', sourceType: goal === 'module' ? 'module' : 'script', allowHashBang: true, allowReturnOutsideFunction: goal === 'cjs', allowAwaitOutsideFunction: true });
    const out = { staticImports: [], dynamicImports: [], requires: [], exports: [], importedBindings: [], assignsToImport: [] };
    const imported = new Set();
    for (const n of ast.body) {
      if (n.type === 'ImportDeclaration') {
        const names = [];
        for (const sp of n.specifiers) { imported.add(sp.local.name); names.push(sp.type === 'ImportSpecifier' ? (sp.imported.name !== undefined ? sp.imported.name : sp.imported.value) : sp.type === 'ImportDefaultSpecifier' ? 'default' : '*'); }
        out.staticImports.push({ path: n.source.value, names });
      } else if (n.type === 'ExportNamedDeclaration') {
        if (n.source) out.staticImports.push({ path: n.source.value, names: n.specifiers.map(s => s.local.name !== undefined ? s.local.name : s.local.value), reexport: true });
        for (const sp of n.specifiers) out.exports.push(sp.exported.name !== undefined ? sp.exported.name : sp.exported.value);
        if (n.declaration) { if (n.declaration.id) out.exports.push(n.declaration.id.name); else for (const d of n.declaration.declarations || []) collectIds(d.id, out.exports); }
      } else if (n.type === 'ExportDefaultDeclaration') out.exports.push('default');
      else if (n.type === 'ExportAllDeclaration') { out.staticImports.push({ path: n.source.value, names: ['*'], reexport: true }); if (n.exported) out.exports.push(n.exported.name !== undefined ? n.exported.name : n.exported.value); else out.exports.push('*:' + n.source.value); }
    }
    function collectIds(p, into) { if (!p) return; if (p.type === 'Identifier') into.push(p.name); else if (p.type === 'ObjectPattern') p.properties.forEach(q => collectIds(q.value || q.argument, into)); else if (p.type === 'ArrayPattern') p.elements.forEach(q => collectIds(q, into)); else if (p.type === 'AssignmentPattern') collectIds(p.left, into); else if (p.type === 'RestElement') collectIds(p.argument, into); }
    // walk everything for dynamic imports, require calls and assignments to imported names (scope-insensitive: shadowing is rare in bundler output at top level; reported as a hint, the run-time check is authoritative)
    (function walk(node, shadow) {
      if (!node || typeof node.type !== 'string') return;
      if (node.type === 'ImportExpression' && node.source.type === 'Literal') out.dynamicImports.push(node.source.value);
      if (node.type === 'CallExpression' && node.callee.type === 'Identifier' && node.callee.name === 'require' && node.arguments.length === 1 && node.arguments[0].type === 'Literal') out.requires.push(node.arguments[0].value);
      if ((node.type === 'AssignmentExpression' && node.left.type === 'Identifier' && imported.has(node.left.name)) || (node.type === 'UpdateExpression' && node.argument.type === 'Identifier' && imported.has(node.argument.name))) {
        const nm = node.type === 'AssignmentExpression' ? node.left.name : node.argument.name;
        if (!shadow.has(nm)) out.assignsToImport.push(nm);
      }
      let sh = shadow;
      if (node.type === 'FunctionDeclaration' || node.type === 'FunctionExpression' || node.type === 'ArrowFunctionExpression') { sh = new Set(shadow); const ids = []; node.params.forEach(p => collectIds(p, ids)); ids.forEach(i => sh.add(i)); }
      if (node.type === 'VariableDeclarator') { const ids = []; collectIds(node.id, ids); if (sh !== shadow || true) ids.forEach(i => { if (!imported.has(i)) return; }); }
      for (const k of Object.keys(node)) { if (k === 'type') continue; const v = node[k]; if (Array.isArray(v)) v.forEach(c => walk(c, sh)); else if (v && typeof v.type === 'string') walk(v, sh); }
    })(ast, new Set());
    out.importedBindings = [...imported];
    return out;
  }
  return { chunkFacts: async (req) => { try { return { ok: true, facts: facts(req.code, req.goal || 'module') }; } catch (e) { return { ok: false, err: String(e.message) }; } } };
};
