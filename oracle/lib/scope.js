'use strict';
// Independent ECMAScript scope resolver over the acorn AST (written from the language specification;
// shares no code with esbuild). Used by C15 (binding graphs of inputs and outputs).
//
// analyze(code, goal, withTags) ->
//   occ:   one record per identifier occurrence in a binding namespace, sorted by position:
//          { start, end, name, ns: 'id'|'label'|'private', role: 'decl'|'ref', raw: <decl id>|-1 (free), decl: <merged decl id>|-1,
//            inWith, ambiguous, tag }
//   decls: { id, name, ns, scope, scopeKind, kind, top, evalVisible, group }
//   propTags: tagged property-name tokens (mangled properties, namespace aliases)
// "raw" declarations follow the specification exactly. "group" merges bindings that every consistent
// renaming must keep together although the language makes them two bindings:
//   - a sloppy-mode function declaration in a block and its Annex B function-level `var` binding.
// Other coincidences are already one binding here: a `var`/function in a function body named like a parameter
// shares the parameter's binding; a class declaration's inner name binding is its outer binding.

function makeAnalyzer(acorn) {
  return function analyze(code, goal, withTags) {
    const tagComments = [];
    const ast = acorn.parse(code, { ecmaVersion: 'latest', sourceType: goal === 'module' ? 'module' : 'script', allowHashBang: true,
      allowReturnOutsideFunction: goal === 'cjs', allowAwaitOutsideFunction: true, allowSuperOutsideMethod: true,
      onComment: withTags ? (block, text, start, end) => { if (block && text.charCodeAt(0) === 64 && text.charCodeAt(1) === 83) tagComments.push({ text, start, end }); } : undefined });
    const tagAt = new Map();
    const isWs = (c) => c === 32 || c === 10 || c === 9 || c === 13;
    for (const c of tagComments) { let e = c.end; while (e < code.length && isWs(code.charCodeAt(e))) e++; tagAt.set(e, c.text.slice(2)); }
    const usedTags = new Set();
    const tagFor = (pos) => { const t = tagAt.get(pos); if (t !== undefined) usedTags.add(pos); return t; };

    const scopes = []; const decls = []; const occ = []; const refs = []; const evals = []; const propTags = []; const varSites = []; const annexB = [];
    function newScope(kind, parent, extra) {
      const s = Object.assign({ id: scopes.length, kind, parent, names: new Map(), privates: null, strict: parent ? parent.strict : false, node: null }, extra || {});
      scopes.push(s); return s;
    }
    function hasUseStrict(body) { for (const st of body) { if (st.type === 'ExpressionStatement' && typeof st.directive === 'string') { if (st.directive === 'use strict') return true; } else break; } return false; }
    // the scope that receives `var` declarations made inside s
    function varScopeOf(s) { while (s.kind !== 'fnbody' && s.kind !== 'program' && s.kind !== 'static' && s.kind !== 'field') s = s.parent; return s; }
    function isVarTop(s) { return s.kind === 'fnbody' || s.kind === 'program' || s.kind === 'static'; }
    function mkDecl(scope, name, kind, ns) { const d = { id: decls.length, name, ns: ns || 'id', scope: scope.id, scopeKind: scope.kind, kind }; decls.push(d); return d; }
    function declareIn(scope, name, kind) {
      let d = scope.names.get(name);
      if (!d) { d = mkDecl(scope, name, kind); scope.names.set(name, d); }
      return d;
    }
    function pushOcc(node, ns, role, rawId, extra) { const o = Object.assign({ start: node.start, end: node.end, name: node.name, ns, role, raw: rawId, decl: rawId, inWith: false, tag: tagFor(node.start) }, extra || {}); occ.push(o); return o; }
    // var-like declaration (var statement, top-level function declaration) made while in `scope`
    function declareVar(scope, idNode, kind) {
      const vs = varScopeOf(scope);
      let target = vs;
      // a var/function in a function body named like a parameter (or like `arguments`) shares that binding
      if (vs.kind === 'fnbody') { const ps = vs.parent; if (ps.names.has(idNode.name) || (idNode.name === 'arguments' && ps.implicitArguments)) { target = ps; if (!ps.names.has(idNode.name)) declareIn(ps, 'arguments', 'arguments'); } }
      const d = declareIn(target, idNode.name, kind);
      const o = pushOcc(idNode, 'id', 'decl', d.id);
      varSites.push({ o, scope, name: idNode.name, d });
      return d;
    }
    function declareLex(scope, idNode, kind) { const d = declareIn(scope, idNode.name, kind); pushOcc(idNode, 'id', 'decl', d.id); return d; }

    let labels = []; // innermost last; reset at function boundaries
    function declarePattern(p, scope, kind, ctx) {
      if (!p) return;
      switch (p.type) {
        case 'Identifier': if (kind === 'var') declareVar(scope, p, 'var'); else declareLex(scope, p, kind); return;
        case 'ObjectPattern': for (const q of p.properties) { if (q.type === 'RestElement') declarePattern(q.argument, scope, kind, ctx); else { if (q.computed) visit(q.key, scope, ctx); else if (!q.shorthand) keyTag(q.key); declarePattern(q.value, scope, kind, ctx); } } return;
        case 'ArrayPattern': for (const q of p.elements) declarePattern(q, scope, kind, ctx); return;
        case 'RestElement': declarePattern(p.argument, scope, kind, ctx); return;
        case 'AssignmentPattern': declarePattern(p.left, scope, kind, ctx); visit(p.right, scope, ctx); return;
        default: visit(p, scope, ctx);
      }
    }
    function visitTarget(p, scope, ctx) {
      if (!p) return;
      switch (p.type) {
        case 'Identifier': ref(scope, p, ctx); return;
        case 'ObjectPattern': for (const q of p.properties) { if (q.type === 'RestElement') visitTarget(q.argument, scope, ctx); else { if (q.computed) visit(q.key, scope, ctx); else if (!q.shorthand) keyTag(q.key); visitTarget(q.value, scope, ctx); } } return;
        case 'ArrayPattern': for (const q of p.elements) visitTarget(q, scope, ctx); return;
        case 'RestElement': visitTarget(p.argument, scope, ctx); return;
        case 'AssignmentPattern': visitTarget(p.left, scope, ctx); visit(p.right, scope, ctx); return;
        default: visit(p, scope, ctx);
      }
    }
    function keyTag(k) { if (k && (k.type === 'Identifier' || k.type === 'Literal')) { const t = tagFor(k.start); if (t !== undefined) propTags.push({ start: k.start, name: k.type === 'Identifier' ? k.name : String(k.value), tag: t }); } }
    function ref(scope, node, ctx, ns) { refs.push({ scope, node, inWith: ctx.inWith, ns: ns || 'id' }); }

    function visitFunction(fn, scope, isArrow) {
      const ps = newScope('fnparams', scope, { node: fn, implicitArguments: !isArrow });
      const bodyIsBlock = fn.body.type === 'BlockStatement';
      if (bodyIsBlock && hasUseStrict(fn.body.body)) ps.strict = true;
      const ctx = { inWith: false };
      const saved = labels; labels = [];
      for (const p of fn.params) declarePattern(p, ps, 'param', ctx);
      if (bodyIsBlock) { const bs = newScope('fnbody', ps, { node: fn }); for (const st of fn.body.body) visit(st, bs, ctx); }
      else visit(fn.body, ps, ctx);
      labels = saved;
    }
    function visitClass(cls, scope, ctx, isDecl) {
      if (isDecl && cls.id) declareLex(scope, cls.id, 'class');
      const cs = newScope('class', scope); cs.strict = true;
      if (!isDecl && cls.id) declareLex(cs, cls.id, 'classexpr');
      if (cls.superClass) visit(cls.superClass, cs, ctx);
      for (const m of cls.body.body) if (m.type !== 'StaticBlock' && m.key && m.key.type === 'PrivateIdentifier') {
        const t = cs.privates || (cs.privates = new Map());
        let d = t.get(m.key.name); if (!d) { d = mkDecl(cs, m.key.name, 'private', 'private'); t.set(m.key.name, d); }
        pushOcc(m.key, 'private', 'decl', d.id);
      }
      for (const m of cls.body.body) {
        if (m.type === 'StaticBlock') { const ss = newScope('static', cs); const saved = labels; labels = []; for (const st of m.body) visit(st, ss, { inWith: false }); labels = saved; continue; }
        if (m.computed) visit(m.key, cs, ctx); else if (m.key.type !== 'PrivateIdentifier') keyTag(m.key);
        if (m.type === 'MethodDefinition') visitFunction(m.value, cs, false);
        else if (m.value) { const fs = newScope('field', cs); const saved = labels; labels = []; visit(m.value, fs, { inWith: false }); labels = saved; }
      }
    }
    function visitBlock(stmts, scope, ctx) { const bs = newScope('block', scope); for (const st of stmts) visit(st, bs, ctx); }
    function functionDeclaration(n, scope, ctx) {
      if (!n.id) { visitFunction(n, scope, false); return; } // export default function () {}
      if (isVarTop(scope)) declareVar(scope, n.id, 'function');
      else if (scope.strict || n.async || n.generator) declareLex(scope, n.id, 'function');
      else { const d = declareLex(scope, n.id, 'function'); annexB.push({ scope, name: n.id.name, d }); }
      visitFunction(n, scope, false);
    }

    function visit(n, scope, ctx) {
      if (!n) return;
      switch (n.type) {
        case 'Identifier': ref(scope, n, ctx); return;
        case 'PrivateIdentifier': ref(scope, n, ctx, 'private'); return;
        case 'Literal': keyTag(n); return; // a tagged string literal is a mangled property name used as a value ('k' in o)
        case 'ThisExpression': case 'Super': case 'EmptyStatement': case 'DebuggerStatement': case 'TemplateElement': case 'MetaProperty': return;
        case 'ExpressionStatement': visit(n.expression, scope, ctx); return;
        case 'BlockStatement': visitBlock(n.body, scope, ctx); return;
        case 'WithStatement': visit(n.object, scope, ctx); visitSub(n.body, scope, { inWith: true }); return;
        case 'ReturnStatement': case 'ThrowStatement': case 'SpreadElement': case 'YieldExpression': case 'AwaitExpression': case 'UnaryExpression': visit(n.argument, scope, ctx); return;
        case 'ChainExpression': case 'ParenthesizedExpression': visit(n.expression, scope, ctx); return;
        case 'UpdateExpression': visitTarget(n.argument, scope, ctx); return;
        case 'LabeledStatement': {
          const d = mkDecl(scope, n.label.name, 'label', 'label');
          pushOcc(n.label, 'label', 'decl', d.id);
          labels.push({ name: n.label.name, d }); visit(n.body, scope, ctx); labels.pop(); return;
        }
        case 'BreakStatement': case 'ContinueStatement':
          if (n.label) { let d = null; for (let i = labels.length - 1; i >= 0; i--) if (labels[i].name === n.label.name) { d = labels[i].d; break; } pushOcc(n.label, 'label', 'ref', d ? d.id : -1); }
          return;
        case 'IfStatement': visit(n.test, scope, ctx); visitSub(n.consequent, scope, ctx); visitSub(n.alternate, scope, ctx); return;
        case 'SwitchStatement': { visit(n.discriminant, scope, ctx); const bs = newScope('block', scope); for (const c of n.cases) { visit(c.test, bs, ctx); for (const s of c.consequent) visit(s, bs, ctx); } return; }
        case 'TryStatement':
          visit(n.block, scope, ctx);
          if (n.handler) { const cs = newScope('catch', scope); if (n.handler.param) declarePattern(n.handler.param, cs, n.handler.param.type === 'Identifier' ? 'catch' : 'catchpattern', ctx); visitBlock(n.handler.body.body, cs, ctx); }
          visit(n.finalizer, scope, ctx); return;
        case 'WhileStatement': visit(n.test, scope, ctx); visitSub(n.body, scope, ctx); return;
        case 'DoWhileStatement': visitSub(n.body, scope, ctx); visit(n.test, scope, ctx); return;
        case 'ForStatement': {
          let fs = scope; if (n.init && n.init.type === 'VariableDeclaration' && n.init.kind !== 'var') fs = newScope('for', scope);
          visit(n.init, fs, ctx); visit(n.test, fs, ctx); visit(n.update, fs, ctx); visitSub(n.body, fs, ctx); return;
        }
        case 'ForInStatement': case 'ForOfStatement': {
          let fs = scope;
          if (n.left.type === 'VariableDeclaration') { if (n.left.kind !== 'var') fs = newScope('for', scope); visit(n.left, fs, ctx); }
          else visitTarget(n.left, scope, ctx);
          visit(n.right, fs, ctx); visitSub(n.body, fs, ctx); return;
        }
        case 'FunctionDeclaration': functionDeclaration(n, scope, ctx); return;
        case 'FunctionExpression': { let s = scope; if (n.id) { s = newScope('fnexpr', scope); declareLex(s, n.id, 'fnexpr'); } visitFunction(n, s, false); return; }
        case 'ArrowFunctionExpression': visitFunction(n, scope, true); return;
        case 'VariableDeclaration': for (const d of n.declarations) { declarePattern(d.id, scope, n.kind === 'var' ? 'var' : (n.kind === 'const' ? 'const' : 'let'), ctx); visit(d.init, scope, ctx); } return;
        case 'ClassDeclaration': visitClass(n, scope, ctx, true); return;
        case 'ClassExpression': visitClass(n, scope, ctx, false); return;
        case 'ImportDeclaration': for (const sp of n.specifiers) declareLex(scope, sp.local, 'import'); return;
        case 'ExportNamedDeclaration': if (n.declaration) visit(n.declaration, scope, ctx); else if (!n.source) for (const sp of n.specifiers) { if (sp.local.type === 'Identifier') ref(scope, sp.local, ctx); } return;
        case 'ExportDefaultDeclaration': visit(n.declaration, scope, ctx); return;
        case 'ExportAllDeclaration': return;
        case 'ArrayExpression': for (const e of n.elements) visit(e, scope, ctx); return;
        case 'ObjectExpression':
          for (const p of n.properties) {
            if (p.type === 'SpreadElement') { visit(p.argument, scope, ctx); continue; }
            if (p.computed) visit(p.key, scope, ctx); else if (!p.shorthand) keyTag(p.key);
            if (p.method || p.kind === 'get' || p.kind === 'set') visitFunction(p.value, scope, false);
            else if (p.shorthand && p.value.type === 'AssignmentPattern') { visit(p.value.left, scope, ctx); visit(p.value.right, scope, ctx); }
            else visit(p.value, scope, ctx);
          }
          return;
        case 'BinaryExpression': case 'LogicalExpression': visit(n.left, scope, ctx); visit(n.right, scope, ctx); return;
        case 'AssignmentExpression': visitTarget(n.left, scope, ctx); visit(n.right, scope, ctx); return;
        case 'MemberExpression': visit(n.object, scope, ctx); if (n.computed) visit(n.property, scope, ctx); else if (n.property.type === 'PrivateIdentifier') ref(scope, n.property, ctx, 'private'); else keyTag(n.property); return;
        case 'ConditionalExpression': visit(n.test, scope, ctx); visit(n.consequent, scope, ctx); visit(n.alternate, scope, ctx); return;
        case 'CallExpression': case 'NewExpression':
          if (n.type === 'CallExpression' && n.callee.type === 'Identifier' && n.callee.name === 'eval' && !n.optional) evals.push({ scope, start: n.start });
          visit(n.callee, scope, ctx); for (const a of n.arguments) visit(a, scope, ctx); return;
        case 'SequenceExpression': for (const e of n.expressions) visit(e, scope, ctx); return;
        case 'TemplateLiteral': for (const e of n.expressions) visit(e, scope, ctx); return;
        case 'TaggedTemplateExpression': visit(n.tag, scope, ctx); visit(n.quasi, scope, ctx); return;
        case 'ImportExpression': visit(n.source, scope, ctx); if (n.options) visit(n.options, scope, ctx); return;
        case 'AssignmentPattern': case 'ObjectPattern': case 'ArrayPattern': case 'RestElement': visitTarget(n, scope, ctx); return;
        default: throw new Error('scope: unhandled node type ' + n.type);
      }
    }
    // a statement in a sub-statement position: a function declaration there (sloppy mode) behaves as if wrapped in a block
    function visitSub(n, scope, ctx) {
      if (!n) return;
      if (n.type === 'FunctionDeclaration') { const bs = newScope('block', scope); visit(n, bs, ctx); return; }
      visit(n, scope, ctx);
    }

    const top = newScope('program', null, { module: goal === 'module' });
    top.strict = goal === 'module' || hasUseStrict(ast.body);
    for (const st of ast.body) visit(st, top, { inWith: false });

    // ---- merging (groups)
    const parentOf = new Map();
    const find = (d) => { while (parentOf.has(d)) d = parentOf.get(d); return d; };
    const isLexKind = (k) => k === 'let' || k === 'const' || k === 'class';
    for (const a of annexB) {
      const vs = varScopeOf(a.scope);
      let blocked = false;
      for (let t = a.scope.parent; t; t = t.parent) {
        const e = t.names.get(a.name);
        if (e && e !== a.d) {
          if (t === vs) { if (isLexKind(e.kind)) blocked = true; }
          else if (t.kind === 'catch') { if (e.kind === 'catchpattern') blocked = true; }
          else if (isLexKind(e.kind) || e.kind === 'function') blocked = true;
        }
        if (t === vs) break;
      }
      if (vs.kind === 'fnbody' && (vs.parent.names.has(a.name))) blocked = true; // parameter of the same name: no var binding is added
      if (blocked) continue;
      let t = vs.names.get(a.name);
      if (!t) { t = mkDecl(vs, a.name, 'var'); t.synthetic = true; vs.names.set(a.name, t); }
      if (find(t) !== find(a.d)) parentOf.set(find(a.d), find(t));
    }
    // a function expression's own name and a parameter / body-level var of the same name: the inner one shadows the name
    // everywhere it is visible, so a consistent renaming keeps them together
    for (const s of scopes) if (s.kind === 'fnexpr') {
      for (const [name, d] of s.names) for (const c of scopes) if ((c.kind === 'fnparams' && c.parent === s) || (c.kind === 'fnbody' && c.parent.parent === s)) {
        const e = c.names.get(name);
        if (e && (e.kind === 'param' || e.kind === 'var' || e.kind === 'function') && find(e) !== find(d)) parentOf.set(find(d), find(e));
      }
    }
    // ---- resolve references
    function lookup(scope, name, ns) {
      if (ns === 'private') { for (let s = scope; s; s = s.parent) if (s.privates && s.privates.has(name)) return s.privates.get(name); return null; }
      for (let s = scope; s; s = s.parent) {
        const e = s.names.get(name); if (e) return e;
        if (s.kind === 'fnparams' && s.implicitArguments && name === 'arguments') { const d = mkDecl(s, name, 'arguments'); d.synthetic = true; s.names.set(name, d); return d; }
      }
      return null;
    }
    for (const r of refs) { const d = lookup(r.scope, r.node.name, r.ns); pushOcc(r.node, r.ns, 'ref', d ? d.id : -1, { inWith: r.inWith }); }
    // a `var x` written where a nearer binding of x exists (catch parameter): the declarator's initialiser assigns the nearer binding
    for (const v of varSites) { const d = lookup(v.scope, v.name, 'id'); if (d && d !== v.d) v.o.ambiguous = true; }
    for (const o of occ) if (o.raw >= 0) o.decl = find(decls[o.raw]).id;
    const evalVisible = new Set();
    for (const e of evals) for (let s = e.scope; s; s = s.parent) for (const d of s.names.values()) evalVisible.add(d.id);
    const topIds = new Set(); for (const d of top.names.values()) topIds.add(d.id);
    const w = findWrapper(ast); let wrapperScope = -1;
    if (w) for (const s of scopes) if (s.node === w && s.kind === 'fnbody') { wrapperScope = s.id; for (const d of s.names.values()) topIds.add(d.id); }
    occ.sort((a, b) => a.start - b.start);
    const orphanTags = []; for (const [pos, t] of tagAt) if (!usedTags.has(pos)) orphanTags.push({ pos, tag: t, next: code.slice(pos, pos + 20) });
    return { occ, decls: decls.map(d => ({ id: d.id, name: d.name, ns: d.ns, scope: d.scope, scopeKind: d.scopeKind, kind: d.kind, top: topIds.has(d.id), evalVisible: evalVisible.has(d.id), group: find(d).id })),
      propTags, evals: evals.length, scopes: scopes.length, wrapperScope, orphanTags, strict: top.strict };
  };
}

function findWrapper(ast) {
  // `(() => { ... })();`, `var g = (() => { ... })();` or the function forms, as the only non-directive statement of the file
  const body = ast.body.filter(s => !(s.type === 'ExpressionStatement' && typeof s.directive === 'string'));
  if (body.length !== 1) return null;
  let e = null; const s = body[0];
  if (s.type === 'ExpressionStatement') e = s.expression;
  else if (s.type === 'VariableDeclaration' && s.declarations.length === 1) e = s.declarations[0].init;
  if (e && e.type === 'CallExpression' && (e.callee.type === 'ArrowFunctionExpression' || e.callee.type === 'FunctionExpression')) return e.callee;
  return null;
}

module.exports.makeAnalyzer = makeAnalyzer;
module.exports.ops = ({ acorn }) => {
  const analyze = makeAnalyzer(acorn);
  const rules = require('./scoperules');
  return {
    scope: async (req) => { try { return { ok: true, res: analyze(req.code, req.goal || 'script', !!req.tags) }; } catch (e) { return { ok: false, err: String(e && e.message) }; } },
    // free identifier references of a program (names that resolve to no declaration), minus the engine's own globals
    freenames: async (req) => {
      try {
        const res = analyze(req.code, req.goal || 'script', false);
        const builtins = new Set(Object.getOwnPropertyNames(globalThis));
        const names = new Set();
        for (const o of res.occ) if (o.ns === 'id' && o.role === 'ref' && o.raw === -1 && !builtins.has(o.name)) names.add(o.name);
        return { ok: true, names: [...names].sort() };
      } catch (e) { return { ok: false, err: String(e && e.message) }; }
    },
    bindcheck: async (req) => rules.bindcheck(analyze, req),
    bindalign: async (req) => rules.bindalign(analyze, req),
  };
};
