'use strict';
// Target-syntax gate (acorn ecmaVersion) and a syntax-feature detector written from the ECMAScript editions.
module.exports.ops = ({ acorn, walk }) => {
  function simpleWalk(node, fn, parent) {
    if (!node || typeof node.type !== 'string') return;
    fn(node, parent);
    for (const k of Object.keys(node)) {
      if (k === 'type' || k === 'start' || k === 'end' || k === 'loc' || k === 'range') continue;
      const v = node[k];
      if (Array.isArray(v)) { for (const c of v) if (c && typeof c.type === 'string') simpleWalk(c, fn, node); }
      else if (v && typeof v.type === 'string') simpleWalk(v, fn, node);
    }
  }
  function parseLatest(code, goal) {
    const opts = { ecmaVersion: 'latest', sourceType: goal === 'module' ? 'module' : 'script', allowHashBang: true, allowReturnOutsideFunction: goal === 'cjs', allowAwaitOutsideFunction: goal === 'module' };
    return acorn.parse(code, opts);
  }
  // features present in an AST: name -> count
  function detect(ast, code) {
    const f = {};
    const hit = (n) => { f[n] = (f[n] || 0) + 1; };
    simpleWalk(ast, (n, parent) => {
      switch (n.type) {
        case 'ChainExpression': hit('optional-chain'); break;
        case 'LogicalExpression': if (n.operator === '??') hit('nullish-coalescing'); break;
        case 'AssignmentExpression': if (n.operator === '||=' || n.operator === '&&=' || n.operator === '??=') hit('logical-assignment'); if (n.operator === '**=') hit('exponent-operator'); break;
        case 'BinaryExpression': if (n.operator === '**') hit('exponent-operator'); if (n.left && n.left.type === 'PrivateIdentifier') hit('class-private-brand-check'); break;
        case 'SpreadElement': if (parent && parent.type === 'ObjectExpression') hit('object-rest-spread'); break;
        case 'RestElement': if (parent && parent.type === 'ObjectPattern') hit('object-rest-spread'); break;
        case 'FunctionDeclaration': case 'FunctionExpression': case 'ArrowFunctionExpression':
          if (n.async && n.generator) hit('async-generator'); else if (n.async) hit('async-await');
          if (n.type === 'ArrowFunctionExpression') hit('arrow');
          break;
        case 'AwaitExpression': { hit('async-await'); break; }
        case 'ForOfStatement': if (n.await) hit('for-await'); break;
        case 'PropertyDefinition':
          if (n.key && n.key.type === 'PrivateIdentifier') hit(n.static ? 'class-private-static-field' : 'class-private-field');
          else hit(n.static ? 'class-static-field' : 'class-field');
          break;
        case 'MethodDefinition':
          if (n.key && n.key.type === 'PrivateIdentifier') {
            if (n.kind === 'get' || n.kind === 'set') hit(n.static ? 'class-private-static-accessor' : 'class-private-accessor');
            else hit(n.static ? 'class-private-static-method' : 'class-private-method');
          }
          break;
        case 'StaticBlock': hit('class-static-blocks'); break;
        case 'CatchClause': if (!n.param) hit('optional-catch-binding'); break;
        case 'ImportExpression': hit('dynamic-import'); break;
        case 'MetaProperty': if (n.meta.name === 'import') hit('import-meta'); else hit('new-target'); break;
        case 'Literal':
          if (typeof n.bigint === 'string') hit('bigint');
          else if (typeof n.value === 'number' && /_/.test(code.slice(n.start, n.end))) hit('numeric-separators');
          else if (n.regex) {
            const fl = n.regex.flags;
            if (fl.includes('s')) hit('regexp-dot-all-flag');
            if (fl.includes('d')) hit('regexp-match-indices');
            if (fl.includes('v')) hit('regexp-set-notation');
            if (fl.includes('y')) hit('regexp-sticky-and-unicode-flags');
            if (/\(\?<[^=!]/.test(n.regex.pattern)) hit('regexp-named-capture-groups');
            if (/\(\?<[=!]/.test(n.regex.pattern)) hit('regexp-lookbehind-assertions');
            if (/\\[pP]\{/.test(n.regex.pattern)) hit('regexp-unicode-property-escapes');
          }
          break;
        case 'TemplateLiteral': hit('template-literal'); break;
        case 'ExportAllDeclaration': if (n.exported) hit('export-star-as'); break;
        case 'ClassDeclaration': case 'ClassExpression': hit('class'); break;
      }
      if (n.type === 'ImportDeclaration' || n.type === 'ExportNamedDeclaration' || n.type === 'ExportAllDeclaration') {
        if (n.attributes && n.attributes.length) hit('import-attributes');
        for (const s of n.specifiers || []) { for (const k of ['imported', 'exported', 'local']) if (s[k] && s[k].type === 'Literal') hit('arbitrary-module-namespace-names'); }
      }
    });
    if (ast.sourceType === 'module') simpleWalk(ast, (n, parent) => {});
    return f;
  }
  // top-level await: AwaitExpression / for await not inside any function
  function hasTopLevelAwait(ast) {
    let found = false;
    (function rec(node, inFn) {
      if (!node || typeof node.type !== 'string' || found) return;
      if (!inFn && (node.type === 'AwaitExpression' || (node.type === 'ForOfStatement' && node.await))) { found = true; return; }
      const fn = inFn || node.type === 'FunctionDeclaration' || node.type === 'FunctionExpression' || node.type === 'ArrowFunctionExpression' || node.type === 'StaticBlock' || node.type === 'PropertyDefinition';
      for (const k of Object.keys(node)) { const v = node[k]; if (Array.isArray(v)) v.forEach(c => rec(c, fn)); else if (v && typeof v.type === 'string') rec(v, fn); }
    })(ast, false);
    return found;
  }
  return {
    // gate: { code, goal, year } -> parses at 'latest', blanks the documented pass-through nodes, parses at the target year
    gate: async (req) => {
      let ast;
      try { ast = parseLatest(req.code, req.goal); } catch (e) { return { latest_ok: false, err: String(e.message), around: typeof e.pos === 'number' ? req.code.slice(Math.max(0, e.pos - 60), e.pos + 40) : '' }; }
      const feats = detect(ast, req.code);
      const tla = hasTopLevelAwait(ast);
      const edits = [];
      simpleWalk(ast, (n) => {
        if (n.type === 'ImportExpression') edits.push([n.start, n.start + 6, '__port']);
        else if (n.type === 'Literal' && typeof n.bigint === 'string') edits.push([n.start, n.end, req.code.slice(n.start, n.end - 1) + ' ']);
        else if (n.type === 'MetaProperty' && n.meta.name === 'import') edits.push([n.start, n.end, 'import_meta']);
      });
      edits.sort((a, b) => b[0] - a[0]);
      let blank = req.code;
      for (const [s, e, t] of edits) blank = blank.slice(0, s) + t + blank.slice(e);
      if (blank.startsWith('#!')) blank = '//' + blank.slice(2);
      const res = { latest_ok: true, features: feats, topLevelAwait: tla, passthrough: edits.length };
      try {
        acorn.parse(blank, { ecmaVersion: req.year, sourceType: req.goal === 'module' ? 'module' : 'script', allowReturnOutsideFunction: req.goal === 'cjs', allowAwaitOutsideFunction: req.goal === 'module' && tla && req.year >= 2022 });
        res.ok = true;
      } catch (e) {
        res.ok = false; res.err = String(e.message); res.pos = e.pos;
        if (typeof e.pos === 'number') res.around = blank.slice(Math.max(0, e.pos - 60), e.pos + 40);
      }
      return res;
    },
    features: async (req) => {
      try { const ast = parseLatest(req.code, req.goal); return { ok: true, features: detect(ast, req.code), topLevelAwait: hasTopLevelAwait(ast) }; }
      catch (e) { return { ok: false, err: String(e.message) }; }
    },
  };
};
