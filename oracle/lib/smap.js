'use strict';
// Source-map monitor for C07: own VLQ decoder/encoder, acorn token tables with UTF-16 line/column positions,
// marker-based truth check of every mapping. Shares no code with esbuild.

const B64 = 'ABCDEFGHIJKLMNOPQRSTUVWXYZabcdefghijklmnopqrstuvwxyz0123456789+/';
const B64V = new Map([...B64].map((c, i) => [c, i]));

function decodeMappings(str) {
  // -> { lines: [[{gc, src, ol, oc, name}|{gc}]], error }
  const lines = [[]]; let i = 0; const n = str.length;
  let src = 0, ol = 0, oc = 0, name = 0, gc = 0;
  while (i < n) {
    const c = str[i];
    if (c === ';') { lines.push([]); gc = 0; i++; continue; }
    if (c === ',') { i++; continue; }
    const fields = [];
    while (i < n && str[i] !== ',' && str[i] !== ';') {
      let shift = 0, value = 0, digit;
      do {
        if (i >= n) return { error: 'truncated VLQ at ' + i };
        digit = B64V.get(str[i++]);
        if (digit === undefined) return { error: 'invalid base64 character ' + JSON.stringify(str[i - 1]) + ' at ' + (i - 1) };
        value += (digit & 31) * Math.pow(2, shift); shift += 5;
        if (shift > 40) return { error: 'VLQ too long at ' + i };
      } while (digit & 32);
      const neg = value % 2 === 1; value = Math.floor(value / 2);
      fields.push(neg ? -value : value);
    }
    if (fields.length !== 1 && fields.length !== 4 && fields.length !== 5) return { error: 'segment with ' + fields.length + ' fields on generated line ' + (lines.length - 1) };
    gc += fields[0];
    const seg = { gc };
    if (fields.length >= 4) { src += fields[1]; ol += fields[2]; oc += fields[3]; seg.src = src; seg.ol = ol; seg.oc = oc; }
    if (fields.length === 5) { name += fields[4]; seg.name = name; }
    lines[lines.length - 1].push(seg);
  }
  return { lines };
}

function encodeVLQ(v) {
  let x = v < 0 ? ((-v) << 1) | 1 : v << 1; let out = '';
  do { let d = x & 31; x >>>= 5; if (x) d |= 32; out += B64[d]; } while (x);
  return out;
}

// line table with the line terminators of the language: JS: \n, \r\n, \r, U+2028, U+2029; CSS: \n, \r\n, \r, \f
function lineStarts(text, css) {
  const starts = [0];
  for (let i = 0; i < text.length; i++) {
    const c = text.charCodeAt(i);
    if (c === 13) { if (text.charCodeAt(i + 1) === 10) i++; starts.push(i + 1); }
    else if (c === 10 || (!css && (c === 0x2028 || c === 0x2029)) || (css && c === 12)) starts.push(i + 1);
  }
  return starts;
}
function posOf(starts, off) { let lo = 0, hi = starts.length - 1; while (lo < hi) { const m = (lo + hi + 1) >> 1; if (starts[m] <= off) lo = m; else hi = m - 1; } return { line: lo, col: off - starts[lo] }; }
function offOf(starts, line, col, len) { if (line < 0 || line >= starts.length) return -1; const o = starts[line] + col; const end = line + 1 < starts.length ? starts[line + 1] : len + 1; if (col < 0 || o > len || o >= end + 0 && line + 1 < starts.length && o > end) return -1; return o; }

function jsTokens(acorn, code, goal) {
  const toks = [];
  const text = code.charCodeAt(0) === 0xFEFF ? ' ' + code.slice(1) : code; // a BOM is not a token; keep offsets
  const opts = { ecmaVersion: 'latest', sourceType: goal === 'script' ? 'script' : 'module', allowHashBang: true, allowReturnOutsideFunction: true, allowAwaitOutsideFunction: true, allowSuperOutsideMethod: true, allowImportExportEverywhere: true,
    onToken: (t) => { let v = t.value; let kind = t.type.label; if (kind === 'name' || kind === 'privateId' || t.type.keyword) { v = t.type.keyword || (kind === 'privateId' ? '#' + v : String(v)); kind = 'name'; } else if (kind === 'string') { kind = 'value'; v = 's:' + v; } else if (kind === 'num') { kind = 'value'; v = 'n:' + v; } else if (kind === 'template') { kind = 'value'; v = 's:' + v; } else v = undefined;
      toks.push({ start: t.start, end: t.end, kind, v }); },
    onComment: (block, txt, start, end) => { toks.push({ start, end, kind: 'comment' }); } };
  acorn.parse(text, opts);
  toks.sort((a, b) => a.start - b.start);
  return toks;
}

// a small CSS tokenizer (CSS Syntax 3 token starts): comments, strings, identifier-like tokens (with their leading
// '.', '#', '@' or '--', which is where esbuild's mappings point), numbers with units, single-character punctuation
function cssTokens(code) {
  const toks = []; const n = code.length; let i = code.charCodeAt(0) === 0xFEFF ? 1 : 0;
  const isWs = (c) => c === 32 || c === 9 || c === 10 || c === 13 || c === 12;
  const identStart = /[A-Za-z_\u0080-\uffff\\]/, identChar = /[-\w\u0080-\uffff\\]/;
  while (i < n) {
    const c = code[i];
    if (isWs(code.charCodeAt(i))) { i++; continue; }
    if (c === '/' && code[i + 1] === '*') { const e = code.indexOf('*/', i + 2); const end = e < 0 ? n : e + 2; toks.push({ start: i, end, kind: 'comment' }); i = end; continue; }
    if (c === '"' || c === "'") { let j = i + 1; while (j < n && code[j] !== c && code[j] !== '\n') { if (code[j] === '\\') j++; j++; } toks.push({ start: i, end: j + 1, kind: 'value', v: 's:' + code.slice(i + 1, j) }); i = j + 1; continue; }
    let j = i;
    if (c === '.' || c === '#' || c === '@') j++;
    let k = j; while (code[k] === '-') k++;
    if (k - j <= 2 && k < n && identStart.test(code[k]) && !(c === '.' && /\d/.test(code[j]))) {
      let e = k; while (e < n && identChar.test(code[e])) { if (code[e] === '\\') e++; e++; }
      toks.push({ start: i, end: e, kind: 'name', v: code.slice(k, e) }); i = e; continue;
    }
    const m = /^[+-]?(?:\d+\.?\d*|\.\d+)(?:[eE][+-]?\d+)?/.exec(code.slice(i, i + 40));
    if (m) { let e = i + m[0].length; while (e < n && /[A-Za-z%]/.test(code[e])) e++; toks.push({ start: i, end: e, kind: 'value', v: 'n:' + m[0].replace(/^\+/, '') }); i = e; continue; }
    toks.push({ start: i, end: i + 1, kind: 'punct', v: undefined }); i++;
  }
  return toks;
}

// identifiers like v_123, strings/template chunks like "s_124…" / `t_125` (one marker only: folded strings are not markers), numbers 1xxxxxx
const MARKER = /^(?:[a-zA-Z]+_\d{3,}|s:[st]_\d{3,}(?:[^\d_][^_]*)?|n:1\d{6})$/;
function markerValue(tok) { if (!tok || tok.v === undefined) return null; const v = tok.kind === 'name' ? tok.v : tok.v; if (!MARKER.test(v)) return null; return v.replace(/^s:/, ''); }

function smapcheck(acorn, req) {
  const viol = []; const add = (rule, detail) => { if (viol.length < 12) viol.push({ rule, detail }); };
  const stats = { segments: 0, mapped: 0, markerMappings: 0, named: 0, outMarkers: 0, outMarkersMapped: 0, sources: 0, unmappedSegments: 0, tokenStartHits: 0 };
  let map;
  try { map = JSON.parse(req.map); } catch (e) { return { ok: true, violations: [{ rule: 'map-not-json', detail: String(e.message) }], stats }; }
  if (map.version !== 3) add('version-not-3', String(map.version));
  if (!Array.isArray(map.sources) || typeof map.mappings !== 'string') { add('malformed-map', 'sources/mappings missing'); return { ok: true, violations: viol, stats }; }
  if (map.names !== undefined && !Array.isArray(map.names)) add('malformed-map', 'names is not an array');
  const names = map.names || [];
  stats.sources = map.sources.length;
  const dec = decodeMappings(map.mappings);
  if (dec.error) { add('vlq-error', dec.error); return { ok: true, violations: viol, stats }; }
  // sources: matched to the expected files by base name (the harness gives every file a unique base name)
  const files = req.files; const base = (p) => p.replace(/^.*[\/\\:]/, '');
  const byBase = new Map(Object.keys(files).map(k => [base(k), k]));
  const srcInfo = map.sources.map((s, i) => {
    const k = byBase.get(base(s));
    if (k === undefined) { if (!req.allowUnknownSources) add('unknown-source', s); return null; }
    const text = files[k];
    if (map.sourcesContent) { const sc = map.sourcesContent[i]; if (req.expectContent && sc !== text) add('sourcesContent-differs', `${s}: ${JSON.stringify(String(sc).slice(0, 60))} vs file ${JSON.stringify(text.slice(0, 60))}`); }
    else if (req.expectContent) add('sourcesContent-missing', s);
    const css = req.lang === 'css';
    let toks; if (css) toks = cssTokens(text); else try { toks = jsTokens(acorn, text, 'module'); } catch (e) { try { toks = jsTokens(acorn, text, 'script'); } catch (e2) { return { text, starts: lineStarts(text), toks: null, err: String(e2.message) }; } }
    const byStart = new Map(toks.map(t => [t.start, t]));
    return { text, starts: lineStarts(text, css), toks, byStart, name: s };
  });
  if (req.expectNoContent && map.sourcesContent && map.sourcesContent.some(x => x != null)) add('sourcesContent-present-though-excluded', '');
  if (req.sourceRoot !== undefined && (map.sourceRoot || '') !== req.sourceRoot) add('sourceRoot-differs', `${map.sourceRoot} vs ${req.sourceRoot}`);
  // generated side
  const out = req.code; const outStarts = lineStarts(out, req.lang === 'css');
  let outToks; if (req.lang === 'css') outToks = cssTokens(out); else try { outToks = jsTokens(acorn, out, req.goal === 'script' ? 'script' : 'module'); } catch (e) { try { outToks = jsTokens(acorn, out, 'script'); } catch (e2) { return { ok: false, err: 'output does not tokenize: ' + e2.message }; } }
  const outByStart = new Map(outToks.map(t => [t.start, t]));
  const outSorted = outToks.filter(t => t.kind !== 'comment');
  const designated = new Set();
  const isWs = (c) => c === 32 || c === 9 || c === 10 || c === 13 || c === 0x2028 || c === 0x2029 || c === 0xFEFF || c === 11 || c === 12 || c === 0xA0;
  if (dec.lines.length > outStarts.length) add('more-mapping-lines-than-output-lines', `${dec.lines.length} vs ${outStarts.length}`);
  for (let gl = 0; gl < dec.lines.length; gl++) {
    let prevGc = -1;
    const segsOnLine = dec.lines[gl];
    for (let k = 0; k < segsOnLine.length; k++) {
      const seg = segsOnLine[k];
      stats.segments++;
      if (seg.gc < prevGc) add('segments-not-sorted', `generated line ${gl}: column ${seg.gc} after ${prevGc}`);
      prevGc = seg.gc;
      if (seg.gc < 0) { add('negative-generated-column', `line ${gl}`); continue; }
      if (gl >= outStarts.length) continue;
      const lineEnd = gl + 1 < outStarts.length ? outStarts[gl + 1] : out.length + 1;
      const goff = outStarts[gl] + seg.gc;
      if (goff > out.length || goff >= lineEnd && gl + 1 < outStarts.length) { add('generated-position-outside-line', `line ${gl} column ${seg.gc} (line has ${lineEnd - outStarts[gl]} units)`); continue; }
      if (seg.src === undefined) { stats.unmappedSegments++; continue; }
      stats.mapped++;
      if (seg.src < 0 || seg.src >= map.sources.length) { add('source-index-out-of-range', `${seg.src} of ${map.sources.length}`); continue; }
      if (seg.name !== undefined && (seg.name < 0 || seg.name >= names.length)) { add('name-index-out-of-range', `${seg.name} of ${names.length}`); continue; }
      const si = srcInfo[seg.src]; if (!si) continue;
      if (seg.ol < 0 || seg.oc < 0 || seg.ol >= si.starts.length) { add('original-position-outside-file', `${si.name}:${seg.ol}:${seg.oc}`); continue; }
      const oEnd = seg.ol + 1 < si.starts.length ? si.starts[seg.ol + 1] : si.text.length + 1;
      const ooff = si.starts[seg.ol] + seg.oc;
      if (ooff > si.text.length || (seg.ol + 1 < si.starts.length && ooff >= oEnd)) { add('original-position-outside-line', `${si.name}:${seg.ol}:${seg.oc} (line has ${oEnd - si.starts[seg.ol]} units)`); continue; }
      if (!si.toks) continue;
      // the generated token designated by this segment: first token at or after the position, white space only in between
      let g = goff; while (g < out.length && isWs(out.charCodeAt(g))) g++;
      // esbuild repeats the previous mapping at column 0 of a line that starts with indentation ("cover" segment): a segment that
      // is followed, at or before the next token, by another segment designates only white space
      const coversOnlyWhiteSpace = g > goff && k + 1 < segsOnLine.length && outStarts[gl] + segsOnLine[k + 1].gc <= g;
      const gt = coversOnlyWhiteSpace ? undefined : outByStart.get(g);
      if (coversOnlyWhiteSpace) stats.coverSegments = (stats.coverSegments || 0) + 1;
      const ot = si.byStart.get(ooff);
      if (ot) stats.tokenStartHits++;
      if (seg.name !== undefined) {
        stats.named++;
        const nm = names[seg.name];
        const atFileStart = seg.ol === 0 && seg.oc === 0;
        const aliasOf = req.aliases && ot && ot.kind === 'name' ? req.aliases[ot.v] : undefined;
        if (aliasOf !== undefined && aliasOf === nm) { stats.aliasNames = (stats.aliasNames || 0) + 1; add('name-of-import-alias-is-the-exported-name', `names[${seg.name}]=${JSON.stringify(nm)} but ${si.name}:${seg.ol}:${seg.oc} holds the import alias ${JSON.stringify(ot.v)}`); }
        else
        if ((!ot || ot.kind !== 'name' || ot.v !== nm) && atFileStart) add('generated-code-mapped-to-file-start', `name ${JSON.stringify(nm)} for generated ${gl}:${seg.gc} ${JSON.stringify(out.slice(g, g + 14))} is mapped to ${si.name}:0:0`);
        else if ((!ot || ot.kind !== 'name' || ot.v !== nm) && !si.text.includes(nm)) add('name-of-a-generated-symbol', `names[${seg.name}]=${JSON.stringify(nm)} occurs nowhere in ${si.name}; mapped to ${seg.ol}:${seg.oc} ${JSON.stringify(si.text.slice(ooff, ooff + 12))}`);
        else if (!ot || ot.kind !== 'name' || ot.v !== nm) add('name-is-not-the-original-identifier', `names[${seg.name}]=${JSON.stringify(nm)} but ${si.name}:${seg.ol}:${seg.oc} holds ${ot ? JSON.stringify(ot.v) : JSON.stringify(si.text.slice(ooff, ooff + 12))}; generated ${gl}:${seg.gc} ${JSON.stringify(out.slice(g, g + 12))}`);
      }
      if (gt && gt.kind !== 'comment') {
        if (g === goff || true) designated.add(gt.start);
        const mv = markerValue(gt);
        if (mv !== null && seg.name === undefined) {
          stats.markerMappings++;
          const ov = markerValue(ot);
          const aliasOf = req.aliases && ot && ot.kind === 'name' ? req.aliases[ot.v] : undefined;
          if (ov !== mv && aliasOf === mv) stats.aliasTranslations = (stats.aliasTranslations || 0) + 1; // `import {x as y}`: a reference y is printed as x, its translation
          else if (ov !== mv && gt.kind === 'value' && ot && ot.kind === 'name' && req.minifySyntax) stats.inlinedConstants = (stats.inlinedConstants || 0) + 1; // `const c = 1; f(c)` -> `f(1)`: the literal is the translation of the reference
          else if (ov !== mv && seg.ol === 0 && seg.oc === 0) add('generated-code-mapped-to-file-start', `generated ${gl}:${seg.gc} ${JSON.stringify(mv)} is mapped to ${si.name}:0:0`);
          else if (ov !== mv) add('marker-maps-to-wrong-origin', `generated ${gl}:${seg.gc} is ${JSON.stringify(mv)} but ${si.name}:${seg.ol}:${seg.oc} holds ${ot ? JSON.stringify(ot.v !== undefined ? ot.v : si.text.slice(ot.start, ot.end)) : 'no token start: ' + JSON.stringify(si.text.slice(ooff, ooff + 14))}`);
        } else if (mv !== null) stats.markerMappings++;
      }
    }
  }
  for (const t of outSorted) { if (markerValue(t) !== null) { stats.outMarkers++; if (designated.has(t.start)) stats.outMarkersMapped++; } }
  return { ok: true, violations: viol, stats };
}

// relayout: re-space a program and return the new text with a source map (new -> original) written by this file's own encoder
function relayout(acorn, req) {
  const code = req.code; let seed = (req.seed >>> 0) || 1;
  const rnd = (n) => { seed = (Math.imul(seed, 1664525) + 1013904223) >>> 0; return seed % n; };
  const toks = []; const comments = [];
  acorn.parse(code, { ecmaVersion: 'latest', sourceType: 'module', onToken: (t) => toks.push({ start: t.start, end: t.end }), onComment: (b, t, s, e) => comments.push({ start: s, end: e }) });
  const starts = lineStarts(code);
  let out = ''; let gl = 0, gc = 0; const segs = []; // per generated line: [gc, ol, oc]
  let prevEnd = 0;
  const emit = (s) => {
    out += s;
    for (let i = 0; i < s.length; i++) {
      const c = s.charCodeAt(i);
      if (c === 13) { if (s.charCodeAt(i + 1) === 10) i++; gl++; gc = 0; }
      else if (c === 10 || c === 0x2028 || c === 0x2029) { gl++; gc = 0; }
      else gc++;
    }
  };
  if (req.prefix) emit(req.prefix);
  for (let i = 0; i < toks.length; i++) {
    const t = toks[i];
    const gap = code.slice(prevEnd, t.start);
    if (i > 0) {
      if (gap === '') { /* tokens touch: keep them touching (template parts, `a.b`) */ }
      else if (/\/\/|\/\*/.test(gap) || comments.some(c => c.start >= prevEnd && c.end <= t.start)) emit(gap);
      else {
        const hadNewline = /[\n\r\u2028\u2029]/.test(gap);
        // a line break is only introduced where there was one (ASI and restricted productions stay as they are)
        if (hadNewline) emit(['\n', '\n\n', '\r\n', '\n\t\t', '\n      '][rnd(5)]);
        else emit([' ', '  ', '\t', ' /*\u{1F600}*/ ', '   '][rnd(5)]);
      }
    }
    const p = posOf(starts, t.start);
    segs.push({ gl, gc, ol: p.line, oc: p.col });
    emit(code.slice(t.start, t.end));
    prevEnd = t.end;
  }
  emit('\n');
  let mappings = ''; let line = 0; let pgc = 0, pol = 0, poc = 0; let first = true;
  for (const s of segs) {
    while (line < s.gl) { mappings += ';'; line++; pgc = 0; first = true; }
    if (!first) mappings += ',';
    mappings += encodeVLQ(s.gc - pgc) + encodeVLQ(0) + encodeVLQ(s.ol - pol) + encodeVLQ(s.oc - poc);
    pgc = s.gc; pol = s.ol; poc = s.oc; first = false;
  }
  const map = { version: 3, sources: [req.sourceName], names: [], mappings };
  if (req.withContent) map.sourcesContent = [code];
  return { code: out, map: JSON.stringify(map), tokens: toks.length };
}

module.exports.ops = ({ acorn }) => ({
  smapcheck: async (req) => { try { return smapcheck(acorn, req); } catch (e) { return { ok: false, err: String(e && e.stack || e) }; } },
  relayout: async (req) => { try { return Object.assign({ ok: true }, relayout(acorn, req)); } catch (e) { return { ok: false, err: String(e && e.message) }; } },
});
module.exports.decodeMappings = decodeMappings;
