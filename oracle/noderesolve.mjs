// Asks Node's own resolvers. usage: node noderesolve.mjs <queries.json>  queries: [{id, importer, spec, kind: "require"|"import"}]
import { createRequire } from 'node:module';
import { pathToFileURL, fileURLToPath } from 'node:url';
import fs from 'node:fs';
import path from 'node:path';
const queries = JSON.parse(fs.readFileSync(process.argv[2], 'utf8'));
const out = [];
const helperCache = new Map();
async function importResolver(dir) {
  if (!helperCache.has(dir)) {
    const f = path.join(dir, '__verif_resolve_helper.mjs');
    fs.writeFileSync(f, 'export function r(s) { return import.meta.resolve(s); }\n');
    helperCache.set(dir, (await import(pathToFileURL(f).href)).r);
  }
  return helperCache.get(dir);
}
for (const q of queries) {
  const res = { id: q.id };
  try {
    let file;
    if (q.kind === 'require') file = createRequire(q.importer).resolve(q.spec);
    else { const r = await importResolver(path.dirname(q.importer)); const u = r(q.spec); if (!u.startsWith('file:')) { res.other = u; out.push(res); continue; } file = fileURLToPath(u); }
    res.file = file;
    try { const st = fs.statSync(file); res.exists = st.isFile(); res.real = fs.realpathSync(file); } catch (e) { res.exists = false; }
  } catch (e) { res.code = e && e.code || String(e); res.msg = String(e && e.message).slice(0, 200); }
  out.push(res);
}
for (const [dir] of helperCache) { try { fs.unlinkSync(path.join(dir, '__verif_resolve_helper.mjs')); } catch (e) {} }
process.stdout.write(JSON.stringify(out));
