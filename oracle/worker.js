'use strict';
// Oracle worker: reads NDJSON requests on stdin, writes NDJSON responses on stdout.
// Run as: node --expose-internals --experimental-vm-modules --no-warnings worker.js
const readline = require('readline');
const vm = require('vm');
const path = require('path');
const host = require('./lib/host');
const acorn = require('internal/deps/acorn/acorn/dist/acorn');
let walk = null; try { walk = require('internal/deps/acorn/acorn-walk/dist/walk'); } catch (e) {}

const current = { st: null };
process.on('unhandledRejection', (reason) => { if (current.st) { try { current.st.unhandled.push(current.st.ser(reason, 0, null)); } catch (e) {} } });
process.on('uncaughtException', (e) => { if (current.st) { try { current.st.trace.push('uncaughtException:' + current.st.ser(e, 0, null)); } catch (e2) {} } else { process.stderr.write('worker uncaught: ' + (e && e.stack || e) + '\n'); } });

function acornParse(code, goal, ecma, extra) {
  const opts = Object.assign({ ecmaVersion: ecma || 'latest', sourceType: goal === 'module' ? 'module' : 'script', allowHashBang: true }, extra || {});
  if (goal === 'cjs') {
    // a CommonJS module is a function body: try the script goal with top-level return first, then a real function wrapper
    opts.allowReturnOutsideFunction = true;
    try { return acorn.parse(code, opts); } catch (e) {
      try { return acorn.parse('(function (exports, require, module, __filename, __dirname) {' + code.replace(/^#!.*/, '') + '\n})', opts); } catch (e2) { throw e2; }
    }
  }
  return acorn.parse(code, opts);
}

function v8Parse(code, goal) {
  if (goal === 'module') new vm.SourceTextModule(code, { identifier: 'x.mjs' });
  else if (goal === 'cjs') vm.compileFunction(code, ['exports', 'require', 'module', '__filename', '__dirname']);
  else new vm.Script(code, { filename: 'x.js' });
}

function tokenList(code, goal) {
  const out = [];
  const opts = { ecmaVersion: 'latest', sourceType: goal === 'module' ? 'module' : 'script', allowHashBang: true, allowReturnOutsideFunction: goal === 'cjs',
    onToken: (t) => { let v = t.value; if (v && typeof v === 'object') v = (v.pattern !== undefined) ? '/' + v.pattern + '/' + v.flags : String(v); if (typeof v === 'bigint') v = v + 'n';
      out.push(t.type.label + (v === undefined ? '' : ':' + (typeof v === 'number' ? (Object.is(v, -0) ? '-0' : String(v)) : v))); } };
  acorn.parse(code, opts);
  return out;
}

const ops = {
  ping: async () => ({ ok: true, node: process.version, acorn: acorn.version }),
  exec: async (req) => host.run(req.prog, current),
  // execPair: run a and b, compare in-worker; returns traces only for differing segments
  execPair: async (req) => {
    const ra = await host.run(req.a, current);
    const rb = await host.run(req.b, current);
    const cmp = host.compare(ra, rb, req.opts);
    if (req.wantTrace) { cmp.traceA = ra.trace; cmp.traceB = rb.trace; cmp.exportsA = ra.exports; cmp.exportsB = rb.exports; }
    return cmp;
  },
  // parse: { code, goal, ecma, engines:['acorn','v8'] }
  parse: async (req) => {
    const res = {};
    const engines = req.engines || ['acorn', 'v8'];
    if (engines.includes('acorn')) { try { acornParse(req.code, req.goal, req.ecma); res.acorn = { ok: true }; } catch (e) { res.acorn = { ok: false, err: String(e.message), pos: e.pos }; } }
    if (engines.includes('v8')) { try { v8Parse(req.code, req.goal); res.v8 = { ok: true }; } catch (e) { res.v8 = { ok: false, err: String(e && e.message) }; } }
    return res;
  },
  // tokcmp: token streams (comments/whitespace ignored) of a and b equal?
  tokcmp: async (req) => {
    let ta, tb;
    try { ta = tokenList(req.a, req.goal); } catch (e) { return { error_a: String(e.message) }; }
    try { tb = tokenList(req.b, req.goal); } catch (e) { return { error_b: String(e.message) }; }
    let i = 0; while (i < ta.length && i < tb.length && ta[i] === tb[i]) i++;
    if (i === ta.length && i === tb.length) return { equal: true, n: ta.length };
    const np = (t) => t.filter(x => x !== '(' && x !== ')');
    const pa = np(ta), pb = np(tb);
    const parensOnly = pa.length === pb.length && pa.every((x, k) => x === pb[k]);
    return { equal: false, n: ta.length, at: i, a: ta.slice(Math.max(0, i - 3), i + 4), b: tb.slice(Math.max(0, i - 3), i + 4), parensOnly };
  },
};

// tokalpha: are the token streams of a and b equal up to a consistent (bijective) renaming of identifiers?
ops.tokalpha = async (req) => {
  let ta, tb;
  try { ta = tokenList(req.a, req.goal); } catch (e) { return { error_a: String(e.message) }; }
  try { tb = tokenList(req.b, req.goal); } catch (e) { return { error_b: String(e.message) }; }
  if (ta.length !== tb.length) return { equal: false, n: ta.length, m: tb.length };
  const ab = new Map(), ba = new Map();
  for (let i = 0; i < ta.length; i++) {
    const x = ta[i], y = tb[i];
    if (x === y && !x.startsWith('name:')) continue;
    if (!x.startsWith('name:') || !y.startsWith('name:')) return { equal: false, at: i, a: ta.slice(Math.max(0, i - 3), i + 4), b: tb.slice(Math.max(0, i - 3), i + 4) };
    const p = ab.get(x), q = ba.get(y);
    if (p === undefined && q === undefined) { ab.set(x, y); ba.set(y, x); }
    else if (p !== y || q !== x) return { equal: false, at: i, a: ta.slice(Math.max(0, i - 3), i + 4), b: tb.slice(Math.max(0, i - 3), i + 4) };
  }
  return { equal: true, n: ta.length, renamed: [...ab].filter(([k, v]) => k !== v).length };
};

// execMulti: run ref once and every out; compare each out with ref
ops.execMulti = async (req) => {
  const ra = await host.run(req.ref, current);
  const results = [];
  for (const o of req.outs) {
    const rb = await host.run(o, current);
    results.push(host.compare(ra, rb, req.opts));
  }
  return { refEvents: ra.trace.length, refTerm: ra.term, results };
};
ops.batch = async (req) => {
  const results = [];
  for (const r of req.reqs) { try { const f = ops[r.op]; if (!f) throw new Error('unknown op ' + r.op); results.push(await f(r)); } catch (e) { results.push({ error: String(e && e.stack || e) }); } }
  return { results };
};
// parse in several goals at once: { code, goals:[...], ecma } -> { <goal>: {acorn,v8} }
ops.parseGoals = async (req) => {
  const out = {};
  for (const g of req.goals) out[g] = await ops.parse({ code: req.code, goal: g, ecma: req.ecma, engines: req.engines });
  return { goals: out };
};

// optional op modules
for (const name of ['scope', 'features', 'smap', 'css', 'noderes', 'litops', 'chunks']) {
  try { const m = require('./lib/' + name); if (m.ops) Object.assign(ops, m.ops({ acorn, walk, host, current, acornParse, tokenList })); } catch (e) { if (e.code !== 'MODULE_NOT_FOUND' || !String(e.message).includes('lib/' + name)) process.stderr.write('load ' + name + ': ' + (e && e.stack || e) + '\n'); }
}

const queue = []; let busy = false;
async function pump() {
  if (busy) return; busy = true;
  while (queue.length) {
    const line = queue.shift();
    let req, res;
    try { req = JSON.parse(line); } catch (e) { process.stdout.write(JSON.stringify({ id: -1, error: 'bad json' }) + '\n'); continue; }
    try { const f = ops[req.op]; if (!f) throw new Error('unknown op ' + req.op); res = await f(req); }
    catch (e) { res = { error: String(e && e.stack || e) }; }
    res.id = req.id;
    let out; try { out = JSON.stringify(res); } catch (e) { out = JSON.stringify({ id: req.id, error: 'unserialisable result: ' + e }); }
    process.stdout.write(out + '\n');
  }
  busy = false;
}
const rl = readline.createInterface({ input: process.stdin, crlfDelay: Infinity });
rl.on('line', (line) => { if (line) { queue.push(line); pump(); } });
rl.on('close', () => { const wait = () => { if (busy || queue.length) setTimeout(wait, 5); else process.exit(0); }; wait(); });
