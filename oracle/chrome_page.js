// Runs inside headless Chrome (C12). The page holds a JSON list of cases; for every case and viewport width two
// same-origin iframes are created with the same DOM and sheet A (reference) or sheet B (esbuild's output); the
// computed style of every element (and ::before/::after) is read for a fixed property list and compared.
(function () {
  const cases = JSON.parse(document.getElementById('cases').textContent);
  const PROPS = JSON.parse(document.getElementById('props').textContent);
  const results = []; let pending = 0; let started = false;
  const out = document.getElementById('out');

  // ---- colours: every colour function in a computed value is turned into 8-bit sRGB by Chrome itself (canvas), alpha parsed from the text
  const cv = document.createElement('canvas'); cv.width = cv.height = 1; const ctx = cv.getContext('2d', { willReadFrequently: true });
  const colorCache = new Map();
  function toRGBA(text) {
    if (colorCache.has(text)) return colorCache.get(text);
    let res = null;
    let m = /^rgba?\(\s*([-\d.e]+)[,\s]+([-\d.e]+)[,\s]+([-\d.e]+)(?:\s*[,\/]\s*([-\d.e]+%?))?\s*\)$/.exec(text);
    if (m) res = [+m[1], +m[2], +m[3], m[4] === undefined ? 1 : (m[4].endsWith('%') ? parseFloat(m[4]) / 100 : +m[4])];
    else {
      const am = /\/\s*([-\d.e]+%?)\s*\)$/.exec(text);
      const alpha = am ? (am[1].endsWith('%') ? parseFloat(am[1]) / 100 : +am[1]) : 1;
      const opaque = am ? text.slice(0, am.index).trimEnd() + ')' : text;
      ctx.clearRect(0, 0, 1, 1); ctx.fillStyle = '#010203'; ctx.fillStyle = opaque;
      if (ctx.fillStyle !== '#010203' || /^\s*#010203/i.test(opaque)) { ctx.fillRect(0, 0, 1, 1); const d = ctx.getImageData(0, 0, 1, 1).data; res = [d[0], d[1], d[2], Math.min(1, Math.max(0, alpha))]; }
    }
    colorCache.set(text, res); return res;
  }
  const COLOR_RE = /(?:rgba?|lab|lch|oklab|oklch|color)\([^()]*\)/g;
  // ---- gradients: author stops that restate the defaults, and the default direction, are not a difference
  function normGradient(v) {
    if (v.indexOf('gradient(') < 0) return v;
    let out = ''; let i = 0;
    const re = /(repeating-)?(linear|radial|conic)-gradient\(/g; let m;
    while ((m = re.exec(v))) {
      // find the matching close parenthesis
      let d = 1, k = re.lastIndex; while (k < v.length && d > 0) { if (v[k] === '(') d++; else if (v[k] === ')') d--; k++; }
      let parts = splitTop(v.slice(re.lastIndex, k - 1)).map(x => x.trim());
      if (m[2] === 'linear') {
        if (parts.length && /^(180deg|to bottom)$/.test(parts[0])) parts = parts.slice(1);
        else if (parts.length) parts[0] = parts[0].replace(/^to top$/, '0deg').replace(/^to right$/, '90deg').replace(/^to left$/, '270deg');
      }
      const first = parts.findIndex(x => /^(rgb|color|lab|lch|oklab|oklch|#|[a-z]+$)/.test(x) && !/^(to |circle|ellipse|closest|farthest|from |at )/.test(x));
      if (first >= 0) parts[first] = parts[first].replace(/ 0(%|px|deg)?$/, '');
      if (!m[1] && parts.length) parts[parts.length - 1] = parts[parts.length - 1].replace(/ (100%|360deg)$/, '');
      out += v.slice(i, m.index) + m[0] + parts.join(', ') + ')'; i = k; re.lastIndex = k;
    }
    return out + v.slice(i);
  }
  function splitTop(s) { const out = []; let d = 0, cur = ''; for (const ch of s) { if (ch === '(') d++; else if (ch === ')') d--; if (ch === ',' && d === 0) { out.push(cur); cur = ''; } else cur += ch; } out.push(cur); return out; }
  // ---- custom properties: compared as token streams (white space and comments ignored, escapes decoded, numbers by value)
  function cssTokens(t) {
    const out = []; let i = 0; const n = t.length;
    const isNameStart = (c) => /[a-zA-Z_\u0080-￿]/.test(c), isName = (c) => /[-\w\u0080-￿]/.test(c);
    function esc() { i++; let h = ''; while (i < n && h.length < 6 && /[0-9a-fA-F]/.test(t[i])) h += t[i++]; if (h) { if (/\s/.test(t[i] || '')) i++; return String.fromCodePoint(parseInt(h, 16) || 0xfffd); } return t[i++] || ''; }
    function name() { let s = ''; while (i < n) { if (t[i] === '\\' && t[i + 1] !== '\n') s += esc(); else if (isName(t[i])) s += t[i++]; else break; } return s; }
    while (i < n) {
      const c = t[i];
      if (/\s/.test(c)) { i++; continue; }
      if (c === '/' && t[i + 1] === '*') { const e = t.indexOf('*/', i + 2); i = e < 0 ? n : e + 2; continue; }
      if (c === '"' || c === "'") { i++; let s = ''; while (i < n && t[i] !== c) { if (t[i] === '\\') { if (t[i + 1] === '\n') { i += 2; continue; } s += esc(); } else s += t[i++]; } i++; out.push('s:' + s); continue; }
      if (/[\d.+-]/.test(c) && /^[+-]?(\d+\.?\d*|\.\d+)([eE][+-]?\d+)?/.test(t.slice(i))) { const m = /^[+-]?(\d+\.?\d*|\.\d+)([eE][+-]?\d+)?/.exec(t.slice(i)); i += m[0].length; let u = ''; if (t[i] === '%') { u = '%'; i++; } else if (isNameStart(t[i] || '') || t[i] === '\\' || (t[i] === '-' && isNameStart(t[i + 1] || ''))) u = name().toLowerCase(); out.push('n:' + Number(m[0]) + u); continue; }
      if (c === '#') { i++; out.push('#' + name().toLowerCase()); continue; }
      if (isNameStart(c) || c === '\\' || (c === '-' && (isNameStart(t[i + 1] || '') || t[i + 1] === '-' || t[i + 1] === '\\'))) {
        const nm = name();
        if (t[i] === '(') { i++; if (nm.toLowerCase() === 'url') { let j = i; while (j < n && /\s/.test(t[j])) j++; if (t[j] !== '"' && t[j] !== "'") { let u = ''; i = j; while (i < n && t[i] !== ')') { if (t[i] === '\\') u += esc(); else u += t[i++]; } i++; out.push('u:' + u.trim()); continue; } } out.push('f:' + nm.toLowerCase()); continue; }
        out.push('i:' + nm); continue;
      }
      out.push(c); i++;
    }
    return out.join(' ');
  }
  function sameValue(a, b, prop) {
    if (a === b) return true;
    if (prop && prop.startsWith('--')) return cssTokens(a) === cssTokens(b);
    a = normGradient(a); b = normGradient(b);
    if (a === b) return true;
    // colours: channel-wise, one 8-bit step of tolerance (different but equally valid rounding), alpha 0.006
    const ca = a.match(COLOR_RE) || [], cb = b.match(COLOR_RE) || [];
    if (ca.length !== cb.length) return false;
    for (let i = 0; i < ca.length; i++) {
      if (ca[i] === cb[i]) continue;
      const x = toRGBA(ca[i]), y = toRGBA(cb[i]);
      if (!x || !y) return false;
      for (let k = 0; k < 3; k++) if (Math.abs(Math.min(255, Math.max(0, x[k])) - Math.min(255, Math.max(0, y[k]))) > 1.01) return false;
      if (Math.abs(x[3] - y[3]) > 0.006) return false;
    }
    const ra = a.replace(COLOR_RE, '@'), rb = b.replace(COLOR_RE, '@');
    if (ra === rb) return true;
    // other numbers: equal skeleton, values within 0.02 absolute or 1e-4 relative (calc rounding)
    const NUM = /-?\d+(?:\.\d+)?(?:e[-+]?\d+)?/g;
    if (ra.replace(NUM, '#') !== rb.replace(NUM, '#')) return false;
    const na = ra.match(NUM) || [], nb = rb.match(NUM) || [];
    for (let i = 0; i < na.length; i++) { const p = +na[i], q = +nb[i]; if (Math.abs(p - q) > Math.max(0.02, 1e-4 * Math.abs(p))) return false; }
    return true;
  }

  function collect(win, custom) {
    const doc = win.document; const rows = [];
    // running transitions/animations would be read mid-way: jump them to their end (or cancel endless ones)
    // (finishing a transition on an ancestor changes inherited values and can start new transitions on descendants:
    // repeat until a style recalculation leaves nothing running)
    try {
      for (let round = 0; round < 30; round++) {
        void win.getComputedStyle(doc.documentElement).opacity;
        const running = doc.getAnimations().filter(a => a.playState !== 'finished' && a.playState !== 'idle');
        if (!running.length) break;
        for (const a of running) { try { a.finish(); } catch (e) { a.cancel(); } }
      }
    } catch (e) {}
    const els = doc.querySelectorAll('[data-e]');
    for (const el of els) {
      for (const pseudo of [null, '::before', '::after']) {
        if (pseudo && !el.hasAttribute('data-p')) continue;
        const cs = win.getComputedStyle(el, pseudo); const vals = [];
        for (const p of (win.__allProps || PROPS)) vals.push(cs.getPropertyValue(p));
        for (const p of custom) vals.push(cs.getPropertyValue(p).trim());
        rows.push({ key: el.getAttribute('data-e') + (pseudo || ''), vals });
      }
    }
    return rows;
  }

  function finishCase(c, width, fa, fb, fc) {
    try {
      const custom = c.custom || [];
      // alt: a third sheet (the input in an environment that understands more). A difference between A and B is
      // waived where B computes what ALT computes ("… or in an environment that understands more of the input's syntax").
      const rc = fc ? collect(fc.contentWindow, custom) : null;
      if (c.allDiffs) { const cs0 = fa.contentWindow.getComputedStyle(fa.contentWindow.document.body); const all = []; for (let i = 0; i < cs0.length; i++) all.push(cs0[i]); fa.contentWindow.__allProps = all; fb.contentWindow.__allProps = all; }
      const ra = collect(fa.contentWindow, custom), rb = collect(fb.contentWindow, custom);
      const names = (fa.contentWindow.__allProps || PROPS).concat(custom); const diffs = []; let compared = 0, nondefault = 0;
      for (let i = 0; i < ra.length; i++) for (let k = 0; k < names.length; k++) {
        compared++;
        const x = ra[i].vals[k], y = rb[i] ? rb[i].vals[k] : '<missing element>';
        if (c.base && c.base[i] && c.base[i][k] !== x) nondefault++;
        if (!sameValue(x, y, names[k]) && !(rc && rc[i] && sameValue(rc[i].vals[k], y, names[k])) && diffs.length < (c.allDiffs ? 200 : 6)) diffs.push({ el: ra[i].key, prop: names[k], a: x, b: y, width });
      }
      results.push({ id: c.id, width, compared, diffs, rows: ra.length });
    } catch (e) { results.push({ id: c.id, width, error: String(e) }); }
    --pending;
  }
  const finishCaseKeep = finishCase;
  function done() { out.textContent = JSON.stringify(results); document.title = 'DONE'; }

  function frame(css, dom, width, onload) {
    const f = document.createElement('iframe');
    f.style.width = width + 'px'; f.style.height = '600px'; f.style.border = '0';
    // the sheet is attached as a constructed style sheet: a <style> element would become visible text (and change the layout
    // by the length of the CSS source) as soon as a rule gives <head>/<style> a display value
    f.srcdoc = '<!doctype html><html data-e="html"><head><meta charset="utf-8"></head><body data-e="body">' + dom + '</body></html>';
    f.onload = () => { try { const w = f.contentWindow; const sh = new w.CSSStyleSheet(); sh.replaceSync(css); w.document.adoptedStyleSheets = [sh]; } catch (e) { f.__err = String(e); } onload(); };
    document.body.appendChild(f);
    return f;
  }
  // a small number of iframe pairs at a time: thousands of live iframes would exhaust the renderer
  const jobs = [];
  for (const c of cases) for (const width of c.widths) jobs.push({ c, width });
  let next = 0;
  function pump() {
    while (pending < 6 && next < jobs.length) {
      const { c, width } = jobs[next++];
      pending++;
      let loaded = 0; let fa, fb;
      let fc = null; const need = c.alt ? 3 : 2;
      // Used values (height, width, …) depend on layout, and layout depends on fonts that load lazily: wait for the fonts of
      // every frame, and re-measure once after a pause before a difference is believed (a difference must be stable).
      const measure = (retry) => {
        const before = results.length;
        finishCaseKeep(c, width, fa, fb, fc);
        const r = results[results.length - 1];
        if (!retry && r && r.diffs && r.diffs.length) { results.length = before; ++pending; setTimeout(() => measure(true), 120); return; }
        fa.remove(); fb.remove(); if (fc) fc.remove();
        pump();
      };
      const go = () => { if (++loaded === need) { const fr = [fa, fb, fc].filter(Boolean).map(f => { try { return f.contentWindow.document.fonts.ready; } catch (e) { return null; } }); Promise.all(fr).then(() => measure(false), () => measure(false)); } };
      fa = frame(c.a, c.domA || c.dom, width, go);
      fb = frame(c.b, c.domB || c.dom, width, go);
      if (c.alt) fc = frame(c.alt, c.domA || c.dom, width, go);
    }
    if (next >= jobs.length) started = true;
    if (pending === 0 && started) done();
  }
  pump();
})();
