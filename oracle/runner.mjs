// Native runner: loads files with Node's own ESM/CJS loaders (or as classic scripts) and prints probe traces.
// usage: node runner.mjs <jobs.json>   jobs: [{id, file, mode: import|require|script, global}]
import { createRequire } from 'node:module';
import { pathToFileURL } from 'node:url';
import fs from 'node:fs';
import vm from 'node:vm';
const require = createRequire(import.meta.url);
const { makeSer } = require('./lib/host.js');
const ser = makeSer({});
const jobs = JSON.parse(fs.readFileSync(process.argv[2], 'utf8'));
let trace = [];
Object.defineProperty(globalThis, '$', { value: (...args) => { trace.push(args.map(a => ser(a, 0, null)).join(',')); return args[args.length - 1]; }, writable: false });
const tick = () => new Promise(r => setImmediate(r));
let unhandled = [];
process.on('unhandledRejection', (e) => { unhandled.push(ser(e, 0, null)); });
function exportsRecord(v, mode) {
  // normalised view of what an importer / requirer / global reader sees: own enumerable string keys (sorted), without __esModule
  if (v === null || (typeof v !== 'object' && typeof v !== 'function')) return 'value:' + ser(v, 0, null);
  const keys = Object.keys(v).filter(k => k !== '__esModule').sort();
  const parts = [];
  for (const k of keys) { let s; try { s = ser(v[k], 0, null); } catch (e) { s = 'throws:' + ser(e, 0, null); } parts.push(JSON.stringify(k) + ':' + s); }
  return (typeof v === 'function' ? 'fn' : '') + '{' + parts.join(',') + '}';
}
const results = [];
for (const job of jobs) {
  trace = []; unhandled = []; globalThis.__late = [];
  let term = 'ok', exp = '';
  try {
    if (job.mode === 'import-seq') { const recs = []; for (const f of job.files) { const ns = await import(pathToFileURL(f).href); recs.push(exportsRecord(ns, 'import')); } exp = recs.join(' | '); }
    else if (job.mode === 'import') { const ns = await import(pathToFileURL(job.file).href); exp = exportsRecord(ns, 'import'); }
    else if (job.mode === 'require') { const m = require(job.file); exp = exportsRecord(m, 'require'); }
    else { vm.runInThisContext(fs.readFileSync(job.file, 'utf8'), { filename: job.file }); if (job.global) exp = exportsRecord(vm.runInThisContext(job.global), 'global'); }
  } catch (e) { term = 'throw:' + ser(e, 0, null); }
  if (job.waitFor && term === 'ok') { const t0 = Date.now(); while (!trace.some(e => e.startsWith(job.waitFor)) && Date.now() - t0 < 30000) await new Promise(r => setTimeout(r, 2)); if (!trace.some(e => e.startsWith(job.waitFor))) term = 'wait-timeout'; }
  for (let i = 0; i < 4; i++) await tick();
  await new Promise(r => setTimeout(r, 0));
  await tick();
  results.push({ id: job.id, trace, term, exports: exp, unhandled: unhandled.slice().sort() });
}
process.stdout.write(JSON.stringify(results));
