#!/bin/bash
# vrun.sh <ID> <tier> [extra args]: run a check from /verif's current binaries with a scratch VERIF_ROOT
# (evidence and replay files go to /tmp/vr-<ID>-$$, not into /verif). For development runs and seed sweeps.
ID=$1; TIER=${2:-quick}; shift; shift
SRC="$(cd "$(dirname "$0")" && pwd)"
export VERIF_ROOT=/tmp/vr-$ID-$$
mkdir -p $VERIF_ROOT; cp -r $SRC/oracle $SRC/known_findings.jsonl $VERIF_ROOT/
mkdir -p $VERIF_ROOT/bin; for b in vh vh-race esbuild-verif esbuild-race; do [ -e $SRC/bin/$b ] && ln -sf $SRC/bin/$b $VERIF_ROOT/bin/$b; done
$VERIF_ROOT/bin/vh $ID $TIER "$@"; RC=$?
[ -d $VERIF_ROOT/replay ] && { mkdir -p /tmp/vr-replay; cp -r $VERIF_ROOT/replay/. /tmp/vr-replay/; }
rm -rf $VERIF_ROOT
exit $RC
