#!/bin/bash
# seedtest.sh <patch.diff> <ID> [tier]: apply a seeded change to /repo, run a check, undo the change.
set -u
cd "$(dirname "$0")"
P=$1; ID=$2; TIER=${3:-quick}
git -C /repo diff --quiet || { echo "/repo is dirty"; exit 3; }
git -C /repo apply "$P" || { echo "patch does not apply"; exit 3; }
export VERIF_ROOT=/tmp/verif-seedtest-$$; mkdir -p $VERIF_ROOT; cp -r oracle known_findings.jsonl $VERIF_ROOT/
./build.sh $ID >/dev/null 2>&1
./bin/vh $ID $TIER 2>&1 | grep -a -E "^VIOLATION|what:|^C[0-9]+ |INCONCL" | cut -c1-400 | head -${4:-12}
git -C /repo checkout -- . ; rm -rf $VERIF_ROOT
./build.sh $ID >/dev/null 2>&1
