module verifharness

go 1.23

require github.com/evanw/esbuild v0.0.0

require golang.org/x/sys v0.0.0-20220715151400-c0bba94af5f8 // indirect

replace github.com/evanw/esbuild => /repo
