package main

import (
	"fmt"
	"strings"
)

// cssgen: style sheets over a fixed element universe (see cssDOM). Rules are dense on purpose: few selectors and few
// properties, so that most rules compete for the same elements and every merge, removal or reordering by the
// minifier can change a winner. Values come from tables of equivalent notations the minifier rewrites.

const cssDOM = `<div data-e="r" id="r" class="a">` +
	`<p data-e="p1" data-p id="p1" class="b c" data-x="1">t<span data-e="s1" class="a b">s</span><em data-e="e1" class="c" lang="en">e</em></p>` +
	`<ul data-e="u1" class="c"><li data-e="l1" class="a">1</li><li data-e="l2" class="b" data-x="2">2</li><li data-e="l3" data-p>3</li></ul>` +
	`<a data-e="a1" href="#x" class="b">l</a><input data-e="i1" class="a" disabled><input data-e="i2" class="c" checked type="checkbox">` +
	`<section data-e="sec" class="box"><div data-e="in" class="a c"><b data-e="b1" class="b">x</b></div></section></div>`

// longhand properties read back through getComputedStyle
var cssReadProps = []string{"color", "background-color", "background-image", "margin-top", "margin-right", "margin-bottom", "margin-left", "padding-top", "padding-right", "padding-bottom", "padding-left",
	"border-top-width", "border-right-width", "border-bottom-width", "border-left-width", "border-top-style", "border-left-style", "border-top-color", "border-right-color", "border-bottom-color", "border-left-color",
	"border-top-left-radius", "border-top-right-radius", "border-bottom-right-radius", "border-bottom-left-radius", "top", "right", "bottom", "left", "width", "height", "min-width", "max-width",
	"font-size", "font-weight", "font-style", "font-family", "line-height", "letter-spacing", "display", "position", "opacity", "z-index", "flex-grow", "flex-shrink", "flex-basis",
	"transform", "transition-duration", "transition-delay", "transition-timing-function", "transition-property", "animation-name", "animation-duration", "content", "outline-color", "outline-width", "outline-style",
	"text-decoration-line", "text-decoration-color", "text-decoration-style", "box-shadow", "text-shadow", "visibility", "cursor", "overflow-x", "overflow-y", "text-align", "vertical-align", "white-space", "order", "gap", "row-gap", "inset-inline-start", "accent-color", "caret-color", "fill", "stroke", "column-rule-color"}

type cssgen struct {
	rng       *Rng
	custom    map[string]bool
	modern    bool // may use selector/at-rule syntax that old browsers lack (nesting, :is, media ranges, inset, container queries, layers)
	modernVal bool // may use colour functions that old browsers lack
	hostile   bool // may use malformed constructs (error recovery)
	features  map[string]bool
	noURL     bool // no url() values (bundles would resolve them)
	plainSel  bool // no attribute selectors on class/id and no escaped names (CSS modules rename classes and ids)
}

var cssColorsRed = []string{"red", "#f00", "#ff0000", "#F00F", "#ff0000ff", "rgb(255,0,0)", "rgb(255 0 0)", "rgba(255,0,0,1)", "rgb(100% 0% 0%)", "rgb(255 0 0 / 100%)", "hsl(0,100%,50%)", "hsl(0deg 100% 50%)", "hsl(360 100% 50%)", "hsl(1turn 100% 50% / 1)", "hwb(0 0% 0%)", "rgb(300,-5,0)", "color(srgb 1 0 0)", "RED", "Rgb(255, 0, 0)"}
var cssColorsMisc = []string{"blue", "#00f8", "#0000ff80", "rgba(0,0,255,.5)", "rgb(0 0 255 / 50%)", "rgb(0 0 255 / 0.5)", "hsla(240,100%,50%,.5)", "hsl(240 100% 50% / 50%)", "transparent", "rgba(0,0,0,0)", "#0000", "currentColor", "rebeccapurple", "#639", "#663399", "rgb(102,51,153)",
	"hsl(120 50% 50%)", "hsl(-240 50% 50%)", "hsl(480deg 50% 50%)", "hsl(0.3333turn 50% 50%)", "hsl(133.33grad 50% 50%)", "hsl(2.0944rad 50% 50%)", "hsl(120 50% 50% / .3)", "hwb(120 10% 20%)", "hwb(120 10% 20% / 0.25)", "hwb(90deg 60% 60%)",
	"#abcdef", "#AbCdEf", "#aabbcc", "#abc", "#aabbccdd", "#abcd", "rgb(17 34 51)", "rgb(17,34,51,.2)", "rgb(10% 20% 30%)", "rgb(12.5% 0% 99.9%)", "rgb(0.4 127.5 254.6)", "rgba(1e2, 2e1, 0, 50%)", "black", "white", "#000", "#fff", "gray", "grey", "silver", "fuchsia", "aqua", "cyan", "magenta",
	"tan", "#d2b48c", "beige", "azure", "ivory", "hsl(0 0% 50%)", "hsl(none 50% 50%)", "rgb(none 0 0)", "rgb(0 0 0 / none)"}
var cssColorsModern = []string{"lab(50 20 30)", "lab(50% 20 30 / .5)", "lch(50 40 120)", "lch(50 40 120deg / 40%)", "oklab(0.6 0.1 -0.1)", "oklab(60% 0.1 -0.1 / 0.7)", "oklch(0.6 0.15 200)", "oklch(60% 0.15 0.5turn)", "color(display-p3 1 0 0)", "color(display-p3 0.2 0.5 0.3 / .5)", "color(srgb 0.1 0.2 0.3)",
	"color(srgb-linear 0.1 0.2 0.3)", "color(a98-rgb 0.3 0.4 0.5)", "color(prophoto-rgb 0.3 0.4 0.5)", "color(rec2020 0.3 0.4 0.5)", "color(xyz 0.2 0.3 0.4)", "color(xyz-d50 0.2 0.3 0.4)", "color(xyz-d65 0.2 0.3 0.4)", "color(srgb 1.2 -0.1 0.5)", "color(srgb 50% 20% 0%)", "color(srgb none 0.5 0.5)",
	"lab(120 200 -200)", "oklch(1.2 0.5 400)", "lch(0 0 0)", "oklab(0 0 0 / 0)", "color-mix(in srgb, red 30%, blue)", "color-mix(in oklab, #f00, #00f 25%)"}

func (g *cssgen) color() string {
	r := g.rng
	switch {
	case g.modernVal && r.Intn(4) == 0:
		return r.Pick(cssColorsModern)
	case r.Intn(4) == 0:
		return r.Pick(cssColorsRed)
	default:
		return r.Pick(cssColorsMisc)
	}
}

var cssLengths = []string{"0", "0px", "-0px", "+0px", "0.0px", "1px", "1.0px", "+1px", "01px", "1.50px", ".5px", "0.5px", "-.5px", "-0.50px", "1e1px", "1E1px", "1.5e+1px", "10px", "10.00px", "100px", "1em", "0.5em", ".50em", "2rem", "50%", "50.0%", "0%", "1vh", "2vw", "12pt", "1pc", "1in", "2.54cm", "25.4mm", "101.6q", "1ex", "1ch", "3px", "7px"}
var cssCalcs = []string{"calc(1px + 2px)", "calc(10px - 3px)", "calc(2 * 3px)", "calc(3px * 2)", "calc(12px / 4)", "calc(1px + 2 * 3px)", "calc((1px + 2px) * 3)", "calc(100% - 10px)", "calc(100% - (2 * 5px))", "calc(1em + 2px)", "calc(1px + 1em + 2px)", "calc(50% + 25%)", "calc(1px - -2px)", "calc(0px + 0%)",
	"calc( 1px+2px )", "calc(1px + (2px + (3px + 4px)))", "calc(10px - (3px - 1px))", "calc(10px - (3px + 1px))", "calc(2 * (3px + 1em))", "calc((4px + 2em) / 2)", "calc(1px * 1.5 * 2)", "calc(3 * 2 * 1px)", "calc(1px + calc(2px * 3))", "calc(-1 * (1px + 2px))", "calc(100% / 3)", "calc(100px / 3)", "calc(1px * (1 / 3))",
	"min(10px, 2em)", "max(1px, 5px)", "clamp(1px, 2px, 3px)", "clamp(5px, 50%, 20px)", "min(10px, calc(2px * 3))", "calc(min(4px, 6px) + 1px)", "calc(1px + 2.5px * 2 - 1px)", "calc(1e1px + 5px)", "calc(infinity * 1px)", "calc(1px * pi)", "calc(1px * e)", "calc(10px * sin(0))", "calc(1px + 2px + 3px + 4px)", "calc(16px - 1rem)", "calc(0.1px + 0.2px)"}

func (g *cssgen) length() string {
	if g.rng.Intn(3) == 0 {
		return g.rng.Pick(cssCalcs)
	}
	return g.rng.Pick(cssLengths)
}

func (g *cssgen) box() string {
	r := g.rng
	n := 1 + r.Intn(4)
	vals := make([]string, n)
	base := []string{"1px", "2px", "1px", "2px", "0", "3px", "1em", "0px", "auto"}
	for i := range vals {
		if r.Intn(3) == 0 {
			vals[i] = g.length()
		} else {
			vals[i] = r.Pick(base[:8])
		}
	}
	// favour collapsible shapes
	switch r.Intn(5) {
	case 0:
		if n == 4 {
			vals[3] = vals[1]
		}
	case 1:
		if n >= 3 {
			vals[2] = vals[0]
		}
	case 2:
		for i := range vals {
			vals[i] = vals[0]
		}
	}
	return strings.Join(vals, " ")
}

var cssTimes = []string{"0s", "0ms", "1s", "1.0s", "0.5s", ".5s", "500ms", "100ms", "0.1s", "1000ms", "2.50s", "-1s", "+.25s"}
var cssFonts = []string{"serif", "sans-serif", "monospace", "Arial", "\"Arial\"", "'Helvetica Neue'", "Helvetica Neue", "\"Times New Roman\", serif", "Arial,sans-serif", "\"serif\"", "system-ui", "\"Foo Bar\", \"Baz\"", "\"1st\", serif", "a, \"b c\", d"}

// declaration returns one declaration (without trailing semicolon)
func (g *cssgen) declaration() string {
	r := g.rng
	imp := ""
	if r.Intn(7) == 0 {
		imp = r.Pick([]string{" !important", "!important", " ! important", " !IMPORTANT"})
	}
	var d string
	switch r.Intn(40) {
	case 0, 1, 2, 3:
		d = "color: " + g.color()
	case 4, 5:
		d = r.Pick([]string{"background-color", "background"}) + ": " + g.color()
	case 6:
		d = "border-color: " + g.color() + r.Pick([]string{"", " " + g.color(), " " + g.color() + " " + g.color() + " " + g.color()})
	case 7, 8:
		d = "margin: " + g.box()
	case 9:
		d = "margin-" + r.Pick([]string{"top", "right", "bottom", "left"}) + ": " + g.length()
	case 10, 11:
		d = "padding: " + strings.ReplaceAll(g.box(), "auto", "1px")
	case 12:
		d = "padding-" + r.Pick([]string{"top", "right", "bottom", "left"}) + ": " + strings.ReplaceAll(g.length(), "-", "")
	case 13:
		d = "border: " + r.Pick([]string{"1px solid " + g.color(), "solid", "none", "0", "2px dashed", g.color() + " 3px dotted", "medium none currentColor", "thin solid", "1px solid"})
	case 14:
		d = "border-" + r.Pick([]string{"top", "left"}) + ": " + r.Pick([]string{"1px solid " + g.color(), "0", "none", "2px double " + g.color()})
	case 15:
		d = "border-width: " + strings.ReplaceAll(strings.ReplaceAll(g.box(), "auto", "thin"), "-", "")
	case 16:
		d = "border-style: " + r.Pick([]string{"solid", "solid dashed", "solid dashed solid dashed", "none", "dotted solid dotted", "solid solid solid solid"})
	case 17:
		d = "border-radius: " + r.Pick([]string{"1px", "1px 2px", "1px 2px 1px 2px", "1px 1px 1px 1px", "1px 2px 3px 4px", "1px / 2px", "1px 2px / 1px 2px", "50%", "1px 2px 3px", "0", "0px 0px", "1em 2em / 3em", "calc(1px + 1px)", "1px 1px / 1px 1px"})
	case 18:
		if g.modern && r.Bool() {
			d = "inset: " + r.Pick([]string{"0", "1px", "1px 2px", "1px 2px 3px 4px", "auto", "0 auto"})
		} else {
			d = r.Pick([]string{"top", "right", "bottom", "left"}) + ": " + g.length()
		}
	case 19:
		d = "position: " + r.Pick([]string{"relative", "absolute", "static", "fixed", "sticky"})
	case 20:
		d = r.Pick([]string{"width", "height", "min-width", "max-width"}) + ": " + strings.ReplaceAll(g.length(), "-", "")
	case 21:
		d = "font-size: " + r.Pick([]string{"12px", "1em", "1.5em", "100%", "medium", "larger", "calc(10px + 2px)", "0.75rem", ".75rem", "16.0px"})
	case 22:
		d = "font-weight: " + r.Pick([]string{"normal", "bold", "400", "700", "bolder", "100", "900", "550"})
	case 23:
		d = "font-family: " + r.Pick(cssFonts)
	case 24:
		d = "font: " + r.Pick([]string{"12px serif", "italic bold 12px/1.5 \"Helvetica Neue\", Arial, sans-serif", "bold 1em/normal Arial", "normal 10px \"a b\"", "700 12px/2 monospace", "small-caps 12px serif", "italic 12px/1.0 'x'", "caption", "inherit"})
	case 25:
		d = "line-height: " + r.Pick([]string{"1", "1.0", "1.5", "normal", "20px", "150%", "1.50", "calc(1 + 0.5)", "0.5"})
	case 26:
		d = r.Pick([]string{"transition", "transition-duration", "transition-delay", "animation-duration"}) + ": " + r.Pick(cssTimes)
	case 27:
		d = "transition: " + r.Pick([]string{"color 0.5s ease 0s", "all .5s", "opacity 1s linear, color 500ms ease-in-out 100ms", "none", "color 0s", "all 0s ease 0s", "margin 1s cubic-bezier(0.25, 0.1, 0.25, 1.0)", "top 1s steps(1, end)", "color 1s cubic-bezier(0, 0, 1, 1)"})
	case 28:
		d = "transform: " + r.Pick([]string{"none", "translate(0px, 0px)", "translate(1px)", "translate(1px, 0)", "translateX(1px)", "rotate(0.5turn)", "rotate(180deg)", "rotate(3.14159rad)", "rotate(200grad)", "scale(1, 1)", "scale(2)", "scale(2, 2)", "translate3d(0, 0, 0)", "matrix(1, 0, 0, 1, 0, 0)", "rotate(0)", "rotate(0deg)", "skew(10deg, 0)", "scaleX(1.50)", "translate(10%, -0.50em) rotate(-.25turn)"})
	case 29:
		d = "opacity: " + r.Pick([]string{"1", "1.0", "0.5", ".5", "50%", "0", "0.50", "1e0", "2", "-1"})
	case 30:
		d = "z-index: " + r.Pick([]string{"1", "01", "+1", "-1", "auto", "10", "1e1", "0"})
	case 31:
		d = "display: " + r.Pick([]string{"block", "inline", "none", "flex", "inline-block", "grid", "inline-flex", "block flow", "contents"})
	case 32:
		d = "flex: " + r.Pick([]string{"1", "1 1 0%", "1 1 0", "none", "auto", "0 0 auto", "0 1 auto", "2 2 10px", "1 0px", "initial", "1 1 auto", "0 0 0%"})
	case 33:
		d = "box-shadow: " + r.Pick([]string{"none", "0 0 0 " + g.color(), "1px 1px " + g.color(), g.color() + " 1px 2px 3px", "inset 0 0 1px 1px " + g.color(), "0px 0px 0px 0px red, 1px 1px blue", "0 0 #000"})
	case 34:
		d = "text-decoration: " + r.Pick([]string{"underline", "none", "underline " + g.color(), "underline dotted " + g.color(), "line-through solid", "underline overline"})
	case 35:
		d = "outline: " + r.Pick([]string{"none", "0", "1px solid " + g.color(), "thick double " + g.color(), "solid", g.color() + " dotted 2px"})
	case 36:
		lc := func() string { return r.Pick(cssColorsMisc[:40]) } // gradient stops: legacy notations only (lowered gradients are re-sampled, not comparable)
		d = "background: " + r.Pick([]string{"linear-gradient(red, blue)", "linear-gradient(to right, red 0%, blue 100%)", "linear-gradient(180deg, red, blue)", "linear-gradient(to bottom, red, blue)", "linear-gradient(90deg, " + lc() + ", " + lc() + " 50%, " + lc() + ")",
			"linear-gradient(red 0%, red 50%, blue 50%, blue 100%)", "linear-gradient(45deg, red 10px, 30%, blue 90%)", "radial-gradient(circle, red, blue)", "radial-gradient(circle at center, red 0, blue 100%)", "conic-gradient(from 0deg, red, blue)", "linear-gradient(0.25turn, red, blue)",
			"url(x.png)", "url(\"x.png\")", "url('x y.png')", "none", g.color() + " none", "linear-gradient(red, 50%, blue)", "repeating-linear-gradient(red 0px, blue 10px)", "linear-gradient(to top right, red, blue), " + g.color()})
	case 37:
		n := r.Pick([]string{"--x", "--y", "--X", "--long-name", "--x1"})
		g.custom[n] = true
		d = n + ":" + r.Pick([]string{" red", "  1px  +  2px ", " {a:b}", " calc( 1px+2px )", "#FF0000", " 0.50", " +.5e+1", " url( x )", " \"a\\62 c\"", " rgb( 255 , 0 , 0 )", "", " ", " initial", " var(--y, 1px)", " 1PX", " [a] (b) {c}", " a/**/b", " !important"})
		if strings.HasSuffix(d, "!important") {
			imp = ""
		}
	case 38:
		n := r.Pick([]string{"--x", "--y", "--X", "--long-name", "--undefined"})
		d = r.Pick([]string{"color", "margin-top", "width", "background-color"}) + ": var(" + n + r.Pick([]string{"", ", red", ", 1px", ",", ", var(--y, 2px)", " , calc(1px + 2px)"}) + ")"
	default:
		d = r.Pick([]string{"content: \"a\"", "content: 'a'", "content: \"\\201C\"", "content: \"a\\62 c\"", "content: \"\\\"\"", "content: '\"'", "content: \"a\" attr(data-x) 'b'", "content: none", "content: \"\\a\"", "content: \"</\"",
			"visibility: hidden", "cursor: pointer", "overflow: hidden", "overflow: hidden auto", "overflow: auto auto", "text-align: center", "vertical-align: middle", "white-space: nowrap", "order: 1", "gap: 1px", "gap: 1px 1px", "gap: 1px 2px",
			"accent-color: " + g.color(), "caret-color: " + g.color(), "fill: " + g.color(), "stroke: " + g.color(), "column-rule-color: " + g.color(), "letter-spacing: " + g.length(), "text-shadow: 1px 1px " + g.color(), "text-shadow: " + g.color() + " 0 0 2px",
			"animation: k 1s", "animation-name: k", "animation: 0.5s ease-in 0s 1 normal none running k2", "outline-color: " + g.color(), "text-decoration-color: " + g.color(), "unknown-prop: 1px", "color: notacolor", "margin: 1px 2px 3px 4px 5px", "width: -1px", "color: rgb(1,2)", "color: #12", "color: #12345"})
	}
	if g.noURL && strings.Contains(d, "url(") {
		d = "background: " + g.color()
	}
	return d + imp
}

var cssSimple = []string{".a", ".b", ".c", ".box", "#r", "#p1", "p", "li", "span", "div", "input", "a", "em", "b", "section", "ul", "*", "[data-x]", "[data-x=\"1\"]", "[data-x='2']", "[data-x=\"1\" i]", "[lang|=en]", "[href^=\"#\"]", "[class~=b]", "[class*=\"a\"]", "[type=checkbox]",
	":first-child", ":last-child", ":nth-child(2)", ":nth-child(2n+1)", ":nth-child(odd)", ":nth-child(even)", ":nth-child(2n)", ":nth-child(n+2)", ":nth-child(-n+2)", ":nth-last-child(1)", ":only-child", ":first-of-type", ":not(.a)", ":not(.a, .b)", ":not(li)", ":disabled", ":enabled", ":checked", ":empty",
	".\\61", "#\\72", ".\\000062", ".a.b", ".a.a", "li.a", "p.b.c", "*.c", ":root", "LI", "Div"}
var cssModernSimple = []string{":is(.a, .b)", ":where(.c)", ":is(li, p)", ":is(.a)", ":where(.a, .b) ", ":is(.a .b, .c)", ":not(:is(.a, .b))", ":is(:not(.a))", ":has(> .b)", ":has(.a)", ":is(.a, ..bad)", ":where()", ":nth-child(2 of .b)", ":is(ul, section) > :is(li, div)"}

func (g *cssgen) compound() string {
	r := g.rng
	s := r.Pick(cssSimple)
	for g.plainSel && (strings.Contains(s, "[class") || strings.Contains(s, "\\") || s == ":root") {
		s = r.Pick(cssSimple)
	}
	if g.modern && r.Intn(4) == 0 {
		s = r.Pick(cssModernSimple)
	}
	if r.Intn(4) == 0 {
		t := r.Pick(cssSimple[:2+r.Intn(len(cssSimple)-2)])
		if g.plainSel && (strings.Contains(t, "[class") || strings.Contains(t, "\\")) {
			t = ".a"
		}
		if strings.HasPrefix(t, ".") || strings.HasPrefix(t, ":") || strings.HasPrefix(t, "[") || strings.HasPrefix(t, "#") {
			s = strings.TrimSpace(s) + t
		}
	}
	return s
}

func (g *cssgen) selector() string {
	r := g.rng
	s := g.compound()
	for i, n := 0, r.Intn(3); i < n; i++ {
		s += r.Pick([]string{" ", " ", " > ", ">", " + ", " ~ ", "  ", "~"}) + g.compound()
	}
	if r.Intn(12) == 0 {
		s += r.Pick([]string{"::before", "::after", ":before", ":after"})
	}
	return s
}

func (g *cssgen) selectorList() string {
	r := g.rng
	n := 1
	if r.Intn(3) == 0 {
		n = 2 + r.Intn(2)
	}
	var ss []string
	for i := 0; i < n; i++ {
		ss = append(ss, g.selector())
	}
	if g.hostile && r.Intn(15) == 0 {
		ss = append(ss, r.Pick([]string{"..bad", ":unknown-pseudo", "a::unknown", "", "[", ">"}))
		g.features["bad-selector-in-list"] = true
	}
	return strings.Join(ss, r.Pick([]string{", ", ",", " , "}))
}

// boxFamily returns 2-5 declarations of one box-shorthand family (shorthand and side longhands interleaved),
// mixing units the minifier may merge ("safe") with ones it must keep apart (viewport units, calc, var, auto).
func (g *cssgen) boxFamily() string {
	r := g.rng
	fam := r.Intn(4)
	if fam == 2 && !g.modern {
		fam = 0
	}
	sides := []string{"top", "right", "bottom", "left"}
	safe := []string{"1px", "2px", "3px", "0", "4px", "1em", "5%", "0px"}
	unsafe := []string{"1vw", "2vh", "calc(1px + 1vw)", "var(--y, 7px)", "1vmin", "1cqw", "env(safe-area-inset-top, 6px)"}
	if fam != 1 {
		unsafe = append(unsafe, "auto")
	}
	val := func() string {
		if r.Intn(3) == 0 {
			return r.Pick(unsafe)
		}
		return r.Pick(safe)
	}
	short := func() string {
		n := 1 + r.Intn(4)
		vs := make([]string, n)
		for i := range vs {
			vs[i] = val()
		}
		return strings.Join(vs, " ")
	}
	var b strings.Builder
	for i, n := 0, 2+r.Intn(4); i < n; i++ {
		imp := ""
		if r.Intn(9) == 0 {
			imp = " !important"
		}
		if r.Intn(3) == 0 {
			switch fam {
			case 0:
				b.WriteString("margin: " + short())
			case 1:
				b.WriteString("padding: " + short())
			case 2:
				b.WriteString("inset: " + short())
			default:
				b.WriteString("border-width: " + strings.ReplaceAll(short(), "auto", "thin"))
			}
		} else {
			side := r.Pick(sides)
			switch fam {
			case 0:
				b.WriteString("margin-" + side + ": " + val())
			case 1:
				b.WriteString("padding-" + side + ": " + val())
			case 2:
				b.WriteString(side + ": " + val())
			default:
				b.WriteString("border-" + side + "-width: " + strings.ReplaceAll(val(), "auto", "thin"))
			}
		}
		b.WriteString(imp + "; ")
	}
	if fam == 2 {
		b.WriteString("position: absolute; ")
	}
	if fam == 3 {
		b.WriteString("border-style: solid; ")
	}
	return b.String()
}

func (g *cssgen) block(depth int) string {
	r := g.rng
	var b strings.Builder
	n := 1 + r.Intn(4)
	if r.Intn(5) == 0 {
		b.WriteString(g.boxFamily())
	}
	for i := 0; i < n; i++ {
		b.WriteString(g.declaration())
		b.WriteString(r.Pick([]string{"; ", ";", " ; ", ";\n  "}))
		if g.hostile && r.Intn(25) == 0 {
			b.WriteString(r.Pick([]string{";", ";;", "color; ", ": red; ", "color: ; ", "{} ", "color: red green; ", "@foo; ", "margin: 1px !important !important; ", "color: red !unimportant; ", "co lor: red; "}))
		}
	}
	if g.modern && depth > 0 && r.Intn(4) == 0 {
		// nested rules
		g.features["nesting"] = true
		for i, k := 0, 1+r.Intn(2); i < k; i++ {
			switch r.Intn(7) {
			case 0:
				b.WriteString("& " + g.compound() + " { " + g.block(depth-1) + "} ")
			case 1:
				b.WriteString("&" + r.Pick([]string{".a", ".b", ":first-child", "[data-x]", ".c.c"}) + " { " + g.block(depth-1) + "} ")
			case 2:
				b.WriteString(g.compound() + " & { " + g.block(depth-1) + "} ")
			case 3:
				b.WriteString(r.Pick([]string{"> ", "+ ", "~ "}) + g.compound() + " { " + g.block(depth-1) + "} ")
			case 4:
				b.WriteString("@media " + g.mediaQuery() + " { " + g.block(0) + "} ")
			case 5:
				b.WriteString(g.compound() + ", & " + g.compound() + " { " + g.block(depth-1) + "} ")
			default:
				b.WriteString(":is(" + g.compound() + ", &) " + g.compound() + " { " + g.block(depth-1) + "} ")
			}
			// declarations after nested rules (browsers keep them in place as nested declarations; esbuild hoists them)
			if r.Intn(6) == 0 {
				g.features["trailing-decl"] = true
				b.WriteString(g.declaration() + "; ")
			}
		}
	}
	return b.String()
}

func (g *cssgen) mediaQuery() string {
	r := g.rng
	old := []string{"(min-width: 500px)", "(max-width: 500px)", "(min-width:500px) and (max-width:900px)", "screen", "screen and (min-width: 500px)", "not screen", "not all", "all", "print", "(min-width: 31.25em)", "only screen and (max-width: 899.98px)", "(orientation: landscape)", "(min-width: 500px), (max-width: 200px)",
		"not all and (min-width: 500px)", "(min-width: 0)", "(min-width: 0px)", "(MIN-WIDTH: 500PX)", "(min-resolution: 1dppx)", "(color)", "(min-width: calc(250px * 2))"}
	modern := []string{"(width >= 500px)", "(width > 500px)", "(width <= 500px)", "(width < 500px)", "(500px <= width)", "(500px <= width <= 900px)", "(500px < width < 900px)", "(900px > width >= 500px)", "(width >= 500px) and (width <= 900px)", "not (width >= 500px)", "(width >= 500px) or (width < 200px)",
		"((width >= 500px) and (height >= 1px)) or (width < 200px)", "(width = 700px)", "(width)", "(not (width < 500px))", "screen and (width >= 500px)", "(width >= 31.25em)"}
	if g.modern && r.Intn(2) == 0 {
		return r.Pick(modern)
	}
	return r.Pick(old)
}

func (g *cssgen) rule() string {
	return g.selectorList() + r2(g.rng, []string{" { ", "{", " {\n  "}) + g.block(2) + "}\n"
}

func r2(r *Rng, xs []string) string { return r.Pick(xs) }

// Sheet returns a style sheet of n top-level items.
func (g *cssgen) Sheet(n int) string {
	r := g.rng
	var b strings.Builder
	if g.modern {
		b.WriteString(".box { container-type: inline-size; container-name: cn; }\n")
	}
	if r.Intn(6) == 0 {
		b.WriteString(r.Pick([]string{"@layer l1, l2;\n", "@layer l2, l1;\n", "@layer l1;\n@layer l2, l1;\n"}))
	}
	for i := 0; i < n; i++ {
		switch r.Intn(16) {
		case 0, 1:
			b.WriteString("@media " + g.mediaQuery() + " { " + g.rule() + g.maybeRule() + "}\n")
		case 2:
			b.WriteString("@supports " + r.Pick([]string{"(display: grid)", "not (display: grid)", "(display: nonsense)", "not (display: nonsense)", "(display:grid) and (not (foo: bar))", "(display: grid) or (foo: bar)", "selector(:is(a))", "(color: color(display-p3 1 0 0))", "((display: flex))", "(--x: 1)"}) + " { " + g.rule() + "}\n")
		case 3:
			if g.modern {
				b.WriteString("@layer " + r.Pick([]string{"l1", "l2", "l3", "l1.sub", ""}) + " { " + g.rule() + g.maybeRule() + "}\n")
			} else {
				b.WriteString(g.rule())
			}
		case 4:
			if g.modern {
				b.WriteString("@container " + r.Pick([]string{"(min-width: 100px)", "(width >= 100px)", "cn (min-width: 100px)", "(min-width: 5000px)", "not (min-width: 5000px)", "cn (width < 5000px) and (width > 1px)"}) + " { " + g.rule() + "}\n")
			} else {
				b.WriteString(g.rule())
			}
		case 12:
			// a nested conditional rule that repeats the enclosing condition, between two rules with the same body
			q := g.mediaQuery()
			selA, selB := g.selectorList(), g.selectorList()
			x, y := g.block(0), g.block(0)
			b.WriteString("@media " + q + " { " + selA + " { " + x + "} @media " + q + " { " + selB + " { " + y + "} } " + selB + " { " + x + "} }\n")
		case 11:
			if g.modern {
				b.WriteString(g.layerPlay())
			} else {
				b.WriteString(g.rule())
			}
		case 5:
			b.WriteString("@keyframes " + r.Pick([]string{"k", "k2"}) + " { from { opacity: 0 } 50.0% { opacity: .5 } to { opacity: 1 } }\n")
		case 6:
			// exact duplicate of an earlier kind of rule, later in the sheet
			sel := g.selectorList()
			body := g.block(0)
			b.WriteString(sel + " { " + body + "}\n" + g.rule() + sel + " { " + body + "}\n")
		case 7:
			// same body, different selectors; adjacent and separated
			body := g.block(0)
			b.WriteString(g.selectorList() + " { " + body + "}\n")
			if r.Bool() {
				b.WriteString(g.rule())
			}
			b.WriteString(g.selectorList() + " { " + body + "}\n")
		case 8:
			// same selector, different bodies
			sel := g.selectorList()
			b.WriteString(sel + " { " + g.block(0) + "}\n")
			if r.Bool() {
				b.WriteString(g.rule())
			}
			b.WriteString(sel + " { " + g.block(0) + "}\n")
		case 9:
			if g.hostile {
				b.WriteString(r.Pick([]string{"}\n", "{}\n", "a { color: red \n", "@media { .a { color: red } }\n", "@unknown foo { .a { color: red } }\n", "@unknown;\n", ".a { color: red; } }\n", "<!-- .a { color: red } -->\n", ".a { color: \"unterminated\n; margin: 1px }\n", "@media (min-width: 500px) { .a { color: red }\n",
					".a { b: url(unterminated }\n", "@import \"late.css\";\n", "@charset \"utf-8\";\n", "@namespace svg url(http://www.w3.org/2000/svg);\n", ".a { color: red; /* unterminated comment \n"}))
			} else {
				b.WriteString(g.rule())
			}
		case 10:
			b.WriteString("/* comment */" + g.rule())
		default:
			b.WriteString(g.rule())
		}
	}
	return b.String()
}

// layerPlay: a layer-order statement (top level, or nested in a single-name layer block) followed by blocks of
// those layers in another order, all styling the same elements, so that the declared order decides the winner.
func (g *cssgen) layerPlay() string {
	r := g.rng
	g.features["layer-order"] = true
	names := []string{"m1", "m2", "m3", "m4"}[:2+r.Intn(3)]
	order := append([]string{}, names...)
	r.Shuffle(len(order), func(i, j int) { order[i], order[j] = order[j], order[i] })
	blocks := append([]string{}, names...)
	r.Shuffle(len(blocks), func(i, j int) { blocks[i], blocks[j] = blocks[j], blocks[i] })
	parent := r.Pick([]string{"", "", "p1", "p2"})
	sel := r.Pick([]string{".a", "li", ".b", "p", "div", ".c"})
	prop := r.Pick([]string{"color", "background-color", "margin-top", "z-index"})
	var b strings.Builder
	stmt := "@layer " + strings.Join(order, r.Pick([]string{", ", ","})) + ";"
	if parent == "" {
		b.WriteString(stmt + "\n")
	} else {
		b.WriteString("@layer " + parent + " { " + stmt + " }\n")
	}
	if r.Intn(3) == 0 {
		b.WriteString(g.rule())
	}
	for i, n := range blocks {
		var v string
		switch prop {
		case "color", "background-color":
			v = []string{"#010203", "#040506", "#070809", "#0a0b0c"}[i]
		case "margin-top":
			v = fmt.Sprintf("%dpx", 11+i)
		default:
			v = fmt.Sprint(21 + i)
		}
		body := sel + " { " + prop + ": " + v + "; " + g.declaration() + " }"
		switch {
		case parent == "":
			b.WriteString("@layer " + n + " { " + body + " }\n")
		case r.Bool():
			b.WriteString("@layer " + parent + "." + n + " { " + body + " }\n")
		default:
			b.WriteString("@layer " + parent + " { @layer " + n + " { " + body + " } }\n")
		}
	}
	return b.String()
}

func (g *cssgen) maybeRule() string {
	if g.rng.Bool() {
		return g.rule()
	}
	return ""
}

func (g *cssgen) customList() []string {
	var out []string
	for k := range g.custom {
		out = append(out, k)
	}
	sortStrings(out)
	return out
}

func newCssgen(rng *Rng, modern, hostile bool) *cssgen {
	return &cssgen{rng: rng, custom: map[string]bool{}, modern: modern, modernVal: modern, hostile: hostile, features: map[string]bool{}}
}

var _ = fmt.Sprint
