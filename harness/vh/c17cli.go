package main

import (
	"bytes"
	"encoding/json"
	"fmt"
	"os"
	"os/exec"
	"path/filepath"
	"regexp"
	"sort"
	"strings"
)

// CLI half of C17: the real esbuild binary runs under strace; every file-system-mutating system call it makes
// (open for writing, unlink, rename, mkdir, rmdir, symlink, link, truncate) is checked against the outputs the run reports.

type c17CLICase struct {
	Name   string
	Args   []string
	Stdin  string
	Setup  func(root string)
	Expect string // "ok" | "fail" | "either"
}

var straceWriteRe = regexp.MustCompile(`^(\d+)\s+(openat|open|creat|unlinkat|unlink|renameat2|renameat|rename|mkdirat|mkdir|rmdir|symlinkat|symlink|linkat|link|truncate)\((.*)\)\s+=\s+(-?\d+)`)
var straceStrRe = regexp.MustCompile(`"((?:[^"\\]|\\.)*)"`)
var straceFdRe = regexp.MustCompile(`^(AT_FDCWD|\d+)(?:<([^>]*)>)?`)

type fsMutation struct {
	Call string
	Path string
	Ok   bool
}

func parseStrace(log string, cwd string) []fsMutation {
	var out []fsMutation
	for _, line := range strings.Split(log, "\n") {
		m := straceWriteRe.FindStringSubmatch(line)
		if m == nil {
			continue
		}
		call, args, ret := m[2], m[3], m[4]
		if (call == "openat" || call == "open") && !strings.Contains(args, "O_WRONLY") && !strings.Contains(args, "O_RDWR") && !strings.Contains(args, "O_CREAT") && !strings.Contains(args, "O_TRUNC") {
			continue
		}
		base := cwd
		if fd := straceFdRe.FindStringSubmatch(args); fd != nil && fd[2] != "" {
			base = fd[2]
		}
		strs := straceStrRe.FindAllStringSubmatch(args, -1)
		for idx, sm := range strs {
			p := sm[1]
			if (call == "symlink" || call == "symlinkat") && idx == 0 {
				continue // the link target is not touched
			}
			if (call == "link" || call == "linkat") && idx == 0 {
				continue
			}
			if !filepath.IsAbs(p) {
				p = filepath.Join(base, p)
			}
			out = append(out, fsMutation{Call: call, Path: filepath.Clean(p), Ok: !strings.HasPrefix(ret, "-")})
		}
	}
	return out
}

func c17CLICases() []c17CLICase {
	meta := "--metafile=meta.json"
	return []c17CLICase{
		{Name: "outdir", Args: []string{"src/a.js", "--bundle", "--outdir=out", "--loader:.png=file", meta}, Expect: "ok"},
		{Name: "outdir-is-src", Args: []string{"src/a.js", "--bundle", "--outdir=src", "--loader:.png=file", meta}, Expect: "fail"},
		{Name: "outdir-is-src-allow", Args: []string{"src/a.js", "--bundle", "--outdir=src", "--loader:.png=file", "--allow-overwrite", meta}, Expect: "ok"},
		{Name: "outfile-is-input", Args: []string{"src/a.js", "--bundle", "--outfile=src/b.js", "--loader:.png=dataurl", meta}, Expect: "fail"},
		{Name: "stdout", Args: []string{"src/app/main.js", "--bundle"}, Expect: "ok"},
		{Name: "stdin-to-stdout", Args: []string{"--loader=ts"}, Stdin: "let x: number = 1; console.log(x)", Expect: "ok"},
		{Name: "stdin-to-outfile", Args: []string{"--bundle", "--loader=ts", "--outfile=out/stdin.js", meta}, Stdin: "let x: number = 1; console.log(x)", Expect: "ok"},
		{Name: "transform-stdin-syntax-error", Args: []string{"--bundle", "--loader=js", "--outfile=out/stdin.js"}, Stdin: "let x = ;", Expect: "fail"},
		{Name: "syntax-error", Args: []string{"src/a.js", "--bundle", "--outdir=out", "--loader:.png=file", meta}, Setup: func(root string) { writeFileAt(root, "src/b.js", "export const b = ;") }, Expect: "fail"},
		{Name: "unresolved", Args: []string{"src/a.js", "--bundle", "--outdir=out", "--loader:.png=file", meta}, Setup: func(root string) { writeFileAt(root, "src/b.js", "import './nope.js'; export const b = 1;") }, Expect: "fail"},
		{Name: "missing-export", Args: []string{"src/a.js", "--bundle", "--outdir=out", "--loader:.png=file", meta}, Setup: func(root string) { writeFileAt(root, "src/b.js", "import {x} from './c.js'; export const b = x;"); writeFileAt(root, "src/c.js", "export const y = 1") }, Expect: "fail"},
		{Name: "metafile-on-failure", Args: []string{"src/a.js", "--bundle", "--outdir=out", "--loader:.png=file", "--metafile=out/meta.json", "--mangle-cache=cache.json", "--mangle-props=_$"}, Setup: func(root string) { writeFileAt(root, "src/b.js", "export const b = ;"); writeFileAt(root, "cache.json", "{}") }, Expect: "fail"},
		{Name: "mangle-cache", Args: []string{"src/a.js", "--bundle", "--outdir=out", "--loader:.png=file", "--mangle-cache=cache.json", "--mangle-props=_$", meta}, Setup: func(root string) { writeFileAt(root, "cache.json", "{}"); writeFileAt(root, "src/b.js", "export const b = {x_: 1}.x_;") }, Expect: "ok"},
		{Name: "metafile-path-is-input", Args: []string{"src/a.js", "--bundle", "--outdir=out", "--loader:.png=file", "--metafile=src/b.js"}, Expect: "either"},
		{Name: "copy-loader-onto-itself", Args: []string{"src/a.js", "--bundle", "--outdir=src", "--loader:.png=copy", "--asset-names=[name]", "--out-extension:.js=.mjs", meta}, Expect: "fail"},
		{Name: "outbase-below-entry", Args: []string{"src/entry.js", "src/app/main.js", "--bundle", "--outdir=build/out", "--outbase=src/app", meta}, Expect: "ok"},
		{Name: "symlinked-outdir", Args: []string{"src/a.js", "--bundle", "--outdir=link", "--loader:.png=file", meta}, Setup: func(root string) { os.Symlink("src", filepath.Join(root, "link")) }, Expect: "fail"},
		{Name: "sourcemap-linked", Args: []string{"src/a.js", "--bundle", "--outdir=src/dist", "--loader:.png=file", "--sourcemap", "--legal-comments=linked", meta}, Expect: "ok"},
		{Name: "splitting", Args: []string{"src/a.js", "src/app/main.js", "--bundle", "--outdir=out", "--splitting", "--format=esm", "--loader:.png=file", meta}, Expect: "ok"},
		{Name: "two-entries-one-name", Args: []string{"src/entry.js", "src/app/main.js", "--bundle", "--outdir=out", "--entry-names=same", meta}, Expect: "fail"},
		{Name: "clean-outdir-not-touched", Args: []string{"src/a.js", "--bundle", "--outdir=build", "--loader:.png=file", meta}, Expect: "ok"},
	}
}

func c17CLI(r *Run, scratch string) {
	self, _ := os.Executable()
	bin := filepath.Join(filepath.Dir(self), "esbuild-verif")
	if _, err := os.Stat(bin); err != nil {
		r.Inconclusive("bin/esbuild-verif is missing")
		return
	}
	if _, err := exec.LookPath("strace"); err != nil {
		r.Inconclusive("strace is missing")
		return
	}
	cases := c17CLICases()
	var syscallsSeen, mutationsSeen int
	results := make([]func(), len(cases))
	counts := make([][2]int, len(cases))
	parallel(len(cases), 8, func(i int) {
		c := cases[i]
		root := filepath.Join(scratch, fmt.Sprint("cli", i))
		writeTree(root, c17Tree())
		if c.Setup != nil {
			c.Setup(root)
		}
		defer os.RemoveAll(root)
		traceFile := filepath.Join(scratch, fmt.Sprint("trace", i))
		defer os.Remove(traceFile)
		before := fsSnapshot(root)
		args := append([]string{"-f", "-y", "-o", traceFile, "-e", "trace=openat,open,creat,unlink,unlinkat,rename,renameat,renameat2,mkdir,mkdirat,rmdir,symlink,symlinkat,link,linkat,truncate", bin}, c.Args...)
		cmd := exec.Command("strace", args...)
		cmd.Dir = root
		cmd.Stdin = strings.NewReader(c.Stdin)
		var stdout, stderr bytes.Buffer
		cmd.Stdout, cmd.Stderr = &stdout, &stderr
		err := cmd.Run()
		failed := err != nil
		after := fsSnapshot(root)
		d := fsCompare(before, after)
		trace, _ := os.ReadFile(traceFile)
		muts := parseStrace(string(trace), root)
		counts[i] = [2]int{strings.Count(string(trace), "\n"), len(muts)}
		// reported outputs
		reported := map[string]bool{}
		var metaPath, cachePath string
		for _, a := range c.Args {
			if strings.HasPrefix(a, "--metafile=") {
				metaPath = filepath.Join(root, a[len("--metafile="):])
			}
			if strings.HasPrefix(a, "--mangle-cache=") {
				cachePath = filepath.Join(root, a[len("--mangle-cache="):])
			}
		}
		if !failed && metaPath != "" {
			if b, err := os.ReadFile(metaPath); err == nil {
				var mf struct {
					Outputs map[string]json.RawMessage `json:"outputs"`
				}
				if json.Unmarshal(b, &mf) == nil {
					for k := range mf.Outputs {
						reported[filepath.Join(root, k)] = true
					}
				}
			}
			reported[metaPath] = true
		}
		if !failed && cachePath != "" {
			reported[cachePath] = true
		}
		results[i] = func() {
			r.Eval(1)
			r.Nontrivial("cli:" + c.Name)
			viol := func(kind, msg string) {
				r.Violation("fs-cli:"+kind+":"+c.Name, msg+fmt.Sprintf(" [esbuild %s]", strings.Join(c.Args, " ")), map[string]interface{}{"args": c.Args, "stderr": stderr.String(), "created": d.Created, "modified": d.Modified, "deleted": d.Deleted})
			}
			if c.Expect == "ok" && failed {
				r.Violation("fs-cli:harness:"+c.Name, "the CLI case was expected to succeed but failed: "+firstLines(stderr.String(), 3), nil)
				return
			}
			if c.Expect == "fail" && !failed {
				viol("expected-refusal", "the build was expected to be refused but succeeded")
			}
			realOf := func(p string) string {
				if rp, err := filepath.EvalSymlinks(p); err == nil {
					return rp
				}
				if rd, err := filepath.EvalSymlinks(filepath.Dir(p)); err == nil {
					return filepath.Join(rd, filepath.Base(p))
				}
				return p
			}
			reportedReal := map[string]bool{}
			for p := range reported {
				reportedReal[p] = true
				reportedReal[realOf(p)] = true
			}
			// snapshot rules
			for _, rel := range append(append([]string{}, d.Created...), d.Modified...) {
				abs := filepath.Join(root, rel)
				if failed {
					viol("write-on-failure", rel+" was created/modified by a run that exited with an error")
				} else if !reportedReal[abs] {
					viol("unreported-write", rel+" was created/modified but is not a reported output")
				}
			}
			for _, rel := range d.Deleted {
				viol("delete", rel+" was deleted by a one-shot build")
			}
			allow := false
			for _, a := range c.Args {
				if a == "--allow-overwrite" {
					allow = true
				}
			}
			for _, rel := range d.Modified {
				if strings.HasPrefix(rel, "src/") && !allow {
					viol("input-overwritten", "input file "+rel+" was overwritten without --allow-overwrite")
				}
			}
			// system call rules: every mutation lands on a reported output or one of its parent directories
			for _, m := range muts {
				if !m.Ok {
					continue
				}
				if m.Path == "/dev/null" || strings.HasPrefix(m.Path, "/dev/") || strings.HasPrefix(m.Path, "/proc/") {
					continue
				}
				isDirCall := strings.HasPrefix(m.Call, "mkdir")
				okPath := reportedReal[m.Path] || reportedReal[realOf(m.Path)]
				if isDirCall {
					for p := range reportedReal {
						if strings.HasPrefix(p, m.Path+"/") {
							okPath = true
						}
					}
				}
				if !okPath {
					if failed {
						viol("syscall-on-failure", fmt.Sprintf("%s(%s) succeeded in a run that exited with an error", m.Call, m.Path))
					} else {
						viol("syscall-off-target", fmt.Sprintf("%s(%s) does not target a reported output", m.Call, m.Path))
					}
				}
				if !strings.HasPrefix(m.Call, "open") && !isDirCall {
					viol("unexpected-call", fmt.Sprintf("a one-shot build called %s(%s)", m.Call, m.Path))
				}
			}
			if c.Stdin == "" && !strings.Contains(strings.Join(c.Args, " "), "--out") && len(d.Created)+len(d.Modified) > 0 {
				viol("stdout-mode-wrote", "stdout mode touched the file system")
			}
		}
	})
	for i, f := range results {
		if f != nil {
			f()
		}
		syscallsSeen += counts[i][0]
		mutationsSeen += counts[i][1]
	}
	sorted := []string{}
	for _, c := range cases {
		sorted = append(sorted, c.Name)
	}
	sort.Strings(sorted)
	r.Count("cli_runs_under_strace", len(cases))
	r.Count("cli_syscalls_recorded", syscallsSeen)
	r.Count("cli_mutating_syscalls_checked", mutationsSeen)
	if mutationsSeen == 0 {
		r.Inconclusive("strace recorded no mutating system call")
	}
	r.Sample(map[string]interface{}{"cli_cases": sorted})
}

func firstLines(s string, n int) string {
	l := strings.Split(s, "\n")
	if len(l) > n {
		l = l[:n]
	}
	return strings.Join(l, " | ")
}
