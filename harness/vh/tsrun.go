package main

import (
	"fmt"
	"strings"
)

// tsrun: TypeScript-only runtime constructs, each emitted together with the JavaScript the TypeScript language
// defines for it (the generator's own desugaring, written from the TypeScript handbook/spec, not from esbuild).
// No TypeScript compiler exists in the sandbox, so this reference model is the trusted base of C06 (c).

type tsCase struct {
	Kind     string            `json:"kind"`
	TS       map[string]string `json:"ts"`
	JS       map[string]string `json:"js"` // reference, ES modules (or a script when there is one file and no import/export)
	Entry    string            `json:"entry"`
	Tsconfig string            `json:"tsconfig,omitempty"`
	Module   bool              `json:"module"`
	Desc     string            `json:"desc"`
}

type enumMember struct {
	name    string
	init    string // TypeScript initialiser ("" = auto)
	ref     string // reference JavaScript initialiser (member references qualified)
	str     bool   // constant string value: no reverse mapping
	numeric bool   // constant numeric value (auto-increment may follow)
}

type tsrun struct {
	rng *Rng
	k   int
	blk int // namespace block counter: names are unique per block, so a local never shadows an export of an earlier block
}

func (g *tsrun) probe() int { g.k++; return g.k }

var enumStrings = []string{`""`, `"s"`, `"0"`, `"a b"`, `"A"`, `"-1"`, `"é"`, "`t`", `"x" + "y"`}

// numeric constant expression over earlier numeric members (TypeScript's constant enum expression grammar)
func (g *tsrun) numExpr(d int, prevNum []string, q func(string) string, safe bool) (ts, js string) {
	r := g.rng
	if d <= 0 || r.Intn(3) == 0 {
		if len(prevNum) > 0 && r.Intn(2) == 0 {
			n := prevNum[r.Intn(len(prevNum))]
			return n, q(n)
		}
		lit := r.Pick([]string{"0", "1", "2", "5", "7", "0x10", "1e3", "1.5", "255", "4294967295", "2147483648", "0.1"})
		return lit, lit
	}
	switch r.Intn(8) {
	case 0:
		a, b := g.numExpr(d-1, prevNum, q, safe)
		op := r.Pick([]string{"-", "~", "+"})
		return op + "(" + a + ")", op + "(" + b + ")"
	case 1:
		a, b := g.numExpr(d-1, prevNum, q, safe)
		return "(" + a + ")", "(" + b + ")"
	default:
		// no `**` here: its result is implementation-approximated (V8 and Go differ in the last ulp) and a following
		// integer operator would amplify that; `**` is applied to enum values in the use sites instead (compared with tolerance)
		ops := []string{"+", "-", "*", "<<", ">>", ">>>", "&", "|", "^", "/", "%"}
		if safe {
			ops = ops[:9] // a const enum member must not evaluate to NaN or an infinity (a TypeScript error)
		}
		op := r.Pick(ops)
		a1, b1 := g.numExpr(d-1, prevNum, q, safe)
		a2, b2 := g.numExpr(d-1, prevNum, q, safe)
		return "(" + a1 + ") " + op + " (" + a2 + ")", "(" + b1 + ") " + op + " (" + b2 + ")"
	}
}

// enumDecl returns a TypeScript enum declaration and its reference JavaScript.
// others: earlier enums in scope whose numeric members may be referenced as Other.X
func (g *tsrun) enumDecl(name string, isConst bool, allowComputed bool, others map[string][]string, export string, wrapVar string) (ts, js string, members []enumMember) {
	r := g.rng
	n := 1 + r.Intn(6)
	var prevNum, prevStr []string
	canAuto := true
	q := func(m string) string {
		if strings.Contains(m, ".") {
			return m
		}
		return name + "." + m
	}
	names := []string{"A", "B", "C", "D", "E", "F", "G", "H"}
	for i := 0; i < n; i++ {
		m := enumMember{name: names[i]}
		c := r.Intn(10)
		if !canAuto && c < 3 {
			c = 3 + r.Intn(7)
		}
		switch {
		case c < 3:
			m.init, m.numeric = "", true
			if i == 0 {
				m.ref = "0"
			} else {
				m.ref = name + "." + names[i-1] + " + 1"
			}
		case c < 6:
			m.init, m.ref = g.numExpr(2, prevNum, q, isConst)
			m.numeric = true
		case c == 6:
			if len(others) > 0 && r.Bool() {
				for o, ms := range others {
					if len(ms) > 0 {
						m.init = o + "." + ms[r.Intn(len(ms))]
						m.ref = m.init
						m.numeric = true
					}
					break
				}
			}
			if m.init == "" {
				m.init, m.ref = g.numExpr(1, prevNum, q, isConst)
				m.numeric = true
			}
		case c == 7 || c == 8:
			if len(prevStr) > 0 && r.Intn(3) == 0 {
				p := prevStr[r.Intn(len(prevStr))]
				m.init, m.ref = p+` + "!"`, q(p)+` + "!"`
			} else {
				m.init = r.Pick(enumStrings)
				m.ref = m.init
			}
			m.str = true
		default:
			if allowComputed && !isConst {
				v := r.Intn(50)
				id := g.probe()
				switch r.Intn(3) {
				case 0:
					m.init = fmt.Sprintf("$(%d, %d)", id, v)
				case 1:
					m.init = "Math.PI"
				default:
					m.init = fmt.Sprintf("\"abc\".length + $(%d, %d)", id, v)
				}
				m.ref = m.init
			} else {
				m.init, m.ref = g.numExpr(1, prevNum, q, isConst)
				m.numeric = true
			}
		}
		canAuto = m.numeric
		if m.numeric {
			prevNum = append(prevNum, m.name)
		}
		if m.str {
			prevStr = append(prevStr, m.name)
		}
		members = append(members, m)
	}
	var t, j strings.Builder
	kw := "enum"
	if isConst {
		kw = "const enum"
	}
	fmt.Fprintf(&t, "%s%s %s {\n", export, kw, name)
	if wrapVar != "" {
		j.WriteString(wrapVar)
	} else {
		fmt.Fprintf(&j, "%svar %s;\n", export, name)
	}
	fmt.Fprintf(&j, "(function (%s) {\n", name)
	for _, m := range members {
		if m.init == "" {
			fmt.Fprintf(&t, "  %s,\n", m.name)
		} else {
			fmt.Fprintf(&t, "  %s = %s,\n", m.name, m.init)
		}
		if m.str {
			fmt.Fprintf(&j, "  %s[%q] = %s;\n", name, m.name, m.ref)
		} else {
			fmt.Fprintf(&j, "  %s[%s[%q] = %s] = %q;\n", name, name, m.name, m.ref, m.name)
		}
	}
	t.WriteString("}\n")
	return t.String(), j.String(), members
}

// uses of enum members in every expression position (the same text on both sides: member access has the same meaning)
func (g *tsrun) enumUses(name string, members []enumMember, logObject bool) string {
	r := g.rng
	var b strings.Builder
	for _, m := range members {
		acc := name + "." + m.name
		if r.Intn(4) == 0 {
			acc = name + "[\"" + m.name + "\"]"
		}
		id := g.probe()
		switch r.Intn(12) {
		case 0:
			fmt.Fprintf(&b, "$(%d, %s);\n", id, acc)
		case 1:
			fmt.Fprintf(&b, "$(%d, %s + \"|\", 1 + %s, -%s, !%s, typeof %s);\n", id, acc, acc, acc, acc, acc)
		case 2:
			fmt.Fprintf(&b, "$(%d, %s ? \"t\" : \"f\", %s === \"\", %s == 0, %s || \"dflt\", %s ?? \"n\");\n", id, acc, acc, acc, acc, acc)
		case 3:
			fmt.Fprintf(&b, "$(%d, Object.keys({[%s]: 1}), {k: %s}.k);\n", id, acc, acc)
		case 4:
			fmt.Fprintf(&b, "$(%d, `<${%s}>`, String(%s), [%s].length);\n", id, acc, acc, acc)
		case 5:
			fmt.Fprintf(&b, "switch (%s) { case %s: $(%d, \"case\"); break; default: $(%d, \"default\"); }\n", acc, acc, id, id)
		case 6:
			fmt.Fprintf(&b, "$(%d, (%s).toString(), %s.constructor === String, (%s).valueOf());\n", id, acc, acc, acc)
		case 7:
			if !m.str {
				fmt.Fprintf(&b, "$(%d, %s | 0, %s >>> 0, %s * 2, ~%s, %s << 1, %s ** 2);\n", id, acc, acc, acc, acc, acc, acc)
			} else {
				fmt.Fprintf(&b, "$(%d, %s.length, %s + %s, %s < \"b\");\n", id, acc, acc, acc, acc)
			}
		case 8:
			if logObject && !m.str {
				fmt.Fprintf(&b, "$(%d, %s[%s], %s[%s[%s]]);\n", id, name, acc, name, name, acc)
			} else {
				fmt.Fprintf(&b, "$(%d, [%s, %s]);\n", id, acc, acc)
			}
		case 9:
			fmt.Fprintf(&b, "{ const f = (x = %s) => x; $(%d, f(), f(%s)); }\n", acc, id, acc)
		case 10:
			fmt.Fprintf(&b, "$(%d, %s === %s, %s !== %s, %s > 1, 1 / %s);\n", id, acc, acc, acc, acc, acc, acc)
		default:
			fmt.Fprintf(&b, "if (%s) $(%d, \"truthy\"); else $(%d, \"falsy\");\n", acc, id, id)
		}
	}
	if logObject {
		fmt.Fprintf(&b, "$(%d, %s);\n", g.probe(), name)
	}
	return b.String()
}

func (g *tsrun) EnumCase() tsCase {
	r := g.rng
	g.k = 0
	c := tsCase{Kind: "enum", TS: map[string]string{}, JS: map[string]string{}}
	cross := r.Intn(2) == 0
	var ts, js, usesTS strings.Builder
	others := map[string][]string{}
	nEnums := 1 + r.Intn(3)
	var importNames []string
	for i := 0; i < nEnums; i++ {
		name := fmt.Sprintf("E%d", i)
		isConst := r.Intn(3) == 0
		export := ""
		if cross {
			export = "export "
		}
		t, j, ms := g.enumDecl(name, isConst, true, others, export, "")
		ts.WriteString(t)
		js.WriteString(j)
		fmt.Fprintf(&js, "})(%s || (%s = {}));\n", name, name)
		var nums []string
		for _, m := range ms {
			if m.numeric {
				nums = append(nums, m.name)
			}
		}
		others[name] = nums
		unused := r.Intn(5) == 0 // never referenced: initialisers must still run
		if !unused {
			usesTS.WriteString(g.enumUses(name, ms, !isConst))
			importNames = append(importNames, name)
		}
		// declaration merging: a second block of the same enum
		if !isConst && r.Intn(5) == 0 {
			v := r.Intn(90) + 100
			fmt.Fprintf(&ts, "%senum %s { Z = %d, Y }\n", export, name, v)
			fmt.Fprintf(&js, "(function (%s) {\n  %s[%s[\"Z\"] = %d] = \"Z\";\n  %s[%s[\"Y\"] = %d] = \"Y\";\n})(%s || (%s = {}));\n", name, name, name, v, name, name, v+1, name, name)
			if !unused {
				fmt.Fprintf(&usesTS, "$(%d, %s.Z, %s.Y, %s[%d]);\n", g.probe(), name, name, name, v)
			}
		}
	}
	if cross {
		c.Module = true
		c.TS["/e.ts"] = ts.String()
		c.JS["/e.js"] = js.String()
		imp := ""
		if len(importNames) > 0 {
			imp = "import {" + strings.Join(importNames, ", ") + "} from \"./e\";\n"
		} else {
			imp = "import \"./e\";\n"
		}
		c.TS["/main.ts"] = imp + usesTS.String()
		c.JS["/main.js"] = strings.Replace(imp, "\"./e\"", "\"./e.js\"", 1) + usesTS.String()
		c.Entry = "/main"
		c.Desc = "enums exported from one module and used in another"
	} else {
		c.TS["/main.ts"] = ts.String() + usesTS.String()
		c.JS["/main.js"] = js.String() + usesTS.String()
		c.Entry = "/main"
		c.Desc = "enums declared and used in one file"
	}
	return c
}

// ---------------------------------------------------------------------------------------------------
// namespaces

type nsItem struct {
	ts, js string
}

func (g *tsrun) nsBody(path []string, depth int, exported map[string]string, locals []string) (ts, js string) {
	// exported: bare name -> qualified name, for every exported binding visible here; locals: visible non-exported names
	r := g.rng
	self := path[len(path)-1]
	var t, j strings.Builder
	ind := strings.Repeat("  ", len(path))
	ex := map[string]string{}
	for k, v := range exported {
		ex[k] = v
	}
	assignable := map[string]bool{}
	loc := append([]string{}, locals...)
	u := 0
	val := func() (string, string) {
		// a small expression over visible names and constants
		var tp, jp []string
		for i, n := 0, 1+r.Intn(3); i < n; i++ {
			switch r.Intn(3) {
			case 0:
				u++
				s := fmt.Sprint(len(path)*100 + u + r.Intn(9)*1000)
				tp, jp = append(tp, s), append(jp, s)
			case 1:
				if len(ex) > 0 {
					keys := make([]string, 0, len(ex))
					for k := range ex {
						keys = append(keys, k)
					}
					sortStrings(keys)
					k := keys[r.Intn(len(keys))]
					tp, jp = append(tp, k), append(jp, ex[k])
					continue
				}
				fallthrough
			default:
				if len(loc) > 0 {
					l := loc[r.Intn(len(loc))]
					tp, jp = append(tp, l), append(jp, l)
				} else {
					tp, jp = append(tp, "1"), append(jp, "1")
				}
			}
		}
		return strings.Join(tp, " + "), strings.Join(jp, " + ")
	}
	n := 2 + r.Intn(5)
	for i := 0; i < n; i++ {
		name := fmt.Sprintf("%s_%c%d", strings.ToLower(self), 'a'+i, g.blk)
		switch r.Intn(9) {
		case 0, 1:
			a, b := val()
			kw := r.Pick([]string{"const", "let", "var"})
			fmt.Fprintf(&t, "%sexport %s %s = %s;\n", ind, kw, name, a)
			fmt.Fprintf(&j, "%s%s.%s = %s;\n", ind, self, name, b)
			ex[name] = self + "." + name
			assignable[name] = kw != "const"
		case 2:
			a, b := val()
			fmt.Fprintf(&t, "%sconst %s = %s;\n", ind, name, a)
			fmt.Fprintf(&j, "%sconst %s = %s;\n", ind, name, b)
			loc = append(loc, name)
		case 3:
			a, b := val()
			id := g.probe()
			fmt.Fprintf(&t, "%sexport function %s(p = %s) { $(%d, p); return p + %s; }\n", ind, name, a, id, a)
			fmt.Fprintf(&j, "%sfunction %s(p = %s) { $(%d, p); return p + %s; }\n%s%s.%s = %s;\n", ind, name, b, id, b, ind, self, name, name)
			// a function declaration is hoisted: later code may call it by its bare name on both sides
			loc = append(loc, name+"()")
		case 4:
			a, b := val()
			fmt.Fprintf(&t, "%sexport class %s { static v = %s; }\n", ind, name, a)
			fmt.Fprintf(&j, "%sclass %s { static v = %s; }\n%s%s.%s = %s;\n", ind, name, b, ind, self, name, name)
			loc = append(loc, name+".v")
		case 5:
			if depth > 0 {
				inner := strings.ToUpper(name)
				it, ij := g.nsBody(append(append([]string{}, path...), inner), depth-1, ex, loc)
				fmt.Fprintf(&t, "%sexport namespace %s {\n%s%s}\n", ind, inner, it, ind)
				// a namespace without any statement (empty, or holding only such namespaces) is not instantiated: TypeScript emits nothing for it
				if strings.TrimSpace(ij) != "" {
					fmt.Fprintf(&j, "%slet %s;\n%s(function (%s) {\n%s%s})(%s = %s.%s || (%s.%s = {}));\n", ind, inner, ind, inner, ij, ind, inner, self, inner, self, inner)
				}
				continue
			}
			fallthrough
		case 6:
			// reassignment of an exported let from inside a function of the namespace
			var lets []string
			for k := range ex {
				if assignable[k] {
					lets = append(lets, k)
				}
			}
			sortStrings(lets)
			if len(lets) > 0 {
				k := lets[r.Intn(len(lets))]
				id := g.probe()
				fmt.Fprintf(&t, "%stry { (() => { %s = %d; })(); } catch (e) { $(%d, \"const\"); }\n", ind, k, 7000+id, id)
				fmt.Fprintf(&j, "%stry { (() => { %s = %d; })(); } catch (e) { $(%d, \"const\"); }\n", ind, ex[k], 7000+id, id)
			}
		case 7:
			id := g.probe()
			a, b := val()
			fmt.Fprintf(&t, "%s$(%d, %s);\n", ind, id, a)
			fmt.Fprintf(&j, "%s$(%d, %s);\n", ind, id, b)
		default:
			// enum nested in a namespace
			inner := strings.ToUpper(name) + "E"
			et, ej, ms := g.enumDecl(inner, false, false, nil, "export ", "let "+inner+";\n")
			et = strings.ReplaceAll(et, "\n", "\n"+ind)
			ej = strings.ReplaceAll(ej, "\n", "\n"+ind)
			fmt.Fprintf(&t, "%s%s\n", ind, strings.TrimRight(et, " "))
			fmt.Fprintf(&j, "%s%s})(%s = %s.%s || (%s.%s = {}));\n", ind, ej, inner, self, inner, self, inner)
			if len(ms) > 0 {
				ex[inner+"."+ms[0].name] = self + "." + inner + "." + ms[0].name
			}
		}
	}
	return t.String(), j.String()
}

func (g *tsrun) NamespaceCase() tsCase {
	g.k = 0
	r := g.rng
	c := tsCase{Kind: "namespace", TS: map[string]string{}, JS: map[string]string{}, Entry: "/main"}
	var ts, js strings.Builder
	export := ""
	if r.Intn(3) == 0 {
		export = "export "
		c.Module = true
	}
	blocks := 1 + r.Intn(2)
	exported := map[string]string{}
	for b := 0; b < blocks; b++ {
		g.blk = b
		t, j := g.nsBody([]string{"N"}, 2, exported, nil)
		fmt.Fprintf(&ts, "%snamespace N {\n%s}\n", export, t)
		if b == 0 {
			fmt.Fprintf(&js, "%svar N;\n", export)
		}
		if strings.TrimSpace(j) != "" {
			fmt.Fprintf(&js, "(function (N) {\n%s})(N || (N = {}));\n", j)
		}
		// names exported by the first block are visible (unqualified) in the second
		for _, line := range strings.Split(t, "\n") {
			f := strings.Fields(line)
			if len(f) >= 3 && f[0] == "export" && (f[1] == "const" || f[1] == "let" || f[1] == "var") && !strings.HasPrefix(line, "    ") {
				exported[f[2]] = "N." + f[2]
			}
		}
	}
	tail := fmt.Sprintf("$(%d, N);\n", g.probe())
	if !strings.Contains(js.String(), "(function (N)") {
		tail = fmt.Sprintf("$(%d, typeof N);\n", g.probe()) // a namespace that is never instantiated has no value (using it is a TypeScript error)
		js.Reset()
		js.WriteString(export + "var N;\n")
		if export != "" {
			js.Reset() // nothing at all is exported then
			tail = "$(0, 0);\n"
		}
	}
	ts.WriteString(tail)
	js.WriteString(tail)
	c.TS["/main.ts"] = ts.String()
	c.JS["/main.js"] = js.String()
	c.Desc = "namespaces with exported/local declarations, nesting, merging and nested enums"
	return c
}

// ---------------------------------------------------------------------------------------------------
// parameter properties and class-field semantics

func (g *tsrun) ClassCase() tsCase {
	g.k = 0
	r := g.rng
	c := tsCase{Kind: "class", TS: map[string]string{}, JS: map[string]string{}, Entry: "/main"}
	define := r.Bool()
	switch r.Intn(4) {
	case 0:
		c.Tsconfig = fmt.Sprintf(`{"compilerOptions": {"useDefineForClassFields": %v}}`, define)
	case 1:
		if define {
			c.Tsconfig = `{"compilerOptions": {"target": "ES2022"}}`
		} else {
			c.Tsconfig = `{"compilerOptions": {"target": "ES2021"}}`
		}
	case 2:
		if define {
			c.Tsconfig = `{"compilerOptions": {"target": "ESNext"}}`
		} else {
			c.Tsconfig = `{"compilerOptions": {"target": "es2017", "useDefineForClassFields": false}}`
		}
	default:
		if define {
			c.Tsconfig = `{"compilerOptions": {"target": "ES5", "useDefineForClassFields": true}}`
		} else {
			c.Tsconfig = `{"compilerOptions": {"target": "ES2020"}}`
		}
	}
	var ts, js strings.Builder
	base := "class B {\n  constructor(...a) { $(" + fmt.Sprint(g.probe()) + ", \"B.ctor\", a); }\n  set v(x) { $(" + fmt.Sprint(g.probe()) + ", \"setter v\", x); }\n  get v() { return \"from getter\"; }\n  set w(x) { $(" + fmt.Sprint(g.probe()) + ", \"setter w\", x); }\n}\n"
	ts.WriteString(base)
	js.WriteString(base)
	derived := r.Bool()
	// parameter properties
	type pp struct{ mod, name, def string }
	var params []pp
	np := r.Intn(4)
	for i := 0; i < np; i++ {
		p := pp{name: fmt.Sprintf("p%d", i)}
		p.mod = r.Pick([]string{"public ", "private ", "protected ", "readonly ", "public readonly ", "", ""})
		if r.Intn(3) == 0 {
			p.def = fmt.Sprintf(" = $(%d, %d)", g.probe(), 40+i)
		}
		params = append(params, p)
	}
	if r.Intn(3) == 0 {
		params = append(params, pp{mod: r.Pick([]string{"public ", ""}), name: "v"}) // parameter property named like the inherited accessor
	}
	// fields
	type fld struct {
		static bool
		name   string
		init   string
	}
	var fields []fld
	nf := r.Intn(4)
	for i := 0; i < nf; i++ {
		f := fld{static: r.Intn(4) == 0, name: r.Pick([]string{"v", "w", "f" + fmt.Sprint(i), "g" + fmt.Sprint(i)})}
		dup := false
		for _, o := range fields {
			if o.name == f.name && o.static == f.static {
				dup = true
			}
		}
		for _, p := range params {
			if p.mod != "" && p.name == f.name {
				dup = true
			}
		}
		if dup {
			continue
		}
		switch r.Intn(4) {
		case 0:
			f.init = ""
		case 1:
			f.init = fmt.Sprintf("$(%d, %d)", g.probe(), 60+i)
		case 2:
			// reading a parameter property from a field initialiser is only meaningful with assign semantics
			// (with define semantics TypeScript reports TS2729); generated only then
			if !define && !f.static {
				for _, p := range params {
					if p.mod != "" {
						f.init = fmt.Sprintf("$(%d, this.%s)", g.probe(), p.name)
						break
					}
				}
			}
			if f.init == "" {
				f.init = fmt.Sprint(70 + i)
			}
		default:
			f.init = fmt.Sprint(80 + i)
		}
		fields = append(fields, f)
	}
	ext := ""
	if derived {
		ext = " extends B"
	}
	// TypeScript source
	fmt.Fprintf(&ts, "class D%s {\n", ext)
	for _, f := range fields {
		st := ""
		if f.static {
			st = "static "
		}
		if f.init == "" {
			fmt.Fprintf(&ts, "  %s%s;\n", st, f.name)
		} else {
			fmt.Fprintf(&ts, "  %s%s = %s;\n", st, f.name, f.init)
		}
	}
	needCtor := len(params) > 0
	bodyProbe := g.probe()
	if needCtor {
		var ps []string
		for _, p := range params {
			ps = append(ps, p.mod+p.name+p.def)
		}
		fmt.Fprintf(&ts, "  constructor(%s) {\n", strings.Join(ps, ", "))
		if derived {
			fmt.Fprintf(&ts, "    super(%s);\n", params[0].name)
		}
		fmt.Fprintf(&ts, "    $(%d, \"D.body\", Object.getOwnPropertyNames(this));\n  }\n", bodyProbe)
	}
	ts.WriteString("}\n")
	// reference JavaScript
	fmt.Fprintf(&js, "class D%s {\n", ext)
	var instAssign, staticAssign []string
	var ppAssign []string
	for _, p := range params {
		if p.mod != "" {
			ppAssign = append(ppAssign, fmt.Sprintf("this.%s = %s;", p.name, p.name))
			if define {
				// with define semantics a parameter property also declares a field, ahead of the other members
				fmt.Fprintf(&js, "  %s;\n", p.name)
			}
		}
	}
	for _, f := range fields {
		if define {
			st := ""
			if f.static {
				st = "static "
			}
			if f.init == "" {
				fmt.Fprintf(&js, "  %s%s;\n", st, f.name)
			} else {
				fmt.Fprintf(&js, "  %s%s = %s;\n", st, f.name, f.init)
			}
		} else if f.init != "" {
			if f.static {
				staticAssign = append(staticAssign, fmt.Sprintf("D.%s = %s;", f.name, f.init))
			} else {
				instAssign = append(instAssign, fmt.Sprintf("this.%s = %s;", f.name, f.init))
			}
		}
	}
	if needCtor || len(instAssign) > 0 {
		var ps []string
		for _, p := range params {
			ps = append(ps, p.name+p.def)
		}
		if needCtor {
			fmt.Fprintf(&js, "  constructor(%s) {\n", strings.Join(ps, ", "))
			if derived {
				fmt.Fprintf(&js, "    super(%s);\n", params[0].name)
			}
		} else if derived {
			js.WriteString("  constructor() {\n    super(...arguments);\n")
		} else {
			js.WriteString("  constructor() {\n")
		}
		for _, a := range ppAssign {
			fmt.Fprintf(&js, "    %s\n", a)
		}
		for _, a := range instAssign {
			fmt.Fprintf(&js, "    %s\n", a)
		}
		if needCtor {
			fmt.Fprintf(&js, "    $(%d, \"D.body\", Object.getOwnPropertyNames(this));\n", bodyProbe)
		}
		js.WriteString("  }\n")
	}
	js.WriteString("}\n")
	for _, a := range staticAssign {
		js.WriteString(a + "\n")
	}
	var args []string
	for i := range params {
		if i%2 == 0 {
			args = append(args, fmt.Sprint(90+i))
		} else {
			args = append(args, "undefined")
		}
	}
	tail := fmt.Sprintf("{ const d = new D(%s); $(%d, Object.getOwnPropertyNames(d), d.v, Object.getOwnPropertyNames(D).filter(k => k != \"length\" && k != \"name\" && k != \"prototype\")); for (const k of Object.getOwnPropertyNames(d)) $(%d, k, d[k]); }\n", strings.Join(args, ", "), g.probe(), g.probe())
	ts.WriteString(tail)
	js.WriteString(tail)
	c.TS["/main.ts"] = ts.String()
	c.JS["/main.js"] = js.String()
	c.Desc = fmt.Sprintf("parameter properties and class fields, useDefineForClassFields=%v via %s", define, c.Tsconfig)
	return c
}

// ---- experimental decorators (tsconfig experimentalDecorators): the TypeScript handbook's order — for every instance
// member in document order its decorator expressions are evaluated top to bottom (method/accessor/property decorators,
// then the parameter decorators in parameter order) and applied bottom to top; then the same for every static member;
// then the class decorators together with the constructor's parameter decorators. The reference spells this out with
// its own __decorate/__param (D$decorate / D$param).

const tsDecoratorLib = `function d(k, tag) { $(k, "eval", tag); return function () { var a = arguments; $(k, "apply", tag, a.length, typeof a[0] === "function" ? "ctor:" + (a[0].tagName || "") : "proto", a[1] === void 0 ? "u" : String(a[1]), a[2] === void 0 ? "u" : typeof a[2] === "object" ? Object.keys(a[2]).sort().join() : String(a[2])); }; }
function rep(k, tag) { $(k, "eval", tag); return function (c) { $(k, "apply", tag); var n = class extends c {}; n.tagName = tag; return n; }; }
`
const tsDecoratorRefLib = `function D$decorate(decs, target, key, desc) { var c = arguments.length, r = c < 3 ? target : desc === null ? desc = Object.getOwnPropertyDescriptor(target, key) : desc, f; for (var i = decs.length - 1; i >= 0; i--) if (f = decs[i]) r = (c < 3 ? f(r) : c > 3 ? f(target, key, r) : f(target, key)) || r; return c > 3 && r && Object.defineProperty(target, key, r), r; }
function D$param(i, dec) { return function (t, k) { dec(t, k, i); }; }
`

func (g *tsrun) DecoratorCase() tsCase {
	g.k = 0
	r := g.rng
	c := tsCase{Kind: "decorators", TS: map[string]string{}, JS: map[string]string{}, Entry: "/main", Tsconfig: `{"compilerOptions": {"experimentalDecorators": true, "useDefineForClassFields": false}}`}
	dec := func(tag string) string { return fmt.Sprintf("d(%d, %q)", g.probe(), tag) }
	type member struct {
		ts, js  string   // declaration text (TS with decorators / plain JS)
		static  bool
		key     string
		decs    []string // decorator expressions in source order (member decorators, then parameter decorators wrapped)
		hasDesc bool     // method / accessor: descriptor looked up (null); property: void 0
	}
	var members []member
	n := 2 + r.Intn(5)
	for i := 0; i < n; i++ {
		static := r.Intn(3) == 0
		sp := ""
		if static {
			sp = "static "
		}
		key := fmt.Sprintf("k%d", i)
		var own []string
		for j, m := 0, 1+r.Intn(2); j < m; j++ {
			own = append(own, dec(fmt.Sprintf("%s.%d", key, j)))
		}
		prefix := ""
		for _, d := range own {
			prefix += "@" + d + " "
		}
		switch r.Intn(4) {
		case 0: // property
			members = append(members, member{ts: "  " + prefix + sp + key + ";", js: "  " + sp + key + ";", static: static, key: key, decs: own, hasDesc: false})
		case 1: // accessor
			members = append(members, member{ts: "  " + prefix + sp + "get " + key + "() { return 1; }", js: "  " + sp + "get " + key + "() { return 1; }", static: static, key: key, decs: own, hasDesc: true})
		default: // method, possibly with parameter decorators
			np := r.Intn(3)
			var psTS, psJS []string
			decs := append([]string{}, own...)
			for p := 0; p < np; p++ {
				if r.Bool() {
					pd := dec(fmt.Sprintf("%s.param%d", key, p))
					psTS = append(psTS, "@"+pd+fmt.Sprintf(" a%d: any", p))
					decs = append(decs, fmt.Sprintf("D$param(%d, %s)", p, pd))
				} else {
					psTS = append(psTS, fmt.Sprintf("a%d?: number", p))
				}
				psJS = append(psJS, fmt.Sprintf("a%d", p))
			}
			members = append(members, member{ts: "  " + prefix + sp + key + "(" + strings.Join(psTS, ", ") + ") {}", js: "  " + sp + key + "(" + strings.Join(psJS, ", ") + ") {}", static: static, key: key, decs: decs, hasDesc: true})
		}
	}
	// class decorators and constructor parameter decorators
	var classDecs []string
	classPrefix := ""
	for j, m := 0, r.Intn(3); j < m; j++ {
		var d string
		if r.Intn(3) == 0 {
			d = fmt.Sprintf("rep(%d, %q)", g.probe(), fmt.Sprintf("class.%d", j))
		} else {
			d = dec(fmt.Sprintf("class.%d", j))
		}
		classDecs = append(classDecs, d)
		classPrefix += "@" + d + "\n"
	}
	ctorTS, ctorJS := "", ""
	var ctorDecs []string
	if r.Bool() {
		pd := dec("ctor.param0")
		ctorTS = "  constructor(@" + pd + " x?: any) {}\n"
		ctorJS = "  constructor(x) {}\n"
		ctorDecs = append(ctorDecs, "D$param(0, "+pd+")")
	}
	var ts, js strings.Builder
	ts.WriteString(tsDecoratorLib)
	js.WriteString(tsDecoratorLib + tsDecoratorRefLib)
	ts.WriteString(classPrefix + "class C {\n" + ctorTS)
	js.WriteString("let C = class C {\n" + ctorJS)
	for _, m := range members {
		ts.WriteString(m.ts + "\n")
		js.WriteString(m.js + "\n")
	}
	ts.WriteString("}\n")
	js.WriteString("};\n")
	for _, static := range []bool{false, true} {
		for _, m := range members {
			if m.static != static {
				continue
			}
			target := "C.prototype"
			if static {
				target = "C"
			}
			desc := "void 0"
			if m.hasDesc {
				desc = "null"
			}
			js.WriteString(fmt.Sprintf("D$decorate([%s], %s, %q, %s);\n", strings.Join(m.decs, ", "), target, m.key, desc))
		}
	}
	if len(classDecs)+len(ctorDecs) > 0 {
		js.WriteString(fmt.Sprintf("C = D$decorate([%s], C);\n", strings.Join(append(append([]string{}, classDecs...), ctorDecs...), ", ")))
	}
	tail := fmt.Sprintf("$(%d, typeof C, C.tagName || \"\", Object.getOwnPropertyNames(C.prototype).sort().join());\n", g.probe())
	ts.WriteString(tail)
	js.WriteString(tail)
	c.TS["/main.ts"] = ts.String()
	c.JS["/main.js"] = js.String()
	c.Desc = fmt.Sprintf("%d members, %d class decorators", len(members), len(classDecs))
	return c
}

// ---- import-equals and export-equals
func (g *tsrun) ImportEqualsCase() tsCase {
	g.k = 0
	r := g.rng
	c := tsCase{Kind: "import-equals", TS: map[string]string{}, JS: map[string]string{}, Entry: "/main", Module: true}
	var ts, js strings.Builder
	ns := fmt.Sprintf("namespace NS { export const leaf = {v: $(%d, 1)}; export namespace Inner { export const deep = $(%d, 2); export function f() { return $(%d, 3); } } }\n", g.probe(), g.probe(), g.probe())
	nsJS := strings.NewReplacer("namespace NS {", "var NS; (function (NS) {", "export const leaf =", "NS.leaf =", "export namespace Inner {", "let Inner; (function (Inner) {", "export const deep =", "Inner.deep =", "export function f()", "function f()").Replace(ns)
	// close the IIFEs by hand
	nsJS = fmt.Sprintf("var NS; (function (NS) { NS.leaf = {v: $(%d, 1)}; let Inner; (function (Inner) { Inner.deep = $(%d, 2); function f() { return $(%d, 3); } Inner.f = f; })(Inner = NS.Inner || (NS.Inner = {})); })(NS || (NS = {}));\n", g.k-2, g.k-1, g.k)
	ts.WriteString(ns)
	js.WriteString(nsJS)
	aliases := [][2]string{{"a", "NS.leaf"}, {"b", "NS.Inner"}, {"c", "NS.Inner.deep"}, {"f", "NS.Inner.f"}}
	r.Shuffle(len(aliases), func(i, j int) { aliases[i], aliases[j] = aliases[j], aliases[i] })
	for i, al := range aliases[:2+r.Intn(3)] {
		exported := r.Intn(3) == 0
		if exported {
			ts.WriteString(fmt.Sprintf("export import %s = %s;\n", al[0], al[1]))
			js.WriteString(fmt.Sprintf("export var %s = %s;\n", al[0], al[1]))
		} else {
			ts.WriteString(fmt.Sprintf("import %s = %s;\n", al[0], al[1]))
			js.WriteString(fmt.Sprintf("var %s = %s;\n", al[0], al[1]))
		}
		use := fmt.Sprintf("$(%d, typeof %s, typeof %s === \"function\" ? %s() : %s);\n", g.probe(), al[0], al[0], al[0], al[0])
		_ = i
		ts.WriteString(use)
		js.WriteString(use)
	}
	// an alias used only as a type is erased
	ts.WriteString(fmt.Sprintf("import OnlyType = NS.Inner;\nlet t: typeof OnlyType.deep = $(%d, 9) as any;\n$(%d, t);\n", g.probe(), g.probe()))
	js.WriteString(fmt.Sprintf("let t = $(%d, 9);\n$(%d, t);\n", g.k-1, g.k))
	c.TS["/main.ts"] = ts.String()
	c.JS["/main.js"] = js.String()
	c.Desc = "namespace aliases"
	return c
}

// EnumMergeCase: an enum merged with a namespace of the same name (declaration merging). Inside the enum body a bare
// identifier that is not an enum member refers to the *enclosing* scope (or a global), never to an export of the merged
// namespace; inside the namespace body the enum members are not in scope either. References are the tsc emit, spelled out.
func (g *tsrun) EnumMergeCase() tsCase {
	g.k = 0
	c := tsCase{Kind: "enum-namespace-merge", TS: map[string]string{}, JS: map[string]string{}, Entry: "/main", Module: false}
	v := g.rng.Intn(4)
	n1, n2 := 2+g.rng.Intn(9), 20+g.rng.Intn(70)
	var ts, js string
	switch v {
	case 0: // enum first, outer const shadowed by a namespace export of the same name
		ts = fmt.Sprintf("const Max = $(1, %d);\nenum E { A = 1, B = Max, C = Max + 1 }\nnamespace E { export const Max = $(2, %d); export function helper() { return $(3, 7); } }\n$(4, E.A, E.B, E.C, E[%d], E.Max, E.helper());\n", n1, n2, n1)
		js = fmt.Sprintf("const Max = $(1, %d);\nvar E; (function (E) { E[E[\"A\"] = 1] = \"A\"; E[E[\"B\"] = Max] = \"B\"; E[E[\"C\"] = Max + 1] = \"C\"; })(E || (E = {}));\n(function (E) { E.Max = $(2, %d); function helper() { return $(3, 7); } E.helper = helper; })(E || (E = {}));\n$(4, E.A, E.B, E.C, E[%d], E.Max, E.helper());\n", n1, n2, n1)
	case 1: // the name is a global function outside, an exported function inside the namespace; a free name stays free
		ts = fmt.Sprintf("function lim() { return $(1, %d); }\nenum F { X = lim(), Y = X * 2, Z = typeof base === \"undefined\" ? 0 : 1 }\nnamespace F { export function lim() { return $(2, %d); } export let base = $(3, 100); }\n$(4, F.X, F.Y, F.Z, F.lim(), F.base);\n", n1, n2)
		js = fmt.Sprintf("function lim() { return $(1, %d); }\nvar F; (function (F) { F[F[\"X\"] = lim()] = \"X\"; F[F[\"Y\"] = F.X * 2] = \"Y\"; F[F[\"Z\"] = typeof base === \"undefined\" ? 0 : 1] = \"Z\"; })(F || (F = {}));\n(function (F) { function lim() { return $(2, %d); } F.lim = lim; F.base = $(3, 100); })(F || (F = {}));\n$(4, F.X, F.Y, F.Z, F.lim(), F.base);\n", n1, n2)
	case 2: // nested in a namespace
		ts = fmt.Sprintf("namespace Outer { const step = $(1, %d); export enum G { P = step, Q = P + step } export namespace G { export const step = $(2, %d); } $(3, G.P, G.Q, G.step); }\n$(4, Outer.G.P, Outer.G.Q, Outer.G.step);\n", n1, n2)
		js = fmt.Sprintf("var Outer; (function (Outer) { const step = $(1, %d); let G; (function (G) { G[G[\"P\"] = step] = \"P\"; G[G[\"Q\"] = G.P + step] = \"Q\"; })(G = Outer.G || (Outer.G = {})); (function (G) { G.step = $(2, %d); })(G = Outer.G || (Outer.G = {})); $(3, G.P, G.Q, G.step); })(Outer || (Outer = {}));\n$(4, Outer.G.P, Outer.G.Q, Outer.G.step);\n", n1, n2)
	default: // two enum blocks and a namespace: members of the sibling enum block are visible, namespace exports are not
		ts = fmt.Sprintf("var extra = $(1, %d);\nenum H { A = 1 }\nnamespace H { export var extra = $(2, %d); export const A2 = 5; }\nenum H { B = A + extra, C = extra }\n$(3, H.A, H.B, H.C, H.extra, H.A2);\n", n1, n2)
		js = fmt.Sprintf("var extra = $(1, %d);\nvar H; (function (H) { H[H[\"A\"] = 1] = \"A\"; })(H || (H = {}));\n(function (H) { H.extra = $(2, %d); H.A2 = 5; })(H || (H = {}));\n(function (H) { H[H[\"B\"] = H.A + extra] = \"B\"; H[H[\"C\"] = extra] = \"C\"; })(H || (H = {}));\n$(3, H.A, H.B, H.C, H.extra, H.A2);\n", n1, n2)
	}
	c.TS["/main.ts"] = ts
	c.JS["/main.js"] = js
	c.Desc = fmt.Sprint("enum merged with namespace, shape ", v)
	return c
}
