package main

import (
	"encoding/json"
	"fmt"
	"os"
	"os/exec"
	"path/filepath"
	"time"
)

// Native Node runs (real ESM/CJS loaders) through oracle/runner.mjs.

type nodeJob struct {
	ID      string   `json:"id"`
	File    string   `json:"file"`
	Mode    string   `json:"mode"` // import | require | script | import-seq
	Files   []string `json:"files,omitempty"`
	Global  string   `json:"global,omitempty"`
	WaitFor string   `json:"waitFor,omitempty"` // the run is over when an event with this prefix has been logged
}

type nodeResult struct {
	ID        string   `json:"id"`
	Trace     []string `json:"trace"`
	Term      string   `json:"term"`
	Exports   string   `json:"exports"`
	Unhandled []string `json:"unhandled"`
}

func runNodeJobs(dir string, jobs []nodeJob) (map[string]nodeResult, error) {
	jf := filepath.Join(dir, "jobs.json")
	b, _ := json.Marshal(jobs)
	if err := os.WriteFile(jf, b, 0o644); err != nil {
		return nil, err
	}
	cmd := exec.Command("timeout", "-s", "KILL", "120", "node", "--no-warnings", filepath.Join(verifRoot(), "oracle", "runner.mjs"), jf)
	cmd.Dir = dir
	cmd.Env = append(os.Environ(), "NODE_OPTIONS=")
	var out []byte
	var err error
	done := make(chan struct{})
	go func() { out, err = cmd.Output(); close(done) }()
	select {
	case <-done:
	case <-time.After(150 * time.Second):
		return nil, fmt.Errorf("node runner watchdog")
	}
	if err != nil {
		msg := ""
		if ee, ok := err.(*exec.ExitError); ok {
			msg = trunc(string(ee.Stderr), 400)
		}
		return nil, fmt.Errorf("node runner failed: %v %s", err, msg)
	}
	var res []nodeResult
	if err := json.Unmarshal(out, &res); err != nil {
		return nil, fmt.Errorf("node runner output: %v: %s", err, trunc(string(out), 200))
	}
	m := map[string]nodeResult{}
	for _, r := range res {
		m[r.ID] = r
	}
	return m, nil
}

func writeTree(dir string, files map[string]string) error {
	for p, s := range files {
		full := filepath.Join(dir, p)
		if err := os.MkdirAll(filepath.Dir(full), 0o755); err != nil {
			return err
		}
		if err := os.WriteFile(full, []byte(s), 0o644); err != nil {
			return err
		}
	}
	return nil
}

func sameTrace(a, b []string) bool {
	if len(a) != len(b) {
		return false
	}
	for i := range a {
		if a[i] != b[i] {
			return false
		}
	}
	return true
}

func firstTraceDiff(a, b []string) (int, string, string) {
	i := 0
	for i < len(a) && i < len(b) && a[i] == b[i] {
		i++
	}
	x, y := "∅", "∅"
	if i < len(a) {
		x = a[i]
	}
	if i < len(b) {
		y = b[i]
	}
	return i, x, y
}
