package main

import (
	"encoding/json"
	"fmt"
	"os"
	"os/exec"
	"path/filepath"
	"strings"
	"sync/atomic"

	"github.com/evanw/esbuild/pkg/api"
)

func init() { registry["C11"] = checkC11 }

type nodeResolution struct {
	ID     int    `json:"id"`
	File   string `json:"file"`
	Exists bool   `json:"exists"`
	Real   string `json:"real"`
	Code   string `json:"code"`
	Msg    string `json:"msg"`
	Other  string `json:"other"`
}

func nodeResolveAll(dir string, qs []pkgQuery) ([]nodeResolution, error) {
	type q struct {
		ID       int    `json:"id"`
		Importer string `json:"importer"`
		Spec     string `json:"spec"`
		Kind     string `json:"kind"`
	}
	var in []q
	for i, x := range qs {
		in = append(in, q{i, realImporter(dir, x.Importer), x.Spec, x.Kind})
	}
	b, _ := json.Marshal(in)
	qf := filepath.Join(dir, "queries.json")
	os.WriteFile(qf, b, 0o644)
	cmd := exec.Command("timeout", "-s", "KILL", "120", "node", "--no-warnings", filepath.Join(verifRoot(), "oracle", "noderesolve.mjs"), qf)
	out, err := cmd.Output()
	if err != nil {
		return nil, err
	}
	var res []nodeResolution
	if err := json.Unmarshal(out, &res); err != nil {
		return nil, err
	}
	return res, nil
}

// esbuildResolveAll resolves every query with the plugin API (platform node, Node's own conditions and main fields).
func esbuildResolveAll(dir string, qs []pkgQuery) []api.ResolveResult {
	out := make([]api.ResolveResult, len(qs))
	plugin := api.Plugin{Name: "resolve-all", Setup: func(b api.PluginBuild) {
		b.OnStart(func() (api.OnStartResult, error) {
			for i, q := range qs {
				kind := api.ResolveJSRequireCall
				if q.Kind == "import" {
					kind = api.ResolveJSImportStatement
				}
				imp := realImporter(dir, q.Importer)
				out[i] = b.Resolve(q.Spec, api.ResolveOptions{Importer: imp, ResolveDir: filepath.Dir(imp), Kind: kind})
			}
			return api.OnStartResult{}, nil
		})
	}}
	stdin := "export {}"
	api.Build(api.BuildOptions{Stdin: &api.StdinOptions{Contents: stdin, ResolveDir: dir}, Bundle: true, Write: false, Platform: api.PlatformNode, Conditions: []string{}, MainFields: []string{"main"},
		Plugins: []api.Plugin{plugin}, LogLevel: api.LogLevelSilent, AbsWorkingDir: dir})
	return out
}

var nodeMapRejections = map[string]bool{"ERR_PACKAGE_PATH_NOT_EXPORTED": true, "ERR_INVALID_PACKAGE_TARGET": true, "ERR_PACKAGE_IMPORT_NOT_DEFINED": true}

func checkC11(r *Run) {
	r.Rule("package trees generated from the package.json resolution grammar (exports/imports as string, array, nested condition objects in random key order, * patterns with overlapping prefixes and trailers, invalid targets, null; main with and without extension; type; scoped, nested and hoisted copies; a symlinked package with its own dependency) on a real directory; " +
		"~250–400 (importer, specifier, kind) queries per tree derived from the map keys plus relative/absolute/extension/index/query/percent-encoded forms; Node's createRequire().resolve and import.meta.resolve are the oracle; esbuild is asked through PluginBuild.Resolve with platform=node, conditions=[], mainFields=[main]; " +
		"non-trivial = distinct query on which Node either resolved to an existing file or rejected because of an exports/imports map")
	r.Assume("one-directional, as the property states: esbuild may resolve more than Node; legacy trailing-slash mappings and specifiers ending in / are not compared")
	scratch, _ := os.MkdirTemp("/tmp", "verif-c11-")
	defer os.RemoveAll(scratch)
	ntrees := r.pick(120, 2500)
	var queries, obligations, agreeFile, agreeReject int64
	parallel(ntrees, 16, func(i int) {
		rng := newRng(r.Seed, fmt.Sprint("c11", i))
		t := pkgGenMode(rng, i%4 == 3) // every fourth tree also contains the known-deviation corners
		dir := filepath.Join(scratch, fmt.Sprint("t", i))
		if err := writeTree(dir, t.Files); err != nil {
			return
		}
		defer os.RemoveAll(dir)
		for link, target := range t.Symlinks {
			os.MkdirAll(filepath.Dir(filepath.Join(dir, link)), 0o755)
			os.Symlink(target, filepath.Join(dir, link))
		}
		realDir, _ := filepath.EvalSymlinks(dir)
		nres, err := nodeResolveAll(dir, t.Queries)
		if err != nil || len(nres) != len(t.Queries) {
			r.Count("node_runner_errors", 1)
			return
		}
		eres := esbuildResolveAll(dir, t.Queries)
		for qi, q := range t.Queries {
			atomic.AddInt64(&queries, 1)
			r.Eval(1)
			n, e := nres[qi], eres[qi]
			if strings.HasSuffix(q.Spec, "/") {
				continue
			}
			pj := func(p string) string { return t.Files[p] }
			rep := map[string]interface{}{"query": q, "node": n, "esbuild_path": e.Path, "esbuild_errors": msgTexts(e.Errors), "app_package_json": pj("/app/package.json"), "pkg_package_json": pj("/app/node_modules/pkg/package.json"),
				"scoped_package_json": pj("/app/node_modules/@s/pkg/package.json"), "nested_package_json": pj("/app/src/node_modules/pkg/package.json"), "linked_package_json": pj("/workspace/linked/package.json"), "symlinks": t.Symlinks}
			// hazard tags: corners of the grammar where deviations are known and listed by family
			var tags []string
			allJSON := ""
			for f, c := range t.Files {
				if strings.HasSuffix(f, "package.json") {
					allJSON += c
				}
			}
			if strings.Contains(allJSON, "%2e") {
				tags = append(tags, "percent-encoded-target-in-tree")
			}
			if strings.Contains(allJSON, "NODE_MODULES") {
				tags = append(tags, "uppercase-node_modules-target-in-tree")
			}
			if strings.Contains(allJSON, ":true") || strings.Contains(allJSON, ":0") || strings.Contains(allJSON, ":1") || strings.Contains(allJSON, ":2") || strings.Contains(allJSON, ",true") || strings.Contains(allJSON, "[true") || strings.Contains(allJSON, "[0") || strings.Contains(allJSON, "[1") || strings.Contains(allJSON, "[2") || strings.Contains(allJSON, ",0") || strings.Contains(allJSON, ",1") || strings.Contains(allJSON, ",2") {
				tags = append(tags, "non-string-target-in-tree")
			}
			if strings.ContainsAny(strings.TrimPrefix(q.Spec, "#"), "?#") {
				tags = append(tags, "query-or-hash-suffix")
			}
			if strings.Contains(q.Spec, "%") {
				// an escape that decodes to an ordinary character (%20) inside a subpath that goes through a package's exports /
				// imports map is decoded by Node and by esbuild alike; every other use of "%" belongs to the recorded class
				low := strings.ToLower(q.Spec)
				harmless := !strings.Contains(low, "%2e") && !strings.Contains(low, "%2f") && !strings.Contains(low, "%5c")
				mapped := false
				if strings.HasPrefix(q.Spec, "#") {
					mapped = true
				} else if !strings.HasPrefix(q.Spec, ".") && !strings.HasPrefix(q.Spec, "/") {
					parts := strings.SplitN(q.Spec, "/", 3)
					name := parts[0]
					if strings.HasPrefix(name, "@") && len(parts) > 1 {
						name += "/" + parts[1]
					}
					_ = name
					// the package that Node's answer lies in: nearest package.json above the resolved file
					if n.Real != "" {
						d := filepath.Dir(strings.TrimPrefix(n.Real, realDir))
						for d != "/" && d != "." && d != "" {
							if body, ok := t.Files[d+"/package.json"]; ok {
								mapped = strings.Contains(body, "\"exports\"") && !strings.Contains(body, "\"exports\":null")
								break
							}
							d = filepath.Dir(d)
						}
					}
				}
				if harmless && mapped {
					tags = append(tags, "harmless-percent-in-mapped-subpath")
				} else {
					tags = append(tags, "percent-in-specifier")
				}
			}
			for _, k := range append(append([]string{}, pkgSubpathKeys...), pkgImportKeys...) {
				if i := strings.Index(k, "*"); i >= 0 {
					empty := strings.TrimPrefix(k[:i]+k[i+1:], "./")
					if strings.HasSuffix(q.Spec, "/"+empty) || q.Spec == empty {
						tags = append(tags, "star-would-match-empty")
						break
					}
				}
			}
			tagSig := strings.Join(tags, "+")
			switch {
			case n.Code == "" && n.Exists && n.Real != "":
				atomic.AddInt64(&obligations, 1)
				r.Nontrivial(fmt.Sprint(i, q))
				got := ""
				if len(e.Errors) == 0 && e.Path != "" {
					got, _ = filepath.EvalSymlinks(e.Path)
				}
				if got == n.Real && len(t.Symlinks) > 0 && !strings.HasPrefix(q.Importer, "/app/node_modules/linked") && !strings.HasPrefix(q.Importer, "/app/node_modules/@lnk") {
					// symlinks are not preserved (the default), so the path esbuild reports must itself be the real path: a
					// half-resolved path names the same file but is a different module identity and a different starting
					// point for the imports of that file
					if rp, err := filepath.EvalSymlinks(filepath.Dir(e.Path)); err == nil && filepath.Join(rp, filepath.Base(e.Path)) != e.Path && filepath.Join(rp, filepath.Base(e.Path)) == n.Real {
						grel, _ := filepath.Rel(realDir, e.Path)
						rel, _ := filepath.Rel(realDir, n.Real)
						r.Violation(c11Sig("resolve:path-not-real", tagSig, q), fmt.Sprintf("%s(%q) from %s: esbuild reports the path %s, which reaches the file Node resolves to (%s) only through a symlink", q.Kind, q.Spec, q.Importer, grel, rel), rep)
					}
				}
				if got != n.Real {
					rel, _ := filepath.Rel(realDir, n.Real)
					grel := "(failed: " + firstErr(e.Errors) + ")"
					if got != "" {
						grel, _ = filepath.Rel(realDir, got)
					}
					r.Violation(c11Sig("resolve:differs", tagSig, q), fmt.Sprintf("%s(%q) from %s: Node resolves to %s, esbuild to %s", q.Kind, q.Spec, q.Importer, rel, grel), rep)
				} else {
					atomic.AddInt64(&agreeFile, 1)
				}
			case nodeMapRejections[n.Code]:
				atomic.AddInt64(&obligations, 1)
				r.Nontrivial(fmt.Sprint(i, q))
				if len(e.Errors) == 0 && e.Path != "" && !e.External {
					rel, _ := filepath.Rel(dir, e.Path)
					r.Violation(c11Sig("resolve:accepts-what-node-rejects:"+n.Code, tagSig, q), fmt.Sprintf("%s(%q) from %s: Node rejects with %s (%s), esbuild resolves to %s", q.Kind, q.Spec, q.Importer, n.Code, trunc(n.Msg, 120), rel), rep)
				} else {
					atomic.AddInt64(&agreeReject, 1)
				}
			}
		}
		// a real bundle through the symlinked package: every recorded import must be the file Node picks from the importer's real path
		if _, ok := t.Files["/app/src/bundle-entry.js"]; ok {
			res := api.Build(api.BuildOptions{EntryPoints: []string{filepath.Join(dir, "app/src/bundle-entry.js")}, Bundle: true, Write: false, Metafile: true, Platform: api.PlatformNode, Conditions: []string{}, MainFields: []string{"main"},
				LogLevel: api.LogLevelSilent, AbsWorkingDir: dir, Outfile: filepath.Join(dir, "out.js")})
			var mf metafile
			if len(res.Errors) == 0 && json.Unmarshal([]byte(res.Metafile), &mf) == nil {
				var qs []pkgQuery
				var got []string
				for in, rec := range mf.Inputs {
					for _, im := range rec.Imports {
						if im.External || im.Original == "" {
							continue
						}
						kind := "require"
						if im.Kind == "import-statement" || im.Kind == "dynamic-import" {
							kind = "import"
						}
						qs = append(qs, pkgQuery{"/" + in, im.Original, kind})
						got = append(got, im.Path)
					}
				}
				if nr, err := nodeResolveAll(dir, qs); err == nil && len(nr) == len(qs) {
					for k, q := range qs {
						atomic.AddInt64(&queries, 1)
						r.Eval(1)
						if nr[k].Code == "" && nr[k].Exists {
							atomic.AddInt64(&obligations, 1)
							gp, _ := filepath.EvalSymlinks(filepath.Join(dir, got[k]))
							if gp != nr[k].Real {
								a, _ := filepath.Rel(realDir, nr[k].Real)
								r.Violation("resolve:bundle-differs:"+q.Spec+"@"+filepath.Base(filepath.Dir(q.Importer)), fmt.Sprintf("bundling through a symlinked package: %s imports %q; Node (from the importer's real path) resolves it to %s, the bundle's metafile records %s", q.Importer, q.Spec, a, got[k]),
									map[string]interface{}{"symlinks": t.Symlinks, "metafile": trunc(res.Metafile, 3000)})
							} else {
								atomic.AddInt64(&agreeFile, 1)
							}
						}
					}
				}
			} else if len(res.Errors) > 0 {
				r.Count("symlink_bundle_errors", 1)
			}
		}
		if i == 0 {
			r.Sample(map[string]interface{}{"pkg_package_json": t.Files["/app/node_modules/pkg/package.json"], "queries": len(t.Queries), "first_queries": t.Queries[:4]})
		}
	})
	r.Count("queries", int(queries))
	r.Count("queries_with_an_obligation", int(obligations))
	r.Count("agree_same_file", int(agreeFile))
	r.Count("agree_both_reject", int(agreeReject))
	if obligations < int64(ntrees*20) {
		r.Inconclusive(fmt.Sprintf("only %d queries carried an obligation", obligations))
	}
}

// c11Class: coarse shape of a specifier for signatures
func c11Class(spec string) string {
	switch {
	case strings.HasPrefix(spec, "#"):
		return "imports-map"
	case strings.HasPrefix(spec, "."), strings.HasPrefix(spec, "/"):
		return "relative"
	case strings.Contains(spec, "%"):
		return "package-percent"
	case strings.ContainsAny(spec, "?#"):
		return "package-query"
	case strings.Count(strings.TrimPrefix(spec, "@s/"), "/") == 0:
		return "package-root"
	}
	return "package-subpath"
}

func c11Sig(kind, tags string, q pkgQuery) string {
	if tags != "" {
		return kind + ":[" + tags + "]"
	}
	return kind + ":" + q.Kind + ":" + q.Spec + "@" + filepath.Base(filepath.Dir(q.Importer))
}

// realImporter: the importer as a bundler or Node would know it after loading it — by its real path
func realImporter(dir, importer string) string {
	p := filepath.Join(dir, importer)
	if rp, err := filepath.EvalSymlinks(p); err == nil {
		return rp
	}
	return p
}
