package main

import (
	"fmt"
	"strings"
)

// progen: seeded random JavaScript programs printed by the generator's own printer.
// Guarantees by construction: valid syntax, termination (bounded loops, no recursion), determinism,
// no TDZ access, no reads of undeclared globals, no eval/with, no use of function source or .name.
// Every program reports what it computes through the probe host function $.

type progenOpts struct {
	Layout    bool // randomise white space, comments, redundant parentheses
	Module    bool // may use import/export (stub modules ./m0 ./m1)
	NoAsync   bool
	NoClasses bool
	Strict    bool // emit only code valid (and meaning the same) in strict mode
	FnNames   bool // observe function .name (keep-names workloads)
	NoBigInt  bool // no bigint literals (their ** cannot be lowered; documented as not transformable)
}

const (
	pComma = iota
	pAssign
	pCond
	pNullish
	pOr
	pAnd
	pBitOr
	pBitXor
	pBitAnd
	pEq
	pRel
	pShift
	pAdd
	pMul
	pExp
	pPrefix
	pPostfix
	pNew
	pCall
	pMember
)

type pexpr struct {
	s    string
	prec int
	kind int  // 0 plain, 1 starts with { / function / class (needs parens at statement start), 2 nullish-mixing hazard (|| or &&), 3 is ?? , 4 unary (hazard for ** left)
	opt  bool // contains a top-level optional chain
}

type pscope struct {
	vars   []string // assignable bindings (var/let)
	consts []string // readable only
	fns    []pfn
	objs   []string // names known to hold objects
	arrs   []string // names known to hold arrays
	parent *pscope
	fn     *pfnctx
}

type pfn struct {
	name  string
	arity int
	kind  int // 0 sync, 1 generator, 2 async
}

type pfnctx struct {
	async, gen, hasThis, inClassCtor, derived, hasSuperProp bool
	labels                                                  []string
	loopDepth, switchDepth                                  int
}

type progen struct {
	rng    *Rng
	o      progenOpts
	n      int // name counter
	probe  int
	depth  int
	budget int
}

func newProgen(rng *Rng, o progenOpts) *progen { return &progen{rng: rng, o: o} }

func (g *progen) name(prefix string) string {
	g.n++
	return fmt.Sprintf("%s%d", prefix, g.n)
}

func (g *progen) pid() string { g.probe++; return fmt.Sprint(g.probe) }

func (s *pscope) child() *pscope { return &pscope{parent: s, fn: s.fn} }

func (s *pscope) allVars() []string {
	var out []string
	for c := s; c != nil; c = c.parent {
		out = append(out, c.vars...)
	}
	return out
}
func (s *pscope) allReadable() []string {
	var out []string
	for c := s; c != nil; c = c.parent {
		out = append(out, c.vars...)
		out = append(out, c.consts...)
	}
	return out
}
func (s *pscope) allFns() []pfn {
	var out []pfn
	for c := s; c != nil; c = c.parent {
		out = append(out, c.fns...)
	}
	return out
}
func (s *pscope) allObjs() []string {
	var out []string
	for c := s; c != nil; c = c.parent {
		out = append(out, c.objs...)
	}
	return out
}
func (s *pscope) allArrs() []string {
	var out []string
	for c := s; c != nil; c = c.parent {
		out = append(out, c.arrs...)
	}
	return out
}

func (g *progen) paren(e pexpr, min int) string {
	if e.prec < min {
		return "(" + e.s + ")"
	}
	if g.o.Layout && g.rng.Intn(12) == 0 {
		return "(" + e.s + ")"
	}
	return e.s
}

var pgStrings = []string{`""`, `"a"`, `'b'`, `"0"`, `" 1 "`, `"abc"`, `'x\ny'`, `"é"`, `"😀"`, "`t`", `"</script>"`, `"10"`, `"-1"`, `"1e3"`, `"NaN"`}
var pgNumbers = []string{"0", "1", "2", "3", "-1", "10", "255", "0.5", "1.5", "-0", "1e3", "0x10", "2147483647", "2147483648", "4294967295", "1e21", "0.1", "NaN", "Infinity", "-Infinity", "9007199254740991", "1e-7", "123456789"}

func (g *progen) literal() pexpr {
	switch g.rng.Intn(12) {
	case 0, 1, 2, 3:
		n := pgNumbers[g.rng.Intn(len(pgNumbers))]
		if strings.HasPrefix(n, "-") {
			return pexpr{s: n, prec: pPrefix, kind: 4}
		}
		return pexpr{s: n, prec: pMember}
	case 4, 5, 6:
		return pexpr{s: pgStrings[g.rng.Intn(len(pgStrings))], prec: pMember}
	case 7:
		return pexpr{s: []string{"true", "false"}[g.rng.Intn(2)], prec: pMember}
	case 8:
		return pexpr{s: "null", prec: pMember}
	case 9:
		return pexpr{s: "void 0", prec: pPrefix, kind: 4}
	case 10:
		if g.o.NoBigInt || g.rng.Intn(4) != 0 {
			return pexpr{s: pgNumbers[g.rng.Intn(4)], prec: pMember}
		}
		return pexpr{s: []string{"1n", "0n", "255n", "-3n"}[g.rng.Intn(4)], prec: pPrefix, kind: 4}
	default:
		return pexpr{s: []string{"/a+/g", "/[x-z]/i", "/\\d/"}[g.rng.Intn(3)], prec: pMember}
	}
}

// probe wraps an expression so its value is reported: $(id, e) returns e.
func (g *progen) probeOf(e pexpr) pexpr {
	return pexpr{s: "$(" + g.pid() + ", " + g.paren(e, pAssign) + ")", prec: pCall}
}

var binOps = []struct {
	op   string
	prec int
}{
	{"+", pAdd}, {"-", pAdd}, {"*", pMul}, {"/", pMul}, {"%", pMul}, {"**", pExp}, {"<<", pShift}, {">>", pShift}, {">>>", pShift},
	{"<", pRel}, {">", pRel}, {"<=", pRel}, {">=", pRel}, {"==", pEq}, {"!=", pEq}, {"===", pEq}, {"!==", pEq},
	{"&", pBitAnd}, {"|", pBitOr}, {"^", pBitXor}, {"&&", pAnd}, {"||", pOr}, {"??", pNullish}, {",", pComma}, {"in", pRel}, {"instanceof", pRel},
}

func (g *progen) expr(sc *pscope, depth int) pexpr {
	if depth <= 0 || g.rng.Intn(5) == 0 {
		return g.leaf(sc)
	}
	switch g.rng.Intn(22) {
	case 0, 1, 2, 3, 4: // binary
		b := binOps[g.rng.Intn(len(binOps))]
		l, r := g.expr(sc, depth-1), g.expr(sc, depth-1)
		switch b.op {
		case "in":
			objs := sc.allObjs()
			if len(objs) == 0 {
				return g.leaf(sc)
			}
			r = pexpr{s: objs[g.rng.Intn(len(objs))], prec: pMember}
			l = pexpr{s: []string{`"a"`, `"b"`, `"zz"`, "0"}[g.rng.Intn(4)], prec: pMember}
		case "instanceof":
			r = pexpr{s: []string{"Object", "Array", "Function", "Error"}[g.rng.Intn(4)], prec: pMember}
		}
		var ls, rs string
		switch b.op {
		case "**":
			// left operand may not be a unary expression; right-associative
			if l.kind == 4 || l.prec <= pExp {
				ls = "(" + l.s + ")"
			} else {
				ls = g.paren(l, pPostfix)
			}
			rs = g.paren(r, pExp)
		case "??":
			ls, rs = g.paren(l, pNullish), g.paren(r, pNullish+1)
			if l.kind == 2 {
				ls = "(" + l.s + ")"
			}
			if r.kind == 2 {
				rs = "(" + r.s + ")"
			}
		case "&&", "||":
			ls, rs = g.paren(l, b.prec), g.paren(r, b.prec+1)
			if l.kind == 3 {
				ls = "(" + l.s + ")"
			}
			if r.kind == 3 {
				rs = "(" + r.s + ")"
			}
		case ",":
			ls, rs = g.paren(l, pComma), g.paren(r, pAssign)
		default:
			ls, rs = g.paren(l, b.prec), g.paren(r, b.prec+1)
		}
		// avoid `a + +b` / `a - -b` / `a+ ++b` collisions by construction of spacing
		out := pexpr{s: ls + " " + b.op + " " + rs, prec: b.prec, kind: l.kindStart()}
		if b.op == "&&" || b.op == "||" {
			out.kind = 2
			if l.kindStart() == 1 {
				out.s = "(" + ls + ") " + b.op + " " + rs
			}
		} else if b.op == "??" {
			out.kind = 3
			if l.kindStart() == 1 {
				out.s = "(" + ls + ") " + b.op + " " + rs
			}
		} else if l.kindStart() == 1 {
			out.s = "(" + ls + ") " + b.op + " " + rs
			out.kind = 0
		}
		return out
	case 5: // unary
		op := []string{"-", "+", "!", "~", "typeof ", "void "}[g.rng.Intn(6)]
		e := g.expr(sc, depth-1)
		s := g.paren(e, pPrefix)
		if (op == "-" && strings.HasPrefix(s, "-")) || (op == "+" && strings.HasPrefix(s, "+")) {
			s = " " + s
		}
		return pexpr{s: op + s, prec: pPrefix, kind: 4}
	case 6: // conditional
		c, a, b := g.expr(sc, depth-1), g.expr(sc, depth-1), g.expr(sc, depth-1)
		cs := g.paren(c, pNullish)
		if c.kindStart() == 1 {
			cs = "(" + c.s + ")"
		}
		return pexpr{s: cs + " ? " + g.paren(a, pAssign) + " : " + g.paren(b, pAssign), prec: pCond}
	case 7: // assignment
		vars := sc.allVars()
		if len(vars) == 0 {
			return g.leaf(sc)
		}
		v := vars[g.rng.Intn(len(vars))]
		op := []string{"=", "=", "=", "+=", "-=", "*=", "|=", "&=", "^=", "<<=", ">>=", ">>>=", "%=", "/=", "**=", "&&=", "||=", "??="}[g.rng.Intn(18)]
		e := g.expr(sc, depth-1)
		return pexpr{s: v + " " + op + " " + g.paren(e, pAssign), prec: pAssign}
	case 8: // update
		vars := sc.allVars()
		if len(vars) == 0 {
			return g.leaf(sc)
		}
		v := vars[g.rng.Intn(len(vars))]
		switch g.rng.Intn(4) {
		case 0:
			return pexpr{s: v + "++", prec: pPostfix}
		case 1:
			return pexpr{s: v + "--", prec: pPostfix}
		case 2:
			return pexpr{s: "++" + v, prec: pPrefix, kind: 4}
		}
		return pexpr{s: "--" + v, prec: pPrefix, kind: 4}
	case 9: // call of a known function
		fns := sc.allFns()
		if len(fns) == 0 {
			return g.probeOf(g.expr(sc, depth-1))
		}
		f := fns[g.rng.Intn(len(fns))]
		var args []string
		na := f.arity
		if g.rng.Intn(4) == 0 {
			na = g.rng.Intn(4)
		}
		for i := 0; i < na; i++ {
			a := g.expr(sc, depth-1)
			if g.rng.Intn(10) == 0 {
				arrs := sc.allArrs()
				if len(arrs) > 0 {
					args = append(args, "..."+arrs[g.rng.Intn(len(arrs))])
					continue
				}
			}
			args = append(args, g.paren(a, pAssign))
		}
		call := f.name + "(" + strings.Join(args, ", ") + ")"
		switch f.kind {
		case 1:
			return pexpr{s: "[..." + call + "]", prec: pMember}
		case 2:
			if sc.fn != nil && sc.fn.async {
				return pexpr{s: "await " + call, prec: pPrefix, kind: 4}
			}
			return pexpr{s: call + ".then(v => $(" + g.pid() + ", v), e => $(" + g.pid() + ", e))", prec: pCall}
		}
		return pexpr{s: call, prec: pCall}
	case 10: // probe
		return g.probeOf(g.expr(sc, depth-1))
	case 11: // array literal
		n := g.rng.Intn(4)
		var items []string
		for i := 0; i < n; i++ {
			if g.rng.Intn(8) == 0 {
				items = append(items, "")
				continue
			}
			if g.rng.Intn(8) == 0 {
				arrs := sc.allArrs()
				if len(arrs) > 0 {
					items = append(items, "..."+arrs[g.rng.Intn(len(arrs))])
					continue
				}
			}
			items = append(items, g.paren(g.expr(sc, depth-1), pAssign))
		}
		s := strings.Join(items, ", ")
		if n > 0 && items[n-1] == "" {
			s += ","
		}
		return pexpr{s: "[" + s + "]", prec: pMember}
	case 12: // object literal
		n := g.rng.Intn(4)
		var items []string
		hasSpread, hasGetter := false, false
		for i := 0; i < n; i++ {
			k := []string{"a", "b", "c", "\"d e\"", "1", "[" + g.paren(g.expr(sc, 0), pAssign) + "]", "__proto__x", "if", "get", "async"}[g.rng.Intn(10)]
			kind := g.rng.Intn(7)
			// V8 (Node 20 and 22) orders the keys of a literal that mixes a spread with a later accessor wrongly
			// (accessor after the following data properties), so the reference engine cannot judge that shape
			if kind == 0 && hasGetter {
				kind = 4
			}
			if kind == 3 && hasSpread {
				kind = 4
			}
			switch kind {
			case 0:
				objs := sc.allObjs()
				if len(objs) > 0 {
					items = append(items, "..."+objs[g.rng.Intn(len(objs))])
					hasSpread = true
					continue
				}
				fallthrough
			case 1:
				rd := sc.allReadable()
				if len(rd) > 0 {
					items = append(items, rd[g.rng.Intn(len(rd))])
					continue
				}
				fallthrough
			case 2:
				items = append(items, k+"() { return "+g.paren(g.expr(g.fnScope(sc, false, false), depth-1), pAssign)+"; }")
			case 3:
				hasGetter = true
				items = append(items, "get "+k+"() { return "+g.paren(g.probeOf(g.expr(g.fnScope(sc, false, false), depth-1)), pAssign)+"; }")
			default:
				items = append(items, k+": "+g.paren(g.expr(sc, depth-1), pAssign))
			}
		}
		return pexpr{s: "{" + strings.Join(items, ", ") + "}", prec: pMember, kind: 1}
	case 13: // member access on known object / array
		objs := sc.allObjs()
		arrs := sc.allArrs()
		if len(objs)+len(arrs) == 0 {
			return g.leaf(sc)
		}
		if len(arrs) > 0 && (len(objs) == 0 || g.rng.Bool()) {
			a := arrs[g.rng.Intn(len(arrs))]
			switch g.rng.Intn(4) {
			case 0:
				return pexpr{s: a + ".length", prec: pMember}
			case 1:
				return pexpr{s: a + "[" + g.expr(sc, depth-1).s + "]", prec: pMember}
			case 2:
				return pexpr{s: a + "?.[" + fmt.Sprint(g.rng.Intn(3)) + "]", prec: pMember, opt: true}
			}
			return pexpr{s: a + ".map(v => " + g.arrowBody(g.expr(g.withConst(g.fnScope(sc, false, false), "v"), depth-1)) + ")", prec: pCall}
		}
		o := objs[g.rng.Intn(len(objs))]
		k := []string{"a", "b", "c", "zz"}[g.rng.Intn(4)]
		switch g.rng.Intn(5) {
		case 0:
			return pexpr{s: o + "." + k, prec: pMember}
		case 1:
			return pexpr{s: o + "[\"" + k + "\"]", prec: pMember}
		case 2:
			return pexpr{s: o + "?." + k, prec: pMember, opt: true}
		case 3:
			return pexpr{s: o + "." + k + "?.x", prec: pMember, opt: true}
		}
		return pexpr{s: o + "." + k + " = " + g.paren(g.expr(sc, depth-1), pAssign), prec: pAssign}
	case 14: // function expression / arrow, immediately used
		inner := g.fnScope(sc, false, false)
		p := g.name("p")
		inner.consts = append(inner.consts, p)
		body := g.expr(inner, depth-1)
		arg := g.paren(g.expr(sc, depth-1), pAssign)
		if g.rng.Bool() {
			return pexpr{s: "(" + p + " => " + g.arrowBody(body) + ")(" + arg + ")", prec: pCall}
		}
		return pexpr{s: "(function(" + p + ") { return " + g.paren(body, pComma) + "; })(" + arg + ")", prec: pCall}
	case 15: // template literal
		n := 1 + g.rng.Intn(2)
		s := "`"
		for i := 0; i < n; i++ {
			s += []string{"a", "", " ", "\\n", "$", "{", "\\`", "é"}[g.rng.Intn(8)] + "${" + g.expr(sc, depth-1).s + "}"
		}
		return pexpr{s: s + "z`", prec: pMember}
	case 16: // typeof of a possibly undeclared name is safe
		return pexpr{s: "typeof " + []string{"undeclared1", "Object", "globalThis"}[g.rng.Intn(3)], prec: pPrefix, kind: 4}
	case 17: // string/number method calls
		e := g.expr(sc, depth-1)
		m := []string{".toString()", ".valueOf()", " + \"\"", " | 0", " >>> 0"}[g.rng.Intn(5)]
		if strings.HasPrefix(m, ".") {
			return pexpr{s: "(" + e.s + ")" + "?" + m, prec: pCall, opt: true}
		}
		prec := pAdd
		if strings.Contains(m, "|") {
			prec = pBitOr
		} else if strings.Contains(m, ">>>") {
			prec = pShift
		}
		es := g.paren(e, prec)
		if e.kindStart() == 1 {
			es = "(" + e.s + ")"
		}
		return pexpr{s: es + m, prec: prec}
	case 18: // new of builtin
		return pexpr{s: []string{"new Error(\"@e\")", "new Array(2)", "new Object", "new Map().size", "new (class { x = 1 })().x"}[g.rng.Intn(5)], prec: pMember}
	case 19: // sequence in parens
		a, b := g.expr(sc, depth-1), g.expr(sc, depth-1)
		return pexpr{s: "(" + g.paren(a, pAssign) + ", " + g.paren(b, pAssign) + ")", prec: pMember}
	case 20: // this / arguments where available
		if sc.fn != nil && sc.fn.hasThis {
			return pexpr{s: "this.t", prec: pMember}
		}
		return g.leaf(sc)
	default: // builtin pure calls
		e := g.expr(sc, depth-1)
		f := []string{"Math.abs", "String", "Number", "Boolean", "Array.isArray", "JSON.stringify", "Object.keys", "Math.max", "parseInt", "isNaN"}[g.rng.Intn(10)]
		if f == "Object.keys" {
			objs := sc.allObjs()
			if len(objs) == 0 {
				return g.leaf(sc)
			}
			return pexpr{s: f + "(" + objs[g.rng.Intn(len(objs))] + ")", prec: pCall}
		}
		if f == "Math.abs" || f == "Math.max" || f == "isNaN" {
			return pexpr{s: f + "(Number(" + g.paren(e, pAssign) + ") || 0)", prec: pCall} // avoid BigInt TypeError noise
		}
		if f == "JSON.stringify" {
			return pexpr{s: "typeof " + g.paren(e, pPrefix), prec: pPrefix, kind: 4}
		}
		return pexpr{s: f + "(" + g.paren(e, pAssign) + ")", prec: pCall}
	}
}

func (g *progen) arrowBody(e pexpr) string {
	s := g.paren(e, pAssign)
	if strings.HasPrefix(s, "{") {
		s = "(" + s + ")"
	}
	return s
}

func (e pexpr) kindStart() int {
	if e.kind == 1 {
		return 1
	}
	return 0
}

func (g *progen) leaf(sc *pscope) pexpr {
	rd := sc.allReadable()
	if len(rd) > 0 && g.rng.Intn(3) != 0 {
		return pexpr{s: rd[g.rng.Intn(len(rd))], prec: pMember}
	}
	return g.literal()
}

func (g *progen) fnScope(sc *pscope, async, gen bool) *pscope {
	c := sc.child()
	ctx := &pfnctx{async: async, gen: gen}
	if sc.fn != nil {
		// arrows inherit this; regular functions get their own (we only use `this` where bound)
		ctx.hasThis = false
	}
	c.fn = ctx
	return c
}

func (g *progen) withConst(sc *pscope, name string) *pscope {
	sc.consts = append(sc.consts, name)
	return sc
}

// stmtExpr prints an expression as a statement (parenthesising the hazardous starts).
func (g *progen) stmtExpr(e pexpr) string {
	s := e.s
	if e.kind == 1 || strings.HasPrefix(s, "{") || strings.HasPrefix(s, "function") || strings.HasPrefix(s, "class") || strings.HasPrefix(s, "let[") || strings.HasPrefix(s, "let [") || strings.HasPrefix(s, "async function") {
		s = "(" + s + ")"
	}
	return s + ";"
}

func (g *progen) block(sc *pscope, n, depth int, ind string) string {
	var b strings.Builder
	inner := sc.child()
	for i := 0; i < n; i++ {
		b.WriteString(g.stmt(inner, depth, ind))
	}
	return b.String()
}

func (g *progen) stmt(sc *pscope, depth int, ind string) string {
	ctx := sc.fn
	choice := g.rng.Intn(30)
	if depth <= 0 && choice >= 10 {
		choice = g.rng.Intn(10)
	}
	nl := "\n"
	switch choice {
	case 0, 1, 2: // variable declaration
		kw := []string{"var", "let", "const"}[g.rng.Intn(3)]
		name := g.name("v")
		e := g.expr(sc, 2)
		s := ind + kw + " " + name + " = " + g.paren(e, pAssign) + ";" + nl
		if kw == "const" {
			sc.consts = append(sc.consts, name)
		} else {
			sc.vars = append(sc.vars, name)
		}
		return s
	case 3: // object / array declaration
		name := g.name("o")
		if g.rng.Bool() {
			s := ind + "var " + name + " = {a: " + g.paren(g.expr(sc, 1), pAssign) + ", b: " + g.paren(g.expr(sc, 1), pAssign) + ", c: {x: " + g.literal().s + "}};" + nl
			sc.objs = append(sc.objs, name)
			sc.consts = append(sc.consts, name)
			return s
		}
		s := ind + "const " + name + " = [" + g.paren(g.expr(sc, 1), pAssign) + ", " + g.paren(g.expr(sc, 1), pAssign) + ", " + g.literal().s + "];" + nl
		sc.arrs = append(sc.arrs, name)
		sc.consts = append(sc.consts, name)
		return s
	case 4, 5, 6: // expression statement with probe
		return ind + g.stmtExpr(g.probeOf(g.expr(sc, 3))) + nl
	case 7: // bare expression statement
		return ind + g.stmtExpr(g.expr(sc, 3)) + nl
	case 8: // destructuring declaration
		objs, arrs := sc.allObjs(), sc.allArrs()
		if len(objs) > 0 && g.rng.Bool() {
			a, b := g.name("d"), g.name("d")
			s := ind + "var {a: " + a + " = " + g.literal().s + ", zz: " + b + " = " + g.paren(g.probeOf(g.literal()), pAssign) + ", ...r" + a + "} = " + objs[g.rng.Intn(len(objs))] + ";" + nl
			sc.vars = append(sc.vars, a, b)
			sc.objs = append(sc.objs, "r"+a)
			sc.consts = append(sc.consts, "r"+a)
			return s
		}
		if len(arrs) > 0 {
			a, b := g.name("d"), g.name("d")
			s := ind + "let [" + a + ", , " + b + " = " + g.literal().s + ", ...r" + a + "] = " + arrs[g.rng.Intn(len(arrs))] + ";" + nl
			sc.vars = append(sc.vars, a, b)
			sc.arrs = append(sc.arrs, "r"+a)
			sc.consts = append(sc.consts, "r"+a)
			return s
		}
		return ind + g.stmtExpr(g.probeOf(g.expr(sc, 2))) + nl
	case 9: // return / yield / break / continue where legal
		if ctx != nil && ctx.gen && g.rng.Bool() {
			return ind + "yield " + g.paren(g.expr(sc, 2), pAssign) + ";" + nl
		}
		if ctx != nil && ctx.loopDepth > 0 && g.rng.Intn(3) == 0 {
			if len(ctx.labels) > 0 && g.rng.Bool() {
				return ind + []string{"break ", "continue "}[g.rng.Intn(2)] + ctx.labels[g.rng.Intn(len(ctx.labels))] + ";" + nl
			}
			return ind + "if (" + g.expr(sc, 1).s + ") " + []string{"break", "continue"}[g.rng.Intn(2)] + ";" + nl
		}
		if ctx != nil && g.rng.Intn(3) == 0 {
			return ind + "if (" + g.expr(sc, 1).s + ") return " + g.paren(g.expr(sc, 2), pComma) + ";" + nl
		}
		return ind + g.stmtExpr(g.probeOf(g.expr(sc, 2))) + nl
	case 10, 11: // if / else
		s := ind + "if (" + g.expr(sc, 2).s + ") {" + nl + g.block(sc, 1+g.rng.Intn(2), depth-1, ind+"  ") + ind + "}"
		if g.rng.Bool() {
			if g.rng.Intn(3) == 0 {
				s += " else if (" + g.expr(sc, 1).s + ") {" + nl + g.block(sc, 1, depth-1, ind+"  ") + ind + "}"
			}
			s += " else {" + nl + g.block(sc, 1+g.rng.Intn(2), depth-1, ind+"  ") + ind + "}"
		}
		return s + nl
	case 12: // braceless if
		return ind + "if (" + g.expr(sc, 2).s + ") " + g.stmtExpr(g.probeOf(g.expr(sc, 1))) + " else " + g.stmtExpr(g.probeOf(g.expr(sc, 1))) + nl
	case 13, 14: // counted for loop
		i := g.name("i")
		inner := sc.child()
		inner.consts = append(inner.consts, i)
		label := ""
		saved := pfnctx{}
		if ctx != nil {
			saved = *ctx
			ctx.loopDepth++
			if g.rng.Intn(3) == 0 {
				l := g.name("L")
				label = l + ": "
				ctx.labels = append(append([]string{}, ctx.labels...), l)
			}
		}
		kw := []string{"var", "let"}[g.rng.Intn(2)]
		body := g.block(inner, 1+g.rng.Intn(2), depth-1, ind+"  ")
		if ctx != nil {
			*ctx = saved
		}
		return ind + label + "for (" + kw + " " + i + " = 0; " + i + " < " + fmt.Sprint(1+g.rng.Intn(3)) + "; " + i + "++) {" + nl + body + ind + "}" + nl
	case 15: // for-of / for-in
		arrs, objs := sc.allArrs(), sc.allObjs()
		x := g.name("x")
		inner := sc.child()
		inner.consts = append(inner.consts, x)
		saved := pfnctx{}
		if ctx != nil {
			saved = *ctx
			ctx.loopDepth++
		}
		var head string
		if len(arrs) > 0 && g.rng.Bool() {
			head = "for (const " + x + " of " + arrs[g.rng.Intn(len(arrs))] + ")"
		} else if len(objs) > 0 {
			head = "for (var " + x + " in " + objs[g.rng.Intn(len(objs))] + ")"
		} else {
			head = "for (let " + x + " of [1, 2])"
		}
		body := g.block(inner, 1+g.rng.Intn(2), depth-1, ind+"  ")
		if ctx != nil {
			*ctx = saved
		}
		return ind + head + " {" + nl + body + ind + "}" + nl
	case 16: // while / do-while with counter
		c := g.name("w")
		saved := pfnctx{}
		if ctx != nil {
			saved = *ctx
			ctx.loopDepth++
		}
		inner := sc.child()
		body := g.block(inner, 1+g.rng.Intn(2), depth-1, ind+"  ")
		if ctx != nil {
			*ctx = saved
		}
		if g.rng.Bool() {
			return ind + "var " + c + " = 0;" + nl + ind + "while (" + c + "++ < 2) {" + nl + body + ind + "}" + nl
		}
		return ind + "var " + c + " = 0;" + nl + ind + "do {" + nl + body + ind + "} while (++" + c + " < 2);" + nl
	case 17: // switch
		saved := pfnctx{}
		if ctx != nil {
			saved = *ctx
			ctx.switchDepth++
		}
		s := ind + "switch (" + g.expr(sc, 2).s + ") {" + nl
		n := 1 + g.rng.Intn(3)
		for i := 0; i < n; i++ {
			s += ind + "  case " + g.literal().s + ":" + nl + g.block(sc, 1, depth-1, ind+"    ")
			if g.rng.Bool() {
				s += ind + "    break;" + nl
			}
		}
		if g.rng.Bool() {
			s += ind + "  default:" + nl + g.block(sc, 1, depth-1, ind+"    ")
		}
		if ctx != nil {
			*ctx = saved
		}
		return s + ind + "}" + nl
	case 18, 19: // try / catch / finally with possible throw
		s := ind + "try {" + nl + g.block(sc, 1+g.rng.Intn(2), depth-1, ind+"  ")
		if g.rng.Bool() {
			s += ind + "  if (" + g.expr(sc, 1).s + ") throw " + g.paren(g.expr(sc, 1), pComma) + ";" + nl
		}
		e := g.name("e")
		inner := sc.child()
		inner.consts = append(inner.consts, e)
		if g.rng.Intn(4) == 0 {
			s += ind + "} catch {" + nl + g.block(sc, 1, depth-1, ind+"  ")
		} else {
			// the caught value is probed as it is; before the generated body can use it in an expression an engine
			// error is replaced by its name, because its message quotes source text (identifier names), which
			// the property excludes from the comparison and which minified names legitimately change
			s += ind + "} catch (" + e + ") {" + nl + ind + "  $(" + g.pid() + ", " + e + ");" + nl +
				ind + "  if (" + e + " instanceof Error) " + e + " = " + e + ".name;" + nl + g.block(inner, 1, depth-1, ind+"  ")
		}
		if g.rng.Bool() {
			s += ind + "} finally {" + nl + g.block(sc, 1, depth-1, ind+"  ")
		}
		return s + ind + "}" + nl
	case 20, 21, 22: // function declaration + call
		if depth <= 0 {
			return ind + g.stmtExpr(g.probeOf(g.expr(sc, 2))) + nl
		}
		return g.fnDecl(sc, depth, ind)
	case 23, 24: // class declaration + use
		if g.o.NoClasses || depth <= 0 {
			return ind + g.stmtExpr(g.probeOf(g.expr(sc, 2))) + nl
		}
		return g.classDecl(sc, depth, ind)
	case 25: // block
		return ind + "{" + nl + g.block(sc, 1+g.rng.Intn(3), depth-1, ind+"  ") + ind + "}" + nl
	case 26: // labelled block with break
		l := g.name("B")
		return ind + l + ": {" + nl + g.block(sc, 1, depth-1, ind+"  ") + ind + "  if (" + g.expr(sc, 1).s + ") break " + l + ";" + nl + g.block(sc, 1, depth-1, ind+"  ") + ind + "}" + nl
	case 27: // closure capturing loop variable
		arr := g.name("fs")
		i := g.name("i")
		s := ind + "var " + arr + " = [];" + nl
		s += ind + "for (let " + i + " = 0; " + i + " < 2; " + i + "++) " + arr + ".push(() => $(" + g.pid() + ", " + i + "));" + nl
		s += ind + arr + ".forEach(f => f());" + nl
		return s
	case 28: // empty statement / debugger-free misc
		return ind + ";" + nl
	default: // async IIFE
		if g.o.NoAsync || depth <= 0 {
			return ind + g.stmtExpr(g.probeOf(g.expr(sc, 2))) + nl
		}
		inner := g.fnScope(sc, true, false)
		body := g.block(inner, 1+g.rng.Intn(3), depth-1, ind+"  ")
		return ind + "(async () => {" + nl + body + ind + "  await null;" + nl + ind + "  $(" + g.pid() + ", \"after-await\");" + nl + ind + "})().catch(e => $(" + g.pid() + ", e));" + nl
	}
}

func (g *progen) params(inner *pscope, arity int) string {
	var ps []string
	for i := 0; i < arity; i++ {
		p := g.name("a")
		switch g.rng.Intn(6) {
		case 0:
			ps = append(ps, p+" = "+g.paren(g.probeOf(g.literal()), pAssign))
			inner.vars = append(inner.vars, p)
		case 1:
			if i == arity-1 {
				ps = append(ps, "..."+p)
				inner.arrs = append(inner.arrs, p)
				inner.consts = append(inner.consts, p)
				continue
			}
			fallthrough
		default:
			ps = append(ps, p)
			inner.vars = append(inner.vars, p)
		}
	}
	return strings.Join(ps, ", ")
}

func (g *progen) fnDecl(sc *pscope, depth int, ind string) string {
	name := g.name("f")
	kind := 0
	switch g.rng.Intn(6) {
	case 0:
		kind = 1
	case 1:
		if !g.o.NoAsync {
			kind = 2
		}
	}
	inner := g.fnScope(sc, kind == 2, kind == 1)
	arity := g.rng.Intn(3)
	ps := g.params(inner, arity)
	body := g.block(inner, 1+g.rng.Intn(3), depth-1, ind+"  ")
	ret := ind + "  return " + g.paren(g.expr(inner, 2), pComma) + ";\n"
	head := "function "
	if kind == 1 {
		head = "function* "
	} else if kind == 2 {
		head = "async function "
	}
	var s string
	form := g.rng.Intn(3)
	if kind != 0 {
		form = 0
	}
	switch form {
	case 0:
		s = ind + head + name + "(" + ps + ") {\n" + body + ret + ind + "}\n"
	case 1:
		s = ind + "var " + name + " = function(" + ps + ") {\n" + body + ret + ind + "};\n"
	default:
		s = ind + "const " + name + " = (" + ps + ") => {\n" + body + ret + ind + "};\n"
	}
	sc.fns = append(sc.fns, pfn{name: name, arity: arity, kind: kind})
	// call it right away so that it is exercised
	call := g.exprCallOf(sc, pfn{name: name, arity: arity, kind: kind})
	return s + ind + g.stmtExpr(g.probeOf(call)) + "\n"
}

func (g *progen) exprCallOf(sc *pscope, f pfn) pexpr {
	var args []string
	for i := 0; i < f.arity; i++ {
		args = append(args, g.paren(g.expr(sc, 1), pAssign))
	}
	call := f.name + "(" + strings.Join(args, ", ") + ")"
	switch f.kind {
	case 1:
		return pexpr{s: "[..." + call + "]", prec: pMember}
	case 2:
		return pexpr{s: call + ".then(v => $(" + g.pid() + ", v), e => $(" + g.pid() + ", e))", prec: pCall}
	}
	return pexpr{s: call, prec: pCall}
}

func (g *progen) classDecl(sc *pscope, depth int, ind string) string {
	name := g.name("C")
	var b strings.Builder
	derived := g.rng.Intn(3) == 0
	ext := ""
	if derived {
		base := g.name("B")
		b.WriteString(ind + "class " + base + " { constructor(x) { this.t = x; $(" + g.pid() + ", \"base-ctor\"); } bm() { return this.t; } static sb() { return 1; } }\n")
		ext = " extends " + base
	}
	b.WriteString(ind + "class " + name + ext + " {\n")
	in2 := ind + "  "
	mkScope := func() *pscope {
		s := g.fnScope(sc, false, false)
		s.fn.hasThis = true
		return s
	}
	if g.rng.Bool() {
		b.WriteString(in2 + "f1 = " + g.paren(g.probeOf(g.expr(mkScope(), 1)), pAssign) + ";\n")
	}
	if g.rng.Bool() {
		b.WriteString(in2 + "static s1 = " + g.paren(g.probeOf(g.expr(g.fnScope(sc, false, false), 1)), pAssign) + ";\n")
	}
	if g.rng.Bool() {
		b.WriteString(in2 + "#p = " + g.paren(g.expr(g.fnScope(sc, false, false), 1), pAssign) + ";\n" + in2 + "gp() { return this.#p; }\n" + in2 + "static has(o) { return #p in o; }\n")
	}
	if g.rng.Bool() {
		b.WriteString(in2 + "[" + g.paren(g.probeOf(pexpr{s: `"ck"`, prec: pMember}), pAssign) + "]() { return 1; }\n")
	}
	cs := mkScope()
	if derived {
		b.WriteString(in2 + "constructor(x) {\n" + in2 + "  super(x);\n" + g.block(cs, 1, depth-1, in2+"  ") + in2 + "}\n")
	} else {
		b.WriteString(in2 + "constructor(x) {\n" + in2 + "  this.t = x;\n" + g.block(cs, 1, depth-1, in2+"  ") + in2 + "}\n")
	}
	ms := mkScope()
	b.WriteString(in2 + "m(a) {\n" + g.block(ms, 1+g.rng.Intn(2), depth-1, in2+"  ") + in2 + "  return " + g.paren(g.expr(ms, 2), pComma) + ";\n" + in2 + "}\n")
	if g.rng.Bool() {
		gs := mkScope()
		b.WriteString(in2 + "get g() { return " + g.paren(g.probeOf(g.expr(gs, 1)), pComma) + "; }\n" + in2 + "set g(v) { $(" + g.pid() + ", v); }\n")
	}
	if g.rng.Bool() {
		b.WriteString(in2 + "static sm() { return " + g.paren(g.expr(g.fnScope(sc, false, false), 1), pComma) + "; }\n")
	}
	if g.rng.Intn(3) == 0 {
		b.WriteString(in2 + "static { $(" + g.pid() + ", \"static-block\"); }\n")
	}
	if g.rng.Intn(3) == 0 {
		b.WriteString(in2 + "*it() { yield 1; yield [" + g.paren(g.expr(mkScope(), 1), pAssign) + "]; }\n")
	}
	b.WriteString(ind + "}\n")
	inst := g.name("c")
	b.WriteString(ind + "const " + inst + " = new " + name + "(" + g.paren(g.expr(sc, 1), pAssign) + ");\n")
	b.WriteString(ind + "$(" + g.pid() + ", " + inst + ".m(1), " + inst + ".t, Object.keys(" + inst + "));\n")
	if derived {
		b.WriteString(ind + "$(" + g.pid() + ", " + inst + ".bm(), " + name + ".sb());\n")
	}
	sc.consts = append(sc.consts, inst)
	sc.objs = append(sc.objs, inst)
	return b.String()
}

// Program returns a program of roughly n top-level statements. Each top-level statement is wrapped in
// try/catch so that a thrown exception is reported and execution continues.
func (g *progen) Program(n int) string {
	var b strings.Builder
	sc := &pscope{}
	if g.o.Strict {
		b.WriteString("\"use strict\";\n")
	}
	for i := 0; i < n; i++ {
		s := g.stmt(sc, 3, "")
		// declarations must stay at top level to remain visible; wrap only non-declaring statements
		trimmed := strings.TrimSpace(s)
		isDecl := strings.HasPrefix(trimmed, "var ") || strings.HasPrefix(trimmed, "let ") || strings.HasPrefix(trimmed, "const ") || strings.HasPrefix(trimmed, "function") || strings.HasPrefix(trimmed, "async function") || strings.HasPrefix(trimmed, "class ")
		if isDecl || g.rng.Intn(8) == 0 {
			b.WriteString(s)
		} else {
			b.WriteString("try {\n" + s + "} catch (e) { $(\"E\", e); }\n")
		}
	}
	out := b.String()
	if g.o.Layout {
		out = relayout(g.rng, out)
	}
	return out
}

// relayout perturbs white space and inserts comments at safe places: after ; { } and around commas.
func relayout(rng *Rng, src string) string {
	var b strings.Builder
	lines := strings.Split(src, "\n")
	for _, ln := range lines {
		t := strings.TrimLeft(ln, " ")
		switch rng.Intn(8) {
		case 0:
			b.WriteString(t)
		case 1:
			b.WriteString("\t" + t)
		case 2:
			b.WriteString(ln + " // c")
		case 3:
			b.WriteString("/* c */ " + ln)
		default:
			b.WriteString(ln)
		}
		if rng.Intn(10) == 0 {
			b.WriteString("\r\n")
		} else {
			b.WriteString("\n")
		}
	}
	return b.String()
}
