package main

import (
	"fmt"
	"os"
	"sort"
	"strconv"
	"strings"
)

type checkFn func(r *Run)

var registry = map[string]checkFn{}
var replayers = map[string]func(r *Run, path string){}

func usage() {
	ids := []string{}
	for k := range registry {
		ids = append(ids, k)
	}
	sort.Strings(ids)
	fmt.Fprintf(os.Stderr, "usage: vh <ID> <quick|thorough> [--replay file]\nchecks: %s\n", strings.Join(ids, " "))
	os.Exit(3)
}

func main() {
	if len(os.Args) < 3 {
		usage()
	}
	id := strings.ToUpper(os.Args[1])
	tier := os.Args[2]
	if tier != "quick" && tier != "thorough" {
		usage()
	}
	fn, ok := registry[id]
	if !ok {
		usage()
	}
	seed := uint64(1)
	if s := os.Getenv("VERIF_SEED"); s != "" {
		if v, err := strconv.ParseUint(s, 10, 64); err == nil {
			seed = v
		}
	}
	r := newRun(id, tier, seed)
	for i := 3; i < len(os.Args); i++ {
		if os.Args[i] == "--replay" && i+1 < len(os.Args) {
			rp, ok := replayers[id]
			if !ok {
				fmt.Fprintf(os.Stderr, "no replayer for %s\n", id)
				os.Exit(3)
			}
			r.replayMode = true
			rp(r, os.Args[i+1])
			os.Exit(r.finish())
		}
	}
	fn(r)
	os.Exit(r.finish())
}
