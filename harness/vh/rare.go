package main

// Hand-written seeds for rarely exercised grammar productions. Each is valid in the goal given
// ("s" script only, "m" module only, "b" both). They are combined with wrappers and mutated; every
// derived input is judged by the reference parsers, never assumed valid.
type rareSeed struct {
	Src  string
	Goal string
}

var rareSeeds = []rareSeed{
	// ASI boundaries
	{"a\n++\nb", "b"}, {"a\n--b", "b"}, {"x = a\n(b)", "b"}, {"x = a\n[b]", "b"}, {"var a = 1\nvar b = 2", "b"}, {"function f(){ return\n1 }", "b"},
	{"function f(){ return /*\n*/ 1 }", "b"}, {"l: for(;;){ continue\nl }", "b"}, {"l: for(;;){ break\nl }", "b"}, {"throw a\n", "b"}, {"do x; while(0) y", "b"}, {"do ; while(0) 1", "b"},
	{"a = b\n/re/g.test(c)", "b"}, {"a\n/re/g", "b"}, {"let\nx = 1", "b"}, {"x\n`t`", "b"}, {"class C { a\n b\n ['c']\n static\n d }", "b"}, {"class C { a = 1\n *g(){} }", "b"},
	{"class C { get\n a(){} }", "b"}, {"class C { static\n a(){} }", "b"}, {"class C { async\n a(){} }", "b"}, {"var a = function(){}\n;(function(){})()", "b"}, {"if (a) ; else ;", "b"},
	{"for (;;) ;", "b"}, {"x = y => z\n(1)", "b"}, {"async\nfunction f(){}", "b"}, {"yield\n1", "s"}, {"function* g(){ yield\n1 }", "b"}, {"function* g(){ yield /re/ }", "b"}, {"function* g(){ yield* g }", "b"},
	// regex vs division
	{"a / b / c", "b"}, {"a /= b", "b"}, {"x = /=/", "b"}, {"x = /[/]/", "b"}, {"x = a++ / 2", "b"}, {"x = a ++ / b / c", "b"}, {"if (a) /re/.test(b)", "b"}, {"x = (a) / 2", "b"}, {"x = {} / 2", "b"},
	{"{} /re/", "b"}, {"function f(){} /re/", "b"}, {"x = function(){} / 2", "b"}, {"x = a ? /b/ : /c/", "b"}, {"x = [/a/, /b/]", "b"}, {"x = typeof /a/", "b"}, {"x = void /a/.b", "b"},
	{"x = a\n/b/g", "b"}, {"x = `${/a/}` / 2", "b"}, {"x = 1 / /a/.lastIndex", "b"}, {"x = /a/ / /b/", "b"}, {"x = /\\//", "b"}, {"x = /[\\]/]/", "b"}, {"x = /(?<n>a)\\k<n>/u", "b"}, {"x = /\\p{L}/u", "b"},
	{"x = /[\\p{L}--[a-z]]/v", "b"}, {"x = /a/dgimsuy", "b"}, {"x = /(?=a)(?!b)(?<=c)(?<!d)/", "b"}, {"x = /\\u{1F600}/u", "b"}, {"x = /\\cA\\0\\x41/", "b"}, {"x = /a{1,2}?b*?c+?/", "b"}, {"x = /{/", "b"}, {"x = /]/", "b"},
	// contextual keywords as identifiers
	{"var let = 1; let\n[0]", "s"}, {"var async = 1; async\n(1)", "b"}, {"var yield = 1; yield * 2", "s"}, {"var await = 1; await\n(1)", "s"}, {"var of = 1; for (of of of) ;", "b"}, {"var get, set, static; ({get, set, static})", "b"},
	{"var let; let = 1", "s"}, {"let async; async = 1", "b"}, {"for (let in {}) ;", "s"}, {"for (let of = 0; of < 1; of++) ;", "b"}, {"for (async of => 1; ;) break", "b"}, {"for ((async) of []) ;", "b"}, {"for (let.x of []) ;", "s"},
	{"var of; for (of in {}) ;", "b"}, {"var as, from; import('x')", "b"}, {"({ async: 1, await: 2, yield: 3, let: 4, static: 5, get: 6, set: 7, of: 8 })", "b"}, {"({ get get(){}, set set(v){}, async async(){}, static(){} })", "b"},
	{"class C { get(){} set(){} static(){} async(){} }", "b"}, {"class C { static static(){} static get get(){} static set set(v){} static async async(){} static async *gen(){} }", "b"},
	{"class C { static async = 1; static get = 2; static set; get; set; async; static }", "b"}, {"class C { 'constructor'(){} }", "b"}, {"class C { static constructor(){} static prototype2(){} }", "b"}, {"class C { accessor = 1 }", "b"},
	{"var arguments, eval; eval = arguments", "s"}, {"function f(yield, let, async){ }", "s"}, {"function* g(){ var o = { yield: 1 }; return o.yield }", "b"}, {"async function f(){ var o = { await: 1 }; return o.await }", "b"},
	{"var o = { await(){}, yield(){}, async *yield(){}, async await(){} }", "b"}, {"function await(){}", "s"}, {"function yield(){}", "s"}, {"var x = async function await(){}", "s"}, {"x = function* yield(){}", "s"},
	{"label: yield: 1", "s"}, {"await: 1", "s"}, {"async: 1", "b"}, {"let: 1", "s"}, {"static: 1", "s"}, {"implements: interface: package: 1", "s"}, {"var interface, package, private; private = 1", "s"},
	{"new.target", "none"}, {"function f(){ new.target; new new.target }", "b"}, {"function f(){ return new.target?.x }", "b"}, {"import.meta.url", "m"}, {"x = import.meta", "m"}, {"import('a').then(b)", "b"}, {"import('a', {with:{type:'json'}})", "b"},
	// cover grammars: arrows, destructuring
	{"(a, b) => c", "b"}, {"(a = 1, [b] = [2], {c, d: [e]} = {}) => 0", "b"}, {"(...a) => a", "b"}, {"(a, ...[b, c]) => a", "b"}, {"async (a, b) => await a", "b"}, {"async a => a", "b"}, {"async () => {}", "b"}, {"x = async\n() => {}", "none"},
	{"({a = 1} = {})", "b"}, {"({a = 1}) => a", "b"}, {"[a = 1, [b], ...c] = d", "b"}, {"[a.b, c[d], ...e.f] = g", "b"}, {"({a: b.c, d: e[f], ...g.h} = i)", "b"}, {"[(a), (b.c), ((d))] = e", "b"}, {"({a: (b), c: (d.e)} = f)", "b"},
	{"(a) = 1", "b"}, {"((a)) = 1", "b"}, {"(a.b) = 1", "b"}, {"for ([a, b] of c) ;", "b"}, {"for ({a, b} of c) ;", "b"}, {"for ([a = 1] in c) ;", "b"}, {"for (a.b of c) ;", "b"}, {"for ((a) of c) ;", "b"}, {"for (var [a, b] of c) ;", "b"}, {"for (const {a = 1} of c) ;", "b"},
	{"({a, b: c, [d]: e, 'f': g, 1: h, ...i} = j)", "b"}, {"x = (a, b)", "b"}, {"x = (a, b) ? c : d", "b"}, {"x = a ? b : c => d", "b"}, {"x = a ? (b) : c => d", "b"}, {"x = a ? b => c : d => e", "b"}, {"x = a ? (b, c) => d : e", "b"},
	{"(function(){}) ()", "b"}, {"(() => {})()", "b"}, {"x = () => ({})", "b"}, {"x = () => ({}).a", "b"}, {"x = () => {}\n(1)", "none"}, {"x = (() => {}).length", "b"}, {"x = a => b => c => d", "b"}, {"x = async (a = await => 1) => a", "s"},
	{"var {a, b: {c}, ...d} = e, [f, , g] = h", "b"}, {"try {} catch ({a, b: [c]}) {}", "b"}, {"try {} catch ([a = 1]) {}", "b"}, {"try {} catch {}", "b"}, {"function f({a} = {}, [b] = [], ...c) {}", "b"},
	// labelled / sloppy functions, HTML comments, octal
	{"l: function f(){}", "s"}, {"a: b: function f(){}", "s"}, {"a: b: c: function f(){} f()", "s"}, {"a: { b: function f(){} }", "s"}, {"function g(){ a: b: function f(){} }", "s"}, {"a: b: for(;;) break a", "b"}, {"a: b: { break a }", "b"}, {"a: b: if (x) break b; else break a", "b"}, {"if (a) function f(){}", "s"}, {"if (a) function f(){} else function g(){}", "s"}, {"l1: l2: l3: for(;;) break l1", "b"}, {"l: { break l }", "b"}, {"l: if (a) break l", "b"},
	{"x = 1 <!-- c\n", "s"}, {"<!-- c\nx", "s"}, {"x\n--> c\n", "s"}, {"/*\n*/ --> c\nx", "s"}, {"x = a-->b", "b"}, {"x = a<!--b", "m"}, {"x = 010 + 08 + 09.5", "s"}, {"x = '\\07\\8\\9'", "s"}, {"with (a) b", "s"}, {"delete x", "s"},
	{"function f(a, a){}", "s"}, {"x = {__proto__: 1, '__proto__': 2}", "none"}, {"x = {__proto__: 1, __proto__(){} , ['__proto__']: 2}", "b"}, {"({__proto__: a, __proto__: b} = c)", "b"},
	// numeric literals
	{"x = 1_000_000 + 0x_f", "none"}, {"x = 1_000.000_1e1_0 + 0xF_F + 0o7_7 + 0b1_0 + 1_0n", "b"}, {"x = 1..toString() + 1.0.toFixed() + 1 .a + 0x1.a + 1e3.a + 1n.a", "b"}, {"x = .5 + 5. + 5.e1 + .5e-1 + 0.0e+0", "b"},
	{"x = 0b11 + 0B11 + 0o17 + 0O17 + 0xff + 0XFF", "b"}, {"x = 9007199254740993 + 1e309 + 5e-324 + 1e21 + 123456789012345680000", "b"}, {"x = 0n + 0x0n + 0b0n + 0o0n", "b"}, {"x = -0 + -0.0 + 0e0 + -1e-7", "b"},
	{"x = 1 in 2 instanceof 3", "b"}, {"x = a.0", "none"}, {"x = 1.a", "none"}, {"x = 1.0.a + 1.5.a", "b"}, {"x = 2 ** -1 + (-2) ** 2 + (+a) ** b", "b"}, {"x = -a ** b", "none"}, {"x = (-a) ** b ** c", "b"}, {"x = (a ** b) ** c", "b"},
	// escapes in identifiers / keywords, unicode
	{"var \\u0061bc = 1; abc", "b"}, {"var \\u{61}bc = 1; a\\u0062c", "b"}, {"var a\\u200dbc, \\u{1d7d8}x; ", "none"}, {"var ℮, ゛, ·x", "none"}, {"var ಠ_ಠ, 𐊧, a𐊧, \\u{102A7}", "b"}, {"x = {\\u0069f: 1}.\\u0069f", "b"}, {"x = a.\\u0069f + a?.cl\\u0061ss", "b"},
	{"cl\\u0061ss C {}", "none"}, {"var l\\u0065t = 1", "s"}, {"var \\u0061sync; \\u0061sync = 1", "b"}, {"({ \\u0067et: 1, s\\u0065t: 2, st\\u0061tic: 3, \\u0061sync: 4 })", "b"}, {"class C { #\\u0061; static #b\\u{63}; m(){ return this.#a + C.#bc } }", "b"},
	{"x = 'a\\\nb\\u2028c\\u{1F600}\\x41\\0\\'\\\"'", "b"}, {"x = `a\\\nb${1}\\u{1F600}\\``", "b"}, {"x = tag`\\u{` + tag`\\xg${1}\\1`", "b"}, {"x = '  '", "b"}, {"x = `\r\n\r`", "b"}, {"x = \"\\u{10FFFF}\\uD83D\\uDE00\\uD83D\"", "b"},
	// class elements
	{"class C { static #a = 1; #b; static { C.#a; } static m(){ return #b in this } get #c(){} set #c(v){} static async *#d(){} }", "b"}, {"class C { [a](){} static [b] = 1; get [c](){} set [d](v){} async [e](){} *[f](){} async *[g](){} }", "b"},
	{"class C { 1(){} 'a'(){} 2n(){} static 3 = 4; static 'b' = 5; 0x10(){}; 1e3 = 1 }", "b"}, {"class C extends (a, b) {}", "b"}, {"class C extends a.b {}", "b"}, {"class C extends a() {}", "b"}, {"class C extends class {} {}", "b"}, {"class C extends function(){} {}", "b"},
	{"class C { ; ; a; ; b(){} ; }", "b"}, {"class C { constructor(){ super.a; super[b]; super.c(); super.d = 1 } }", "none"}, {"class C extends B { constructor(){ super(); super.a; super[b]; super.c() } }", "b"}, {"x = class { static a = this; static b = () => this; static [c] = super.d }", "b"},
	{"class C { static async *[Symbol.iterator](){ yield* await 1 } }", "b"}, {"class C { get a(){ return 1 } set a(v){} static get a(){} static set a(v){} }", "b"}, {"class C { 'constructor' = 1 }", "none"}, {"class C { static 'prototype'(){} }", "none"},
	{"x = class C { static x = C }", "b"}, {"export default class {}", "m"}, {"export default class C extends D {}", "m"}, {"export default function(){}", "m"}, {"export default async function*(){}", "m"}, {"export default (class {})", "m"}, {"export default (function(){})", "m"},
	{"export default async () => {}", "m"}, {"export default a, b", "none"}, {"export default (a, b)", "m"}, {"export default function f(){} f()", "m"}, {"export default class C {} C", "m"},
	// modules
	{"import a, {b as c, default as d, 'e f' as g} from 'x'; import * as h from 'y'; import 'z'", "m"}, {"export {a as b, c as default, d as 'e f'}; var a, c, d", "m"}, {"export * from 'x'; export * as y from 'z'; export * as 'a b' from 'w'", "m"},
	{"export {default} from 'x'; export {default as a, b as default} from 'y'; export {'a b' as c} from 'z'", "m"}, {"import j from 'x' with {type: 'json'}", "m"}, {"export var a = 1, [b] = [2], {c} = {}; export let d; export const e = 1; export function f(){} export class g {}", "m"},
	{"export async function f(){} export function* g(){} export async function* h(){}", "m"}, {"import {} from 'x'; export {} from 'y'; export {}", "m"}, {"await 1; for await (x of y) ;", "m"}, {"import {a as let2, b as async} from 'x'; async", "m"},
	{"x = await\n/re/", "none"}, {"using x = y", "none"}, {"{ using x = y; }", "none"},
	// statements & misc
	{"if (a) b; else if (c) d; else e", "b"}, {"if (a) if (b) c; else d", "b"}, {"for (var i = 0, j = (1 in {}); i < j; i++) ;", "b"}, {"for (var i = (\"a\" in b) ? 1 : 2; ;) break", "b"}, {"for (x = (a in b); ;) break", "b"}, {"for (var a in b in c) ;", "none"},
	{"for (var a = 1 in b) ;", "s"}, {"for (let\n{} = 0; 0;) ;", "b"}, {"for (let [a] = [], b; ;) break", "b"}, {"for (;;) { continue } ", "b"}, {"switch (a) { case 1: default: case 2: { let x } }", "b"}, {"switch (a) {}", "b"},
	{"a: { b: { break a } }", "b"}, {"do do ; while (0); while (0)", "b"}, {"while (0) while (1) ;", "b"}, {"var a = b, c = (d, e)", "b"}, {"x = (1, 2, 3)", "b"}, {"x = a ? b : c ? d : e", "b"}, {"x = a ?? b ?? c", "b"}, {"x = (a ?? b) || c", "b"}, {"x = a ?? (b || c)", "b"},
	{"x = a?.b?.[c]?.(d)", "b"}, {"x = a?.b.c(d).e?.f", "b"}, {"x = (a?.b).c", "b"}, {"x = a?.[0]?.b`t`", "none"}, {"x = a ?.5 : 1", "b"}, {"x = a?.5:1", "b"}, {"delete a?.b", "b"}, {"x = new a.b.c", "b"}, {"x = new (a.b()).c", "b"}, {"x = new (a())()", "b"},
	{"x = new a()()", "b"}, {"x = new new a()()", "b"}, {"x = new a`t`", "b"}, {"x = new (a?.b)()", "b"}, {"x = new (import('a'))", "b"}, {"x = a`b``c`", "b"}, {"x = a.b`c`", "b"}, {"x = (a, b)`c`", "b"}, {"x = (() => {})`c`", "b"},
	{"x = typeof typeof void delete a.b", "b"}, {"x = + +a - -b + -+-c", "b"}, {"x = a++ + ++b - --c - d--", "b"}, {"x = a+ +b; y = a- -b; z = a+ ++b; w = a- --b", "b"}, {"x = !(!a) + ~(~b)", "b"}, {"x = a < !--b", "b"}, {"x = a<!--b", "m"},
	{"x = (function(){}).call(this) + (class {}).name", "b"}, {"x = {}.a; ({}).b; ({} = c)", "b"}, {"x = [,] + [,,] + [1,,2,]", "b"}, {"x = {a, b, c(){}, get d(){ return 1 }, set d(v){}, [e]: 1, ...f, 'g': 1, 1: 2, 1n: 3}", "b"},
	{"x = {async a(){}, *b(){}, async *c(){}, async [d](){}, get [e](){ return 1 }}", "b"}, {"x = function(){ return function(){ return arguments } }", "b"}, {"x = a in b; for (var c = (d in e); ;) break", "b"},
	{"x = (a, function(){})", "b"}, {"(function(){})", "b"}, {"(class {})", "b"}, {"(let)[0] = 1", "s"}, {"(let[0] = 1)", "s"}, {"(async function(){})", "b"}, {"x = (async function(){})", "b"}, {"({}).a = 1", "b"}, {"({} + 1)", "b"}, {"({a(){}})", "b"},
	{"`a${b}c${`d${e}f`}g`", "b"}, {"`${a}${b}`", "b"}, {"`\\${a}`", "b"}, {"`$`", "b"}, {"`${{}}`", "b"}, {"`${(a, b)}`", "b"}, {"`${a => b}`", "b"}, {"`${function(){}}`", "b"}, {"x = `</script>` + '</script>' + /<\\/script>/", "b"}, {"x = '<!--' + a<!--b", "m"},
	{"debugger", "b"}, {"\"use strict\"; 'use asm'; x", "b"}, {"'use strict'\n+1", "b"}, {"function f(){ 'use strict'; 'x'; return 1 }", "b"}, {"function f(a = 1){ 'use strict' }", "none"}, {"x = function f(){ f = 1 }", "b"}, {";;;", "b"}, {"", "b"}, {"#!/usr/bin/env node\nx", "b"},
	{"x = {if: 1, class: 2, function: 3, new: 4, null: 5, true: 6}.if", "b"}, {"x = a.if.class.new.null.true.function", "b"}, {"x = a?.if?.class", "b"}, {"class C { if(){} class(){} static new(){} #if; }", "b"}, {"x = a.#b", "none"}, {"x = {a: 1, a: 2, get a(){}, a(){}}", "b"},
	{"var a; var a; function a(){} var a", "b"}, {"{ function f(){} function f(){} }", "s"}, {"function f(){ var a; { function a(){} } }", "b"}, {"function f(a){ var a; function a(){} }", "b"}, {"try {} catch (e) { var e }", "b"}, {"try {} catch (e) { for (var e of []) ; }", "none"},
	{"x = async function* (){ for await (const a of b) yield* c; await using_; }", "b"}, {"async function f(){ for await (a of b) ; for await (var [c] of d) ; for await (async of e) ; }", "b"}, {"async function f(){ await a ** b }", "none"}, {"async function f(){ (await a) ** b; await (a ** b); -(await a) }", "b"},
	// `in` below yield / await inside a for initializer; comments in front of a for initializer; modifiers before literal keys
	{"function* g(){ for (var x = yield (a in b);;) break }", "b"}, {"function* g(){ for (var y = yield* (a in b), z = (yield (c in d));;) break }", "b"}, {"function* g(){ for (yield (a in b);;) break; for (var w = yield yield (a in b);;) break }", "b"},
	{"async function f(){ for (var x = await (a in b);;) break; for (var y = z ?? (a in b);;) break }", "b"}, {"for (var x = y ? (a in b) : (c in d), z = w => (a in b);;) break", "b"}, {"for (var {x = (a in b)} = {}, [y = (c in d)] = [];;) break", "b"},
	{"for (/*c*/ (let)[0] = 1;;) break", "s"}, {"/*c*/ (let)[0] = 1", "s"}, {"for (/*c*/ (let)[0] of []) ;", "s"}, {"for (/*c*/ (async) of []) ;", "b"}, {"for (/*c*/ (function(){}) ;;) break", "b"}, {"x = () => /*c*/ ({}).a", "b"}, {"/*c*/ ({}).a = 1", "b"},
	{"class A { static 1n(){} get 2n(){ return 1 } set 3n(v){} static async 4n(){} static *5n(){} async *6n(){} static get 7n(){ return 1 } }", "b"}, {"x = { get 1n(){ return 1 }, set 1n(v){}, async 2n(){}, *3n(){}, async *4n(){} }", "b"},
	{"class A { static 1(){} get 0x2(){ return 1 } static 'a'(){} static async 1e3(){} accessor 5 = 1; static accessor 6n = 2 }", "b"},
	{"'use\\x20strict'; with (a) b", "s"}, {"function f(){ 'use\\x20strict'; with (a) b }", "s"}, {"'use strict\\\n'; with (a) b", "s"}, {"('use strict'); with (a) b", "s"}, {"'use strict', 1; with (a) b", "s"},
	{"async function f(){ await a(), await b(); await a, b; for (await a, b;;) break }", "b"}, {"await a(), await b(); for (await a, b;;) break", "m"}, {"async () => { await a, b }", "b"}, {"async function* g(){ await a, yield b; yield a, await b }", "b"}, {"class C { async m(){ await a, b } }", "b"},
	{"function* g(){ yield; yield yield; yield* yield; x = yield, y = yield a ? b : c; (yield) }", "b"}, {"function* g(){ x = [yield, yield a]; y = {a: yield}; z = `${yield}`; f(yield, yield b) }", "b"}, {"function* g(){ yield\n* 2 }", "none"}, {"function* g(){ function yield2(){} var o = {yield}; }", "none"},
}
