package main

import (
	"fmt"
	"os"
	"strconv"
	"time"
)

func init() { registry["C16ONE"] = c16One }

// C16ONE quick <seed> <idx...>: time single cases (debug aid)
func c16One(r *Run) {
	seed, _ := strconv.ParseUint(os.Args[3], 10, 64)
	for _, a := range os.Args[4:] {
		idx, _ := strconv.Atoi(a)
		c := c16MakeCase(seed, idx)
		t0 := time.Now()
		m := c16Run(c, "/tmp")
		fmt.Printf("%d %s/%s len=%d %.2fs marker=%q head=%q\n", idx, c.Kind, c.Loader, len(c.Input), time.Since(t0).Seconds(), m, trunc(c.Input, 60))
	}
	os.Exit(0)
}

func init() { registry["C16SHOW"] = c16Show }

func c16Show(r *Run) {
	seed, _ := strconv.ParseUint(os.Args[3], 10, 64)
	for _, a := range os.Args[4:] {
		idx, _ := strconv.Atoi(a)
		c := c16MakeCase(seed, idx)
		fmt.Printf("%d %s/%s len=%d entry=%v flags=%+v\n", idx, c.Kind, c.Loader, len(c.Input), c.Entry, c.Flags)
		for n, f := range c.Files {
			fmt.Printf("  %s: %d bytes: %q\n", n, len(f), trunc(f, 200))
		}
		if c.Input != "" {
			fmt.Printf("  input: %q\n", trunc(c.Input, 300))
		}
	}
	os.Exit(0)
}

func init() { registry["C16DUMP"] = c16Dump }

// C16DUMP quick <seed> <idx> <dir>: write the case's files to a directory
func c16Dump(r *Run) {
	seed, _ := strconv.ParseUint(os.Args[3], 10, 64)
	idx, _ := strconv.Atoi(os.Args[4])
	c := c16MakeCase(seed, idx)
	os.MkdirAll(os.Args[5], 0o755)
	if c.Input != "" {
		os.WriteFile(os.Args[5]+"/input", []byte(c.Input), 0o644)
	}
	for n, f := range c.Files {
		os.WriteFile(os.Args[5]+"/"+strconv.Itoa(len(n))+"_"+n[1:], []byte(f), 0o644)
	}
	os.Exit(0)
}
