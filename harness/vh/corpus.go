package main

import (
	"go/ast"
	"go/parser"
	"go/token"
	"os"
	"path/filepath"
	"sort"
	"strconv"
	"strings"
)

// The corpus is extracted at run time from /repo's current working tree: the first string argument of
// every expect* helper call in the parser/printer/lexer tests, and the files maps of the bundler tests.

type CorpusItem struct {
	Src    string
	Lang   string // js jsx ts tsx css json
	Helper string
	File   string
	Error  bool // helper expects a parse error
}

type CorpusTree struct {
	Files map[string]string
	Entry []string
	Name  string
}

func repoRoot() string {
	if v := os.Getenv("VERIF_REPO"); v != "" {
		return v
	}
	return "/repo"
}

func evalString(e ast.Expr) (string, bool) {
	switch x := e.(type) {
	case *ast.BasicLit:
		if x.Kind == token.STRING {
			s, err := strconv.Unquote(x.Value)
			return s, err == nil
		}
	case *ast.BinaryExpr:
		if x.Op == token.ADD {
			a, ok1 := evalString(x.X)
			b, ok2 := evalString(x.Y)
			return a + b, ok1 && ok2
		}
	case *ast.ParenExpr:
		return evalString(x.X)
	}
	return "", false
}

func langFor(file, helper string) string {
	base := filepath.Base(file)
	h := helper
	switch {
	case strings.Contains(base, "css_"):
		return "css"
	case strings.Contains(h, "JSON") || strings.Contains(base, "json_"):
		return "json"
	case strings.Contains(h, "TSX"):
		return "tsx"
	case strings.Contains(h, "TS") || strings.Contains(base, "ts_parser"):
		if strings.Contains(h, "JSX") {
			return "tsx"
		}
		return "ts"
	case strings.Contains(h, "JSX"):
		return "jsx"
	}
	return "js"
}

var corpusCache []CorpusItem

func loadCorpus() []CorpusItem {
	if corpusCache != nil {
		return corpusCache
	}
	var items []CorpusItem
	seen := map[string]bool{}
	dirs := []string{"internal/js_parser", "internal/js_printer", "internal/js_lexer", "internal/css_parser", "internal/css_printer", "internal/css_lexer"}
	for _, d := range dirs {
		matches, _ := filepath.Glob(filepath.Join(repoRoot(), d, "*_test.go"))
		sort.Strings(matches)
		for _, file := range matches {
			fset := token.NewFileSet()
			f, err := parser.ParseFile(fset, file, nil, 0)
			if err != nil {
				continue
			}
			ast.Inspect(f, func(n ast.Node) bool {
				call, ok := n.(*ast.CallExpr)
				if !ok {
					return true
				}
				id, ok := call.Fun.(*ast.Ident)
				if !ok || !strings.HasPrefix(id.Name, "expect") {
					return true
				}
				for _, a := range call.Args {
					if s, ok := evalString(a); ok {
						lang := langFor(file, id.Name)
						key := lang + "\x00" + s
						if !seen[key] && len(s) > 0 {
							seen[key] = true
							items = append(items, CorpusItem{Src: s, Lang: lang, Helper: id.Name, File: filepath.Base(file),
								Error: strings.Contains(id.Name, "Error")})
						}
						break
					}
				}
				return true
			})
		}
	}
	corpusCache = items
	return items
}

var treeCache []CorpusTree

// loadCorpusTrees extracts `files: map[string]string{...}` literals from the bundler tests.
func loadCorpusTrees() []CorpusTree {
	if treeCache != nil {
		return treeCache
	}
	var trees []CorpusTree
	matches, _ := filepath.Glob(filepath.Join(repoRoot(), "internal/bundler_tests", "*_test.go"))
	sort.Strings(matches)
	for _, file := range matches {
		fset := token.NewFileSet()
		f, err := parser.ParseFile(fset, file, nil, 0)
		if err != nil {
			continue
		}
		ast.Inspect(f, func(n ast.Node) bool {
			cl, ok := n.(*ast.CompositeLit)
			if !ok {
				return true
			}
			// the "bundled" struct literal has files: and entryPaths:
			var files map[string]string
			var entries []string
			for _, el := range cl.Elts {
				kv, ok := el.(*ast.KeyValueExpr)
				if !ok {
					continue
				}
				k, ok := kv.Key.(*ast.Ident)
				if !ok {
					continue
				}
				if k.Name == "files" {
					if m, ok := kv.Value.(*ast.CompositeLit); ok {
						files = map[string]string{}
						for _, fe := range m.Elts {
							if fkv, ok := fe.(*ast.KeyValueExpr); ok {
								p, ok1 := evalString(fkv.Key)
								c, ok2 := evalString(fkv.Value)
								if ok1 && ok2 {
									files[p] = c
								}
							}
						}
					}
				}
				if k.Name == "entryPaths" {
					if m, ok := kv.Value.(*ast.CompositeLit); ok {
						for _, fe := range m.Elts {
							if s, ok := evalString(fe); ok {
								entries = append(entries, s)
							}
						}
					}
				}
			}
			if len(files) > 0 && len(entries) > 0 {
				trees = append(trees, CorpusTree{Files: files, Entry: entries, Name: filepath.Base(file)})
			}
			return true
		})
	}
	treeCache = trees
	return trees
}
