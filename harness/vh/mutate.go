package main

import (
	"strings"
)

var mutDict = []string{
	"let", "async", "yield", "await", "of", "get", "set", "static", "arguments", "eval", "new", "target", "super", "this", "in", "instanceof",
	"typeof", "void", "delete", "function", "function*", "class", "extends", "=>", "?.", "??", "??=", "||=", "&&=", "**", "**=", "...", ";", ",", ":", "?",
	"(", ")", "[", "]", "{", "}", "`", "${", "/", "/=", "<!--", "-->", "#x", "0", "1n", "0x1_0", "1_000", ".5", "1.", "1e3", "08", "0o7", "'s'", "\"\\u{1F600}\"",
	"/re/g", "/[/]/v", "null", "true", "a", "b", "x", "\\u0061", "\\u{61}sync", "import", "export", "default", "from", "as", "with", "import.meta", "new.target",
	"var", "const", "using", "for", "while", "do", "if", "else", "return", "break", "continue", "throw", "try", "catch", "finally", "switch", "case", "debugger", "label:",
	"\n", "\r\n", "\u2028", "/*c*/", "//c\n", "/*\n*/", "++", "--", "!", "~", "-", "+", "=", "==", "===", "<", ">", "<<", ">>", ">>>", "&", "|", "^", "&&", "||", "%", "*",
	"linear-gradient(red, 50%,)", "radial-gradient(red, 50%, blue 10px)", "conic-gradient(from 1turn, red 10deg, 30deg, blue)", "color-mix(in srgb, red 50%, blue)", "oklch(50% 0.2 120 / 50%)", "calc(1px + (2 * 3%))", "@layer a, b;", "@media (width >= 1px)", "&:is(.a, .b)", "@container (min-width: 1px)", "!important", "url(x.png)", "var(--x, 1px)",
	"accessor", "enum", "interface", "implements", "package", "private", "protected", "public", "constructor", "prototype", "__proto__", "\"use strict\"",
}

var wrapTemplates = [][2]string{
	{"function f(){", "}"}, {"async function f(){", "}"}, {"function* g(){", "}"}, {"async function* g(){", "}"},
	{"class C { m(){", "} }"}, {"class C { static { ", " } }"}, {"class C extends B { constructor(){ super(); ", " } }"},
	{"(() => {", "})"}, {"(async () => {", "})"}, {"{", "}"}, {"if(a) {", "}"}, {"l: {", "}"}, {"\"use strict\";", ""},
	{"x = (", ")"}, {"x = [", "]"}, {"x = {a: ", "}"}, {"x = `${", "}`"}, {"for(;;){", "}"}, {"switch(a){case 1:", "}"}, {"try{", "}catch{}"},
	{"({ m(){", "} })"}, {"({ get a(){", "} })"}, {"var f = function(){", "}"}, {"export default ", ""}, {"export ", ""}, {"void ", ""}, {"", ";"},
}

// mutate returns a mutated version of src. others supplies donor inputs for splicing.
func mutate(rng *Rng, src string, others []CorpusItem) string {
	toks := crudeTokens(src)
	if len(toks) == 0 {
		return src
	}
	nmut := 1 + rng.Intn(3)
	for m := 0; m < nmut; m++ {
		if len(toks) == 0 {
			break
		}
		switch rng.Intn(11) {
		case 0: // splice with donor
			d := crudeTokens(others[rng.Intn(len(others))].Src)
			if len(d) > 0 {
				i := rng.Intn(len(toks) + 1)
				j := rng.Intn(len(d))
				toks = append(append([]string{}, toks[:i]...), d[j:]...)
			}
		case 1: // delete span
			i := rng.Intn(len(toks))
			l := 1 + rng.Intn(3)
			if i+l > len(toks) {
				l = len(toks) - i
			}
			toks = append(append([]string{}, toks[:i]...), toks[i+l:]...)
		case 2: // duplicate span
			i := rng.Intn(len(toks))
			l := 1 + rng.Intn(4)
			if i+l > len(toks) {
				l = len(toks) - i
			}
			dup := append([]string{}, toks[i:i+l]...)
			toks = append(append(append([]string{}, toks[:i+l]...), dup...), toks[i+l:]...)
		case 3, 4: // replace token from the dictionary
			i := rng.Intn(len(toks))
			toks[i] = mutDict[rng.Intn(len(mutDict))]
		case 5, 6: // insert dictionary token
			i := rng.Intn(len(toks) + 1)
			t := mutDict[rng.Intn(len(mutDict))]
			toks = append(append(append([]string{}, toks[:i]...), " "+t+" "), toks[i:]...)
		case 7: // insert donor span
			d := crudeTokens(others[rng.Intn(len(others))].Src)
			if len(d) > 0 {
				i := rng.Intn(len(toks) + 1)
				j := rng.Intn(len(d))
				l := 1 + rng.Intn(6)
				if j+l > len(d) {
					l = len(d) - j
				}
				toks = append(append(append([]string{}, toks[:i]...), d[j:j+l]...), toks[i:]...)
			}
		case 8: // newline / comment at a token boundary (ASI)
			i := rng.Intn(len(toks) + 1)
			ws := []string{"\n", "\r\n", "\u2028", "/*\n*/", "//x\n", " ", "\t", "/**/"}[rng.Intn(8)]
			toks = append(append(append([]string{}, toks[:i]...), ws), toks[i:]...)
		case 9: // swap two tokens
			i, j := rng.Intn(len(toks)), rng.Intn(len(toks))
			toks[i], toks[j] = toks[j], toks[i]
		case 10: // wrap
			w := wrapTemplates[rng.Intn(len(wrapTemplates))]
			toks = append(append([]string{w[0]}, toks...), w[1])
		}
	}
	return strings.Join(toks, "")
}

// mutateBytes applies byte-level damage (used by the crash monitor, C16).
func mutateBytes(rng *Rng, src string) string { return mutateBytesDepth(rng, src, 5000) }

func mutateBytesDepth(rng *Rng, src string, maxDepth int) string {
	b := []byte(src)
	n := 1 + rng.Intn(4)
	for k := 0; k < n; k++ {
		switch rng.Intn(7) {
		case 0:
			if len(b) > 0 {
				b[rng.Intn(len(b))] ^= byte(1 << uint(rng.Intn(8)))
			}
		case 1:
			if len(b) > 1 {
				b = b[:rng.Intn(len(b))]
			}
		case 2:
			bad := [][]byte{{0xff}, {0xc0, 0x80}, {0xed, 0xa0, 0x80}, {0xf4, 0x90, 0x80, 0x80}, {0}, {0xe2, 0x80}, {0xef, 0xbb, 0xbf}}
			i := rng.Intn(len(b) + 1)
			b = append(append(append([]byte{}, b[:i]...), bad[rng.Intn(len(bad))]...), b[i:]...)
		case 3:
			if len(b) > 0 {
				i := rng.Intn(len(b))
				l := 1 + rng.Intn(8)
				if i+l > len(b) {
					l = len(b) - i
				}
				rep := 1 + rng.Intn(50)
				var out []byte
				out = append(out, b[:i]...)
				for r := 0; r < rep; r++ {
					out = append(out, b[i:i+l]...)
				}
				out = append(out, b[i+l:]...)
				b = out
			}
		case 4:
			open := []string{"(", "[", "{", "`${", "<a>", "((", "[{", "function(){", "class{", "a?", "a=>", "!", "-", "a.", "a?.", "{a:", "<T>(", "/*"}[rng.Intn(18)]
			depth := []int{10, 100, 1000, 5000}[rng.Intn(4)]
			if depth > maxDepth {
				depth = maxDepth
			}
			if open == "a=>" && depth > 500 {
				depth = 500 // nested arrows cost cubic time (C16 known finding, probed separately)
			}
			i := rng.Intn(len(b) + 1)
			b = append(append(append([]byte{}, b[:i]...), []byte(strings.Repeat(open, depth))...), b[i:]...)
		case 5:
			huge := []string{"1" + strings.Repeat("0", 400), "0." + strings.Repeat("0", 400) + "1", "1e999999", "0x" + strings.Repeat("f", 300), strings.Repeat("9", 30) + "n",
				"\\u{" + strings.Repeat("0", 50) + "41}", "\\u{110000}", "\\u{FFFFFFFFF}", "\\xZZ", "\\u12", "\"\\", "1_", "1__0", "0b102", "09.5", "1e", ".e1"}[rng.Intn(17)]
			i := rng.Intn(len(b) + 1)
			b = append(append(append([]byte{}, b[:i]...), []byte(huge)...), b[i:]...)
		case 6:
			if len(b) > 0 {
				b[rng.Intn(len(b))] = byte(rng.Intn(256))
			}
		}
	}
	if len(b) > 1<<16 {
		b = b[:1<<16]
	}
	return string(b)
}
