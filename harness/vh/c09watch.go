package main

// C09, the real polling loop: ctx.Watch() on a project with enough watched paths that one scan covers only part of
// them. After every edit that changes the result of a fresh build the watcher must notice it within a bounded number
// of *scans* (a logical step counter emitted by the verif-tagged hook inside tryToFindDirtyPath — the watcher checks
// ≥ paths/20 (min 64) items per scan plus the recently changed ones, so two full cycles + 1 is the design bound),
// and the build it then runs must equal a fresh build of the tree. Wall-clock time only drives a watchdog.

import (
	"fmt"
	"os"
	"path/filepath"
	"strings"
	"sync"
	"sync/atomic"
	"time"

	"github.com/evanw/esbuild/pkg/api"
)

func c09RealWatch(r *Run) {
	nh := r.pick(10, 120)
	scratch, _ := os.MkdirTemp("/tmp", "verif-c09watch-")
	defer os.RemoveAll(scratch)
	var scans, dirtySeen int64
	var evMu sync.Mutex
	var lastDirty string
	api.VerifSetSink(func(e api.VerifEvent) {
		switch e.Kind {
		case "watch_scan":
			atomic.AddInt64(&scans, 1)
		case "watch_dirty":
			atomic.AddInt64(&dirtySeen, 1)
			evMu.Lock()
			lastDirty = e.S
			evMu.Unlock()
		}
	})
	defer api.VerifSetSink(nil)
	var edits, detected, maxScans int64
	for i := 0; i < nh; i++ {
		rng := newRng(r.Seed, fmt.Sprint("c09watch", i))
		root := filepath.Join(scratch, fmt.Sprint("w", i))
		tree := c09BaseTree()
		// many more watched paths than one scan covers (64 per scan at least): 150-400 extra modules in several directories
		extra := 150 + rng.Intn(250)
		var imports strings.Builder
		for k := 0; k < extra; k++ {
			p := fmt.Sprintf("/src/gen/d%d/m%d.js", k%7, k)
			tree[p] = fmt.Sprintf("export const g%d = %d;\n", k, k)
			imports.WriteString(fmt.Sprintf("import {g%d} from './gen/d%d/m%d.js';\n", k, k%7, k))
		}
		tree["/src/entry.tsx"] = imports.String() + tree["/src/entry.tsx"] + fmt.Sprintf("console.log(g0, g%d);\n", extra-1)
		writeTree(root, tree)
		old := time.Now().Add(-time.Hour)
		filepath.Walk(root, func(p string, info os.FileInfo, err error) error {
			if err == nil && !info.IsDir() {
				os.Chtimes(p, old, old)
			}
			return nil
		})
		var endMu sync.Mutex
		var ends []string
		opts := api.BuildOptions{EntryPoints: []string{filepath.Join(root, "src/entry.tsx")}, Bundle: true, Write: false, AbsWorkingDir: root, Outdir: filepath.Join(root, "out"), LogLevel: api.LogLevelSilent, Metafile: true,
			External: []string{"react", "react/jsx-runtime", "react/jsx-dev-runtime", "preact/jsx-runtime", "preact/jsx-dev-runtime"}, Format: api.FormatESModule}
		watched := opts
		watched.Plugins = []api.Plugin{{Name: "end", Setup: func(b api.PluginBuild) {
			b.OnEnd(func(res *api.BuildResult) (api.OnEndResult, error) {
				endMu.Lock()
				ends = append(ends, canonicalResult(root, *res))
				endMu.Unlock()
				return api.OnEndResult{}, nil
			})
		}}}
		ctx, cerr := api.Context(watched)
		if cerr != nil {
			continue
		}
		waitEnds := func(n int, limit time.Duration) bool {
			deadline := time.Now().Add(limit)
			for time.Now().Before(deadline) {
				endMu.Lock()
				k := len(ends)
				endMu.Unlock()
				if k >= n {
					return true
				}
				time.Sleep(5 * time.Millisecond)
			}
			return false
		}
		if err := ctx.Watch(api.WatchOptions{}); err != nil || !waitEnds(1, 60*time.Second) {
			ctx.Dispose()
			r.Inconclusive("watch mode did not produce its first build")
			continue
		}
		eds := c09Edits(rng)
		var applied []string
		prevFresh := canonicalResult(root, api.Build(opts))
		nsteps := 4 + rng.Intn(5)
		for step := 1; step <= nsteps; step++ {
			// pick an edit that changes the result of a fresh build (others put no obligation on the watcher)
			var e fsEdit
			changed := false
			var fresh string
			for try := 0; try < 6 && !changed; try++ {
				e = eds[rng.Intn(len(eds))]
				if rng.Intn(3) == 0 {
					k := rng.Intn(extra)
					p := fmt.Sprintf("/src/gen/d%d/m%d.js", k%7, k)
					e = fsEdit{Kind: "content-generated", Desc: "edit " + p, apply: func(root string, s int) error {
						return writeFileAt(root, p, fmt.Sprintf("export const g%d = %d;\n", k, 100000*step+k))
					}}
				}
				endMu.Lock()
				before := len(ends)
				endMu.Unlock()
				s0 := atomic.LoadInt64(&scans)
				if err := e.apply(root, step); err != nil {
					continue
				}
				applied = append(applied, e.Desc)
				fresh = canonicalResult(root, api.Build(opts))
				if fresh == prevFresh {
					// nothing to detect; give a build that may have been triggered anyway time to finish
					time.Sleep(150 * time.Millisecond)
					continue
				}
				changed = true
				atomic.AddInt64(&edits, 1)
				r.Eval(1)
				// wait (in scans) for the watcher's rebuild
				ok := false
				watchdog := time.Now().Add(90 * time.Second)
				for time.Now().Before(watchdog) {
					endMu.Lock()
					k := len(ends)
					endMu.Unlock()
					if k > before {
						ok = true
						break
					}
					if atomic.LoadInt64(&scans)-s0 > 45 {
						break
					}
					time.Sleep(5 * time.Millisecond)
				}
				used := atomic.LoadInt64(&scans) - s0
				if used > atomic.LoadInt64(&maxScans) {
					atomic.StoreInt64(&maxScans, used)
				}
				if !ok {
					if used > 45 {
						r.Violation("incremental:real-watch-misses-change:"+e.Kind, fmt.Sprintf("watch mode: the edit %q changes the result of a fresh build, but after %d scans of the polling watcher (two full cycles take at most 41) no rebuild had happened", e.Desc, used),
							map[string]interface{}{"history": applied, "watched_extra_modules": extra, "scans": used})
					} else {
						r.Inconclusive(fmt.Sprintf("real watch: watchdog fired after %d scans", used))
					}
					break
				}
				atomic.AddInt64(&detected, 1)
				r.Nontrivial(fmt.Sprint("watch", i, step, e.Desc))
				// the watcher may need more than one build if the edit touched several files non-atomically: take the last one after a quiet period
				time.Sleep(120 * time.Millisecond)
				waitEnds(before+1, time.Second)
				endMu.Lock()
				got := ends[len(ends)-1]
				endMu.Unlock()
				if got != fresh {
					// allow one more polling round (the edit and the scan can interleave)
					time.Sleep(400 * time.Millisecond)
					endMu.Lock()
					got = ends[len(ends)-1]
					endMu.Unlock()
				}
				if got != fresh {
					la, lb := strings.Split(fresh, "\n"), strings.Split(got, "\n")
					k := 0
					for k < len(la) && k < len(lb) && la[k] == lb[k] {
						k++
					}
					fa, ia := "", ""
					if k < len(la) {
						fa = la[k]
					}
					if k < len(lb) {
						ia = lb[k]
					}
					r.Violation("incremental:real-watch-rebuild-differs:"+e.Kind, fmt.Sprintf("watch mode: after the edit %q the build run by the watcher differs from a fresh build of the tree: fresh %q, watch %q", e.Desc, trunc(fa, 160), trunc(ia, 160)),
						map[string]interface{}{"history": applied, "fresh_line": fa, "watch_line": ia})
					break
				}
			}
			if !changed {
				continue
			}
			prevFresh = fresh
		}
		ctx.Dispose()
		os.RemoveAll(root)
	}
	evMu.Lock()
	_ = lastDirty
	evMu.Unlock()
	r.Count("real_watch_histories", nh)
	r.Count("real_watch_edits_with_changed_result", int(edits))
	r.Count("real_watch_edits_detected", int(detected))
	r.Count("real_watch_scans_observed", int(atomic.LoadInt64(&scans)))
	r.Count("real_watch_max_scans_until_rebuild", int(maxScans))
	if edits < int64(nh*2) {
		r.Inconclusive(fmt.Sprintf("real watch: only %d result-changing edits", edits))
	}
}
