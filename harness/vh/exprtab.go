package main

import (
	"fmt"
	"strings"
)

// exprtab: bounded-exhaustive tables of small expressions/statements whose leaves are boundary-value
// literals or side-effect probes. Every case is a closure body for the pack runner.

type gridLit struct {
	Src, Class string
}

var gridLits = []gridLit{
	{"0", "num"}, {"-0", "num"}, {"1", "num"}, {"-1", "num"}, {"NaN", "num"}, {"Infinity", "num"}, {"-Infinity", "num"},
	{"2147483647", "num"}, {"2147483648", "num"}, {"-2147483649", "num"}, {"4294967295", "num"}, {"4294967296", "num"}, {"9007199254740992", "num"},
	{"0.1", "num"}, {"0.5", "num"}, {"1e21", "num"}, {"1e-7", "num"}, {"31", "num"}, {"32", "num"}, {"33", "num"}, {"255", "num"}, {"1.5", "num"}, {"-7", "num"},
	{`""`, "str"}, {`"0"`, "str"}, {`" 1 "`, "str"}, {`"abc"`, "str"}, {`"\uD800"`, "str"}, {`"\uDC00a"`, "str"}, {`"10"`, "str"}, {`"1e3"`, "str"}, {`"0x10"`, "str"},
	{`"-0"`, "str"}, {`"Infinity"`, "str"}, {`"\u{1F600}"`, "str"}, {`"￿"`, "str"}, {`"é"`, "str"}, {`"b"`, "str"}, {`"B"`, "str"}, {`"\n"`, "str"},
	{"true", "bool"}, {"false", "bool"}, {"null", "null"}, {"void 0", "undef"}, {"0n", "big"}, {"-1n", "big"}, {"1n", "big"}, {"10n", "big"},
	{"[]", "obj"}, {"({})", "obj"}, {"[1]", "obj"}, {"[1,2]", "obj"},
}

var gridSmall = []gridLit{{"0", "num"}, {"1", "num"}, {"NaN", "num"}, {`""`, "str"}, {`"a"`, "str"}, {"null", "null"}, {"void 0", "undef"}, {"true", "bool"}, {"1n", "big"}}

var binaryOps = []string{"+", "-", "*", "/", "%", "**", "<<", ">>", ">>>", "<", ">", "<=", ">=", "==", "!=", "===", "!==", "&", "|", "^", "&&", "||", "??", ","}
var unaryOps = []string{"-", "+", "!", "~", "typeof ", "void "}
var assignOps = []string{"=", "+=", "-=", "*=", "/=", "%=", "**=", "<<=", ">>=", ">>>=", "&=", "|=", "^=", "&&=", "||=", "??="}

type exprtabGen struct {
	cases []packCase
	n     int
	k     int
}

func (g *exprtabGen) add(sig, body string) {
	g.n++
	g.cases = append(g.cases, packCase{ID: fmt.Sprint("e", g.n), Body: body, Sig: sig})
}

// probe returns `$(k, lit)` with a fresh k
func (g *exprtabGen) probe(lit string) string {
	g.k++
	return fmt.Sprintf("$(%d, %s)", g.k, lit)
}

// obj returns an object with logging coercion hooks that yields prim
func (g *exprtabGen) obj(prim string) string {
	g.k++
	return fmt.Sprintf("{valueOf() { $(%d, \"v\"); return %s; }, toString() { $(%d, \"s\"); return \"x%d\"; }}", g.k, prim, g.k, g.k)
}

func (g *exprtabGen) objP(prim string) string { return "(" + g.obj(prim) + ")" }

// exprtabMinify: tables aimed at the minifier (constant folding, side-effect ordering, dead code).
func exprtabMinify(sample func(total int) bool) []packCase {
	g := &exprtabGen{}
	// 1. constant folding: op × literal × literal (sampled when asked)
	for _, op := range binaryOps {
		for _, a := range gridLits {
			for _, b := range gridLits {
				if !sample(len(binaryOps) * len(gridLits) * len(gridLits)) {
					continue
				}
				as := a.Src
				if op == "**" {
					as = "(" + as + ")"
				}
				if op == "??" || op == "&&" || op == "||" || op == "," {
					g.add("fold:"+op+":"+a.Class+"×"+b.Class, fmt.Sprintf("() => (%s %s %s)", as, op, b.Src))
				} else {
					g.add("fold:"+op+":"+a.Class+"×"+b.Class, fmt.Sprintf("() => %s %s %s", as, op, b.Src))
				}
			}
		}
	}
	// 2. same through local constants (inlining + folding)
	for _, op := range binaryOps {
		for _, a := range gridSmall {
			for _, b := range gridSmall {
				g.add("constvar:"+op+":"+a.Class+"×"+b.Class, fmt.Sprintf("() => { const a = %s, b = %s; return (a %s b); }", a.Src, b.Src, op))
			}
		}
	}
	// 3. evaluation order and count with probes and coercion objects
	for _, op := range binaryOps {
		for _, a := range gridSmall {
			for _, b := range gridSmall {
				g.add("probe:"+op+":"+a.Class+"×"+b.Class, fmt.Sprintf("() => %s %s %s", g.probe(a.Src), op, g.probe(b.Src)))
			}
		}
		for _, a := range []string{"1", `"a"`, "null"} {
			for _, b := range []string{"2", `"b"`, "void 0"} {
				g.add("coerce:"+op, fmt.Sprintf("() => %s %s %s", g.objP(a), op, g.objP(b)))
				g.add("coerce-lit:"+op, fmt.Sprintf("() => %s %s %s", g.objP(a), op, b))
				g.add("lit-coerce:"+op, fmt.Sprintf("() => %s %s %s", a, op, g.objP(b)))
			}
		}
	}
	// 4. unary
	for _, op := range unaryOps {
		for _, a := range gridLits {
			g.add("fold-unary:"+op+":"+a.Class, fmt.Sprintf("() => %s(%s)", op, a.Src))
		}
		g.add("probe-unary:"+op, fmt.Sprintf("() => %s%s", op, g.probe("1")))
		g.add("coerce-unary:"+op, fmt.Sprintf("() => %s%s", op, g.objP("1")))
		for _, op2 := range unaryOps {
			g.add("unary-unary:"+op+op2, fmt.Sprintf("() => %s(%s(%s))", op, op2, g.probe(`"5"`)))
		}
	}
	// 5. logical / conditional combinations
	vals := []string{"0", "1", `""`, `"a"`, "null", "void 0", "NaN"}
	for _, a := range vals {
		for _, b := range vals {
			pa, pb := g.probe(a), g.probe(b)
			g.add("cond", fmt.Sprintf("() => %s ? %s : %s", pa, pb, g.probe("9")))
			g.add("cond-neg", fmt.Sprintf("() => !%s ? %s : %s", g.probe(a), g.probe(b), g.probe("9")))
			g.add("cond-same", fmt.Sprintf("() => { const v = %s; return %s ? v : v; }", pb, g.probe(a)))
			g.add("and-or", fmt.Sprintf("() => (%s && %s) || %s", g.probe(a), g.probe(b), g.probe("9")))
			g.add("or-and", fmt.Sprintf("() => (%s || %s) && %s", g.probe(a), g.probe(b), g.probe("9")))
			g.add("nullish-chain", fmt.Sprintf("() => (%s ?? %s) ?? %s", g.probe(a), g.probe(b), g.probe("9")))
			g.add("cond-bool", fmt.Sprintf("() => %s ? true : false", g.probe(a)))
			g.add("cond-bool-neg", fmt.Sprintf("() => %s ? false : true", g.probe(a)))
			g.add("cond-and", fmt.Sprintf("() => %s ? %s : false", g.probe(a), g.probe(b)))
			g.add("cond-or", fmt.Sprintf("() => %s ? true : %s", g.probe(a), g.probe(b)))
			g.add("cond-self", fmt.Sprintf("() => { var x = %s; return x ? x : %s; }", a, g.probe(b)))
			g.add("cond-nullish", fmt.Sprintf("() => { var x = %s; return x != null ? x : %s; }", a, g.probe(b)))
			g.add("cond-nullish2", fmt.Sprintf("() => { var x = %s; return x == null ? %s : x; }", a, g.probe(b)))
			g.add("cond-nullish-strict", fmt.Sprintf("() => { var x = %s; return x !== null && x !== void 0 ? x : %s; }", a, g.probe(b)))
			g.add("cond-optchain", fmt.Sprintf("() => { var x = %s; return x != null ? x.y : void 0; }", a))
			g.add("cond-optchain2", fmt.Sprintf("() => { var x = %s; return x == null ? void 0 : x.y; }", a))
			g.add("cond-optchain3", fmt.Sprintf("() => { var x = %s; return x && x.y; }", a))
			g.add("eq-typeof", fmt.Sprintf("() => typeof %s === \"undefined\" ? %s : 2", g.probe(a), g.probe(b)))
			g.add("if-return", fmt.Sprintf("() => { if (%s) return %s; return %s; }", g.probe(a), g.probe(b), g.probe("9")))
			g.add("if-else-return", fmt.Sprintf("() => { if (%s) { return %s; } else { return %s; } }", g.probe(a), g.probe(b), g.probe("9")))
			g.add("if-expr", fmt.Sprintf("() => { if (%s) %s; else %s; }", g.probe(a), g.probe(b), g.probe("9")))
			g.add("if-not", fmt.Sprintf("() => { if (!%s) %s; }", g.probe(a), g.probe(b)))
			g.add("if-and", fmt.Sprintf("() => { if (%s) { if (%s) %s; } }", g.probe(a), g.probe(b), g.probe("9")))
			g.add("if-return-void", fmt.Sprintf("() => { if (%s) return; %s; }", g.probe(a), g.probe(b)))
			g.add("if-throw", fmt.Sprintf("() => { if (%s) throw %s; return %s; }", g.probe(a), g.probe(b), g.probe("9")))
			g.add("if-const-true", fmt.Sprintf("() => { if (%s) { %s; } else { %s; } }", a, g.probe(b), g.probe("9")))
			g.add("while-const", fmt.Sprintf("() => { var n = 0; while (%s) { %s; if (++n > 1) break; } return n; }", a, g.probe(b)))
			g.add("for-cond", fmt.Sprintf("() => { for (var i = 0; %s && i < 2; i++) %s; return i; }", g.probe(a), g.probe(b)))
			g.add("do-while", fmt.Sprintf("() => { var n = 0; do { %s; } while (%s && ++n < 2); return n; }", g.probe(b), g.probe(a)))
			g.add("comma-if", fmt.Sprintf("() => { var x; if (x = %s, %s) return x; return [x]; }", g.probe(a), g.probe(b)))
			g.add("not-eq", fmt.Sprintf("() => !(%s == %s)", g.probe(a), g.probe(b)))
			g.add("not-lt", fmt.Sprintf("() => !(%s < %s)", g.probe(a), g.probe(b)))
			g.add("not-and", fmt.Sprintf("() => !(%s && %s)", g.probe(a), g.probe(b)))
			g.add("not-or", fmt.Sprintf("() => !(%s || %s)", g.probe(a), g.probe(b)))
		}
	}
	// 6. assignments
	for _, op := range assignOps {
		for _, a := range gridSmall {
			for _, b := range gridSmall {
				g.add("assign-var:"+op, fmt.Sprintf("() => { var x = %s; var r = (x %s %s); return [x, r]; }", a.Src, op, g.probe(b.Src)))
				g.add("assign-member:"+op, fmt.Sprintf("() => { var o = {a: %s}; var r = (o.a %s %s); return [o.a, r]; }", a.Src, op, g.probe(b.Src)))
			}
		}
		g.add("assign-order:"+op, fmt.Sprintf("() => { var o = {a: 1}; function f() { %s; return o; } return [f()[%s] %s %s, o]; }", g.probe(`"f"`), g.probe(`"a"`), op, g.probe("2")))
		g.add("assign-getter:"+op, fmt.Sprintf("() => { var o = {get a() { %s; return 1; }, set a(v) { $(\"set\", v); }}; return o.a %s %s; }", g.probe(`"get"`), op, g.probe("2")))
	}
	for _, form := range []string{"x++", "x--", "++x", "--x"} {
		for _, a := range gridSmall {
			g.add("update:"+form, fmt.Sprintf("() => { var x = %s; var r = %s; return [x, r]; }", a.Src, form))
			g.add("update-member:"+form, fmt.Sprintf("() => { var o = {x: %s}; var r = %s; return [o.x, r]; }", a.Src, strings.Replace(form, "x", "o.x", 1)))
		}
	}
	// 7. unused expressions (must keep exactly the side effects)
	unused := []string{
		"({[%O]: 1})", "({[%O]: %P})", "({a: %P, [%P]: %P})", "[%O, %P]", "[...%A]", "({...%B})", "`${%O}`", "`a${%P}b${%O}c`", "%O + \"\"", "\"\" + %O", "%O + %O", "+%O", "-%O", "!%O", "~%O", "typeof %O", "void %O",
		"%O == null", "%O === null", "%O == %O", "%O < %P", "%O, %P", "%P && %P", "%P || %P", "%P ?? %P", "%P ? %P : %P", "%P ? 1 : 2", "new C(%P)", "new C", "%F(%P)", "%P.x", "%P[%O]", "%P?.x", "%P?.[%O]", "%N?.[%P]", "%N?.x(%P)",
		"%O in {}", "%P instanceof Object", "delete %B.a", "delete %B[%O]", "%T`a${%P}`", "(() => %P)", "(function() { %P })", "class { [%O]() {} }", "class { static x = %P }", "class { static { %P } }", "class extends (%P, Object) {}",
		"%B.a", "%B.g", "%B[%O]", "%B?.g", "[%P][0]", "({a: %P}).a", "({a: %P}).b", "[%P].length", "(%P, 1)", "1 + %P", "%P | 0", "%O | 0", "%O >>> 0", "%O ** 2", "%O - 0", "%O * 1", "%O / 1", "1 * %O",
		"String(%O)", "Number(%O)", "Boolean(%O)", "Symbol.iterator in %B", "%P === %P", "%P !== %P", "[%P, %P].includes(1)", "(%P, %P, %P)", "!(%P, %P)", "!!%O", "- -%O", "%S", "[%S]", "({[%S]: 1})", "%S + \"\"", "`${%S}`", "%S == null",
		"%S == 1", "%S < 1", "+%S", "typeof %S", "typeof undeclared_x", "typeof %P === \"x\"", "%K", "[%K]", "`${%K}`", "({[%K]: 1})", "%K + \"\"",
	}
	for _, tpl := range unused {
		g.add("unused:"+tpl, "() => { "+parenObj(g.fill(tpl))+"; }")
		g.add("unused-in-seq:"+tpl, "() => { return ("+g.fill(tpl)+", 7); }")
		g.add("unused-void:"+tpl, "() => void ("+g.fill(tpl)+")")
	}
	// 8. compile-time evaluable built-in forms
	known := []string{
		`"abc".length`, `"abc"[1]`, `"abc"[5]`, `"abc"[-1]`, `"abc"["length"]`, `"😀".length`, `"😀"[0]`, `"😀".charCodeAt(1)`, `"abc".charCodeAt(1)`, `"abc".charCodeAt(9)`, `"abc".charAt(1)`, `"a" + 1 + 2`, `1 + 2 + "a"`, `"a" + (1 + 2)`, `"a" + -0`, `"a" + 1e21`, `"a" + 1e-7`, `"a" + 0.1`, `"a" + 123456789012345680000`,
		`"a" + null`, `"a" + void 0`, `"a" + true`, `"a" + 1n`, `"a" + [1,2]`, `"a" + {}`, "`${1}${\"a\"}${null}${void 0}${true}${1n}`", "`a${-0}b`", "`${1e21}`", "`${0.000001}${1e-7}`", "`${[]}`", "`${{}}`", "`\\u{1F600}`.length", "String.raw`\\n${1}`",
		`[1,2].length`, `[1,,2].length`, `[...[1,2], 3]`, `[...[1,,2]]`, `[..."ab"]`, `({...{a: 1}, b: 2})`, `({a: 1, ...null})`, `({a: 1}).a`, `({a: 1})["a"]`, `({__proto__: null}).a`, `({__proto__: {a: 1}}).a`, `({"__proto__": {a: 1}}).a`, `({["__proto__"]: {a: 1}}).a`, `({__proto__: 1, a: 2}).a`,
		`typeof 1`, `typeof "a"`, `typeof null`, `typeof void 0`, `typeof 1n`, `typeof (() => 1)`, `typeof function() {}`, `typeof class {}`, `typeof []`, `typeof {}`, `typeof /a/`, `typeof Symbol()`, `typeof typeof 1`,
		`null?.x`, `(void 0)?.x`, `null?.[$(901, 1)]`, `null?.x.y.z`, `null?.($(902, 1))`, `(null)?.x($(903, 1))`, `0?.x`, `""?.length`, `null ?? 1`, `void 0 ?? 1`, `0 ?? 1`, `"" ?? 1`, `false ?? 1`, `NaN ?? 1`,
		`!0`, `!1`, `!""`, `!"a"`, `!null`, `!NaN`, `![]`, `!{}`, `!0n`, `!1n`, `!-0`, `!!function() {}`, `!(() => 1)`, `![1]`, `!/a/`,
		`1 < 2 < 3`, `3 > 2 > 1`, `1 == 1 == 1`, `"a" < "b"`, `"a" < "B"`, `"\uD800" < "￿"`, `"\u{1F600}" < "￿"`, `"\u{1F600}" > ""`, `"10" < "9"`, `"10" < 9`, `10 < "9"`, `"a" < 1`, `null < 1`, `void 0 < 1`, `null >= 0`, `null == 0`, `void 0 == null`, `NaN == NaN`, `NaN != NaN`, `NaN === NaN`, `0 === -0`, `Object.is(0, -0)`,
		`1 / 0`, `-1 / 0`, `0 / 0`, `1 / -0`, `0 * -1`, `-0 + 0`, `-0 - 0`, `0 - 0`, `-0 * -0`, `5 % 0`, `-5 % 2`, `5 % -2`, `-0 % 1`, `5.5 % 2`, `2 ** -1`, `(-8) ** (1/3)`, `2 ** 0.5`, `0 ** 0`, `NaN ** 0`, `1 ** Infinity`, `(-2) ** 2`, `(-2) ** 3`, `2 ** 31`, `2 ** 32`, `2 ** 53`, `2 ** 1024`, `2 ** -1075`, `10 ** 21`, `10 ** -7`, `(-0) ** -1`, `0 ** -1`,
		`1 << 31`, `1 << 32`, `1 << 33`, `1 << -1`, `-1 >>> 0`, `-1 >>> 31`, `-1 >> 31`, `2147483648 | 0`, `4294967296 | 0`, `4294967295 | 0`, `-2147483649 | 0`, `1e21 | 0`, `NaN | 0`, `Infinity | 0`, `-Infinity >>> 0`, `1.9 | 0`, `-1.9 | 0`, `~~1.9`, `~~-1.9`, `~2147483647`, `~-2147483648`, `5 & -1`, `5 ^ 5`, `"3" | 0`, `"a" | 0`, `null | 0`, `true | 0`, `[] | 0`, `1 << "2"`, `"8" >> 1`,
		`0.1 + 0.2`, `0.1 * 3`, `1e21 + 1`, `9007199254740992 + 1`, `9007199254740992 + 2`, `1e308 * 10`, `-1e308 * 10`, `5e-324 / 2`, `1 / 3`, `123456789 * 987654321`, `0.1 * 0.2`, `1.005 * 1000`, `4.35 * 100`,
		`1 + null`, `1 + void 0`, `1 + true`, `1 + "1"`, `1 - "1"`, `"3" * "4"`, `"a" * 1`, `[] + []`, `[] + {}`, `[1] + [2]`, `[1] * [2]`, `null + null`, `true + true`, `void 0 + void 0`, `"" - 1`, `" " * 1`, `"\n1\t" * 1`, `"0x10" * 1`, `"0b11" * 1`, `"0o17" * 1`, `"1e3" * 1`, `"1_000" * 1`, `"Infinity" * 1`, `"-Infinity" * 1`, `"infinity" * 1`, `".5" * 1`, `"5." * 1`, `"+5" * 1`, `"- 5" * 1`, `"1n" * 1`, `" 1\uFEFF" * 1`, `"\u180E1" * 1`, `"1 2" * 1`, `"" * 1`, `"0x" * 1`, `"-0x10" * 1`, `"1e1000" * 1`, `"00010" * 1`, `"010" * 1`,
		`+"1"`, `+""`, `+"a"`, `+null`, `+void 0`, `+true`, `+[]`, `+{}`, `+[1]`, `+[1,2]`, `+"0x1f"`, `-"1"`, `-""`, `-null`, `- -1`, `-(-0)`, `+ +"1"`, `- +"1"`, `~"1"`, `~null`, `~1.5`, `~-0`, `~NaN`, `~1n`, `-1n`, `- -1n`,
		`1n + 2n`, `1n * -1n`, `5n / 2n`, `-5n / 2n`, `5n % -2n`, `2n ** 64n`, `1n << 64n`, `-1n >> 1n`, `1n == 1`, `1n === 1`, `1n < 2`, `2 > 1n`, `1n == "1"`, `0n == ""`, `1n == true`, `1n != 1`, `0n ? 1 : 2`, `-0n`, `1n & 3n`, `1n | 2n`, `~0n`, `BigInt(1) + 1n`, `1n + 1`, `1n > 1.5`, `9007199254740993n == 9007199254740992`,
		`(255).toString(16)`, `(0.5).toString(2)`, `(1e21).toString()`, `(-0).toString()`, `(1).toFixed(2)`, `1.0.toString()`, `(123.456).toFixed(1)`, `0.000001.toString()`, `1e-7.toString()`, `(25).toString(36)`,
		`String.fromCharCode(65, 0x1F600, -1, 65536 + 66)`, `String.fromCharCode()`, `String.fromCharCode(55357, 56832)`, `"a".concat("b", 1)`, `"abc".slice(1)`, `"abc".substring(1, 2)`, `"abc".indexOf("c")`, `"abc".includes("b")`, `"Abc".toLowerCase()`, `"abc".toUpperCase()`, `" a ".trim()`, `"a-b".split("-")`, `"aXbX".replace("X", "$&$&")`, `"abc".at(-1)`, `"abc".codePointAt(0)`, `"\u{1F600}".codePointAt(0)`, `[1,2,3].join("-")`, `[1,[2,[3]]].join()`, `[null, void 0, 1].join()`, `[1,2].concat(3)`, `[1,2,3].indexOf(2)`, `[3,1,2].slice(1)`, `[1,2,3].at(-1)`, `Math.pow(2, 10)`, `Math.max(1, 2)`, `Math.min()`, `Math.floor(-0.5)`, `Math.round(-0.5)`, `Math.round(2.5)`, `Math.trunc(-0.5)`, `Math.sign(-0)`, `Math.abs(-0)`, `Math.sqrt(-0)`, `parseInt("08")`, `parseInt("0x10")`, `parseInt("1e3")`, `parseFloat("1e3x")`, `Number("")`, `Number(" 12 ")`, `Number(null)`, `Number(void 0)`, `Number("1,2")`, `Number(1n)`, `Number("0b101")`, `Boolean("")`, `Boolean("0")`, `String(null)`, `String(-0)`, `String(1e21)`, `String([1,[2]])`, `String(Symbol("x"))`, `isNaN("a")`, `isFinite("1")`, `Number.isNaN("a")`, `Number.isInteger(5.0)`,
		`void 0 === undefined`, `(() => { var undefined = 1; return undefined; })()`, `(function() { var NaN = 1; return NaN; })()`, `(function(Infinity) { return Infinity; })(2)`, `(() => { let x = 1; { let x = 2; } return x; })()`,
		`[1,2,3][1]`, `[1,2,3][3]`, `[1,2,3]["1"]`, `[1,2,3][1.5]`, `[1,2,3][-0]`, `[][0]`, `[,1][0]`, `"ab" in {ab: 1}`, `1 in [1,2]`, `2 in [1,2]`, `"length" in []`, `[] instanceof Array`, `[] instanceof Object`, `(() => 1) instanceof Function`,
		`1, 2, 3`, `(1, 2) + 3`, `1 ? 2 : 3`, `0 ? 2 : 3`, `"" ? 2 : "a" ? 3 : 4`, `null || 0 || "" || "x"`, `1 && 2 && 0 && 3`, `0 || (1 && 2)`, `(0 || 1) && 2`, `null ?? (0 || 1)`, `(null ?? 0) || 1`,
		`"a" === "a"`, `"a" === "b"`, `"a" == "a"`, `1 === 1`, `1 === "1"`, `1 == "1"`, `0 == ""`, `0 == "0"`, `"" == "0"`, `null == false`, `null == void 0`, `null === void 0`, `[] == ""`, `[] == 0`, `[0] == false`, `[1] == 1`, `({}) == "[object Object]"`, `true == 1`, `true == "1"`, `true === 1`, `NaN == "NaN"`, `1e21 == "1e21"`, `"1e21" == 1e21`, `"1e+21" == String(1e21)`,
	}
	for _, k := range known {
		g.add("known:"+k, "() => "+strings.TrimSpace(parenObj(k)))
		g.add("known-stmt:"+k, "() => { var r = ("+k+"); return [r, typeof r]; }")
	}
	// 9. dead code and hoisting
	dead := []string{
		"() => { return f(); function f() { return 1; } }", "() => { if (false) { var x = 1; } return x; }", "() => { return x; var x = 1; }", "() => { if (0) { function f() {} } return typeof f; }",
		"() => { while (false) { var y = 1; } return [y]; }", "() => { for (; false; ) { var z; } return [z]; }", "() => { return typeof g; if (true) return; function g() {} }", "() => { throw %P; var a = 1; function h() { return a; } }",
		"() => { try { return %P; } finally { %P; } }", "() => { try { throw %P; } catch (e) { return [e]; } finally { %P; } }", "() => { try { return 1; } finally { return 2; } }", "() => { L: try { return 1; } finally { break L; } return 3; }",
		"() => { for (var i = 0; i < 3; i++) { try { continue; } finally { %P; } } return i; }", "() => { L: { if (%P) break L; %P; } return 1; }", "() => { L: for (;;) { for (;;) { break L; } } return 1; }", "() => { do { if (%P) continue; %P; } while (false); }",
		"() => { switch (%P) { case 1: %P; case 2: %P; break; default: %P; } }", "() => { switch (2) { case 1: %P; case 2: %P; case 3: %P; break; default: %P; } }", "() => { switch (%P) { default: %P; case 1: %P; } }", "() => { switch (9) { default: %P; case 1: %P; } }", "() => { switch (1) { default: %P; break; case 1: %P; } }",
		"() => { switch (%P) { case %P: return 1; case %P: return 2; } return 3; }", "() => { switch (1) { case %P: %P; } }", "() => { switch (%P) {} }", "() => { switch (%P) { default: } }", "() => { switch (%P) { case 1: } return 2; }", "() => { switch (%P) { case 1: break; default: %P; } }", "() => { switch (%P) { case 1: default: %P; } }",
		"() => { switch (typeof %P) { case \"number\": return 1; case \"string\": return 2; default: return 3; } }", "() => { var x = %P; switch (x) { case 1: { let y = %P; return y; } } }", "() => { switch (1) { case 1: let q = %P; return q; } }",
		"() => { if (%P) { return 1; } else if (%P) { return 2; } else { return 3; } }", "() => { if (%P) return 1; else if (%P) return 2; return 3; }", "() => { if (%P) { if (%P) return 1; } else return 2; return 3; }", "() => { if (%P) {} else %P; }", "() => { if (%P) ; else ; return 1; }", "() => { if (%P) { %P; return; } %P; }",
		"() => { var a = %P; if (a) return a; var b = %P; return b; }", "() => { var a = %P, b = %P; return a + b; }", "() => { var a = %P; var b = a; return [a, b]; }", "() => { let a = %P; a = %P; return a; }", "() => { const a = %P; return () => a; }",
		"() => { var f = function() { return %P; }; return f(); }", "() => { var f = () => %P; return [f(), f()]; }", "() => { function id(x) { return x; } return id(%P); }", "() => { function nop() {} return nop(%P); }", "() => { function nop() {} nop(%P, %P); }", "() => { const nop = () => {}; nop(%P); }", "() => { function nop(a = %P) {} nop(); }", "() => { function nop({a}) {} nop(%P); }", "() => { function nop({a}) {} try { nop(null); } catch (e) { return [e]; } }", "() => { function nop(...r) {} nop(...%A); }",
		"() => { const id = x => x; return id(%P) + id(%P); }", "() => { function k() { return 5; } return k(%P); }", "() => { var o = {m() { return this; }}; return (0, o.m)() === o; }", "() => { var o = {m() { return this; }}; return (o.m)() === o; }", "() => { var o = {m() { return this === o; }}; var t = o; return (t.m)(); }", "() => { var o = {m() { return typeof this; }}; return (o.m, o.m)(); }", "() => { var o = {m() { return typeof this; }}; return (%P ? o.m : o.m)(); }", "() => { var o = {e: eval}; return typeof (0, o.e); }",
		"() => { var a = 1; var f = function() { return a; }; a = 2; return f(); }", "() => { var x = 1; { var x = 2; } return x; }", "() => { let x = 1; { let x = 2; %P; } return x; }", "() => { var r = []; for (let i = 0; i < 2; i++) r.push(() => i); return r.map(f => f()); }", "() => { var r = []; for (var i = 0; i < 2; i++) r.push(() => i); return r.map(f => f()); }",
		"() => { var a = [%P, %P]; return a; }", "() => { var o = {a: %P, b: %P}; return o; }", "() => { var [a, b = %P] = [%P]; return [a, b]; }", "() => { var {a = %P, b} = {b: %P}; return [a, b]; }", "() => { var {a, ...r} = {a: %P, b: %P}; return r; }", "() => { var [a, ...r] = [%P, %P, %P]; return r; }", "() => { var a, b; [a, b] = [%P, %P]; return [a, b]; }", "() => { var a = 1, b = 2; [a, b] = [b, a]; return [a, b]; }",
		"() => { var x = %P; return x === void 0 ? 1 : x; }", "() => { var x = %P; return typeof x === \"undefined\"; }", "() => { var x = %P; return typeof x !== \"undefined\" && x !== null ? x.a : void 0; }", "() => { var x = %P; return x === null || x === void 0 ? void 0 : x.a; }", "() => { var x = {a: null}; return x.a === null || x.a === void 0 ? %P : x.a; }",
		"() => { var s = \"\"; for (var c of \"a\\u{1F600}b\") s += c + \"|\"; return s; }", "() => { var s = 0; for (var k in {a: 1, b: 2}) s += k; return s; }", "() => { var i = 0; while (i < 3) i++; return i; }", "() => { var i = 0; for (;;) { if (++i > 2) break; } return i; }", "() => { var i = 0; do i++; while (i < 3); return i; }", "() => { for (var i = 0, j = 10; i < j; i++, j--); return [i, j]; }",
		"() => { var a = %P; a; return 1; }", "() => { var a = %P; void a; a, 1; return 1; }", "() => { let unused = %P; }", "() => { const unused = %O; }", "() => { var [unused] = %A; }", "() => { var {unused} = %B; }", "() => { var {g} = %B; }", "() => { var [u1] = {[Symbol.iterator]() { %P; return {next() { return {done: true}; }}; }}; }", "() => { var u = `${%O}`; }", "() => { var u = %O + \"\"; }", "() => { var u = [%P, %O]; }", "() => { var u = {[%O]: 1}; }", "() => { var u = class { static x = %P; }; }", "() => { var u = class { [%O]() {} }; }", "() => { var u = () => %P; }", "() => { var u = -%O; }", "() => { var u = !%O; }", "() => { var u = typeof %O; }", "() => { var u = %B.g; }", "() => { var u = %B.a; }", "() => { var u = %P.x; }", "() => { var u = %N.x; }", "() => { var u = %O == null; }", "() => { var u = %O == 1; }", "() => { var u = %S + \"\"; }", "() => { var u = `${%S}`; }", "() => { var u = %K; }", "() => { var u = [...%A]; }", "() => { var u = {...%B}; }", "() => { var u = new C(%P); }", "() => { var u = %T`a`; }", "() => { var u = 1 in %B; }", "() => { var u = %O in {}; }", "() => { var u = %O instanceof Object; }", "() => { var u = %P instanceof %P; }",
		"() => { function unusedFn() { %P; } }", "() => { class Unused { static { %P; } } }", "() => { class Unused { static x = %P; } }", "() => { class Unused { [%P]() {} } }", "() => { class Unused extends (%P, Object) {} }", "() => { class Unused { x = %P; } }", "() => { class Unused { static [%O] = 1; } }",
		"() => { return; %P; }", "() => { throw 1; %P; }", "() => { for (;;) { break; %P; } }", "() => { L: { break L; %P; } }", "() => { if (true) return 1; %P; return 2; }", "() => { return %P, %P; }", "() => { return (%P, void 0); }", "() => { return void %P; }", "() => { %P; return void 0; }", "() => { return %P ? void 0 : void 0; }", "() => { return %P ? %P : void 0; }", "() => { if (%P) return void 0; return; }",
		"() => { var a = %P; var b = %P; return b - a; }", "() => { var a = %P; %P; return a; }", "() => { var a = %P; var b = %P; return [b, a]; }", "() => { var a = {x: 1}; var b = a.x; a.x = 2; return b; }", "() => { var a = %P, r = a + (a = 5); return r; }", "() => { var a = 1; var r = a + (a = %P) + a; return r; }", "() => { var i = 0; var r = [i++, i++, i]; return r; }", "() => { var i = 0; return i++ + i++; }", "() => { var i = 1; return i + (i = 2) * i; }", "() => { var o = {a: 1}; var x = o.a; o = null; return x; }", "() => { var a = %P; function f() { return a; } a = %P; return f(); }", "() => { var a = %B; var g1 = a.g; %P; return g1; }", "() => { var x = %P; var y = %B.g; return [y, x]; }", "() => { var x = %B.g; var y = %P; return [y, x]; }", "() => { var x = %P; var y = x; x = 9; return y; }", "() => { let x = %P; const f = () => x; x = 9; return f(); }", "() => { var x = %P; return x.toString(x = 7); }", "() => { var x = %B; var y = x.a; x.a = 3; return y + x.a; }", "() => { var a = arguments1(); function arguments1() { return %P; } return a; }",
	}
	for _, d := range dead {
		g.add("stmt:"+d, g.fill(d))
	}
	// 10. comparisons with zero (and with each other) in boolean contexts: the minifier drops them only for operands it
	// knows to be int32/uint32; every other operand may be falsy without being zero
	{
		operands := []string{"%V >>> 0", "%V | 0", "~%V", "%C ? %V >>> 0 : %W", "%C ? %W : %V >>> 0", "%C ? %V >>> 0 : %V | 0", "%C && %V >>> 0", "%C || %V >>> 0", "(%W, %V >>> 0)", "%C ? %W : %W", "%V >>> 0 || %W", "(%V >>> 0) + %W", "%W"}
		vals := []string{"0", "1", "-1", "null", "void 0", "NaN", `""`, `"0"`, "false", "4294967296", "-0", "0.5"}
		cmps := []string{"!== 0", "=== 0", "!= 0", "== 0"}
		ctxs := []string{"() => { if (%E) return 1; return 2; }", "() => !(%E)", "() => (%E) ? 1 : 2", "() => (%E) && $(%N, 1)", "() => { var n = 0; while (%E) { if (++n > 1) break; } return n; }", "() => (%E) || $(%N, 1)"}
		k := 0
		for oi, op := range operands {
			for vi, v := range vals {
				w := vals[(vi*5+oi*3+1)%len(vals)]
				c := []string{"true", "false"}[(oi+vi)%2]
				for ci, cmp := range cmps {
					k++
					e := strings.NewReplacer("%V", "v", "%W", "w", "%C", "c").Replace(op)
					expr := "(" + e + ") " + cmp
					body := strings.ReplaceAll(strings.ReplaceAll(ctxs[(k+ci)%len(ctxs)], "%E", expr), "%N", fmt.Sprint(900000+k))
					g.add("boolctx:"+op+cmp, fmt.Sprintf("() => { var v = %s, w = %s, c = %s; return (%s)(); }", v, w, c, body))
				}
			}
		}
	}
	// 11. loops whose first statement is an if with a jump in one branch (loop-condition rewrites), with labelled jumps that
	// target an enclosing statement rather than the loop itself
	{
		jumps := []string{"break", "break outer", "continue outer", "continue", "break blk", "return 7"}
		shapes := []string{"if (%C) %Y; else %J;", "if (%C) %J; else %Y;", "if (%C) %J; %Y;", "if (!%C) %J; %Y;", "if (%C) { %Y; } else { %J; }", "if (%C) { %J; }"}
		loops := []string{"for (;;) { %S }", "for (; n < 4;) { %S }", "while (true) { %S }", "do { %S } while (n < 4);", "for (var z = 0; z < 4; z++) { %S }"}
		id := 0
		for _, j := range jumps {
			for _, sh := range shapes {
				for li, lp := range loops {
					id++
					// every iteration evaluates the condition, and the condition throws after 12 evaluations: a combination
					// that never leaves its loop (a plain continue in for(;;)) still terminates, with the same events on both sides
					st := strings.NewReplacer("%C", "t() < 2", "%Y", fmt.Sprintf("$(%d, \"y\", n)", 910000+id), "%J", j).Replace(sh)
					body := strings.ReplaceAll(lp, "%S", st)
					g.add("loopjump:"+j+":"+sh+":"+fmt.Sprint(li), fmt.Sprintf("() => { var n = 0, rounds = 0, t = () => { if (n > 12) throw new Error(\"@lim\"); return n++; }; try { blk: { outer: for (var r = 0; r < 3; r++) { rounds++; if (n > 20) break; %s $(%d, \"after-inner\", n); } $(%d, \"after-outer\", rounds); } } catch (e) { $(%d, \"lim\", n); } return [n, rounds]; }", body, 920000+id, 930000+id, 940000+id))
				}
			}
		}
	}
	return g.cases
}

func parenObj(s string) string {
	if strings.HasPrefix(s, "{") || strings.HasPrefix(s, "function") || strings.HasPrefix(s, "class") {
		return "(" + s + ")"
	}
	return s
}

// fill replaces placeholders: %P probe, %O coercion object, %A array with logging iterator, %B object with
// getter g and own keys a,b, %N probe returning null, %T tag function, %F function, %S symbol value, %K object with Symbol.toPrimitive
func (g *exprtabGen) fill(tpl string) string {
	out := tpl
	for strings.Contains(out, "%") {
		i := strings.Index(out, "%")
		if i+1 >= len(out) {
			break
		}
		var rep string
		switch out[i+1] {
		case 'P':
			g.k++
			rep = fmt.Sprintf("$(%d, %d)", g.k, g.k%5)
		case 'O':
			rep = g.objP(fmt.Sprint(g.k % 3))
		case 'A':
			g.k++
			rep = fmt.Sprintf("({[Symbol.iterator]() { $(%d, \"it\"); var n = 0; return {next() { $(%d, \"next\"); return {done: n++ > 1, value: n}; }}; }})", g.k, g.k)
		case 'B':
			g.k++
			rep = fmt.Sprintf("({a: 1, get g() { $(%d, \"g\"); return 2; }, b: 3})", g.k)
		case 'N':
			g.k++
			rep = fmt.Sprintf("$(%d, null)", g.k)
		case 'T':
			g.k++
			rep = fmt.Sprintf("((s, ...v) => $(%d, s.raw, v))", g.k)
		case 'F':
			g.k++
			rep = fmt.Sprintf("(x => $(%d, x))", g.k)
		case 'S':
			rep = "Symbol(\"sy\")"
		case 'K':
			g.k++
			rep = fmt.Sprintf("({[Symbol.toPrimitive](h) { $(%d, h); return 1; }})", g.k)
		default:
			rep = "%%"
		}
		out = out[:i] + rep + out[i+2:]
	}
	return strings.ReplaceAll(out, "%%", "%")
}
