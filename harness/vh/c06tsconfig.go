package main

import (
	"fmt"
	"os"
	"path/filepath"

	"github.com/evanw/esbuild/pkg/api"
)

// c06Tsconfig: the tsconfig settings that govern how TypeScript-only constructs are emitted (class-field semantics,
// decorators, import elision, JSX, strictness) reach the compiler through `extends` chains. For every such setting a
// project whose tsconfig.json inherits it — from a single base, from an `extends` array whose entries disagree (the
// last one wins), from a base that itself extends another file, or overridden by the file's own value — must
// compile to exactly the bytes of the same project with the flattened, explicit tsconfig.
func c06Tsconfig(r *Run) {
	type setting struct {
		name string
		a, b string // two different JSON values
	}
	settings := []setting{
		{"useDefineForClassFields", "true", "false"},
		{"experimentalDecorators", "true", "false"},
		{"verbatimModuleSyntax", "true", "false"},
		{"preserveValueImports", "true", "false"},
		{"importsNotUsedAsValues", `"preserve"`, `"remove"`},
		{"target", `"ES2015"`, `"ES2022"`},
		{"jsx", `"react"`, `"react-jsx"`},
		{"jsxFactory", `"h"`, `"make"`},
		{"jsxImportSource", `"preact"`, `"solid"`},
		{"alwaysStrict", "true", "false"},
		{"strict", "true", "false"},
	}
	entry := "import {unusedValue} from './dep';\nimport {T} from './dep';\nimport './side';\nfunction dec(...a: any[]): any {}\nclass B { set x(v: number) { console.log('setter', v); } }\n" +
		"@dec class A extends B { x = 1; y; static s = 2; @dec m(p: T) {} }\nexport const el = <div key=\"k\">{new A()}</div>;\nexport default A;\n"
	files := map[string]string{"src/entry.tsx": entry, "src/dep.ts": "export const unusedValue = 1; export type T = number;\n", "src/side.ts": "console.log('side');\n"}
	root, _ := os.MkdirTemp("/tmp", "verif-c06ts-")
	defer os.RemoveAll(root)
	compile := func(dir string, jsx string) (string, bool) {
		o := api.BuildOptions{EntryPoints: []string{filepath.Join(dir, "src/entry.tsx")}, Write: false, Outdir: filepath.Join(dir, "out"), AbsWorkingDir: dir, LogLevel: api.LogLevelSilent,
			Tsconfig: filepath.Join(dir, "tsconfig.json")}
		res, pan := buildSafe(o)
		r.Eval(1)
		if pan != "" || len(res.Errors) > 0 || len(res.OutputFiles) == 0 {
			return firstErrMsg(res.Errors) + pan, false
		}
		return string(res.OutputFiles[0].Contents), true
	}
	write := func(dir string, extra map[string]string) {
		for p, c := range files {
			os.MkdirAll(filepath.Dir(filepath.Join(dir, p)), 0o755)
			os.WriteFile(filepath.Join(dir, p), []byte(c), 0o644)
		}
		for p, c := range extra {
			os.MkdirAll(filepath.Dir(filepath.Join(dir, p)), 0o755)
			os.WriteFile(filepath.Join(dir, p), []byte(c), 0o644)
		}
	}
	co := func(name, val string) string { return fmt.Sprintf(`{"compilerOptions": {%q: %s}}`, name, val) }
	n, differing := 0, 0
	for si, s := range settings {
		type shape struct {
			name   string
			files  map[string]string
			expect string // the value that must be in effect ("" = unset)
		}
		shapes := []shape{
			{"single-base", map[string]string{"tsconfig.json": `{"extends": "./base_a.json"}`, "base_a.json": co(s.name, s.a)}, s.a},
			{"array-last-wins", map[string]string{"tsconfig.json": `{"extends": ["./base_a.json", "./base_b.json"]}`, "base_a.json": co(s.name, s.a), "base_b.json": co(s.name, s.b)}, s.b},
			{"array-last-wins-reversed", map[string]string{"tsconfig.json": `{"extends": ["./base_b.json", "./base_a.json"]}`, "base_a.json": co(s.name, s.a), "base_b.json": co(s.name, s.b)}, s.a},
			{"array-only-first-sets", map[string]string{"tsconfig.json": `{"extends": ["./base_a.json", "./base_e.json"]}`, "base_a.json": co(s.name, s.a), "base_e.json": `{"compilerOptions": {}}`}, s.a},
			{"array-three", map[string]string{"tsconfig.json": `{"extends": ["./base_a.json", "./base_b.json", "./base_e.json"]}`, "base_a.json": co(s.name, s.a), "base_b.json": co(s.name, s.b), "base_e.json": `{}`}, s.b},
			{"own-value-wins", map[string]string{"tsconfig.json": fmt.Sprintf(`{"extends": ["./base_a.json", "./base_a2.json"], "compilerOptions": {%q: %s}}`, s.name, s.b), "base_a.json": co(s.name, s.a), "base_a2.json": co(s.name, s.a)}, s.b},
			{"nested-chain", map[string]string{"tsconfig.json": `{"extends": "./cfg/mid.json"}`, "cfg/mid.json": `{"extends": ["./deep_a.json", "../base_b.json"]}`, "cfg/deep_a.json": co(s.name, s.a), "base_b.json": co(s.name, s.b)}, s.b},
			{"nested-array-in-base", map[string]string{"tsconfig.json": `{"extends": ["./cfg/mid.json", "./base_e.json"]}`, "cfg/mid.json": `{"extends": ["../base_b.json", "./deep_a.json"]}`, "cfg/deep_a.json": co(s.name, s.a), "base_b.json": co(s.name, s.b), "base_e.json": `{}`}, s.a},
		}
		// the two flattened references
		flat := map[string]string{}
		for _, v := range []string{s.a, s.b} {
			d := filepath.Join(root, fmt.Sprint("flat", si, len(flat)))
			write(d, map[string]string{"tsconfig.json": co(s.name, v)})
			out, ok := compile(d, "")
			if !ok {
				out = "ERROR: " + out
			}
			flat[v] = out
		}
		if flat[s.a] != flat[s.b] {
			differing++
		}
		for hi, sh := range shapes {
			d := filepath.Join(root, fmt.Sprint("p", si, "_", hi))
			write(d, sh.files)
			out, ok := compile(d, "")
			if !ok {
				out = "ERROR: " + out
			}
			n++
			if flat[s.a] != flat[s.b] {
				r.Nontrivial(fmt.Sprint("tsconfig", s.name, sh.name))
			}
			if out != flat[sh.expect] {
				other := s.a
				if sh.expect == s.a {
					other = s.b
				}
				how := "neither of the two values"
				if out == flat[other] {
					how = fmt.Sprintf("the other value (%s)", other)
				}
				r.Violation("ts:tsconfig-extends:"+s.name+":"+sh.name, fmt.Sprintf("tsconfig %s through %s: TypeScript puts %s in effect, esbuild compiles as with %s", s.name, sh.name, sh.expect, how),
					map[string]interface{}{"setting": s.name, "shape": sh.name, "files": sh.files, "entry": entry, "output": out, "expected_output": flat[sh.expect]})
			}
		}
	}
	r.Count("tsconfig_extends_projects", n)
	r.Count("tsconfig_settings_that_change_the_output", differing)
	if differing < 5 {
		r.Inconclusive(fmt.Sprintf("only %d tsconfig settings changed the output of the probe project", differing))
	}
}

func firstErrMsg(m []api.Message) string {
	if len(m) == 0 {
		return ""
	}
	return m[0].Text
}
