package main

// Deterministic PRNG (splitmix64); all random choices derive from VERIF_SEED.
type Rng struct{ s uint64 }

func newRng(seed uint64, stream string) *Rng {
	return &Rng{s: seed*0x9e3779b97f4a7c15 ^ hash64(stream)}
}

func (r *Rng) U64() uint64 {
	r.s += 0x9e3779b97f4a7c15
	z := r.s
	z = (z ^ (z >> 30)) * 0xbf58476d1ce4e5b9
	z = (z ^ (z >> 27)) * 0x94d049bb133111eb
	return z ^ (z >> 31)
}
func (r *Rng) Intn(n int) int {
	if n <= 0 {
		return 0
	}
	return int(r.U64() % uint64(n))
}
func (r *Rng) Bool() bool              { return r.U64()&1 == 1 }
func (r *Rng) Chance(p float64) bool   { return float64(r.U64()>>11)/float64(1<<53) < p }
func (r *Rng) Pick(xs []string) string { return xs[r.Intn(len(xs))] }
func (r *Rng) Fork(stream string) *Rng { return &Rng{s: r.U64() ^ hash64(stream)} }
func (r *Rng) Shuffle(n int, swap func(i, j int)) {
	for i := n - 1; i > 0; i-- {
		j := r.Intn(i + 1)
		swap(i, j)
	}
}
