package main

import (
	"fmt"
	"os"
	"sync"
	"sync/atomic"
	"time"

	"github.com/evanw/esbuild/pkg/api"
)

func init() { registry["GEN"] = debugGen }

// GEN: generator self-check (not a property check): every generated program must be accepted by both
// reference parsers and must terminate in the probe host with a non-empty trace.
func debugGen(r *Run) {
	pool := r.Pool()
	n := r.pick(2000, 20000)
	var bad, empty, syn, events int64
	parallel(n, pool.Size(), func(i int) {
		rng := newRng(r.Seed, fmt.Sprint("gen", i))
		g := newProgen(rng, progenOpts{Layout: i%2 == 0})
		src := g.Program(10 + rng.Intn(20))
		if i == 0 && os.Getenv("VERIF_SHOW") != "" {
			fmt.Println(src)
		}
		res, err := pool.Exec(progScript(src))
		if err != nil {
			atomic.AddInt64(&bad, 1)
			return
		}
		r.Eval(1)
		atomic.AddInt64(&events, int64(len(res.Trace)))
		if len(res.Term) >= 6 && res.Term[:6] == "syntax" {
			if atomic.AddInt64(&syn, 1) <= 5 {
				fmt.Printf("SYNTAX %s\n%s\n", res.Term, src)
			}
		} else if len(res.Trace) == 0 {
			atomic.AddInt64(&empty, 1)
		} else {
			r.Nontrivial(src)
		}
		if res.Term != "ok" {
			r.Count("term_"+trunc(res.Term, 30), 1)
		}
	})
	r.Rule("generator self-check")
	r.Sample("n/a")
	fmt.Printf("programs=%d oracle_errors=%d syntax_errors=%d empty_traces=%d events=%d\n", n, bad, syn, empty, events)
}

func init() { registry["GENTAB"] = debugTab }

// GENTAB: every exprtab case must be accepted by V8 on its own.
func debugTab(r *Run) {
	pool := r.Pool()
	cases := exprtabMinify(func(int) bool { return true })
	cases = append(cases, exprtabPrint(func() bool { return true })...)
	cases = append(cases, litgenCases(newRng(1, "lit"), true)...)
	var bad int64
	parallel(len(cases), pool.Size(), func(i int) {
		pr, err := pool.Parse("\"use strict\";"+packSource([]packCase{cases[i]}), "script", 0, "v8")
		if err == nil && pr.V8 != nil && !pr.V8.OK {
			if atomic.AddInt64(&bad, 1) < 40 {
				fmt.Printf("BAD %s: %s: %s\n", pr.V8.Err, cases[i].Sig, trunc(cases[i].Body, 300))
			}
		}
	})
	fmt.Printf("cases=%d bad=%d\n", len(cases), bad)
	os.Exit(0)
}

func init() { registry["GENFEAT"] = debugFeat }

func debugFeat(r *Run) {
	pool := r.Pool()
	cases := featgenCases()
	bad := 0
	for _, c := range cases {
		res, err := pool.Exec(progScript(featSource([]packCase{c})))
		if err != nil || len(res.Term) >= 6 && res.Term[:6] == "syntax" {
			bad++
			fmt.Printf("BAD %v %s: %s\n", err, res.Term, trunc(c.Body, 200))
		}
	}
	fmt.Printf("feat cases=%d bad=%d\n", len(cases), bad)
	os.Exit(0)
}

func init() { registry["C20DBG"] = c20dbg }

func c20dbg(r *Run) {
	bad := 0
	for i := 0; i < 300; i++ {
		var endT, dispT int64
		body := "export const a = 1"
		plugin := api.Plugin{Name: "p", Setup: func(b api.PluginBuild) {
			b.OnResolve(api.OnResolveOptions{Filter: "^virtual:"}, func(a api.OnResolveArgs) (api.OnResolveResult, error) {
				return api.OnResolveResult{Path: a.Path, Namespace: "s"}, nil
			})
			b.OnLoad(api.OnLoadOptions{Filter: ".*", Namespace: "s"}, func(a api.OnLoadArgs) (api.OnLoadResult, error) {
				time.Sleep(3 * time.Millisecond)
				return api.OnLoadResult{Contents: &body}, nil
			})
			b.OnEnd(func(res *api.BuildResult) (api.OnEndResult, error) {
				time.Sleep(time.Millisecond)
				atomic.StoreInt64(&endT, time.Now().UnixNano())
				return api.OnEndResult{}, nil
			})
		}}
		ctx, _ := api.Context(api.BuildOptions{EntryPoints: []string{"virtual:e"}, Bundle: true, Write: false, Plugins: []api.Plugin{plugin}, LogLevel: api.LogLevelSilent})
		done := make(chan struct{})
		go func() { ctx.Rebuild(); close(done) }()
		time.Sleep(time.Duration(i%5) * 500 * time.Microsecond)
		go ctx.Cancel()
		ctx.Dispose()
		atomic.StoreInt64(&dispT, time.Now().UnixNano())
		<-done
		time.Sleep(3 * time.Millisecond)
		e := atomic.LoadInt64(&endT)
		if e != 0 && e > dispT {
			bad++
			fmt.Printf("iteration %d: Dispose returned %d us before the build's on-end callback finished\n", i, (e-dispT)/1000)
		}
	}
	fmt.Println("bad", bad)
	os.Exit(0)
}

func init() { registry["C15GEN"] = c15GenDebug }

// C15GEN: generator self-check: how many scopegen programs does the reference engine accept, and why not
func c15GenDebug(r *Run) {
	pool := r.Pool()
	reasons := map[string]int{}
	var mu sync.Mutex
	n := 600
	ok := 0
	parallel(n, pool.Size(), func(i int) {
		rng := newRng(r.Seed, fmt.Sprint("c15prog", i))
		sloppy := i%3 != 0
		module := !sloppy && i%6 == 0
		g := newScopegen(rng, sgOpts{Sloppy: sloppy, Module: module, MaxDepth: 3 + rng.Intn(4)})
		src := g.Program()
		if !sloppy && !module {
			src = "\"use strict\";\n" + src
		}
		goal := "script"
		if module {
			goal = "module"
		}
		pr, err := pool.Parse(src, goal, 0, "v8")
		mu.Lock()
		defer mu.Unlock()
		if err != nil || pr.V8 == nil {
			reasons["oracle"]++
			return
		}
		if pr.V8.OK {
			ok++
			return
		}
		reasons[fmt.Sprintf("%s sloppy=%v", pr.V8.Err, sloppy)]++
		if os.Getenv("VERIF_ALL") != "" && reasons[fmt.Sprintf("%s sloppy=%v", pr.V8.Err, sloppy)] == 1 {
			os.WriteFile(fmt.Sprintf("/tmp/c15gen-%d.js", i), []byte(src), 0o644)
			fmt.Printf("  sample /tmp/c15gen-%d.js: %s\n", i, pr.V8.Err)
		}
	})
	r.Eval(n)
	fmt.Printf("accepted %d of %d\n", ok, n)
	for k, v := range reasons {
		fmt.Printf("  %4d %s\n", v, k)
	}
}

func init() { registry["C12ONE"] = c12One }

// C12ONE: evaluate the sheet pair of one replay file (VERIF_REPLAY) in Chrome and print every differing value
func c12One(r *Run) {
	var doc struct {
		Case map[string]interface{} `json:"case"`
	}
	if err := readJSON(os.Getenv("VERIF_REPLAY"), &doc); err != nil {
		fmt.Println(err)
		return
	}
	a, _ := doc.Case["input"].(string)
	if a == "" {
		a, _ = doc.Case["reference_inlining"].(string)
	}
	b, _ := doc.Case["output"].(string)
	scratch, _ := os.MkdirTemp("/tmp", "verif-c12one-")
	defer os.RemoveAll(scratch)
	res, err := runChrome(chromePath(), scratch, 0, []chromeCase{{ID: 0, A: a, B: b, Dom: cssDOM, Widths: []int{320, 700, 1100}, AllDiffs: true}})
	if err != nil {
		fmt.Println(err)
		return
	}
	for _, cr := range res {
		for _, d := range cr.Diffs {
			fmt.Printf("  width %d  %-8s %-28s %q -> %q\n", d.Width, d.El, d.Prop, d.A, d.B)
		}
	}
}
