package main

import (
	"bufio"
	"encoding/json"
	"errors"
	"fmt"
	"io"
	"os"
	"os/exec"
	"path/filepath"
	"runtime"
	"sync"
	"time"
)

// Pool of persistent Node oracle workers speaking NDJSON over pipes.
type Pool struct {
	idle    chan *worker
	all     []*worker
	n       int
	closed  bool
	mu      sync.Mutex
	nextID  int64
	Calls   int64
	Crashes int64
}

type worker struct {
	cmd   *exec.Cmd
	in    io.WriteCloser
	out   *bufio.Reader
	dead  bool
	calls int
}

func nodeArgs() []string {
	return []string{"--expose-internals", "--experimental-vm-modules", "--no-warnings", "--stack-size=4000", filepath.Join(verifRoot(), "oracle", "worker.js")}
}

func startWorker() (*worker, error) {
	cmd := exec.Command("node", nodeArgs()...)
	cmd.Stderr = os.Stderr
	in, err := cmd.StdinPipe()
	if err != nil {
		return nil, err
	}
	out, err := cmd.StdoutPipe()
	if err != nil {
		return nil, err
	}
	if err := cmd.Start(); err != nil {
		return nil, err
	}
	return &worker{cmd: cmd, in: in, out: bufio.NewReaderSize(out, 1<<20)}, nil
}

func newPool(n int) *Pool {
	if n <= 0 {
		n = runtime.NumCPU()
		if n > 16 {
			n = 16
		}
	}
	p := &Pool{idle: make(chan *worker, n), n: n}
	for i := 0; i < n; i++ {
		w, err := startWorker()
		if err != nil {
			fmt.Fprintf(os.Stderr, "cannot start node worker: %v\n", err)
			os.Exit(3)
		}
		p.all = append(p.all, w)
		p.idle <- w
	}
	return p
}

func (p *Pool) Size() int { return p.n }

func (w *worker) kill() {
	w.dead = true
	w.in.Close()
	if w.cmd.Process != nil {
		w.cmd.Process.Kill()
	}
	w.cmd.Wait()
}

var errWorkerTimeout = errors.New("oracle worker timeout")

// Call sends one request (a JSON object; "id" is filled in) and decodes the response into out.
func (p *Pool) Call(req map[string]interface{}, out interface{}) error {
	return p.CallTimeout(req, out, 180*time.Second)
}

func (p *Pool) CallTimeout(req map[string]interface{}, out interface{}, timeout time.Duration) error {
	w := <-p.idle
	p.mu.Lock()
	p.nextID++
	id := p.nextID
	p.Calls++
	p.mu.Unlock()
	req["id"] = id
	body, err := json.Marshal(req)
	if err != nil {
		p.idle <- w
		return err
	}
	type rres struct {
		line []byte
		err  error
	}
	ch := make(chan rres, 1)
	go func() {
		if _, err := w.in.Write(append(body, '\n')); err != nil {
			ch <- rres{nil, err}
			return
		}
		line, err := w.out.ReadBytes('\n')
		ch <- rres{line, err}
	}()
	var res rres
	select {
	case res = <-ch:
	case <-time.After(timeout):
		w.kill()
		res = rres{nil, errWorkerTimeout}
	}
	if res.err != nil {
		if !w.dead {
			w.kill()
		}
		p.mu.Lock()
		p.Crashes++
		p.mu.Unlock()
		nw, err2 := startWorker()
		if err2 != nil {
			fmt.Fprintf(os.Stderr, "cannot restart node worker: %v\n", err2)
			os.Exit(3)
		}
		p.mu.Lock()
		p.all = append(p.all, nw)
		p.mu.Unlock()
		p.idle <- nw
		return fmt.Errorf("oracle worker failed: %w", res.err)
	}
	w.calls++
	p.idle <- w
	var probe struct {
		Error string `json:"error"`
	}
	json.Unmarshal(res.line, &probe)
	if probe.Error != "" {
		return errors.New("oracle error: " + probe.Error)
	}
	if out != nil {
		return json.Unmarshal(res.line, out)
	}
	return nil
}

func (p *Pool) Close() {
	p.mu.Lock()
	if p.closed {
		p.mu.Unlock()
		return
	}
	p.closed = true
	all := p.all
	p.mu.Unlock()
	for _, w := range all {
		if !w.dead {
			w.kill()
		}
	}
}

// parallel runs f(i) for i in [0,n) on k goroutines.
func parallel(n, k int, f func(i int)) {
	if k <= 0 {
		k = runtime.NumCPU()
	}
	var wg sync.WaitGroup
	ch := make(chan int, k)
	for g := 0; g < k; g++ {
		wg.Add(1)
		go func() {
			defer wg.Done()
			for i := range ch {
				f(i)
			}
		}()
	}
	for i := 0; i < n; i++ {
		ch <- i
	}
	close(ch)
	wg.Wait()
}
