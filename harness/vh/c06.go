package main

import (
	"os"
	"fmt"
	"regexp"
	"strings"
	"sync/atomic"

	"github.com/evanw/esbuild/pkg/api"
)

func init() { registry["C06"] = checkC06; replayers["C06"] = replayC06 }

type c06Opt struct {
	name string
	o    api.TransformOptions
}

func c06Opts() []c06Opt {
	return []c06Opt{
		{"default", api.TransformOptions{}},
		{"minify-syntax", api.TransformOptions{MinifySyntax: true}},
		{"minify", api.TransformOptions{MinifySyntax: true, MinifyWhitespace: true, MinifyIdentifiers: true}},
		{"es2017", api.TransformOptions{Target: api.ES2017}},
		{"esm", api.TransformOptions{Format: api.FormatESModule}},
		{"cjs,keep-names", api.TransformOptions{Format: api.FormatCommonJS, KeepNames: true}},
	}
}

type c06Stats struct {
	units, programs, pairs, typedKinds, jsTsPairs, runtimeCases, runtimeRuns, events, rejectedBoth, rejectedTypedOnly int64
}

func c06Compile(src string, loader api.Loader, o api.TransformOptions, tsconfig string) (string, []string, string) {
	o.Loader = loader
	o.TsconfigRaw = tsconfig
	res, pan := transformSafe(src, o)
	if pan != "" {
		return "", nil, pan
	}
	return string(res.Code), msgTexts(res.Errors), ""
}

// erasure: typed and untyped units compile to the same bytes
func c06Erase(r *Run, st *c06Stats, units []tsUnit, tsx bool, opt c06Opt, tsconfig string, depth int) {
	var pb, tb strings.Builder
	for _, u := range units {
		pb.WriteString(u.Plain)
		pb.WriteByte('\n')
		tb.WriteString(u.Typed)
		tb.WriteByte('\n')
	}
	loader := api.LoaderTS
	lname := "ts"
	if tsx {
		loader, lname = api.LoaderTSX, "tsx"
	}
	plain, typed := pb.String(), tb.String()
	outP, errP, panP := c06Compile(plain, loader, opt.o, tsconfig)
	outT, errT, panT := c06Compile(typed, loader, opt.o, tsconfig)
	atomic.AddInt64(&st.pairs, 1)
	if panP != "" || panT != "" {
		r.Violation("erase:panic", "esbuild panicked: "+panP+panT, map[string]interface{}{"plain": plain, "typed": typed, "loader": lname, "options": opt.name})
		return
	}
	if len(errP) > 0 && len(errT) > 0 {
		atomic.AddInt64(&st.rejectedBoth, 1)
		if len(units) > 1 {
			for _, u := range units {
				c06Erase(r, st, []tsUnit{u}, tsx, opt, tsconfig, depth+1)
			}
		}
		return
	}
	if len(errP) == 0 && len(errT) == 0 && outP == outT {
		return
	}
	if len(units) > 1 {
		// narrow to single units
		for _, u := range units {
			c06Erase(r, st, []tsUnit{u}, tsx, opt, tsconfig, depth+1)
		}
		return
	}
	u := units[0]
	replay := map[string]interface{}{"plain": u.Plain, "typed": u.Typed, "kinds": u.Kinds, "loader": lname, "options": opt.name, "tsconfig": tsconfig}
	kinds := strings.Join(u.Kinds, "+")
	switch {
	case len(errT) > 0:
		atomic.AddInt64(&st.rejectedTypedOnly, 1)
		replay["errors"] = errT
		r.Violation("erase:typed-rejected:"+lname+":"+kinds+":"+normErr(errT[0]), fmt.Sprintf("esbuild accepts the untyped program but rejects the typed one (%s, %s): %s\n    typed: %s", lname, opt.name, errT[0], trunc(u.Typed, 400)), replay)
	case len(errP) > 0:
		replay["errors"] = errP
		r.Violation("erase:untyped-rejected:"+lname+":"+kinds+":"+normErr(errP[0]), fmt.Sprintf("esbuild accepts the typed program but rejects its untyped counterpart (%s, %s): %s\n    plain: %s", lname, opt.name, errP[0], trunc(u.Plain, 400)), replay)
	case opt.o.MinifyIdentifiers && (c06AlphaEqual(r, outP, outT, opt.o.Format) || c06EqualWithoutRenaming(plain, typed, loader, opt.o, tsconfig)):
		// same code up to a consistent renaming: the minifier picks names by character frequency of the source text, which includes the type annotations
		replay["out_plain"], replay["out_typed"] = outP, outT
		r.Violation("erase:minified-names-differ", fmt.Sprintf("typed and untyped versions get different minified identifier names (%s, %s)\n    plain: %s\n    typed: %s\n    out(plain): %s\n    out(typed): %s", lname, opt.name, trunc(u.Plain, 200), trunc(u.Typed, 300), trunc(outP, 200), trunc(outT, 200)), replay)
	default:
		replay["out_plain"], replay["out_typed"] = outP, outT
		r.Violation("erase:output-differs:"+lname+":"+kinds, fmt.Sprintf("typed and untyped versions compile to different code (%s, %s)\n    plain: %s\n    typed: %s\n    out(plain): %s\n    out(typed): %s", lname, opt.name, trunc(u.Plain, 300), trunc(u.Typed, 400), trunc(outP, 300), trunc(outT, 300)), replay)
	}
}

func checkC06(r *Run) {
	pool := r.Pool()
	r.Rule("(a) erasure: programs of independent units printed twice — plain JavaScript and with type-level syntax from the TypeScript grammar inserted at every legal site (annotations, generics, casts, as/satisfies/!, modifiers, overloads, declare, interface/type/abstract, this-parameters, type arguments, arrow return types in conditionals) — compiled under the ts and tsx loaders × 6 option sets: Code must be byte-identical; " +
		"(b) generated JavaScript programs compiled under the js and ts loaders: byte-identical; (c) TypeScript-only runtime constructs (enums incl. const/merged/cross-module, namespaces incl. nested/merged/nested enums, parameter properties, class fields under useDefineForClassFields on/off selected by tsconfig) executed against the generator's reference JavaScript. " +
		"non-trivial = distinct typed unit containing ≥1 type-syntax kind, or runtime case whose reference run produced events")
	r.Assume("reference meaning of TypeScript-only constructs = the generator's desugaring written from the TypeScript language definition (no TypeScript compiler exists offline); V8 executes both sides")
	r.Assume("erasure relation as stated by the property: typed and untyped programs compile to the same bytes; unused-import elision is avoided by construction (no imports in erasure units)")
	var st c06Stats
	opts := c06Opts()
	kindsSeen := map[string]int{}
	var kmu = make(chan struct{}, 1)
	kmu <- struct{}{}

	// (a) erasure
	nprog := r.pick(4000, 60000)
	if os.Getenv("VERIF_C06_PART") == "jsts" {
		nprog = 0 // development: only the js-vs-ts section
	}
	parallel(nprog, 0, func(i int) {
		rng := newRng(r.Seed, fmt.Sprint("c06erase", i))
		tsx := i%4 == 3
		g := newTsgen(rng, tsx)
		n := 4 + rng.Intn(8)
		var units []tsUnit
		for j := 0; j < n; j++ {
			u := g.Unit()
			units = append(units, u)
			if len(u.Kinds) > 0 {
				r.Nontrivial(u.Typed)
			}
		}
		<-kmu
		for _, u := range units {
			for _, k := range u.Kinds {
				kindsSeen[k]++
			}
		}
		kmu <- struct{}{}
		atomic.AddInt64(&st.units, int64(len(units)))
		atomic.AddInt64(&st.programs, 1)
		if i < 2 {
			r.Sample(map[string]interface{}{"kind": "erasure unit", "plain": units[0].Plain, "typed": units[0].Typed, "kinds": units[0].Kinds})
		}
		k := 2
		if !r.quick() {
			k = len(opts)
		}
		for j := 0; j < k; j++ {
			opt := opts[(i+j*5)%len(opts)]
			tsconfig := ""
			if (i+j)%5 == 0 {
				tsconfig = `{"compilerOptions": {"verbatimModuleSyntax": true, "useDefineForClassFields": false, "experimentalDecorators": true}}`
			}
			r.Eval(1)
			c06Erase(r, &st, units, tsx, opt, tsconfig, 0)
		}
	})

	c06Tsconfig(r)
	// (d) imports whose bindings are only used as types, under the tsconfig settings that govern their elision.
	// TypeScript: by default ("remove") the statement disappears; with importsNotUsedAsValues "preserve" or "error"
	// (error = preserve + a type-checker diagnostic) it stays as a side-effect import; `import type` always disappears.
	{
		type shape struct{ typed, keptAs, removedAs string }
		use := "let x: T = 1 as any; $(x);\n"
		shapes := []shape{
			{"import {T} from './side';\n" + use, "import './side';\nlet x = 1; $(x);\n", "let x = 1; $(x);\n"},
			{"import T from './side';\n" + use, "import './side';\nlet x = 1; $(x);\n", "let x = 1; $(x);\n"},
			{"import * as N from './side';\nlet x: N.T = 1 as any; $(x);\n", "import './side';\nlet x = 1; $(x);\n", "let x = 1; $(x);\n"},
			{"import D, {T} from './side';\nlet y: D | T = 1 as any; $(y);\n", "import './side';\nlet y = 1; $(y);\n", "let y = 1; $(y);\n"},
			{"import {T, v} from './side';\nlet x: T = v; $(x);\n", "import {v} from './side';\nlet x = v; $(x);\n", "import {v} from './side';\nlet x = v; $(x);\n"},
			{"import {u} from './side';\n$(1);\n", "import './side';\n$(1);\n", "$(1);\n"},
			{"import type {T} from './side';\n" + use, "let x = 1; $(x);\n", "let x = 1; $(x);\n"},
			{"import {T} from './side';\nimport {W} from './other';\nfunction f(a: T): W { return a as any; }\n$(f(1));\n", "import './side';\nimport './other';\nfunction f(a) { return a; }\n$(f(1));\n", "function f(a) { return a; }\n$(f(1));\n"},
		}
		cfg := func(v string) string {
			if v == "" {
				return ""
			}
			return `{"compilerOptions": {"importsNotUsedAsValues": "` + v + `"}}`
		}
		for si, sh := range shapes {
			for _, opt := range opts {
				// minified names depend on the character frequency of the (typed) source text: a listed finding, not the subject here
				opt.o.MinifyIdentifiers = false
				outs := map[string]string{}
				for _, mode := range []string{"", "remove", "preserve", "error"} {
					out, errs, pan := c06Compile(sh.typed, api.LoaderTS, opt.o, cfg(mode))
					r.Eval(1)
					atomic.AddInt64(&st.pairs, 1)
					if pan != "" || len(errs) > 0 {
						outs[mode] = "<error: " + pan + strings.Join(errs, "; ") + ">"
						continue
					}
					outs[mode] = out
				}
				refKept, _, _ := c06Compile(sh.keptAs, api.LoaderTS, opt.o, "")
				refRemoved, _, _ := c06Compile(sh.removedAs, api.LoaderTS, opt.o, "")
				r.Nontrivial(fmt.Sprint("type-only-import", si, opt.name))
				replay := map[string]interface{}{"typed": sh.typed, "options": opt.name, "outputs_by_importsNotUsedAsValues": outs, "reference_when_kept": refKept, "reference_when_removed": refRemoved}
				if outs["error"] != outs["preserve"] {
					r.Violation(fmt.Sprint("erase:type-only-import:error-differs-from-preserve:shape", si), fmt.Sprintf("importsNotUsedAsValues \"error\" and \"preserve\" emit different code for %q (%s)", sh.typed, opt.name), replay)
				}
				// (a kept namespace import converted to CommonJS keeps its local name — `var N = require(…)` instead of the
				// generated `import_side` — an unobservable naming difference, so byte equality is not demanded there)
				if outs["preserve"] != refKept && !(strings.Contains(sh.typed, "* as") && opt.o.Format == api.FormatCommonJS) {
					r.Violation(fmt.Sprint("erase:type-only-import:preserve:shape", si), fmt.Sprintf("importsNotUsedAsValues \"preserve\": %q does not compile to the code of its untyped counterpart with the import statement kept (%s)", sh.typed, opt.name), replay)
				}
				for _, mode := range []string{"", "remove"} {
					if outs[mode] != refRemoved {
						r.Violation(fmt.Sprint("erase:type-only-import:remove:shape", si), fmt.Sprintf("importsNotUsedAsValues %q: %q does not compile to the code of its untyped counterpart without the import (%s)", mode, sh.typed, opt.name), replay)
					}
				}
			}
		}
		r.Count("type_only_import_shapes", len(shapes))
	}

	// (b) js == ts for generated JavaScript
	njs := r.pick(1500, 30000)
	parallel(njs, 0, func(i int) {
		rng := newRng(r.Seed, fmt.Sprint("c06jsts", i))
		g := newProgen(rng, progenOpts{Layout: i%3 == 0})
		src := g.Program(6 + rng.Intn(16))
		opt := opts[i%len(opts)]
		outJ, errJ, panJ := c06Compile(src, api.LoaderJS, opt.o, "")
		outT, errT, panT := c06Compile(src, api.LoaderTS, opt.o, "")
		r.Eval(1)
		atomic.AddInt64(&st.jsTsPairs, 1)
		if panJ != "" || panT != "" {
			r.Violation("js-ts:panic", "esbuild panicked: "+panJ+panT, map[string]interface{}{"input": src, "options": opt.name})
			return
		}
		if len(errJ) > 0 {
			return
		}
		if len(errT) > 0 {
			r.Violation("js-ts:ts-rejects-valid-js:"+normErr(errT[0]), fmt.Sprintf("a JavaScript program accepted under the js loader is rejected under the ts loader (%s): %s", opt.name, errT[0]), map[string]interface{}{"input": src, "options": opt.name, "errors": errT})
			return
		}
		if outJ != outT && c06AngleCallRe.MatchString(src) {
			// `a < b > (c)` is two comparisons in JavaScript and a call with type arguments in TypeScript: a difference between
			// the languages that the property excludes
			r.Count("js_vs_ts_pairs_with_a<b>(c)_ambiguity(skipped)", 1)
			return
		}
		if outJ != outT {
			a, b := firstLineDiff(outJ, outT)
			r.Violation("js-ts:output-differs:"+normErr(trunc(a, 60)), fmt.Sprintf("the same JavaScript program compiles differently under the js and ts loaders (%s): js: %s | ts: %s", opt.name, trunc(a, 200), trunc(b, 200)), map[string]interface{}{"input": src, "options": opt.name, "out_js": outJ, "out_ts": outT})
		}
	})

	// (c) runtime constructs
	nrt := r.pick(4000, 60000)
	if os.Getenv("VERIF_C06_PART") == "jsts" {
		nrt = 0
	}
	parallel(nrt, pool.Size(), func(i int) {
		rng := newRng(r.Seed, fmt.Sprint("c06rt", i))
		g := &tsrun{rng: rng}
		var c tsCase
		switch i % 7 {
		case 0:
			c = g.EnumCase()
		case 1:
			if (i/7)%4 == 0 {
				c = g.EnumMergeCase()
			} else {
				c = g.EnumCase()
			}
		case 2:
			c = g.NamespaceCase()
		case 3:
			c = g.ClassCase()
		case 4:
			c = g.DecoratorCase()
		case 5:
			c = g.ImportEqualsCase()
		default:
			c = g.EnumCase()
		}
		if i < 3 {
			r.Sample(map[string]interface{}{"kind": c.Kind, "desc": c.Desc, "ts": trunc(c.TS["/main.ts"], 500)})
		}
		c06Runtime(r, pool, &st, c, rng)
	})

	r.Count("erasure_programs", int(st.programs))
	r.Count("erasure_units", int(st.units))
	r.Count("erasure_pairs_compiled", int(st.pairs))
	r.Count("erasure_pairs_rejected_on_both_sides(narrowed to units)", int(st.rejectedBoth))
	r.Count("type_syntax_kinds_seen", len(kindsSeen))
	r.Extra("type_syntax_kind_counts", kindsSeen)
	r.Count("js_vs_ts_pairs", int(st.jsTsPairs))
	r.Count("runtime_cases", int(st.runtimeCases))
	r.Count("runtime_variant_runs", int(st.runtimeRuns))
	r.Count("probe_events_ref", int(st.events))
	if st.pairs < int64(nprog) || len(kindsSeen) < 25 || st.runtimeRuns < int64(nrt) || st.events == 0 {
		r.Inconclusive("too few erasure pairs, type-syntax kinds or runtime runs were observed")
	}
}

// with identifier minification off, are the two outputs identical? (then only the chosen names differ; names also decide
// whether a destructuring property can be printed as shorthand, so the token streams need not be alpha-equivalent)
func c06EqualWithoutRenaming(plain, typed string, loader api.Loader, o api.TransformOptions, tsconfig string) bool {
	o.MinifyIdentifiers = false
	a, ea, pa := c06Compile(plain, loader, o, tsconfig)
	b, eb, pb := c06Compile(typed, loader, o, tsconfig)
	return pa == "" && pb == "" && len(ea) == 0 && len(eb) == 0 && a == b
}

func c06AlphaEqual(r *Run, a, b string, f api.Format) bool {
	goal := "script"
	if f == api.FormatESModule {
		goal = "module"
	}
	var res struct {
		Equal bool `json:"equal"`
	}
	if err := r.Pool().Call(map[string]interface{}{"op": "tokalpha", "a": a, "b": b, "goal": goal}, &res); err != nil {
		return false
	}
	return res.Equal
}

// `a < T > (c)` and `a < T > `tpl``, T being anything TypeScript can read as a type argument (a name, a literal, …)
var c06AngleCallRe = regexp.MustCompile("<\\s*(?:\"(?:[^\"\\\\]|\\\\.)*\"|'(?:[^'\\\\]|\\\\.)*'|[^<>;{}()\"']*)\\s*>\\s*[(`]")

func firstLineDiff(a, b string) (string, string) {
	la, lb := strings.Split(a, "\n"), strings.Split(b, "\n")
	for i := 0; i < len(la) && i < len(lb); i++ {
		if la[i] != lb[i] {
			return la[i], lb[i]
		}
	}
	if len(la) > len(lb) {
		return la[len(lb)], "∅"
	}
	if len(lb) > len(la) {
		return "∅", lb[len(la)]
	}
	return "", ""
}

type c06RtVariant struct {
	name      string
	bundle    bool
	minify    bool
	minifyAll bool
	format    api.Format
	target    api.Target
}

func c06Runtime(r *Run, pool *Pool, st *c06Stats, c tsCase, rng *Rng) {
	atomic.AddInt64(&st.runtimeCases, 1)
	variants := []c06RtVariant{
		{"transform", false, false, false, api.FormatDefault, api.DefaultTarget},
		{"transform,minify-syntax", false, true, false, api.FormatDefault, api.DefaultTarget},
		{"bundle,esm", true, false, false, api.FormatESModule, api.DefaultTarget},
		{"bundle,esm,minify-syntax", true, true, false, api.FormatESModule, api.DefaultTarget},
		{"bundle,esm,minify", true, true, true, api.FormatESModule, api.DefaultTarget},
		{"bundle,iife,minify-syntax,es2019", true, true, false, api.FormatIIFE, api.ES2019},
	}
	multi := len(c.TS) > 1
	// reference
	ref := Prog{Files: map[string]PFile{}, Entry: c.Entry + ".js"}
	isModule := multi || c.Module
	for p, code := range c.JS {
		kind := "script"
		if isModule {
			kind = "esm"
		}
		ref.Files[p] = PFile{Code: code, Kind: kind}
	}
	if isModule {
		ref.Kind = "module"
	} else {
		ref.Kind = "script"
	}
	var outs []Prog
	var names []string
	vs := variants
	if r.quick() {
		a, b := rng.Intn(len(variants)), rng.Intn(len(variants))
		vs = []c06RtVariant{variants[a]}
		if b != a {
			vs = append(vs, variants[b])
		}
	}
	for _, v := range vs {
		if multi && !v.bundle {
			continue
		}
		if c.Kind == "class" && v.target != api.DefaultTarget {
			// lowered class fields run inside the constructor body, after parameter defaults, where native fields run before them:
			// what lowering preserves is C05's subject, so class-field semantics are compared without lowering
			continue
		}
		var code string
		var errs []string
		if v.bundle {
			files := map[string]string{}
			for p, s := range c.TS {
				files[p] = s
			}
			res, pan := buildSafe(api.BuildOptions{EntryPoints: []string{c.Entry + ".ts"}, Bundle: true, Write: false, Outdir: "/out", Format: v.format, Target: v.target, MinifySyntax: v.minify, MinifyWhitespace: v.minifyAll, MinifyIdentifiers: v.minifyAll,
				TsconfigRaw: c.Tsconfig, Plugins: []api.Plugin{memPlugin(files)}, GlobalName: map[bool]string{true: "G", false: ""}[v.format == api.FormatIIFE]})
			if pan != "" {
				r.Violation("ts-runtime:panic", "esbuild panicked: "+pan, map[string]interface{}{"case": c, "variant": v.name})
				continue
			}
			errs = msgTexts(res.Errors)
			for _, f := range res.OutputFiles {
				if strings.HasSuffix(f.Path, ".js") {
					code = string(f.Contents)
				}
			}
		} else {
			o := api.TransformOptions{MinifySyntax: v.minify, Target: v.target}
			var pan string
			code, errs, pan = c06Compile(c.TS["/main.ts"], api.LoaderTS, o, c.Tsconfig)
			if pan != "" {
				r.Violation("ts-runtime:panic", "esbuild panicked: "+pan, map[string]interface{}{"case": c, "variant": v.name})
				continue
			}
		}
		r.Eval(1)
		if len(errs) > 0 {
			r.Violation("ts-runtime:"+c.Kind+":rejected:"+normErr(errs[0]), fmt.Sprintf("esbuild rejects a generated %s program (%s): %s", c.Kind, v.name, errs[0]), map[string]interface{}{"case": c, "variant": v.name, "errors": errs})
			continue
		}
		var o Prog
		switch {
		case v.bundle && v.format == api.FormatIIFE:
			o = progScript(code)
		case v.bundle || isModule:
			o = progModule(code)
		default:
			o = progScript(code)
		}
		outs = append(outs, o)
		names = append(names, v.name)
	}
	if len(outs) == 0 {
		return
	}
	res, err := pool.ExecMulti(ref, outs, true)
	if err != nil {
		r.Count("oracle_errors", 1)
		return
	}
	atomic.AddInt64(&st.events, int64(res.RefEvents))
	if res.RefEvents > 0 {
		r.Nontrivial(fmt.Sprint(c.TS))
	}
	if strings.HasPrefix(res.RefTerm, "syntax") || strings.HasPrefix(res.RefTerm, "link") {
		r.Count("reference_programs_invalid(generator defect, skipped)", 1)
		return
	}
	for vi, cmp := range res.Results {
		atomic.AddInt64(&st.runtimeRuns, 1)
		if cmp.Equal || cmp.Inconclusive {
			continue
		}
		d := cmp.Diffs[0]
		r.Violation("ts-runtime:"+c.Kind+":"+firstDiffSig(d), fmt.Sprintf("%s (%s) behaves differently from its TypeScript meaning (term ref=%s out=%s): segment %s ref=%v out=%v", c.Kind, names[vi], cmp.TermA, trunc(cmp.TermB, 100), d.Seg, trunc(fmt.Sprint(d.A), 300), trunc(fmt.Sprint(d.B), 300)),
			map[string]interface{}{"case": c, "variant": names[vi], "output": outs[vi].Files[outs[vi].Entry].Code, "diff": cmp.Diffs})
	}
}

func replayC06(r *Run, path string) {
	var doc struct {
		Case struct {
			Plain    string  `json:"plain"`
			Typed    string  `json:"typed"`
			Loader   string  `json:"loader"`
			Tsconfig string  `json:"tsconfig"`
			Case     *tsCase `json:"case"`
		} `json:"case"`
	}
	if err := readJSON(path, &doc); err != nil {
		r.Inconclusive(err.Error())
		return
	}
	var st c06Stats
	if doc.Case.Case != nil {
		r.Tier = "thorough"
		c06Runtime(r, r.Pool(), &st, *doc.Case.Case, newRng(r.Seed, "replay"))
		return
	}
	if doc.Case.Typed == "" {
		r.Inconclusive("replay file holds neither an erasure unit nor a runtime case")
		return
	}
	for _, opt := range c06Opts() {
		r.Eval(1)
		c06Erase(r, &st, []tsUnit{{Plain: doc.Case.Plain, Typed: doc.Case.Typed, Kinds: []string{"replay"}}}, doc.Case.Loader == "tsx", opt, doc.Case.Tsconfig, 0)
	}
}
