package main

import (
	"fmt"
	"strings"
)

// scopegen: programs made of nothing but scopes, declarations and references, with names drawn from a tiny pool
// (so that the same name is declared in many nested scopes and also used as a free/global name), every declaration
// holding a unique value and every reference reported through the probe host. The names are the ones a
// minifier generates first (e t n r i s o a ...) plus numbered suffixes (x x2 x3).
//
// Not guaranteed valid: the generator tracks redeclaration conflicts approximately; a program the reference engine
// rejects is skipped and counted (sgInvalid). Terminates by construction: a function is only called by the statement
// that follows its declaration, and a global fuel counter bounds accidental recursion through name coincidences.

type sgOpts struct {
	Sloppy   bool // with statements, direct eval, sloppy block-level functions
	Module   bool // top level is a module: export statements are allowed
	NoExport bool
	// TopLexFirst: all top-level let/const/class declarations come first and run no code of their own. Bundlers do not
	// preserve the temporal dead zone of top-level bindings (esbuild turns them into var), so bundle workloads avoid it.
	TopLexFirst bool
	NoEval      bool
	NoWith      bool
	Pool        []string
	MaxDepth    int
}

type sgScope struct {
	kind   string // program | function | block | catch | for | class
	lex    map[string]bool
	vars   map[string]bool // var-like names declared here (function/program) or hoisted through here (blocks)
	params map[string]bool
	parent *sgScope
	strict bool
	// sloppy-mode block-level functions declared here, and names assigned somewhere inside this scope: a block function whose
	// binding is reassigned before its declaration is evaluated copies the new value to the var binding (Annex B.3.3), which
	// esbuild's `let f = function; var f = f` conversion does not reproduce; that is not a naming matter, so it is avoided
	blockFns map[string]bool
	assigned map[string]bool
	started  bool // a statement other than a function declaration (and its call) has been emitted directly in this scope
}

type scopegen struct {
	rng      *Rng
	o        sgOpts
	b        strings.Builder
	u        int // unique values
	k        int // probe ids
	indent   int
	depth    int
	nodes    int
	decls    int
	labels   []string
	export   map[string]bool
	noTopLex bool
}

var sgPoolAll = []string{"e", "t", "n", "r", "i", "s", "o", "a", "l", "c", "u", "d", "x", "x2", "x3", "e2", "t2", "$$", "_"}

func newScopegen(rng *Rng, o sgOpts) *scopegen {
	if len(o.Pool) == 0 {
		n := 3 + rng.Intn(5)
		perm := append([]string{}, sgPoolAll...)
		rng.Shuffle(len(perm), func(i, j int) { perm[i], perm[j] = perm[j], perm[i] })
		// always keep a few of the first minifier names
		o.Pool = append([]string{"e", "t"}, perm[:n]...)
	}
	if o.MaxDepth == 0 {
		o.MaxDepth = 5
	}
	return &scopegen{rng: rng, o: o, u: 1000, export: map[string]bool{}}
}

func (g *scopegen) name() string { return g.rng.Pick(g.o.Pool) }
func (g *scopegen) uniq() int    { g.u++; return g.u }
func (g *scopegen) line(format string, a ...interface{}) {
	g.b.WriteString(strings.Repeat(" ", g.indent*2))
	fmt.Fprintf(&g.b, format, a...)
	g.b.WriteByte('\n')
}

func newSg(kind string, parent *sgScope) *sgScope {
	s := &sgScope{kind: kind, lex: map[string]bool{}, vars: map[string]bool{}, params: map[string]bool{}, parent: parent, blockFns: map[string]bool{}, assigned: map[string]bool{}}
	if parent != nil {
		s.strict = parent.strict
	}
	if kind == "class" {
		s.strict = true
	}
	return s
}

func (s *sgScope) fnScope() *sgScope {
	t := s
	for t.kind != "function" && t.kind != "program" {
		t = t.parent
	}
	return t
}

func (s *sgScope) canLex(n string) bool {
	if s.lex[n] || s.vars[n] || s.params[n] {
		return false
	}
	if s.parent != nil && s.parent.kind == "catch" && s.parent.lex[n] {
		return false
	}
	return true
}

func (s *sgScope) canVar(n string) bool {
	for t := s; t != nil; t = t.parent {
		if t.lex[n] {
			return false
		}
		if t.kind == "function" || t.kind == "program" {
			break
		}
	}
	return true
}

func (s *sgScope) addVar(n string) {
	for t := s; t != nil; t = t.parent {
		t.vars[n] = true
		if t.kind == "function" || t.kind == "program" {
			break
		}
	}
}

// refs: a probe of 1-3 names (bound or free, the generator does not care)
func (g *scopegen) probe() {
	g.k++
	n := 1 + g.rng.Intn(3)
	var names []string
	for i := 0; i < n; i++ {
		names = append(names, g.name())
	}
	switch g.rng.Intn(8) {
	case 0:
		g.line("try { $(%d, {%s}); } catch { $(%d, \"!\"); }", g.k, strings.Join(names, ", "), g.k)
	case 1:
		g.line("try { $(%d, typeof %s, %s); } catch { $(%d, \"!\"); }", g.k, names[0], strings.Join(names, ", "), g.k)
	case 2:
		g.line("try { $(%d, (() => %s)()); } catch { $(%d, \"!\"); }", g.k, names[0], g.k)
	default:
		g.line("try { $(%d, %s); } catch { $(%d, \"!\"); }", g.k, strings.Join(names, ", "), g.k)
	}
}

func (g *scopegen) stmts(s *sgScope, n int) {
	for i := 0; i < n && g.nodes < 260; i++ {
		g.stmt(s)
	}
}

func (g *scopegen) body(s *sgScope) {
	g.indent++
	g.depth++
	n := 1 + g.rng.Intn(4)
	if g.depth >= g.o.MaxDepth {
		n = 1
	}
	g.stmts(s, n)
	g.probe()
	g.depth--
	g.indent--
}

func (g *scopegen) params(fs *sgScope) string {
	n := g.rng.Intn(3)
	var ps []string
	for i := 0; i < n; i++ {
		p := g.name()
		if fs.params[p] {
			continue
		}
		fs.params[p] = true
		switch g.rng.Intn(6) {
		case 0:
			ps = append(ps, fmt.Sprintf("%s = %d", p, g.uniq()))
		case 1:
			q := g.name() // default value closes over another name (resolved in the parameter scope, not in the body)
			ps = append(ps, fmt.Sprintf("%s = (() => { try { return %s; } catch { return \"!\"; } })()", p, q))
		case 2:
			ps = append(ps, fmt.Sprintf("{k: %s = %d}", p, g.uniq()))
			// keep arity positions aligned: destructuring of undefined throws, so give it a default
			ps[len(ps)-1] += " = {}"
		case 3:
			if i == n-1 {
				ps = append(ps, "..."+p)
				continue
			}
			fallthrough
		default:
			ps = append(ps, p)
		}
	}
	return strings.Join(ps, ", ")
}

func (g *scopegen) fuel() { g.line("  if (--$F < 0) throw 0;") }

func (g *scopegen) stmt(s *sgScope) {
	g.nodes++
	deep := g.depth >= g.o.MaxDepth
	choice := g.rng.Intn(30)
	if deep && choice >= 8 {
		choice = g.rng.Intn(8)
	}
	// Sloppy-mode block-level functions come first in their block: Annex B copies the function to the var binding when the
	// declaration is *evaluated*, esbuild's conversion does it at the start of the block; the two agree when nothing can
	// run (assign the name, leave the block) in between. That timing is not a naming matter (see DESIGN.md section 10, C15).
	isBlock := s.kind != "function" && s.kind != "program"
	if isBlock && !s.started && g.o.Sloppy && !s.strict && !deep && g.rng.Intn(3) == 0 {
		choice = 10
	}
	if !(choice >= 10 && choice <= 12) {
		defer func() { s.started = true }()
	}
	switch choice {
	case 0, 1:
		n := g.name()
		if s.canVar(n) {
			s.addVar(n)
			g.decls++
			if g.rng.Intn(5) == 0 {
				g.line("var [%s = %d] = [];", n, g.uniq())
			} else {
				g.line("var %s = %d;", n, g.uniq())
			}
		} else {
			g.probe()
		}
	case 2, 3:
		n := g.name()
		if s.kind == "program" && g.noTopLex {
			g.probe()
			return
		}
		if s.canLex(n) {
			s.lex[n] = true
			g.decls++
			kw := "let"
			if g.rng.Bool() {
				kw = "const"
			}
			if g.rng.Intn(5) == 0 {
				g.line("%s {k: %s = %d} = {};", kw, n, g.uniq())
			} else {
				g.line("%s %s = %d;", kw, n, g.uniq())
			}
		} else {
			g.probe()
		}
	case 4, 5, 6:
		g.probe()
	case 7:
		n := g.name()
		for t := s; t != nil; t = t.parent {
			if t.blockFns[n] {
				g.probe()
				return
			}
			if t.lex[n] || t.params[n] || ((t.kind == "function" || t.kind == "program") && t.vars[n]) {
				break
			}
		}
		for t := s; t != nil; t = t.parent {
			t.assigned[n] = true
		}
		g.line("try { %s = %d; } catch {}", n, g.uniq())
	case 8, 9:
		g.line("{")
		g.body(newSg("block", s))
		g.line("}")
	case 10, 11, 12:
		// function declaration + call
		n := g.name()
		top := s.kind == "function" || s.kind == "program"
		ok := false
		sloppyHere := g.o.Sloppy && !s.strict
		modTop := s.kind == "program" && g.o.Module // function declarations at the top level of a module are lexical
		if modTop {
			ok = s.canLex(n)
		} else if top {
			ok = s.canVar(n) && !s.lex[n]
		} else if sloppyHere {
			ok = s.canLex(n) && s.canVar(n) && !s.assigned[n] && !s.started // keep Annex B hoisting free of conflicts most of the time
		} else {
			ok = s.canLex(n)
		}
		if !ok {
			s.started = true
			g.probe()
			return
		}
		kw := "function"
		if g.rng.Intn(8) == 0 {
			kw = "function*"
		}
		if modTop {
			s.lex[n] = true
		} else if top {
			s.addVar(n)
		} else {
			s.lex[n] = true
			if sloppyHere && kw == "function" {
				s.parent.addVar(n)
				s.blockFns[n] = true
			}
		}
		g.decls++
		fs := newSg("function", s)
		ps := g.params(fs)
		savedLabels := g.labels
		g.labels = nil
		g.line("%s %s(%s) {", kw, n, ps)
		g.fuel()
		if g.rng.Intn(4) == 0 {
			g.line("  try { $(%d, arguments.length, typeof arguments); } catch { }", g.k)
		}
		g.body(fs)
		g.labels = savedLabels
		g.line("}")
		id := g.uniq()
		if kw == "function" {
			g.line("try { %s.$id = %d; %s(%d); } catch (z$) { $(\"call\", %d, typeof z$); }", n, id, n, g.uniq(), id)
		} else {
			g.line("try { %s.$id = %d; [...%s(%d)]; } catch (z$) { $(\"call\", %d, typeof z$); }", n, id, n, g.uniq(), id)
		}
	case 13, 14:
		// class declaration
		n := g.name()
		if !s.canLex(n) || (s.kind == "program" && g.noTopLex) {
			g.probe()
			return
		}
		s.lex[n] = true
		g.decls++
		g.classBody("class "+n, s, n)
		g.line("try { new %s().m(%d); } catch (z$) { $(\"new\", typeof z$); }", n, g.uniq())
	case 15:
		// named function expression, immediately invoked
		n := g.name()
		fs := newSg("function", s)
		ps := g.params(fs)
		g.line("(function %s(%s) {", n, ps)
		g.fuel()
		g.k++
		g.line("  try { $(%d, typeof %s, %s.$id); } catch { $(%d, \"!\"); }", g.k, n, n, g.k)
		savedLabels := g.labels
		g.labels = nil
		g.body(fs)
		g.labels = savedLabels
		g.line("})(%d);", g.uniq())
	case 16:
		fs := newSg("function", s)
		ps := g.params(fs)
		g.line("((%s) => {", ps)
		savedLabels := g.labels
		g.labels = nil
		g.body(fs)
		g.labels = savedLabels
		g.line("})(%d);", g.uniq())
	case 17:
		// class expression with its own inner name
		n, v := g.name(), g.name()
		if !s.canVar(v) {
			g.probe()
			return
		}
		s.addVar(v)
		g.decls++
		g.classBody("var "+v+" = class "+n, s, n)
		g.line("try { new %s().m(%d); } catch (z$) { $(\"new\", typeof z$); }", v, g.uniq())
	case 18:
		n := g.name()
		fs := newSg("for", s)
		if g.rng.Bool() {
			fs.lex[n] = true
			g.decls++
			g.line("for (let %s = %d; %s !== -1; %s = -1) {", n, g.uniq(), n, n)
		} else if s.canVar(n) {
			s.addVar(n)
			g.decls++
			g.line("for (var %s = %d; %s !== -1; %s = -1) {", n, g.uniq(), n, n)
		} else {
			g.line("for (let z$ = 0; z$ < 1; z$++) {")
		}
		g.body(newSg("block", fs))
		g.line("}")
	case 19:
		n := g.name()
		fs := newSg("for", s)
		fs.lex[n] = true
		g.decls++
		switch g.rng.Intn(3) {
		case 0:
			g.line("for (const %s of [%d]) {", n, g.uniq())
		case 1:
			g.line("for (let %s in {k%d: 1}) {", n, g.uniq())
		default:
			g.line("for (const [%s] of [[%d]]) {", n, g.uniq())
		}
		g.body(newSg("block", fs))
		g.line("}")
	case 20, 21:
		n := g.name()
		cs := newSg("catch", s)
		cs.lex[n] = true
		g.decls++
		g.line("try {")
		g.body(newSg("block", s))
		if g.rng.Intn(3) == 0 {
			g.line("  throw {k: %d};", g.uniq())
			g.line("} catch ({k: %s}) {", n)
		} else {
			g.line("  throw %d;", g.uniq())
			g.line("} catch (%s) {", n)
		}
		g.body(newSg("block", cs))
		g.line("}")
	case 22:
		n := g.name()
		bs := newSg("block", s)
		g.line("switch (1) {")
		g.line("  case 1:")
		g.indent++
		if bs.canLex(n) {
			bs.lex[n] = true
			g.decls++
			g.line("  let %s = %d;", n, g.uniq())
		}
		g.body(bs)
		g.indent--
		g.line("}")
	case 23, 24:
		// labels (their own namespace; the minifier renames them too)
		n := g.name()
		for _, l := range g.labels {
			if l == n {
				g.probe()
				return
			}
		}
		g.labels = append(g.labels, n)
		if g.rng.Bool() {
			g.line("%s: {", n)
			g.body(newSg("block", s))
			g.line("  if ($F) break %s;", g.rng.Pick(g.labels))
			g.k++
			g.line("  $(%d, \"unreachable\");", g.k)
			g.line("}")
		} else {
			g.line("%s: for (let z$ = 0; z$ < 2; z$++) {", n)
			g.body(newSg("block", newSg("for", s)))
			g.line("  if (z$ == 0) continue %s;", n)
			g.line("  break %s;", n)
			g.line("}")
		}
		g.labels = g.labels[:len(g.labels)-1]
	case 25:
		if g.o.Sloppy && !s.strict && !g.o.NoWith {
			n := g.name()
			switch form := g.rng.Intn(4); {
			case form == 0 && s.canVar(n):
				// a "var" whose initialiser lands on the object's property: block-less body
				s.addVar(n)
				g.decls++
				g.k++
				k := g.k
				g.line("var w$%d = {%s: %d}; with (w$%d) var %s = %d;", k, n, g.uniq(), k, n, g.uniq())
				g.line("try { $(%d, %s, w$%d.%s); } catch { $(%d, \"!\"); }", k, n, k, n, k)
			case form == 1 && s.canVar(n):
				// the same inside a block body, followed by references inside and outside the with
				s.addVar(n)
				g.decls++
				g.k++
				k := g.k
				g.line("var w$%d = {%s: %d}; with (w$%d) {", k, n, g.uniq(), k)
				g.indent++
				g.line("var %s = %d;", n, g.uniq())
				g.probe()
				g.indent--
				g.line("}")
				g.line("try { $(%d, %s, w$%d.%s); } catch { $(%d, \"!\"); }", k, n, k, n, k)
			default:
				g.line("with ({%s: %d}) {", n, g.uniq())
				g.indent++
				g.probe()
				g.probe()
				if g.rng.Bool() {
					g.line("(function () { try { $(%d, %s); } catch { } })();", g.k, n)
				}
				g.indent--
				g.line("}")
			}
		} else {
			g.probe()
		}
	case 26:
		if g.o.Sloppy && !g.o.NoEval {
			g.k++
			// the names handed to eval are also referenced as plain identifiers in the same statement: a name that is free
			// here is then a free name esbuild can see (and must keep clear of); a name that only ever occurs inside
			// an eval string is invisible to any compiler and outside what the property states
			n, m := g.name(), g.name()
			g.line("try { $(%d, eval(\"%s\"), eval(\"typeof %s\"), typeof %s, typeof %s); } catch { $(%d, \"!\"); }", g.k, n, m, n, m, g.k)
		} else {
			g.probe()
		}
	case 27:
		// object with methods and shorthand: property names must never be renamed
		a, b := g.name(), g.name()
		g.k++
		g.line("try { $(%d, {%s, %s: %d, m(%s) { return %s; }}.m(%d)); } catch { $(%d, \"!\"); }", g.k, a, b, g.uniq(), a, a, g.uniq(), g.k)
	case 28:
		if s.kind == "program" && g.o.Module && !g.o.NoExport && !g.noTopLex {
			n := g.name()
			if s.canLex(n) && !g.export[n] {
				s.lex[n] = true
				g.export[n] = true
				g.decls++
				// exported names are externally observable whatever the shape of the declaration that introduces them
				switch g.rng.Intn(6) {
				case 0:
					g.line("export const {k: %s} = {k: %d};", n, g.uniq())
				case 1:
					g.line("export var [%s = 0] = [%d];", n, g.uniq())
				case 2:
					g.line("export const {a: [, %s]} = {a: [0, %d]};", n, g.uniq())
				case 3:
					n2 := g.name()
					if n2 != n && s.canLex(n2) && !g.export[n2] {
						s.lex[n2] = true
						g.export[n2] = true
						g.decls++
						g.line("export let {k: %s, ...%s} = {k: %d, rest: %d};", n, n2, g.uniq(), g.uniq())
					} else {
						g.line("export let [...%s] = [%d];", n, g.uniq())
					}
				default:
					g.line("export let %s = %d;", n, g.uniq())
				}
				return
			}
		}
		g.probe()
	default:
		g.probe()
	}
}

func (g *scopegen) classBody(head string, s *sgScope, inner string) {
	cs := newSg("class", s)
	cs.lex[inner] = true
	ext := ""
	if g.rng.Intn(5) == 0 {
		ext = " extends (function () { try { return typeof " + g.name() + " === \"function\" ? Object : Object; } catch { return Object; } })()"
	}
	g.line("%s%s {", head, ext)
	g.line("  static $id = %d;", g.uniq())
	priv := g.name()
	if priv == "$$" {
		priv = "p"
	}
	g.line("  #%s = %d;", priv, g.uniq())
	if g.rng.Bool() {
		g.k++
		g.line("  static { try { $(%d, %s, typeof %s); } catch { $(%d, \"!\"); } }", g.k, g.name(), inner, g.k)
	}
	if g.rng.Bool() {
		g.line("  [(() => { try { return \"f\" + typeof %s; } catch { return \"f!\"; } })()] = %d;", g.name(), g.uniq())
	}
	fs := newSg("function", cs)
	ps := g.params(fs)
	g.line("  m(%s) {", ps)
	g.indent++
	g.fuel()
	g.k++
	g.line("  try { $(%d, this.#%s, #%s in this, %s.$id); } catch { $(%d, \"!\"); }", g.k, priv, priv, inner, g.k)
	savedLabels := g.labels
	g.labels = nil
	g.body(fs)
	g.labels = savedLabels
	g.indent--
	g.line("  }")
	g.line("}")
}

// Program returns the text of a script (or module) program.
func (g *scopegen) Program(predeclared ...string) string {
	top := newSg("program", nil)
	for _, n := range predeclared {
		top.lex[n] = true
	}
	if g.o.TopLexFirst {
		for i, k := 0, g.rng.Intn(5); i < k; i++ {
			n := g.name()
			if !top.canLex(n) {
				continue
			}
			top.lex[n] = true
			g.decls++
			switch g.rng.Intn(4) {
			case 0:
				if !g.export[n] && !g.o.NoExport {
					g.export[n] = true
					g.line("export let %s = %d;", n, g.uniq())
				} else {
					g.line("let %s = %d;", n, g.uniq())
				}
			case 1:
				g.line("const %s = %d;", n, g.uniq())
			case 2:
				g.line("class %s { static $id = %d; m() { return %d; } }", n, g.uniq(), g.uniq())
			default:
				g.line("let %s = %d;", n, g.uniq())
			}
		}
		g.noTopLex = true
	}
	n := 4 + g.rng.Intn(8)
	g.stmts(top, n)
	g.probe()
	return g.b.String()
}

// sgPrelude defines every pool name as a global (so free references have a value) and the recursion fuel.
// It is prepended to both sides after compilation: esbuild never sees it.
func sgPrelude() string {
	var b strings.Builder
	b.WriteString("globalThis.$F = 400;\n")
	for _, n := range sgPoolAll {
		fmt.Fprintf(&b, "globalThis[%q] = %q;\n", n, "G:"+n)
	}
	return b.String()
}
