package main

import (
	"fmt"
	"os"
	"path"
	"path/filepath"
	"sort"
	"strings"
	"sync/atomic"

	"github.com/evanw/esbuild/pkg/api"
)

func init() { registry["C10"] = checkC10 }

// splitProject: k entries × s shared ES modules with a given incidence pattern, shared→shared edges,
// dynamic imports, re-exports across chunk boundaries, name collisions and side-effect-only shared modules.
type splitProject struct {
	Files   map[string]string `json:"files"`
	Entries []string          `json:"entries"`
	Desc    string            `json:"desc"`
}

func splitGen(rng *Rng, k, s int, incidence uint32) splitProject {
	files := map[string]string{}
	var desc []string
	// shared modules; sJ may depend on sM with M > J
	deps := make([][]int, s)
	for j := 0; j < s; j++ {
		for m := j + 1; m < s; m++ {
			if rng.Intn(4) == 0 {
				deps[j] = append(deps[j], m)
			}
		}
	}
	sideOnly := map[int]bool{}
	for j := 0; j < s; j++ {
		var b strings.Builder
		for _, m := range deps[j] {
			b.WriteString(fmt.Sprintf("import {v%d as dep%d, c%d} from \"./s%d.mjs\";\n", m, m, m, m))
			desc = append(desc, fmt.Sprintf("s%d->s%d", j, m))
		}
		b.WriteString(fmt.Sprintf("$(\"s%d\", \"start\");\n", j))
		b.WriteString(fmt.Sprintf("export let v%d = %d;\nexport function inc%d() { return ++v%d; }\nexport const c%d = \"c%d\";\n", j, (j+1)*10, j, j, j, j))
		// colliding local names in every module
		b.WriteString(fmt.Sprintf("function helper() { return \"helper-of-s%d\"; }\nconst tmp = helper();\nlet counter = %d;\n$(\"s%d\", \"locals\", tmp, counter);\n", j, j, j))
		b.WriteString(fmt.Sprintf("export function getLocal%d() { return [tmp, ++counter]; }\n", j))
		// identically named exports in different modules (export aliases of a shared chunk must stay distinct)
		b.WriteString(fmt.Sprintf("export let x = \"x-of-s%d\";\n", j))
		if j%2 == 1 {
			b.WriteString(fmt.Sprintf("export let x2 = \"x2-of-s%d\";\nexport let x3 = \"x3-of-s%d\";\n", j, j))
		}
		for _, m := range deps[j] {
			b.WriteString(fmt.Sprintf("$(\"s%d\", \"dep\", c%d, typeof dep%d);\n", j, m, m))
		}
		if rng.Intn(4) == 0 {
			sideOnly[j] = true
		}
		b.WriteString(fmt.Sprintf("$(\"s%d\", \"end\");\n", j))
		files[fmt.Sprintf("/s%d.mjs", j)] = b.String()
	}
	var entries []string
	for i := 0; i < k; i++ {
		var b, body strings.Builder
		for j := 0; j < s; j++ {
			if incidence&(1<<uint(i*s+j)) == 0 {
				continue
			}
			desc = append(desc, fmt.Sprintf("e%d->s%d", i, j))
			switch {
			case sideOnly[j] && rng.Bool():
				b.WriteString(fmt.Sprintf("import \"./s%d.mjs\";\n", j))
			case rng.Intn(5) == 0:
				b.WriteString(fmt.Sprintf("import * as ns%d from \"./s%d.mjs\";\n", j, j))
				body.WriteString(fmt.Sprintf("$(\"e%d\", \"ns\", %d, Object.keys(ns%d).sort(), ns%d.v%d, ns%d.inc%d(), ns%d.v%d);\n", i, j, j, j, j, j, j, j, j))
			default:
				b.WriteString(fmt.Sprintf("import {v%d, inc%d, c%d, getLocal%d, x as x_%d} from \"./s%d.mjs\";\n", j, j, j, j, j, j))
				body.WriteString(fmt.Sprintf("$(\"e%d\", \"x\", %d, x_%d);\n", i, j, j))
				if j%2 == 1 {
					b.WriteString(fmt.Sprintf("import {x2 as x2_%d, x3 as x3_%d} from \"./s%d.mjs\";\n", j, j, j))
					body.WriteString(fmt.Sprintf("$(\"e%d\", \"x2\", %d, x2_%d, x3_%d);\n", i, j, j, j))
				}
				body.WriteString(fmt.Sprintf("$(\"e%d\", \"sees\", %d, v%d, c%d); $(\"e%d\", \"inc\", %d, inc%d(), v%d, getLocal%d());\n", i, j, j, j, i, j, j, j, j))
				if rng.Intn(3) == 0 {
					b.WriteString(fmt.Sprintf("export {v%d as re%d_%d, inc%d as reInc%d_%d} from \"./s%d.mjs\";\n", j, i, j, j, i, j, j))
				}
			}
		}
		if s > 0 && rng.Intn(2) == 0 {
			j := rng.Intn(s)
			desc = append(desc, fmt.Sprintf("e%d-*->mid%d->s%d", i, i, j))
			b.WriteString(fmt.Sprintf("export * from \"./mid%d.mjs\";\n", i))
			files[fmt.Sprintf("/mid%d.mjs", i)] = fmt.Sprintf("export {v%d as viaMid%d, inc%d as incViaMid%d} from \"./s%d.mjs\";\nexport const mid%d = \"mid%d\";\n$(\"mid%d\", \"run\");\n", j, i, j, i, j, i, i, i)
		}
		// a shared module re-exported wholesale by the entry, next to entry-local bindings (not exported) that carry
		// the very names the star re-export provides: the import from the other chunk and the local must both keep working
		if rng.Intn(3) == 0 {
			for j := 0; j < s; j++ {
				if incidence&(1<<uint(i*s+j)) != 0 {
					desc = append(desc, fmt.Sprintf("e%d-*->s%d+locals", i, j))
					b.WriteString(fmt.Sprintf("export * from \"./s%d.mjs\";\n", j))
					body.WriteString(fmt.Sprintf("let x = \"local-x-of-e%d\"; var x2 = \"local-x2-of-e%d\"; function x3() { return \"local-x3-of-e%d\"; }\n$(\"e%d\", \"locals-vs-star\", x, x2, x3());\n", i, i, i, i))
					break
				}
			}
		}
		b.WriteString(fmt.Sprintf("$(\"e%d\", \"start\");\n", i))
		b.WriteString(fmt.Sprintf("function helper() { return \"helper-of-e%d\"; }\nconst tmp = helper();\nexport const id%d = tmp;\nexport let state%d = 0;\nexport function bump%d() { return ++state%d; }\n", i, i, i, i, i))
		b.WriteString(body.String())
		// dynamic imports (awaited one after another): of a shared module, of another entry
		if rng.Intn(2) == 0 && s > 0 {
			j := rng.Intn(s)
			desc = append(desc, fmt.Sprintf("e%d=>s%d", i, j))
			b.WriteString(fmt.Sprintf("{ const ns = await import(\"./s%d.mjs\"); $(\"e%d\", \"dyn\", \"s%d\", ns.v%d, ns.inc%d(), ns.v%d); }\n", j, i, j, j, j, j))
		}
		if rng.Intn(3) == 0 && k > 1 {
			o := (i + 1 + rng.Intn(k-1)) % k
			if o > i { // only towards later entries, so that loading order stays acyclic at the top level
				desc = append(desc, fmt.Sprintf("e%d=>e%d", i, o))
				b.WriteString(fmt.Sprintf("{ const ns = await import(\"./e%d.mjs\"); $(\"e%d\", \"dyn-entry\", %d, ns.id%d, ns.bump%d(), ns.state%d); }\n", o, i, o, o, o, o))
			}
		}
		b.WriteString(fmt.Sprintf("$(\"e%d\", \"end\");\n", i))
		files[fmt.Sprintf("/e%d.mjs", i)] = b.String()
		entries = append(entries, fmt.Sprintf("/e%d.mjs", i))
	}
	sort.Strings(desc)
	return splitProject{Files: files, Entries: entries, Desc: strings.Join(desc, " ")}
}

// per-module projection of a trace: module id -> its events in order
func projectByModule(trace []string) map[string][]string {
	m := map[string][]string{}
	for _, e := range trace {
		id := e
		if i := strings.Index(e, ","); i > 0 {
			id = e[:i]
		}
		m[id] = append(m[id], e)
	}
	return m
}

func orderedSubsets(k int) [][]int {
	var out [][]int
	var rec func(cur []int, used uint)
	rec = func(cur []int, used uint) {
		if len(cur) > 0 {
			out = append(out, append([]int{}, cur...))
		}
		for i := 0; i < k; i++ {
			if used&(1<<uint(i)) == 0 {
				rec(append(cur, i), used|1<<uint(i))
			}
		}
	}
	rec(nil, 0)
	return out
}

func copyDir(src, dst string) error {
	return filepath.Walk(src, func(p string, info os.FileInfo, err error) error {
		if err != nil {
			return err
		}
		rel, _ := filepath.Rel(src, p)
		if info.IsDir() {
			return os.MkdirAll(filepath.Join(dst, rel), 0o755)
		}
		b, err := os.ReadFile(p)
		if err != nil {
			return err
		}
		return os.WriteFile(filepath.Join(dst, rel), b, 0o644)
	})
}

func checkC10(r *Run) {
	r.Rule("projects of k∈{2,3} entry points × s≤4 shared ES modules for a seeded sample of the 2^(k·s) incidence patterns (all patterns of 2×2 and 2×3 in thorough), with shared→shared edges, dynamic imports of shared modules and of other entries, re-exports across chunk boundaries, identical local names in every module and side-effect-only imports; " +
		"built with splitting (× minify × chunk/entry name templates); every non-empty ordered subset of entries is loaded into one fresh Node runtime, natively from source and from the emitted chunks; per-module event sequences and export views must agree; static facts of every chunk are parsed by acorn; " +
		"non-trivial = distinct (project, load order) executed both ways")
	r.Assume("the relative order of different modules' top-level code is not compared (documented limitation): traces are projected per module")
	pool := r.Pool()
	c10Twins(r)
	scratch, _ := os.MkdirTemp("/tmp", "verif-c10-")
	defer os.RemoveAll(scratch)
	nproj := r.pick(90, 1800)
	var runs, chunksChecked, projects int64
	parallel(nproj, 16, func(i int) {
		rng := newRng(r.Seed, fmt.Sprint("c10p", i))
		k := 2 + rng.Intn(2)
		s := 1 + rng.Intn(4)
		inc := uint32(rng.U64())
		if !r.quick() && i < 16+64 {
			// exhaustive small incidence patterns
			if i < 16 {
				k, s, inc = 2, 2, uint32(i)
			} else {
				k, s, inc = 2, 3, uint32(i-16)
			}
		}
		p := splitGen(rng, k, s, inc)
		dir := filepath.Join(scratch, fmt.Sprint("p", i))
		src := filepath.Join(dir, "src")
		defer os.RemoveAll(dir)
		if err := writeTree(src, p.Files); err != nil {
			return
		}
		var eps []string
		for _, e := range p.Entries {
			eps = append(eps, filepath.Join(src, e))
		}
		minify := rng.Intn(2) == 0
		opts := api.BuildOptions{EntryPoints: eps, Bundle: true, Splitting: true, Format: api.FormatESModule, Outdir: filepath.Join(dir, "out"), Write: false, AbsWorkingDir: src,
			MinifyWhitespace: minify, MinifySyntax: minify, MinifyIdentifiers: minify, OutExtension: map[string]string{".js": ".mjs"}, Platform: api.PlatformNode}
		switch rng.Intn(4) {
		case 0:
			opts.ChunkNames = "chunks/[name]-[hash]"
		case 1:
			opts.ChunkNames = "[hash]"
			opts.EntryNames = "entries/[name]"
		case 2:
			opts.EntryNames = "[dir]/[name]-[hash]"
		}
		res, pan := buildSafe(opts)
		if pan != "" {
			return
		}
		if len(res.Errors) > 0 {
			r.Violation("split:build-error:"+normErr(res.Errors[0].Text), "build error for a valid project: "+res.Errors[0].Text, map[string]interface{}{"project": p})
			return
		}
		outDir := filepath.Join(dir, "out")
		emitted := map[string][]byte{}
		for _, f := range res.OutputFiles {
			rel, _ := filepath.Rel(outDir, f.Path)
			emitted[filepath.ToSlash(rel)] = f.Contents
			os.MkdirAll(filepath.Dir(f.Path), 0o755)
			os.WriteFile(f.Path, f.Contents, 0o644)
		}
		atomic.AddInt64(&projects, 1)
		// ---- static facts: references exist, names exist, no static cycle, no assignment to an import
		type cf struct {
			StaticImports []struct {
				Path  string   `json:"path"`
				Names []string `json:"names"`
			} `json:"staticImports"`
			DynamicImports  []string `json:"dynamicImports"`
			Exports         []string `json:"exports"`
			AssignsToImport []string `json:"assignsToImport"`
		}
		facts := map[string]cf{}
		for rel, code := range emitted {
			var fr struct {
				OK    bool   `json:"ok"`
				Err   string `json:"err"`
				Facts cf     `json:"facts"`
			}
			if err := pool.Call(map[string]interface{}{"op": "chunkFacts", "code": string(code), "goal": "module"}, &fr); err != nil {
				continue
			}
			if !fr.OK {
				r.Violation("split:chunk-unparseable", "emitted chunk is not a valid module: "+fr.Err, map[string]interface{}{"project": p, "file": rel})
				continue
			}
			facts[rel] = fr.Facts
			atomic.AddInt64(&chunksChecked, 1)
		}
		edges := map[string][]string{}
		for rel, f := range facts {
			for _, im := range f.StaticImports {
				target := path.Join(path.Dir(rel), im.Path)
				tf, ok := facts[target]
				if !ok {
					r.Violation("split:missing-chunk", fmt.Sprintf("%s imports %q, which the build did not emit", rel, im.Path), map[string]interface{}{"project": p, "emitted": keysOf(emitted)})
					continue
				}
				edges[rel] = append(edges[rel], target)
				for _, nm := range im.Names {
					if nm == "*" {
						continue
					}
					found := false
					for _, ex := range tf.Exports {
						if ex == nm {
							found = true
						}
					}
					if !found {
						r.Violation("split:missing-export", fmt.Sprintf("%s imports %q from %s, which does not export it", rel, nm, target), map[string]interface{}{"project": p, "file": rel, "code": trunc(string(emitted[rel]), 3000)})
					}
				}
			}
			for _, d := range f.DynamicImports {
				if _, ok := facts[path.Join(path.Dir(rel), d)]; !ok {
					r.Violation("split:missing-chunk", fmt.Sprintf("%s dynamically imports %q, which the build did not emit", rel, d), map[string]interface{}{"project": p})
				}
			}
			if len(f.AssignsToImport) > 0 {
				r.Violation("split:assigns-to-import", fmt.Sprintf("%s assigns to binding(s) %v imported from another chunk", rel, f.AssignsToImport), map[string]interface{}{"project": p, "file": rel, "code": trunc(string(emitted[rel]), 3000)})
			}
		}
		if cyc := findCycle(edges); cyc != "" {
			r.Violation("split:static-import-cycle", "emitted chunks form a static import cycle: "+cyc, map[string]interface{}{"project": p})
		}
		// ---- dynamic: every ordered subset of entries in a fresh runtime, native vs chunks
		entryOut := map[int]string{}
		var meta struct {
			Outputs map[string]struct {
				EntryPoint string `json:"entryPoint"`
			} `json:"outputs"`
		}
		_ = meta
		for idx := range p.Entries {
			// entry output path: find the emitted file whose name starts with the entry name
			base := fmt.Sprintf("e%d", idx)
			for rel := range emitted {
				b := path.Base(rel)
				if (b == base+".mjs" || strings.HasPrefix(b, base+"-")) && !strings.Contains(rel, "chunks/") {
					entryOut[idx] = rel
				}
			}
		}
		if len(entryOut) != len(p.Entries) {
			r.Count("entry_outputs_not_located", 1)
			return
		}
		orders := orderedSubsets(k)
		if r.quick() && len(orders) > 6 {
			rng.Shuffle(len(orders), func(a, b int) { orders[a], orders[b] = orders[b], orders[a] })
			orders = orders[:6]
		}
		var jobs []nodeJob
		for oi, ord := range orders {
			ns := filepath.Join(dir, fmt.Sprint("run", oi, "src"))
			no := filepath.Join(dir, fmt.Sprint("run", oi, "out"))
			copyDir(src, ns)
			copyDir(outDir, no)
			var nf, of []string
			for _, e := range ord {
				nf = append(nf, filepath.Join(ns, p.Entries[e]))
				of = append(of, filepath.Join(no, filepath.FromSlash(entryOut[e])))
			}
			jobs = append(jobs, nodeJob{ID: fmt.Sprint("n", oi), Mode: "import-seq", Files: nf}, nodeJob{ID: fmt.Sprint("s", oi), Mode: "import-seq", Files: of})
		}
		nres, err := runNodeJobs(dir, jobs)
		if err != nil {
			r.Count("node_runner_errors", 1)
			return
		}
		for oi, ord := range orders {
			native, split := nres[fmt.Sprint("n", oi)], nres[fmt.Sprint("s", oi)]
			atomic.AddInt64(&runs, 1)
			r.Eval(1)
			r.Nontrivial(fmt.Sprint(p.Desc, ord, minify))
			if i == 0 && oi == 0 {
				r.Sample(map[string]interface{}{"project": p.Desc, "order": ord, "native_trace_head": headOf(native.Trace, 10), "emitted": keysOf(emitted)})
			}
			fail := func(kind, detail string) {
				r.Violation("split:"+kind, fmt.Sprintf("loading entries %v from the split chunks differs from loading the sources (%s): %s; project: %s", ord, kind, detail, p.Desc),
					map[string]interface{}{"project": p, "order": ord, "native": native, "split": split, "minify": minify, "emitted": keysOf(emitted)})
			}
			if termClass(native.Term) != termClass(split.Term) {
				fail("termination", fmt.Sprintf("native %s, split %s", native.Term, split.Term))
				continue
			}
			pn, ps := projectByModule(native.Trace), projectByModule(split.Trace)
			bad := false
			for id, evs := range pn {
				if !sameTrace(evs, ps[id]) {
					_, a, b := firstTraceDiff(evs, ps[id])
					fail("module-events", fmt.Sprintf("module %s: native %s, split %s", id, trunc(a, 100), trunc(b, 100)))
					bad = true
					break
				}
			}
			if bad {
				continue
			}
			for id := range ps {
				if _, ok := pn[id]; !ok {
					fail("module-events", "module "+id+" ran only in the split program")
					bad = true
					break
				}
			}
			if !bad && native.Exports != split.Exports {
				fail("exports", fmt.Sprintf("native %s, split %s", trunc(native.Exports, 150), trunc(split.Exports, 150)))
			}
		}
	})
	r.Count("projects_built_with_splitting", int(projects))
	r.Count("load_orders_executed", int(runs))
	r.Count("chunks_statically_checked", int(chunksChecked))
	if runs < int64(nproj*2) {
		r.Inconclusive(fmt.Sprintf("only %d load orders executed", runs))
	}
}

func keysOf(m map[string][]byte) []string {
	var ks []string
	for k := range m {
		ks = append(ks, k)
	}
	sort.Strings(ks)
	return ks
}

func findCycle(edges map[string][]string) string {
	state := map[string]int{}
	var stack []string
	var found string
	var dfs func(n string)
	dfs = func(n string) {
		if found != "" {
			return
		}
		state[n] = 1
		stack = append(stack, n)
		for _, m := range edges[n] {
			if state[m] == 1 {
				found = strings.Join(append(stack, m), " -> ")
				return
			}
			if state[m] == 0 {
				dfs(m)
			}
		}
		stack = stack[:len(stack)-1]
		state[n] = 2
	}
	var nodes []string
	for n := range edges {
		nodes = append(nodes, n)
	}
	sort.Strings(nodes)
	for _, n := range nodes {
		if state[n] == 0 {
			dfs(n)
		}
	}
	return found
}

// c10Twins: two library modules with byte-identical text in different directories, each shared by its own pair of
// entry points, under chunk-name templates without [hash]. The two shared chunks then want the same output path:
// esbuild either refuses the build or keeps them apart — what it must never do is emit one of them for both groups
// (each module body runs exactly once and owns its own state). Loaded natively and from the emitted files in one runtime.
func c10Twins(r *Run) {
	scratch, _ := os.MkdirTemp("/tmp", "verif-c10t-")
	defer os.RemoveAll(scratch)
	lib := "$(\"lib\", \"start\");\nlet n = 0;\nexport function next() { return ++n; }\n"
	files := map[string]string{"/g1/util.mjs": lib, "/g2/util.mjs": lib}
	var entries []string
	for i, g := range []string{"g1", "g1", "g2", "g2"} {
		name := fmt.Sprintf("/t%d.mjs", i)
		files[name] = fmt.Sprintf("import {next} from \"./%s/util.mjs\";\n$(\"t%d\", next());\nexport const id = %d;\n", g, i, i)
		entries = append(entries, name)
	}
	refused, ran := 0, 0
	for vi, tpl := range []string{"[name]", "shared/[name]", "[name]-[hash]", ""} {
		for _, minify := range []bool{true, false} {
			dir := filepath.Join(scratch, fmt.Sprint("v", vi, minify))
			src := filepath.Join(dir, "src")
			if writeTree(src, files) != nil {
				continue
			}
			var eps, nf []string
			for _, e := range entries {
				eps = append(eps, filepath.Join(src, e))
				nf = append(nf, filepath.Join(src, e))
			}
			res, pan := buildSafe(api.BuildOptions{EntryPoints: eps, Bundle: true, Splitting: true, Format: api.FormatESModule, Outdir: filepath.Join(dir, "out"), Write: false, AbsWorkingDir: src,
				MinifyWhitespace: minify, MinifyIdentifiers: minify, MinifySyntax: minify, ChunkNames: tpl, OutExtension: map[string]string{".js": ".mjs"}, Platform: api.PlatformNode, LogLevel: api.LogLevelSilent})
			r.Eval(1)
			if pan != "" {
				continue
			}
			if len(res.Errors) > 0 {
				refused++
				continue
			}
			var of []string
			for _, f := range res.OutputFiles {
				os.MkdirAll(filepath.Dir(f.Path), 0o755)
				os.WriteFile(f.Path, f.Contents, 0o644)
			}
			for i := range entries {
				of = append(of, filepath.Join(dir, "out", fmt.Sprintf("t%d.mjs", i)))
			}
			nres, err := runNodeJobs(dir, []nodeJob{{ID: "n", Mode: "import-seq", Files: nf}, {ID: "s", Mode: "import-seq", Files: of}})
			if err != nil {
				r.Count("node_runner_errors", 1)
				continue
			}
			ran++
			r.Nontrivial(fmt.Sprint("twins", tpl, minify))
			a, b := nres["n"], nres["s"]
			if strings.Join(a.Trace, " ") != strings.Join(b.Trace, " ") || a.Term != b.Term {
				r.Violation("split:identical-modules-merged", fmt.Sprintf("two textually identical shared modules (chunk-names=%q, minify=%v): native %v, split bundle %v (%s)", tpl, minify, a.Trace, b.Trace, b.Term),
					map[string]interface{}{"files": files, "chunk_names": tpl, "minify": minify, "native": a.Trace, "bundle": b.Trace})
			}
		}
	}
	r.Count("twin_module_builds_refused", refused)
	r.Count("twin_module_builds_run", ran)
	if ran == 0 {
		r.Inconclusive("no twin-module build could be run")
	}
}
