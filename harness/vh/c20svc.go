package main

// C20, stdio service part: a protocol client for `esbuild --service=<version> --ping` written from the
// protocol description (cmd/esbuild/stdio_protocol.go, lib/shared/stdio_protocol.ts). k writer goroutines issue
// random request sequences (transform / build / context build / rebuild / cancel / dispose / format-msgs /
// analyze-metafile / invalid commands / requests on unknown keys), the host side answers esbuild's own
// requests (on-start / on-resolve / on-load / on-end / ping) with seeded delays, every packet in either
// direction is logged with one logical clock, and the log is checked offline.

import (
	"encoding/binary"
	"encoding/json"
	"fmt"
	"io"
	"os"
	"os/exec"
	"path/filepath"
	"regexp"
	"runtime"
	"sort"
	"strings"
	"sync"
	"sync/atomic"
	"time"
)

// ---- wire format (u32 length, u32 id<<1|isResponse, tagged value)

func svcEncode(id uint32, isRequest bool, value interface{}) []byte {
	b := []byte{0, 0, 0, 0, 0, 0, 0, 0}
	var visit func(v interface{})
	u32 := func(n int) { b = binary.LittleEndian.AppendUint32(b, uint32(n)) }
	visit = func(v interface{}) {
		switch x := v.(type) {
		case nil:
			b = append(b, 0)
		case bool:
			if x {
				b = append(b, 1, 1)
			} else {
				b = append(b, 1, 0)
			}
		case int:
			b = append(b, 2)
			u32(x)
		case string:
			b = append(b, 3)
			u32(len(x))
			b = append(b, x...)
		case []byte:
			b = append(b, 4)
			u32(len(x))
			b = append(b, x...)
		case []interface{}:
			b = append(b, 5)
			u32(len(x))
			for _, it := range x {
				visit(it)
			}
		case map[string]interface{}:
			keys := make([]string, 0, len(x))
			for k := range x {
				keys = append(keys, k)
			}
			sort.Strings(keys)
			b = append(b, 6)
			u32(len(keys))
			for _, k := range keys {
				u32(len(k))
				b = append(b, k...)
				visit(x[k])
			}
		default:
			panic(fmt.Sprintf("svcEncode: unsupported %T", v))
		}
	}
	visit(value)
	binary.LittleEndian.PutUint32(b[0:], uint32(len(b)-4))
	w := id << 1
	if !isRequest {
		w |= 1
	}
	binary.LittleEndian.PutUint32(b[4:], w)
	return b
}

type svcDecodeErr struct{ msg string }

func svcDecode(body []byte) (id uint32, isRequest bool, value interface{}, err error) {
	defer func() {
		if r := recover(); r != nil {
			err = fmt.Errorf("malformed packet: %v", r)
		}
	}()
	p := 0
	u32 := func() int {
		if p+4 > len(body) {
			panic("short u32")
		}
		v := binary.LittleEndian.Uint32(body[p:])
		p += 4
		return int(v)
	}
	bytes := func() []byte {
		n := u32()
		if p+n > len(body) {
			panic("short bytes")
		}
		v := body[p : p+n]
		p += n
		return v
	}
	var visit func() interface{}
	visit = func() interface{} {
		if p >= len(body) {
			panic("short tag")
		}
		t := body[p]
		p++
		switch t {
		case 0:
			return nil
		case 1:
			v := body[p]
			p++
			return v != 0
		case 2:
			return u32()
		case 3:
			return string(bytes())
		case 4:
			return append([]byte{}, bytes()...)
		case 5:
			n := u32()
			out := make([]interface{}, 0, n)
			for i := 0; i < n; i++ {
				out = append(out, visit())
			}
			return out
		case 6:
			n := u32()
			out := make(map[string]interface{}, n)
			for i := 0; i < n; i++ {
				k := string(bytes())
				out[k] = visit()
			}
			return out
		}
		panic(fmt.Sprintf("unknown tag %d", t))
	}
	w := uint32(u32())
	id = w >> 1
	isRequest = w&1 == 0
	value = visit()
	if p != len(body) {
		panic("trailing bytes in packet")
	}
	return
}

// ---- packet log

type svcEv struct {
	Tick uint64 `json:"t"`
	Dir  string `json:"d"`           // "send" (host→esbuild, logged when the last byte has been written) / "recv"
	ID   uint32 `json:"id"`          // packet id
	Req  bool   `json:"req"`         // request (true) or response
	Cmd  string `json:"cmd"`         // command of the request this packet is / answers
	Key  int    `json:"key"`         // build key, -1 if none
	Cl   int    `json:"cl"`          // issuing client, -1 for host-side answers
	Info string `json:"i,omitempty"` // op-specific: marker, stamps, error text, …
	A    int64  `json:"a,omitempty"` // build seq (host counter) for on-* packets
	B    int64  `json:"b,omitempty"` // store version
}

type svcBuildState struct {
	key       int
	isContext bool
	seq       int64 // number of on-start requests seen so far (= current build number)
	curVer    int64 // store version sampled at on-start
}

type svcClient struct {
	cmd      *exec.Cmd
	stdin    io.WriteCloser
	stdout   io.ReadCloser
	clock    uint64
	lmu      sync.Mutex
	log      []svcEv
	pmu      sync.Mutex
	pending  map[uint32]chan map[string]interface{}
	issued   map[uint32]string
	nextID   uint32
	outq     chan svcOut
	wdone    chan struct{}
	rdone    chan struct{}
	version  int64 // the versioned in-memory store
	bmu      sync.Mutex
	builds   map[int]*svcBuildState
	rngMu    sync.Mutex
	rng      *Rng
	scratch  string
	badProto string
	closed   int32
	qmu      sync.RWMutex
	dead     bool
	aborted  int32
	unsent   int32
	watchdog int32
	failRate int
}

type svcOut struct {
	bytes []byte
	ev    svcEv
	hold  int // bytes of this packet to write (0 = all); a truncated packet is never "fully sent"
}

func (c *svcClient) tick() uint64 { return atomic.AddUint64(&c.clock, 1) }

func (c *svcClient) logEv(e svcEv) uint64 {
	c.lmu.Lock()
	if e.Tick == 0 {
		e.Tick = c.tick()
	}
	c.log = append(c.log, e)
	c.lmu.Unlock()
	return e.Tick
}

func (c *svcClient) rnd(n int) int {
	c.rngMu.Lock()
	defer c.rngMu.Unlock()
	return c.rng.Intn(n)
}

func (c *svcClient) nap() {
	switch c.rnd(6) {
	case 0:
		time.Sleep(time.Duration(c.rnd(1200)) * time.Microsecond)
	case 1:
		runtime.Gosched()
	}
}

// writer: coalesces whatever is queued into one buffer and writes it in seeded fragments.
func (c *svcClient) writer() {
	defer close(c.wdone)
	for first := range c.outq {
		batch := []svcOut{first}
		if c.rnd(3) == 0 {
			time.Sleep(time.Duration(c.rnd(300)) * time.Microsecond) // let more packets queue up (coalescing)
		}
	drain:
		for len(batch) < 8 {
			select {
			case o, ok := <-c.outq:
				if !ok {
					break drain
				}
				batch = append(batch, o)
			default:
				break drain
			}
		}
		var buf []byte
		ends := []int{}
		truncated := false
		for bi, o := range batch {
			if o.hold > 0 && o.hold < len(o.bytes) {
				// a deliberately incomplete packet is the last thing this host ever writes
				buf = append(buf, o.bytes[:o.hold]...)
				ends = append(ends, -1)
				batch = batch[:bi+1]
				truncated = true
				break
			} else {
				buf = append(buf, o.bytes...)
				ends = append(ends, len(buf))
			}
		}
		// fragment
		pos := 0
		logged := 0
		for pos < len(buf) {
			n := len(buf) - pos
			switch c.rnd(4) {
			case 0:
				n = 1 + c.rnd(7)
			case 1:
				n = 1 + c.rnd(n)
			}
			if n > len(buf)-pos {
				n = len(buf) - pos
			}
			// A packet counts as sent from the moment its last byte is handed to the kernel: the tick is taken
			// before the write, because esbuild may react to it before Write returns.
			first := logged
			for logged < len(batch) && (ends[logged] == -1 || ends[logged] <= pos+n) {
				if ends[logged] != -1 {
					c.logEv(batch[logged].ev)
				}
				logged++
			}
			if _, err := c.stdin.Write(buf[pos : pos+n]); err != nil {
				for k := first; k < len(batch); k++ {
					if ends[k] != -1 {
						e := batch[k].ev
						e.Dir = "send-failed"
						c.logEv(e)
					}
				}
				return
			}
			pos += n
			if c.rnd(3) == 0 {
				runtime.Gosched()
			}
		}
		if truncated {
			for range c.outq {
			}
			return
		}
	}
}

func (c *svcClient) reader(version string) {
	defer func() {
		c.pmu.Lock()
		for id, ch := range c.pending {
			close(ch)
			delete(c.pending, id)
		}
		c.dead = true
		c.pmu.Unlock()
		close(c.rdone)
	}()
	buf := make([]byte, 0, 1<<16)
	tmp := make([]byte, 1<<15)
	gotVersion := false
	for {
		n, err := c.stdout.Read(tmp)
		if n > 0 {
			buf = append(buf, tmp[:n]...)
			for {
				if len(buf) < 4 {
					break
				}
				l := int(binary.LittleEndian.Uint32(buf))
				if len(buf) < 4+l {
					break
				}
				body := buf[4 : 4+l]
				if !gotVersion {
					gotVersion = true
					if string(body) != version {
						c.badProto = fmt.Sprintf("service announced version %q, version.txt says %q", body, version)
					}
				} else {
					c.handlePacket(append([]byte{}, body...))
				}
				buf = buf[4+l:]
			}
		}
		if err != nil {
			return
		}
	}
}

func (c *svcClient) handlePacket(body []byte) {
	id, isReq, val, err := svcDecode(body)
	if err != nil {
		c.badProto = err.Error()
		return
	}
	m, _ := val.(map[string]interface{})
	if !isReq {
		c.pmu.Lock()
		ch := c.pending[id]
		cmd := c.issued[id]
		delete(c.pending, id)
		c.pmu.Unlock()
		info := ""
		if e, ok := m["error"].(string); ok {
			info = "error:" + e
		}
		// the end stamp the host attached in its on-end answer names the build this result belongs to
		if ws, ok := m["warnings"].([]interface{}); ok {
			for _, w := range ws {
				if wm, ok := w.(map[string]interface{}); ok {
					if t, ok := wm["text"].(string); ok && strings.HasPrefix(t, "endstamp:") {
						info += "|" + t
					}
				}
			}
		}
		if es, ok := m["errors"].([]interface{}); ok && len(es) > 0 {
			info += "|errors"
		}
		if ofs, ok := m["outputFiles"].([]interface{}); ok {
			stamps := map[string]bool{}
			for _, of := range ofs {
				if o, ok := of.(map[string]interface{}); ok {
					if b, ok := o["contents"].([]byte); ok {
						for _, s := range reSvcStamp.FindAllStringSubmatch(string(b), -1) {
							stamps[s[1]+"/"+s[2]] = true
						}
					}
				}
			}
			var ks []string
			for k := range stamps {
				ks = append(ks, k)
			}
			sort.Strings(ks)
			info += "|stamps:" + strings.Join(ks, ",")
		}
		for _, k := range []string{"code", "result"} {
			if t, ok := m[k].(string); ok {
				info += "|payload:" + trunc(t, 200)
			}
		}
		if ms, ok := m["messages"].([]interface{}); ok {
			for _, x := range ms {
				if t, ok := x.(string); ok {
					info += "|payload:" + trunc(t, 200)
				}
			}
		}
		c.logEv(svcEv{Dir: "recv", ID: id, Req: false, Cmd: cmd, Key: -1, Cl: -1, Info: info})
		if ch != nil {
			ch <- m
		}
		return
	}
	cmd, _ := m["command"].(string)
	key := -1
	if k, ok := m["key"].(int); ok {
		key = k
	}
	go c.answer(c.tick(), id, cmd, key, m)
}

var reSvcStamp = regexp.MustCompile(`stamp:k(\d+):b(\d+):v(\d+)`)
var reSvcEnd = regexp.MustCompile(`endstamp:k(\d+):b(\d+):v(\d+)`)

func svcMsg(text string) map[string]interface{} {
	return map[string]interface{}{"id": "", "pluginName": "", "text": text, "location": nil, "notes": []interface{}{}, "detail": -1}
}

// answer handles one request from esbuild (host role).
func (c *svcClient) answer(recvTick uint64, id uint32, cmd string, key int, m map[string]interface{}) {
	var st *svcBuildState
	c.bmu.Lock()
	st = c.builds[key]
	c.bmu.Unlock()
	reply := map[string]interface{}{}
	ev := svcEv{Tick: recvTick, Dir: "recv", ID: id, Req: true, Cmd: cmd, Key: key, Cl: -1}
	switch cmd {
	case "ping":
	case "on-start":
		if st != nil {
			ev.A = atomic.AddInt64(&st.seq, 1)
			atomic.StoreInt64(&st.curVer, atomic.LoadInt64(&c.version))
			ev.B = atomic.LoadInt64(&st.curVer)
		}
		reply = map[string]interface{}{"errors": []interface{}{}, "warnings": []interface{}{}}
	case "on-resolve":
		if st != nil {
			ev.A = atomic.LoadInt64(&st.seq)
		}
		p, _ := m["path"].(string)
		ev.Info = p
		ids, _ := m["ids"].([]interface{})
		reply = map[string]interface{}{"path": p, "namespace": "store"}
		if len(ids) > 0 {
			reply["id"] = ids[0]
		}
	case "on-load":
		var seq, ver int64
		if st != nil {
			seq = atomic.LoadInt64(&st.seq)
			ver = atomic.LoadInt64(&st.curVer)
		}
		ev.A = seq
		p, _ := m["path"].(string)
		ev.Info = p
		name := strings.TrimPrefix(p, "virtual:")
		body := fmt.Sprintf("export const %s = \"stamp:k%d:b%d:v%d\";\n", name, key, seq, ver)
		switch name {
		case "entry":
			body = "import {a} from 'virtual:a'; import {b} from 'virtual:b'; import {c} from 'virtual:c';\nconsole.log(a, b, c);\n" + body
		case "a":
			body = "import {c} from 'virtual:c'; console.log(c);\n" + body
		}
		ids, _ := m["ids"].([]interface{})
		reply = map[string]interface{}{"contents": []byte(body), "resolveDir": c.scratch}
		if len(ids) > 0 {
			reply["id"] = ids[0]
		}
		if c.failRate > 0 && c.rnd(1000) < c.failRate {
			reply = map[string]interface{}{"errors": []interface{}{svcMsg("injected load failure")}}
		}
	case "on-end":
		var seq, ver int64
		if st != nil {
			seq = atomic.LoadInt64(&st.seq)
			ver = atomic.LoadInt64(&st.curVer)
		}
		ev.A, ev.B = seq, ver
		// what the build produced (write:false ⇒ output files travel in this request)
		stamps := map[string]bool{}
		if ofs, ok := m["outputFiles"].([]interface{}); ok {
			for _, of := range ofs {
				if o, ok := of.(map[string]interface{}); ok {
					if b, ok := o["contents"].([]byte); ok {
						for _, s := range reSvcStamp.FindAllStringSubmatch(string(b), -1) {
							stamps[s[1]+"/"+s[2]] = true
						}
					}
				}
			}
		}
		var ks []string
		for k := range stamps {
			ks = append(ks, k)
		}
		sort.Strings(ks)
		ev.Info = strings.Join(ks, ",")
		if errs, ok := m["errors"].([]interface{}); ok && len(errs) > 0 {
			ev.Info += "|errors"
		}
		reply = map[string]interface{}{"errors": []interface{}{}, "warnings": []interface{}{svcMsg(fmt.Sprintf("endstamp:k%d:b%d:v%d", key, seq, ver))}}
	case "serve-request":
	default:
		ev.Info = "unknown-command"
	}
	c.logEv(ev)
	c.nap()
	if cmd == "on-start" {
		c.nap()
	}
	c.send(svcOut{bytes: svcEncode(id, false, reply), ev: svcEv{Dir: "send", ID: id, Req: false, Cmd: cmd, Key: key, Cl: -1, A: ev.A}})
}

func (c *svcClient) send(o svcOut) bool {
	c.qmu.RLock()
	defer c.qmu.RUnlock()
	if c.closed != 0 {
		return false
	}
	c.outq <- o
	return true
}

// closeInput: nothing more is queued, everything queued is written, then stdin is closed.
func (c *svcClient) closeInput() {
	c.qmu.Lock()
	if c.closed != 0 {
		c.qmu.Unlock()
		return
	}
	c.closed = 1
	close(c.outq)
	c.qmu.Unlock()
	<-c.wdone
	c.stdin.Close()
	c.logEv(svcEv{Dir: "eof", Key: -1, Cl: -1})
}

// start sends one request; await waits for its response (nil after the watchdog or when the process is gone).
func (c *svcClient) start(cl int, cmd string, key int, info string, req map[string]interface{}) chan map[string]interface{} {
	id := atomic.AddUint32(&c.nextID, 1)
	ch := make(chan map[string]interface{}, 4)
	c.pmu.Lock()
	if c.dead {
		c.pmu.Unlock()
		atomic.AddInt32(&c.aborted, 1)
		return nil
	}
	c.pending[id] = ch
	c.issued[id] = cmd
	c.pmu.Unlock()
	req["command"] = cmd
	if !c.send(svcOut{bytes: svcEncode(id, true, req), ev: svcEv{Dir: "send", ID: id, Req: true, Cmd: cmd, Key: key, Cl: cl, Info: info, B: atomic.LoadInt64(&c.version)}}) {
		c.pmu.Lock()
		delete(c.pending, id)
		c.pmu.Unlock()
		atomic.AddInt32(&c.unsent, 1)
		return nil
	}
	return ch
}

func (c *svcClient) await(ch chan map[string]interface{}) map[string]interface{} {
	if ch == nil {
		return nil
	}
	select {
	case m, ok := <-ch:
		if !ok {
			atomic.AddInt32(&c.aborted, 1)
		}
		return m
	case <-time.After(90 * time.Second):
		atomic.AddInt32(&c.watchdog, 1)
		return nil
	}
}

func (c *svcClient) request(cl int, cmd string, key int, info string, req map[string]interface{}, wait bool) map[string]interface{} {
	ch := c.start(cl, cmd, key, info, req)
	if !wait {
		return nil
	}
	return c.await(ch)
}

func svcStrs(xs ...string) []interface{} {
	out := make([]interface{}, len(xs))
	for i, x := range xs {
		out[i] = x
	}
	return out
}

func (c *svcClient) buildRequest(key int, isContext bool, write bool) map[string]interface{} {
	flags := svcStrs("--bundle", "--format=esm", "--log-level=silent", "--outdir="+filepath.Join(c.scratch, fmt.Sprint("out", key)))
	return map[string]interface{}{
		"key": key, "entries": []interface{}{[]interface{}{"", "virtual:entry"}}, "flags": flags, "write": write,
		"absWorkingDir": c.scratch, "nodePaths": []interface{}{}, "context": isContext,
		"plugins": []interface{}{map[string]interface{}{"name": "store", "onStart": true, "onEnd": true,
			"onResolve": []interface{}{map[string]interface{}{"id": 1, "filter": "^virtual:", "namespace": ""}},
			"onLoad":    []interface{}{map[string]interface{}{"id": 2, "filter": ".*", "namespace": "store"}}}},
	}
}

type svcParams struct {
	Clients  int
	Ops      int
	Seed     uint64
	FailRate int
	EOFMode  int // 0 orderly (dispose everything, close stdin), 1 burst of callback-free requests then close at once, 2 truncated packet then close, 3 live contexts: close stdin and stdout, 4 stdin closed at a seeded point in the middle of the history (builds and host callbacks in flight); stdout closed once every fully sent request has been answered
}

type svcResult struct {
	log      []svcEv
	exited   bool
	exitCode int
	hung     bool
	stderr   string
	badProto string
	timeouts int
	aborted  int
	bursts   []uint32
}

func runServiceHistory(bin, version string, p svcParams, scratch string, raceLog string) svcResult {
	cmd := exec.Command(bin, "--service="+version, "--ping")
	cmd.Env = append(os.Environ(), "GORACE=halt_on_error=0 log_path="+raceLog, fmt.Sprintf("GOMAXPROCS=%d", []int{2, 4, 16}[p.Seed%3]),
		fmt.Sprintf("ESBUILD_VERIF_YIELD=%d:%d", p.Seed, []int{0, 300, 700}[(p.Seed/3)%3]))
	stdin, _ := cmd.StdinPipe()
	stdout, _ := cmd.StdoutPipe()
	var stderr strings.Builder
	cmd.Stderr = &stderr
	if err := cmd.Start(); err != nil {
		return svcResult{badProto: "cannot start service: " + err.Error()}
	}
	c := &svcClient{cmd: cmd, stdin: stdin, stdout: stdout, pending: map[uint32]chan map[string]interface{}{}, issued: map[uint32]string{},
		outq: make(chan svcOut, 64), wdone: make(chan struct{}), rdone: make(chan struct{}), version: 1, builds: map[int]*svcBuildState{},
		rng: newRng(p.Seed, "svc"), scratch: scratch, failRate: p.FailRate}
	go c.writer()
	go c.reader(version)
	var res svcResult
	var nextKey int32
	// shared contexts
	type sctx struct {
		key      int
		disposed int32
	}
	var cmu sync.Mutex
	var ctxs []*sctx
	newContext := func(cl int) {
		key := int(atomic.AddInt32(&nextKey, 1))
		c.bmu.Lock()
		c.builds[key] = &svcBuildState{key: key, isContext: true}
		c.bmu.Unlock()
		r := c.request(cl, "build", key, "context", c.buildRequest(key, true, false), true)
		if r == nil {
			return
		}
		cmu.Lock()
		ctxs = append(ctxs, &sctx{key: key})
		cmu.Unlock()
	}
	pickCtx := func(rng *Rng) *sctx {
		cmu.Lock()
		defer cmu.Unlock()
		if len(ctxs) == 0 {
			return nil
		}
		return ctxs[rng.Intn(len(ctxs))]
	}
	newContext(0)
	if p.Seed%2 == 0 {
		newContext(0)
	}
	var wg sync.WaitGroup
	var opsIssued int32
	closeAt := int32(-1)
	if p.EOFMode == 4 {
		// stdin is closed at an arbitrary point of the history, while clients are in the middle of their operations
		closeAt = int32(1 + c.rnd(p.Clients*p.Ops))
	}
	for cl := 0; cl < p.Clients; cl++ {
		wg.Add(1)
		go func(cl int) {
			defer wg.Done()
			rng := newRng(p.Seed, fmt.Sprint("svcclient", cl))
			for i := 0; i < p.Ops; i++ {
				if n := atomic.AddInt32(&opsIssued, 1); n == closeAt {
					c.nap()
					c.closeInput()
				} else if closeAt >= 0 && n > closeAt {
					return
				}
				var r map[string]interface{}
				waited := true
				switch op := rng.Intn(24); {
				case op < 4:
					mk := fmt.Sprintf("marker_%d_%d", cl, i)
					r = c.request(cl, "transform", -1, mk, map[string]interface{}{"flags": svcStrs("--loader=js", "--log-level=silent"), "inputFS": false, "input": []byte("export let " + mk + " = 1")}, true)
				case op < 10:
					if x := pickCtx(rng); x != nil {
						r = c.request(cl, "rebuild", x.key, "", map[string]interface{}{"key": x.key}, true)
					} else {
						waited = false
					}
				case op < 13:
					v := atomic.AddInt64(&c.version, 1)
					c.logEv(svcEv{Dir: "edit", Cl: cl, Key: -1, B: v})
					waited = false
				case op < 16:
					if x := pickCtx(rng); x != nil {
						r = c.request(cl, "cancel", x.key, "", map[string]interface{}{"key": x.key}, true)
					} else {
						waited = false
					}
				case op == 16:
					key := int(atomic.AddInt32(&nextKey, 1))
					c.bmu.Lock()
					c.builds[key] = &svcBuildState{key: key}
					c.bmu.Unlock()
					r = c.request(cl, "build", key, "oneshot", c.buildRequest(key, false, false), true)
				case op == 17:
					mk := fmt.Sprintf("msg_%d_%d", cl, i)
					r = c.request(cl, "format-msgs", -1, mk, map[string]interface{}{"messages": []interface{}{svcMsg(mk)}, "isWarning": rng.Bool()}, true)
				case op == 18:
					mk := fmt.Sprintf("out_%d_%d.js", cl, i)
					mf := fmt.Sprintf(`{"inputs":{},"outputs":{%q:{"bytes":1,"inputs":{},"imports":[],"exports":[]}}}`, mk)
					r = c.request(cl, "analyze-metafile", -1, mk, map[string]interface{}{"metafile": mf, "color": false, "verbose": false}, true)
				case op == 19:
					r = c.request(cl, "bogus-command", -1, "", map[string]interface{}{}, true)
				case op == 20:
					r = c.request(cl, []string{"rebuild", "cancel", "dispose", "watch", "serve"}[rng.Intn(5)], 900000+cl, "unknown-key", map[string]interface{}{"key": 900000 + cl, "onRequest": false}, true)
				case op == 21 && i > p.Ops/2:
					if x := pickCtx(rng); x != nil {
						atomic.StoreInt32(&x.disposed, 1)
						r = c.request(cl, "dispose", x.key, "", map[string]interface{}{"key": x.key}, true)
					} else {
						waited = false
					}
				case op == 23 && i > p.Ops/3:
					if x := pickCtx(rng); x != nil {
						var chs []chan map[string]interface{}
						seq := [][]string{{"rebuild", "cancel", "dispose"}, {"rebuild", "cancel"}, {"rebuild", "dispose"}, {"rebuild", "rebuild", "cancel", "rebuild"}, {"cancel", "rebuild", "dispose", "rebuild"}}[rng.Intn(5)]
						for _, cmd := range seq {
							chs = append(chs, c.start(cl, cmd, x.key, "", map[string]interface{}{"key": x.key}))
						}
						for _, ch := range chs {
							r = c.await(ch)
						}
					} else {
						waited = false
					}
				case op == 22:
					cmu.Lock()
					n := len(ctxs)
					cmu.Unlock()
					if n < 4 {
						newContext(cl)
					}
					waited = false
				default:
					c.nap()
					waited = false
				}
				if waited && r == nil {
					return
				}
			}
		}(cl)
	}
	wg.Wait()
	// end of history
	switch p.EOFMode {
	case 4:
		c.closeInput() // (already closed unless the history was shorter than the chosen point)
	case 0, 1, 2:
		cmu.Lock()
		all := append([]*sctx{}, ctxs...)
		cmu.Unlock()
		for _, x := range all {
			c.request(0, "dispose", x.key, "final", map[string]interface{}{"key": x.key}, true)
		}
		if p.EOFMode >= 1 {
			// a burst of requests that need no host callback, not waited for, then EOF immediately
			for i := 0; i < 6; i++ {
				mk := fmt.Sprintf("burst_%d", i)
				c.request(0, "transform", -1, mk, map[string]interface{}{"flags": svcStrs("--loader=js", "--log-level=silent"), "inputFS": false, "input": []byte("export let " + mk + " = 1")}, false)
			}
		}
		if p.EOFMode == 2 {
			b := svcEncode(atomic.AddUint32(&c.nextID, 1), true, map[string]interface{}{"command": "transform", "flags": svcStrs("--loader=js"), "inputFS": false, "input": []byte("let truncated = 1")})
			c.send(svcOut{bytes: b, hold: 5 + c.rnd(len(b)-6), ev: svcEv{Dir: "send-truncated", Cmd: "transform", Key: -1, Cl: 0}})
		}
	case 3:
		// leave contexts alive: the host "disappears"
	}
	c.closeInput()
	if p.EOFMode == 3 || p.EOFMode == 4 {
		stdout.Close()
	}
	exitCh := make(chan error, 1)
	go func() {
		select {
		case <-c.rdone:
		case <-time.After(40 * time.Second):
		}
		exitCh <- cmd.Wait()
	}()
	select {
	case err := <-exitCh:
		res.exited = true
		if ee, ok := err.(*exec.ExitError); ok {
			res.exitCode = ee.ExitCode()
		}
	case <-time.After(45 * time.Second):
		res.hung = true
		cmd.Process.Signal(os.Interrupt)
		cmd.Process.Kill()
		<-exitCh
	}
	res.timeouts = int(atomic.LoadInt32(&c.watchdog))
	res.aborted = int(atomic.LoadInt32(&c.aborted))
	c.lmu.Lock()
	res.log = append([]svcEv{}, c.log...)
	c.lmu.Unlock()
	res.stderr = stderr.String()
	res.badProto = c.badProto
	return res
}

// ---- offline checker over the packet log

func checkServiceLog(p svcParams, res svcResult) (viols []c20Viol, patterns map[string]int) {
	patterns = map[string]int{}
	v := func(sig, what string) { viols = append(viols, c20Viol{sig, what}) }
	evs := res.log
	if res.badProto != "" {
		v("service-malformed-stream", res.badProto)
	}
	if strings.Contains(res.stderr, "panic:") || strings.Contains(res.stderr, "Internal error") || strings.Contains(res.stderr, "fatal error:") {
		v("service-crashed", "the service process printed a panic/internal error: "+trunc(res.stderr, 600))
	}
	var eofTick uint64
	for _, e := range evs {
		if e.Dir == "eof" {
			eofTick = e.Tick
		}
	}
	// 1. pairing: every fully sent request has exactly one response with its id; no foreign ids
	type reqInfo struct {
		ev    svcEv
		resps []svcEv
	}
	reqs := map[uint32]*reqInfo{}
	var order []uint32
	failed := map[uint32]bool{}
	for _, e := range evs {
		if e.Dir == "send-failed" {
			failed[e.ID] = true // the write returned an error (the process was gone): not sent
		}
	}
	for _, e := range evs {
		if e.Dir == "send" && e.Req && !failed[e.ID] {
			reqs[e.ID] = &reqInfo{ev: e}
			order = append(order, e.ID)
		}
	}
	// The first dispose request sent for a key is the one that disposes; esbuild answers any later
	// dispose/cancel for that key at once ("only dispose once"), and refuses rebuilds.
	firstDispose := map[int]uint32{}
	for _, id := range order {
		if ri := reqs[id]; ri.ev.Cmd == "dispose" && ri.ev.Info != "unknown-key" {
			if _, ok := firstDispose[ri.ev.Key]; !ok {
				firstDispose[ri.ev.Key] = id
			}
		}
	}
	for _, e := range evs {
		if e.Dir == "recv" && !e.Req {
			if ri := reqs[e.ID]; ri != nil {
				ri.resps = append(ri.resps, e)
			} else {
				v("service-response-with-foreign-id", fmt.Sprintf("a response arrived carrying id %d, which no fully sent request used", e.ID))
			}
		}
	}
	for _, id := range order {
		ri := reqs[id]
		switch {
		case len(ri.resps) > 1:
			v("service-request-answered-twice:"+ri.ev.Cmd, fmt.Sprintf("request %d (%s) received %d responses", id, ri.ev.Cmd, len(ri.resps)))
		case len(ri.resps) == 0:
			if p.EOFMode == 3 {
				break // the host went away; nothing can be delivered
			}
			if res.hung {
				v("service-request-never-answered:"+ri.ev.Cmd, fmt.Sprintf("request %d (%s) was fully sent but never answered and the process did not exit", id, ri.ev.Cmd))
			} else {
				v("service-request-never-answered:"+ri.ev.Cmd, fmt.Sprintf("request %d (%s, key %d) was fully sent before stdin was closed but the process exited without answering it", id, ri.ev.Cmd, ri.ev.Key))
			}
		default:
			patterns["answered:"+ri.ev.Cmd]++
			if eofTick != 0 && ri.resps[0].Tick > eofTick {
				patterns["answered-after-stdin-eof"]++
			}
		}
	}
	// esbuild's own requests: ids unique
	seenOwn := map[uint32]bool{}
	for _, e := range evs {
		if e.Dir == "recv" && e.Req {
			if seenOwn[e.ID] {
				v("service-own-request-id-reused", fmt.Sprintf("esbuild sent two requests with id %d", e.ID))
			}
			seenOwn[e.ID] = true
			if e.Info == "unknown-command" {
				v("service-unknown-own-request", "esbuild sent a request with unknown command "+e.Cmd)
			}
		}
	}
	// 2. termination
	if res.hung {
		v("service-does-not-exit", fmt.Sprintf("the service did not exit within 45 s after stdin was closed (eof mode %d)", p.EOFMode))
	} else if p.EOFMode != 3 && p.EOFMode != 4 && res.exitCode != 0 {
		v("service-exit-status", fmt.Sprintf("the service exited with status %d after an orderly stdin EOF; stderr: %s", res.exitCode, trunc(res.stderr, 300)))
	}
	// 3. per-key build structure from the on-* traffic
	type binfo struct {
		start, startResp, end, endResp uint64
		loads                          map[string]int
		ends                           int
		firstWork                      uint64
		endInfo                        string
	}
	builds := map[int]map[int64]*binfo{}
	get := func(key int, seq int64) *binfo {
		if builds[key] == nil {
			builds[key] = map[int64]*binfo{}
		}
		if builds[key][seq] == nil {
			builds[key][seq] = &binfo{loads: map[string]int{}}
		}
		return builds[key][seq]
	}
	disposeResp := map[int]uint64{}
	// Once stdin is closed the host can no longer answer: esbuild's callbacks fail at once by design, so the
	// callback-order and result-identity clauses are judged on the part of the history before the EOF.
	cut := ^uint64(0)
	if eofTick != 0 {
		cut = eofTick
	}
	for _, e := range evs {
		if e.Tick > cut {
			continue
		}
		switch {
		case e.Dir == "recv" && e.Req && e.Cmd == "on-start":
			b := get(e.Key, e.A)
			b.start = e.Tick
			// mutual exclusion: the previous build of this key must have ended
			if prev := builds[e.Key][e.A-1]; prev != nil && prev.endResp == 0 {
				v("service-builds-overlap", fmt.Sprintf("key %d: build %d started before the on-end callback of build %d had been answered", e.Key, e.A, e.A-1))
			}
		case e.Dir == "send" && !e.Req && e.Cmd == "on-start":
			get(e.Key, e.A).startResp = e.Tick
		case e.Dir == "recv" && e.Req && (e.Cmd == "on-resolve" || e.Cmd == "on-load"):
			b := get(e.Key, e.A)
			if b.firstWork == 0 {
				b.firstWork = e.Tick
			}
			if b.startResp == 0 || b.startResp > e.Tick {
				v("service-resolve-or-load-before-on-start-finished", fmt.Sprintf("key %d build %d: %s of %s arrived before the on-start callback had been answered", e.Key, e.A, e.Cmd, e.Info))
			}
			if b.end != 0 {
				v("service-callback-after-on-end", fmt.Sprintf("key %d build %d: %s of %s arrived after on-end", e.Key, e.A, e.Cmd, e.Info))
			}
			if e.Cmd == "on-load" {
				b.loads[e.Info]++
				if b.loads[e.Info] == 2 {
					v("service-module-loaded-twice", fmt.Sprintf("key %d build %d: module %s was loaded twice", e.Key, e.A, e.Info))
				}
			}
		case e.Dir == "recv" && e.Req && e.Cmd == "on-end":
			b := get(e.Key, e.A)
			b.ends++
			b.end = e.Tick
			b.endInfo = e.Info
			if b.ends == 2 {
				v("service-on-end-twice", fmt.Sprintf("key %d build %d: on-end arrived twice", e.Key, e.A))
			}
			stamps := strings.Split(strings.Split(e.Info, "|")[0], ",")
			for _, s := range stamps {
				if s != "" && s != fmt.Sprintf("%d/%d", e.Key, e.A) {
					v("service-result-mixes-builds", fmt.Sprintf("key %d build %d: the outputs handed to on-end carry stamps %s", e.Key, e.A, e.Info))
					break
				}
			}
		case e.Dir == "send" && !e.Req && e.Cmd == "on-end":
			get(e.Key, e.A).endResp = e.Tick
		case e.Dir == "recv" && !e.Req && e.Cmd == "dispose":
			if ri := reqs[e.ID]; ri != nil && firstDispose[ri.ev.Key] == e.ID {
				disposeResp[ri.ev.Key] = e.Tick
			}
		}
	}
	for _, e := range evs {
		if e.Dir == "recv" && e.Req && e.Key >= 0 && strings.HasPrefix(e.Cmd, "on-") {
			if t, ok := disposeResp[e.Key]; ok && e.Tick > t {
				v("service-work-after-dispose", fmt.Sprintf("key %d: %s arrived after the dispose request had been answered", e.Key, e.Cmd))
			}
		}
	}
	// 4. rebuild / cancel / dispose responses against the build intervals
	lastEditBefore := func(t uint64) int64 {
		var ver int64 = 1
		for _, e := range evs {
			if e.Dir == "edit" && e.Tick < t && e.B > ver {
				ver = e.B
			}
		}
		return ver
	}
	doneTick := map[string]uint64{}
	for _, id := range order {
		ri := reqs[id]
		if ri.ev.Cmd == "rebuild" && len(ri.resps) == 1 {
			if m := reSvcEnd.FindStringSubmatch(ri.resps[0].Info); m != nil {
				k := m[1] + "/" + m[2]
				if t, ok := doneTick[k]; !ok || ri.resps[0].Tick < t {
					doneTick[k] = ri.resps[0].Tick
				}
			}
		}
	}
	for _, id := range order {
		ri := reqs[id]
		if len(ri.resps) != 1 {
			continue
		}
		resp := ri.resps[0]
		key := ri.ev.Key
		if resp.Tick > cut {
			switch ri.ev.Cmd {
			case "rebuild", "build", "cancel", "dispose":
				patterns["answered-after-eof:"+ri.ev.Cmd]++
				continue // answered (that is checked above); its build could not talk to the host any more
			}
		}
		switch ri.ev.Cmd {
		case "transform", "format-msgs", "analyze-metafile":
			// the payload must be the answer to *this* request
			if !strings.Contains(resp.Info, ri.ev.Info) {
				v("service-response-belongs-to-another-request:"+ri.ev.Cmd, fmt.Sprintf("the response to %s request %d (marker %s) carries %s", ri.ev.Cmd, id, ri.ev.Info, trunc(resp.Info, 200)))
			}
		case "bogus-command":
			if !strings.Contains(resp.Info, "error:Invalid command") {
				v("service-invalid-command-accepted", "an invalid command was answered with "+trunc(resp.Info, 200))
			}
		case "build":
			if ri.ev.Info == "oneshot" && !strings.Contains(resp.Info, "|errors") {
				want := fmt.Sprintf("|stamps:%d/1", key)
				if !strings.Contains(resp.Info, want) || strings.Contains(resp.Info, ",") {
					v("service-result-mixes-builds", fmt.Sprintf("one-shot build with key %d returned outputs stamped %s", key, trunc(resp.Info, 200)))
				}
			}
		case "rebuild":
			if ri.ev.Info == "unknown-key" {
				if !strings.Contains(resp.Info, "error:Cannot rebuild") {
					v("service-rebuild-on-unknown-key", "rebuild on a key that names no build was answered with "+trunc(resp.Info, 200))
				}
				break
			}
			if strings.Contains(resp.Info, "error:Cannot rebuild") {
				patterns["rebuild-refused"]++
				break
			}
			m := reSvcEnd.FindStringSubmatch(resp.Info)
			if m == nil {
				v("service-rebuild-empty-result", fmt.Sprintf("key %d: a rebuild request was answered with neither a build's result nor a refusal: %s", key, trunc(resp.Info, 200)))
				break
			}
			var bk int
			var bseq, bver int64
			fmt.Sscanf(m[1], "%d", &bk)
			fmt.Sscanf(m[2], "%d", &bseq)
			fmt.Sscanf(m[3], "%d", &bver)
			b := builds[key][bseq]
			if bk != key || b == nil {
				v("service-rebuild-result-of-foreign-build", fmt.Sprintf("key %d: rebuild answered with the result of build k%d/b%d", key, bk, bseq))
				break
			}
			// A build is certainly over once a response carrying its result has been received (the exact end,
			// between the answer to on-end and that response, is not visible from outside the process).
			done := doneTick[fmt.Sprint(key, "/", bseq)]
			switch {
			case done != 0 && done < ri.ev.Tick:
				v("service-rebuild-stale-result", fmt.Sprintf("key %d: the rebuild request sent at tick %d was answered with build %d, whose result had already been delivered at tick %d", key, ri.ev.Tick, bseq, done))
			case b.start > ri.ev.Tick:
				patterns["rebuild-started-by-request"]++
				if want := lastEditBefore(ri.ev.Tick); bver < want {
					v("service-rebuild-misses-earlier-edit", fmt.Sprintf("key %d: rebuild sent after edit v%d started build %d, which read v%d", key, want, bseq, bver))
				}
			default:
				patterns["rebuild-joined-running-build"]++
			}
			if strings.Contains(resp.Info, "|errors") {
				patterns["rebuild-with-errors"]++
			}
		case "cancel", "dispose":
			if ri.ev.Info == "unknown-key" {
				break
			}
			if fd, ok := firstDispose[key]; ok && fd != id && reqs[fd].ev.Tick < ri.ev.Tick {
				patterns[ri.ev.Cmd+"-after-dispose-request"]++
				break // answered at once by design; the first dispose request does the waiting
			}
			for seq, b := range builds[key] {
				if b.start != 0 && b.start < ri.ev.Tick && (b.end == 0 || b.end > resp.Tick) {
					v("service-"+ri.ev.Cmd+"-answered-while-build-running", fmt.Sprintf("key %d: the %s request sent at tick %d was answered at %d although build %d (on-start at %d) had not reached on-end (%d)", key, ri.ev.Cmd, ri.ev.Tick, resp.Tick, seq, b.start, b.end))
				}
			}
			patterns[ri.ev.Cmd]++
		}
	}
	return
}

// rebuild responses carry the end stamp of the build they belong to (the host adds it as an on-end warning);
// this needs the decoded response, which the log does not keep, so it is checked online by the client:
// see svcRebuildCheck below, fed from runServiceHistory through the log's Info field.

func c20Service(r *Run, logDir string) {
	self, _ := os.Executable()
	bin := filepath.Join(filepath.Dir(self), "esbuild-race")
	if _, err := os.Stat(bin); err != nil {
		r.Inconclusive("esbuild-race binary missing")
		return
	}
	vb, err := os.ReadFile(filepath.Join(repoRoot(), "version.txt"))
	if err != nil {
		r.Inconclusive("version.txt unreadable")
		return
	}
	version := strings.TrimSpace(string(vb))
	n := r.pick(120, 2400)
	scratch, _ := os.MkdirTemp("/tmp", "verif-c20svc-")
	defer os.RemoveAll(scratch)
	var idx int64 = -1
	var wg sync.WaitGroup
	var mu sync.Mutex
	patterns := map[string]int{}
	inter := map[uint64]bool{}
	packets := 0
	for w := 0; w < 6; w++ {
		wg.Add(1)
		go func() {
			defer wg.Done()
			for {
				i := int(atomic.AddInt64(&idx, 1))
				if i >= n {
					return
				}
				rng := newRng(r.Seed, fmt.Sprint("c20svc", i))
				p := svcParams{Clients: []int{1, 2, 4, 8}[rng.Intn(4)], Ops: 6 + rng.Intn(20), Seed: r.Seed*1000003 + uint64(i), FailRate: []int{0, 0, 80}[rng.Intn(3)], EOFMode: []int{0, 4, 1, 4, 2, 3, 0, 1}[i%8]}
				dir := filepath.Join(scratch, fmt.Sprint("s", i))
				os.MkdirAll(dir, 0o755)
				res := runServiceHistory(bin, version, p, dir, filepath.Join(logDir, "race-svc"))
				os.RemoveAll(dir)
				vs, pats := checkServiceLog(p, res)
				mu.Lock()
				packets += len(res.log)
				for k, c := range pats {
					patterns[k] += c
				}
				if res.timeouts > 0 {
					patterns["client-watchdog"] += res.timeouts
				}
				if res.aborted > 0 {
					patterns["client-aborted-process-gone"] += res.aborted
				}
				var sb strings.Builder
				for _, e := range res.log {
					sb.WriteString(fmt.Sprint(e.Dir, e.Cmd, e.Req, e.Key, "|"))
				}
				inter[hash64(sb.String())] = true
				mu.Unlock()
				r.Eval(1)
				for _, v := range vs {
					r.Violation("concurrency:"+v.Sig, v.What, map[string]interface{}{"params": p, "packet_log": res.log, "stderr": trunc(res.stderr, 2000)})
				}
				if i < 2 {
					r.Sample(map[string]interface{}{"kind": "service-history", "params": p, "packet_log_head": headSvc(res.log, 16)})
				}
			}
		}()
	}
	wg.Wait()
	r.Count("service_histories", n)
	r.Count("service_packets_logged", packets)
	r.Count("service_distinct_packet_orders", len(inter))
	for k := range inter {
		r.Nontrivial(fmt.Sprint("svc", k))
	}
	keys := []string{}
	for k := range patterns {
		keys = append(keys, k)
	}
	sort.Strings(keys)
	for _, k := range keys {
		r.Count("service_pattern:"+k, patterns[k])
	}
	for _, need := range []string{"answered:transform", "answered:build", "answered:rebuild", "answered:cancel", "answered:dispose", "answered-after-stdin-eof", "rebuild-joined-running-build", "rebuild-started-by-request", "cancel", "dispose"} {
		if patterns[need] == 0 {
			r.Inconclusive("service pattern never observed: " + need)
		}
	}
	if patterns["client-watchdog"] > 0 {
		r.Inconclusive(fmt.Sprintf("%d service requests hit the 90 s client watchdog", patterns["client-watchdog"]))
	}
}

func headSvc(a []svcEv, n int) []svcEv {
	if len(a) > n {
		return a[:n]
	}
	return a
}

var _ = json.Marshal
