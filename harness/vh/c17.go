package main

import (
	"crypto/sha256"
	"encoding/hex"
	"fmt"
	"os"
	"path/filepath"
	"sort"
	"strings"
	"sync/atomic"
	"syscall"
	"time"

	"github.com/evanw/esbuild/pkg/api"
)

func init() { registry["C17"] = checkC17 }

type fsEntry struct {
	Kind   string // file | dir | symlink
	Digest string
	Inode  uint64
	Target string
}

func fsSnapshot(root string) map[string]fsEntry {
	snap := map[string]fsEntry{}
	filepath.Walk(root, func(p string, info os.FileInfo, err error) error {
		if err != nil {
			return nil
		}
		rel, _ := filepath.Rel(root, p)
		li, lerr := os.Lstat(p)
		if lerr != nil {
			return nil
		}
		var ino uint64
		if st, ok := li.Sys().(*syscall.Stat_t); ok {
			ino = st.Ino
		}
		switch {
		case li.Mode()&os.ModeSymlink != 0:
			t, _ := os.Readlink(p)
			snap[rel] = fsEntry{Kind: "symlink", Target: t, Inode: ino}
		case li.IsDir():
			snap[rel] = fsEntry{Kind: "dir", Inode: ino}
		default:
			b, _ := os.ReadFile(p)
			sum := sha256.Sum256(b)
			snap[rel] = fsEntry{Kind: "file", Digest: hex.EncodeToString(sum[:8]), Inode: ino}
		}
		return nil
	})
	return snap
}

type fsDiff struct{ Created, Modified, Deleted []string }

func fsCompare(a, b map[string]fsEntry) fsDiff {
	var d fsDiff
	for p, eb := range b {
		ea, ok := a[p]
		if !ok {
			if eb.Kind != "dir" {
				d.Created = append(d.Created, p)
			}
		} else if ea.Kind != eb.Kind || ea.Digest != eb.Digest || ea.Target != eb.Target {
			d.Modified = append(d.Modified, p)
		}
	}
	for p, ea := range a {
		if _, ok := b[p]; !ok && ea.Kind != "dir" {
			d.Deleted = append(d.Deleted, p)
		}
	}
	sort.Strings(d.Created)
	sort.Strings(d.Modified)
	sort.Strings(d.Deleted)
	return d
}

type c17Scenario struct {
	Name  string
	Opts  func(root string, o *api.BuildOptions)
	Setup func(root string)
}

func c17Tree() map[string]string {
	return map[string]string{
		"/src/a.js":          "import {b} from './b.js';\nimport img from './img.png';\nimport './style.css';\nconsole.log(b, img);\nexport const a = 1;\n",
		"/src/b.js":          "export const b = 'b';\n",
		"/src/img.png":       "\x89PNG-original-bytes",
		"/src/style.css":     "body { color: red; background: url(./img.png) }\n",
		"/src/app/main.js":   "import {b} from '../b.js';\nconsole.log('main', b);\n",
		"/src/entry.js":      "console.log('entry directly in src');\n",
		"/src/data.txt":      "original text asset",
		"/unrelated/keep.js": "// an unrelated file that no build may touch\n",
		"/build/entry.js":    "// a pre-existing unrelated file next to the output directory\n",
	}
}

func c17Scenarios() []c17Scenario {
	ep := func(root string, rels ...string) []string {
		var out []string
		for _, r := range rels {
			out = append(out, filepath.Join(root, r))
		}
		return out
	}
	return []c17Scenario{
		{"plain-outdir", func(root string, o *api.BuildOptions) { o.EntryPoints, o.Outdir = ep(root, "src/a.js"), filepath.Join(root, "out") }, nil},
		{"outdir-is-source-dir", func(root string, o *api.BuildOptions) { o.EntryPoints, o.Outdir = ep(root, "src/a.js"), filepath.Join(root, "src") }, nil},
		{"outdir-is-source-dir-unbundled", func(root string, o *api.BuildOptions) {
			o.EntryPoints, o.Outdir, o.Bundle = ep(root, "src/a.js", "src/b.js"), filepath.Join(root, "src"), false
		}, nil},
		{"outdir-inside-source-dir", func(root string, o *api.BuildOptions) { o.EntryPoints, o.Outdir = ep(root, "src/a.js"), filepath.Join(root, "src/dist") }, nil},
		{"out-extension-mjs", func(root string, o *api.BuildOptions) {
			o.EntryPoints, o.Outdir, o.OutExtension = ep(root, "src/a.js"), filepath.Join(root, "src"), map[string]string{".js": ".mjs"}
		}, nil},
		{"outfile-is-input", func(root string, o *api.BuildOptions) { o.EntryPoints, o.Outfile = ep(root, "src/a.js"), filepath.Join(root, "src/b.js") }, nil},
		{"outfile-is-entry", func(root string, o *api.BuildOptions) { o.EntryPoints, o.Outfile = ep(root, "src/a.js"), filepath.Join(root, "src/a.js") }, nil},
		{"copy-loader-onto-itself", func(root string, o *api.BuildOptions) {
			o.EntryPoints, o.Outdir = ep(root, "src/a.js"), filepath.Join(root, "src")
			o.Loader = map[string]api.Loader{".png": api.LoaderCopy}
			o.AssetNames = "[name]"
		}, nil},
		{"file-loader-name-equals-source", func(root string, o *api.BuildOptions) {
			o.EntryPoints, o.Outdir = ep(root, "src/a.js"), filepath.Join(root, "src")
			o.Loader = map[string]api.Loader{".png": api.LoaderFile}
			o.AssetNames = "[name]"
		}, nil},
		{"copy-entry-point-onto-itself", func(root string, o *api.BuildOptions) {
			o.EntryPoints, o.Outdir = ep(root, "src/data.txt", "src/a.js"), filepath.Join(root, "src")
			o.Loader = map[string]api.Loader{".txt": api.LoaderCopy}
		}, nil},
		{"outbase-maps-entry-onto-itself", func(root string, o *api.BuildOptions) {
			o.EntryPoints, o.Outdir, o.Outbase = ep(root, "src/app/main.js"), filepath.Join(root, "src"), filepath.Join(root, "src")
		}, nil},
		{"outbase-below-entry", func(root string, o *api.BuildOptions) {
			o.EntryPoints, o.Outdir, o.Outbase = ep(root, "src/entry.js", "src/app/main.js"), filepath.Join(root, "build/out"), filepath.Join(root, "src/app")
		}, nil},
		{"entry-names-dir-template", func(root string, o *api.BuildOptions) {
			o.EntryPoints, o.Outdir, o.EntryNames = ep(root, "src/a.js", "src/app/main.js"), filepath.Join(root, "out"), "[dir]/[name]"
		}, nil},
		{"two-entries-same-output-name", func(root string, o *api.BuildOptions) {
			o.EntryPoints, o.Outdir, o.EntryNames = ep(root, "src/entry.js", "src/app/main.js"), filepath.Join(root, "out"), "same"
		}, nil},
		{"symlinked-outdir-to-source", func(root string, o *api.BuildOptions) { o.EntryPoints, o.Outdir = ep(root, "src/a.js"), filepath.Join(root, "link") },
			func(root string) { os.Symlink("src", filepath.Join(root, "link")) }},
		{"output-path-is-symlink-to-input", func(root string, o *api.BuildOptions) { o.EntryPoints, o.Outdir = ep(root, "src/a.js"), filepath.Join(root, "out") },
			func(root string) { os.MkdirAll(filepath.Join(root, "out"), 0o755); os.Symlink("../src/a.js", filepath.Join(root, "out/a.js")) }},
		{"output-path-is-symlink-to-unrelated", func(root string, o *api.BuildOptions) { o.EntryPoints, o.Outdir = ep(root, "src/a.js"), filepath.Join(root, "out") },
			func(root string) { os.MkdirAll(filepath.Join(root, "out"), 0o755); os.Symlink("../unrelated/keep.js", filepath.Join(root, "out/a.js")) }},
		{"entry-through-symlinked-dir", func(root string, o *api.BuildOptions) { o.EntryPoints, o.Outdir = ep(root, "link/a.js"), filepath.Join(root, "src") },
			func(root string) { os.Symlink("src", filepath.Join(root, "link")) }},
		{"entry-below-symlinked-dir", func(root string, o *api.BuildOptions) {
			// an ordinary sub-directory below a symlinked directory: the input is link/app/main.js, the output location names it through the real directory
			o.EntryPoints, o.Outdir = ep(root, "link/app/main.js"), filepath.Join(root, "src/app")
		}, func(root string) { os.Symlink("src", filepath.Join(root, "link")) }},
		{"import-below-symlinked-package-dir", func(root string, o *api.BuildOptions) {
			// a workspace package linked into node_modules and imported by a sub-path two directories deep; the bundle's output lands on the real file
			o.EntryPoints, o.Outdir, o.EntryNames = ep(root, "wrap/main.js"), filepath.Join(root, "src/app"), "[name]"
		}, func(root string) {
			os.MkdirAll(filepath.Join(root, "wrap/node_modules"), 0o755)
			os.Symlink("../../src", filepath.Join(root, "wrap/node_modules/ws"))
			os.WriteFile(filepath.Join(root, "wrap/main.js"), []byte("import 'ws/app/main.js';\nconsole.log('wrapper');\n"), 0o644)
		}},
		{"entry-through-symlinked-dir-preserve", func(root string, o *api.BuildOptions) {
			o.EntryPoints, o.Outdir, o.PreserveSymlinks = ep(root, "link/a.js"), filepath.Join(root, "src"), true
		}, func(root string) { os.Symlink("src", filepath.Join(root, "link")) }},
		{"splitting-outdir-is-source", func(root string, o *api.BuildOptions) {
			o.EntryPoints, o.Outdir, o.Splitting, o.Format = ep(root, "src/a.js", "src/app/main.js"), filepath.Join(root, "src"), true, api.FormatESModule
			o.ChunkNames = "b"
		}, nil},
		{"css-entry-outdir-is-source", func(root string, o *api.BuildOptions) { o.EntryPoints, o.Outdir = ep(root, "src/style.css"), filepath.Join(root, "src") }, nil},
		{"sourcemap-and-legal-next-to-sources", func(root string, o *api.BuildOptions) {
			o.EntryPoints, o.Outdir, o.Sourcemap, o.LegalComments = ep(root, "src/a.js"), filepath.Join(root, "src/dist"), api.SourceMapLinked, api.LegalCommentsLinked
		}, nil},
	}
}

type c17Fault struct {
	Name  string
	Apply func(root string, o *api.BuildOptions)
	// expectation class: "ok" (may succeed), "fails-before-write", "fails-in-on-end"
	Class string
}

func c17Faults() []c17Fault {
	return []c17Fault{
		{"none", func(root string, o *api.BuildOptions) {}, "ok"},
		{"syntax-error", func(root string, o *api.BuildOptions) { os.WriteFile(filepath.Join(root, "src/b.js"), []byte("export const b = ;\n"), 0o644) }, "fails-before-write"},
		{"unresolved-import", func(root string, o *api.BuildOptions) {
			os.WriteFile(filepath.Join(root, "src/b.js"), []byte("import './does-not-exist.js';\nexport const b = 1;\n"), 0o644)
		}, "fails-before-write"},
		{"missing-export", func(root string, o *api.BuildOptions) {
			os.WriteFile(filepath.Join(root, "src/b.js"), []byte("import {nope} from './img-missing-export.js';\nexport const b = nope;\n"), 0o644)
			os.WriteFile(filepath.Join(root, "src/img-missing-export.js"), []byte("export const other = 1;\n"), 0o644)
		}, "fails-before-write"},
		{"on-end-error", func(root string, o *api.BuildOptions) {
			o.Plugins = append(o.Plugins, api.Plugin{Name: "end-fails", Setup: func(b api.PluginBuild) {
				b.OnEnd(func(res *api.BuildResult) (api.OnEndResult, error) { return api.OnEndResult{}, fmt.Errorf("on-end failure") })
			}})
		}, "fails-in-on-end"},
		{"on-start-error", func(root string, o *api.BuildOptions) {
			o.Plugins = append(o.Plugins, api.Plugin{Name: "start-fails", Setup: func(b api.PluginBuild) {
				b.OnStart(func() (api.OnStartResult, error) { return api.OnStartResult{}, fmt.Errorf("on-start failure") })
			}})
		}, "fails-before-write"},
		{"on-load-error", func(root string, o *api.BuildOptions) {
			o.Plugins = append(o.Plugins, api.Plugin{Name: "load-fails", Setup: func(b api.PluginBuild) {
				b.OnLoad(api.OnLoadOptions{Filter: `b\.js$`}, func(a api.OnLoadArgs) (api.OnLoadResult, error) { return api.OnLoadResult{}, fmt.Errorf("on-load failure") })
			}})
		}, "fails-before-write"},
	}
}

func checkC17(r *Run) {
	r.Rule("a project on a real directory × 20 output-location scenarios in which outputs can coincide with inputs (outdir = / inside the source dir, out-extension, outfile = input, copy/file loader names equal to sources, outbase mappings, name templates, symlinked outdir and entry directories, splitting, css, source maps and legal files) × write on/off × allow-overwrite × 7 fault injections (scan, link, plugin on-start/on-load/on-end) × cancelled builds × rebuild histories that add and remove entry points; " +
		"monitor: lstat/SHA-256/inode snapshots of the whole tree before and after, compared with BuildResult.OutputFiles and a per-context ledger of written paths; non-trivial = distinct (scenario, fault, write, allow-overwrite) combination, distinct history prefix (context changes and faults so far) or distinct CLI invocation; the CLI half runs the real binary under strace -f and checks every mutating system call (open for write, unlink, rename, mkdir, …) against the outputs the run reports")
	r.Assume("on-end callbacks run after outputs are written, so a build that fails only in on-end is checked against 'exactly the reported outputs were written'")
	scratch, _ := os.MkdirTemp("/tmp", "verif-c17-")
	defer os.RemoveAll(scratch)
	scenarios, faults := c17Scenarios(), c17Faults()
	type combo struct {
		s     c17Scenario
		f     c17Fault
		write bool
		allow bool
	}
	var combos []combo
	for _, s := range scenarios {
		for _, f := range faults {
			for _, w := range []bool{true, false} {
				for _, a := range []bool{false, true} {
					if !w && a {
						continue
					}
					combos = append(combos, combo{s, f, w, a})
				}
			}
		}
	}
	var builds, changedPaths int64
	parallel(len(combos), 16, func(i int) {
		c := combos[i]
		root := filepath.Join(scratch, fmt.Sprint("c", i))
		writeTree(root, c17Tree())
		if c.s.Setup != nil {
			c.s.Setup(root)
		}
		defer os.RemoveAll(root)
		opts := api.BuildOptions{Bundle: true, Write: c.write, AllowOverwrite: c.allow, AbsWorkingDir: root, LogLevel: api.LogLevelSilent, Metafile: true,
			Loader: map[string]api.Loader{".png": api.LoaderFile, ".txt": api.LoaderText}}
		c.s.Opts(root, &opts)
		c.f.Apply(root, &opts)
		before := fsSnapshot(root)
		res := api.Build(opts)
		after := fsSnapshot(root)
		d := fsCompare(before, after)
		atomic.AddInt64(&builds, 1)
		atomic.AddInt64(&changedPaths, int64(len(d.Created)+len(d.Modified)+len(d.Deleted)))
		r.Eval(1)
		label := fmt.Sprintf("%s/%s/write=%v/allow-overwrite=%v", c.s.Name, c.f.Name, c.write, c.allow)
		r.Nontrivial(label)
		c17Judge(r, root, label, c.s.Name, c.f, opts, res, before, after, d, nil)
		if i%97 == 0 {
			r.Sample(map[string]interface{}{"combination": label, "errors": msgTexts(res.Errors), "created": d.Created, "modified": d.Modified, "deleted": d.Deleted})
		}
	})
	// cancelled builds and rebuild histories
	c17Histories(r, scratch, &builds)
	c17CLI(r, scratch)
	r.Count("builds_observed", int(builds))
	r.Count("changed_paths_explained", int(changedPaths))
	r.Count("scenarios", len(scenarios))
	r.Count("fault_injections", len(faults))
	if builds < int64(len(combos)) {
		r.Inconclusive("not every combination ran")
	}
}

// c17Judge applies the rules to one build. ledger (may be nil) holds the paths this context wrote earlier.
func c17Judge(r *Run, root, label, scenario string, f c17Fault, opts api.BuildOptions, res api.BuildResult, before, after map[string]fsEntry, d fsDiff, ledger map[string]bool) {
	viol := func(kind, msg string) {
		r.Violation("fs:"+kind+":"+scenario+":"+f.Name, msg+" ["+label+"]", map[string]interface{}{"combination": label, "errors": msgTexts(res.Errors), "created": d.Created, "modified": d.Modified, "deleted": d.Deleted, "reported_outputs": outputRels(root, res)})
	}
	reported := map[string][]byte{}
	for _, of := range res.OutputFiles {
		rel, _ := filepath.Rel(root, of.Path)
		if prev, ok := reported[rel]; ok && string(prev) != string(of.Contents) {
			viol("two-outputs-one-path", "two different outputs are reported for "+rel)
		}
		reported[rel] = of.Contents
	}
	hasErrors := len(res.Errors) > 0
	onlyOnEnd := hasErrors && f.Class == "fails-in-on-end"
	mayWrite := opts.Write && (!hasErrors || onlyOnEnd)
	// inputs: every regular file that existed before under src/ (by inode), i.e. anything the bundle may have read
	inputInodes := map[uint64]string{}
	for p, e := range before {
		if e.Kind == "file" && (strings.HasPrefix(p, "src/") || strings.HasPrefix(p, "unrelated/")) {
			inputInodes[e.Inode] = p
		}
	}
	realRel := func(rel string) string {
		if rp, err := filepath.EvalSymlinks(filepath.Join(root, rel)); err == nil {
			if rr, err := filepath.Rel(root, rp); err == nil {
				return rr
			}
		}
		return rel
	}
	reportedReal := map[string]bool{}
	for rel := range reported {
		reportedReal[realRel(rel)] = true
		reportedReal[rel] = true
	}
	for _, p := range append(append([]string{}, d.Created...), d.Modified...) {
		if !mayWrite {
			viol("write-without-permission", fmt.Sprintf("%s was created/modified although the build %s", p, map[bool]string{true: "reported errors", false: "had writing disabled"}[hasErrors]))
			continue
		}
		if !reportedReal[p] {
			viol("unreported-write", p+" was created/modified but is not one of the reported outputs")
		}
	}
	for _, p := range d.Modified {
		if e := before[p]; e.Kind == "file" && inputInodes[e.Inode] != "" && !opts.AllowOverwrite && strings.HasPrefix(p, "src/") {
			viol("input-overwritten", fmt.Sprintf("input file %s was overwritten without allow-overwrite", p))
		}
	}
	for _, p := range d.Deleted {
		if ledger == nil || !ledger[p] {
			viol("foreign-delete", p+" was deleted although this context never wrote it")
		} else if _, isOut := reported[p]; isOut {
			viol("deleted-current-output", p+" was deleted although it is an output of the current build")
		}
	}
	if mayWrite {
		for rel, c := range reported {
			b, err := os.ReadFile(filepath.Join(root, rel))
			if err != nil || string(b) != string(c) {
				viol("reported-output-missing", "reported output "+rel+" is not on disk with the reported bytes")
			}
		}
	}
	// outputs stay inside the output directory (none of the templates used here contains a parent-directory segment)
	outRoot := opts.Outdir
	if outRoot == "" && opts.Outfile != "" {
		outRoot = filepath.Dir(opts.Outfile)
	}
	if outRoot != "" {
		for rel := range reported {
			abs := filepath.Join(root, rel)
			if r2, err := filepath.Rel(outRoot, abs); err != nil || strings.HasPrefix(r2, "..") {
				viol("output-outside-outdir", "reported output "+rel+" lies outside the output directory")
			}
		}
	}
}

func outputRels(root string, res api.BuildResult) []string {
	var out []string
	for _, f := range res.OutputFiles {
		rel, _ := filepath.Rel(root, f.Path)
		out = append(out, rel)
	}
	sort.Strings(out)
	return out
}

// c17Histories: one context, entry points added and removed between rebuilds, failures in between, cancellation
func c17Histories(r *Run, scratch string, builds *int64) {
	n := r.pick(40, 600)
	parallel(n, 16, func(i int) {
		rng := newRng(r.Seed, fmt.Sprint("c17h", i))
		root := filepath.Join(scratch, fmt.Sprint("h", i))
		writeTree(root, c17Tree())
		defer os.RemoveAll(root)
		// a pre-existing file inside the output directory that the context never wrote
		writeFileAt(root, "out/preexisting.txt", "keep me")
		ledger := map[string]bool{}
		entrySets := [][]string{{"src/a.js"}, {"src/a.js", "src/app/main.js"}, {"src/app/main.js"}, {"src/entry.js", "src/a.js"}, {"src/entry.js"}}
		steps := 4 + rng.Intn(6)
		var hist []string
		slow := false
		var ctx api.BuildContext
		curEntries := -1
		for s := 0; s < steps; s++ {
			// contexts have fixed entry points: a change of the entry set is a new context over the same outdir (the ledger is per context)
			es := rng.Intn(len(entrySets))
			if ctx == nil || (es != curEntries && rng.Intn(2) == 0) {
				if ctx != nil {
					ctx.Dispose()
				}
				curEntries = es
				ledger = map[string]bool{}
				var eps []string
				for _, e := range entrySets[es] {
					eps = append(eps, filepath.Join(root, e))
				}
				opts := api.BuildOptions{EntryPoints: eps, Bundle: true, Write: true, Outdir: filepath.Join(root, "out"), AbsWorkingDir: root, LogLevel: api.LogLevelSilent, Splitting: i%2 == 0, Format: api.FormatESModule,
					Loader: map[string]api.Loader{".png": api.LoaderFile}, EntryNames: []string{"[name]", "[name]-[hash]"}[i%2],
					Plugins: []api.Plugin{{Name: "slow", Setup: func(b api.PluginBuild) {
						b.OnLoad(api.OnLoadOptions{Filter: `b\.js$`}, func(a api.OnLoadArgs) (api.OnLoadResult, error) {
							if slow {
								time.Sleep(30 * time.Millisecond)
							}
							return api.OnLoadResult{}, nil
						})
					}}}}
				var err *api.ContextError
				ctx, err = api.Context(opts)
				if err != nil {
					return
				}
				hist = append(hist, fmt.Sprint("new-context", entrySets[es]))
			}
			fault := c17Fault{Name: "none", Class: "ok"}
			switch rng.Intn(6) {
			case 0:
				os.WriteFile(filepath.Join(root, "src/b.js"), []byte("export const b = ;\n"), 0o644)
				fault = c17Fault{Name: "syntax-error", Class: "fails-before-write"}
			case 1, 2:
				os.WriteFile(filepath.Join(root, "src/b.js"), []byte(fmt.Sprintf("export const b = 'b%d';\n", s)), 0o644)
			case 3:
				fault = c17Fault{Name: "cancelled", Class: "fails-before-write"}
			}
			before := fsSnapshot(root)
			var res api.BuildResult
			if fault.Name == "cancelled" {
				slow = true
				done := make(chan struct{})
				go func() { res = ctx.Rebuild(); close(done) }()
				time.Sleep(8 * time.Millisecond)
				ctx.Cancel()
				<-done
				slow = false
			} else {
				res = ctx.Rebuild()
			}
			after := fsSnapshot(root)
			d := fsCompare(before, after)
			atomic.AddInt64(builds, 1)
			r.Eval(1)
			hist = append(hist, fault.Name)
			label := fmt.Sprintf("history %v", hist)
			r.Nontrivial(fmt.Sprint("history:", i%2, hist))
			opts := api.BuildOptions{Write: true, Outdir: filepath.Join(root, "out")}
			cancelled := false
			for _, e := range res.Errors {
				if strings.Contains(e.Text, "canceled") {
					cancelled = true
				}
			}
			if fault.Name == "cancelled" && !cancelled && len(res.Errors) == 0 {
				fault = c17Fault{Name: "cancel-came-too-late", Class: "ok"}
			}
			// a rebuild that fails deletes nothing it did not write; the ledger rule applies to deletions
			c17Judge(r, root, label, "rebuild-history", fault, opts, res, before, after, d, ledger)
			if len(res.Errors) == 0 {
				for _, of := range res.OutputFiles {
					rel, _ := filepath.Rel(root, of.Path)
					ledger[rel] = true
				}
			}
			if _, err := os.Stat(filepath.Join(root, "out/preexisting.txt")); err != nil {
				r.Violation("fs:foreign-delete:rebuild-history:preexisting", "a file in the output directory that the context never wrote was deleted ["+label+"]", map[string]interface{}{"history": hist})
			}
		}
		if ctx != nil {
			ctx.Dispose()
		}
	})
}
