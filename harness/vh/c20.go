package main

import (
	"encoding/json"
	"fmt"
	"io"
	"net/http"
	"os"
	"os/exec"
	"path/filepath"
	"regexp"
	"runtime"
	"sort"
	"strings"
	"sync"
	"sync/atomic"
	"time"

	"github.com/evanw/esbuild/pkg/api"
)

func init() {
	registry["C20"] = checkC20
	registry["C20CHILD"] = c20Child
	registry["C20SVC"] = func(r *Run) {
		logDir, _ := os.MkdirTemp("/tmp", "verif-c20race-")
		defer os.RemoveAll(logDir)
		c20Service(r, logDir)
		c20RaceReports(r, logDir)
	}
}

// ---- recorded history

type hev struct {
	Tick   uint64 `json:"t"`
	Client int    `json:"c"`
	Kind   string `json:"k"` // call:<op> ret:<op> edit on_start on_start_ret on_resolve on_load on_end build_begin build_end build_join
	A      uint64 `json:"a,omitempty"`
	B      uint64 `json:"b,omitempty"`
	S      string `json:"s,omitempty"`
}

type history struct {
	mu  sync.Mutex
	evs []hev
}

func (h *history) add(client int, kind string, a, b uint64, s string) uint64 {
	h.mu.Lock()
	t := api.VerifTick()
	h.evs = append(h.evs, hev{t, client, kind, a, b, s})
	h.mu.Unlock()
	return t
}

// snapshot returns a copy of the events recorded so far (late callbacks may still be appending).
func (h *history) snapshot() []hev {
	h.mu.Lock()
	defer h.mu.Unlock()
	return append([]hev{}, h.evs...)
}

var reStamp = regexp.MustCompile(`stamp:b(\d+):v(\d+)`)

type c20Params struct {
	Clients  int
	Ops      int
	Seed     uint64
	Write    bool
	FailRate int // per-mille of callbacks that fail
	Watch    bool
	Reenter  bool
	Inject   bool
	Serve    bool
}

type c20CtxState struct {
	curSeq  *uint64
	curVer  *int64
	version *int64
}

var c20States sync.Map // ctxID -> *c20CtxState

// runHistory executes one random history against one context and returns the recorded events.
func runHistory(p c20Params, scratch string) (h *history, ctxID uint64, hung bool, goroutineDump string) {
	h = &history{}
	var version int64 = 1
	var curSeq uint64 // valid while a build is running (builds of one context never overlap)
	var curVer int64
	var disposed, inflightDispose int32
	rngMu := sync.Mutex{}
	rng := newRng(p.Seed, "plugin")
	rnd := func(n int) int { rngMu.Lock(); defer rngMu.Unlock(); return rng.Intn(n) }
	nap := func() {
		switch rnd(6) {
		case 0:
			time.Sleep(time.Duration(rnd(1500)) * time.Microsecond)
		case 1:
			runtime.Gosched()
		}
	}
	files := []string{"entry", "a", "b", "c", "shim"}
	trigger := filepath.Join(scratch, "trigger.txt")
	os.WriteFile(trigger, []byte("v1"), 0o644)
	var servePort int32
	var served int32
	httpc := &http.Client{Timeout: 30 * time.Second, Transport: &http.Transport{DisableKeepAlives: true}}
	var serveRequests int64
	plugin := api.Plugin{Name: "store", Setup: func(b api.PluginBuild) {
		for k := 0; k < 2; k++ {
			k := k
			b.OnStart(func() (api.OnStartResult, error) {
				h.add(-1, "on_start", atomic.LoadUint64(&curSeq), uint64(k), "")
				nap()
				nap()
				h.add(-1, "on_start_ret", atomic.LoadUint64(&curSeq), uint64(k), "")
				if atomic.LoadInt32(&disposed) == 2 {
					h.add(-1, "callback_after_dispose", 0, 0, "on_start")
				}
				return api.OnStartResult{}, nil
			})
		}
		b.OnResolve(api.OnResolveOptions{Filter: `^virtual:`}, func(a api.OnResolveArgs) (api.OnResolveResult, error) {
			h.add(-1, "on_resolve", atomic.LoadUint64(&curSeq), 0, a.Path)
			nap()
			if p.Reenter && rnd(4) == 0 {
				b.Resolve("virtual:c", api.ResolveOptions{Kind: api.ResolveJSImportStatement, ResolveDir: scratch})
			}
			return api.OnResolveResult{Path: a.Path, Namespace: "store"}, nil
		})
		b.OnLoad(api.OnLoadOptions{Filter: `.*`, Namespace: "store"}, func(a api.OnLoadArgs) (api.OnLoadResult, error) {
			seq := atomic.LoadUint64(&curSeq)
			h.add(-1, "on_load", seq, 0, a.Path)
			nap()
			if p.FailRate > 0 && rnd(1000) < p.FailRate {
				return api.OnLoadResult{}, fmt.Errorf("injected load failure")
			}
			name := strings.TrimPrefix(a.Path, "virtual:")
			body := fmt.Sprintf("export const %s = \"stamp:b%d:v%d\";\n", name, seq, atomic.LoadInt64(&curVer))
			if name == "entry" {
				body = "import {a} from 'virtual:a'; import {b} from 'virtual:b'; import {c} from 'virtual:c';\nconsole.log(a, b, c);\n" + body
			}
			if name == "a" {
				body = "import {c} from 'virtual:c'; console.log(c);\n" + body
			}
			res := api.OnLoadResult{Contents: &body, ResolveDir: scratch}
			if p.Watch {
				res.WatchFiles = []string{trigger} // a real file the edit operation rewrites, so the watcher has something to detect
			}
			return res, nil
		})
		for k := 0; k < 2; k++ {
			k := k
			b.OnEnd(func(res *api.BuildResult) (api.OnEndResult, error) {
				seq := atomic.LoadUint64(&curSeq)
				missing := ""
				if p.Write && len(res.Errors) == 0 {
					for _, f := range res.OutputFiles {
						if b, err := os.ReadFile(f.Path); err != nil || string(b) != string(f.Contents) {
							missing = f.Path
						}
					}
				}
				h.add(-1, "on_end", seq, uint64(k), missing)
				nap()
				if atomic.LoadInt32(&disposed) == 2 {
					h.add(-1, "callback_after_dispose", 0, 0, "on_end")
				}
				return api.OnEndResult{}, nil
			})
		}
	}}
	opts := api.BuildOptions{EntryPoints: []string{"virtual:entry"}, Bundle: true, Write: p.Write, Outdir: filepath.Join(scratch, "out"), Plugins: []api.Plugin{plugin}, LogLevel: api.LogLevelSilent, AbsWorkingDir: scratch, Format: api.FormatESModule}
	if p.Inject {
		opts.Inject = []string{"virtual:shim"}
	}
	_ = files
	ctx, cerr := api.Context(opts)
	if cerr != nil {
		return h, 0, false, ""
	}
	ctxID = api.VerifContextID(ctx)
	c20States.Store(ctxID, &c20CtxState{&curSeq, &curVer, &version})
	defer c20States.Delete(ctxID)
	// hook events of this context
	var wg sync.WaitGroup
	done := make(chan struct{})
	for c := 0; c < p.Clients; c++ {
		wg.Add(1)
		go func(c int) {
			defer wg.Done()
			crng := newRng(p.Seed, fmt.Sprint("client", c))
			for i := 0; i < p.Ops; i++ {
				switch op := crng.Intn(20); {
				case op < 9:
					h.add(c, "call:rebuild", 0, 0, "")
					res := ctx.Rebuild()
					stamps := map[string]bool{}
					var bs uint64
					for _, f := range res.OutputFiles {
						for _, m := range reStamp.FindAllStringSubmatch(string(f.Contents), -1) {
							stamps[m[1]] = true
							fmt.Sscanf(m[1], "%d", &bs)
						}
					}
					var ks []string
					for k := range stamps {
						ks = append(ks, k)
					}
					sort.Strings(ks)
					outcome := "ok"
					if len(res.Errors) > 0 {
						outcome = "error:" + trunc(res.Errors[0].Text, 60)
					} else if len(res.OutputFiles) == 0 {
						outcome = "empty"
					}
					if len(ks) > 1 {
						outcome = "mixed:" + strings.Join(ks, ",")
					}
					var ver uint64
					for _, f := range res.OutputFiles {
						if m := reStamp.FindStringSubmatch(string(f.Contents)); m != nil {
							fmt.Sscanf(m[2], "%d", &ver)
						}
					}
					h.add(c, "ret:rebuild", bs, ver, outcome)
				case op < 13:
					v := atomic.AddInt64(&version, 1)
					if p.Watch {
						os.WriteFile(trigger, []byte(fmt.Sprint("v", v)), 0o644)
					}
					h.add(c, "edit", uint64(v), 0, "")
				case op < 16:
					h.add(c, "call:cancel", 0, 0, "")
					ctx.Cancel()
					h.add(c, "ret:cancel", 0, 0, "")
				case op == 16 && p.Watch:
					h.add(c, "call:watch", 0, 0, "")
					err := ctx.Watch(api.WatchOptions{})
					h.add(c, "ret:watch", 0, 0, fmt.Sprint(err))
					if crng.Intn(2) == 0 {
						time.Sleep(130 * time.Millisecond) // longer than one polling interval: lets the watcher find an edit
					}
				case op == 18 && p.Serve:
					if atomic.CompareAndSwapInt32(&served, 0, 1) {
						port := 20000 + int((p.Seed*7919+uint64(c)*31)%30000)
						h.add(c, "call:serve", 0, 0, "")
						_, err := ctx.Serve(api.ServeOptions{Host: "127.0.0.1", Port: port, OnRequest: func(a api.ServeOnRequestArgs) {
							atomic.AddInt64(&serveRequests, 1)
							if atomic.LoadInt32(&disposed) == 2 {
								h.add(-1, "callback_after_dispose", 0, 0, "serve on-request")
							}
						}})
						h.add(c, "ret:serve", 0, 0, fmt.Sprint(err))
						if err == nil {
							atomic.StoreInt32(&servePort, int32(port))
						}
					}
				case op == 19 && p.Serve:
					if port := atomic.LoadInt32(&servePort); port != 0 {
						// the dev server builds on request: fetch the listing, then the first script
						h.add(c, "call:http", 0, 0, "")
						outcome, bs, ver := c20Fetch(httpc, int(port))
						h.add(c, "ret:http", bs, ver, outcome)
					}
				case op == 17 && i > p.Ops/2:
					atomic.AddInt32(&inflightDispose, 1)
					atomic.CompareAndSwapInt32(&disposed, 0, 1)
					h.add(c, "call:dispose", 0, 0, "")
					ctx.Dispose()
					h.add(c, "ret:dispose", 0, 0, "")
					if atomic.AddInt32(&inflightDispose, -1) == 0 {
						atomic.StoreInt32(&disposed, 2) // every Dispose call that was in flight has returned
					}
				default:
					nap()
				}
			}
		}(c)
	}
	go func() { wg.Wait(); close(done) }()
	select {
	case <-done:
	case <-time.After(60 * time.Second):
		buf := make([]byte, 1<<20)
		n := runtime.Stack(buf, true)
		return h, ctxID, true, string(buf[:n])
	}
	if atomic.CompareAndSwapInt32(&disposed, 0, 1) {
		h.add(0, "call:dispose", 0, 0, "final")
		ctx.Dispose()
		h.add(0, "ret:dispose", 0, 0, "final")
		atomic.StoreInt32(&disposed, 2)
	}
	time.Sleep(2 * time.Millisecond)
	return h, ctxID, false, ""
}

var reHref = regexp.MustCompile(`href="([^"]+\.js)"`)

// c20Fetch asks the context's dev server for its script (every request runs or joins a build).
func c20Fetch(hc *http.Client, port int) (outcome string, bs, ver uint64) {
	get := func(path string) (string, error) {
		resp, err := hc.Get(fmt.Sprintf("http://127.0.0.1:%d%s", port, path))
		if err != nil {
			return "", err
		}
		defer resp.Body.Close()
		b, err := io.ReadAll(resp.Body)
		return string(b), err
	}
	list, err := get("/")
	if err != nil {
		return "error:" + trunc(err.Error(), 80), 0, 0
	}
	m := reHref.FindStringSubmatch(list)
	if m == nil {
		return "no-script", 0, 0
	}
	href := m[1]
	if !strings.HasPrefix(href, "/") {
		href = "/" + href
	}
	body, err := get(href)
	if err != nil {
		return "error:" + trunc(err.Error(), 80), 0, 0
	}
	stamps := map[string]bool{}
	for _, m := range reStamp.FindAllStringSubmatch(body, -1) {
		stamps[m[1]] = true
		fmt.Sscanf(m[1], "%d", &bs)
		fmt.Sscanf(m[2], "%d", &ver)
	}
	if len(stamps) > 1 {
		var ks []string
		for k := range stamps {
			ks = append(ks, k)
		}
		sort.Strings(ks)
		return "mixed:" + strings.Join(ks, ","), bs, ver
	}
	if len(stamps) == 0 {
		return "no-stamp", 0, 0
	}
	return "ok", bs, ver
}

type c20Viol struct {
	Sig  string
	What string
}

// checkHistory: offline checker over one recorded history (events sorted by tick)
func checkHistory(evs []hev, hookEvs []hev) (viols []c20Viol, patterns map[string]int) {
	patterns = map[string]int{}
	all := append(append([]hev{}, evs...), hookEvs...)
	sort.Slice(all, func(i, j int) bool { return all[i].Tick < all[j].Tick })
	v := func(sig, what string) { viols = append(viols, c20Viol{sig, what}) }
	// build intervals from hooks (seq -> begin/end)
	type iv struct{ begin, end uint64 }
	builds := map[uint64]*iv{}
	var order []uint64
	active := uint64(0)
	for _, e := range all {
		switch e.Kind {
		case "build_begin":
			if active != 0 {
				v("mutual-exclusion", fmt.Sprintf("build %d began while build %d of the same context was still active", e.B, active))
			}
			active = e.B
			builds[e.B] = &iv{begin: e.Tick}
			order = append(order, e.B)
		case "build_end":
			if b := builds[e.B]; b != nil {
				b.end = e.Tick
			}
			if active == e.B {
				active = 0
			}
		case "build_join":
			patterns["join"]++
		}
	}
	// plugin build seq -> the hook build that contains its first on_start
	pluginToHook := map[uint64]uint64{}
	startRet := map[uint64]map[uint64]uint64{} // plugin seq -> k -> tick of on_start_ret
	firstWork := map[uint64]uint64{}
	loads := map[string]int{}
	ends := map[string]int{}
	for _, e := range all {
		switch e.Kind {
		case "on_start":
			pluginToHook[e.A] = e.A
			if b := builds[e.A]; b == nil || e.Tick < b.begin || (b.end != 0 && e.Tick > b.end) {
				v("callback-outside-build", fmt.Sprintf("an on-start callback stamped with build %d ran outside that build's interval", e.A))
			}
		case "on_start_ret":
			if startRet[e.A] == nil {
				startRet[e.A] = map[uint64]uint64{}
			}
			startRet[e.A][e.B] = e.Tick
		case "on_resolve", "on_load":
			if _, ok := firstWork[e.A]; !ok {
				firstWork[e.A] = e.Tick
			}
			if e.Kind == "on_load" {
				loads[fmt.Sprint(e.A, e.S)]++
			}
		case "on_end":
			ends[fmt.Sprint(e.A, "/", e.B)]++
			if e.S != "" {
				v("on-end-before-outputs-written", "an on-end callback ran while reported output "+filepath.Base(e.S)+" was missing or different on disk")
			}
		case "callback_after_dispose":
			v("work-after-dispose:"+strings.ReplaceAll(e.S, " ", "-"), "a "+e.S+" callback ran after Dispose() had returned")
		}
	}
	for seq, fw := range firstWork {
		for k := uint64(0); k < 2; k++ {
			if t, ok := startRet[seq][k]; !ok || t > fw {
				v("resolve-or-load-before-on-start-finished", fmt.Sprintf("plugin build %d: a resolve/load callback ran before on-start callback #%d had returned", seq, k))
				break
			}
		}
	}
	for k, n := range loads {
		if n > 1 {
			v("module-loaded-twice", "module identity loaded "+fmt.Sprint(n)+" times in one build: "+k)
		}
	}
	for k, n := range ends {
		if n > 1 {
			v("on-end-twice", "on-end callback ran "+fmt.Sprint(n)+" times for one build: "+k)
		}
	}
	// client operations
	lastEditBefore := func(tick uint64) uint64 {
		var ver uint64 = 1
		for _, e := range all {
			if e.Kind == "edit" && e.Tick < tick && e.A > ver {
				ver = e.A
			}
		}
		return ver
	}
	// Concurrent Dispose calls: only one of them does the waiting, the others return at once ("only dispose once").
	// The disposal is complete at T*, when every Dispose call that started before the first one returned has returned.
	var disposeRet, disposeFirstCall uint64
	{
		type dcall struct{ call, ret uint64 }
		var ds []dcall
		open := map[int]uint64{}
		for _, e := range all {
			if e.Kind == "call:dispose" {
				open[e.Client] = e.Tick
			} else if e.Kind == "ret:dispose" {
				ds = append(ds, dcall{open[e.Client], e.Tick})
			}
		}
		var earliest uint64
		for _, d := range ds {
			if earliest == 0 || d.ret < earliest {
				earliest = d.ret
			}
		}
		for _, d := range ds {
			if d.call < earliest {
				if d.ret > disposeRet {
					disposeRet = d.ret
				}
				if disposeFirstCall == 0 || d.call < disposeFirstCall {
					disposeFirstCall = d.call
				}
			}
		}
		if len(ds) > 0 {
			patterns["dispose"] += len(ds)
			for _, hs := range order {
				b := builds[hs]
				if b.begin < disposeFirstCall && (b.end == 0 || b.end > disposeRet) {
					v("dispose-returned-while-build-running", fmt.Sprintf("every Dispose call had returned by tick %d although the build that began at %d (before the first Dispose call at %d) was still running (ended %d)", disposeRet, b.begin, disposeFirstCall, b.end))
				}
			}
		}
	}
	openCalls := map[int]hev{}
	for _, e := range all {
		switch {
		case strings.HasPrefix(e.Kind, "call:"):
			openCalls[e.Client] = e
		case e.Kind == "ret:rebuild":
			call := openCalls[e.Client]
			switch {
			case strings.HasPrefix(e.S, "mixed:"):
				v("rebuild-mixes-builds", "a Rebuild result contains modules stamped by different builds: "+e.S)
			case e.S == "ok":
				hs, ok := pluginToHook[e.A]
				if !ok {
					v("rebuild-result-of-unknown-build", fmt.Sprintf("Rebuild returned stamps of plugin build %d, which never started", e.A))
					break
				}
				b := builds[hs]
				if b.end != 0 && b.end < call.Tick {
					v("rebuild-stale-result", fmt.Sprintf("Rebuild called at tick %d returned the result of a build that had already ended at tick %d (began %d)", call.Tick, b.end, b.begin))
					patterns["stale"]++
				} else if b.begin > call.Tick {
					patterns["started-by-call"]++
					if want := lastEditBefore(call.Tick); e.B < want {
						v("rebuild-misses-earlier-edit", fmt.Sprintf("Rebuild called after edit v%d completed started a new build but its result carries v%d", want, e.B))
					}
				} else {
					patterns["joined-running-build"]++
				}
			case e.S == "empty":
				patterns["empty-result"]++
				{
					// legitimate only for a context that is being / has been disposed
					disposing := false
					for _, x := range all {
						if x.Kind == "call:dispose" && x.Tick < e.Tick {
							disposing = true
						}
					}
					if !disposing {
						v("rebuild-empty-result", "Rebuild returned neither outputs nor errors on a live context")
					}
				}
			default:
				patterns["error-result"]++
			}
		case e.Kind == "ret:http":
			patterns["http:"+strings.SplitN(e.S, ":", 2)[0]]++
			if strings.HasPrefix(e.S, "mixed:") {
				v("served-file-mixes-builds", "a file served by the dev server contains modules stamped by different builds: "+e.S)
			} else if e.S == "ok" {
				if _, ok := pluginToHook[e.A]; !ok {
					v("served-file-of-unknown-build", fmt.Sprintf("the dev server returned stamps of build %d, which never started", e.A))
				}
			}
		case e.Kind == "ret:watch":
			patterns["watch"]++
		case e.Kind == "ret:serve":
			patterns["serve"]++
		case e.Kind == "ret:cancel":
			call := openCalls[e.Client]
			disposing := false
			if e.Kind == "ret:cancel" {
				for _, x := range all {
					if x.Kind == "call:dispose" && x.Tick < e.Tick {
						disposing = true // Cancel on a context that is being disposed is a no-op by design (Dispose itself waits for the build)
					}
				}
			}
			for _, hs := range order {
				if disposing {
					break
				}
				b := builds[hs]
				if b.begin < call.Tick && (b.end == 0 || b.end > e.Tick) {
					v(strings.TrimPrefix(e.Kind, "ret:")+"-returned-while-build-running", fmt.Sprintf("%s returned at tick %d although the build that began at %d was still running (ended %d)", strings.TrimPrefix(e.Kind, "ret:"), e.Tick, b.begin, b.end))
				}
			}
			if e.Kind == "ret:cancel" {
				patterns["cancel"]++
			}
		}
	}
	// builds that no client call started (watch mode's first build and the builds the polling watcher triggers)
	{
		type span struct{ a, b uint64 }
		var spans []span
		open := map[int]uint64{}
		for _, e := range all {
			if e.Kind == "call:rebuild" || e.Kind == "call:http" {
				open[e.Client] = e.Tick
			} else if e.Kind == "ret:rebuild" || e.Kind == "ret:http" {
				spans = append(spans, span{open[e.Client], e.Tick})
				delete(open, e.Client)
			}
		}
		for _, t := range open {
			spans = append(spans, span{t, ^uint64(0)})
		}
		for _, hs := range order {
			inCall := false
			for _, sp := range spans {
				if builds[hs].begin > sp.a && builds[hs].begin < sp.b {
					inCall = true
				}
			}
			if !inCall {
				patterns["watch-build"]++
			}
		}
	}
	if disposeRet != 0 {
		for _, hs := range order {
			if builds[hs].begin > disposeRet {
				v("build-after-dispose", "a build began after Dispose() had returned")
			}
		}
	}
	return
}

func c20Child(r *Run) {
	n := r.pick(1000, 12000)
	scratch, _ := os.MkdirTemp("/tmp", "verif-c20-")
	defer os.RemoveAll(scratch)
	var hookMu sync.Mutex
	hookEvs := map[uint64][]hev{}
	api.VerifSetSink(func(e api.VerifEvent) {
		if e.Kind == "build_begin" {
			if st, ok := c20States.Load(e.A); ok {
				cs := st.(*c20CtxState)
				atomic.StoreUint64(cs.curSeq, e.B)
				atomic.StoreInt64(cs.curVer, atomic.LoadInt64(cs.version))
			}
		}
		if strings.HasPrefix(e.Kind, "build_") {
			hookMu.Lock()
			hookEvs[e.A] = append(hookEvs[e.A], hev{Tick: e.Tick, Client: -2, Kind: e.Kind, A: e.A, B: e.B})
			hookMu.Unlock()
		}
	})
	enc := json.NewEncoder(os.Stdout)
	patterns := map[string]int{}
	inter := map[uint64]bool{}
	events := 0
	par := 4
	var mu sync.Mutex
	var idx int64 = -1
	var wg sync.WaitGroup
	for w := 0; w < par; w++ {
		wg.Add(1)
		go func() {
			defer wg.Done()
			for {
				i := int(atomic.AddInt64(&idx, 1))
				if i >= n {
					return
				}
				rng := newRng(r.Seed, fmt.Sprint("c20h", i))
				p := c20Params{Clients: []int{2, 4, 8}[rng.Intn(3)], Ops: 10 + rng.Intn(30), Seed: r.Seed*100000 + uint64(i), Write: i%5 == 0, FailRate: []int{0, 0, 60}[rng.Intn(3)], Watch: i%6 == 1, Reenter: i%3 == 0, Inject: i%4 == 0, Serve: i%6 == 4}
				runtime.GOMAXPROCS([]int{2, 4, 16}[i%3])
				api.VerifSetYield(p.Seed, []int{0, 200, 500}[i%3])
				dir := filepath.Join(scratch, fmt.Sprint("h", i))
				os.MkdirAll(dir, 0o755)
				h, ctxID, hung, dump := runHistory(p, dir)
				os.RemoveAll(dir)
				if hung {
					enc.Encode(map[string]interface{}{"type": "hang", "params": p, "dump": trunc(dump, 8000)})
					continue
				}
				hookMu.Lock()
				he := hookEvs[ctxID]
				delete(hookEvs, ctxID)
				hookMu.Unlock()
				hevs := h.snapshot()
				vs, pats := checkHistory(hevs, he)
				mu.Lock()
				events += len(hevs) + len(he)
				for k, c := range pats {
					patterns[k] += c
				}
				var sb strings.Builder
				all := append(append([]hev{}, hevs...), he...)
				sort.Slice(all, func(a, b int) bool { return all[a].Tick < all[b].Tick })
				for _, e := range all {
					sb.WriteString(fmt.Sprint(e.Client, e.Kind, "|"))
				}
				inter[hash64(sb.String())] = true
				mu.Unlock()
				for _, v := range vs {
					enc.Encode(map[string]interface{}{"type": "violation", "sig": v.Sig, "what": v.What, "params": p, "history": all})
				}
				if i < 2 {
					enc.Encode(map[string]interface{}{"type": "sample", "params": p, "history_head": headEvents(all, 14)})
				}
			}
		}()
	}
	wg.Wait()
	enc.Encode(map[string]interface{}{"type": "summary", "histories": n, "events": events, "patterns": patterns, "distinct_interleavings": len(inter)})
	os.Exit(0)
}

func headEvents(a []hev, n int) []hev {
	if len(a) > n {
		return a[:n]
	}
	return a
}

func checkC20(r *Run) {
	r.Rule("(a) random histories of k∈{2,4,8} clients issuing Rebuild / Cancel / Dispose / Watch / Serve + HTTP GET / edit-store operations (10–40 each) against one shared context whose inputs come from a versioned in-memory store through plugins with two on-start and two on-end callbacks, blocking, failing and re-entering (Resolve from a callback, injected files); executed by a -race build with seeded yields and GOMAXPROCS 2/4/16; " +
		"every call/return, callback and build begin/end (hook inside the context's critical sections) is stamped by one logical clock and the history is checked offline (mutual exclusion, result identity and freshness, Cancel/Dispose wait, nothing after Dispose, on-start before resolve/load, one load per module, on-end once, outputs on disk at on-end); (b) stdio service histories: a protocol client with k∈{1,2,4,8} writer goroutines (coalesced and fragmented packets) sends transform / build / context build / rebuild / cancel / dispose / watch / serve / format-msgs / analyze-metafile / invalid requests and unawaited rebuild-cancel-dispose bursts to `esbuild --service --ping` built with -race, answers on-start/on-resolve/on-load/on-end/ping, closes stdin in 5 ways (orderly, after an unawaited burst, after a truncated packet, with live contexts and stdout closed, in the middle of the history), logs every packet and checks the log offline (one response per fully sent request with its own id and its own payload, no foreign ids, callback order, one load per module, result identity and freshness through stamps the host plants, cancel/dispose wait, nothing after dispose, process exit); non-trivial = distinct interleaving (hash of the merged event order / packet order)")
	r.Assume("Rebuild on a disposing/disposed context returns an empty result (third outcome, neither cancellation nor build)")
	r.Assume("files fetched from the dev server may come from a recently finished build (esbuild reuses a result for 250 ms by design), so only their consistency is checked, not their freshness")
	r.Assume("stdio service: after stdin is closed the host cannot answer callbacks, so callback-order and result-identity clauses are judged on the part of each packet log before the EOF; every fully sent request must still be answered")
	self, _ := os.Executable()
	raceBin := filepath.Join(filepath.Dir(self), "vh-race")
	if _, err := os.Stat(raceBin); err != nil {
		r.Inconclusive("vh-race binary missing")
		return
	}
	logDir, _ := os.MkdirTemp("/tmp", "verif-c20race-")
	defer os.RemoveAll(logDir)
	cmd := exec.Command("timeout", "-s", "QUIT", "1500", raceBin, "C20CHILD", r.Tier)
	cmd.Env = append(os.Environ(), "GORACE=halt_on_error=0 log_path="+filepath.Join(logDir, "race"), fmt.Sprint("VERIF_SEED=", r.Seed))
	out, err := cmd.Output()
	if err != nil {
		if ee, ok := err.(*exec.ExitError); ok {
			r.Inconclusive("history runner failed: " + trunc(string(ee.Stderr), 500))
		}
	}
	summary := false
	for _, line := range strings.Split(string(out), "\n") {
		if !strings.HasPrefix(line, "{") {
			continue
		}
		var m map[string]interface{}
		if json.Unmarshal([]byte(line), &m) != nil {
			continue
		}
		switch m["type"] {
		case "violation":
			r.Violation("concurrency:"+fmt.Sprint(m["sig"]), fmt.Sprint(m["what"]), m)
		case "hang":
			r.Violation("concurrency:no-termination", "a history did not terminate within 60 s (goroutine dump in the replay file)", m)
		case "sample":
			r.Sample(m)
		case "summary":
			summary = true
			r.Eval(int(m["histories"].(float64)))
			r.Count("histories", int(m["histories"].(float64)))
			r.Count("events_recorded", int(m["events"].(float64)))
			r.Count("distinct_interleavings", int(m["distinct_interleavings"].(float64)))
			for i := 0; i < int(m["distinct_interleavings"].(float64)); i++ {
				r.Nontrivial(fmt.Sprint("interleaving", i))
			}
			if ps, ok := m["patterns"].(map[string]interface{}); ok {
				for k, v := range ps {
					r.Count("pattern:"+k, int(v.(float64)))
				}
				for _, need := range []string{"join", "joined-running-build", "started-by-call", "cancel", "dispose", "watch", "serve", "http:ok", "watch-build"} {
					if _, ok := ps[need]; !ok {
						r.Inconclusive("pattern never observed: " + need)
					}
				}
			}
		}
	}
	if !summary {
		r.Inconclusive("the history runner did not finish")
	}
	c20Service(r, logDir)
	c20RaceReports(r, logDir)
}

func c20RaceReports(r *Run, logDir string) {
	reports := 0
	var firstReport string
	matches, _ := filepath.Glob(filepath.Join(logDir, "race*"))
	for _, mf := range matches {
		b, _ := os.ReadFile(mf)
		n := strings.Count(string(b), "WARNING: DATA RACE")
		reports += n
		if n > 0 && firstReport == "" {
			firstReport = trunc(string(b), 8000)
		}
	}
	r.Count("race_detector_reports", reports)
	if reports > 0 {
		r.Violation("concurrency:data-race:"+raceSig(firstReport), fmt.Sprintf("the race detector reported %d data race(s)", reports), map[string]interface{}{"report": firstReport})
	}
}
