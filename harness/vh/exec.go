package main

import (
	"strings"
	"time"
)

type PFile struct {
	Code string `json:"code"`
	Kind string `json:"kind"` // esm | cjs | json | script
}

// Prog is a program for the probe host: a virtual file map plus an entry.
type Prog struct {
	Files   map[string]PFile `json:"files"`
	Entry   string           `json:"entry"`
	Kind    string           `json:"kind"` // script | module | cjs
	Global  string           `json:"global,omitempty"`
	FnNames bool             `json:"fnNames,omitempty"`
	Timeout int              `json:"timeout,omitempty"`
	Prelude string           `json:"prelude,omitempty"` // script run in the fresh context before the entry (never seen by esbuild)
}

func progScript(code string) Prog {
	return Prog{Files: map[string]PFile{"/entry.js": {Code: code, Kind: "script"}}, Entry: "/entry.js", Kind: "script"}
}
func progModule(code string) Prog {
	return Prog{Files: map[string]PFile{"/entry.mjs": {Code: code, Kind: "esm"}}, Entry: "/entry.mjs", Kind: "module"}
}
func progCJS(code string) Prog {
	return Prog{Files: map[string]PFile{"/entry.cjs": {Code: code, Kind: "cjs"}}, Entry: "/entry.cjs", Kind: "cjs"}
}

// withFile returns a copy of p with one more file.
func (p Prog) withFile(path, code, kind string) Prog {
	q := p
	q.Files = map[string]PFile{}
	for k, v := range p.Files {
		q.Files[k] = v
	}
	q.Files[path] = PFile{Code: code, Kind: kind}
	return q
}

type SegDiff struct {
	Seg string   `json:"seg"`
	A   []string `json:"a"`
	B   []string `json:"b"`
}

type PairResult struct {
	Equal        bool      `json:"equal"`
	EventsA      int       `json:"eventsA"`
	EventsB      int       `json:"eventsB"`
	Segs         int       `json:"segs"`
	TermA        string    `json:"termA"`
	TermB        string    `json:"termB"`
	Inconclusive bool      `json:"inconclusive"`
	Diffs        []SegDiff `json:"diffs"`
	TraceA       []string  `json:"traceA,omitempty"`
	TraceB       []string  `json:"traceB,omitempty"`
	ExportsA     string    `json:"exportsA,omitempty"`
	ExportsB     string    `json:"exportsB,omitempty"`
}

func (p *Pool) ExecPair(a, b Prog, ignoreExports bool, wantTrace bool) (PairResult, error) {
	var res PairResult
	err := p.CallTimeout(map[string]interface{}{"op": "execPair", "a": a, "b": b, "opts": map[string]interface{}{"ignoreExports": ignoreExports}, "wantTrace": wantTrace}, &res, 300*time.Second)
	return res, err
}

type ExecResult struct {
	Trace     []string `json:"trace"`
	Term      string   `json:"term"`
	Exports   string   `json:"exports"`
	Unhandled []string `json:"unhandled"`
}

func (p *Pool) Exec(a Prog) (ExecResult, error) {
	var res ExecResult
	err := p.CallTimeout(map[string]interface{}{"op": "exec", "prog": a}, &res, 300*time.Second)
	return res, err
}

type ParseVerdict struct {
	OK  bool   `json:"ok"`
	Err string `json:"err"`
	Pos int    `json:"pos"`
}
type ParseResult struct {
	Acorn *ParseVerdict `json:"acorn"`
	V8    *ParseVerdict `json:"v8"`
}

// Parse asks the reference parsers. goal: script|module|cjs; ecma: 0 = latest.
func (p *Pool) Parse(code, goal string, ecma int, engines ...string) (ParseResult, error) {
	var res ParseResult
	req := map[string]interface{}{"op": "parse", "code": code, "goal": goal}
	if ecma != 0 {
		req["ecma"] = ecma
	}
	if len(engines) > 0 {
		req["engines"] = engines
	}
	err := p.Call(req, &res)
	return res, err
}

type TokCmp struct {
	Equal      bool     `json:"equal"`
	N          int      `json:"n"`
	At         int      `json:"at"`
	A          []string `json:"a"`
	B          []string `json:"b"`
	ErrorA     string   `json:"error_a"`
	ErrorB     string   `json:"error_b"`
	ParensOnly bool     `json:"parensOnly"`
}

func (p *Pool) TokCmp(a, b, goal string) (TokCmp, error) {
	var res TokCmp
	err := p.Call(map[string]interface{}{"op": "tokcmp", "a": a, "b": b, "goal": goal}, &res)
	return res, err
}

type MultiResult struct {
	RefEvents int          `json:"refEvents"`
	RefTerm   string       `json:"refTerm"`
	Results   []PairResult `json:"results"`
}

// ExecMultiOpts is ExecMulti with extra comparison options (e.g. "dropEvents": a regexp of events removed from both traces).
func (p *Pool) ExecMultiOpts(ref Prog, outs []Prog, opts map[string]interface{}) (MultiResult, error) {
	var res MultiResult
	err := p.CallTimeout(map[string]interface{}{"op": "execMulti", "ref": ref, "outs": outs, "opts": opts}, &res, 600*time.Second)
	return res, err
}

func (p *Pool) ExecMulti(ref Prog, outs []Prog, ignoreExports bool) (MultiResult, error) {
	var res MultiResult
	// finite results of ** are implementation-approximated: allow a few ulps only in programs that use it
	powTol := false
	for _, f := range ref.Files {
		if strings.Contains(f.Code, "**") || strings.Contains(f.Code, "Math.pow") {
			powTol = true
		}
	}
	err := p.CallTimeout(map[string]interface{}{"op": "execMulti", "ref": ref, "outs": outs, "opts": map[string]interface{}{"ignoreExports": ignoreExports, "powTol": powTol}}, &res, 600*time.Second)
	return res, err
}
