package main

// C01, JSX: generated JSX programs (jsxgen) compiled with the classic runtime (default and custom factory), the
// automatic runtime (cjs format, so the runtime import becomes a require the host serves) and preserve mode
// (parse + print, then transformed again); the output runs against a recording factory and its probe trace must
// equal that of the generator's own desugaring.

import (
	"fmt"
	"strings"
	"sync/atomic"

	"github.com/evanw/esbuild/pkg/api"
)

func c01JSX(r *Run) {
	pool := r.Pool()
	n := r.pick(400, 8000)
	var programs, runs, events, preserved int64
	parallel(n, pool.Size(), func(i int) {
		rng := newRng(r.Seed, fmt.Sprint("c01jsx", i))
		custom := i%3 == 1
		factory, fragment := "React.createElement", "React.Fragment"
		if custom {
			factory, fragment = "h", "F"
		}
		g := &jsxgen{rng: rng}
		src, classic, auto := g.Program(3+rng.Intn(5), factory, fragment)
		atomic.AddInt64(&programs, 1)
		r.Eval(1)
		type variant struct {
			name string
			o    api.TransformOptions
			ref  string
		}
		base := api.TransformOptions{Loader: api.LoaderJSX}
		if custom {
			base.JSXFactory, base.JSXFragment = "h", "F"
		}
		cs := []api.Charset{api.CharsetUTF8, api.CharsetASCII}[i%2]
		ws := i%4 >= 2
		mk := func(name string, f func(o *api.TransformOptions), ref string) variant {
			o := base
			o.Charset, o.MinifyWhitespace = cs, ws
			f(&o)
			return variant{fmt.Sprintf("jsx[%s,charset=%d,minify-ws=%v]", name, cs, ws), o, ref}
		}
		vs := []variant{
			mk("transform", func(o *api.TransformOptions) {}, classic),
			mk("transform,line-limit=30", func(o *api.TransformOptions) { o.LineLimit = 30 }, classic),
			mk("automatic,cjs", func(o *api.TransformOptions) { o.JSX, o.Format = api.JSXAutomatic, api.FormatCommonJS }, auto),
		}
		var outs []Prog
		var names []string
		var codes []string
		add := func(name, code string) {
			p := progScript(code)
			p.Prelude = jsxPrelude
			outs = append(outs, p)
			names = append(names, name)
			codes = append(codes, code)
		}
		refs := map[string]string{}
		for _, v := range vs {
			res, pan := transformSafe(src, v.o)
			if pan != "" {
				r.Violation("print:jsx:panic", "esbuild panicked: "+pan, map[string]interface{}{"input": src, "variant": v.name})
				continue
			}
			if len(res.Errors) > 0 {
				r.Violation("print:jsx:rejected:"+normErr(res.Errors[0].Text), fmt.Sprintf("esbuild rejects a generated JSX program (%s): %s", v.name, res.Errors[0].Text), map[string]interface{}{"input": src, "variant": v.name})
				continue
			}
			add(v.name, string(res.Code))
			refs[v.name] = v.ref
		}
		// preserve: the printed JSX must mean the same as the input JSX
		po := base
		po.JSX, po.Charset, po.MinifyWhitespace = api.JSXPreserve, cs, ws
		if pres, pan := transformSafe(src, po); pan == "" && len(pres.Errors) == 0 {
			atomic.AddInt64(&preserved, 1)
			again, pan2 := transformSafe(string(pres.Code), base)
			if pan2 == "" && len(again.Errors) == 0 {
				nm := fmt.Sprintf("jsx[preserve→transform,charset=%d,minify-ws=%v]", cs, ws)
				add(nm, string(again.Code))
				refs[nm] = classic
			} else if pan2 == "" {
				r.Violation("print:jsx:preserve-output-rejected:"+normErr(again.Errors[0].Text), "esbuild rejects the JSX it printed in preserve mode: "+again.Errors[0].Text, map[string]interface{}{"input": src, "preserved": string(pres.Code)})
			}
		}
		// group by reference
		for _, refSrc := range []string{classic, auto} {
			var o []Prog
			var nm, cd []string
			for k := range outs {
				if refs[names[k]] == refSrc {
					o = append(o, outs[k])
					nm = append(nm, names[k])
					cd = append(cd, codes[k])
				}
			}
			if len(o) == 0 {
				continue
			}
			ref := progScript(refSrc)
			ref.Prelude = jsxPrelude
			mr, err := pool.ExecMulti(ref, o, true)
			if err != nil {
				r.Count("oracle_errors", 1)
				continue
			}
			atomic.AddInt64(&events, int64(mr.RefEvents))
			if mr.RefEvents > 0 {
				r.Nontrivial(src)
			}
			for k, pr := range mr.Results {
				atomic.AddInt64(&runs, 1)
				if pr.Equal || pr.Inconclusive {
					continue
				}
				what := "termination differs: reference " + pr.TermA + ", output " + pr.TermB
				seg := ""
				if len(pr.Diffs) > 0 {
					d := pr.Diffs[0]
					seg = d.Seg
					what = fmt.Sprintf("probe %s: reference %s, output %s", d.Seg, trunc(strings.Join(d.A, " "), 300), trunc(strings.Join(d.B, " "), 300))
				}
				_ = seg
				kind := strings.SplitN(strings.TrimPrefix(nm[k], "jsx["), ",", 2)[0]
				r.Violation("print:jsx:"+kind+":"+jsxDiffClass(pr), fmt.Sprintf("JSX output behaves differently from the specified desugaring under %s: %s", nm[k], what),
					map[string]interface{}{"input": src, "reference": refSrc, "output": cd[k], "variant": nm[k], "diffs": pr.Diffs})
			}
		}
		if i < 1 {
			r.Sample(map[string]interface{}{"kind": "jsx", "input": trunc(src, 500), "reference_desugaring": trunc(classic, 500)})
		}
	})
	r.Count("jsx_programs", int(programs))
	r.Count("jsx_variant_runs", int(runs))
	r.Count("jsx_probe_events_ref", int(events))
	r.Count("jsx_preserve_roundtrips", int(preserved))
	if runs < int64(n*2) {
		r.Inconclusive(fmt.Sprintf("only %d JSX variant runs", runs))
	}
}

// jsxDiffClass: a coarse, stable class of the first difference (used in signatures)
func jsxDiffClass(pr PairResult) string {
	if len(pr.Diffs) == 0 {
		return "termination"
	}
	a, b := strings.Join(pr.Diffs[0].A, " "), strings.Join(pr.Diffs[0].B, " ")
	switch {
	case len(pr.Diffs[0].A) != len(pr.Diffs[0].B):
		return "event-count"
	case strings.Count(a, "\"") != strings.Count(b, "\""):
		return "children-or-props-shape"
	default:
		return "value"
	}
}
