package main

import (
	"fmt"
	"strings"
)

// featgen: every lowerable construct with side-effect probes as operands. Synchronous cases are closure
// bodies for T; asynchronous cases are queued with TA and run strictly one after another, so the number of
// microtask turns a lowered await takes (excluded by the property) cannot reorder events of different cases.

const featPrelude = `var __q = [];
function TA(i, f) { __q.push([i, f]); }
function log(k, v) { return $(k, v); }
function mk(k, v) { return {get a() { $(k, "get a"); return v; }, b: 2, m(x) { $(k, "m", this === undefined ? "undef" : typeof this, x); return x; }}; }
function key(k, v) { return {toString() { $(k, "key"); return v; }}; }
function iter(k, n) { return {[Symbol.iterator]() { $(k, "iter"); var i = 0; return {next() { $(k, "next", i); return i < n ? {value: i++, done: false} : {value: void 0, done: true}; }, return(v) { $(k, "return"); return {done: true, value: v}; }}; }}; }
function aiter(k, n) { return {[Symbol.asyncIterator]() { $(k, "aiter"); var i = 0; return {next() { $(k, "anext", i); return Promise.resolve(i < n ? {value: i++, done: false} : {value: void 0, done: true}); }, return(v) { $(k, "areturn"); return Promise.resolve({done: true, value: v}); }}; }}; }
function thenable(k, v) { return {then(res, rej) { $(k, "then"); res(v); }}; }
`

const featPostlude = `
(async () => { for (const [i, f] of __q) { $("[", i); try { $("r", await f()); } catch (e) { $("t", e); } } })();
`

type featCase struct {
	body  string
	async bool
}

func featgenCases() []packCase {
	k := 0
	p := func() string { k++; return fmt.Sprint(k) }
	var out []packCase
	n := 0
	add := func(sig, body string, async bool) {
		n++
		id := fmt.Sprint("f", n)
		if async {
			out = append(out, packCase{ID: id, Body: "\x00" + body, Sig: "lower:" + sig})
		} else {
			out = append(out, packCase{ID: id, Body: body, Sig: "lower:" + sig})
		}
	}
	P := func(v string) string { return "$(" + p() + ", " + v + ")" }
	vals := []string{"null", "void 0", "0", `""`, "mk(" + p() + ", 5)", "mk(" + p() + ", null)"}

	// ---- optional chaining
	for _, v := range vals {
		add("optchain:dot", "() => { var o = "+v+"; return o?.a; }", false)
		add("optchain:index", "() => { var o = "+v+"; return o?.["+P(`"a"`)+"]; }", false)
		add("optchain:call", "() => { var o = "+v+"; return o?.m("+P("1")+"); }", false)
		add("optchain:member-call", "() => { var o = {p: "+v+"}; return o.p?.m("+P("1")+"); }", false)
		add("optchain:call-optional", "() => { var o = "+v+"; return o?.m?.("+P("1")+"); }", false)
		add("optchain:long", "() => { var o = {p: "+v+"}; return o?.p?.a?.toString("+P("10")+"); }", false)
		add("optchain:short-circuit", "() => { var o = "+v+"; return o?.a["+P(`"x"`)+"]["+P(`"y"`)+"]; }", false)
		add("optchain:paren-this", "() => { var o = "+v+"; return (o?.m)("+P("1")+"); }", false)
		add("optchain:paren-break", "() => { var o = "+v+"; return (o?.a).toString; }", false)
		add("optchain:delete", "() => { var o = "+v+"; return [delete o?.b, o == null ? 0 : Object.keys(o)]; }", false)
		add("optchain:delete-index", "() => { var o = "+v+"; return delete o?.["+P(`"b"`)+"]; }", false)
		add("optchain:probe-target", "() => { return "+P(v)+"?.a; }", false)
		add("optchain:fn-call", "() => { var f = "+strings.Replace(v, "mk(", "(x => x)(mk(", 1)+strings.Repeat(")", strings.Count(v, "mk("))+"; return typeof f === 'function' ? 0 : f?.("+P("1")+"); }", false)
		add("optchain:in-template", "() => { var o = "+v+"; return `${o?.b}`; }", false)
		add("optchain:assign-rhs", "() => { var o = "+v+", x; x = o?.a ?? "+P("7")+"; return x; }", false)
		add("nullish:basic", "() => "+P(v)+" ?? "+P("9"), false)
		add("nullish:assign-var", "() => { var x = "+v+"; x ??= "+P("9")+"; return x; }", false)
		add("nullish:assign-member", "() => { var o = {p: "+v+"}; o[key("+p()+", \"p\")] ??= "+P("9")+"; return typeof o.p; }", false)
		add("logical:or-assign-member", "() => { var o = {p: "+v+"}; o[key("+p()+", \"p\")] ||= "+P("9")+"; return typeof o.p; }", false)
		add("logical:and-assign-member", "() => { var o = {p: "+v+"}; o[key("+p()+", \"p\")] &&= "+P("9")+"; return typeof o.p; }", false)
	}
	add("optchain:this-binding", "() => { var o = {v: 3, m() { return this.v; }}; return [o?.m(), o.m?.(), (o?.m)(), o?.[\"m\"](), (0, o?.m) === o.m]; }", false)
	add("optchain:super", "() => { class A { m() { return 1; } } class B extends A { n() { return [super.m?.(), super.z?.(), super[\"m\"]?.()]; } } return new B().n(); }", false)
	add("optchain:eval-like", "() => { var o = {f: null}; return [o.f?.(), o.g?.("+P("1")+"), o?.f?.g?.h]; }", false)
	add("optchain:new-target", "() => { function F() { return new.target?.name === void 0 ? 0 : 1; } return [new F() instanceof F, F()]; }", false)
	add("optchain:tagged", "() => { var o = {t(s) { return [this === o, s[0]]; }}; return (o?.t)`x`; }", false)
	add("optchain:private", "() => { class C { #x = 1; #m() { return this.#x; } static t(o) { return [o?.#x, o?.#m(), o?.#m?.(), #x in (o ?? {})]; } } return [C.t(new C()), C.t(null)]; }", false)
	add("optchain:private-wrong-object", "() => { class C { #x = 1; static t(o) { return o?.#x; } } return C.t({}); }", false)
	// ---- exponent
	for _, a := range []string{"2", "-2", "2n", `"3"`, "mk(" + p() + ", 2)"} {
		add("pow:binary", "() => "+strings.Replace("(A) ** "+P("3"), "A", P(a), 1), false)
		add("pow:assign-var", "() => { var x = "+a+"; x **= "+P("2")+"; return x; }", false)
		add("pow:assign-member", "() => { var o = {p: "+a+"}; o[key("+p()+", \"p\")] **= "+P("2")+"; return o.p; }", false)
		add("pow:assign-getter", "() => { var o = {get p() { $("+p()+", \"get\"); return 3; }, set p(v) { $("+p()+", \"set\", v); }}; return o.p **= "+P("2")+"; }", false)
	}
	add("pow:right-assoc", "() => "+P("2")+" ** "+P("3")+" ** "+P("2"), false)
	add("pow:unary", "() => [(-"+P("2")+") ** 2, -("+P("2")+" ** 2), (+\"3\") ** 2, (await_ => 2 ** await_)(3)]", false)
	add("pow:bigint-mix", "() => 2n ** "+P("2"), false)
	add("pow:super", "() => { class A { get p() { return 3; } set p(v) { $("+p()+", \"set\", v); } } class B extends A { m() { return super.p **= 2; } } return new B().m(); }", false)
	// ---- object rest / spread
	add("spread:getter-order", "() => ({..."+"mk("+p()+", 1), x: "+P("2")+", ...mk("+p()+", 3)})", false)
	add("spread:null", "() => ({...null, ...void 0, ...1, ...\"ab\", ...[7]})", false)
	add("spread:proto", "() => { var o = {...{__proto__: {inherited: 1}, own: 2}}; return [Object.keys(o), o.inherited]; }", false)
	add("spread:own-proto-key", "() => { var s = JSON.parse('{\"__proto__\": {\"polluted\": true}, \"a\": 1}'); var o = {...s}; return [Object.keys(o), o.polluted, Object.getPrototypeOf(o) === Object.prototype]; }", false)
	add("spread:symbols", "() => { var s = Symbol(\"s\"); var o = {...{[s]: 1, a: 2}}; return [o[s], Object.getOwnPropertySymbols(o).length]; }", false)
	add("spread:setter-on-proto", "() => { var r = []; Object.defineProperty(Object.prototype, \"zz_\", {set(v) { r.push(v); }, configurable: true}); try { var o = {...{zz_: 1}}; return [r, Object.keys(o)]; } finally { delete Object.prototype.zz_; } }", false)
	add("spread:call-order", "() => { var f = (...a) => a; return f("+P("1")+", ...iter("+p()+", 2), "+P("3")+"); }", false)
	add("rest:basic", "() => { var {a, ...r} = mk("+p()+", 1); return [a, Object.keys(r)]; }", false)
	add("rest:computed-key-once", "() => { var {[key("+p()+", \"b\")]: x, ...r} = {a: 1, b: 2, c: 3}; return [x, r]; }", false)
	add("rest:number-and-symbol-keys", "() => { var s = Symbol(\"s\"); var {1: one, [s]: sv, ...r} = {1: \"one\", 2: \"two\", [s]: \"sym\", a: 0}; return [one, sv, Object.keys(r), Object.getOwnPropertySymbols(r).length]; }", false)
	add("rest:nested", "() => { var {a: {b, ...r1}, ...r2} = {a: {b: 1, c: 2, d: 3}, e: 4}; return [b, r1, r2]; }", false)
	add("rest:defaults-order", "() => { var {a = "+P("1")+", b = "+P("2")+", ...r} = {b: void 0, c: 3}; return [a, b, r]; }", false)
	add("rest:assign-pattern", "() => { var a, r, o = {}; ({a, ...o.rest} = {a: 1, b: 2}); ({a, ...r} = {a: 3, c: 4}); return [a, o.rest, r]; }", false)
	add("rest:param", "() => (function({a, ...r}, [b, ...s], ...t) { return [a, r, b, s, t, arguments.length]; })({a: 1, z: 2}, [3, 4, 5], 6, 7)", false)
	add("rest:arrow-param", "() => (({a, ...r}) => [a, r])({a: 1, b: 2})", false)
	add("rest:for-of", "() => { var out = []; for (var {a, ...r} of [{a: 1, b: 2}, {a: 3, c: 4}]) out.push([a, r]); return out; }", false)
	add("rest:for-of-assign", "() => { var out = [], a, r; for ({a, ...r} of [{a: 1, b: 2}]) out.push([a, r]); return out; }", false)
	add("rest:catch", "() => { try { throw {a: 1, b: 2, c: 3}; } catch ({a, ...r}) { return [a, r]; } }", false)
	// array rest elements whose target is a pattern (ES2016+; an error for ES2015 targets)
	add("destruct:rest-object-pattern", "() => { var [first, ...{length, 0: second}] = [1, 2, 3]; return [first, length, second]; }", false)
	add("destruct:rest-array-pattern", "() => { var [a, ...[b, c]] = [1, 2, 3, 4]; return [a, b, c]; }", false)
	add("destruct:rest-pattern-param", "() => (function ([h, ...{length}], ...[x, y]) { return [h, length, x, y]; })([1, 2, 3], 4, 5)", false)
	add("destruct:rest-pattern-for-of", "() => { var out = []; for (const [h, ...{length}] of [[1, 2], [3]]) out.push([h, length]); return out; }", false)
	add("destruct:rest-pattern-catch", "() => { try { throw [1, 2, 3]; } catch ([h, ...{length}]) { return [h, length]; } }", false)
	add("destruct:rest-pattern-assign", "() => { var h, l; [h, ...{length: l}] = [1, 2, 3]; return [h, l]; }", false)
	// object rest nested inside array elements / properties that have default values
	add("rest:in-array-default", "() => { var [{a, ...r} = {}] = [{a: 1, b: 2}]; return [a, r]; }", false)
	add("rest:in-array-default-missing", "() => { var [{a, ...r} = {z: "+P("9")+"}] = []; return [a, r]; }", false)
	add("rest:in-array-default-param", "() => (function ([{b, ...r} = {}], [c, {...t} = "+P("{q: 1}")+"] = []) { return [b, r, c, t]; })([{b: 1, c: 2}])", false)
	add("rest:in-array-default-assign", "() => { var r; [{...r} = {}] = [{x: 1}]; return r; }", false)
	add("rest:in-array-default-for-of", "() => { var out = []; for (const [{...r} = {d: 0}] of [[{q: 1}], [void 0]]) out.push(r); return out; }", false)
	add("rest:in-array-default-catch", "() => { try { throw [{m: 1, n: 2}]; } catch ([{m, ...r} = {}]) { return [m, r]; } }", false)
	add("rest:in-prop-array-default", "() => { var {p: [{...r} = {}] = []} = {p: [{z: 1}]}; return r; }", false)
	add("rest:in-nested-array-default", "() => { var [[{y, ...r} = {}] = []] = [[{y: 1, w: 2}]]; return [y, r]; }", false)
	add("rest:in-array-rest-element", "() => { var [a, ...[{b, ...r}]] = [1, {b: 2, c: 3}]; return [a, b, r]; }", false)
	add("rest:getter-once", "() => { var {b, ...r} = mk("+p()+", 7); return [b, r.a]; }", false)
	add("rest:null-throws", "() => { var {...r} = null; return r; }", false)
	add("rest:primitive", "() => { var {length, ...r} = \"ab\"; return [length, r]; }", false)
	add("rest:in-class-method", "() => { class C { m({x, ...r}) { return [this instanceof C, x, r]; } } return new C().m({x: 1, y: 2}); }", false)
	add("rest:in-async-arrow", "async () => { var f = async ({x, ...r}) => [x, r]; return await f({x: 1, y: 2}); }", true)
	// ---- destructuring
	add("destruct:iterator-close", "() => { var [a] = iter("+p()+", 3); return a; }", false)
	add("destruct:iterator-exhaust", "() => { var [a, b, c] = iter("+p()+", 2); return [a, b, c]; }", false)
	add("destruct:holes-rest", "() => { var [, a, , ...r] = iter("+p()+", 5); return [a, r]; }", false)
	add("destruct:default-order", "() => { var [a = "+P("1")+", b = "+P("2")+"] = [void 0, null]; return [a, b]; }", false)
	add("destruct:assign-targets-order", "() => { var o = {}; [o["+P(`"x"`)+"], o["+P(`"y"`)+"]] = ["+P("1")+", "+P("2")+"]; return o; }", false)
	add("destruct:swap", "() => { var a = 1, b = 2; [a, b] = [b, a]; return [a, b]; }", false)
	add("destruct:throw-closes", "() => { try { var [a = (() => { throw new Error(\"@d\"); })()] = iter("+p()+", 3); } catch (e) { return e; } }", false)
	add("destruct:string", "() => { var [a, b] = \"\\u{1F600}x\"; return [a.length, b]; }", false)
	// ---- template literals
	add("template:tostring-hint", "() => `${"+"key("+p()+", \"k\")"+"}-${mk("+p()+", 1)}`", false)
	add("template:symbol-throws", "() => `${Symbol(\"s\")}`", false)
	add("template:tag-cache", "() => { var f = s => s; var g = () => f`a${1}b`; return [g() === g(), f`a${1}b` === f`a${1}b`, Object.isFrozen(g()), g().raw[0]]; }", false)
	add("template:tag-invalid-escape", "() => ((s) => [s[0], s.raw[0], s.length])`\\u{${1}`", false)
	add("template:tag-this", "() => { var o = {t(s, ...v) { return [this === o, s.raw.join(\"|\"), v]; }}; return o.t`a${"+P("1")+"}b${"+P("2")+"}`; }", false)
	add("template:nested", "() => `a${`b${"+P("1")+"}c`}d${[1, 2]}`", false)
	// ---- classes
	add("class:field-order", "() => { class C { a = "+P("1")+"; ["+P(`"k"`)+"] = "+P("2")+"; static s = "+P("3")+"; static ["+P(`"t"`)+"] = "+P("4")+"; constructor() { $("+p()+", \"ctor\", Object.keys(this)); } } return [Object.keys(new C()), C.s, C.t]; }", false)
	add("class:derived-field-after-super", "() => { class A { constructor() { $("+p()+", \"A\", Object.keys(this)); } } class B extends A { x = "+P("1")+"; constructor() { $("+p()+", \"before\"); super(); $("+p()+", \"after\", this.x); } } return Object.keys(new B()); }", false)
	for i, ctor := range []string{
		"$(%A, 1), ($(%B, 2), super());",
		"$(%A, 1), ($(%B, 2), ($(%C, 3), super()));",
		"($(%A, 1), $(%B, 2)), super(), $(%C, 3);",
		"$(%A, 1), ($(%B, 2), super(), $(%C, 3));",
		"return $(%A, 1), ($(%B, 2), super()), void 0;",
		"if ($(%A, 1), ($(%B, 0), super())) $(%C, 3);",
		"var q = ($(%A, 1), ($(%B, 2), super())); $(%C, q === this);",
		"$(%A, 1) && super(); $(%B, 2);",
		"for (var i = ($(%A, 1), ($(%B, 2), super())); false;) ; $(%C, 3);",
		"switch ($(%A, 1), ($(%B, 2), super())) { default: $(%C, 3); }",
		"try { $(%A, 1), ($(%B, 2), super()); } finally { $(%C, 3); }",
		"(() => ($(%A, 1), ($(%B, 2), super())))(); $(%C, 3);",
	} {
		body := strings.NewReplacer("%A", p(), "%B", p(), "%C", p()).Replace(ctor)
		add(fmt.Sprint("class:super-in-comma:", i), "() => { class A { constructor() { $("+p()+", \"A\", Object.keys(this)); } } class B extends A { x = "+P("1")+"; #y = "+P("2")+"; constructor() { "+body+" } get y() { return this.#y; } } var b = new B(); return [Object.keys(b), b.y]; }", false)
	}
	// optional chains whose base is a literal null/undefined (esbuild short-circuits them at compile time)
	for _, base := range []string{"null", "undefined", "void 0", "(null)"} {
		for i, form := range []string{"delete %B?.x", "delete %B?.[" + P(`"k"`) + "]", "delete %B?.a.b(" + P("1") + ")", "%B?.x", "%B?.[" + P(`"k"`) + "]", "%B?.(" + P("1") + ")", "typeof %B?.x", "%B?.x ?? " + P("5"),
			"%B?.a.b.c", "delete (%B?.x)", "[delete %B?.x, typeof delete %B?.y]", "(%B?.x === void 0) + (delete %B?.x ? 10 : 20)", "%B?.a[" + P("1") + "](" + P("2") + ")"} {
			add(fmt.Sprint("optchain:literal-base:", i), "() => "+strings.ReplaceAll(form, "%B", base), false)
		}
	}
	// a parameter default that throws must reject the promise, never throw at the call
	for i, dflt := range []string{"(() => { throw new Error(\"d\"); })()", "{[thrower()]: 1}", "[{[thrower()]: 1}]", "`${throwerObj}`", "-throwerObj", "throwerObj + 1", "throwerObj.p", "new Thrower()", "nothing.b", "{a: 1, ...throwerSpread()}", "[...throwerSpread()]", "(0, thrower)()", "{k: thrower()}"} {
		pre := "function thrower() { throw new RangeError(\"thrown by default\"); } var throwerObj = {valueOf() { throw new RangeError(\"valueOf\"); }, toString() { throw new RangeError(\"toString\"); }, get p() { throw new RangeError(\"getter\"); }}; function Thrower() { throw new RangeError(\"ctor\"); } var nothing; function throwerSpread() { throw new RangeError(\"spread\"); } "
		kinds := []string{"async function f(a, o = %D) { return [a, o]; }", "var f = async (a, o = %D) => [a, o];", "var f = {async m(a, o = %D) { return [a, o]; }}.m;", "async function f({x} = {}, o = %D) { return x; }"}
		kind := strings.ReplaceAll(kinds[i%len(kinds)], "%D", dflt)
		add(fmt.Sprint("async:param-default-throws:", i), "async () => { "+pre+kind+" var how = \"sync-throw\"; try { var pr = f(1); how = \"returned\"; $("+p()+", typeof pr.then); await pr.then(v => { how = \"resolved\"; }, e => { how = \"rejected:\" + e.message; }); } catch (e) { how += \":\" + e.message; } return how; }", true)
	}
	// an async arrow whose only use of "this" is implicit, through super property access
	add("async:arrow-super-implicit-this", "async () => { class B { get x() { return this.v; } set x(v) { this.w = v; } m2() { return this.v; } } class A extends B { v = "+P("7")+"; a() { return (async () => super.x)(); } b() { return (async () => { super.x = 5; return 1; })(); } c() { return (async () => super.m2())(); } } var o = new A(); return [await o.a(), await o.b(), o.w, await o.c()]; }", true)
	add("class:field-define-semantics", "() => { class A { set x(v) { $("+p()+", \"setter\", v); } get ro() { return \"proto\"; } } class B extends A { x = 1; ro = 2; } var b = new B(); return [Object.getOwnPropertyDescriptor(b, \"x\"), b.ro]; }", false)
	add("class:static-field-define", "() => { class A { static set x(v) { $("+p()+", \"setter\", v); } } class B extends A { static x = 1; } return Object.getOwnPropertyDescriptor(B, \"x\"); }", false)
	add("class:field-this-arrow", "() => { class C { v = 1; f = () => this.v; static sf = () => this.name === void 0 ? 0 : typeof this; } var c = new C(), f = c.f; return [f(), C.sf()]; }", false)
	add("class:field-no-value", "() => { class C { a; static b; 'c d'; 1; } var c = new C(); return [Object.keys(c), \"b\" in C, Object.getOwnPropertyDescriptor(c, \"a\")]; }", false)
	add("class:static-block-order", "() => { class C { static a = "+P("1")+"; static { $("+p()+", \"block1\", this.a, this === C); } static b = "+P("2")+"; static { $("+p()+", \"block2\", C.b); } } return C.a + C.b; }", false)
	add("class:static-this-super", "() => { class A { static v = 10; static m() { return 5; } } class B extends A { static w = this.v + super.m(); static { this.z = super.v; } } return [B.w, B.z]; }", false)
	add("class:private-methods", "() => { class C { #x = 1; #m() { return this.#x; } get #g() { return this.#x + 1; } set #g(v) { this.#x = v; } static #s = 5; static #sm() { return C.#s; } t() { this.#g = 10; return [this.#m(), this.#g, C.#sm(), this.#x++, this.#x, this.#x **= 2]; } } return new C().t(); }", false)
	add("class:private-brand", "() => { class C { #x; static is(o) { return #x in o; } static get(o) { return o.#x; } } return [C.is(new C()), C.is({}), (() => { try { return C.get({}); } catch (e) { return e; } })()]; }", false)
	add("class:private-in-non-object", "() => { class C { #x; static is(o) { return #x in o; } } return C.is(1); }", false)
	add("class:private-destructure", "() => { class C { #a; #b; c() { [this.#a, this.#b = "+P("5")+"] = ["+P("1")+"]; ({x: this.#a} = {x: "+P("9")+"}); return [this.#a, this.#b]; } } return new C().c(); }", false)
	add("class:private-assign-order", "() => { class C { #p = 1; static t(f) { f().#p = "+P("2")+"; return 1; } static n() { return new C(); } } return C.t(() => { $("+p()+", \"obj\"); return C.n(); }); }", false)
	add("class:private-method-readonly", "() => { class C { #m() {} t() { this.#m = 1; } } return new C().t(); }", false)
	add("class:private-getter-only", "() => { class C { get #g() { return 1; } t() { this.#g = 2; } } return new C().t(); }", false)
	add("class:private-static-wrong-receiver", "() => { class C { static #s = 1; static g() { return this.#s; } } class D extends C {} return D.g(); }", false)
	add("class:private-before-init", "() => { class A { constructor() { this.peek(); } peek() {} } class B extends A { #x = 1; peek() { return this.#x; } } return new B(); }", false)
	add("class:computed-key-once", "() => { var n = 0; class C { [(n++, \"a\")]() { return 1; } static [(n++, \"b\")] = n; [(n++, \"c\")] = n; } new C(); new C(); return [n, C.b, new C().c]; }", false)
	add("class:name-binding", "() => { var D = class C { static self = C; m() { return C; } }; var E = D; D = null; return [E.self === E, new E().m() === E]; }", false)
	add("class:expression-in-loop", "() => { var cs = []; for (var i = 0; i < 2; i++) cs.push(class K { static i = i; static self() { return K; } }); return [cs[0].self() === cs[0], cs[1].self() === cs[1], cs[0].i, cs[1].i]; }", false)
	add("class:accessor-static-name", "() => { class C { static name = \"custom\"; static length = 7; } return [C.name, C.length]; }", false)
	add("class:super-in-field", "() => { class A { m() { return \"A.m\"; } } class B extends A { f = super.m(); g = () => super.m(); } var b = new B(); return [b.f, b.g()]; }", false)
	add("class:super-in-object", "() => { var base = {m() { return \"base\"; }}; var o = {__proto__: base, m() { return super.m() + \"!\"; }, f: 1}; return o.m(); }", false)
	add("class:extends-null", "() => { class N extends null { static s = 1; } return [N.s, Object.getPrototypeOf(N.prototype)]; }", false)
	add("class:extends-expression-order", "() => { var r = []; class C extends (r.push(\"ext\"), Object) { [(r.push(\"key\"), \"k\")] = r.push(\"field\"); static s = r.push(\"static\"); } new C(); return r; }", false)
	add("class:getter-setter-pairs", "() => { class C { static get a() { return 1; } static set a(v) {} get a() { return 2; } set a(v) { this._a = v; } } var c = new C(); c.a = 5; return [C.a, c.a, c._a, Object.getOwnPropertyNames(C.prototype)]; }", false)
	add("class:new-target", "() => { class A { constructor() { this.nt = new.target === B; } } class B extends A { x = 1; } return new B().nt; }", false)
	add("class:return-override", "() => { class A { constructor() { return {o: 1}; } } class B extends A { f = 2; #p = 3; static h(o) { return #p in o; } } var b = new B(); return [b.o, b.f, B.h(b), b instanceof B]; }", false)
	add("class:field-arguments", "() => { function f() { return class { a = () => typeof arguments_; }; } var K = f(1, 2); return new K().a(); }", false)
	add("class:decl-tdz-free-use", "() => { class C { static a = 1; static b = C.a + 1; } return C.b; }", false)
	add("class:field-init-throws", "() => { class C { a = "+P("1")+"; b = (() => { throw new Error(\"@f\"); })(); c = "+P("3")+"; } try { new C(); } catch (e) { return e; } }", false)
	add("class:generator-method-private", "() => { class C { #v = [1, 2]; *[Symbol.iterator]() { yield* this.#v; } } return [...new C()]; }", false)
	// ---- async
	add("async:basic", "async function() { var a = await "+P("1")+"; var b = await thenable("+p()+", 2); return a + b; }", true)
	add("async:this-arguments", "async () => { var o = {v: 7, async m(a, b) { await null; return [this.v, arguments.length, a, b]; }}; return await o.m(1, 2); }", true)
	add("async:arrow-this-arguments", "async () => { function F() { this.v = 8; this.m = async () => { await null; return [this.v, arguments[0]]; }; } return await new F(9).m(); }", true)
	add("async:default-param-throws", "async () => { async function f(a = (() => { throw new Error(\"@p\"); })()) {} var p; try { p = f(); $("+p()+", \"returned-promise\"); } catch (e) { $("+p()+", \"sync-throw\", e); return 0; } try { await p; } catch (e) { return [\"rejected\", e]; } }", true)
	add("async:default-param-object-literal-throws", "async () => { async function f(a = {k: (() => { throw new Error(\"@p\"); })()}, b = [...null]) {} var p; try { p = f(); $("+p()+", \"returned-promise\"); } catch (e) { $("+p()+", \"sync-throw\", e); return 0; } try { await p; } catch (e) { return [\"rejected\", e]; } }", true)
	add("async:arrow-default-param-throws", "async () => { var f = async (a = [...null]) => {}; var p; try { p = f(); $("+p()+", \"returned-promise\"); } catch (e) { $("+p()+", \"sync-throw\", e); return 0; } try { await p; } catch (e) { return [\"rejected\", e]; } }", true)
	add("async:try-finally", "async () => { async function f() { try { await "+P("1")+"; throw new Error(\"@t\"); } catch (e) { $("+p()+", \"caught\", e); return await "+P("2")+"; } finally { await "+P("3")+"; $("+p()+", \"finally\"); } } return await f(); }", true)
	add("async:return-await-finally", "async () => { async function f() { try { return await Promise.reject(new Error(\"@r\")); } catch (e) { return \"caught\"; } } async function g() { try { return Promise.reject(new Error(\"@r\")); } catch (e) { return \"caught\"; } } return [await f(), await g().catch(e => \"escaped\")]; }", true)
	add("async:super-method", "async () => { class A { async m(x) { return x + 1; } get p() { return 5; } } class B extends A { async m(x) { await null; var f = async () => super.p; return [await super.m(x), await f(), super[\"p\"]]; } } return await new B().m(1); }", true)
	add("async:super-in-arrow-no-this", "async () => { class A { x() { return \"Ax\"; } } class B extends A { m() { return (async () => super.x())(); } } return await new B().m(); }", true)
	add("async:super-assign", "async () => { class A {} class B extends A { async m() { await null; super.q = 3; return [this.q, Object.keys(this)]; } } return await new B().m(); }", true)
	add("async:static-super", "async () => { class A { static s() { return \"As\"; } } class B extends A { static async t() { await null; return super.s(); } } return await B.t(); }", true)
	add("async:object-method-super", "async () => { var base = {m() { return \"base\"; }}; var o = {__proto__: base, async m() { await null; return super.m(); }}; return await o.m(); }", true)
	add("async:in-class-field", "async () => { class C { v = 3; f = async () => { await null; return this.v; }; } return await new C().f(); }", true)
	add("async:loops", "async () => { var out = []; for (var i = 0; i < 3; i++) { if (i === 1) continue; out.push(await "+P("i")+"); } var j = 0; while (await (j < 2)) j++; L: for (const x of [1, 2, 3]) { for (const y of [1, 2]) { if (await (y === 2)) continue L; if (x === 3) break L; out.push([x, y]); } } return [out, j]; }", true)
	add("async:closure-in-loop", "async () => { var fs = []; for (let i = 0; i < 3; i++) { await null; fs.push(() => i); } return fs.map(f => f()); }", true)
	add("async:switch-labels", "async () => { async function f(v) { switch (await v) { case 1: await null; return \"one\"; case await 2: return \"two\"; default: break; } return \"other\"; } return [await f(1), await f(2), await f(3)]; }", true)
	add("async:nested-functions", "async () => { async function outer() { var a = await 1; function inner() { return typeof arguments_ + this_; } var this_ = 2; return a; } return await outer(); }", true)
	add("async:await-thenable-order", "async () => { var t = thenable("+p()+", 1); $("+p()+", \"before\"); var v = await t; $("+p()+", \"after\", v); return v; }", true)
	add("async:reject-non-error", "async () => { try { await Promise.reject(0); } catch (e) { return [e]; } }", true)
	add("async:generator-interplay", "async () => { function* g() { var x = yield 1; return x; } async function f() { var it = g(); it.next(); return it.next(await 5).value; } return await f(); }", true)
	add("async:arrow-in-param", "async () => { async function f(a, b = async () => await a) { return await b(); } return await f(4); }", true)
	add("async:destructured-param", "async () => { async function f({a, b = "+P("2")+"}, [c] = [3]) { await null; return [a, b, c]; } return await f({a: 1}); }", true)
	add("async:arguments-mapped", "async () => { async function f(a) { arguments[0] = 9; await null; return [a, arguments.length]; } return await f(1, 2); }", true)
	add("async:function-length-name", "async () => { async function f(a, b) {} var g = async (x) => {}; return [f.length, g.length, Object.getPrototypeOf(f) === Object.getPrototypeOf(async function() {}), f() instanceof Promise]; }", true)
	add("async:constructor-check", "async () => { async function f() {} try { new f(); } catch (e) { return e; } }", true)
	// ---- async generators / for-await
	add("asyncgen:basic", "async () => { async function* g() { var x = yield "+P("1")+"; $("+p()+", \"got\", x); yield await "+P("2")+"; return 3; } var it = g(); return [await it.next(), await it.next(\"x\"), await it.next(), await it.next()]; }", true)
	add("asyncgen:for-await-sync-iterable", "async () => { var out = []; for await (var v of ["+P("1")+", Promise.resolve(2), thenable("+p()+", 3)]) out.push(v); return out; }", true)
	add("asyncgen:for-await-async-iterable", "async () => { var out = []; for await (const v of aiter("+p()+", 3)) { out.push(v); if (v === 1) break; } return out; }", true)
	add("asyncgen:for-await-throw-closes", "async () => { try { for await (const v of aiter("+p()+", 3)) { throw new Error(\"@l\"); } } catch (e) { return e; } }", true)
	add("asyncgen:yield-star", "async () => { async function* inner() { yield 1; yield 2; return \"r\"; } async function* outer() { var r = yield* inner(); yield r; yield* [7, 8]; } var out = []; for await (var v of outer()) out.push(v); return out; }", true)
	add("asyncgen:return-throw", "async () => { async function* g() { try { yield 1; yield 2; } finally { $("+p()+", \"cleanup\"); yield \"f\"; } } var it = g(); var a = await it.next(); var b = await it.return(\"R\"); var c = await it.next(); var d = await it.next(); return [a, b, c, d]; }", true)
	add("asyncgen:throw-method", "async () => { async function* g() { try { yield 1; } catch (e) { yield [\"caught\", e]; } } var it = g(); await it.next(); return [await it.throw(new Error(\"@g\")), await it.next()]; }", true)
	add("asyncgen:this-arguments", "async () => { var o = {v: 4, async *m(a) { yield [this.v, arguments.length, a]; }}; return (await o.m(1, 2).next()).value; }", true)
	add("asyncgen:method-super", "async () => { class A { v() { return \"Av\"; } } class B extends A { async *m() { yield super.v(); } } return (await new B().m().next()).value; }", true)
	add("asyncgen:yield-promise", "async () => { async function* g() { yield Promise.resolve(1); yield thenable("+p()+", 2); } var out = []; for await (var v of g()) out.push(v); return out; }", true)
	add("asyncgen:for-await-destructure", "async () => { var out = []; for await (var {a, ...r} of [{a: 1, b: 2}]) out.push([a, r]); for await (const [x, y = 5] of [[1], [2, 3]]) out.push([x, y]); return out; }", true)
	add("asyncgen:for-await-in-asyncgen", "async () => { async function* g() { for await (const v of aiter("+p()+", 2)) yield v * 2; } var out = []; for await (const v of g()) out.push(v); return out; }", true)
	add("asyncgen:queue-order", "async () => { async function* g() { yield 1; yield 2; } var it = g(); var p1 = it.next(), p2 = it.next(), p3 = it.next(); return [await p1, await p2, await p3]; }", true)
	// ---- misc ES2019+ syntax that is lowered or passed through
	add("optional-catch", "() => { try { throw 1; } catch { return 2; } }", false)
	add("numeric-separators", "() => [1_000, 1_0.0_1, 0b1_0, 1_0n]", false)
	add("regexp-flags", "() => [/a./s.test(\"a\\n\"), /(?<y>\\d{4})/.exec(\"2020\").groups.y, /\\p{L}/u.test(\"é\"), \"aXbX\".replace(/(?<=a)X/, \"_\")]", false)
	add("bigint", "() => [1n + 2n, typeof 1n, 2n ** 10n, BigInt.asUintN(8, 257n)]", false)
	add("logical-assign-short-circuit", "() => { var o = {get p() { $("+p()+", \"get\"); return 1; }, set p(v) { $("+p()+", \"set\"); }}; o.p ||= "+P("2")+"; o.p &&= "+P("3")+"; o.p ??= "+P("4")+"; return 1; }", false)
	add("hashbang-free", "() => 1", false)
	add("class-static-arrow-arguments", "() => { function f() { return class { static a = (() => this === void 0)(); }; } return f().a; }", false)
	add("object-proto-literal", "() => { var o = {__proto__: {x: 1}, y: 2}; return [o.x, Object.keys(o)]; }", false)
	add("arrow-this-lexical", "() => { function F() { this.v = 1; return {g: () => this.v, h() { return (() => this === F)(); }}; } var o = new F(); return [o.g(), o.h()]; }", false)
	add("generator-basic", "() => { function* g(a) { var x = yield a; try { yield x * 2; } finally { $("+p()+", \"fin\"); } } var it = g(1); return [it.next(), it.next(5), it.return(9), it.next()]; }", false)
	add("for-of-closing", "() => { var out = []; for (var v of iter("+p()+", 5)) { out.push(v); if (v === 1) break; } return out; }", false)
	add("default-param-scope", "() => { var x = \"outer\"; function f(a = () => x, b = a()) { var x = \"inner\"; return [a(), b, x]; } return f(); }", false)
	add("param-tdz-free", "() => { function f(a = 1, b = a + 1, {c} = {c: b + 1}) { return [a, b, c]; } return f(); }", false)
	add("exponent-in-class-field", "() => { class C { x = 2 ** 3; static y = (-2) ** 2; } return [new C().x, C.y]; }", false)
	add("spread-new", "() => { class K { constructor(...a) { this.a = a; } } return new K(...[1, 2], ...iter("+p()+", 2)).a; }", false)
	add("object-shorthand-computed", "() => { var a = 1; return {a, [\"b\" + a]: 2, [`c${a}`]() { return 3; }, get [key("+p()+", \"d\")]() { return 4; }}; }", false)
	for i := range out {
		_ = i
	}
	return out
}

// featSource builds a program from feature cases: sync cases through T, async cases queued and run sequentially.
func featSource(cases []packCase) string {
	var b strings.Builder
	b.WriteString(packPrelude)
	b.WriteString(featPrelude)
	for _, c := range cases {
		if strings.HasPrefix(c.Body, "\x00") {
			b.WriteString(fmt.Sprintf("TA(%q, %s);\n", c.ID, c.Body[1:]))
		} else {
			b.WriteString(fmt.Sprintf("T(%q, %s);\n", c.ID, c.Body))
		}
	}
	b.WriteString(featPostlude)
	return b.String()
}
