package main

import "fmt"

// sloppyCases: sloppy-mode semantics that must survive printing when the output format is not changed.
func sloppyCases() []packCase {
	bodies := []string{
		`function() { return this === undefined; }`,
		`function() { "use strict"; return this === undefined; }`,
		`function() { 'use strict'; return this === undefined; }`,
		`function() { void 0; "use strict"; return this === undefined; }`,
		`function() { NaN; "use strict"; return this === undefined; }`,
		`function() { undefined; 'use strict'; return this === undefined; }`,
		`function() { ("use strict"); return this === undefined; }`,
		`function() { ('use strict'); return this === undefined; }`,
		`function() { "use\x20strict"; return this === undefined; }`,
		`function() { "use strict"; return this === undefined; }`,
		`function() { "use strict" + ""; return this === undefined; }`,
		`function() { "use strict", 0; return this === undefined; }`,
		`function() { "use strict".length; return this === undefined; }`,
		"function() { `use strict`; return this === undefined; }",
		`function() { "x"; "use strict"; return this === undefined; }`,
		`function() { "use strict"
 ["a"]; return this === undefined; }`,
		`function() { ; "use strict"; return this === undefined; }`,
		`function() { {} "use strict"; return this === undefined; }`,
		`function() { var f = function() { 1; "use strict"; return this === undefined; }; return f(); }`,
		`function() { var f = () => { void 0; "use strict"; return 010; }; return f(); }`,
		`function() { return 010 + 08 + 0o10; }`,
		`function() { return "\07\101\8"; }`,
		`function(a) { a = 2; return arguments[0]; }`,
		`function(a) { arguments[0] = 3; return a; }`,
		`function(a, a) { return a; }`,
		`function() { var o = {x: 1}; with (o) { x = 2; var y = x; } return [o.x, y]; }`,
		`function() { var x = 1; return delete x; }`,
		`function() { try { undeclared_sloppy_var = 1; return typeof undeclared_sloppy_var; } finally { delete globalThis.undeclared_sloppy_var; } }`,
		`function() { return typeof (function() { return this; })(); }`,
		`function() { var r = typeof f0; { function f0() {} } return [r, typeof f0]; }`,
		`function() { if (true) function f1() { return 1; } return typeof f1; }`,
		`function() { L: function f2() {} return typeof f2; }`,
		`function() { var yield_ = 1, let = 2, static = 3, implements = 4, package = 5; return let + static + implements + package; }`,
		`function() { var eval = 1, arguments = 2; return eval + arguments; }`,
		`function() { var o = {get a() { return 1; }}; o.a = 2; return o.a; }`,
		`function() { var o = Object.freeze({a: 1}); o.a = 2; return o.a; }`,
		`function() { return (function() { return !this; })() ; }`,
		`function() { return (function() { return typeof this; }).call(1); }`,
		`function() { function g(a, b) { "use strict"; return this === undefined; } return g(); }`,
		`function() { function g(a = 1) { return this === undefined; } return g(); }`,
		`function() { class K { m() { return (function() { return this === undefined; })(); } } return new K().m(); }`,
		`function() { return [function() { 1; "use strict"; return !this; }(), function() { "use strict"; return !this; }()]; }`,
		`function() { return (() => { 1; 'use strict'; return typeof this; })(); }`,
		`function() { var o = { m() { 0; "use strict"; return function() { return this; }() === undefined; } }; return o.m(); }`,
		`function() { var o = { get g() { void 0; "use strict"; return (function() { return !this; })(); } }; return o.g; }`,
	}
	var cases []packCase
	for i, b := range bodies {
		cases = append(cases, packCase{ID: fmt.Sprint("s", i), Body: b, Sig: "sloppy:" + b})
	}
	return cases
}
