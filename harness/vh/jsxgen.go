package main

// jsxgen: JSX element trees printed twice — as JSX text (the input esbuild sees) and as the calls the JSX
// specification defines for them (classic runtime: createElement(type, props, ...children); automatic runtime:
// jsx/jsxs(type, {…props, children}, key)). The desugaring, including the white-space rules for JSX text and the
// entity table, is this generator's own implementation; both programs run against a recording factory.

import (
	"fmt"
	"strconv"
	"strings"
)

type jsxgen struct {
	rng *Rng
	k   int
}

func (g *jsxgen) probe(v string) string { g.k++; return fmt.Sprintf("$(%d, %s)", g.k, v) }

var jsxEntities = map[string]string{"amp": "&", "lt": "<", "gt": ">", "quot": "\"", "apos": "'", "copy": "©", "euro": "€", "hellip": "…", "ne": "≠", "Omega": "Ω", "nbsp": " "}

// decodeEntities implements the JSX entity rules: &name; from the HTML table, &#ddd; and &#xhh;; anything else stays as written.
func jsxDecodeEntities(s string) string {
	var b strings.Builder
	for i := 0; i < len(s); {
		if s[i] == '&' {
			if j := strings.IndexByte(s[i:], ';'); j > 1 && j < 12 {
				name := s[i+1 : i+j]
				if v, ok := jsxEntities[name]; ok {
					b.WriteString(v)
					i += j + 1
					continue
				}
				if strings.HasPrefix(name, "#x") || strings.HasPrefix(name, "#X") {
					if n, err := strconv.ParseInt(name[2:], 16, 32); err == nil && len(name) > 2 {
						b.WriteRune(rune(n))
						i += j + 1
						continue
					}
				} else if strings.HasPrefix(name, "#") {
					if n, err := strconv.ParseInt(name[1:], 10, 32); err == nil && len(name) > 1 {
						b.WriteRune(rune(n))
						i += j + 1
						continue
					}
				}
			}
		}
		b.WriteByte(s[i])
		i++
	}
	return b.String()
}

// jsxCleanText implements the white-space rules for JSX text: lines are split at line terminators; leading white space
// (spaces and tabs) of every line but the first and trailing white space of every line but the last is removed; lines that
// become empty disappear; the rest is joined with single spaces. Entities are decoded afterwards (so they are never trimmed).
func jsxCleanText(raw string) string {
	norm := strings.ReplaceAll(strings.ReplaceAll(raw, "\r\n", "\n"), "\r", "\n")
	lines := strings.Split(norm, "\n")
	var parts []string
	for i, l := range lines {
		if i != 0 {
			l = strings.TrimLeft(l, " \t")
		}
		if i != len(lines)-1 {
			l = strings.TrimRight(l, " \t")
		}
		if l != "" {
			parts = append(parts, l)
		}
	}
	return jsxDecodeEntities(strings.Join(parts, " "))
}

func jsQuote(s string) string {
	var b strings.Builder
	b.WriteByte('"')
	for _, r := range s {
		switch {
		case r == '"' || r == '\\':
			b.WriteByte('\\')
			b.WriteRune(r)
		case r == '\n':
			b.WriteString("\\n")
		case r == '\r':
			b.WriteString("\\r")
		case r == '\t':
			b.WriteString("\\t")
		case r < 0x20 || r == 0x2028 || r == 0x2029:
			b.WriteString(fmt.Sprintf("\\u%04x", r))
		case r > 0xffff:
			r -= 0x10000
			b.WriteString(fmt.Sprintf("\\u%04x\\u%04x", 0xd800+(r>>10), 0xdc00+(r&0x3ff)))
		default:
			b.WriteRune(r)
		}
	}
	b.WriteByte('"')
	return b.String()
}

var jsxTextPieces = []string{"hello", "world", " ", "  ", "\t", "\n", "\n  ", "  \n", "\n\n", "\r\n    ", "a b", "&amp;", "&lt;", "&gt;", "&quot;", "&apos;", "&copy;", "&euro;", "&#123;", "&#x7D;", "&#65;", "&unknown;", "&;", "& ",
	"\u00e9", "\u65e5\u672c", "\U0001F600", "it's", "\"q\"", "1 &lt; 2 ", "x", ".", "-", "/", "\\n", "\\", "$"}

// element returns (jsx text, classic desugaring, automatic desugaring)
func (g *jsxgen) element(depth int, factory, fragment string) (string, string, string) {
	r := g.rng
	isFrag := r.Intn(7) == 0
	tagJSX, tagRef := "", ""
	if !isFrag {
		switch r.Intn(8) {
		case 0:
			tagJSX, tagRef = "Comp", "Comp"
		case 1:
			tagJSX, tagRef = "NS.Inner", "NS.Inner"
		case 2:
			tagJSX, tagRef = "my-element", `"my-element"`
		case 3:
			tagJSX, tagRef = "NS.deep.C", "NS.deep.C"
		default:
			t := r.Pick([]string{"div", "span", "a", "p", "svg", "i"})
			tagJSX, tagRef = t, `"`+t+`"`
		}
	}
	// attributes
	var attrsJSX []string
	var propsRef, propsAuto []string
	keyJSX, keyRef := "", ""
	if !isFrag {
		if r.Intn(5) == 0 {
			if r.Bool() {
				keyJSX, keyRef = `key="k`+fmt.Sprint(g.k)+`"`, `"k`+fmt.Sprint(g.k)+`"`
			} else {
				p := g.probe(`"kk"`)
				keyJSX, keyRef = "key={"+p+"}", p
			}
			attrsJSX = append(attrsJSX, keyJSX)
		}
		for i, n := 0, r.Intn(4); i < n; i++ {
			name := r.Pick([]string{"a", "b", "data-x", "aria-label", "className", "xlink:href", "on-x"})
			if len(propsAuto) < len(propsRef) {
				propsAuto = append(propsAuto, propsRef[len(propsAuto):]...)
			}
			switch r.Intn(7) {
			case 0:
				attrsJSX = append(attrsJSX, name)
				propsRef = append(propsRef, jsQuote(name)+": true")
			case 1:
				raw := r.Pick([]string{"plain", "with space", "it's", "&amp;&lt;", "&quot;dq&quot;", "é😀", "a\\nb", "&#65;&copy;", "", "  padded  ", "&unknown;"})
				attrsJSX = append(attrsJSX, name+`="`+raw+`"`)
				propsRef = append(propsRef, jsQuote(name)+": "+jsQuote(jsxDecodeEntities(raw)))
			case 2:
				raw := r.Pick([]string{"single", "say \"hi\"", "&apos;", "tab\there"})
				attrsJSX = append(attrsJSX, name+`='`+raw+`'`)
				propsRef = append(propsRef, jsQuote(name)+": "+jsQuote(jsxDecodeEntities(raw)))
			case 3:
				p := g.probe(r.Pick([]string{"1", `"s"`, "null", "[1, 2]", "{x: 1}", "void 0", "true"}))
				attrsJSX = append(attrsJSX, name+"={"+p+"}")
				propsRef = append(propsRef, jsQuote(name)+": "+p)
			case 4:
				p := g.probe(r.Pick([]string{"{s: 1}", "{a: 0, z: 9}", "{}", "null"}))
				attrsJSX = append(attrsJSX, "{..."+p+"}")
				propsRef = append(propsRef, "..."+p)
			case 5:
				if depth > 0 {
					j, c, a := g.element(0, factory, fragment)
					attrsJSX = append(attrsJSX, name+"="+j)
					propsRef = append(propsRef, jsQuote(name)+": "+c)
					propsAuto = append(propsAuto, jsQuote(name)+": "+a)
					continue
				}
				fallthrough
			default:
				p := g.probe("2")
				attrsJSX = append(attrsJSX, name+"={ "+p+" /* c */ }")
				propsRef = append(propsRef, jsQuote(name)+": "+p)
			}
		}
	}
	// children
	var childJSX strings.Builder
	var kidsClassic, kidsAuto []string
	selfClosing := !isFrag && r.Intn(4) == 0
	if !selfClosing {
		for i, n := 0, r.Intn(5); i < n; i++ {
			switch r.Intn(6) {
			case 0, 1:
				var raw strings.Builder
				for j, m := 0, 1+r.Intn(5); j < m; j++ {
					raw.WriteString(r.Pick(jsxTextPieces))
				}
				childJSX.WriteString(raw.String())
				// adjacent text pieces form one JSX text: cleaned together below
				kidsClassic = append(kidsClassic, "\x00"+raw.String())
			case 2:
				p := g.probe(r.Pick([]string{"1", `"s"`, "null", "[1, 2]", "false"}))
				childJSX.WriteString("{" + p + "}")
				kidsClassic = append(kidsClassic, p)
			case 3:
				childJSX.WriteString(r.Pick([]string{"{}", "{/* comment */}", "{ }"}))
				kidsClassic = append(kidsClassic, "\x02") // contributes no child but separates the JSX texts around it
			case 4:
				if depth > 0 {
					j, c, a := g.element(depth-1, factory, fragment)
					childJSX.WriteString(j)
					kidsClassic = append(kidsClassic, c+"\x01"+a)
					continue
				}
				fallthrough
			default:
				p := g.probe("3")
				childJSX.WriteString("{" + p + " ? " + p + " : null}")
				kidsClassic = append(kidsClassic, p+" ? "+p+" : null")
			}
		}
	}
	// merge adjacent raw texts, clean them, split classic/auto forms
	var merged []string
	for _, k := range kidsClassic {
		if strings.HasPrefix(k, "\x00") && len(merged) > 0 && strings.HasPrefix(merged[len(merged)-1], "\x00") {
			merged[len(merged)-1] += k[1:]
		} else {
			merged = append(merged, k)
		}
	}
	kidsClassic = nil
	for _, k := range merged {
		switch {
		case k == "\x02":
		case strings.HasPrefix(k, "\x00"):
			if t := jsxCleanText(k[1:]); t != "" {
				kidsClassic = append(kidsClassic, jsQuote(t))
				kidsAuto = append(kidsAuto, jsQuote(t))
			}
		case strings.Contains(k, "\x01"):
			p := strings.SplitN(k, "\x01", 2)
			kidsClassic = append(kidsClassic, p[0])
			kidsAuto = append(kidsAuto, p[1])
		default:
			kidsClassic = append(kidsClassic, k)
			kidsAuto = append(kidsAuto, k)
		}
	}
	// print
	var jsx string
	switch {
	case isFrag:
		jsx = "<>" + childJSX.String() + "</>"
	case selfClosing:
		jsx = "<" + tagJSX + strings.Join(append([]string{""}, attrsJSX...), " ") + r.Pick([]string{" />", "/>"})
	default:
		jsx = "<" + tagJSX + strings.Join(append([]string{""}, attrsJSX...), " ") + ">" + childJSX.String() + "</" + tagJSX + ">"
	}
	if isFrag {
		tagRef = fragment
	}
	// classic: key is an ordinary prop
	classicProps := "null"
	cp := propsRef
	if keyRef != "" {
		cp = append([]string{`"key": ` + keyRef}, propsRef...)
	}
	if len(cp) > 0 {
		classicProps = "{" + strings.Join(cp, ", ") + "}"
	}
	classic := factory + "(" + strings.Join(append([]string{tagRef, classicProps}, kidsClassic...), ", ") + ")"
	// automatic
	autoTag := tagRef
	if isFrag {
		autoTag = "__rt.Fragment"
	}
	if len(propsAuto) < len(propsRef) {
		propsAuto = append(propsAuto, propsRef[len(propsAuto):]...)
	}
	ap := append([]string{}, propsAuto...)
	fn := "__rt.jsx"
	if len(kidsAuto) == 1 {
		ap = append(ap, `"children": `+kidsAuto[0])
	} else if len(kidsAuto) > 1 {
		ap = append(ap, `"children": [`+strings.Join(kidsAuto, ", ")+"]")
		fn = "__rt.jsxs"
	}
	auto := fn + "(" + autoTag + ", {" + strings.Join(ap, ", ") + "}"
	if keyRef != "" {
		auto += ", " + keyRef
	}
	auto += ")"
	return jsx, classic, auto
}

const jsxDecls = "var Comp = {n: \"Comp\"}, NS = {Inner: {n: \"NS.Inner\"}, deep: {C: {n: \"NS.deep.C\"}}};\n"

const jsxPrelude = `var React = {createElement: function (t, p) { return {$$: "ce", t: t, p: p, c: [].slice.call(arguments, 2)}; }, Fragment: {n: "Fragment"}};
var h = function (t, p) { return {$$: "h", t: t, p: p, c: [].slice.call(arguments, 2)}; }, F = {n: "F"};
var __rt = {jsx: function (t, p, k) { return {$$: "jsx", t: t, p: p, k: k}; }, jsxs: function (t, p, k) { return {$$: "jsxs", t: t, p: p, k: k}; }, Fragment: {n: "rt.Fragment"}};
var require = function (n) { return n === "react/jsx-runtime" ? __rt : n === "react" ? React : {}; };
`

// Program returns a JSX program and its reference desugarings for the classic factory `factory`/`fragment` and for the automatic runtime.
func (g *jsxgen) Program(n int, factory, fragment string) (jsx, classic, auto string) {
	var a, b, c strings.Builder
	a.WriteString(jsxDecls)
	b.WriteString(jsxDecls)
	c.WriteString(jsxDecls)
	for i := 0; i < n; i++ {
		g.k++
		id := g.k
		j, cl, au := g.element(2, factory, fragment)
		switch g.rng.Intn(4) {
		case 0:
			a.WriteString(fmt.Sprintf("var e%d = %s;\n$(%d, e%d);\n", id, j, id, id))
			b.WriteString(fmt.Sprintf("var e%d = %s;\n$(%d, e%d);\n", id, cl, id, id))
			c.WriteString(fmt.Sprintf("var e%d = %s;\n$(%d, e%d);\n", id, au, id, id))
		case 1:
			a.WriteString(fmt.Sprintf("$(%d, (function () { return (\n  %s\n); })());\n", id, j))
			b.WriteString(fmt.Sprintf("$(%d, (function () { return (\n  %s\n); })());\n", id, cl))
			c.WriteString(fmt.Sprintf("$(%d, (function () { return (\n  %s\n); })());\n", id, au))
		default:
			a.WriteString(fmt.Sprintf("$(%d, %s);\n", id, j))
			b.WriteString(fmt.Sprintf("$(%d, %s);\n", id, cl))
			c.WriteString(fmt.Sprintf("$(%d, %s);\n", id, au))
		}
	}
	return a.String(), b.String(), c.String()
}
