package main

import (
	"fmt"
	"strings"
)

// markgen: marker programs for the source-map check (C07). Every identifier, string, number and template chunk is
// unique in the whole build (v_123, "s_124", 1000125, `t_126`), so a generated token identifies its origin by value.
// Layout is adversarial: tabs, very long lines, CRLF / lone CR / U+2028 line ends, astral and combining characters
// in comments and strings before tokens, an optional BOM.

type markgen struct {
	rng   *Rng
	n     *int // shared counter across the files of one build
	b     strings.Builder
	decl  []string // names declared at the top level of this file
	vars  []string // assignable ones (var/let declared in this file)
	fns   []string
	eol   string
	wide  bool // put many statements on one line
	depth int
}

func (g *markgen) next() int { *g.n++; return *g.n }
func (g *markgen) id(p string) string {
	return fmt.Sprintf("%s_%d", p, 100+g.next())
}
func (g *markgen) str() string {
	n := 100 + g.next()
	switch g.rng.Intn(6) {
	case 0:
		return fmt.Sprintf("\"s_%d\U0001F600\"", n)
	case 1:
		return fmt.Sprintf("'s_%d é'", n)
	case 2:
		return fmt.Sprintf("\"s_%d\\u2028x\"", n)
	default:
		return fmt.Sprintf("\"s_%d\"", n)
	}
}
func (g *markgen) num() string { return fmt.Sprint(1000000 + (100+g.next())*7%899999 + 1) }
func (g *markgen) tpl(inner string) string {
	return fmt.Sprintf("`t_%d${%s}t_%d`", 100+g.next(), inner, 100+g.next())
}

func (g *markgen) sep() string {
	r := g.rng
	if g.wide && r.Intn(8) != 0 {
		return r.Pick([]string{" ", "  ", "\t", " /* \U0001F600 wide */ ", " /* é */ "})
	}
	ind := strings.Repeat(r.Pick([]string{"  ", "\t", ""}), g.depth)
	switch r.Intn(10) {
	case 0:
		return g.eol + g.eol + ind
	case 1:
		return " // c\U0001F600" + g.eol + ind
	case 2:
		return g.eol + "/*   multi" + g.eol + " line \U0001F600 */ " + ind
	default:
		return g.eol + ind
	}
}

// ref returns some declared name (or a fresh free one)
func (g *markgen) ref() string {
	if len(g.decl) > 0 && g.rng.Intn(5) != 0 {
		return g.decl[g.rng.Intn(len(g.decl))]
	}
	return g.id("free")
}

func (g *markgen) expr(d int) string {
	r := g.rng
	if d <= 0 {
		switch r.Intn(4) {
		case 0:
			return g.str()
		case 1:
			return g.num()
		default:
			return g.ref()
		}
	}
	switch r.Intn(14) {
	case 0:
		return g.ref() + "(" + g.expr(d-1) + ", " + g.expr(d-1) + ")"
	case 1:
		return "[" + g.expr(d-1) + ", " + g.expr(d-1) + "]"
	case 2:
		return "{" + g.id("k") + ": " + g.expr(d-1) + ", " + g.str() + ": " + g.expr(d-1) + ", [" + g.ref() + "]: " + g.num() + "}"
	case 3:
		return g.ref() + "." + g.id("p") + "?." + g.id("q") + "(" + g.expr(d-1) + ")"
	case 4:
		return g.tpl(g.expr(d - 1))
	case 5:
		p := g.id("a")
		return "((" + p + ") => " + p + "(" + g.expr(d-1) + "))"
	case 6:
		p := g.id("a")
		return "(function " + g.id("fe") + "(" + p + ", ..." + g.id("r") + ") { return " + p + " || " + g.expr(d-1) + "; })"
	case 7:
		return "(" + g.ref() + " ? " + g.expr(d-1) + " : " + g.expr(d-1) + ")"
	case 8:
		return "new " + g.ref() + "(" + g.expr(d-1) + ")"
	case 9:
		return g.ref() + "[" + g.str() + "]"
	case 10:
		return "(" + g.expr(d-1) + ", " + g.expr(d-1) + ")"
	case 11:
		return "(typeof " + g.ref() + " === " + g.str() + ")"
	case 12:
		return g.ref() + "`t_" + fmt.Sprint(100+g.next()) + "`"
	default:
		return g.expr(d - 1)
	}
}

func (g *markgen) stmt(top bool) {
	r := g.rng
	w := func(s string) { g.b.WriteString(s) }
	export := ""
	if top && r.Intn(3) == 0 {
		export = "export "
	}
	switch r.Intn(14) {
	case 0, 1:
		n := g.id("v")
		kw := r.Pick([]string{"var", "let", "const"})
		w(export + kw + " " + n + " = " + g.expr(2) + ";")
		if top {
			g.decl = append(g.decl, n)
			if kw != "const" {
				g.vars = append(g.vars, n)
			}
		}
	case 2, 3:
		n := g.id("fn")
		p1, p2 := g.id("a"), g.id("b")
		w(export + r.Pick([]string{"function ", "async function ", "function* "}) + n + "(" + p1 + ", " + p2 + " = " + g.expr(1) + ") {")
		g.depth++
		save := g.decl
		g.decl = append(append([]string{}, g.decl...), p1, p2)
		for i, k := 0, 1+r.Intn(3); i < k; i++ {
			w(g.sep())
			g.stmt(false)
		}
		w(g.sep() + "return " + p1 + " + " + g.expr(1) + ";")
		g.decl = save
		g.depth--
		w(g.sep() + "}")
		if top {
			g.decl = append(g.decl, n)
			g.fns = append(g.fns, n)
		}
	case 4:
		n := g.id("C")
		w(export + "class " + n)
		if len(g.fns) > 0 && r.Bool() {
			w(" extends " + g.fns[r.Intn(len(g.fns))])
		}
		w(" {")
		g.depth++
		w(g.sep() + g.id("f") + " = " + g.expr(1) + ";")
		priv := "#" + g.id("pv")
		w(g.sep() + priv + " = " + g.num() + ";")
		m, a := g.id("m"), g.id("a")
		w(g.sep() + "static " + m + "(" + a + ") { return [" + a + ", this." + g.id("p") + ", " + g.expr(1) + "]; }")
		w(g.sep() + "get " + g.id("g") + "() { return this." + priv + "; }")
		g.depth--
		w(g.sep() + "}")
		if top {
			g.decl = append(g.decl, n)
		}
	case 5:
		w("if (" + g.expr(1) + ") {")
		g.depth++
		w(g.sep())
		g.stmt(false)
		g.depth--
		w(g.sep() + "} else " + g.ref() + "(" + g.str() + ");")
	case 6:
		v := g.id("it")
		w("for (const " + v + " of [" + g.num() + ", " + g.str() + "]) " + g.ref() + "(" + v + ", " + g.expr(1) + ");")
	case 7:
		e := g.id("err")
		w("try { " + g.ref() + "(" + g.expr(1) + "); } catch (" + e + ") { " + g.ref() + "(" + e + "); } finally { " + g.ref() + "(" + g.num() + "); }")
	case 8:
		l := g.id("lbl")
		w(l + ": while (" + g.ref() + ") { if (" + g.expr(1) + ") break " + l + "; " + g.ref() + "(" + g.str() + "); }")
	case 9:
		k1, v1, rest := g.id("k"), g.id("d"), g.id("rest")
		w("var {" + k1 + ": " + v1 + " = " + g.num() + ", ..." + rest + "} = " + g.ref() + ";")
		if top {
			g.decl = append(g.decl, v1, rest)
		}
	case 10:
		t := g.id("free")
		if len(g.vars) > 0 {
			t = g.vars[r.Intn(len(g.vars))]
		}
		w(t + " = " + g.expr(2) + ";")
	case 11:
		w("switch (" + g.ref() + ") { case " + g.str() + ": " + g.ref() + "(" + g.num() + "); break; default: " + g.ref() + "(" + g.expr(1) + "); }")
	default:
		w(g.ref() + "(" + g.expr(2) + ");")
	}
}

type markFile struct {
	Path    string
	Code    string
	Exports []string
	Aliases map[string]string // local import alias -> exported name
}

// markFiles generates the files of one build: fN.js import from earlier files; the last `entries` files are entry points.
func markFiles(rng *Rng, nfiles int, dynamic bool) []markFile {
	counter := 0
	var files []markFile
	for i := 0; i < nfiles; i++ {
		g := &markgen{rng: rng.Fork(fmt.Sprint("mark", i)), n: &counter}
		aliases := map[string]string{}
		g.eol = rng.Pick([]string{"\n", "\n", "\r\n", "\n", "\r"})
		g.wide = rng.Intn(4) == 0
		if rng.Intn(6) == 0 {
			g.b.WriteString("\uFEFF")
		}
		// imports
		for j := 0; j < i; j++ {
			if len(files[j].Exports) == 0 {
				// a file without exports (e.g. one that records mappings but no names) is still linked in, between the others
				if rng.Intn(3) != 0 {
					fmt.Fprintf(&g.b, "import \"./%s\";%s", strings.TrimPrefix(files[j].Path, "/"), g.eol)
				}
				continue
			}
			if rng.Intn(3) == 0 {
				continue
			}
			var items []string
			for _, e := range files[j].Exports {
				if rng.Bool() {
					if rng.Bool() {
						l := g.id("im")
						items = append(items, e+" as "+l)
						g.decl = append(g.decl, l)
						aliases[l] = e
					} else {
						items = append(items, e)
						g.decl = append(g.decl, e)
					}
				}
			}
			if len(items) > 0 {
				fmt.Fprintf(&g.b, "import {%s} from \"./%s\";%s", strings.Join(items, ", "), strings.TrimPrefix(files[j].Path, "/"), g.eol)
			} else if rng.Bool() {
				ns := g.id("ns")
				fmt.Fprintf(&g.b, "import * as %s from \"./%s\";%s", ns, strings.TrimPrefix(files[j].Path, "/"), g.eol)
				g.decl = append(g.decl, ns)
			}
		}
		if rng.Intn(5) == 0 {
			// a file that records mappings but no names (only literals and free globals)
			for k, n := 0, 2+rng.Intn(3); k < n; k++ {
				fmt.Fprintf(&g.b, "console.log(%s, %s);%s", g.str(), g.num(), g.eol)
			}
		} else {
			for k, n := 0, 3+rng.Intn(8); k < n; k++ {
				g.stmt(true)
				g.b.WriteString(g.sep())
			}
		}
		// dynamic imports of earlier files, each on its own line with more marker tokens after the path
		if dynamic && i > 0 {
			for k, n := 0, 1+rng.Intn(3); k < n; k++ {
				j := rng.Intn(i)
				cb := g.id("cb")
				fmt.Fprintf(&g.b, "import(\"./%s\").then((%s) => %s(%s, %s));%s", strings.TrimPrefix(files[j].Path, "/"), cb, g.ref(), cb, g.str(), g.eol)
			}
		}
		code := g.b.String()
		var exports []string
		for _, line := range strings.FieldsFunc(code, func(r rune) bool { return r == '\n' || r == '\r' || r == ';' || r == '\t' }) {
			line = strings.TrimSpace(line)
			for _, kw := range []string{"export var ", "export let ", "export const ", "export function* ", "export function ", "export async function ", "export class "} {
				if strings.HasPrefix(line, kw) {
					rest := line[len(kw):]
					end := strings.IndexAny(rest, " (={")
					if end > 0 {
						exports = append(exports, rest[:end])
					}
					break
				}
			}
		}
		files = append(files, markFile{Path: fmt.Sprintf("/f%d_%d.js", i, 100+counter), Code: code, Exports: exports, Aliases: aliases})
		counter++
	}
	return files
}
