package main

import (
	"fmt"
	"strings"

	"github.com/evanw/esbuild/pkg/api"
)

// transformSafe calls api.Transform and converts an escaped panic into a result with a marker error.
func transformSafe(src string, opts api.TransformOptions) (res api.TransformResult, panicked string) {
	defer func() {
		if r := recover(); r != nil {
			panicked = fmt.Sprint(r)
		}
	}()
	opts.LogLevel = api.LogLevelSilent
	res = api.Transform(src, opts)
	return
}

func buildSafe(opts api.BuildOptions) (res api.BuildResult, panicked string) {
	defer func() {
		if r := recover(); r != nil {
			panicked = fmt.Sprint(r)
		}
	}()
	opts.LogLevel = api.LogLevelSilent
	res = api.Build(opts)
	return
}

func msgTexts(msgs []api.Message) []string {
	out := make([]string, 0, len(msgs))
	for _, m := range msgs {
		out = append(out, m.Text)
	}
	return out
}

func firstErr(msgs []api.Message) string {
	if len(msgs) == 0 {
		return ""
	}
	return msgs[0].Text
}

func hasInternalError(msgs []api.Message) string {
	for _, m := range msgs {
		if strings.HasPrefix(m.Text, "panic:") || strings.Contains(m.Text, "Internal error") || strings.Contains(m.Text, "(while ") {
			return m.Text
		}
	}
	return ""
}

func trunc(s string, n int) string {
	if len(s) > n {
		return s[:n] + "…"
	}
	return s
}

func formatName(f api.Format) string {
	switch f {
	case api.FormatESModule:
		return "esm"
	case api.FormatCommonJS:
		return "cjs"
	case api.FormatIIFE:
		return "iife"
	}
	return "preserve"
}
