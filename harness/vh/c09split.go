package main

import (
	"fmt"
	"os"
	"path/filepath"
	"sort"
	"strings"

	"github.com/evanw/esbuild/pkg/api"
)

// c09Split: code splitting in a long-lived context. Two entry points share library modules that export the same names;
// the edit history adds, removes and reorders the imports so that modules are discovered by the context in another order
// than a fresh build discovers them (a module first seen in a later rebuild is imported *before* older ones). After every
// edit the context's Rebuild must return byte for byte what a fresh build of the tree returns (chunk contents, chunk
// names, cross-chunk import/export aliases).
func c09Split(r *Run) {
	libs := []string{"a", "b", "c", "d"}
	nh := r.pick(24, 400)
	builds := 0
	for h := 0; h < nh; h++ {
		rng := newRng(r.Seed, fmt.Sprint("c09split", h))
		root, _ := os.MkdirTemp("/tmp", "verif-c09s-")
		write := func(rel, body string) {
			os.MkdirAll(filepath.Dir(filepath.Join(root, rel)), 0o755)
			os.WriteFile(filepath.Join(root, rel), []byte(body), 0o644)
		}
		for i, l := range libs {
			kind := []string{"export const value = %q;\nexport let count = %d;\n", "export function value() { return %q; }\nexport var count = %d;\n", "export class value { static n = %q; }\nexport const count = %d;\n"}[(i+h)%3]
			write("src/lib/"+l+".js", fmt.Sprintf(kind, l, i))
		}
		minify := h%2 == 1
		opts := func() api.BuildOptions {
			return api.BuildOptions{EntryPoints: []string{filepath.Join(root, "src/e1.js"), filepath.Join(root, "src/e2.js")}, Bundle: true, Splitting: true, Format: api.FormatESModule, Write: false,
				Outdir: filepath.Join(root, "out"), AbsWorkingDir: root, LogLevel: api.LogLevelSilent, MinifyIdentifiers: minify, MinifySyntax: minify, ChunkNames: []string{"", "[name]-[hash]", "chunks/[hash]"}[h%3]}
		}
		entry := func(name string, order []string) string {
			var b strings.Builder
			for _, l := range order {
				fmt.Fprintf(&b, "import {value as v_%s, count as c_%s} from './lib/%s.js';\n", l, l, l)
			}
			fmt.Fprintf(&b, "console.log(%q", name)
			for _, l := range order {
				fmt.Fprintf(&b, ", v_%s, c_%s", l, l)
			}
			b.WriteString(");\n")
			return b.String()
		}
		// initial tree: one library only
		cur := []string{libs[rng.Intn(len(libs))]}
		write("src/e1.js", entry("e1", cur))
		write("src/e2.js", entry("e2", cur))
		ctx, cerr := api.Context(opts())
		if cerr != nil {
			os.RemoveAll(root)
			continue
		}
		steps := 5 + rng.Intn(5)
		for s := 0; s <= steps; s++ {
			if s > 0 {
				// edit: insert a library not yet imported at a seeded position (often the front), drop one, or rotate
				switch k := rng.Intn(5); {
				case k <= 2 && len(cur) < len(libs):
					var rest []string
					for _, l := range libs {
						if !strings.Contains(" "+strings.Join(cur, " ")+" ", " "+l+" ") {
							rest = append(rest, l)
						}
					}
					l := rest[rng.Intn(len(rest))]
					pos := 0
					if rng.Intn(3) == 0 {
						pos = rng.Intn(len(cur) + 1)
					}
					cur = append(cur[:pos], append([]string{l}, cur[pos:]...)...)
				case k == 3 && len(cur) > 1:
					i := rng.Intn(len(cur))
					cur = append(append([]string{}, cur[:i]...), cur[i+1:]...)
				default:
					cur = append(cur[1:], cur[0])
				}
				write("src/e1.js", entry("e1", cur))
				e2 := cur
				if rng.Intn(3) == 0 && len(cur) > 1 {
					e2 = append([]string{cur[len(cur)-1]}, cur[:len(cur)-1]...)
				}
				write("src/e2.js", entry("e2", e2))
			}
			inc := ctx.Rebuild()
			fresh, pan := buildSafe(opts())
			builds++
			r.Eval(1)
			if pan != "" {
				continue
			}
			a, b := c09OutMap(inc.OutputFiles, root), c09OutMap(fresh.OutputFiles, root)
			if len(inc.Errors) != len(fresh.Errors) || a != b {
				r.Violation("incremental:splitting-rebuild-differs", fmt.Sprintf("history %d step %d (imports %v, minify=%v): the context's rebuild differs from a fresh build of the same tree", h, s, cur, minify),
					map[string]interface{}{"history": h, "step": s, "imports": cur, "rebuild": a, "fresh": b})
				break
			}
			r.Nontrivial(fmt.Sprint("split", h, s))
		}
		ctx.Dispose()
		os.RemoveAll(root)
	}
	r.Count("splitting_history_builds_compared", builds)
}

func c09OutMap(files []api.OutputFile, root string) string {
	var parts []string
	for _, f := range files {
		rel, _ := filepath.Rel(root, f.Path)
		parts = append(parts, "== "+rel+"\n"+string(f.Contents))
	}
	sort.Strings(parts)
	return strings.Join(parts, "\n")
}
