package main

import (
	"crypto/sha256"
	"encoding/hex"
	"fmt"
	"os"
	"os/exec"
	"path/filepath"
	"runtime"
	"sort"
	"strings"
	"sync"
	"sync/atomic"
	"time"

	"github.com/evanw/esbuild/pkg/api"
)

func init() {
	registry["C08"] = checkC08
	registry["C08RACE"] = c08RaceChild
}

// wideProject: many files, several entry points, shared chunks, colliding top-level names, mangled
// properties, CSS (global and local), assets, dynamic imports and several warnings per file.
func wideProject(rng *Rng, nfiles, nentries int) (files map[string]string, entries []string) {
	files = map[string]string{}
	for i := 0; i < nfiles; i++ {
		var b strings.Builder
		ndeps := rng.Intn(4)
		for d := 0; d < ndeps && i+1 < nfiles; d++ {
			j := i + 1 + rng.Intn(nfiles-i-1)
			switch rng.Intn(4) {
			case 0:
				b.WriteString(fmt.Sprintf("import {x as x%d_%d, helper as h%d_%d} from './f%d.js';\nuse(x%d_%d, h%d_%d);\n", j, d, j, d, j, j, d, j, d))
			case 1:
				b.WriteString(fmt.Sprintf("import * as ns%d_%d from './f%d.js';\nuse(ns%d_%d.x, ns%d_%d.secret_);\n", j, d, j, j, d, j, d))
			case 2:
				b.WriteString(fmt.Sprintf("export const lazy%d_%d = () => import('./f%d.js');\n", j, d, j))
			default:
				b.WriteString(fmt.Sprintf("export {x as re%d_%d} from './f%d.js';\n", j, d, j))
			}
		}
		if rng.Intn(5) == 0 {
			b.WriteString(fmt.Sprintf("import './s%d.css';\n", i%7))
		}
		if rng.Intn(7) == 0 {
			b.WriteString(fmt.Sprintf("import styles%d from './m%d.module.css';\nuse(styles%d.btn, styles%d.title);\n", i, i%5, i, i))
		}
		if rng.Intn(9) == 0 {
			b.WriteString(fmt.Sprintf("import asset%d from './a%d.bin';\nuse(asset%d);\n", i, i%6, i))
		}
		// colliding names in every file
		b.WriteString(fmt.Sprintf("function use() {}\nfunction util(a) { return a + %d; }\nconst helperImpl = {secret_: %d, shared_: util(%d), [\"quoted_\"]: 1, plain: 2, only%d_: 1, twice%d_: 2};\nuse(helperImpl.twice%d_);\nexport function helper() { return helperImpl.secret_ + helperImpl.shared_; }\nexport let x = helper() + %d;\nexport const name%d = 'f%d';\nlet counter = 0;\nexport function bump() { return ++counter; }\nclass Box { value_ = %d; get() { return this.value_; } }\nexport const box = new Box();\n", i, i, i, i, i, i, i, i, i, i))
		// a few diagnostics per file (their order in the log must be stable)
		switch rng.Intn(5) {
		case 0:
			b.WriteString("if (x === NaN) use();\n")
		case 1:
			b.WriteString("if (typeof x === 'nul') use();\n")
		case 2:
			b.WriteString("use({dup: 1, dup: 2});\n")
		case 3:
			b.WriteString("if (x == -0) use();\nuse(x === NaN);\n")
		}
		files[fmt.Sprintf("/src/f%d.js", i)] = b.String()
	}
	for i := 0; i < 7; i++ {
		files[fmt.Sprintf("/src/s%d.css", i)] = fmt.Sprintf("@import './base.css';\n.g%d { color: rgb(%d, 0, 0); background: url('./a%d.bin'); }\n.dup { top: %dpx; }\n", i, i*30, i%6, i)
	}
	files["/src/base.css"] = "html { margin: 0 }\n.dup { top: 0 }\n"
	for i := 0; i < 5; i++ {
		files[fmt.Sprintf("/src/m%d.module.css", i)] = fmt.Sprintf(".btn { color: red; composes: base from './mbase.module.css'; }\n.title { font-size: %dpx; }\n.btn:hover .title { top: 1px; }\n@keyframes spin%d { from { top: 0 } to { top: 1px } }\n.title { animation: spin%d 1s; }\n", 10+i, i, i)
	}
	files["/src/mbase.module.css"] = ".base { margin: 0; }\n"
	for i := 0; i < 6; i++ {
		files[fmt.Sprintf("/src/a%d.bin", i)] = fmt.Sprintf("asset-%d-%s", i, strings.Repeat("z", i*3))
	}
	for e := 0; e < nentries; e++ {
		var b strings.Builder
		n := 2 + rng.Intn(6)
		for k := 0; k < n; k++ {
			j := rng.Intn(nfiles)
			b.WriteString(fmt.Sprintf("import {x as x%d, name%d as n%d} from './f%d.js';\nconsole.log(x%d, n%d);\n", k, j, k, j, k, k))
		}
		if e+1 < nentries {
			b.WriteString(fmt.Sprintf("export const next = () => import('./e%d.js');\n", e+1))
		}
		b.WriteString(fmt.Sprintf("export const entry%d = true;\nconst o = {secret_: 1}; console.log(o.secret_);\n", e))
		files[fmt.Sprintf("/src/e%d.js", e)] = b.String()
		entries = append(entries, fmt.Sprintf("/src/e%d.js", e))
	}
	return
}

// canonicalResult: every byte of a build result that a user can observe, with paths relative to the project root
func canonicalResult(root string, res api.BuildResult) string {
	var b strings.Builder
	rel := func(p string) string {
		if r, err := filepath.Rel(root, p); err == nil {
			return filepath.ToSlash(r)
		}
		return p
	}
	for _, f := range res.OutputFiles {
		sum := sha256.Sum256(f.Contents)
		b.WriteString(fmt.Sprintf("out %s %d %s\n", rel(f.Path), len(f.Contents), hex.EncodeToString(sum[:8])))
	}
	msg := func(kind string, ms []api.Message) {
		for _, m := range ms {
			loc := ""
			if m.Location != nil {
				loc = fmt.Sprintf("%s:%d:%d:%d", m.Location.File, m.Location.Line, m.Location.Column, m.Location.Length)
			}
			b.WriteString(fmt.Sprintf("%s %s %s %s\n", kind, m.ID, loc, m.Text))
			for _, n := range m.Notes {
				b.WriteString("  note " + n.Text + "\n")
			}
		}
	}
	msg("error", res.Errors)
	msg("warning", res.Warnings)
	b.WriteString("metafile " + res.Metafile + "\n")
	var ks []string
	for k := range res.MangleCache {
		ks = append(ks, k)
	}
	sort.Strings(ks)
	for _, k := range ks {
		b.WriteString(fmt.Sprintf("mangle %s=%v\n", k, res.MangleCache[k]))
	}
	return b.String()
}

type c08Config struct {
	name string
	f    func(*api.BuildOptions)
}

func c08Configs() []c08Config {
	return []c08Config{
		{"bundle+splitting+minify+sourcemap+metafile+mangle", func(o *api.BuildOptions) {
			o.Splitting, o.Format = true, api.FormatESModule
			o.MinifyIdentifiers, o.MinifySyntax, o.MinifyWhitespace = true, true, true
			o.Sourcemap, o.Metafile, o.MangleProps = api.SourceMapLinked, true, "_$"
			o.EntryNames, o.ChunkNames, o.AssetNames = "[name]-[hash]", "chunks/[name]-[hash]", "assets/[name]-[hash]"
		}},
		{"bundle+splitting+metafile", func(o *api.BuildOptions) {
			o.Splitting, o.Format, o.Metafile = true, api.FormatESModule, true
			o.ChunkNames = "c/[hash]"
		}},
		{"bundle+minify-ids+mangle+quoted", func(o *api.BuildOptions) {
			o.Format = api.FormatCommonJS
			o.MinifyIdentifiers, o.MangleProps, o.MangleQuoted = true, "_$", api.MangleQuotedTrue
			o.Metafile = true
		}},
		{"bundle+iife+sourcemap-inline", func(o *api.BuildOptions) {
			o.Format, o.Sourcemap = api.FormatIIFE, api.SourceMapInline
		}},
	}
}

// c08Build runs one build of the project at root under one schedule.
func c08Build(root string, entries []string, cfg c08Config, sched int, yieldSeed uint64, order *[]string) api.BuildResult {
	var mu sync.Mutex
	delayRng := newRng(yieldSeed, fmt.Sprint("delay", sched))
	delays := map[string]time.Duration{}
	plugin := api.Plugin{Name: "schedule", Setup: func(b api.PluginBuild) {
		b.OnLoad(api.OnLoadOptions{Filter: `\.js$`}, func(a api.OnLoadArgs) (api.OnLoadResult, error) {
			mu.Lock()
			d, ok := delays[a.Path]
			if !ok {
				d = time.Duration(delayRng.Intn(4)) * time.Duration(delayRng.Intn(800)) * time.Microsecond
				delays[a.Path] = d
			}
			if order != nil {
				*order = append(*order, filepath.Base(a.Path))
			}
			mu.Unlock()
			if d > 0 {
				time.Sleep(d)
			}
			return api.OnLoadResult{}, nil // fall through to the default loader
		})
	}}
	opts := api.BuildOptions{Bundle: true, Write: false, AbsWorkingDir: root, Outdir: filepath.Join(root, "out"), LogLevel: api.LogLevelSilent,
		Loader: map[string]api.Loader{".bin": api.LoaderFile, ".module.css": api.LoaderLocalCSS}, LogLimit: 0}
	for _, e := range entries {
		opts.EntryPoints = append(opts.EntryPoints, filepath.Join(root, e))
	}
	cfg.f(&opts)
	if sched%3 != 0 {
		opts.Plugins = []api.Plugin{plugin}
	}
	return api.Build(opts)
}

func c08Workload(r *Run, nproj, runs int, race bool) (builds int64, orders map[string]bool) {
	scratch, _ := os.MkdirTemp("/tmp", "verif-c08-")
	defer os.RemoveAll(scratch)
	orders = map[string]bool{}
	var omu sync.Mutex
	procs := []int{1, 2, 4, 16}
	defer runtime.GOMAXPROCS(runtime.GOMAXPROCS(0))
	for p := 0; p < nproj; p++ {
		rng := newRng(r.Seed, fmt.Sprint("c08p", p))
		files, entries := wideProject(rng, 30+rng.Intn(r.pick(60, 250)), 3+rng.Intn(6))
		rootA := filepath.Join(scratch, fmt.Sprint("p", p), "a")
		rootB := filepath.Join(scratch, fmt.Sprint("p", p), "a-much-longer-directory-name", "nested", "b")
		writeTree(rootA, files)
		writeTree(rootB, files)
		cfgs := c08Configs()
		cfg := cfgs[p%len(cfgs)]
		var first string
		var firstDesc string
		for k := 0; k < runs; k++ {
			root := rootA
			if k%4 == 3 {
				root = rootB
			}
			runtime.GOMAXPROCS(procs[k%len(procs)])
			if k%2 == 1 {
				api.VerifSetYield(r.Seed*1000+uint64(p*100+k), 150+50*(k%5))
			} else {
				api.VerifSetYield(0, 0)
			}
			var order []string
			// sibling builds of another project in the same process
			var wg sync.WaitGroup
			if k%5 == 4 {
				for s := 0; s < 3; s++ {
					wg.Add(1)
					go func(s int) {
						defer wg.Done()
						c08Build(rootB, entries[:1+s%len(entries)], cfgs[(p+s+1)%len(cfgs)], 0, uint64(s), nil)
					}(s)
				}
			}
			res := c08Build(root, entries, cfg, k, r.Seed+uint64(k), &order)
			wg.Wait()
			atomic.AddInt64(&builds, 1)
			r.Eval(1)
			omu.Lock()
			orders[fmt.Sprint(p, hash64(strings.Join(order, ",")))] = true
			omu.Unlock()
			dump := canonicalResult(root, res)
			desc := fmt.Sprintf("run %d: GOMAXPROCS=%d yields=%v load-delays=%v location=%s siblings=%v", k, procs[k%len(procs)], k%2 == 1, k%3 != 0, map[bool]string{true: "B", false: "A"}[root == rootB], k%5 == 4)
			if k == 0 {
				first, firstDesc = dump, desc
				r.Nontrivial(fmt.Sprint(p, cfg.name, hash64(dump)))
				if p == 0 {
					r.Sample(map[string]interface{}{"project_files": len(files), "entries": len(entries), "config": cfg.name, "result_head": headOf(strings.Split(dump, "\n"), 6)})
				}
				if len(res.OutputFiles) == 0 {
					r.Violation("determinism:build-failed", "wide project does not build: "+firstErr(res.Errors), map[string]interface{}{"config": cfg.name})
					break
				}
				continue
			}
			if dump != first && !race {
				la, lb := strings.Split(first, "\n"), strings.Split(dump, "\n")
				i := 0
				for i < len(la) && i < len(lb) && la[i] == lb[i] {
					i++
				}
				da, db := "", ""
				if i < len(la) {
					da = la[i]
				}
				if i < len(lb) {
					db = lb[i]
				}
				kind := strings.SplitN(da+" ", " ", 2)[0]
				r.Violation("determinism:"+kind+":"+cfg.name, fmt.Sprintf("two builds of the same project differ (%s): [%s] has %q, [%s] has %q", cfg.name, firstDesc, trunc(da, 200), desc, trunc(db, 200)),
					map[string]interface{}{"files": files, "entries": entries, "config": cfg.name, "first": firstDesc, "second": desc, "first_line": da, "second_line": db})
				break
			}
		}
	}
	api.VerifSetYield(0, 0)
	return
}

func checkC08(r *Run) {
	r.Rule("wide projects (30–280 files, 3–8 entry points, shared chunks, identical top-level names in every file, mangled properties, global and local CSS, file assets, dynamic imports, several diagnostics per file) × 4 option sets; each project is built 12 (quick) / 24 (thorough) times under GOMAXPROCS 1/2/4/16, seeded yields at the parse/link/chunk/print hooks, seeded per-file OnLoad delays, two absolute locations and concurrent sibling builds; " +
		"the canonical dump of every result (output names, lengths, digests, ordered diagnostics, metafile, mangle cache) must be byte-identical; a second pass runs under the race detector; non-trivial = distinct (project, option set) whose first build succeeded")
	r.Assume("absolute paths appear in results only under AbsPaths options, which are not used; dumps are compared with paths relative to the project root")
	nproj, runs := r.pick(24, 240), r.pick(12, 24)
	builds, orders := c08Workload(r, nproj, runs, false)
	r.Count("builds_compared", int(builds))
	r.Count("distinct_file_load_orders_observed", len(orders))
	// race detector pass in a child process built with -race
	self, _ := os.Executable()
	raceBin := filepath.Join(filepath.Dir(self), "vh-race")
	if _, err := os.Stat(raceBin); err == nil {
		logDir, _ := os.MkdirTemp("/tmp", "verif-c08race-")
		defer os.RemoveAll(logDir)
		cmd := exec.Command("timeout", "-s", "QUIT", "900", raceBin, "C08RACE", r.Tier)
		cmd.Env = append(os.Environ(), "GORACE=halt_on_error=0 log_path="+filepath.Join(logDir, "race"), fmt.Sprint("VERIF_SEED=", r.Seed))
		out, _ := cmd.CombinedOutput()
		reports := 0
		var firstReport string
		matches, _ := filepath.Glob(filepath.Join(logDir, "race*"))
		for _, m := range matches {
			b, _ := os.ReadFile(m)
			n := strings.Count(string(b), "WARNING: DATA RACE")
			reports += n
			if n > 0 && firstReport == "" {
				firstReport = trunc(string(b), 6000)
			}
		}
		reports += strings.Count(string(out), "WARNING: DATA RACE")
		r.Count("race_detector_reports", reports)
		if i := strings.Index(string(out), "racebuilds="); i >= 0 {
			var n int
			fmt.Sscanf(string(out)[i:], "racebuilds=%d", &n)
			r.Count("builds_under_race_detector", n)
			if n == 0 {
				r.Inconclusive("the race-detector pass ran no builds")
			}
		} else {
			r.Inconclusive("the race-detector pass did not complete: " + trunc(string(out), 300))
		}
		if reports > 0 {
			r.Violation("determinism:data-race:"+raceSig(firstReport), fmt.Sprintf("the race detector reported %d data race(s) during concurrent builds", reports), map[string]interface{}{"report": firstReport})
		}
	} else {
		r.Inconclusive("vh-race binary missing")
	}
	c08OrderCheck(r)
	if builds < int64(nproj*runs*8/10) || len(orders) < nproj {
		r.Inconclusive(fmt.Sprintf("only %d builds, %d distinct load orders", builds, len(orders)))
	}
}

// raceSig: outermost entry points of the two stacks of a race report, line numbers stripped
func raceSig(report string) string {
	var fns []string
	for _, l := range strings.Split(report, "\n") {
		t := strings.TrimSpace(l)
		if strings.HasPrefix(t, "github.com/evanw/esbuild/") && strings.Contains(t, "(") {
			fns = append(fns, t[:strings.Index(t, "(")])
		}
	}
	if len(fns) > 4 {
		fns = fns[:4]
	}
	return strings.Join(fns, "|")
}

func c08RaceChild(r *Run) {
	builds, _ := c08Workload(r, r.pick(6, 40), r.pick(5, 8), true)
	fmt.Printf("racebuilds=%d\n", builds)
	os.Exit(0)
}
