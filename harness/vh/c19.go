package main

import (
	"encoding/json"
	"fmt"
	"os"
	"path"
	"path/filepath"
	"regexp"
	"sort"
	"strings"
	"sync/atomic"

	"github.com/evanw/esbuild/pkg/api"
)

func init() { registry["C19"] = checkC19 }

type metaImport struct {
	Path     string `json:"path"`
	Kind     string `json:"kind"`
	External bool   `json:"external"`
	Original string `json:"original"`
}
type metafile struct {
	Inputs map[string]struct {
		Bytes   int          `json:"bytes"`
		Imports []metaImport `json:"imports"`
		Format  string       `json:"format"`
	} `json:"inputs"`
	Outputs map[string]struct {
		Bytes      int          `json:"bytes"`
		Imports    []metaImport `json:"imports"`
		Exports    []string     `json:"exports"`
		EntryPoint string       `json:"entryPoint"`
		CSSBundle  string       `json:"cssBundle"`
		Inputs     map[string]struct {
			BytesInOutput int `json:"bytesInOutput"`
		} `json:"inputs"`
	} `json:"outputs"`
}

var reImportSpec = regexp.MustCompile(`(?:import|export)\s[^"';]*?from\s*"([^"]+)"|import\s*"([^"]+)"|import\(\s*"([^"]+)"\s*\)|require\(\s*"([^"]+)"\s*\)|@import\s+(?:url\()?"([^"]+)"|url\("?(\./[^")]+)"?\)`)

// sourceImports: the specifiers a generated source file imports, with their kind (the generators only use double-quoted relative specifiers)
func sourceImports(code string) []metaImport {
	var out []metaImport
	for _, m := range reImportSpec.FindAllStringSubmatch(code, -1) {
		switch {
		case m[1] != "":
			out = append(out, metaImport{Original: m[1], Kind: "import-statement"})
		case m[2] != "":
			out = append(out, metaImport{Original: m[2], Kind: "import-statement"})
		case m[3] != "":
			out = append(out, metaImport{Original: m[3], Kind: "dynamic-import"})
		case m[4] != "":
			out = append(out, metaImport{Original: m[4], Kind: "require-call"})
		case m[5] != "":
			out = append(out, metaImport{Original: m[5], Kind: "import-rule"})
		case m[6] != "":
			out = append(out, metaImport{Original: m[6], Kind: "url-token"})
		}
	}
	return out
}

type c19Project struct {
	Files    map[string]string
	Entries  []string
	Desc     string
	External []string
}

// c19Check verifies one build's metafile against the build's own outputs and the sources.
func c19Check(r *Run, pool *Pool, p c19Project, src string, opts api.BuildOptions, res api.BuildResult, what string) (checked int) {
	viol := func(kind, msg string, extra map[string]interface{}) {
		m := map[string]interface{}{"files": p.Files, "entries": p.Entries, "options": what, "metafile": trunc(res.Metafile, 6000)}
		for k, v := range extra {
			m[k] = v
		}
		r.Violation("metafile:"+kind, msg+" ("+what+"; "+p.Desc+")", m)
	}
	var mf metafile
	metaText := res.Metafile
	if opts.AbsPaths&api.MetafileAbsPath != 0 {
		// with absolute metafile paths every path must be absolute; compare after making them relative to the project
		if strings.Contains(metaText, "\"out/") || strings.Contains(metaText, "\"entry.mjs\"") {
			viol("relative-path-with-abs-metafile", "AbsPaths=metafile but the metafile still contains a relative project path", nil)
		}
		metaText = strings.ReplaceAll(metaText, filepath.ToSlash(src)+"/", "")
	} else if strings.Contains(metaText, filepath.ToSlash(src)+"/") {
		viol("absolute-path-in-metafile", "the metafile contains an absolute project path although AbsPaths does not ask for it", nil)
	}
	if err := json.Unmarshal([]byte(metaText), &mf); err != nil {
		viol("unparseable", "metafile is not valid JSON: "+err.Error(), nil)
		return
	}
	rel := func(abs string) string {
		rp, _ := filepath.Rel(src, abs)
		return filepath.ToSlash(rp)
	}
	// 1. outputs: exactly the emitted files, exact byte lengths
	emitted := map[string][]byte{}
	for _, f := range res.OutputFiles {
		emitted[rel(f.Path)] = f.Contents
	}
	for k, o := range mf.Outputs {
		c, ok := emitted[k]
		if !ok {
			viol("output-not-emitted", "metafile lists output "+k+" which was not emitted", nil)
			continue
		}
		checked++
		if o.Bytes != len(c) {
			viol("output-bytes", fmt.Sprintf("metafile says %s has %d bytes, the emitted file has %d", k, o.Bytes, len(c)), nil)
		}
	}
	for k := range emitted {
		if _, ok := mf.Outputs[k]; !ok {
			viol("emitted-not-listed", "emitted file "+k+" is missing from the metafile", nil)
		}
	}
	// 2. inputs: exactly the files reachable from the entries, exact sizes, resolved imports
	reach := map[string]bool{}
	var queue []string
	for _, e := range p.Entries {
		reach[strings.TrimPrefix(e, "/")] = true
		queue = append(queue, strings.TrimPrefix(e, "/"))
	}
	isExternal := func(spec string) bool {
		for _, x := range p.External {
			if x == spec {
				return true
			}
		}
		return false
	}
	expectedImports := map[string][]metaImport{}
	for len(queue) > 0 {
		cur := queue[0]
		queue = queue[1:]
		for _, im := range sourceImports(p.Files["/"+cur]) {
			if isExternal(im.Original) {
				im.Path, im.External = im.Original, true
				expectedImports[cur] = append(expectedImports[cur], im)
				continue
			}
			target := path.Join(path.Dir(cur), im.Original)
			if _, ok := p.Files["/"+target]; !ok {
				continue
			}
			im.Path = target
			expectedImports[cur] = append(expectedImports[cur], im)
			if !reach[target] {
				reach[target] = true
				queue = append(queue, target)
			}
		}
	}
	for k, in := range mf.Inputs {
		if strings.HasPrefix(k, "<") {
			continue // <runtime>, <stdin>, <define:…>
		}
		checked++
		if !reach[k] && !strings.Contains(k, "node_modules/") {
			viol("input-not-reachable", "metafile lists input "+k+" which no entry point reaches", nil)
			continue
		}
		if in.Bytes != len(p.Files["/"+k]) {
			viol("input-bytes", fmt.Sprintf("metafile says input %s has %d bytes, the file has %d", k, in.Bytes, len(p.Files["/"+k])), nil)
		}
		for _, im := range in.Imports {
			if !im.External {
				if _, ok := mf.Inputs[im.Path]; !ok {
					viol("input-import-not-an-input", fmt.Sprintf("input %s is recorded as importing %s (%s), which is not listed under inputs", k, im.Path, im.Original), nil)
				}
			}
		}
		if strings.Contains(k, "node_modules/") {
			continue
		}
		want := map[string]bool{}
		for _, im := range expectedImports[k] {
			want[im.Kind+" "+im.Path+" "+fmt.Sprint(im.External)] = true
		}
		got := map[string]bool{}
		for _, im := range in.Imports {
			if strings.Contains(im.Path, "node_modules/") {
				continue // package imports are resolved by esbuild's resolver; checked through execution below
			}
			got[im.Kind+" "+im.Path+" "+fmt.Sprint(im.External)] = true
		}
		for w := range want {
			if !got[w] {
				viol("input-import-missing", fmt.Sprintf("input %s imports [%s] in its source but the metafile does not list it (lists %v)", k, w, keysOfBool(got)), nil)
			}
		}
		for g := range got {
			if !want[g] {
				viol("input-import-extra", fmt.Sprintf("metafile lists import [%s] for input %s which its source does not contain (source has %v)", g, k, keysOfBool(want)), nil)
			}
		}
	}
	for k := range reach {
		if _, ok := mf.Inputs[k]; !ok {
			viol("input-missing", "file "+k+" is read into the bundle but missing from the metafile inputs", nil)
		}
	}
	// 3. per output: imports / exports / entry point / byte attribution
	entrySet := map[string]bool{}
	for _, e := range p.Entries {
		entrySet[strings.TrimPrefix(e, "/")] = true
	}
	for k, o := range mf.Outputs {
		code, ok := emitted[k]
		if !ok {
			continue
		}
		sum := 0
		for in, a := range o.Inputs {
			sum += a.BytesInOutput
			if _, ok := mf.Inputs[in]; !ok && !strings.HasPrefix(in, "<") {
				viol("attribution-unknown-input", "output "+k+" attributes bytes to "+in+" which is not an input", nil)
			}
		}
		if sum > len(code) {
			viol("attribution-exceeds-size", fmt.Sprintf("output %s: attributed bytes %d exceed the file size %d", k, sum, len(code)), nil)
		}
		if o.EntryPoint != "" && !reach[o.EntryPoint] {
			viol("entry-point-unknown", "output "+k+" names entry point "+o.EntryPoint+" which is not a bundled file", nil)
		}
		if strings.HasSuffix(k, ".map") || strings.HasSuffix(k, ".txt") {
			continue
		}
		if strings.HasSuffix(k, ".css") {
			continue
		}
		if !(strings.HasSuffix(k, ".js") || strings.HasSuffix(k, ".mjs") || strings.HasSuffix(k, ".cjs")) {
			continue
		}
		goal := "module"
		if opts.Format == api.FormatCommonJS {
			goal = "cjs"
		} else if opts.Format == api.FormatIIFE {
			goal = "script"
		}
		var fr struct {
			OK    bool `json:"ok"`
			Facts struct {
				StaticImports []struct {
					Path string `json:"path"`
				} `json:"staticImports"`
				DynamicImports []string `json:"dynamicImports"`
				Requires       []string `json:"requires"`
				Exports        []string `json:"exports"`
			} `json:"facts"`
		}
		if err := pool.Call(map[string]interface{}{"op": "chunkFacts", "code": string(code), "goal": goal}, &fr); err != nil || !fr.OK {
			continue
		}
		resolve := func(spec string) string {
			if opts.PublicPath != "" && strings.HasPrefix(spec, opts.PublicPath) {
				return path.Join("out", strings.TrimPrefix(spec, opts.PublicPath))
			}
			if strings.HasPrefix(spec, ".") {
				return path.Join(path.Dir(k), spec)
			}
			return spec
		}
		inCode := map[string]bool{}
		for _, s := range fr.Facts.StaticImports {
			inCode["import-statement "+resolve(s.Path)] = true
		}
		for _, s := range fr.Facts.DynamicImports {
			inCode["dynamic-import "+resolve(s)] = true
		}
		for _, s := range fr.Facts.Requires {
			inCode["require-call "+resolve(s)] = true
		}
		inMeta := map[string]bool{}
		for _, im := range o.Imports {
			if !im.External {
				if _, ok := emitted[im.Path]; !ok {
					viol("output-import-not-emitted", fmt.Sprintf("output %s: the metafile lists an import of %s (%s) which the build did not emit", k, im.Path, im.Kind), nil)
				}
			}
			if im.Kind == "file-loader" || im.Kind == "url-token" {
				continue // a reference by URL/string, not an import statement
			}
			inMeta[im.Kind+" "+im.Path] = true
			if im.External != isExternal(im.Path) {
				viol("output-import-external-flag", fmt.Sprintf("output %s: import %s has external=%v", k, im.Path, im.External), nil)
			}
		}
		for c := range inCode {
			if !inMeta[c] {
				viol("output-import-missing", fmt.Sprintf("output %s contains [%s] but the metafile does not list it (lists %v)", k, c, keysOfBool(inMeta)), map[string]interface{}{"code": trunc(string(code), 3000)})
			}
		}
		for m := range inMeta {
			if !inCode[m] {
				viol("output-import-extra", fmt.Sprintf("metafile lists [%s] for output %s but the emitted code has no such import (code has %v)", m, k, keysOfBool(inCode)), map[string]interface{}{"code": trunc(string(code), 3000)})
			}
		}
		if opts.Format == api.FormatESModule {
			a, b := append([]string{}, o.Exports...), []string{}
			for _, e := range fr.Facts.Exports {
				if !strings.HasPrefix(e, "*:") {
					b = append(b, e)
				}
			}
			sort.Strings(a)
			sort.Strings(b)
			if strings.Join(a, ",") != strings.Join(b, ",") {
				viol("output-exports", fmt.Sprintf("output %s: metafile exports %v, emitted code exports %v", k, a, b), map[string]interface{}{"code": trunc(string(code), 3000)})
			}
		}
		// byte attribution measured from the `// path` markers of unminified output
		if !opts.MinifyWhitespace && !opts.MinifySyntax {
			codeText := string(code)
			if opts.AbsPaths&api.CodeAbsPath != 0 {
				codeText = strings.ReplaceAll(codeText, "// "+filepath.ToSlash(src)+"/", "// ")
			}
			spans := measureSpans(codeText, mf.Inputs)
			for in, a := range o.Inputs {
				if strings.HasPrefix(in, "<") {
					continue
				}
				sp, has := spans[in]
				if a.BytesInOutput > 0 && !has {
					viol("attribution-without-code", fmt.Sprintf("output %s attributes %d bytes to %s but the file has no code section for it", k, a.BytesInOutput, in), map[string]interface{}{"code": trunc(string(code), 3000)})
				}
				if has && sp.exact && a.BytesInOutput != sp.n {
					viol("attribution-span-mismatch", fmt.Sprintf("output %s: %s contributes %d bytes by measurement, metafile says %d", k, in, sp.n, a.BytesInOutput), map[string]interface{}{"code": trunc(string(code), 3000)})
				}
				if has && !sp.exact && a.BytesInOutput > sp.n {
					viol("attribution-span-mismatch", fmt.Sprintf("output %s: %s contributes at most %d bytes by measurement, metafile says %d", k, in, sp.n, a.BytesInOutput), nil)
				}
			}
			for in := range spans {
				if _, ok := o.Inputs[in]; !ok {
					viol("code-without-attribution", fmt.Sprintf("output %s contains a code section for %s which the metafile does not attribute", k, in), nil)
				}
			}
		}
		// entry point of entry outputs
		if o.EntryPoint != "" && entrySet[o.EntryPoint] {
			base := strings.TrimSuffix(path.Base(o.EntryPoint), path.Ext(o.EntryPoint))
			if !strings.Contains(path.Base(k), base) && !strings.Contains(opts.EntryNames, "[hash]") && opts.EntryNames == "" {
				viol("entry-point-mismatch", fmt.Sprintf("output %s claims entry point %s", k, o.EntryPoint), nil)
			}
		}
	}
	return
}

type spanInfo struct {
	n     int
	exact bool
}

// measureSpans: code sections delimited by esbuild's `// path` comment lines in unminified bundles.
func measureSpans(code string, inputs map[string]struct {
	Bytes   int          `json:"bytes"`
	Imports []metaImport `json:"imports"`
	Format  string       `json:"format"`
}) map[string]spanInfo {
	out := map[string]spanInfo{}
	lines := strings.SplitAfter(code, "\n")
	type mark struct {
		line     int
		in       string
		indented bool
	}
	var marks []mark
	for i, l := range lines {
		t := strings.TrimSuffix(l, "\n")
		indented := t != strings.TrimLeft(t, " \t")
		t = strings.TrimLeft(t, " \t")
		if strings.HasPrefix(t, "// ") {
			if _, ok := inputs[t[3:]]; ok {
				marks = append(marks, mark{i, t[3:], indented})
			}
		}
	}
	for mi, m := range marks {
		end := len(lines)
		exact := false
		if mi+1 < len(marks) {
			end = marks[mi+1].line
			// the blank line before the next marker is not part of the span
			if end-1 > m.line && strings.TrimSpace(lines[end-1]) == "" {
				end--
			}
			exact = !m.indented && !marks[mi+1].indented
		}
		n := 0
		for _, l := range lines[m.line+1 : end] {
			n += len(l)
		}
		if prev, ok := out[m.in]; ok {
			out[m.in] = spanInfo{prev.n + n, prev.exact && exact}
		} else {
			out[m.in] = spanInfo{n, exact}
		}
	}
	return out
}

func keysOfBool(m map[string]bool) []string {
	var ks []string
	for k := range m {
		ks = append(ks, k)
	}
	sort.Strings(ks)
	return ks
}

func checkC19(r *Run) {
	r.Rule("builds of the C02 graphs (single entry, esm/cjs/iife) and the C10 split projects (several entries, shared chunks, dynamic imports), plus projects with CSS, file/copy/dataurl assets, externals and an unused side-effect-free module; × minify × name templates × source maps × legal comments; " +
		"the metafile is compared with the emitted files (set, byte lengths), with imports/exports parsed from the emitted code by acorn, with the source files (sizes, import specifiers resolved by an own resolver) and with code sections measured between `// path` markers; " +
		"non-trivial = distinct build whose metafile passed through all comparisons")
	r.Assume("generated sources use only double-quoted relative specifiers, so a regular expression can list their imports independently of esbuild")
	pool := r.Pool()
	scratch, _ := os.MkdirTemp("/tmp", "verif-c19-")
	defer os.RemoveAll(scratch)
	n := r.pick(400, 6000)
	var builds, facts int64
	parallel(n, 16, func(i int) {
		rng := newRng(r.Seed, fmt.Sprint("c19", i))
		dir := filepath.Join(scratch, fmt.Sprint("p", i))
		src := filepath.Join(dir, "src")
		defer os.RemoveAll(dir)
		var p c19Project
		opts := api.BuildOptions{Bundle: true, Write: false, Metafile: true, AbsWorkingDir: src, Outdir: filepath.Join(src, "out"), Platform: api.PlatformNode}
		switch i % 4 {
		case 3:
			// entry points that end up wrapped inside their own bundle: required by a module they import (a require cycle back
			// to the entry), importing themselves dynamically without splitting, or written in CommonJS
			var files map[string]string
			switch rng.Intn(4) {
			case 0:
				files = map[string]string{"/entry.mjs": "import \"./dep.cjs\";\nexport function run() { return 1; }\nexport const version = " + fmt.Sprint(i) + ";\nexport default \"d\";\n",
					"/dep.cjs": "const e = require(\"./entry.mjs\");\nexports.viaCycle = () => e.version;\n"}
			case 1:
				files = map[string]string{"/entry.mjs": "export const version = " + fmt.Sprint(i) + ";\nexport const self = () => import(\"./entry.mjs\");\nexport function run() {}\n"}
			case 2:
				files = map[string]string{"/entry.mjs": "import {helper} from \"./lib.mjs\";\nexport const out = helper;\nexport {helper as renamed};\n",
					"/lib.mjs": "export const helper = () => import(\"./entry.mjs\").then(m => m.out);\n"}
			default:
				files = map[string]string{"/entry.mjs": "import {x} from \"./c.cjs\";\nexport const fromCjs = x;\n", "/c.cjs": "exports.x = 1;\nexports.back = () => require(\"./entry.mjs\");\n"}
			}
			p = c19Project{Files: files, Entries: []string{"/entry.mjs"}, Desc: "wrapped entry point"}
			opts.Format = []api.Format{api.FormatESModule, api.FormatESModule, api.FormatCommonJS}[rng.Intn(3)]
		case 0:
			g := graphGen(rng, ggenOpts{MaxMods: 3 + rng.Intn(5), Cycles: rng.Bool(), Dynamic: rng.Bool()})
			p = c19Project{Files: g.Files, Entries: []string{g.Entry}, Desc: strings.Join(g.Desc, ";")}
			opts.Format = []api.Format{api.FormatESModule, api.FormatCommonJS, api.FormatIIFE}[rng.Intn(3)]
			if g.EntryKind == "esm" && strings.Contains(g.Files[g.Entry], "await import") {
				opts.Format = api.FormatESModule
			}
		case 1:
			k, s := 2+rng.Intn(2), 1+rng.Intn(4)
			sp := splitGen(rng, k, s, uint32(rng.U64()))
			p = c19Project{Files: sp.Files, Entries: sp.Entries, Desc: sp.Desc}
			opts.Format = api.FormatESModule
			opts.Splitting = true
			if rng.Bool() {
				opts.ChunkNames = "chunks/[name]-[hash]"
			}
			if rng.Intn(3) == 0 {
				opts.EntryNames = "[dir]/[name]-[hash]"
			}
		default:
			files := map[string]string{
				"/entry.mjs":                      "import dualDefault from \"dual\";\nimport {viaRequire} from \"./req.cjs\";\nimport {a} from \"./lib.mjs\";\nimport \"./style.css\";\nimport img from \"./pic.png\";\nimport txt from \"./note.txt\";\nimport ext from \"ext-pkg\";\nimport {unusedThing} from \"./pure/index.mjs\";\nexport const out = [a, img, txt, ext, dualDefault, viaRequire];\n/*! legal: entry */\nconst lazy = () => import(\"./lazy.mjs\");\nexport {lazy};\n",
				"/lib.mjs":                        "export const a = 1;\nexport const b = 2;\n//! legal: lib\n",
				"/lazy.mjs":                       "import \"./lazy.css\";\nexport default \"lazy\";\n",
				"/style.css":                      "@import \"./base.css\";\nbody { background: url(\"./pic.png\"); color: red; }\n/*! legal: css */\n",
				"/base.css":                       "html { margin: 0; }\n",
				"/lazy.css":                       ".lazy { color: blue; }\n",
				"/pic.png":                        "\x89PNG\r\n\x1a\n" + strings.Repeat("x", rng.Intn(200)),
				"/note.txt":                       "note " + fmt.Sprint(i),
				"/pure/index.mjs":                 "export const unusedThing = 1;\nexport const other = 2;\n",
				"/pure/package.json":              `{"sideEffects": false}`,
				"/req.cjs":                        "exports.viaRequire = require(\"dual\");\n",
				"/node_modules/dual/package.json": `{"name": "dual", "main": "./index.cjs.js", "module": "./index.esm.js"}`,
				"/node_modules/dual/index.cjs.js": "module.exports = \"cjs build\";\n",
				"/node_modules/dual/index.esm.js": "export default \"esm build\";\n",
			}
			p = c19Project{Files: files, Entries: []string{"/entry.mjs"}, Desc: "assets+css+externals", External: []string{"ext-pkg"}}
			opts.Format = api.FormatESModule
			opts.Platform = api.PlatformDefault // browser main fields (module before main), so the dual-package redirection is exercised
			opts.External = []string{"ext-pkg"}
			opts.Loader = map[string]api.Loader{".png": []api.Loader{api.LoaderFile, api.LoaderDataURL, api.LoaderCopy}[rng.Intn(3)], ".txt": api.LoaderText}
			opts.Splitting = rng.Bool()
			opts.LegalComments = []api.LegalComments{api.LegalCommentsDefault, api.LegalCommentsLinked, api.LegalCommentsExternal, api.LegalCommentsEndOfFile, api.LegalCommentsNone}[rng.Intn(5)]
			if rng.Bool() {
				opts.AssetNames = "assets/[name]-[hash]"
			}
		}
		if err := writeTree(src, p.Files); err != nil {
			return
		}
		for _, e := range p.Entries {
			opts.EntryPoints = append(opts.EntryPoints, filepath.Join(src, e))
		}
		minify := rng.Intn(3) == 0
		opts.MinifyWhitespace, opts.MinifySyntax, opts.MinifyIdentifiers = minify, minify, minify
		opts.Sourcemap = []api.SourceMap{api.SourceMapNone, api.SourceMapNone, api.SourceMapLinked, api.SourceMapExternal, api.SourceMapInline}[rng.Intn(5)]
		if rng.Intn(4) == 0 {
			opts.PublicPath = "https://cdn.example/p/"
		}
		opts.AbsPaths = []api.AbsPaths{0, 0, api.CodeAbsPath, api.MetafileAbsPath, api.CodeAbsPath | api.MetafileAbsPath, api.LogAbsPath}[rng.Intn(6)]
		what := fmt.Sprintf("format=%s,splitting=%v,minify=%v,sourcemap=%d,chunk-names=%q,entry-names=%q,legal=%d,public-path=%q,abs-paths=%d", formatName(opts.Format), opts.Splitting, minify, opts.Sourcemap, opts.ChunkNames, opts.EntryNames, opts.LegalComments, opts.PublicPath, opts.AbsPaths)
		res, pan := buildSafe(opts)
		if pan != "" || len(res.Errors) > 0 {
			if len(res.Errors) > 0 && !strings.Contains(res.Errors[0].Text, "Top-level await") {
				r.Count("builds_with_errors", 1)
			}
			return
		}
		atomic.AddInt64(&builds, 1)
		r.Eval(1)
		c := c19Check(r, pool, p, src, opts, res, what)
		atomic.AddInt64(&facts, int64(c))
		r.Nontrivial(what + p.Desc + fmt.Sprint(i))
		if i < 3 {
			r.Sample(map[string]interface{}{"project": p.Desc, "options": what, "metafile_excerpt": trunc(res.Metafile, 500)})
		}
	})
	r.Count("builds_checked", int(builds))
	r.Count("metafile_entries_compared", int(facts))
	if builds < int64(n*7/10) {
		r.Inconclusive(fmt.Sprintf("only %d builds checked", builds))
	}
}
