package main

import (
	"encoding/json"
	"fmt"
	"sort"
	"strings"
	"sync"
)

// pkggen: package trees from the package.json resolution grammar, plus specifiers derived from the maps.

type pkgTree struct {
	Files    map[string]string `json:"files"`
	Symlinks map[string]string `json:"symlinks,omitempty"` // link path -> target (relative to the link's directory)
	Queries  []pkgQuery        `json:"queries"`
}

type pkgQuery struct {
	Importer string `json:"importer"`
	Spec     string `json:"spec"`
	Kind     string `json:"kind"` // require | import
}

var pkgConds = []string{"node", "import", "require", "default", "browser", "module", "custom", "production"}

// pkgHazards: also generate the corners where esbuild is known to deviate from Node (percent-encoded or
// upper-case dot/node_modules segments in targets, non-string targets); off for "clean" trees.
var pkgHazards = false

func pkgTarget(rng *Rng, depth int, files map[string]bool, star bool) interface{} {
	leaf := func() interface{} {
		c := rng.Intn(14)
		if !pkgHazards && (c == 2 || c == 3) {
			c = 4
		}
		switch c {
		case 0:
			return nil
		case 1:
			opts := []string{"../outside.js", "/abs.js", "no-dot.js", "./node_modules/x.js", "./a/../b.js", "./a/./b.js", "", "./", "pkg2/x.js"}
			if pkgHazards {
				opts = append(opts, "./NODE_MODULES/q.js", "./src/%2e%2e/index.js")
			}
			return opts[rng.Intn(len(opts))]
		case 2:
			return float64(rng.Intn(3))
		case 3:
			return true
		default:
			names := []string{"./lib/a.js", "./lib/b.js", "./lib/c.cjs", "./lib/d.mjs", "./index.js", "./main.js", "./feature/index.js", "./deep/x/y.js", "./data.json", "./missing.js"}
			t := names[rng.Intn(len(names))]
			if star {
				t = []string{"./lib/*.js", "./lib/*", "./feature/*/index.js", "./*", "./deep/*/y.js", "./lib/*.cjs", "./x*y.js", "./lib/*/*.js"}[rng.Intn(8)]
			}
			return t
		}
	}
	if depth <= 0 {
		return leaf()
	}
	switch rng.Intn(8) {
	case 0, 1: // condition object, random key order (insertion order matters to Node)
		n := 1 + rng.Intn(4)
		var keys []string
		seen := map[string]bool{}
		for len(keys) < n {
			k := pkgConds[rng.Intn(len(pkgConds))]
			if !seen[k] {
				seen[k] = true
				keys = append(keys, k)
			}
		}
		om := orderedMap{}
		for _, k := range keys {
			om = append(om, omEntry{k, pkgTarget(rng, depth-1, files, star)})
		}
		return om
	case 2: // fallback array
		n := 1 + rng.Intn(3)
		var arr []interface{}
		for i := 0; i < n; i++ {
			arr = append(arr, pkgTarget(rng, depth-1, files, star))
		}
		return arr
	}
	return leaf()
}

// orderedMap marshals as a JSON object with keys in insertion order.
type omEntry struct {
	K string
	V interface{}
}
type orderedMap []omEntry

func (o orderedMap) MarshalJSON() ([]byte, error) {
	var b strings.Builder
	b.WriteString("{")
	for i, e := range o {
		if i > 0 {
			b.WriteString(",")
		}
		k, _ := json.Marshal(e.K)
		v, err := json.Marshal(e.V)
		if err != nil {
			return nil, err
		}
		b.Write(k)
		b.WriteString(":")
		b.Write(v)
	}
	b.WriteString("}")
	return []byte(b.String()), nil
}

var pkgSubpathKeys = []string{".", "./x", "./x/y", "./lib/a.js", "./feature", "./feature/*", "./lib/*", "./lib/*.js", "./*", "./a*a", "./ab*", "./ab*b", "./lib/*/lib/x", "./deep/*/y", "./x*", "./data.json", "./package.json", "./dir/", "./lib/internal/*", "./foo*"}
var pkgImportKeys = []string{"#x", "#x/y", "#lib/*", "#a*a", "#ab*b", "#deep/*/z", "#*", "#internal/*", "#dep"}

func pkgGen(rng *Rng) pkgTree { return pkgGenMode(rng, false) }

func pkgGenMode(rng *Rng, hazards bool) pkgTree {
	pkgHazardsMu.Lock()
	defer pkgHazardsMu.Unlock()
	pkgHazards = hazards
	return pkgGenInner(rng)
}

var pkgHazardsMu sync.Mutex

func pkgGenInner(rng *Rng) pkgTree {
	files := map[string]string{}
	exist := map[string]bool{}
	addPkgFiles := func(root string) {
		for _, f := range []string{"lib/a.js", "lib/b.js", "lib/c.cjs", "lib/d.mjs", "index.js", "main.js", "feature/index.js", "feature/one/index.js", "deep/x/y.js", "deep/q/y.js", "data.json", "lib/one.js", "lib/one/two.js", "lib/internal/secret.js", "xAy.js", "lib/index.js", "file.js", "fileX.js", "src/index.js", "lib/a b.js", "a b.js", "lib.js", "feature.js", "main/index.js"} {
			c := "module.exports = " + fmt.Sprintf("%q", root+"/"+f) + ";\n"
			if strings.HasSuffix(f, ".json") {
				c = "{}"
			} else if strings.HasSuffix(f, ".mjs") {
				c = "export default " + fmt.Sprintf("%q", root+"/"+f) + ";\n"
			}
			files[root+"/"+f] = c
		}
	}
	mkPkgJSON := func(name string, withImports bool) string {
		om := orderedMap{{"name", name}}
		switch rng.Intn(5) {
		case 0:
			om = append(om, omEntry{"main", []string{"./main.js", "main", "./lib/index", "lib", "./missing.js", "./feature"}[rng.Intn(6)]})
		case 1:
			om = append(om, omEntry{"main", "./main.js"}, omEntry{"module", "./lib/d.mjs"})
		}
		if rng.Intn(4) == 0 {
			om = append(om, omEntry{"type", []string{"module", "commonjs"}[rng.Intn(2)]})
		}
		if rng.Intn(5) != 0 {
			// exports
			switch rng.Intn(4) {
			case 0:
				om = append(om, omEntry{"exports", pkgTarget(rng, 2, exist, false)})
			default:
				sub := orderedMap{}
				n := 1 + rng.Intn(6)
				seen := map[string]bool{}
				for i := 0; i < n; i++ {
					k := pkgSubpathKeys[rng.Intn(len(pkgSubpathKeys))]
					if seen[k] {
						continue
					}
					seen[k] = true
					sub = append(sub, omEntry{k, pkgTarget(rng, 2, exist, strings.Contains(k, "*"))})
				}
				om = append(om, omEntry{"exports", sub})
			}
		}
		if withImports {
			imp := orderedMap{}
			n := 1 + rng.Intn(5)
			seen := map[string]bool{}
			for i := 0; i < n; i++ {
				k := pkgImportKeys[rng.Intn(len(pkgImportKeys))]
				if seen[k] {
					continue
				}
				seen[k] = true
				t := pkgTarget(rng, 2, exist, strings.Contains(k, "*"))
				if k == "#dep" {
					t = "pkg"
				}
				imp = append(imp, omEntry{k, t})
			}
			om = append(om, omEntry{"imports", imp})
		}
		b, _ := json.Marshal(om)
		return string(b)
	}
	// layout: /app (root package, with imports map) → /app/node_modules/{pkg,@s/pkg}, nested /app/src/node_modules/pkg, hoisted /node_modules/pkg
	files["/app/package.json"] = mkPkgJSON("app", true)
	addPkgFiles("/app")
	files["/app/src/importer.js"] = "module.exports = 1;\n"
	files["/app/src/deep/importer.js"] = "module.exports = 1;\n"
	files["/app/src/f.js"], files["/app/src/dir/index.js"], files["/app/src/both.js"], files["/app/src/both/index.js"] = "1", "1", "1", "1"
	files["/app/src/noext"], files["/app/src/j.json"], files["/app/src/m.mjs"], files["/app/src/c.cjs"] = "1", "{}", "export default 1", "1"
	pkgs := []string{"/app/node_modules/pkg"}
	files["/app/node_modules/pkg/package.json"] = mkPkgJSON("pkg", true)
	addPkgFiles("/app/node_modules/pkg")
	if rng.Intn(2) == 0 {
		files["/app/node_modules/@s/pkg/package.json"] = mkPkgJSON("@s/pkg", false)
		addPkgFiles("/app/node_modules/@s/pkg")
		pkgs = append(pkgs, "/app/node_modules/@s/pkg")
	}
	if rng.Intn(3) == 0 { // a nearer copy shadows the hoisted one
		files["/app/src/node_modules/pkg/package.json"] = mkPkgJSON("pkg", false)
		addPkgFiles("/app/src/node_modules/pkg")
	}
	if rng.Intn(3) == 0 { // package without package.json main: index.js only
		files["/app/node_modules/bare/index.js"] = "module.exports = 'bare';\n"
		files["/app/node_modules/bare/sub.js"] = "module.exports = 'bare/sub';\n"
	}
	symlinks := map[string]string{}
	if rng.Intn(3) == 0 { // symlinked package living outside node_modules, with its own dependency
		files["/workspace/linked/package.json"] = `{"name": "linked", "main": "./lib/index.js"}`
		files["/app/src/bundle-entry.js"] = "require('linked'); require('linked/lib/uses-dep.js'); require('linked/lib/deep/inner.js'); require('linked/root-uses-dep.js');\n"
		files["/workspace/linked/root-uses-dep.js"] = "module.exports = require('dep');\n"
		files["/workspace/linked/lib/deep/inner.js"] = "module.exports = require('dep') + require('../one.js');\n"
		addPkgFiles("/workspace/linked")
		files["/workspace/linked/lib/uses-dep.js"] = "module.exports = require('dep');\n"
		files["/workspace/node_modules/dep/index.js"] = "module.exports = 'dep@workspace';\n"
		files["/app/node_modules/dep/index.js"] = "module.exports = 'dep@app';\n"
		symlinks["/app/node_modules/linked"] = "../../workspace/linked"
	}
	nested := false
	if rng.Intn(3) == 0 { // a package behind two nested directory symlinks: node_modules/@lnk -> /links, /links/ui -> /store/node_modules/ui
		nested = true
		files["/store/node_modules/ui/package.json"] = `{"name": "ui", "main": "./index.js"}`
		files["/store/node_modules/ui/index.js"] = "module.exports = require('./tokens.js') + require('dep2');\n"
		files["/store/node_modules/ui/tokens.js"] = "module.exports = 'tokens@store';\n"
		files["/store/node_modules/dep2/index.js"] = "module.exports = 'dep2@store';\n"
		files["/app/node_modules/dep2/index.js"] = "module.exports = 'dep2@app';\n"
		files["/links/tokens.js"] = "module.exports = 'tokens@links';\n"
		files["/links/node_modules/dep2/index.js"] = "module.exports = 'dep2@links';\n"
		symlinks["/app/node_modules/@lnk"] = "../../links"
		symlinks["/links/ui"] = "../store/node_modules/ui"
		entry := files["/app/src/bundle-entry.js"]
		files["/app/src/bundle-entry.js"] = entry + "require('@lnk/ui'); require('@lnk/ui/tokens.js');\n"
	}
	// specifiers
	var specs []string
	if nested {
		specs = append(specs, "@lnk/ui", "@lnk/ui/tokens.js", "@lnk/ui/index.js", "@lnk/ui/package.json", "@lnk/tokens.js")
	}
	for _, p := range []string{"pkg", "@s/pkg", "bare", "linked", "app"} {
		specs = append(specs, p)
		for _, k := range pkgSubpathKeys {
			if k == "." {
				continue
			}
			sub := strings.TrimPrefix(k, "./")
			for _, fill := range []string{"", "a", "one", "one/two", "x", "X", "internal/secret", "a.js", "%2e%2e", "..", "q", "a%20b.js", "a%20b"} {
				s := strings.ReplaceAll(sub, "*", fill)
				specs = append(specs, p+"/"+s)
				if !strings.Contains(sub, "*") {
					break
				}
			}
		}
		specs = append(specs, p+"/lib/a", p+"/lib/a.js", p+"/missing", p+"/lib", p+"/feature/", p+"/lib/a.js?q", p+"/lib/a.js#h", p+"/lib%2fa.js", p+"/./lib/a.js", p+"/lib//a.js", p+"/package.json")
	}
	for _, k := range pkgImportKeys {
		for _, fill := range []string{"", "a", "one", "x", "a/b"} {
			specs = append(specs, strings.ReplaceAll(k, "*", fill))
			if !strings.Contains(k, "*") {
				break
			}
		}
	}
	specs = append(specs, "#", "#/", "#missing", "./f", "./f.js", "./dir", "./dir/", "./both", "./noext", "./j", "./j.json", "./m", "./m.mjs", "./c", "./c.cjs", "..", "../package.json", "./missing", "../src/f.js", "./f.js?x", "./f%2ejs", "/app/src/f.js", "./deep/../f")
	seen := map[string]bool{}
	var qs []pkgQuery
	importers := []string{"/app/src/importer.js", "/app/src/deep/importer.js", "/app/node_modules/pkg/lib/a.js"}
	if _, ok := files["/workspace/linked/package.json"]; ok {
		importers = append(importers, "/app/node_modules/linked/lib/uses-dep.js")
		specs = append(specs, "dep")
	}
	if nested {
		importers = append(importers, "/app/node_modules/@lnk/ui/index.js")
		specs = append(specs, "dep2", "./tokens.js")
	}
	for _, s := range specs {
		for _, imp := range importers {
			if imp != importers[0] && rng.Intn(3) != 0 {
				continue
			}
			for _, k := range []string{"require", "import"} {
				key := imp + "|" + s + "|" + k
				if !seen[key] {
					seen[key] = true
					qs = append(qs, pkgQuery{imp, s, k})
				}
			}
		}
	}
	sort.Slice(qs, func(i, j int) bool { return qs[i].Importer+qs[i].Spec+qs[i].Kind < qs[j].Importer+qs[j].Spec+qs[j].Kind })
	return pkgTree{Files: files, Symlinks: symlinks, Queries: qs}
}
