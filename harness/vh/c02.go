package main

import (
	"fmt"
	"os"
	"path/filepath"
	"strings"
	"sync/atomic"

	"github.com/evanw/esbuild/pkg/api"
)

func init() { registry["C02"] = checkC02 }

type bundleVariant struct {
	Name     string
	Format   api.Format
	Minify   bool
	Platform api.Platform
}

func (v bundleVariant) ext() string {
	switch v.Format {
	case api.FormatESModule:
		return ".mjs"
	case api.FormatCommonJS:
		return ".cjs"
	}
	return ".js"
}

func c02Variants(rng *Rng, all bool) []bundleVariant {
	var vs []bundleVariant
	plats := []api.Platform{api.PlatformNode, api.PlatformBrowser, api.PlatformNeutral}
	for _, f := range []api.Format{api.FormatESModule, api.FormatCommonJS, api.FormatIIFE} {
		for _, m := range []bool{false, true} {
			for pi, p := range plats {
				if !all && rng.Intn(3) != 0 && !(pi == 0 && !m) {
					continue
				}
				vs = append(vs, bundleVariant{fmt.Sprintf("bundle[format=%s,minify=%v,platform=%d]", formatName(f), m, p), f, m, p})
			}
		}
	}
	return vs
}

// buildGraph bundles the graph (on disk under srcDir) and writes the single output file into outDir.
func buildGraph(srcDir string, g ggraph, v bundleVariant, outFile string, extra func(*api.BuildOptions)) (api.BuildResult, string) {
	opts := api.BuildOptions{EntryPoints: []string{filepath.Join(srcDir, g.Entry)}, Bundle: true, Write: false, Outfile: outFile, Format: v.Format, Platform: v.Platform,
		MinifyWhitespace: v.Minify, MinifySyntax: v.Minify, MinifyIdentifiers: v.Minify, AbsWorkingDir: srcDir, LogLevel: api.LogLevelSilent,
		MainFields: []string{"main"}, Conditions: []string{}}
	if v.Format == api.FormatIIFE {
		opts.GlobalName = "G_out"
	}
	if extra != nil {
		extra(&opts)
	}
	return buildSafe(opts)
}

// compareEntryViews: reference results vs bundle result for one variant
func exportsComparable(entryKind string, refImport, refRequire nodeResult, v bundleVariant, got nodeResult) (string, string, bool) {
	if entryKind == "esm" {
		return refImport.Exports, got.Exports, true
	}
	// CommonJS entry: requirers and the global see module.exports; importers are compared on the default export only
	switch v.Format {
	case api.FormatCommonJS, api.FormatIIFE:
		return refRequire.Exports, got.Exports, true
	}
	return "", "", false
}

func checkC02(r *Run) {
	r.Rule("seeded module graphs (2–8 modules; ESM/CJS mixed; named/namespace/default imports, re-exports, export *, side-effect imports, require, cycles through hoisted functions, self-imports, dynamic imports chained from the entry; .mjs/.cjs and .js + package.json type) " +
		"written to a real directory; reference = Node's own loaders running the entry; under test = esbuild bundles in esm/cjs/iife × minify × platform run by the same native runner; plus the asset-loader sub-workload (json/text/base64/binary/dataurl against a value model); " +
		"non-trivial = distinct graph whose native run produced events and for which ≥1 bundle was executed")
	r.Assume("Node 20's ESM/CJS loaders define native behaviour, including CommonJS named-export detection and default interop")
	r.Assume("when the entry re-exports a CommonJS module through export * (directly or transitively), an esm-format bundle cannot list those names statically (documented limitation); the export view is then compared for cjs/iife output only")
	r.Assume("a CommonJS entry bundled to esm exposes only a default export (documented esbuild behaviour); importers are therefore compared on traces only for that combination")
	pool := r.Pool()
	_ = pool
	scratch, _ := os.MkdirTemp("/tmp", "verif-c02-")
	defer os.RemoveAll(scratch)
	ngraphs := r.pick(260, 5000)
	var graphsRun, bundlesRun, events, buildErrors int64
	// bounded-exhaustive chains first (all of length 3; length 4 sampled in quick, all in thorough), then random graphs
	var specs []gspec
	specs = append(specs, graphChains(3)...)
	c4 := graphChains(4)
	srng := newRng(r.Seed, "c02chains")
	for _, s := range c4 {
		// re-export-heavy chains always run (names must flow through several export * / re-export hops); the rest is sampled in quick
		heavy := true
		for _, e := range s.Edges {
			if e[1] != "star" && e[1] != "reexport" && e[1] != "dynamic" && e[1] != "ns" {
				heavy = false
			}
		}
		if !r.quick() || heavy || srng.Intn(12) == 0 {
			specs = append(specs, s)
		}
	}
	r.Count("exhaustive_chain_shapes", len(specs))
	cycles := starCycleGraphs()
	r.Count("export_star_cycle_graphs", len(cycles))
	diamonds := starDiamondGraphs()
	r.Count("export_star_diamond_graphs", len(diamonds))
	cycles = append(cycles, diamonds...)
	throwers := throwGraphs()
	r.Count("throwing_module_graphs", len(throwers))
	cycles = append(cycles, throwers...)
	total := ngraphs + len(specs) + len(cycles)
	parallel(total, 16, func(i int) {
		rng := newRng(r.Seed, fmt.Sprint("c02g", i))
		o := ggenOpts{MaxMods: 3 + rng.Intn(6), Cycles: rng.Intn(3) != 0, Dynamic: rng.Intn(2) == 0, PkgType: rng.Intn(3) == 0}
		var g ggraph
		if i < len(specs) {
			g = graphGenSpec(rng, ggenOpts{MaxMods: 4}, &specs[i])
		} else if i >= ngraphs+len(specs) {
			g = cycles[i-ngraphs-len(specs)]
		} else {
			g = graphGen(rng, o)
		}
		dir := filepath.Join(scratch, fmt.Sprint("g", i))
		src := filepath.Join(dir, "src")
		if err := writeTree(src, g.Files); err != nil {
			return
		}
		defer os.RemoveAll(dir)
		jobs := []nodeJob{{ID: "ref-import", File: filepath.Join(src, g.Entry), Mode: "import", WaitFor: g.WaitFor}}
		variants := c02Variants(rng, !r.quick())
		built := map[string]bundleVariant{}
		for vi, v := range variants {
			outFile := filepath.Join(dir, fmt.Sprint("out", vi), "bundle"+v.ext())
			res, pan := buildGraph(src, g, v, outFile, nil)
			if pan != "" {
				continue
			}
			if len(res.Errors) > 0 && strings.Contains(res.Errors[0].Text, "Top-level await is currently not supported") {
				r.Count("variants_skipped_top_level_await_unsupported_format", 1)
				continue
			}
			if len(res.Errors) > 0 {
				atomic.AddInt64(&buildErrors, 1)
				r.Violation("bundle:build-error:"+normErr(res.Errors[0].Text), fmt.Sprintf("esbuild reports an error for a graph Node loads natively (%s): %s", v.Name, res.Errors[0].Text), map[string]interface{}{"graph": g, "variant": v.Name, "errors": msgTexts(res.Errors)})
				continue
			}
			if len(res.OutputFiles) != 1 {
				continue
			}
			os.MkdirAll(filepath.Dir(outFile), 0o755)
			os.WriteFile(outFile, res.OutputFiles[0].Contents, 0o644)
			id := fmt.Sprint("b", vi)
			built[id] = v
			switch v.Format {
			case api.FormatESModule:
				jobs = append(jobs, nodeJob{ID: id, File: outFile, Mode: "import", WaitFor: g.WaitFor})
			case api.FormatCommonJS:
				jobs = append(jobs, nodeJob{ID: id, File: outFile, Mode: "require", WaitFor: g.WaitFor})
			default:
				jobs = append(jobs, nodeJob{ID: id, File: outFile, Mode: "script", Global: "G_out", WaitFor: g.WaitFor})
			}
		}
		// a second copy of the sources for the require() view of a CommonJS entry (fresh module cache entries)
		if g.EntryKind == "cjs" {
			src2 := filepath.Join(dir, "src2")
			writeTree(src2, g.Files)
			jobs = append(jobs, nodeJob{ID: "ref-require", File: filepath.Join(src2, g.Entry), Mode: "require", WaitFor: g.WaitFor})
		}
		res, err := runNodeJobs(dir, jobs)
		if err != nil {
			r.Count("node_runner_errors", 1)
			return
		}
		ref := res["ref-import"]
		atomic.AddInt64(&graphsRun, 1)
		atomic.AddInt64(&events, int64(len(ref.Trace)))
		r.Eval(1)
		if len(ref.Trace) > 0 && len(built) > 0 {
			r.Nontrivial(strings.Join(g.Desc, ";") + g.Files[g.Entry])
		}
		if i >= len(specs) && i < len(specs)+3 {
			r.Sample(map[string]interface{}{"edges": g.Desc, "entry": g.Entry, "native_trace_head": headOf(ref.Trace, 8)})
		}
		for id, v := range built {
			got := res[id]
			atomic.AddInt64(&bundlesRun, 1)
			fail := func(kind, a, b string) {
				files := map[string]string{}
				for k, s := range g.Files {
					files[k] = s
				}
				out, _ := os.ReadFile(jobsFile(jobs, id))
				r.Violation("bundle:"+kind+":"+formatName(v.Format)+":"+edgeKinds(g), fmt.Sprintf("%s: bundle behaves differently from native loading (%s): native %s, bundle %s; edges %v", v.Name, kind, trunc(a, 200), trunc(b, 200), g.Desc),
					map[string]interface{}{"graph": g, "variant": v.Name, "native": ref, "bundle": got, "bundle_code": trunc(string(out), 20000)})
			}
			if !sameTrace(ref.Trace, got.Trace) {
				_, a, b := firstTraceDiff(ref.Trace, got.Trace)
				kind := "trace"
				if len(g.Desc) == 1 && strings.HasPrefix(g.Desc[0], "star-cycle") && len(ref.Trace) == len(got.Trace) {
					// name the namespaces that are wrong, so that a listed deviation of one rotation does not hide another one
					var wrong []string
					for k := range ref.Trace {
						if ref.Trace[k] != got.Trace[k] {
							if f := strings.Split(ref.Trace[k], ","); len(f) > 1 {
								wrong = append(wrong, strings.Trim(f[1], "\""))
							}
						}
					}
					kind = "trace[wrong=" + strings.Join(wrong, "+") + "]"
				}
				fail(kind, a, b)
				continue
			}
			if termClass(ref.Term) != termClass(got.Term) {
				fail("termination", ref.Term, got.Term)
				continue
			}
			if v.Format == api.FormatESModule && g.entryStarReachesCJS() {
				r.Count("export_views_skipped_star_from_commonjs_in_esm_output", 1)
				continue
			}
			if a, b, ok := exportsComparable(g.EntryKind, ref, res["ref-require"], v, got); ok && a != b {
				fail("exports", a, b)
			}
		}
	})
	// asset loaders against a value model
	c02Assets(r, scratch)
	r.Count("graphs_run_natively", int(graphsRun))
	r.Count("bundles_executed", int(bundlesRun))
	r.Count("native_probe_events", int(events))
	if graphsRun < int64(total*8/10) || bundlesRun < graphsRun {
		r.Inconclusive(fmt.Sprintf("only %d graphs / %d bundles ran", graphsRun, bundlesRun))
	}
}

func termClass(t string) string {
	if strings.HasPrefix(t, "throw:E(") {
		if i := strings.Index(t, ":@"); i > 0 {
			return t
		}
		if i := strings.Index(t, ")"); i > 0 {
			return t[:i+1]
		}
	}
	return t
}

func headOf(a []string, n int) []string {
	if len(a) > n {
		return a[:n]
	}
	return a
}

func jobsFile(jobs []nodeJob, id string) string {
	for _, j := range jobs {
		if j.ID == id {
			return j.File
		}
	}
	return ""
}

// edgeKinds: the sorted set of edge forms in a graph (signature component)
func edgeKinds(g ggraph) string {
	if len(g.Desc) == 1 && (strings.HasPrefix(g.Desc[0], "star-cycle") || strings.HasPrefix(g.Desc[0], "star-diamond")) {
		return g.EntryKind + "-entry{" + strings.ReplaceAll(g.Desc[0], " ", ",") + "}"
	}
	set := map[string]bool{}
	for _, d := range g.Desc {
		f := strings.Fields(d)
		if len(f) == 3 {
			set[f[1]] = true
		}
	}
	var ks []string
	for k := range set {
		ks = append(ks, k)
	}
	sortStrings(ks)
	return g.EntryKind + "-entry{" + strings.Join(ks, ",") + "}"
}

// c02Assets: the value obtained by importing a non-JavaScript file is exactly the file's bytes, text or JSON value.
func c02Assets(r *Run, scratch string) {
	rng := newRng(r.Seed, "c02assets")
	type asset struct {
		name  string
		bytes []byte
	}
	var assets []asset
	all := make([]byte, 256)
	for i := range all {
		all[i] = byte(i)
	}
	assets = append(assets, asset{"allbytes", all}, asset{"empty", nil}, asset{"bom-utf8", []byte("\xef\xbb\xbfhello")}, asset{"bom-only", []byte("\xef\xbb\xbf")}, asset{"invalid-utf8", []byte("a\xffb\xc0\x80c\xed\xa0\x80d\xf4\x90\x80\x80")},
		asset{"percent-tail", []byte("progress: 100%25")}, asset{"percent-only", []byte("%41")}, asset{"crlf", []byte("a\r\nb\rc\n")}, asset{"u2028", []byte("a b c")}, asset{"script-close", []byte("</script><!--")}, asset{"nul", []byte("a\x00b")},
		asset{"astral", []byte("😀𐀀")}, asset{"quotes", []byte("'\"`${x}\\")}, asset{"lone-continuation", []byte("\x80\x80")}, asset{"truncated", []byte("ok\xe2\x82")})
	n := r.pick(12, 200)
	for i := 0; i < n; i++ {
		b := make([]byte, rng.Intn(200))
		for j := range b {
			switch rng.Intn(4) {
			case 0:
				b[j] = byte(rng.Intn(256))
			case 1:
				b[j] = byte(0x20 + rng.Intn(95))
			default:
				b[j] = "%25ab \n</>\"'&#+"[rng.Intn(15)]
			}
		}
		assets = append(assets, asset{fmt.Sprint("rand", i), b})
	}
	big := make([]byte, 1<<16)
	for j := range big {
		big[j] = byte(rng.Intn(256))
	}
	assets = append(assets, asset{"64k", big})
	dir := filepath.Join(scratch, "assets")
	src := filepath.Join(dir, "src")
	os.MkdirAll(src, 0o755)
	var entry strings.Builder
	for i, a := range assets {
		for _, l := range []string{"txt", "bin", "b64", "durl"} {
			os.WriteFile(filepath.Join(src, fmt.Sprintf("a%d.%s", i, l)), a.bytes, 0o644)
			entry.WriteString(fmt.Sprintf("import %s%d from \"./a%d.%s\";\n", l, i, i, l))
		}
		entry.WriteString(fmt.Sprintf("export const r%d = {txt: txt%d, bin: Array.from(bin%d), b64: b64%d, durl: durl%d};\n", i, i, i, i, i))
	}
	// JSON values
	jsons := []string{`{"a": [1, 2.5, -0, 1e21, 1e-7, true, null], "b c": {"__proto__": 1, "é": "😀", "": ""}, "constructor": "x"}`, `[]`, `"str"`, `123`, `null`, `{"default": 1, "x": 2}`, `{"a": {"b": {"c": [{}]}}}`, `{" ": " ", "1": 0, "0": 1}`}
	for i, j := range jsons {
		os.WriteFile(filepath.Join(src, fmt.Sprintf("j%d.json", i)), []byte(j), 0o644)
		entry.WriteString(fmt.Sprintf("import json%d from \"./j%d.json\";\nexport const jr%d = JSON.stringify(json%d);\n", i, i, i, i))
	}
	os.WriteFile(filepath.Join(src, "entry.mjs"), []byte(entry.String()), 0o644)
	for _, minify := range []bool{false, true} {
		for _, charset := range []api.Charset{api.CharsetDefault, api.CharsetUTF8} {
			out := filepath.Join(dir, fmt.Sprintf("out-%v-%d", minify, charset), "bundle.mjs")
			res, _ := buildSafe(api.BuildOptions{EntryPoints: []string{filepath.Join(src, "entry.mjs")}, Bundle: true, Write: false, Outfile: out, Format: api.FormatESModule, MinifyWhitespace: minify, MinifySyntax: minify, Charset: charset, Target: api.ES2022, Platform: api.PlatformNode,
				Loader: map[string]api.Loader{".txt": api.LoaderText, ".bin": api.LoaderBinary, ".b64": api.LoaderBase64, ".durl": api.LoaderDataURL}, AbsWorkingDir: src})
			if len(res.Errors) > 0 || len(res.OutputFiles) != 1 {
				r.Violation("assets:build-error", "asset bundle failed: "+firstErr(res.Errors), nil)
				continue
			}
			os.MkdirAll(filepath.Dir(out), 0o755)
			// checker appended to the bundle: compares every imported value with the model computed from the file bytes by Node itself
			check := `
import fs from "node:fs";
const dec = (b) => { let s = new TextDecoder("utf-8").decode(b); return s; };
for (const [i, name] of ` + assetNamesJSON(len(assets)) + `) {
  const bytes = fs.readFileSync(` + fmt.Sprintf("%q", src) + ` + "/a" + i + ".txt");
  const r = eval("r" + i);
  const want = {txt: dec(bytes), bin: Array.from(bytes), b64: bytes.toString("base64")};
  let validUtf8 = true; try { new TextDecoder("utf-8", {fatal: true}).decode(bytes); } catch (e) { validUtf8 = false; }
  $("asset", i, "txt", validUtf8 ? r.txt === want.txt : "n/a (invalid UTF-8 has no defined text)", "bin", JSON.stringify(r.bin) === JSON.stringify(want.bin), "b64", r.b64 === want.b64);
  // lenient percent-decoding as the URL standard does it: a "%" that is not followed by two hex digits stays as it is
  const pctDecode = (t) => { const b = Buffer.from(t, "utf8"), out = []; const hex = (c) => (c >= 48 && c <= 57) || (c >= 65 && c <= 70) || (c >= 97 && c <= 102); for (let i = 0; i < b.length; i++) { if (b[i] === 37 && i + 2 < b.length + 0 && hex(b[i + 1]) && hex(b[i + 2])) { out.push(parseInt(String.fromCharCode(b[i + 1], b[i + 2]), 16)); i += 2; } else out.push(b[i]); } return Buffer.from(out); };
  let durl = "n/a"; try { const m = /^data:([^,]*),(.*)$/s.exec(r.durl); const isB64 = /;base64$/.test(m[1]); const got = isB64 ? Buffer.from(m[2], "base64") : pctDecode(m[2]); durl = Buffer.compare(got, bytes) === 0; } catch (e) { durl = "decode-error:" + e.message; }
  $("asset", i, "durl", durl);
}
`
			for i, j := range jsons {
				check += fmt.Sprintf("$(\"json\", %d, jr%d === JSON.stringify(JSON.parse(%q)));\n", i, i, j)
			}
			os.WriteFile(out, append(res.OutputFiles[0].Contents, []byte(check)...), 0o644)
			nres, err := runNodeJobs(dir, []nodeJob{{ID: "a", File: out, Mode: "import"}})
			if err != nil {
				r.Count("node_runner_errors", 1)
				continue
			}
			a := nres["a"]
			if a.Term != "ok" {
				r.Violation("assets:run-error:"+termClass(a.Term), "asset bundle does not run: "+a.Term+" trace tail: "+fmt.Sprint(headOf(a.Trace, 3)), map[string]interface{}{"minify": minify})
				os.WriteFile("/tmp/c02-asset-bundle.mjs", append(res.OutputFiles[0].Contents, []byte(check)...), 0o644)
				continue
			}
			for _, ev := range a.Trace {
				r.Eval(1)
				r.Count("asset_value_checks", 1)
				if strings.Contains(ev, ",F") || strings.Contains(ev, "decode-error") {
					var idx int
					fmt.Sscanf(ev, "\"asset\",%d", &idx)
					nm := "json"
					if strings.HasPrefix(ev, "\"asset\"") && idx >= 0 && idx < len(assets) {
						nm = assets[idx].name
					}
					r.Violation("assets:value:"+nm+":"+assetField(ev), fmt.Sprintf("imported asset value differs from the file (%s, minify=%v): %s", nm, minify, ev), map[string]interface{}{"asset": nm, "event": ev, "minify": minify})
				} else {
					r.Nontrivial(fmt.Sprint("asset", ev, minify, charset))
				}
			}
		}
	}
}

func assetField(ev string) string {
	for _, f := range []string{"txt", "bin", "b64", "durl"} {
		if strings.Contains(ev, "\""+f+"\",F") || (f == "durl" && strings.Contains(ev, "\"durl\",")) {
			return f
		}
	}
	return "?"
}

func assetNamesJSON(n int) string {
	var b strings.Builder
	b.WriteString("[")
	for i := 0; i < n; i++ {
		if i > 0 {
			b.WriteString(",")
		}
		b.WriteString(fmt.Sprintf("[%d,\"a\"]", i))
	}
	b.WriteString("]")
	return b.String()
}
