package main

// C03, substitution options: define, pure, drop (console, debugger) and drop-labels. Every program is generated
// twice: P contains the option-sensitive constructs (free identifiers and member chains named by define, calls to
// functions named by pure, console.* calls, debugger statements, statements labelled with a dropped label), R is the
// same program with the substitutions applied by the generator. R runs unminified as the reference; P is compiled with
// the options under every minify subset and must behave like R. Sites the options must NOT touch (a local binding with
// the defined name, a property with that name, a shadowed console, a label that is not listed) are generated as well.

import (
	"fmt"
	"strings"
	"sync/atomic"

	"github.com/evanw/esbuild/pkg/api"
)

type substgen struct {
	rng  *Rng
	k    int
	p, r strings.Builder
}

func (g *substgen) id() int { g.k++; return g.k }

func (g *substgen) both(format string, a ...interface{}) {
	s := fmt.Sprintf(format, a...)
	g.p.WriteString(s)
	g.r.WriteString(s)
}

// stmt emits one statement template into P and R.
func (g *substgen) stmt() {
	r := g.rng
	n := g.id()
	probe := func(v string) string { return fmt.Sprintf("$(%d, %s)", g.id(), v) }
	switch r.Intn(30) {
	// ---- define: free identifier DEBUG -> false, VERSION -> 42, process.env.NODE_ENV -> "production", globalThis.FLAG -> true, NAME -> "str"
	case 0:
		pr := probe(`"debug-branch"`)
		g.p.WriteString(fmt.Sprintf("if (DEBUG) { %s; } else { $(%d, \"else\"); }\n", pr, n))
		g.r.WriteString(fmt.Sprintf("if (false) { %s; } else { $(%d, \"else\"); }\n", pr, n))
	case 1:
		g.p.WriteString(fmt.Sprintf("$(%d, VERSION, typeof VERSION, VERSION + 1, [VERSION], {VERSION}, `${VERSION}`);\n", n))
		g.r.WriteString(fmt.Sprintf("$(%d, 42, typeof 42, 42 + 1, [42], {VERSION: 42}, `${42}`);\n", n))
	case 2:
		g.p.WriteString(fmt.Sprintf("$(%d, process.env.NODE_ENV, process.env.NODE_ENV === \"production\" ? %s : %s, process[\"env\"][\"NODE_ENV\"], process.env[\"NODE_ENV\"]);\n", n, "1", "2"))
		g.r.WriteString(fmt.Sprintf("$(%d, \"production\", \"production\" === \"production\" ? %s : %s, \"production\", \"production\");\n", n, "1", "2"))
	case 3:
		// a local binding with the defined name is not a free identifier
		g.both("(function (DEBUG, VERSION) { var process = {env: {NODE_ENV: \"local\"}}; $(%d, DEBUG, VERSION, process.env.NODE_ENV); })(%s, %s);\n", n, probe("1"), probe("2"))
	case 4:
		// property names are not identifiers
		g.both("{ const o = {DEBUG: 1, VERSION: 2, process: {env: {NODE_ENV: 3}}}; $(%d, o.DEBUG, o.VERSION, o.process.env.NODE_ENV, o[\"DEBUG\"]); class C { DEBUG = 4; static VERSION() { return 5; } } $(%d, new C().DEBUG, C.VERSION()); }\n", n, n)
	case 5:
		g.p.WriteString(fmt.Sprintf("$(%d, globalThis.FLAG ? %s : %s, !globalThis.FLAG, globalThis.FLAG && NAME, NAME.length, NAME + \"!\");\n", n, `"on"`, `"off"`))
		g.r.WriteString(fmt.Sprintf("$(%d, true ? %s : %s, !true, true && \"str\", \"str\".length, \"str\" + \"!\");\n", n, `"on"`, `"off"`))
	case 6:
		pa, pb := probe("1"), probe("2")
		g.p.WriteString(fmt.Sprintf("$(%d, DEBUG && %s, DEBUG || %s, DEBUG ?? 3, !DEBUG, typeof DEBUG);\n", n, pa, pb))
		g.r.WriteString(fmt.Sprintf("$(%d, false && %s, false || %s, false ?? 3, !false, typeof false);\n", n, pa, pb))
	case 7:
		// a longer chain that merely starts like a defined one, and a defined chain used as a call target / member base
		g.both("{ const a = {process: {env: {NODE_ENV: \"nested\"}}}; $(%d, a.process.env.NODE_ENV); }\n", n)
		g.p.WriteString(fmt.Sprintf("$(%d, process.env.NODE_ENV.length, process.env.NODE_ENV.toUpperCase(), VERSION.toFixed(1));\n", n))
		g.r.WriteString(fmt.Sprintf("$(%d, \"production\".length, \"production\".toUpperCase(), (42).toFixed(1));\n", n))
	case 8:
		pr := probe(`"loop"`)
		g.p.WriteString(fmt.Sprintf("for (var i%d = 0; i%d < 2 && !DEBUG; i%d++) { %s; } while (DEBUG) { $(%d, \"never\"); }\n", n, n, n, pr, n))
		g.r.WriteString(fmt.Sprintf("for (var i%d = 0; i%d < 2 && !false; i%d++) { %s; } while (false) { $(%d, \"never\"); }\n", n, n, n, pr, n))
	case 9:
		// switch / conditional declarations whose hoisting must survive dead-code elimination
		g.p.WriteString(fmt.Sprintf("if (DEBUG) { var h%d = 1; function hf%d() { return 1; } } $(%d, typeof h%d, typeof hf%d);\n", n, n, n, n, n))
		g.r.WriteString(fmt.Sprintf("if (false) { var h%d = 1; function hf%d() { return 1; } } $(%d, typeof h%d, typeof hf%d);\n", n, n, n, n, n))
	// ---- pure: pureU (result unused) may disappear, its arguments may not; pureV (result used) stays
	case 10:
		g.both("pureU(%d, %s, %s);\n", n, probe(`"arg1"`), probe(`"arg2"`))
	case 11:
		g.both("$(%d, pureV(%d, %s));\n", n, n, probe(`"arg"`))
	case 12:
		g.both("var u%d = pureV(%d, %s) + 1; $(%d, u%d);\n", n, n, probe("1"), n, n)
	case 13:
		g.both("%s, pureU(%d, %s), %s;\n", probe(`"before"`), n, probe(`"in"`), probe(`"after"`))
	case 14:
		g.both("new PureU(%d, %s);\nvoid pureU(%d, %s);\n%s && pureU(%d, %s);\n", n, probe(`"ctor-arg"`), n, probe(`"void-arg"`), probe("1"), n, probe(`"guarded-arg"`))
	case 15:
		g.both("ns.pureU(%d, %s);\n$(%d, ns.pureV(%d, %s));\n", n, probe(`"m-arg"`), n, n, probe(`"m-arg2"`))
	case 16:
		// a local function with the same name is not the free function named by the option
		g.both("(function () { function pureU(k) { $(k, \"local pureU\"); } pureU(%d); })();\n", n)
	// ---- drop: console — the whole call disappears, arguments included; debugger disappears
	case 17:
		pr := probe(`"console-arg"`)
		g.p.WriteString(fmt.Sprintf("console.log(%d, %s);\n$(%d, \"after-console\");\n", n, pr, n))
		g.r.WriteString(fmt.Sprintf("$(%d, \"after-console\");\n", n))
	case 18:
		pr := probe(`"console-arg"`)
		g.p.WriteString(fmt.Sprintf("var c%d = console.warn(%s); $(%d, c%d, typeof console.error(%d));\n", n, pr, n, n, n))
		g.r.WriteString(fmt.Sprintf("var c%d = void 0; $(%d, c%d, typeof void 0);\n", n, n, n))
	case 19:
		g.both("(function (console) { console.log(%d, %s); })({log: function (a, b) { $(a, \"local console\", b); }});\n", n, probe("1"))
	case 20:
		g.p.WriteString(fmt.Sprintf("if (%s) console.info(%d); else console.debug(%d);\ndebugger;\n%s ? console.log(1) : $(%d, \"else\");\n", probe("1"), n, n, probe("0"), n))
		g.r.WriteString(fmt.Sprintf("if (%s) ; else ;\n%s ? void 0 : $(%d, \"else\");\n", fmt.Sprintf("$(%d, 1)", g.k-1), fmt.Sprintf("$(%d, 0)", g.k), n))
	case 21:
		g.p.WriteString(fmt.Sprintf("console.log(%d), $(%d, \"in-sequence\");\nfor (console.time(%d); false;) ;\nconsole[\"log\"](%d, %s);\n", n, n, n, n, probe(`"computed-console"`)))
		g.r.WriteString(fmt.Sprintf("void 0, $(%d, \"in-sequence\");\nfor (void 0; false;) ;\n", n))
	// ---- drop-labels: DEV and TEST are dropped, PROD is not
	case 22:
		g.p.WriteString(fmt.Sprintf("DEV: { %s; }\nPROD: { $(%d, \"prod\"); }\n", probe(`"dev-only"`), n))
		g.r.WriteString(fmt.Sprintf("PROD: { $(%d, \"prod\"); }\n", n))
	case 23:
		g.p.WriteString(fmt.Sprintf("TEST: for (var t%d = 0; t%d < 2; t%d++) { %s; if (t%d) break TEST; }\n$(%d, typeof t%d);\n", n, n, n, probe(`"test-loop"`), n, n, n))
		g.r.WriteString(fmt.Sprintf("$(%d, typeof t%d);\n", n, n))
	case 24:
		g.p.WriteString(fmt.Sprintf("function lf%d() { DEV: %s; PROD: return %s; }\n$(%d, lf%d());\n", n, probe(`"dev-stmt"`), probe(`"ret"`), n, n))
		g.r.WriteString(fmt.Sprintf("function lf%d() { PROD: return %s; }\n$(%d, lf%d());\n", n, fmt.Sprintf("$(%d, \"ret\")", g.k), n, n))
	case 25:
		g.p.WriteString(fmt.Sprintf("PROD: { DEV: { %s; break PROD; } $(%d, \"after-inner\"); }\nouter%d: DEV: TEST: { %s; }\n", probe(`"inner-dev"`), n, n, probe(`"double"`)))
		g.r.WriteString(fmt.Sprintf("PROD: { $(%d, \"after-inner\"); }\n", n))
	case 26:
		// the label names as identifiers and properties are untouched
		g.both("{ let DEV = %d, TEST = {DEV: 2}; $(%d, DEV, TEST.DEV); }\n", n, n)
	// ---- ordinary statements in between (so that the minifier has neighbours to merge with)
	case 27:
		g.both("var v%d = %s; if (v%d) $(%d, \"then\"); else $(%d, \"else\");\n", n, probe("1"), n, n, n)
	case 28:
		g.both("function f%d(a) { return a ? %s : %s; } $(%d, f%d(%s));\n", n, probe("1"), probe("2"), n, n, probe("0"))
	default:
		g.both("try { %s; throw new Error(\"e%d\"); } catch (e) { $(%d, e.message); }\n", probe("1"), n, n)
	}
}

const c03SubstPrelude = `var pureU = function (k) { $("P:U", k); return 1; }, pureV = function (k) { $("P:V", k); return 7; };
var PureU = function (k) { $("P:U", "new", k); };
var ns = {pureU: function (k) { $("P:U", "ns", k); }, pureV: function (k) { $("P:V", "ns", k); return 8; }};
var console = {}; ["log", "warn", "error", "info", "debug", "time"].forEach(function (m) { console[m] = function () { $("console." + m, [].slice.call(arguments)); }; });
`

func c03Subst(r *Run) {
	pool := r.Pool()
	n := r.pick(300, 6000)
	var programs, runs, events int64
	parallel(n, pool.Size(), func(i int) {
		rng := newRng(r.Seed, fmt.Sprint("c03subst", i))
		g := &substgen{rng: rng}
		for k, m := 0, 6+rng.Intn(10); k < m; k++ {
			g.stmt()
		}
		P, R := g.p.String(), g.r.String()
		atomic.AddInt64(&programs, 1)
		r.Eval(1)
		ref := progScript(R)
		ref.Prelude = c03SubstPrelude
		var outs []Prog
		var names, codes []string
		for m := 0; m < 8; m++ {
			if r.quick() && m != 0 && m != 2 && m != 7 && m != (i%8) {
				continue
			}
			o := api.TransformOptions{Loader: api.LoaderJS, MinifyWhitespace: m&1 != 0, MinifySyntax: m&2 != 0, MinifyIdentifiers: m&4 != 0,
				Define: map[string]string{"DEBUG": "false", "VERSION": "42", "process.env.NODE_ENV": `"production"`, "globalThis.FLAG": "true", "NAME": `"str"`},
				Pure:   []string{"pureU", "pureV", "PureU", "ns.pureU", "ns.pureV"}, Drop: api.DropConsole | api.DropDebugger, DropLabels: []string{"DEV", "TEST"}}
			name := fmt.Sprintf("subst[define,pure,drop,drop-labels;ws=%v,syntax=%v,ids=%v]", o.MinifyWhitespace, o.MinifySyntax, o.MinifyIdentifiers)
			res, pan := transformSafe(P, o)
			if pan != "" {
				r.Violation("minify:subst:panic", "esbuild panicked: "+pan, map[string]interface{}{"input": P, "variant": name})
				continue
			}
			if len(res.Errors) > 0 {
				r.Violation("minify:subst:rejected:"+normErr(res.Errors[0].Text), fmt.Sprintf("esbuild rejects a generated program (%s): %s", name, res.Errors[0].Text), map[string]interface{}{"input": P, "variant": name})
				continue
			}
			p := progScript(string(res.Code))
			p.Prelude = c03SubstPrelude
			outs = append(outs, p)
			names = append(names, name)
			codes = append(codes, string(res.Code))
		}
		if len(outs) == 0 {
			return
		}
		mr, err := pool.ExecMultiOpts(ref, outs, map[string]interface{}{"ignoreExports": true, "dropEvents": `^"P:U"`})
		if err != nil {
			r.Count("oracle_errors", 1)
			return
		}
		atomic.AddInt64(&events, int64(mr.RefEvents))
		if mr.RefEvents > 0 {
			r.Nontrivial(P)
		}
		for k, pr := range mr.Results {
			atomic.AddInt64(&runs, 1)
			if pr.Equal || pr.Inconclusive {
				continue
			}
			what := "termination differs: reference " + pr.TermA + ", output " + pr.TermB
			cls := "termination"
			if len(pr.Diffs) > 0 {
				d := pr.Diffs[0]
				i := 0
				for i < len(d.A) && i < len(d.B) && d.A[i] == d.B[i] {
					i++
				}
				x, y := "∅", "∅"
				if i < len(d.A) {
					x = d.A[i]
				}
				if i < len(d.B) {
					y = d.B[i]
				}
				what = fmt.Sprintf("first differing event: reference (substitutions applied by the generator) %s, output %s", trunc(x, 200), trunc(y, 200))
				cls = substClass(x, y)
			}
			r.Violation("minify:subst:"+cls, fmt.Sprintf("with define/pure/drop/drop-labels the output behaves differently from the substituted program under %s: %s", names[k], what),
				map[string]interface{}{"input": P, "reference": R, "output": codes[k], "variant": names[k], "diffs": pr.Diffs})
		}
		if i < 1 {
			r.Sample(map[string]interface{}{"kind": "substitution options", "input": trunc(P, 500), "reference": trunc(R, 500)})
		}
	})
	r.Count("subst_programs", int(programs))
	r.Count("subst_variant_runs", int(runs))
	r.Count("subst_probe_events_ref", int(events))
	if runs < int64(n*2) {
		r.Inconclusive(fmt.Sprintf("only %d substitution variant runs", runs))
	}
}

func substClass(x, y string) string {
	for _, k := range []string{"console", "P:V", "dev", "test", "debug", "prod", "else", "production", "local"} {
		if strings.Contains(x, k) || strings.Contains(y, k) {
			return k
		}
	}
	return "other"
}
