package main

import (
	"fmt"
	"sync/atomic"

	"github.com/evanw/esbuild/pkg/api"
)

func init() { registry["C03"] = checkC03; replayers["C03"] = replayC03 }

func minifyVariants(keepNames bool) []packVariant {
	var vs []packVariant
	for m := 1; m < 8; m++ {
		ws, syn, id := m&1 != 0, m&2 != 0, m&4 != 0
		name := fmt.Sprintf("minify[ws=%v,syntax=%v,ids=%v,keep-names=%v]", ws, syn, id, keepNames)
		opts := api.TransformOptions{Loader: api.LoaderJS, MinifyWhitespace: ws, MinifySyntax: syn, MinifyIdentifiers: id, KeepNames: keepNames}
		vs = append(vs, packVariant{Name: name, Kind: "script", Compile: func(src string) (string, []string) {
			res, pan := transformSafe(src, opts)
			if pan != "" {
				return "", []string{"panic: " + pan}
			}
			return string(res.Code), msgTexts(res.Errors)
		}})
	}
	return vs
}

func checkC03(r *Run) {
	r.Rule("exprtab: operator × boundary-literal grid (constant folding), operator × probe/coercion-object operands (order and count of side effects), unused-expression forms, " +
		"compile-time evaluable built-in forms, statement skeletons with dead code/hoisting/switch/try; progen: random programs; each × 7 minify flag subsets (+ keep-names); " +
		"non-trivial = distinct case whose reference execution produced events and which was compiled and executed under ≥1 minify variant")
	r.Assume("reference semantics = V8 (Node 20) executing the unminified source; traces compare host calls, values (-0/NaN/bigint/symbol/UTF-16 exact), thrown error constructors")
	r.Assume("programs do not observe function source, .name (without keep-names), TDZ errors, or patched built-ins")
	var st packStats
	rng := newRng(r.Seed, "c03")
	frac := r.pick(6, 1)
	phase := rng.Intn(frac)
	n := 0
	sample := func(total int) bool {
		n++
		return (n+phase)%frac == 0
	}
	cases := exprtabMinify(sample)
	for _, c := range cases {
		r.Nontrivial(c.Body)
	}
	r.Eval(len(cases))
	r.Sample(map[string]string{"case": cases[len(cases)/3].Body, "sig": cases[len(cases)/3].Sig})
	r.Sample(map[string]string{"case": cases[len(cases)-5].Body, "sig": cases[len(cases)-5].Sig})
	runPacks(r, cases, 1500, minifyVariants(false), "minify", nil, &st)
	r.Count("exprtab_cases", len(cases))
	c03Subst(r)

	// random programs: one program per compilation unit
	pool := r.Pool()
	nprog := r.pick(1500, 40000)
	var progEvents, progRuns, progRewritten int64
	parallel(nprog, pool.Size(), func(i int) {
		prng := newRng(r.Seed, fmt.Sprint("c03prog", i))
		g := newProgen(prng, progenOpts{Layout: i%3 == 0})
		src := g.Program(8 + prng.Intn(20))
		keep := i%5 == 0
		vs := minifyVariants(keep)
		// three seeded variants per program (all seven in thorough)
		k := 3
		if !r.quick() {
			k = len(vs)
		}
		var outs []Prog
		var names []string
		for j := 0; j < k; j++ {
			v := vs[(prng.Intn(len(vs))+j)%len(vs)]
			out, errs := v.Compile(src)
			if len(errs) > 0 {
				r.Violation("minify:progen-compile-error:"+normErr(errs[0]), "esbuild rejects a generated program under "+v.Name+": "+errs[0], map[string]interface{}{"input": src, "variant": v.Name, "errors": errs})
				continue
			}
			if out != src {
				atomic.AddInt64(&progRewritten, 1)
			}
			o := progScript(out)
			o.FnNames = keep
			outs = append(outs, o)
			names = append(names, v.Name)
		}
		if len(outs) == 0 {
			return
		}
		ref := progScript(src)
		ref.FnNames = keep
		res, err := pool.ExecMulti(ref, outs, false)
		if err != nil {
			r.Count("oracle_errors", 1)
			return
		}
		r.Eval(1)
		atomic.AddInt64(&progEvents, int64(res.RefEvents))
		if res.RefEvents > 0 {
			r.Nontrivial(src)
		}
		for vi, cmp := range res.Results {
			atomic.AddInt64(&progRuns, 1)
			if cmp.Equal || cmp.Inconclusive {
				continue
			}
			d := cmp.Diffs[0]
			r.Violation("minify:progen:"+firstDiffSig(d), fmt.Sprintf("generated program behaves differently under %s (term ref=%s out=%s): segment %s ref=%v out=%v", names[vi], cmp.TermA, trunc(cmp.TermB, 120), d.Seg, trunc(fmt.Sprint(d.A), 200), trunc(fmt.Sprint(d.B), 200)),
				map[string]interface{}{"input": src, "variant": names[vi], "output": outs[vi].Files[outs[vi].Entry].Code, "diff": cmp.Diffs})
		}
	})
	r.Count("packs", int(st.packs))
	r.Count("pack_case_executions", int(st.caseRuns))
	r.Count("probe_events_ref", int(st.events+progEvents))
	r.Count("variant_outputs_differing_from_input", int(st.rewritten+progRewritten))
	r.Count("progen_programs", nprog)
	r.Count("progen_variant_runs", int(progRuns))
	r.Count("oracle_errors", int(st.oracleErrors))
	if st.caseRuns < int64(len(cases)) || st.rewritten == 0 {
		r.Inconclusive("the minifier workload did not run or never rewrote anything")
	}
}

// firstDiffSig: first differing event pair of a segment diff, digits normalised
func firstDiffSig(d SegDiff) string {
	i := 0
	for i < len(d.A) && i < len(d.B) && d.A[i] == d.B[i] {
		i++
	}
	a, b := "∅", "∅"
	if i < len(d.A) {
		a = d.A[i]
	}
	if i < len(d.B) {
		b = d.B[i]
	}
	return normErr(trunc(a, 40)) + "→" + normErr(trunc(b, 40))
}

func replayC03(r *Run, path string) {
	var doc struct {
		Case struct {
			Input   string   `json:"input"`
			Variant string   `json:"variant"`
			Case    packCase `json:"case"`
		} `json:"case"`
	}
	if err := readJSON(path, &doc); err != nil {
		r.Inconclusive(err.Error())
		return
	}
	src := doc.Case.Input
	if src == "" {
		src = packSource([]packCase{doc.Case.Case})
	}
	pool := r.Pool()
	for _, keep := range []bool{false, true} {
		for _, v := range minifyVariants(keep) {
			if doc.Case.Variant != "" && v.Name != doc.Case.Variant {
				continue
			}
			out, errs := v.Compile(src)
			if len(errs) > 0 {
				continue
			}
			r.Eval(1)
			pr, err := pool.ExecPair(progScript(src), progScript(out), false, false)
			if err == nil && !pr.Equal {
				r.Violation("minify:replay", fmt.Sprintf("%s: %v", v.Name, pr.Diffs), map[string]interface{}{"input": src, "output": out})
			}
		}
	}
}
