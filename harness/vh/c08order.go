package main

// C08, history independence across processes: "the same inputs with the same options always produce
// byte-identical results … regardless of other builds running in the same process". Process-wide caches
// (the parsed runtime, …) make the *first* build with a given key decide what later builds see, so repeating
// one build inside one process can never expose a cache key that forgets an option. Here a fixed set of
// (project, option set) builds is run in fresh child processes in different orders (option sets differ in one
// flag at a time: minify-syntax, minify-identifiers, minify-whitespace, target, format, platform, keep-names),
// some concurrently, and the digest of every build must be the same in every process.

import (
	"crypto/sha256"
	"encoding/hex"
	"encoding/json"
	"fmt"
	"os"
	"os/exec"
	"path/filepath"
	"sort"
	"strings"
	"sync"

	"github.com/evanw/esbuild/pkg/api"
)

func init() { registry["C08ORDER"] = c08OrderChild }

type c08OrderJob struct {
	Project int
	Name    string
	f       func(*api.BuildOptions)
}

func c08OrderJobs() []c08OrderJob {
	type ov struct {
		name string
		f    func(*api.BuildOptions)
	}
	base := func(o *api.BuildOptions) { o.Format = api.FormatESModule }
	variants := []ov{
		{"base", func(o *api.BuildOptions) {}},
		{"minify-syntax", func(o *api.BuildOptions) { o.MinifySyntax = true }},
		{"minify-identifiers", func(o *api.BuildOptions) { o.MinifyIdentifiers = true }},
		{"minify-whitespace", func(o *api.BuildOptions) { o.MinifyWhitespace = true }},
		{"minify-all", func(o *api.BuildOptions) { o.MinifySyntax, o.MinifyIdentifiers, o.MinifyWhitespace = true, true, true }},
		{"es2017", func(o *api.BuildOptions) { o.Target = api.ES2017 }},
		{"es2017+minify-syntax", func(o *api.BuildOptions) { o.Target, o.MinifySyntax = api.ES2017, true }},
		{"cjs", func(o *api.BuildOptions) { o.Format = api.FormatCommonJS }},
		{"iife+minify-syntax", func(o *api.BuildOptions) { o.Format, o.MinifySyntax = api.FormatIIFE, true }},
		{"node", func(o *api.BuildOptions) { o.Platform = api.PlatformNode }},
		{"keep-names", func(o *api.BuildOptions) { o.KeepNames = true }},
		{"keep-names+minify-identifiers", func(o *api.BuildOptions) { o.KeepNames, o.MinifyIdentifiers = true, true }},
		{"supported-no-arrow", func(o *api.BuildOptions) { o.Supported = map[string]bool{"arrow": false} }},
		{"chrome60", func(o *api.BuildOptions) { o.Engines = []api.Engine{{Name: api.EngineChrome, Version: "60"}} }},
	}
	var jobs []c08OrderJob
	for p := 0; p < 2; p++ {
		for _, v := range variants {
			v := v
			jobs = append(jobs, c08OrderJob{Project: p, Name: v.name, f: func(o *api.BuildOptions) { base(o); v.f(o) }})
		}
	}
	return jobs
}

// a project that needs many runtime helpers: CommonJS modules imported from ESM and the reverse, export *,
// dynamic import, classes with fields and private names, async generators, JSON, object spread
func c08OrderProject(p int) map[string]string {
	return map[string]string{
		"/entry.js": fmt.Sprintf("import d, {named} from './cjs.js';\nimport * as ns from './esm.js';\nimport j from './data.json';\nexport * from './esm2.js';\nexport {ns, j};\nconst lazy = () => import('./lazy.js');\nclass K { static #p = d?.x ?? named; f = %d; static { K.q = ns.a ** 2; } async *g() { yield* [await 1]; } }\nconsole.log(K, lazy, {...ns}, require('./cjs2.js'));\n", p),
		"/cjs.js":   "exports.named = 1; module.exports.x = class { a = 1; #b; static c; }; exports.f = async () => { var {a, ...r} = exports; return r?.x; };\n",
		"/cjs2.js":  "const e = require('./esm.js'); module.exports = {...e, k: e.a ?? 2};\n",
		"/esm.js":   "export let a = 1; export function setA(v) { a = v; } export default class { static { a **= 2; } }\n",
		"/esm2.js":  "export * as star from './esm.js'; export const b = 2; export * from './cjs.js';\n",
		"/lazy.js":  "export default async function*() { for await (const x of [1]) yield x; }; export const re = /(?<n>a)/su;\n",
		"/data.json": `{"a": [1, 2, {"b": null}], "c d": "é"}`,
	}
}

func c08OrderChild(r *Run) {
	jobs := c08OrderJobs()
	order := make([]int, len(jobs))
	for i := range order {
		order[i] = i
	}
	orng := newRng(r.Seed, "c08order-"+os.Getenv("VERIF_C08_ORDER"))
	orng.Shuffle(len(order), func(i, j int) { order[i], order[j] = order[j], order[i] })
	par := 1 + int(orng.Intn(3)) // 1: strictly sequential; 2-3: siblings run concurrently
	out := map[string]string{}
	var mu sync.Mutex
	sem := make(chan struct{}, par)
	var wg sync.WaitGroup
	for _, ji := range order {
		jb := jobs[ji]
		wg.Add(1)
		sem <- struct{}{}
		go func() {
			defer wg.Done()
			defer func() { <-sem }()
			opts := api.BuildOptions{EntryPoints: []string{"/entry.js"}, Bundle: true, Write: false, Outdir: "/out", Metafile: true, LogLevel: api.LogLevelSilent,
				Plugins: []api.Plugin{memPlugin(c08OrderProject(jb.Project))}}
			jb.f(&opts)
			res, pan := buildSafe(opts)
			h := sha256.New()
			h.Write([]byte(pan))
			for _, m := range res.Errors {
				h.Write([]byte("E:" + m.Text + "\n"))
			}
			for _, m := range res.Warnings {
				h.Write([]byte("W:" + m.Text + "\n"))
			}
			for _, f := range res.OutputFiles {
				h.Write([]byte(f.Path + "\x00"))
				h.Write(f.Contents)
			}
			h.Write([]byte(res.Metafile))
			mu.Lock()
			out[fmt.Sprint(jb.Project, "/", jb.Name)] = hex.EncodeToString(h.Sum(nil)[:10]) + fmt.Sprintf(":%d-files", len(res.OutputFiles))
			mu.Unlock()
		}()
	}
	wg.Wait()
	b, _ := json.Marshal(map[string]interface{}{"digests": out, "order": order, "parallel": par})
	fmt.Println("C08ORDER " + string(b))
	os.Exit(0)
}

func c08OrderCheck(r *Run) {
	self, _ := os.Executable()
	nproc := r.pick(6, 24)
	type res struct {
		Digests  map[string]string `json:"digests"`
		Order    []int             `json:"order"`
		Parallel int               `json:"parallel"`
	}
	var all []res
	for k := 0; k < nproc; k++ {
		cmd := exec.Command("timeout", "-s", "QUIT", "600", self, "C08ORDER", r.Tier)
		cmd.Env = append(os.Environ(), fmt.Sprint("VERIF_SEED=", r.Seed), fmt.Sprint("VERIF_C08_ORDER=", k), "VERIF_ROOT="+filepath.Join(os.TempDir(), "verif-c08order-unused"))
		outb, err := cmd.Output()
		var got *res
		for _, line := range strings.Split(string(outb), "\n") {
			if strings.HasPrefix(line, "C08ORDER ") {
				var x res
				if json.Unmarshal([]byte(line[9:]), &x) == nil {
					got = &x
				}
			}
		}
		if got == nil {
			r.Inconclusive(fmt.Sprintf("order process %d did not report (%v)", k, err))
			continue
		}
		all = append(all, *got)
		r.Eval(len(got.Digests))
	}
	if len(all) < 2 {
		r.Inconclusive("fewer than two order processes completed")
		return
	}
	jobs := c08OrderJobs()
	keys := []string{}
	for k := range all[0].Digests {
		keys = append(keys, k)
	}
	sort.Strings(keys)
	orders := map[string]bool{}
	for _, a := range all {
		orders[fmt.Sprint(a.Order, a.Parallel)] = true
	}
	for _, k := range keys {
		r.Nontrivial("order:" + k)
		for pi := 1; pi < len(all); pi++ {
			if all[pi].Digests[k] != all[0].Digests[k] {
				name := func(a res) []string {
					var ns []string
					for _, ji := range a.Order {
						ns = append(ns, fmt.Sprint(jobs[ji].Project, "/", jobs[ji].Name))
					}
					return ns
				}
				r.Violation("determinism:depends-on-earlier-builds-in-the-process:"+k[strings.Index(k, "/")+1:], fmt.Sprintf("build %s has digest %s in a process that ran the builds in one order and %s in a process that ran them in another order (same inputs, same options)", k, all[0].Digests[k], all[pi].Digests[k]),
					map[string]interface{}{"build": k, "order_a": name(all[0]), "parallel_a": all[0].Parallel, "order_b": name(all[pi]), "parallel_b": all[pi].Parallel, "project": c08OrderProject(0)})
				break
			}
		}
	}
	r.Count("order_processes", len(all))
	r.Count("order_distinct_build_orders", len(orders))
	r.Count("order_builds_per_process", len(keys))
}
