package main

import (
	"fmt"
	"sync/atomic"

	"github.com/evanw/esbuild/pkg/api"
)

func init() { registry["C05"] = checkC05; replayers["C05"] = replayC05 }

var c05Targets = []struct {
	name string
	t    api.Target
}{{"es2015", api.ES2015}, {"es2016", api.ES2016}, {"es2017", api.ES2017}, {"es2018", api.ES2018}, {"es2019", api.ES2019}, {"es2020", api.ES2020}, {"es2021", api.ES2021}, {"es2022", api.ES2022}, {"es2023", api.ES2023}, {"es2024", api.ES2024}, {"esnext", api.ESNext}}

func c05Variant(name string, opts api.TransformOptions) packVariant {
	return packVariant{Name: name, Kind: "script", Compile: func(src string) (string, []string) {
		o := opts
		o.Loader = api.LoaderJS
		res, pan := transformSafe(src, o)
		if pan != "" {
			return "", []string{"panic: " + pan}
		}
		return string(res.Code), msgTexts(res.Errors)
	}}
}

func c05Variants(r *Run) []packVariant {
	var vs []packVariant
	for _, t := range c05Targets {
		vs = append(vs, c05Variant("target="+t.name, api.TransformOptions{Target: t.t}))
		if !r.quick() || t.name == "es2015" || t.name == "es2017" || t.name == "es2020" {
			vs = append(vs, c05Variant("target="+t.name+",minify", api.TransformOptions{Target: t.t, MinifySyntax: true, MinifyWhitespace: true, MinifyIdentifiers: true}))
		}
	}
	// per-feature overrides on an esnext target
	feats := []string{"class-field", "class-private-field", "class-private-method", "class-private-accessor", "class-private-static-field", "class-private-static-method", "class-private-brand-check", "class-static-field", "class-static-blocks",
		"optional-chain", "nullish-coalescing", "logical-assignment", "exponent-operator", "object-rest-spread", "async-await", "async-generator", "for-await", "optional-catch-binding", "regexp-dot-all-flag", "regexp-named-capture-groups", "bigint", "numeric-separators"}
	// (ES2015 features such as arrow/class/destructuring are not overridden: turning them off is an ES5 target in disguise, which the property excludes)
	for _, f := range feats {
		vs = append(vs, c05Variant("supported:"+f+"=false", api.TransformOptions{Target: api.ESNext, Supported: map[string]bool{f: false}}))
	}
	vs = append(vs, c05Variant("engines=chrome58", api.TransformOptions{Engines: []api.Engine{{Name: api.EngineChrome, Version: "58"}}}),
		c05Variant("engines=node12+safari13", api.TransformOptions{Engines: []api.Engine{{Name: api.EngineNode, Version: "12"}, {Name: api.EngineSafari, Version: "13"}}}),
		c05Variant("engines=firefox60", api.TransformOptions{Engines: []api.Engine{{Name: api.EngineFirefox, Version: "60"}}}))
	return vs
}

func checkC05(r *Run) {
	r.Rule("featgen: ~330 hand-enumerated uses of every lowerable construct (optional chains, ??, logical/exponent assignment, object rest/spread, destructuring, templates, class fields/private/static blocks, async functions, async generators, for-await) with probes as operands " +
		"and this/super/arguments captured; the (parent × child) expression table; generated programs; × targets ES2015…ES2024, ESNext (± minify), 22 per-feature supported:false overrides, 3 engine lists; " +
		"variants for which esbuild reports an error are skipped (the property only speaks about error-free builds); non-trivial = distinct case executed under ≥1 target with events in the reference trace")
	r.Assume("reference = the original program in V8 (Node 20, native support up to ES2023); asynchronous cases run strictly one after another so microtask-turn counts cannot reorder events")
	r.Assume("using / await using and decorators are not covered (V8 11.3 cannot run them natively)")
	var st packStats
	variants := c05Variants(r)
	cases := featgenCases()
	for _, c := range cases {
		r.Nontrivial(c.Body)
	}
	r.Eval(len(cases))
	r.Sample(map[string]string{"case": cases[10].Body, "sig": cases[10].Sig})
	r.Sample(map[string]string{"case": cases[len(cases)-40].Body, "sig": cases[len(cases)-40].Sig})
	// feature cases: small packs so that one unsupported construct does not take a whole pack down for a target
	runPacksWith(r, cases, 40, variants, "lower", nil, &st, featSource)
	r.Count("featgen_cases", len(cases))
	c05Using(r)
	c05Exports(r)

	// the (parent × child) table under a few targets
	rng := newRng(r.Seed, "c05")
	frac := r.pick(4, 1)
	phase := rng.Intn(frac)
	n := 0
	ptab := exprtabPrint(func() bool { n++; return (n+phase)%frac == 0 })
	for _, c := range ptab {
		r.Nontrivial(c.Body)
	}
	r.Eval(len(ptab))
	var tv []packVariant
	for _, t := range c05Targets {
		if r.quick() && !(t.name == "es2015" || t.name == "es2016" || t.name == "es2019" || t.name == "es2021") {
			continue
		}
		tv = append(tv, c05Variant("target="+t.name, api.TransformOptions{Target: t.t}))
	}
	runPacks(r, ptab, 600, tv, "lower", strictRef, &st)
	r.Count("paren_table_cases", len(ptab))

	// generated programs under random targets
	pool := r.Pool()
	nprog := r.pick(1200, 30000)
	var progEvents, progRuns int64
	parallel(nprog, pool.Size(), func(i int) {
		prng := newRng(r.Seed, fmt.Sprint("c05prog", i))
		g := newProgen(prng, progenOpts{Layout: false, NoBigInt: true})
		src := g.Program(8 + prng.Intn(20))
		var outs []Prog
		var names []string
		for j := 0; j < r.pick(3, 6); j++ {
			t := c05Targets[prng.Intn(len(c05Targets))]
			v := c05Variant("target="+t.name, api.TransformOptions{Target: t.t, MinifySyntax: prng.Intn(4) == 0})
			out, errs := v.Compile(src)
			if len(errs) > 0 {
				r.Count("progen_variants_with_errors", 1)
				continue
			}
			outs = append(outs, progScript(out))
			names = append(names, v.Name)
		}
		if len(outs) == 0 {
			return
		}
		res, err := pool.ExecMulti(progScript(src), outs, false)
		if err != nil {
			r.Count("oracle_errors", 1)
			return
		}
		r.Eval(1)
		atomic.AddInt64(&progEvents, int64(res.RefEvents))
		if res.RefEvents > 0 {
			r.Nontrivial(src)
		}
		for vi, cmp := range res.Results {
			atomic.AddInt64(&progRuns, 1)
			if cmp.Equal || cmp.Inconclusive {
				continue
			}
			d := cmp.Diffs[0]
			r.Violation("lower:progen:"+firstDiffSig(d), fmt.Sprintf("generated program behaves differently under %s (term ref=%s out=%s): segment %s ref=%v out=%v", names[vi], cmp.TermA, trunc(cmp.TermB, 120), d.Seg, trunc(fmt.Sprint(d.A), 200), trunc(fmt.Sprint(d.B), 200)),
				map[string]interface{}{"input": src, "variant": names[vi], "output": outs[vi].Files[outs[vi].Entry].Code, "diff": cmp.Diffs})
		}
	})
	r.Count("packs", int(st.packs))
	r.Count("pack_case_executions", int(st.caseRuns))
	r.Count("variants_skipped_because_esbuild_reported_errors", int(st.skippedVariants))
	r.Count("probe_events_ref", int(st.events+progEvents))
	r.Count("variant_outputs_differing_from_input", int(st.rewritten))
	r.Count("progen_programs", nprog)
	r.Count("progen_variant_runs", int(progRuns))
	r.Count("oracle_errors", int(st.oracleErrors))
	if st.caseRuns < int64(len(cases)) || st.rewritten == 0 {
		r.Inconclusive("the lowering workload did not run or never rewrote anything")
	}
}

func replayC05(r *Run, path string) {
	var doc struct {
		Case struct {
			Input string   `json:"input"`
			Case  packCase `json:"case"`
		} `json:"case"`
	}
	if err := readJSON(path, &doc); err != nil {
		r.Inconclusive(err.Error())
		return
	}
	src := doc.Case.Input
	if src == "" {
		src = featSource([]packCase{doc.Case.Case})
	}
	pool := r.Pool()
	r.Tier = "thorough"
	for _, v := range c05Variants(r) {
		out, errs := v.Compile(src)
		if len(errs) > 0 {
			continue
		}
		r.Eval(1)
		pr, err := pool.ExecPair(progScript(src), progScript(out), false, false)
		if err == nil && !pr.Equal {
			r.Violation("lower:replay:"+v.Name, fmt.Sprintf("%s: %v", v.Name, pr.Diffs), map[string]interface{}{"input": src, "output": out})
		}
	}
}
