package main

import (
	"fmt"
	"regexp"
	"sort"
	"strings"
	"sync/atomic"

	"github.com/evanw/esbuild/pkg/api"
)

// mangle-props workload of C15: programs whose objects carry many mangled and unmangled properties at once
// (so a shared name shows up as a wrong value), in every syntactic position a property name can take.

type propCase struct {
	Files     map[string]string      `json:"files"`
	Regex     string                 `json:"mangle_props"`
	Reserve   string                 `json:"reserve_props"`
	Quoted    bool                   `json:"mangle_quoted"`
	CacheIn   map[string]interface{} `json:"mangle_cache_in"`
	Used      []string               `json:"property_names_used"`
	MinifyIDs bool                   `json:"minify_identifiers"`
}

var propMangledNames = []string{"a_", "b_", "e_", "t_", "foo_", "bar_", "x_", "keep_a_", "keep_b_", "_", "x2_"}
var propPlainNames = []string{"a", "b", "c", "e", "t", "n", "r", "k", "v", "foo"}

func propGen(rng *Rng) propCase {
	c := propCase{Files: map[string]string{}, CacheIn: map[string]interface{}{}}
	short := rng.Intn(3) == 0 // the pattern also matches one-letter names
	if short {
		c.Regex = "^[a-z]$|_$"
	} else {
		c.Regex = "_$"
	}
	if rng.Bool() {
		c.Reserve = "^keep_"
	}
	c.Quoted = rng.Bool()
	c.MinifyIDs = rng.Intn(3) == 0
	nm := 3 + rng.Intn(len(propMangledNames)-3)
	np := 2 + rng.Intn(len(propPlainNames)-2)
	ms := append([]string{}, propMangledNames...)
	ps := append([]string{}, propPlainNames...)
	rng.Shuffle(len(ms), func(i, j int) { ms[i], ms[j] = ms[j], ms[i] })
	rng.Shuffle(len(ps), func(i, j int) { ps[i], ps[j] = ps[j], ps[i] })
	ms, ps = ms[:nm], ps[:np]
	all := append(append([]string{}, ms...), ps...)
	c.Used = append([]string{}, all...)
	sort.Strings(c.Used)
	// incoming cache: pinned (false) entries and preset names
	presets := []string{"q", "a", "zz", "b", "e"}
	for _, n := range all {
		switch rng.Intn(7) {
		case 0:
			c.CacheIn[n] = false
		case 1:
			p := rng.Pick(presets)
			taken := false
			for _, v := range c.CacheIn {
				if v == p {
					taken = true
				}
			}
			for _, o := range all {
				if o == p {
					taken = true // a preset equal to a name the program uses would be the user's own collision
				}
			}
			if _, pinned := c.CacheIn[p]; pinned {
				taken = true
			}
			if !taken {
				c.CacheIn[n] = p
			}
		}
	}
	if short && rng.Bool() {
		// pin the names the generator would hand out first
		for _, n := range []string{"a", "b", "c", "d"} {
			isPreset := false
			for _, v := range c.CacheIn {
				if v == n {
					isPreset = true // pinning a name that the same cache hands out would be the user's own contradiction
				}
			}
			if _, ok := c.CacheIn[n]; !ok && !isPreset && rng.Intn(3) != 0 {
				c.CacheIn[n] = false
			}
		}
	}
	u := 5000
	uniq := func() int { u++; return u }
	nfiles := 1 + rng.Intn(2)
	k := 0
	for f := 0; f < nfiles; f++ {
		var b strings.Builder
		if f == 1 {
			b.WriteString("import {shared} from \"./p0.js\";\n")
		}
		// one wide object with every name
		fmt.Fprintf(&b, "var o = {")
		for i, n := range all {
			if i > 0 {
				b.WriteString(", ")
			}
			if c.Quoted && rng.Intn(4) == 0 {
				fmt.Fprintf(&b, "%q: %d", n, uniq())
			} else {
				fmt.Fprintf(&b, "%s: %d", n, uniq())
			}
		}
		b.WriteString("};\n")
		read := func(obj string) {
			k++
			var parts []string
			for _, n := range all {
				switch rng.Intn(5) {
				case 0:
					parts = append(parts, fmt.Sprintf("%s?.%s", obj, n))
				case 1:
					if c.Quoted {
						parts = append(parts, fmt.Sprintf("%s[%q]", obj, n))
					} else {
						parts = append(parts, fmt.Sprintf("%s.%s", obj, n))
					}
				case 2:
					if c.Quoted {
						parts = append(parts, fmt.Sprintf("%q in %s", n, obj))
					} else {
						parts = append(parts, fmt.Sprintf("%s.%s", obj, n))
					}
				default:
					parts = append(parts, fmt.Sprintf("%s.%s", obj, n))
				}
			}
			fmt.Fprintf(&b, "$(\"p%d\", %s);\n", k, strings.Join(parts, ", "))
		}
		read("o")
		// destructuring, with and without renaming, and shorthand through same-named variables
		{
			var items, vars []string
			for i, n := range all {
				if rng.Bool() {
					v := fmt.Sprintf("d%d_%d", f, i)
					items = append(items, fmt.Sprintf("%s: %s", n, v))
					vars = append(vars, v)
				}
			}
			if len(items) > 0 {
				k++
				fmt.Fprintf(&b, "{ let {%s} = o; $(\"p%d\", %s); }\n", strings.Join(items, ", "), k, strings.Join(vars, ", "))
			}
			n1, n2 := rng.Pick(ms), rng.Pick(ps)
			k++
			fmt.Fprintf(&b, "{ let %s = %d, %s = %d; let s = {%s, %s}; $(\"p%d\", s.%s, s.%s); let {%s: w1, %s: w2} = s; $(\"p%d\", w1, w2); }\n", n1, uniq(), n2, uniq(), n1, n2, k, n1, n2, n1, n2, k)
			k++
			fmt.Fprintf(&b, "{ let {%s, %s} = o; $(\"p%d\", %s, %s); }\n", n1, n2, k, n1, n2)
		}
		// class with fields, statics, accessors and methods
		{
			var body []string
			for _, n := range all {
				switch rng.Intn(6) {
				case 0:
					body = append(body, fmt.Sprintf("%s = %d;", n, uniq()))
				case 1:
					body = append(body, fmt.Sprintf("static %s = %d;", n, uniq()))
				case 2:
					body = append(body, fmt.Sprintf("get %s() { return %d; }", n, uniq()))
				case 3:
					body = append(body, fmt.Sprintf("%s() { return %d; }", n, uniq()))
				}
			}
			fmt.Fprintf(&b, "class C%d { %s }\nvar ci = new C%d();\n", f, strings.Join(body, " "), f)
			k++
			var parts []string
			for _, n := range all {
				parts = append(parts, fmt.Sprintf("typeof ci.%s == \"function\" ? ci.%s() : ci.%s, C%d.%s", n, n, n, f, n))
			}
			fmt.Fprintf(&b, "$(\"p%d\", %s);\n", k, strings.Join(parts, ", "))
		}
		// assignment through every access form
		{
			n := rng.Pick(ms)
			fmt.Fprintf(&b, "o.%s = %d; o.%s += 1; o.%s ??= 0;\n", n, uniq(), n, rng.Pick(all))
			read("o")
		}
		if f == 0 {
			fmt.Fprintf(&b, "export var shared = {")
			for i, n := range all {
				if i > 0 {
					b.WriteString(", ")
				}
				fmt.Fprintf(&b, "%s: %d", n, uniq())
			}
			b.WriteString("};\n")
		} else {
			read("shared")
		}
		c.Files[fmt.Sprintf("/p%d.js", f)] = b.String()
	}
	return c
}

func c15Props(r *Run, pool *Pool, st *c15Stats) {
	n := r.pick(300, 8000)
	parallel(n, pool.Size(), func(i int) {
		rng := newRng(r.Seed, fmt.Sprint("c15props", i))
		c := propGen(rng)
		atomic.AddInt64(&st.propBuilds, 1)
		entry := "/p0.js"
		if len(c.Files) > 1 {
			entry = "/p1.js"
		}
		cacheCopy := func(m map[string]interface{}) map[string]interface{} {
			o := map[string]interface{}{}
			for k, v := range m {
				o[k] = v
			}
			return o
		}
		build := func(cache map[string]interface{}) (api.BuildResult, string) {
			opts := api.BuildOptions{EntryPoints: []string{entry}, Bundle: true, Write: false, Outdir: "/out", Format: api.FormatESModule, MangleProps: c.Regex, ReserveProps: c.Reserve, MangleQuoted: api.MangleQuotedFalse,
				MangleCache: cacheCopy(cache), MinifyIdentifiers: c.MinifyIDs, Plugins: []api.Plugin{memPlugin(c.Files)}, Sourcemap: api.SourceMapExternal}
			if c.Quoted {
				opts.MangleQuoted = api.MangleQuotedTrue
			}
			return buildSafe(opts)
		}
		res, pan := build(c.CacheIn)
		if pan != "" {
			r.Violation("rename:props:panic", "esbuild panicked: "+pan, c)
			return
		}
		if len(res.Errors) > 0 {
			r.Count("mangle_props_builds_rejected", 1)
			return
		}
		var out string
		for _, f := range res.OutputFiles {
			if strings.HasSuffix(f.Path, ".js") {
				out = string(f.Contents)
			}
		}
		replay := map[string]interface{}{"case": c, "output": stripTags(out), "mangle_cache_out": res.MangleCache}
		r.Eval(1)
		r.Nontrivial(fmt.Sprint(c.Files, c.Regex, c.CacheIn))
		// (1) behaviour
		ref := Prog{Files: map[string]PFile{}, Entry: entry, Kind: "module"}
		for p, code := range c.Files {
			ref.Files[p] = PFile{Code: code, Kind: "esm"}
		}
		cmp, err := pool.ExecPair(ref, progModule(out), true, false)
		if err != nil {
			r.Count("oracle_errors", 1)
		} else {
			atomic.AddInt64(&st.execRuns, 1)
			atomic.AddInt64(&st.execEvents, int64(cmp.EventsA))
			if !cmp.Equal && !cmp.Inconclusive {
				d := cmp.Diffs[0]
				r.Violation("rename:props:exec", fmt.Sprintf("mangle-props changes behaviour (regex %s, cache %v): segment %s ref=%v out=%v", c.Regex, c.CacheIn, d.Seg, trunc(fmt.Sprint(d.A), 200), trunc(fmt.Sprint(d.B), 200)), replay)
			}
		}
		// (2) tags: symbol <-> name bijection, and agreement with the returned cache
		b, err := pool.Bindcheck(out, "module", map[string]interface{}{})
		if err == nil && b.OK {
			st.addBind(b)
			c15ReportBind(r, "props", b, replay)
			for orig, printed := range b.Mangled {
				atomic.AddInt64(&st.cacheEntries, 1)
				want, ok := res.MangleCache[orig]
				if !ok {
					r.Violation("rename:props:cache-missing-entry", fmt.Sprintf("property %s is printed as %s but the returned mangle cache has no entry for it", orig, printed), replay)
				} else if s, isStr := want.(string); isStr && s != printed {
					r.Violation("rename:props:cache-disagrees", fmt.Sprintf("property %s is printed as %s but the returned mangle cache says %s", orig, printed, s), replay)
				} else if want == false && printed != orig {
					r.Violation("rename:props:pinned-renamed", fmt.Sprintf("property %s is pinned (false) in the mangle cache but printed as %s", orig, printed), replay)
				}
			}
		} else if err == nil {
			r.Violation("rename:props:invalid-output", "output does not parse: "+b.Err, replay)
		}
		// (3) the cache itself: incoming entries kept, reserved names untouched, final names injective over the names the program uses
		for k, v := range c.CacheIn {
			if got, ok := res.MangleCache[k]; !ok || got != v {
				r.Violation("rename:props:cache-entry-not-kept", fmt.Sprintf("incoming mangle cache entry %q: %v came back as %v", k, v, got), replay)
			}
		}
		var reserve *regexp.Regexp
		if c.Reserve != "" {
			reserve = regexp.MustCompile(c.Reserve)
		}
		final := map[string]string{}
		for _, n := range c.Used {
			f := n
			if v, ok := res.MangleCache[n]; ok {
				if s, isStr := v.(string); isStr {
					f = s
					if reserve != nil && reserve.MatchString(n) {
						if _, preset := c.CacheIn[n]; !preset {
							r.Violation("rename:props:reserved-mangled", fmt.Sprintf("property %s matches reserve-props %s but was mangled to %s", n, c.Reserve, s), replay)
						}
					}
				}
			}
			if other, dup := final[f]; dup {
				r.Violation("rename:props:two-properties-one-name", fmt.Sprintf("properties %s and %s both end up named %s (regex %s, incoming cache %v)", other, n, f, c.Regex, c.CacheIn), replay)
			}
			final[f] = n
		}
		for k, v := range res.MangleCache {
			if s, isStr := v.(string); isStr {
				if pin, ok := res.MangleCache[s]; ok && pin == false {
					r.Violation("rename:props:generated-name-is-pinned", fmt.Sprintf("property %s is mangled to %s, a name the cache pins (false)", k, s), replay)
				}
			}
		}
		// (4) a second build seeded with the returned cache reproduces the output
		res2, pan2 := build(res.MangleCache)
		if pan2 == "" && len(res2.Errors) == 0 {
			for _, f := range res2.OutputFiles {
				if strings.HasSuffix(f.Path, ".js") && string(f.Contents) != out {
					r.Violation("rename:props:cache-does-not-reproduce", "a second build seeded with the returned mangle cache names properties differently", replay)
				}
			}
		}
	})
}
