package main

import (
	"strings"
	"unicode"
	"unicode/utf8"
)

// A crude JavaScript tokenizer used only to cut inputs at plausible token boundaries for mutation.
// It does not need to be right: every mutant is judged by the reference parsers afterwards.
func crudeTokens(src string) []string {
	var toks []string
	i := 0
	n := len(src)
	prevSignificant := ""
	for i < n {
		c := src[i]
		start := i
		switch {
		case c == ' ' || c == '\t' || c == '\n' || c == '\r':
			for i < n && (src[i] == ' ' || src[i] == '\t' || src[i] == '\n' || src[i] == '\r') {
				i++
			}
			toks = append(toks, src[start:i])
			continue
		case c == '/' && i+1 < n && src[i+1] == '/':
			for i < n && src[i] != '\n' {
				i++
			}
		case c == '/' && i+1 < n && src[i+1] == '*':
			j := strings.Index(src[i+2:], "*/")
			if j < 0 {
				i = n
			} else {
				i += j + 4
			}
		case c == '"' || c == '\'':
			i++
			for i < n && src[i] != c && src[i] != '\n' {
				if src[i] == '\\' {
					i++
				}
				i++
			}
			if i < n {
				i++
			}
		case c == '`':
			i++
			for i < n && src[i] != '`' {
				if src[i] == '\\' {
					i++
				}
				i++
			}
			if i < n {
				i++
			}
		case c >= '0' && c <= '9' || (c == '.' && i+1 < n && src[i+1] >= '0' && src[i+1] <= '9'):
			for i < n && (isIdentByte(src[i]) || src[i] == '.') {
				if (src[i] == 'e' || src[i] == 'E') && i+1 < n && (src[i+1] == '+' || src[i+1] == '-') {
					i++
				}
				i++
			}
		case isIdentByte(c) || c == '#' || c == '\\' || c >= 0x80:
			for i < n {
				if isIdentByte(src[i]) || src[i] == '\\' || src[i] == '#' {
					i++
				} else if src[i] >= 0x80 {
					r, sz := utf8.DecodeRuneInString(src[i:])
					if r == utf8.RuneError || unicode.IsSpace(r) || r == 0x2028 || r == 0x2029 {
						if i == start {
							i += sz
						}
						break
					}
					i += sz
				} else {
					break
				}
			}
			if i == start {
				i++
			}
		case c == '/':
			// regex or division: guess from the previous significant token
			isRegex := prevSignificant == "" || strings.ContainsAny(prevSignificant[len(prevSignificant)-1:], "(,=:[!&|?{};+-*%<>~^") ||
				prevSignificant == "return" || prevSignificant == "typeof" || prevSignificant == "case" || prevSignificant == "do" || prevSignificant == "else"
			if isRegex {
				i++
				inClass := false
				for i < n && src[i] != '\n' {
					if src[i] == '\\' {
						i += 2
						continue
					}
					if src[i] == '[' {
						inClass = true
					} else if src[i] == ']' {
						inClass = false
					} else if src[i] == '/' && !inClass {
						break
					}
					i++
				}
				if i < n && src[i] == '/' {
					i++
				}
				for i < n && isIdentByte(src[i]) {
					i++
				}
			} else {
				i++
				if i < n && src[i] == '=' {
					i++
				}
			}
		default:
			// punctuators, longest match
			ops := []string{">>>=", "...", "===", "!==", "**=", "<<=", ">>=", ">>>", "&&=", "||=", "??=", "=>", "==", "!=", "<=", ">=", "&&", "||", "??", "?.", "++", "--", "+=", "-=", "*=", "%=", "&=", "|=", "^=", "<<", ">>", "**"}
			matched := false
			for _, op := range ops {
				if strings.HasPrefix(src[i:], op) {
					i += len(op)
					matched = true
					break
				}
			}
			if !matched {
				i++
			}
		}
		if i > n {
			i = n
		}
		t := src[start:i]
		toks = append(toks, t)
		if !strings.HasPrefix(t, "//") && !strings.HasPrefix(t, "/*") {
			prevSignificant = t
		}
	}
	return toks
}

func isIdentByte(c byte) bool {
	return c == '_' || c == '$' || (c >= 'a' && c <= 'z') || (c >= 'A' && c <= 'Z') || (c >= '0' && c <= '9')
}
