package main

import (
	"fmt"
	"os"
	"regexp"
	"strconv"
	"strings"
	"sync/atomic"

	"github.com/evanw/esbuild/pkg/api"
)

func init() { registry["C13"] = checkC13; replayers["C13"] = replayC13 }

type c13Case struct {
	Src    string `json:"src"`
	Loader string `json:"loader"`
	Origin string `json:"origin"`
}

type goalsResp struct {
	Goals map[string]ParseResult `json:"goals"`
}

func refGoals(p *Pool, code string, goals []string) (map[string]ParseResult, error) {
	var r goalsResp
	err := p.Call(map[string]interface{}{"op": "parseGoals", "code": code, "goals": goals}, &r)
	return r.Goals, err
}

func bothAccept(pr ParseResult) bool {
	return pr.Acorn != nil && pr.V8 != nil && pr.Acorn.OK && pr.V8.OK
}
func eitherAccept(pr ParseResult) bool {
	return (pr.Acorn != nil && pr.Acorn.OK) || (pr.V8 != nil && pr.V8.OK)
}
func bothReject(pr ParseResult) bool {
	return pr.Acorn != nil && pr.V8 != nil && !pr.Acorn.OK && !pr.V8.OK
}

var reDigits = regexp.MustCompile(`[0-9]+`)
var reQuoted = regexp.MustCompile(`'[^']*'|"[^"]*"`)

// "0789.5": digits after a leading 0 that include 8 or 9 after an octal digit, followed by a fraction or exponent
var reLegacyDecimalFraction = regexp.MustCompile(`(^|[^0-9A-Za-z_$.])0[0-7]+[89][0-9]*([.eE][0-9])`)
var reASIPostfix = regexp.MustCompile(`(\+\+|--)[ \t]*(?:/\*[^*]*\*/[ \t]*)*\r?\n\s*(?:/\*[^*]*\*/\s*)*([(\[])`)
var reExportStarAsEvalArgs = regexp.MustCompile(`export\s*\*\s*as\s+(arguments|eval)\b`)
var reLetArrow = regexp.MustCompile(`(^|[;{}\s])(let|using)\s*=>`)
var reAsyncAwaitArrow = regexp.MustCompile(`async\s+(await|\\u0061wait)\s*=>`)
var reAwaitIdent = regexp.MustCompile(`(^|[^A-Za-z0-9_$.#\\])(await|\\u0061wait|\\u\{61\}wait)($|[^A-Za-z0-9_$])`)

// usesAwaitIdentifier: does replacing every `await` token by an ordinary name turn the rejected/mis-parsed
// script into one that esbuild handles like the references do? Then the deviation is the (known)
// "esbuild parses every file as a potential module, so `await` is never an identifier at the top level".
func awaitVariants(src string) []string {
	if !reAwaitIdent.MatchString(src) {
		return nil
	}
	toks := crudeTokens(src)
	var idx []int
	prev := ""
	for i, t := range toks {
		if (t == "await" || t == "\\u0061wait" || t == "\\u{61}wait") && prev != "for" {
			idx = append(idx, i)
		}
		if strings.TrimSpace(t) != "" && !strings.HasPrefix(t, "/*") && !strings.HasPrefix(t, "//") {
			prev = t
		}
	}
	if len(idx) > 6 {
		idx = idx[:6]
	}
	var out []string
	// plain textual replacement too (reaches `await` inside template literals, which the crude tokenizer keeps whole)
	out = append(out, reAwaitIdent.ReplaceAllString(reAwaitIdent.ReplaceAllString(src, "${1}awa1t${3}"), "${1}awa1t${3}"))
	for mask := (1 << uint(len(idx))) - 1; mask >= 1; mask-- {
		cp := append([]string{}, toks...)
		for k, i := range idx {
			if mask&(1<<uint(k)) != 0 {
				cp[i] = "awa1t"
			}
		}
		out = append(out, strings.Join(cp, ""))
	}
	return out
}

func normErr(s string) string {
	s = reQuoted.ReplaceAllString(s, "Q")
	s = reDigits.ReplaceAllString(s, "N")
	if i := strings.Index(s, "\n"); i >= 0 {
		s = s[:i]
	}
	return trunc(s, 80)
}

var reAnnexBDup = regexp.MustCompile(`let (\w+)\s*=\s*function[\s\S]*?(?:,|\blet)\s*(\w+)\s*=\s*function`)

var reParenDirective = regexp.MustCompile(`\(\s*(?:/\*[^*]*\*/\s*)*(['"])use strict(['"])\s*(?:/\*[^*]*\*/\s*)*\)`)
var reYieldNewlineRegexp = regexp.MustCompile(`\byield[ \t]*(?:\r\n|\r|\n)\s*/`)

// c13NoFakeDirective respells the string statements that look like "use strict" without being the directive
func c13NoFakeDirective(src string) string {
	s := strings.NewReplacer("use\\x20strict", "use_strict", "use strict\\\n", "use_strict").Replace(src)
	return reParenDirective.ReplaceAllString(s, "(${1}use_strict${2})")
}

var reBlockFunction = regexp.MustCompile(`\{\s*(?:async\s+)?function\b`)

func c13ValidAs(pool *Pool, code, goal string) bool {
	p2, err := pool.Parse(code, goal, 0)
	return err == nil && !bothReject(p2)
}

var reAnnexBLet = regexp.MustCompile(`(?:\blet\s+|,\s*)(\w+)\s*=\s*function\b`)

func annexBDup(out string) bool {
	for _, m := range reAnnexBDup.FindAllStringSubmatch(out, -1) {
		if m[1] == m[2] {
			return true
		}
	}
	// (the pairwise pattern above skips a pair when another converted function precedes it: count the names as well)
	seen := map[string]int{}
	for _, m := range reAnnexBLet.FindAllStringSubmatch(out, -1) {
		seen[m[1]]++
		if seen[m[1]] > 1 {
			return true
		}
	}
	return false
}

var reCommentParens = regexp.MustCompile(`\(\s*\n\s*(/\*|//)`)

func fixedPointSigWith(tc TokCmp, once string) string {
	if tc.ParensOnly && reCommentParens.MatchString(once) {
		return "not-fixed-point:parens-only:after-comment-parens"
	}
	return fixedPointSig(tc)
}

// fixedPointSig names the first differing token pair.
func fixedPointSig(tc TokCmp) string {
	i := tc.At
	if i > 3 {
		i = 3
	}
	a, b := "eof", "eof"
	if i < len(tc.A) {
		a = tc.A[i]
	}
	if i < len(tc.B) {
		b = tc.B[i]
	}
	if tc.ParensOnly {
		return "not-fixed-point:parens-only:" + a + "→" + b
	}
	return "not-fixed-point:" + a + "→" + b
}

// mutSeed seeds the mutant/pair streams. It is fixed by default (see DESIGN.md, C13: the acceptance
// clause has a heavy tail of genuine parser deviations, so the exploring stream is pinned and its
// findings are listed; VERIF_SEED still drives configurations and generated programs).
func mutSeed() uint64 {
	if v := os.Getenv("VERIF_MUTSEED"); v != "" {
		if n, err := strconv.ParseUint(v, 10, 64); err == nil {
			return n
		}
	}
	return 1
}

func c13Inputs(r *Run) []c13Case {
	rng := newRng(mutSeed(), "c13")
	prng := newRng(r.Seed, "c13gen")
	corpus := loadCorpus()
	var js []CorpusItem
	for _, it := range corpus {
		if it.Lang == "js" || it.Lang == "jsx" {
			js = append(js, it)
		}
	}
	var cases []c13Case
	for _, it := range js {
		cases = append(cases, c13Case{Src: it.Src, Loader: it.Lang, Origin: "corpus:" + it.File})
	}
	for _, s := range rareSeeds {
		cases = append(cases, c13Case{Src: s.Src, Loader: "js", Origin: "rare"})
	}
	// literal adjacency table: every interesting code unit followed by every interesting character, in every quoting
	// context, in sloppy and strict code (escapes such as \0 followed by a digit must stay valid in both)
	{
		first := []string{`\0`, `\x00`, `\u0000`, `\u{0}`, `\x01`, `\b`, `\t`, `\n`, `\v`, `\f`, `\r`, `\x1b`, `\x7f`, `\x80`, `\xa0`, `\u2028`, `\u2029`, `\ufeff`, `\ud800`, `\udc00`, `\\`, `\'`, `\"`, "\\`", `$`, `{`, `\u{1F600}`, `\ud83d`, `<`, `</`, `<!-`, `-->`}
		second := []string{"0", "1", "7", "8", "9", "a", "x", "u", "{", `\\`, `\'`, `\"`, "\\`", "$", "${", `\n`, "", `\ude00`, "/script>", "-", "!--"}
		for _, f := range first {
			for _, sn := range second {
				body := f + sn
				lits := []string{`"` + body + `"`, `'` + body + `'`}
				if !strings.Contains(sn, "${") {
					lits = append(lits, "`"+body+"`", "tag`"+body+"`")
				}
				for _, l := range lits {
					cases = append(cases, c13Case{Src: "x = " + l + ";", Loader: "js", Origin: "literal-adjacency"})
					cases = append(cases, c13Case{Src: "export const x = " + l + ";", Loader: "js", Origin: "literal-adjacency"})
					cases = append(cases, c13Case{Src: "class C { m() { return " + l + "; } }", Loader: "js", Origin: "literal-adjacency"})
				}
			}
		}
	}
	// rare seeds under every wrapper
	for _, s := range rareSeeds {
		nw := r.pick(3, len(wrapTemplates))
		for k := 0; k < nw; k++ {
			w := wrapTemplates[(rng.Intn(len(wrapTemplates))+k)%len(wrapTemplates)]
			cases = append(cases, c13Case{Src: w[0] + s.Src + w[1], Loader: "js", Origin: "rare+wrap"})
		}
	}
	// pairs of rare seeds joined by different separators (ASI interactions)
	seps := []string{"\n", ";", ";\n", "\n/**/\n"}
	npairs := r.pick(3000, 60000)
	for k := 0; k < npairs; k++ {
		a, b := rareSeeds[rng.Intn(len(rareSeeds))], rareSeeds[rng.Intn(len(rareSeeds))]
		cases = append(cases, c13Case{Src: a.Src + seps[rng.Intn(len(seps))] + b.Src, Loader: "js", Origin: "rare-pair"})
	}
	// mutations of corpus and seeds
	nmut := r.pick(16000, 400000)
	var jsOnly []CorpusItem
	for _, it := range js {
		if it.Lang == "js" {
			jsOnly = append(jsOnly, it)
		}
	}
	for _, s := range rareSeeds {
		jsOnly = append(jsOnly, CorpusItem{Src: s.Src, Lang: "js"})
	}
	for k := 0; k < nmut; k++ {
		base := jsOnly[rng.Intn(len(jsOnly))]
		cases = append(cases, c13Case{Src: mutate(rng, base.Src, jsOnly), Loader: "js", Origin: "mutant"})
	}
	// generated programs
	ngen := r.pick(1500, 30000)
	for k := 0; k < ngen; k++ {
		g := newProgen(prng.Fork(fmt.Sprint("pg", k)), progenOpts{Layout: true})
		cases = append(cases, c13Case{Src: g.Program(8 + prng.Intn(25)), Loader: "js", Origin: "progen"})
	}
	return cases
}

func loaderOf(s string) api.Loader {
	switch s {
	case "jsx":
		return api.LoaderJSX
	case "ts":
		return api.LoaderTS
	case "tsx":
		return api.LoaderTSX
	}
	return api.LoaderJS
}

type c13Stats struct {
	refAccepted, esbAccepted, validityChecked, fixedPointChecked, configChecked, lenient, v8Only, acornOnly, unjudgeable int64
}

func checkC13(r *Run) {
	pool := r.Pool()
	cases := c13Inputs(r)
	r.Rule("inputs: repo parser/printer test inputs (js, jsx), ~400 rare-production seeds × wrappers × pairs, token-level mutants of both, generated programs; " +
		"non-trivial = distinct input accepted by esbuild without error whose output was judged by the reference parsers (validity) or re-transformed (fixed point)")
	r.Assume("reference grammar = V8 (Node 20) and acorn 8.16 (ecmaVersion latest); an output is invalid only if both reject it in the goal while at least one accepted the input in that goal")
	r.Assume("fixed point is compared as acorn token streams (comments and white space ignored)")
	var st c13Stats
	seen := map[uint64]bool{}
	var uniq []c13Case
	for _, c := range cases {
		h := hash64(c.Loader + "\x00" + c.Src)
		if !seen[h] {
			seen[h] = true
			uniq = append(uniq, c)
		}
	}
	rngCfg := newRng(r.Seed, "c13cfg")
	cfgSeeds := make([]uint64, len(uniq))
	for i := range cfgSeeds {
		cfgSeeds[i] = rngCfg.U64()
	}
	parallel(len(uniq), pool.Size(), func(i int) {
		c13One(r, pool, uniq[i], cfgSeeds[i], &st)
	})
	r.Count("ref_accepted_inputs", int(st.refAccepted))
	r.Count("esbuild_accepted_inputs", int(st.esbAccepted))
	r.Count("validity_checks", int(st.validityChecked))
	r.Count("fixed_point_checks", int(st.fixedPointChecked))
	r.Count("config_variant_checks", int(st.configChecked))
	r.Count("esbuild_more_lenient_than_refs", int(st.lenient))
	r.Count("outputs_rejected_by_v8_only", int(st.v8Only))
	r.Count("outputs_rejected_by_acorn_only", int(st.acornOnly))
	r.Count("outputs_unjudgeable", int(st.unjudgeable))
	if st.validityChecked < int64(r.pick(3000, 30000)) || st.fixedPointChecked < int64(r.pick(3000, 30000)) {
		r.Inconclusive(fmt.Sprintf("too few judged outputs: validity=%d fixed-point=%d", st.validityChecked, st.fixedPointChecked))
	}
}

func c13One(r *Run, pool *Pool, c c13Case, cfgSeed uint64, st *c13Stats) {
	r.Eval(1)
	if len(c.Src) > 1<<16 {
		return
	}
	goals := []string{"script", "module", "cjs"}
	var ref map[string]ParseResult
	var err error
	if c.Loader == "js" {
		ref, err = refGoals(pool, c.Src, goals)
		if err != nil {
			r.Count("oracle_errors", 1)
			return
		}
	}
	refAccScript := ref != nil && bothAccept(ref["script"])
	refAccModule := ref != nil && bothAccept(ref["module"])
	refAccCJS := ref != nil && bothAccept(ref["cjs"])
	if refAccScript || refAccModule || refAccCJS {
		atomic.AddInt64(&st.refAccepted, 1)
	}
	res, pan := transformSafe(c.Src, api.TransformOptions{Loader: loaderOf(c.Loader)})
	if pan != "" {
		return // crashes are C16's business
	}
	if len(res.Errors) > 0 {
		// acceptance: valid for both references in a goal but rejected by esbuild
		if refAccScript || refAccModule {
			goal := "script+module"
			if !refAccModule {
				goal = "script-only"
			} else if !refAccScript {
				goal = "module-only"
			}
			sig := "reject:" + normErr(firstErr(res.Errors)) + ":" + goal
			if goal == "script-only" && reLegacyDecimalFraction.MatchString(c.Src) {
				s2 := reLegacyDecimalFraction.ReplaceAllString(c.Src, "${1}9${2}")
				if r2, _ := transformSafe(s2, api.TransformOptions{Loader: api.LoaderJS}); len(r2.Errors) == 0 {
					sig = "reject:legacy-decimal-with-fraction"
				}
			}
			if !strings.HasPrefix(sig, "reject:legacy") {
				for _, s2 := range awaitVariants(c.Src) {
					r2, _ := transformSafe(s2, api.TransformOptions{Loader: api.LoaderJS})
					if ref2, err := refGoals(pool, s2, []string{"script"}); err == nil && bothAccept(ref2["script"]) && len(r2.Errors) == 0 {
						sig = "reject:await-as-identifier-in-script"
						break
					}
				}
				// a string statement that spells "use strict" only through an escape or a line continuation is not a
				// Use Strict Directive; esbuild treats it as one (cause isolated by spelling the string differently)
				// (likewise a parenthesized string statement)
				if c13NoFakeDirective(c.Src) != c.Src {
					s2 := c13NoFakeDirective(c.Src)
					if r2, _ := transformSafe(s2, api.TransformOptions{Loader: api.LoaderJS}); len(r2.Errors) == 0 {
						sig = "reject:non-directive-use-strict-string"
					}
				}
				if reASIPostfix.MatchString(c.Src) {
					s2 := reASIPostfix.ReplaceAllString(c.Src, "${1};\n${2}")
					r2, _ := transformSafe(s2, api.TransformOptions{Loader: api.LoaderJS})
					if len(r2.Errors) == 0 {
						sig = "reject:asi-after-postfix-update-before-paren"
					}
				}
				if reYieldNewlineRegexp.MatchString(c.Src) {
					// `yield` + line break + a regular expression: the operand-less yield ends at the line break and the regexp starts a
					// new statement; esbuild reads a division
					s2 := reYieldNewlineRegexp.ReplaceAllString(c.Src, "yield;\n/")
					if r2, _ := transformSafe(s2, api.TransformOptions{Loader: api.LoaderJS}); len(r2.Errors) == 0 {
						sig = "reject:yield-line-break-regexp"
					}
				}
				if reLetArrow.MatchString(c.Src) {
					s2 := reLetArrow.ReplaceAllString(c.Src, "${1}(${2})=>")
					r2, _ := transformSafe(s2, api.TransformOptions{Loader: api.LoaderJS})
					if ref2, err := refGoals(pool, s2, []string{"script"}); err == nil && bothAccept(ref2["script"]) && len(r2.Errors) == 0 {
						sig = "reject:let-arrow-parameter-at-statement-start"
					}
				}
			}
			if sig == "reject:"+normErr(firstErr(res.Errors))+":"+goal {
				// two recorded causes in one input (inputs are also pairs of seeds): none of the single rewrites above makes
				// esbuild accept it. Remove every recorded cause that occurs, one after the other; if esbuild accepts the result
				// (or one of its await variants), the rejection is made of recorded causes only and is filed under the first one.
				base, first := c.Src, ""
				apply := func(name, s2 string) {
					if s2 != base {
						base = s2
						if first == "" {
							first = name
						}
					}
				}
				if goal == "script-only" {
					apply("legacy-decimal-with-fraction", reLegacyDecimalFraction.ReplaceAllString(base, "${1}9${2}"))
				}
				apply("non-directive-use-strict-string", c13NoFakeDirective(base))
				apply("asi-after-postfix-update-before-paren", reASIPostfix.ReplaceAllString(base, "${1};\n${2}"))
				apply("let-arrow-parameter-at-statement-start", reLetArrow.ReplaceAllString(base, "${1}(${2})=>"))
				accepted := func(s2 string) bool {
					r2, _ := transformSafe(s2, api.TransformOptions{Loader: api.LoaderJS})
					return len(r2.Errors) == 0
				}
				if first != "" {
					if accepted(base) {
						sig = "reject:" + first
					} else {
						for _, s2 := range awaitVariants(base) {
							if ref2, err := refGoals(pool, s2, []string{"script"}); err == nil && bothAccept(ref2["script"]) && accepted(s2) {
								sig = "reject:" + first
								break
							}
						}
					}
				}
			}
			r.Violation(sig, fmt.Sprintf("esbuild rejects a program that V8 and acorn both accept (%s): %q → %s", goal, trunc(c.Src, 200), firstErr(res.Errors)),
				map[string]interface{}{"kind": "acceptance", "input": c, "goal": goal, "errors": msgTexts(res.Errors)})
		}
		return
	}
	atomic.AddInt64(&st.esbAccepted, 1)
	y := string(res.Code)

	judge := func(code string, goal string, in ParseResult, what string, extra map[string]interface{}) {
		pr, err := pool.Parse(code, goal, 0)
		if err != nil {
			r.Count("oracle_errors", 1)
			return
		}
		switch {
		case bothReject(pr):
			fmtClass := what
			if i := strings.Index(what, ","); i >= 0 {
				fmtClass = what[:i]
			}
			sig := "invalid-output:" + fmtClass + ":" + goal + ":" + normErr(pr.V8.Err)
			inheritedOK := false
			if in.V8 != nil && in.Acorn != nil && !in.V8.OK && !in.Acorn.OK && goal == "module" && ref != nil && eitherAccept(ref["script"]) {
				// The input itself is not a valid module (it is a sloppy-mode script). The defect class
				// "early error of the input carried into the esm output" applies only if the output is
				// still valid in the goal the input was valid in; otherwise the printer broke something else.
				if normErr(in.V8.Err) == normErr(pr.V8.Err) {
					inheritedOK = true
				} else if p2, err := pool.Parse(code, "script", 0); err == nil && !bothReject(p2) {
					inheritedOK = true
				}
			}
			if inheritedOK {
				sig = "invalid-output-inherited:" + fmtClass + ":" + goal + ":" + normErr(pr.V8.Err)
			} else if (strings.Contains(pr.V8.Err, "has already been declared") || strings.Contains(pr.Acorn.Err, "has already been declared")) && annexBDup(code) {
				sig = "invalid-output:annexb-duplicate-block-function"
			} else if goal == "module" && strings.Contains(pr.V8.Err, "has already been declared") && reBlockFunction.MatchString(c.Src) && c13ValidAs(pool, code, "script") {
				// a file without import/export is compiled with script (Annex B) semantics: a block-level function is hoisted to a
				// `var`, which clashes with a same-named top-level declaration only when the output is read as a module
				sig = "invalid-output:annexb-hoisting-applied-in-module-goal"
			} else if strings.Contains(pr.V8.Err, "Invalid destructuring assignment target") && reCommentParens.MatchString(code) {
				sig = "invalid-output:comment-parenthesises-nested-destructuring-target"
			} else if strings.Contains(pr.V8.Err, "eval or arguments") && reExportStarAsEvalArgs.MatchString(c.Src) {
				sig = "invalid-output:export-star-as-eval-or-arguments"
			} else if goal == "script" || goal == "cjs" {
				for _, s2 := range awaitVariants(c.Src) {
					r2, _ := transformSafe(s2, api.TransformOptions{Loader: api.LoaderJS})
					if len(r2.Errors) == 0 {
						if p2, err := pool.Parse(string(r2.Code), goal, 0); err == nil && !bothReject(p2) {
							sig = "invalid-output:await-as-identifier-in-script"
							break
						}
					}
				}
			}
			m := map[string]interface{}{"kind": "validity", "input": c, "goal": goal, "output": code, "v8": pr.V8.Err, "acorn": pr.Acorn.Err, "config": what}
			for k, v := range extra {
				m[k] = v
			}
			r.Violation(sig, fmt.Sprintf("error-free output is not a valid %s: input %q → output %q: V8: %s", goal, trunc(c.Src, 160), trunc(code, 160), pr.V8.Err), m)
		case !pr.V8.OK:
			atomic.AddInt64(&st.v8Only, 1)
		case !pr.Acorn.OK:
			atomic.AddInt64(&st.acornOnly, 1)
		}
	}

	if c.Loader == "js" {
		judged := false
		for _, g := range goals {
			if eitherAccept(ref[g]) {
				if g == "cjs" && eitherAccept(ref["script"]) {
					continue // the script verdict subsumes the function-body one
				}
				judged = true
				atomic.AddInt64(&st.validityChecked, 1)
				judge(y, g, ref[g], "default", nil)
			}
		}
		if !judged {
			atomic.AddInt64(&st.lenient, 1)
			// esbuild accepted something neither reference accepts: only judgeable if some reference accepts the output
			pr, err := refGoals(pool, y, goals)
			if err == nil {
				ok := false
				for _, g := range goals {
					if eitherAccept(pr[g]) {
						ok = true
					}
				}
				if !ok {
					atomic.AddInt64(&st.unjudgeable, 1)
				}
			}
		}
		if judged {
			r.Nontrivial(c.Src)
			r.Sample(map[string]string{"input": trunc(c.Src, 120), "output": trunc(y, 120), "origin": c.Origin})
		}
	}

	// fixed point: T(T(x)) == T(x) as token streams (default options, same loader family)
	reLoader := api.LoaderJS
	if c.Loader == "jsx" {
		reLoader = api.LoaderJS // JSX was transformed away by default
	}
	res2, pan2 := transformSafe(y, api.TransformOptions{Loader: reLoader})
	if pan2 == "" {
		if len(res2.Errors) > 0 {
			rsig := "reparse-error:" + normErr(firstErr(res2.Errors))
			if annexBDup(y) {
				rsig = "invalid-output:annexb-duplicate-block-function"
			} else if reAsyncAwaitArrow.MatchString(c.Src) {
				rsig = "reparse-error:async-await-arrow-parameter"
			}
			if strings.Contains(firstErr(res2.Errors), "Invalid assignment target") && reCommentParens.MatchString(y) {
				rsig = "invalid-output:comment-parenthesises-nested-destructuring-target"
			}
			r.Violation(rsig, fmt.Sprintf("esbuild rejects its own output: input %q → %q: %s", trunc(c.Src, 160), trunc(y, 160), firstErr(res2.Errors)),
				map[string]interface{}{"kind": "fixedpoint-reject", "input": c, "output": y, "errors": msgTexts(res2.Errors)})
		} else {
			z := string(res2.Code)
			if z != y {
				goal := "script"
				if ref != nil && !eitherAccept(ref["script"]) {
					if eitherAccept(ref["module"]) {
						goal = "module"
					} else if eitherAccept(ref["cjs"]) {
						goal = "cjs"
					}
				} else if ref == nil {
					goal = "module"
				}
				tc, err := pool.TokCmp(y, z, goal)
				if err == nil && tc.ErrorA == "" && tc.ErrorB == "" {
					atomic.AddInt64(&st.fixedPointChecked, 1)
					if !tc.Equal {
						r.Violation(fixedPointSigWith(tc, y+"\x00"+z),
							fmt.Sprintf("T(T(x)) differs from T(x) beyond comments: x=%q T(x)=%q T(T(x))=%q", trunc(c.Src, 160), trunc(y, 160), trunc(z, 160)),
							map[string]interface{}{"kind": "fixedpoint", "input": c, "once": y, "twice": z, "tokens_once": tc.A, "tokens_twice": tc.B})
					}
				} else if err == nil && goal == "script" {
					// token comparison impossible in this goal; try module
					tc2, err2 := pool.TokCmp(y, z, "module")
					if err2 == nil && tc2.ErrorA == "" && tc2.ErrorB == "" {
						atomic.AddInt64(&st.fixedPointChecked, 1)
						if !tc2.Equal {
							r.Violation(fixedPointSigWith(tc2, y+"\x00"+z),
								fmt.Sprintf("T(T(x)) differs from T(x) beyond comments: x=%q T(x)=%q T(T(x))=%q", trunc(c.Src, 160), trunc(y, 160), trunc(z, 160)),
								map[string]interface{}{"kind": "fixedpoint", "input": c, "once": y, "twice": z})
						}
					}
				}
			} else {
				atomic.AddInt64(&st.fixedPointChecked, 1)
			}
		}
	}

	// option variants: format × minify-whitespace × charset (two seeded variants per input)
	if c.Loader == "js" {
		rng := &Rng{s: cfgSeed}
		for k := 0; k < 2; k++ {
			format := []api.Format{api.FormatDefault, api.FormatESModule, api.FormatCommonJS, api.FormatIIFE}[rng.Intn(4)]
			opts := api.TransformOptions{Loader: api.LoaderJS, Format: format, MinifyWhitespace: rng.Bool()}
			if rng.Bool() {
				opts.Charset = api.CharsetUTF8
			}
			if rng.Intn(4) == 0 {
				opts.LineLimit = []int{1, 20, 80}[rng.Intn(3)]
			}
			gname := ""
			if format == api.FormatIIFE && rng.Bool() {
				// the global-name prefix is code esbuild writes itself; with and without `||=` available
				gname = []string{"G", "a.b.c", "this.app.api", "this.x", "a[\"b-c\"].d", "ns.\u03c0.x", "globalThis.lib"}[rng.Intn(7)]
				opts.GlobalName = gname
				if rng.Bool() {
					opts.Target = api.ES2019
				}
			}
			rv, pv := transformSafe(c.Src, opts)
			if pv != "" || len(rv.Errors) > 0 {
				continue
			}
			what := fmt.Sprintf("format=%s,minify-ws=%v,charset=%d,line-limit=%d", formatName(format), opts.MinifyWhitespace, opts.Charset, opts.LineLimit)
			if gname != "" {
				what += fmt.Sprintf(",global-name=%s,target=%v", gname, opts.Target == api.ES2019)
			}
			var goalsToCheck []string
			switch format {
			case api.FormatESModule:
				if eitherAccept(ref["module"]) || eitherAccept(ref["script"]) {
					goalsToCheck = []string{"module"}
				}
			case api.FormatCommonJS:
				if eitherAccept(ref["module"]) || eitherAccept(ref["script"]) || eitherAccept(ref["cjs"]) {
					goalsToCheck = []string{"cjs"}
				}
			case api.FormatIIFE:
				if eitherAccept(ref["module"]) || eitherAccept(ref["script"]) {
					goalsToCheck = []string{"script"}
				}
			default:
				for _, g := range goals {
					if eitherAccept(ref[g]) && !(g == "cjs" && eitherAccept(ref["script"])) {
						goalsToCheck = append(goalsToCheck, g)
					}
				}
			}
			for _, g := range goalsToCheck {
				atomic.AddInt64(&st.configChecked, 1)
				judge(string(rv.Code), g, ref[g], what, nil)
			}
		}
	}
}

func replayC13(r *Run, path string) {
	var doc struct {
		Case struct {
			Input c13Case `json:"input"`
		} `json:"case"`
	}
	if err := readJSON(path, &doc); err != nil {
		r.Inconclusive("cannot read replay file: " + err.Error())
		return
	}
	var st c13Stats
	c13One(r, r.Pool(), doc.Case.Input, 1, &st)
}
