package main

// C14, engine targets: esbuild's compat table (internal/compat/js_table.go, generated from the public
// compat-table data) is read as *data* — which engine versions support which feature — and the code that
// interprets it (version parsing and comparison, range semantics, the lowering decisions that follow) is
// monitored: for engine target (e, v) and every transformable feature f that the table says e@v lacks, the
// output must not contain f. Versions are taken at and around every range boundary of the table.

import (
	"fmt"
	"go/ast"
	"go/parser"
	"go/token"
	"path/filepath"
	"sort"
	"strconv"
	"strings"
	"sync"
	"sync/atomic"

	"github.com/evanw/esbuild/pkg/api"
)

type verRange struct {
	Start  [3]int `json:"start"`
	End    [3]int `json:"end"`
	HasEnd bool   `json:"has_end"`
}

func cmpVer(a, b [3]int) int {
	for i := 0; i < 3; i++ {
		if a[i] != b[i] {
			if a[i] < b[i] {
				return -1
			}
			return 1
		}
	}
	return 0
}

// own reading of the table's documented semantics: a range is [start, end)
func verSupported(rs []verRange, v [3]int) bool {
	for _, r := range rs {
		if cmpVer(r.Start, v) <= 0 && (!r.HasEnd || cmpVer(v, r.End) < 0) {
			return true
		}
	}
	return false
}

func litVer(e ast.Expr) ([3]int, bool) {
	var out [3]int
	cl, ok := e.(*ast.CompositeLit)
	if !ok || len(cl.Elts) != 3 {
		return out, false
	}
	for i, x := range cl.Elts {
		bl, ok := x.(*ast.BasicLit)
		if !ok {
			return out, false
		}
		n, err := strconv.Atoi(bl.Value)
		if err != nil {
			return out, false
		}
		out[i] = n
	}
	return out, true
}

// parseCompatTable returns feature(kebab name) -> engine(lower-case name) -> ranges.
func parseCompatTable() (map[string]map[string][]verRange, error) {
	fset := token.NewFileSet()
	f, err := parser.ParseFile(fset, filepath.Join(repoRoot(), "internal", "compat", "js_table.go"), nil, 0)
	if err != nil {
		return nil, err
	}
	kebab := map[string]string{} // Go identifier -> kebab name
	table := map[string]map[string][]verRange{}
	var tableLit *ast.CompositeLit
	ast.Inspect(f, func(n ast.Node) bool {
		vs, ok := n.(*ast.ValueSpec)
		if !ok || len(vs.Names) != 1 || len(vs.Values) != 1 {
			return true
		}
		cl, ok := vs.Values[0].(*ast.CompositeLit)
		if !ok {
			return true
		}
		switch vs.Names[0].Name {
		case "StringToJSFeature":
			for _, e := range cl.Elts {
				if kv, ok := e.(*ast.KeyValueExpr); ok {
					if k, ok := kv.Key.(*ast.BasicLit); ok {
						if id, ok := kv.Value.(*ast.Ident); ok {
							s, _ := strconv.Unquote(k.Value)
							kebab[id.Name] = s
						}
					}
				}
			}
		case "jsTable":
			tableLit = cl
		}
		return true
	})
	if tableLit == nil || len(kebab) == 0 {
		return nil, fmt.Errorf("jsTable / StringToJSFeature not found in js_table.go")
	}
	for _, e := range tableLit.Elts {
		kv, ok := e.(*ast.KeyValueExpr)
		if !ok {
			continue
		}
		fid, ok := kv.Key.(*ast.Ident)
		if !ok {
			continue
		}
		name := kebab[fid.Name]
		if name == "" {
			continue
		}
		engines, ok := kv.Value.(*ast.CompositeLit)
		if !ok {
			continue
		}
		table[name] = map[string][]verRange{}
		for _, ee := range engines.Elts {
			ekv, ok := ee.(*ast.KeyValueExpr)
			if !ok {
				continue
			}
			eid, ok := ekv.Key.(*ast.Ident)
			if !ok {
				continue
			}
			rl, ok := ekv.Value.(*ast.CompositeLit)
			if !ok {
				continue
			}
			var rs []verRange
			for _, re := range rl.Elts {
				rcl, ok := re.(*ast.CompositeLit)
				if !ok {
					continue
				}
				var r verRange
				for _, fe := range rcl.Elts {
					fkv, ok := fe.(*ast.KeyValueExpr)
					if !ok {
						continue
					}
					k, _ := fkv.Key.(*ast.Ident)
					v, ok := litVer(fkv.Value)
					if k == nil || !ok {
						continue
					}
					if k.Name == "start" {
						r.Start = v
					} else if k.Name == "end" {
						r.End = v
						r.HasEnd = true
					}
				}
				rs = append(rs, r)
			}
			table[name][strings.ToLower(eid.Name)] = rs
		}
	}
	return table, nil
}

var c14EngineNames = map[string]api.EngineName{"chrome": api.EngineChrome, "deno": api.EngineDeno, "edge": api.EngineEdge, "firefox": api.EngineFirefox, "hermes": api.EngineHermes,
	"ie": api.EngineIE, "ios": api.EngineIOS, "node": api.EngineNode, "opera": api.EngineOpera, "rhino": api.EngineRhino, "safari": api.EngineSafari}

func verPred(v [3]int) ([3]int, bool) {
	switch {
	case v[2] > 0:
		return [3]int{v[0], v[1], v[2] - 1}, true
	case v[1] > 0:
		return [3]int{v[0], v[1] - 1, 99}, true
	case v[0] > 0:
		return [3]int{v[0] - 1, 99, 99}, true
	}
	return v, false
}

func verText(v [3]int, style int) string {
	switch {
	case style == 1 && v[2] == 0:
		return fmt.Sprintf("%d.%d", v[0], v[1])
	case style == 2 && v[2] == 0 && v[1] == 0:
		return fmt.Sprintf("%d", v[0])
	}
	return fmt.Sprintf("%d.%d.%d", v[0], v[1], v[2])
}

func c14Engines(r *Run, pool *Pool, st *c14Stats) {
	table, err := parseCompatTable()
	if err != nil {
		r.Inconclusive("compat table unreadable: " + err.Error())
		return
	}
	// transformable features with a detector (bigint / import-meta are documented pass-throughs with a warning)
	feats := []string{"class-field", "class-private-field", "class-private-method", "class-private-accessor", "class-private-static-field", "class-private-static-method", "class-private-static-accessor", "class-private-brand-check", "class-static-field", "class-static-blocks",
		"optional-chain", "nullish-coalescing", "logical-assignment", "exponent-operator", "object-rest-spread", "async-await", "async-generator", "for-await", "optional-catch-binding", "numeric-separators",
		"regexp-dot-all-flag", "regexp-named-capture-groups", "regexp-lookbehind-assertions", "regexp-unicode-property-escapes", "regexp-match-indices", "regexp-set-notation", "dynamic-import"}
	isFeat := map[string]bool{}
	for _, f := range feats {
		isFeat[f] = true
	}
	// boundary versions per engine
	type point struct {
		engine string
		v      [3]int
		style  int
	}
	seen := map[string]bool{}
	var points []point
	addPoint := func(e string, v [3]int) {
		k := fmt.Sprint(e, v)
		if !seen[k] {
			seen[k] = true
			points = append(points, point{e, v, len(points) % 3})
		}
	}
	for _, f := range feats {
		for e, rs := range table[f] {
			if _, ok := c14EngineNames[e]; !ok {
				continue
			}
			for _, rg := range rs {
				addPoint(e, rg.Start)
				if p, ok := verPred(rg.Start); ok {
					addPoint(e, p)
				}
				addPoint(e, [3]int{rg.Start[0], rg.Start[1], rg.Start[2] + 1})
				if rg.HasEnd {
					addPoint(e, rg.End)
					if p, ok := verPred(rg.End); ok {
						addPoint(e, p)
					}
					addPoint(e, [3]int{rg.End[0], rg.End[1], rg.End[2] + 1})
				}
			}
		}
	}
	sort.Slice(points, func(i, j int) bool {
		if points[i].engine != points[j].engine {
			return points[i].engine < points[j].engine
		}
		return cmpVer(points[i].v, points[j].v) < 0
	})
	rng := newRng(r.Seed, "c14engines")
	if r.quick() {
		// seeded third of the boundary points, but every point that sits on the end of a bounded range
		var sel []point
		for _, p := range points {
			onEnd := false
			for _, f := range feats {
				for _, rg := range table[f][p.engine] {
					if rg.HasEnd && cmpVer(rg.End, p.v) == 0 {
						onEnd = true
					}
				}
			}
			if onEnd || rng.Intn(3) == 0 {
				sel = append(sel, p)
			}
		}
		points = sel
	}
	// inputs: featgen chunks (an error in one chunk does not hide the others) + module-level forms
	type unit struct {
		src   string
		fmtv  api.Format
		goal  string
		feats map[string]int
		parts []string
	}
	var units []unit
	feat := featgenCases()
	for i := 0; i < len(feat); i += 8 {
		j := i + 8
		if j > len(feat) {
			j = len(feat)
		}
		u := unit{src: featSource(feat[i:j]), goal: "script"}
		for k := i; k < j; k++ {
			u.parts = append(u.parts, featSource(feat[k:k+1]))
		}
		units = append(units, u)
	}
	units = append(units, unit{src: "exports.f = function (p) { return import(p).then(function (m) { return m.default; }); };\nexports.g = function () { return import('./other.js'); };\n", fmtv: api.FormatCommonJS, goal: "cjs"})
	units = append(units, unit{src: "var r1 = /a.b/s, r2 = /(?<n>x)\\k<n>/, r3 = /(?<=a)b/, r4 = /\\p{L}/u, r5 = /a/d, r6 = /[\\p{L}--[a-z]]/v, big = 1_000_000;\ntry { r1.exec('') } catch { }\n$(r1, r2, r3, r4, r5, r6, big);\n", goal: "script"})
	type featRes struct {
		OK       bool           `json:"ok"`
		Features map[string]int `json:"features"`
	}
	for i := range units {
		var fr featRes
		if err := pool.Call(map[string]interface{}{"op": "features", "code": units[i].src, "goal": units[i].goal}, &fr); err == nil && fr.OK {
			units[i].feats = fr.Features
		}
	}
	var builds, obligations, withErrors, partsAlone int64
	var smu sync.Mutex
	sampled := 0
	type job struct {
		p point
		u int
	}
	var jobs []job
	for _, p := range points {
		for u := range units {
			if len(units[u].feats) > 0 {
				jobs = append(jobs, job{p, u})
			}
		}
	}
	parallel(len(jobs), pool.Size(), func(i int) {
		jb := jobs[i]
		u := units[jb.u]
		vt := verText(jb.p.v, jb.p.style)
		var one func(src string, feats map[string]int, whole bool)
		one = func(src string, feats map[string]int, whole bool) {
			res, pan := transformSafe(src, api.TransformOptions{Loader: api.LoaderJS, Format: u.fmtv, Engines: []api.Engine{{Name: c14EngineNames[jb.p.engine], Version: vt}}})
			atomic.AddInt64(&builds, 1)
			r.Eval(1)
			if pan != "" {
				return
			}
			if len(res.Errors) > 0 {
				atomic.AddInt64(&withErrors, 1)
				if whole {
					// a case the engine cannot express makes esbuild refuse the unit: its cases are compiled one by one
					for _, p := range u.parts {
						var fr featRes
						if err := pool.Call(map[string]interface{}{"op": "features", "code": p, "goal": u.goal}, &fr); err == nil && fr.OK {
							atomic.AddInt64(&partsAlone, 1)
							one(p, fr.Features, false)
						}
					}
				}
				return
			}
			var lacking []string
			for f := range feats {
				if isFeat[f] && feats[f] > 0 && !verSupported(table[f][jb.p.engine], jb.p.v) {
					lacking = append(lacking, f)
				}
			}
			if len(lacking) == 0 {
				return
			}
			sort.Strings(lacking)
			var fr featRes
			if err := pool.Call(map[string]interface{}{"op": "features", "code": string(res.Code), "goal": u.goal}, &fr); err != nil || !fr.OK {
				r.Count("engine_outputs_not_parseable(C13 matter)", 1)
				return
			}
			r.Nontrivial(fmt.Sprint("engine", jb.p.engine, jb.p.v, hash64(src)))
			for _, f := range lacking {
				atomic.AddInt64(&obligations, 1)
				if fr.Features[f] > 0 {
					r.Violation("engine-target-syntax:"+f+":"+jb.p.engine, fmt.Sprintf("target %s%s: the compat table says this version lacks %s (ranges %v) but the output still contains %d use(s) of it and no error was reported", jb.p.engine, vt, f, table[f][jb.p.engine], fr.Features[f]),
						map[string]interface{}{"engine": jb.p.engine, "version": vt, "feature": f, "table_ranges": table[f][jb.p.engine], "input": src, "output": string(res.Code), "warnings": len(res.Warnings)})
				}
			}
			smu.Lock()
			if sampled < 2 {
				sampled++
				r.Sample(map[string]interface{}{"kind": "engine-target", "engine": jb.p.engine, "version": vt, "features_the_table_says_are_missing": lacking, "input_head": trunc(src, 160)})
			}
			smu.Unlock()
		}
		one(u.src, u.feats, true)
	})
	r.Count("engine_target_cases_compiled_alone_after_their_unit_was_refused", int(partsAlone))
	r.Count("engine_target_points", len(points))
	r.Count("engine_target_builds", int(builds))
	r.Count("engine_target_builds_with_reported_errors_skipped", int(withErrors))
	r.Count("engine_target_feature_obligations", int(obligations))
	atomic.AddInt64(&st.builds, builds)
	if obligations < int64(r.pick(500, 3000)) {
		r.Inconclusive(fmt.Sprintf("only %d engine-target obligations were checked", obligations))
	}
}
