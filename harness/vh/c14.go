package main

import (
	"fmt"
	"os"
	"sort"
	"strings"
	"sync/atomic"

	"github.com/evanw/esbuild/pkg/api"
)

func init() { registry["C14"] = checkC14 }

type gateResult struct {
	LatestOK      bool           `json:"latest_ok"`
	OK            bool           `json:"ok"`
	Err           string         `json:"err"`
	Around        string         `json:"around"`
	Features      map[string]int `json:"features"`
	TopLevelAwait bool           `json:"topLevelAwait"`
	Passthrough   int            `json:"passthrough"`
}

func (p *Pool) Gate(code, goal string, year int) (gateResult, error) {
	var g gateResult
	err := p.Call(map[string]interface{}{"op": "gate", "code": code, "goal": goal, "year": year}, &g)
	return g, err
}

type c14Target struct {
	name string
	t    api.Target
	year int
}

var c14Targets = []c14Target{{"es2015", api.ES2015, 2015}, {"es2016", api.ES2016, 2016}, {"es2017", api.ES2017, 2017}, {"es2018", api.ES2018, 2018}, {"es2019", api.ES2019, 2019},
	{"es2020", api.ES2020, 2020}, {"es2021", api.ES2021, 2021}, {"es2022", api.ES2022, 2022}, {"es2023", api.ES2023, 2023}, {"es2024", api.ES2024, 2024}}

// year in which a pass-through feature entered the language
var passthroughYear = map[string]int{"bigint": 2020, "dynamic-import": 2020, "import-meta": 2020}
var passthroughWarning = map[string]string{"bigint": "Big integer literals are not available", "dynamic-import": "import()", "import-meta": "\"import.meta\" is not available"}

type c14Stats struct{ builds, gated, errorsReported, overrideChecks, passthroughSeen, partsAfterError int64 }

func c14Check(r *Run, pool *Pool, st *c14Stats, src string, what string, tgt c14Target, out string, goal string, warnings []api.Message, replay map[string]interface{}) {
	g, err := pool.Gate(out, goal, tgt.year)
	if err != nil {
		r.Count("oracle_errors", 1)
		return
	}
	if !g.LatestOK {
		r.Count("outputs_not_parseable_at_latest(C13 matter)", 1)
		if os.Getenv("VERIF_ALL") != "" {
			fmt.Printf("  not-parseable-at-latest: %s near %q\n", g.Err, g.Around)
		}
		return
	}
	atomic.AddInt64(&st.gated, 1)
	if !g.OK {
		replay["output"] = out
		replay["acorn_error"] = g.Err
		replay["around"] = g.Around
		replay["features_in_output"] = g.Features
		needs := "later"
		for y := tgt.year + 1; y <= 2025; y++ {
			if g2, err := pool.Gate(out, goal, y); err == nil && g2.OK {
				needs = fmt.Sprint("es", y)
				break
			}
		}
		errClass := g.Err
		if i := strings.LastIndex(errClass, " ("); i > 0 {
			errClass = errClass[:i]
		}
		replay["needs"] = needs
		r.Violation("target-syntax:"+what+":needs-"+needs+":"+errClass, fmt.Sprintf("output for target %s (%s) is rejected by acorn at ecmaVersion %d: %s near %q", tgt.name, what, tgt.year, g.Err, g.Around), replay)
		return
	}
	for f, y := range passthroughYear {
		if g.Features[f] > 0 && tgt.year < y {
			atomic.AddInt64(&st.passthroughSeen, 1)
			warned := false
			for _, w := range warnings {
				if strings.Contains(w.Text, passthroughWarning[f]) {
					warned = true
				}
			}
			if !warned {
				replay["output"] = out
				r.Violation("passthrough-without-diagnostic:"+f, fmt.Sprintf("output for target %s contains %s (ES%d) and esbuild reported neither an error nor a warning about it", tgt.name, f, y), replay)
			}
		}
	}
}

func checkC14(r *Run) {
	pool := r.Pool()
	r.Rule("every construct table of C05/C01/C03 (featgen, parent×child, minifier tables) and generated programs, compiled for targets ES2015…ES2024 × minify subsets × formats, plus bundled mixed ESM/CJS graphs (runtime helpers and wrappers); " +
		"each error-free output is parsed by acorn at the target's ecmaVersion after blanking the documented pass-through nodes (dynamic import, bigint literal, import.meta); supported:false overrides are checked with an AST feature detector; " +
		"non-trivial = distinct (input, target, options) whose output was gated")
	r.Assume("acorn's ecmaVersion gating is an independent reading of which syntax belongs to which edition")
	r.Assume("engine targets: the contents of internal/compat/js_table.go (generated from public compat-table data) are taken as data and read with the documented [start, end) range semantics; what is monitored is the code that interprets them (version parsing/comparison, lowering decisions), at and around every range boundary")
	var st c14Stats
	rng := newRng(r.Seed, "c14")

	type unit struct {
		src   string
		what  string
		parts []string // the unit's cases one by one: compiled separately when the unit as a whole is refused with an error
	}
	var units []unit
	feat := featgenCases()
	for i := 0; i < len(feat); i += 8 {
		j := i + 8
		if j > len(feat) {
			j = len(feat)
		}
		u := unit{src: featSource(feat[i:j]), what: "featgen"}
		for k := i; k < j; k++ {
			u.parts = append(u.parts, featSource(feat[k:k+1]))
		}
		units = append(units, u)
	}
	n := 0
	frac := r.pick(6, 1)
	phase := rng.Intn(frac)
	ptab := exprtabPrint(func() bool { n++; return (n+phase)%frac == 0 })
	for i := 0; i < len(ptab); i += 100 {
		j := i + 100
		if j > len(ptab) {
			j = len(ptab)
		}
		units = append(units, unit{src: strictRef(packSource(ptab[i:j])), what: "paren-table"})
	}
	m := 0
	frac2 := r.pick(20, 2)
	mtab := exprtabMinify(func(int) bool { m++; return (m+phase)%frac2 == 0 })
	for i := 0; i < len(mtab); i += 200 {
		j := i + 200
		if j > len(mtab) {
			j = len(mtab)
		}
		units = append(units, unit{src: packSource(mtab[i:j]), what: "minify-table"})
	}
	for i := 0; i < r.pick(600, 6000); i++ {
		g := newProgen(newRng(r.Seed, fmt.Sprint("c14prog", i)), progenOpts{})
		units = append(units, unit{src: g.Program(10 + i%15), what: "progen"})
	}
	type job struct {
		u      unit
		tgt    c14Target
		minify int
		format api.Format
	}
	var jobs []job
	for _, u := range units {
		k := r.pick(6, 10)
		for j := 0; j < k; j++ {
			jobs = append(jobs, job{u, c14Targets[(rng.Intn(len(c14Targets))+j)%len(c14Targets)], rng.Intn(8), []api.Format{api.FormatDefault, api.FormatESModule, api.FormatCommonJS, api.FormatIIFE}[rng.Intn(4)]})
		}
	}
	r.Sample(map[string]string{"input": trunc(units[3].src, 300), "kind": units[3].what})
	parallel(len(jobs), pool.Size(), func(i int) {
		jb := jobs[i]
		opts := api.TransformOptions{Loader: api.LoaderJS, Target: jb.tgt.t, Format: jb.format, MinifyWhitespace: jb.minify&1 != 0, MinifySyntax: jb.minify&2 != 0, MinifyIdentifiers: jb.minify&4 != 0}
		goal := "script"
		if jb.format == api.FormatESModule {
			goal = "module"
		} else if jb.format == api.FormatCommonJS {
			goal = "cjs"
		}
		what := fmt.Sprintf("%s,minify=%d,format=%s", jb.u.what, jb.minify, formatName(jb.format))
		one := func(src string) bool {
			res, pan := transformSafe(src, opts)
			atomic.AddInt64(&st.builds, 1)
			r.Eval(1)
			if pan != "" {
				return true
			}
			if len(res.Errors) > 0 {
				atomic.AddInt64(&st.errorsReported, 1)
				return false
			}
			r.Nontrivial(fmt.Sprint(hash64(src), jb.tgt.name, jb.minify, jb.format))
			c14Check(r, pool, &st, src, jb.u.what, jb.tgt, string(res.Code), goal, res.Warnings, map[string]interface{}{"input": src, "target": jb.tgt.name, "options": what})
			return true
		}
		if !one(jb.u.src) {
			// one case that the target cannot express makes esbuild refuse the whole unit; the other cases
			// of the unit are then compiled one by one so that an error here cannot hide a missing error there
			for _, p := range jb.u.parts {
				if one(p) {
					atomic.AddInt64(&st.partsAfterError, 1)
				}
			}
		}
	})

	// bundles: helpers and wrappers
	graph := map[string]string{
		"/entry.js":  "import d, {named} from './cjs.js'; import * as ns from './esm.js'; import j from './data.json'; export {ns, j}; export * from './esm2.js'; const m = await import('./lazy.js'); class K { static #p = d?.x ?? named; static { K.q = ns.a ** 2; } } export default [K, m, ...(function*(){ yield* [1] })()]; export const o = {...ns, async *g() { for await (const x of [1]) yield x; }}; try { require('./cjs2.js'); } catch { o.z ||= 1n; }",
		"/cjs.js":    "exports.named = 1; module.exports.x = class { a = 1; #b; static c; }; exports.f = async () => { var {a, ...r} = exports; return r?.x; };",
		"/cjs2.js":   "const e = require('./esm.js'); module.exports = {...e, k: e.a ?? 2};",
		"/esm.js":    "export let a = 1; export function setA(v) { a = v; } export default class { static { a **= 2; } }",
		"/esm2.js":   "export * as star from './esm.js'; export const b = 2; import.meta.url;",
		"/lazy.js":   "export default async function*() { yield* [await 1]; }; export const re = /(?<n>a)/su;",
		"/data.json": `{"a": [1, 2, {"b": null}], "c d": "é"}`,
	}
	graphNoTLA := map[string]string{}
	for k, v := range graph {
		graphNoTLA[k] = strings.Replace(v, "await import(", "import(", 1)
	}
	bundleJobs, iifeJobs, bundleErrors := 0, 0, 0
	bundleOK := map[string]int{}
	for _, tgt := range c14Targets {
		for _, format := range []api.Format{api.FormatESModule, api.FormatCommonJS, api.FormatIIFE} {
			for _, minify := range []bool{false, true} {
				for _, splitting := range []bool{false, true} {
					if splitting && format != api.FormatESModule {
						continue
					}
					bundleJobs++
					g, globalName := graph, ""
					if format != api.FormatESModule || tgt.year < 2022 {
						// top-level await is an error in the wrapped formats whatever the target, and below ES2022 in every
						// format: those bundles use the same graph without it
						g = graphNoTLA
					}
					if format == api.FormatIIFE {
						globalName = []string{"G", "My.lib.core", "this.app.api", "a[\"b-c\"].d", "import.meta.x.y"}[iifeJobs%5]
						iifeJobs++
					}
					res, pan := buildSafe(api.BuildOptions{EntryPoints: []string{"/entry.js"}, Bundle: true, Write: false, Outdir: "/out", Format: format, Target: tgt.t, Splitting: splitting,
						MinifyWhitespace: minify, MinifySyntax: minify, MinifyIdentifiers: minify, Plugins: []api.Plugin{memPlugin(g)}, Platform: api.PlatformNode,
						GlobalName: globalName})
					r.Eval(1)
					atomic.AddInt64(&st.builds, 1)
					if pan != "" {
						continue
					}
					if len(res.Errors) > 0 {
						atomic.AddInt64(&st.errorsReported, 1)
						bundleErrors++
						if os.Getenv("VERIF_ALL") != "" {
							fmt.Printf("  bundle error (%s, %s): %s\n", tgt.name, formatName(format), res.Errors[0].Text)
						}
						continue
					}
					bundleOK[formatName(format)]++
					goal := "module"
					if format == api.FormatCommonJS {
						goal = "cjs"
					} else if format == api.FormatIIFE {
						goal = "script"
					}
					for _, f := range res.OutputFiles {
						if !strings.HasSuffix(f.Path, ".js") {
							continue
						}
						what := fmt.Sprintf("bundle,format=%s,minify=%v,splitting=%v", formatName(format), minify, splitting)
						r.Nontrivial(fmt.Sprint("bundle", tgt.name, what, f.Path))
						c14Check(r, pool, &st, "bundle graph", "bundle", tgt, string(f.Contents), goal, res.Warnings, map[string]interface{}{"graph": graph, "target": tgt.name, "options": what, "file": f.Path})
					}
				}
			}
		}
	}

	// supported overrides, both directions
	feats := []string{"class-field", "class-private-field", "class-private-method", "class-private-accessor", "class-private-static-field", "class-private-static-method", "class-private-brand-check", "class-static-field", "class-static-blocks",
		"optional-chain", "nullish-coalescing", "logical-assignment", "exponent-operator", "object-rest-spread", "async-await", "async-generator", "for-await", "optional-catch-binding", "bigint", "numeric-separators", "regexp-dot-all-flag", "regexp-named-capture-groups"}
	all := featSource(feat)
	gin, _ := pool.Gate(all, "script", 2024)
	for _, f := range feats {
		atomic.AddInt64(&st.overrideChecks, 1)
		r.Eval(1)
		res, _ := transformSafe(all, api.TransformOptions{Loader: api.LoaderJS, Target: api.ESNext, Supported: map[string]bool{f: false}})
		if len(res.Errors) == 0 {
			var fr struct {
				OK       bool           `json:"ok"`
				Features map[string]int `json:"features"`
			}
			if err := pool.Call(map[string]interface{}{"op": "features", "code": string(res.Code), "goal": "script"}, &fr); err == nil && fr.OK && fr.Features[f] > 0 {
				r.Violation("supported-false-not-honoured:"+f, fmt.Sprintf("supported:{%s:false} — the output still contains %d use(s) of the feature and no error was reported", f, fr.Features[f]), map[string]interface{}{"feature": f, "input": "featSource(all cases)", "output_excerpt": trunc(string(res.Code), 2000)})
			} else if err == nil && !fr.OK {
				// the output does not even parse at the latest edition: typically a dependent construct was left behind inside lowered code
				pr, _ := pool.Parse(string(res.Code), "script", 0)
				r.Violation("supported-false-output-invalid:"+f, fmt.Sprintf("supported:{%s:false} — the output is not valid JavaScript (acorn: %s; V8: %s)", f, errOf(pr.Acorn), errOf(pr.V8)), map[string]interface{}{"feature": f, "output_excerpt": trunc(string(res.Code), 3000)})
			} else if err == nil && fr.OK {
				// constructs that cannot exist without the feature must be gone too
				for _, dep := range map[string][]string{"async-await": {"for-await", "async-generator"}, "class-field": {}, "class-private-field": {}}[f] {
					if fr.Features[dep] > 0 {
						r.Violation("supported-false-not-honoured:"+f+"⇒"+dep, fmt.Sprintf("supported:{%s:false} — the output still contains %s, which cannot be used without it", f, dep), map[string]interface{}{"feature": f, "dependent": dep})
					}
				}
			}
			r.Nontrivial("override-false:" + f)
		} else {
			atomic.AddInt64(&st.errorsReported, 1)
		}
		if gin.Features[f] > 0 {
			res2, _ := transformSafe(all, api.TransformOptions{Loader: api.LoaderJS, Target: api.ES2015, Supported: map[string]bool{f: true}})
			if len(res2.Errors) == 0 {
				var fr struct {
					OK       bool           `json:"ok"`
					Features map[string]int `json:"features"`
				}
				if err := pool.Call(map[string]interface{}{"op": "features", "code": string(res2.Code), "goal": "script"}, &fr); err == nil && fr.OK && fr.Features[f] == 0 {
					r.Violation("supported-true-not-honoured:"+f, fmt.Sprintf("target=es2015 with supported:{%s:true} — every use of the feature was lowered anyway", f), map[string]interface{}{"feature": f})
				}
				r.Nontrivial("override-true:" + f)
			}
		}
	}
	c14Engines(r, pool, &st)
	var fl []string
	for k := range gin.Features {
		fl = append(fl, k)
	}
	sort.Strings(fl)
	r.Extra("features_present_in_inputs", fl)
	r.Count("cases_compiled_alone_after_their_unit_was_refused", int(st.partsAfterError))
	r.Count("bundles_with_reported_errors_skipped", bundleErrors)
	r.Extra("bundles_checked_by_format", bundleOK)
	for _, f := range []string{"esm", "cjs", "iife"} {
		if bundleOK[f] == 0 {
			r.Inconclusive("no " + f + " bundle built without errors: helper and wrapper code for that format was not observed")
		}
	}
	r.Count("builds", int(st.builds))
	r.Count("outputs_gated_by_acorn", int(st.gated))
	r.Count("builds_with_reported_errors_skipped", int(st.errorsReported))
	r.Count("override_checks", int(st.overrideChecks))
	r.Count("passthrough_features_seen_below_their_year", int(st.passthroughSeen))
	r.Count("bundle_builds", bundleJobs)
	if st.gated < int64(r.pick(500, 5000)) {
		r.Inconclusive(fmt.Sprintf("only %d outputs were gated", st.gated))
	}
}

func errOf(v *ParseVerdict) string {
	if v == nil {
		return "n/a"
	}
	if v.OK {
		return "accepts"
	}
	return v.Err
}
