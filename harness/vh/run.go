package main

import (
	"bufio"
	"crypto/sha256"
	"encoding/hex"
	"encoding/json"
	"fmt"
	"hash/fnv"
	"os"
	"path/filepath"
	"regexp"
	"sort"
	"sync"
	"time"
)

func verifRoot() string {
	if v := os.Getenv("VERIF_ROOT"); v != "" {
		return v
	}
	return "/verif"
}

type knownFinding struct {
	Status   string `json:"status"` // "known" | "fixed"
	Property string `json:"property"`
	Match    string `json:"match"` // regexp over the violation signature
	What     string `json:"what"`
	Commit   string `json:"commit,omitempty"`
	re       *regexp.Regexp
}

type Run struct {
	ID, Tier   string
	Seed       uint64
	Start      time.Time
	replayMode bool

	mu           sync.Mutex
	evals        int64
	distinct     map[uint64]struct{}
	rule         string
	samples      []interface{}
	maxSamples   int
	counters     map[string]int64
	extra        map[string]interface{}
	assumptions  []string
	violations   int
	violSigs     map[string]bool
	knownHits    map[string]int
	inconclusive []string
	known        []knownFinding
	exhaustive   bool
	pool         *Pool
}

func newRun(id, tier string, seed uint64) *Run {
	r := &Run{ID: id, Tier: tier, Seed: seed, Start: time.Now(), distinct: map[uint64]struct{}{}, counters: map[string]int64{},
		extra: map[string]interface{}{}, violSigs: map[string]bool{}, knownHits: map[string]int{}, maxSamples: 6}
	f, err := os.Open(filepath.Join(verifRoot(), "known_findings.jsonl"))
	if err == nil {
		defer f.Close()
		sc := bufio.NewScanner(f)
		sc.Buffer(make([]byte, 1<<20), 1<<20)
		for sc.Scan() {
			line := sc.Bytes()
			if len(line) == 0 || line[0] != '{' {
				continue
			}
			var k knownFinding
			if json.Unmarshal(line, &k) == nil && k.Property == id && k.Status == "known" && k.Match != "" {
				if re, err := regexp.Compile(k.Match); err == nil {
					k.re = re
					r.known = append(r.known, k)
				}
			}
		}
	}
	return r
}

func (r *Run) quick() bool { return r.Tier == "quick" }

// pick returns q in the quick tier and t in the thorough tier.
func (r *Run) pick(q, t int) int {
	if r.quick() {
		return q
	}
	return t
}

func (r *Run) Pool() *Pool {
	r.mu.Lock()
	defer r.mu.Unlock()
	if r.pool == nil {
		r.pool = newPool(0)
	}
	return r.pool
}

func (r *Run) Eval(n int) {
	r.mu.Lock()
	r.evals += int64(n)
	r.mu.Unlock()
}

func hash64(s string) uint64 {
	h := fnv.New64a()
	h.Write([]byte(s))
	return h.Sum64()
}

// Nontrivial records one distinct non-trivial case (identified by key).
func (r *Run) Nontrivial(key string) {
	h := hash64(key)
	r.mu.Lock()
	r.distinct[h] = struct{}{}
	r.mu.Unlock()
}

func (r *Run) Rule(s string) { r.rule = s }

func (r *Run) Sample(v interface{}) {
	r.mu.Lock()
	if len(r.samples) < r.maxSamples {
		r.samples = append(r.samples, v)
	}
	r.mu.Unlock()
}

func (r *Run) Count(name string, n int) {
	r.mu.Lock()
	r.counters[name] += int64(n)
	r.mu.Unlock()
}

func (r *Run) Counter(name string) int64 {
	r.mu.Lock()
	defer r.mu.Unlock()
	return r.counters[name]
}

func (r *Run) Extra(name string, v interface{}) {
	r.mu.Lock()
	r.extra[name] = v
	r.mu.Unlock()
}

func (r *Run) Assume(s string) {
	r.mu.Lock()
	for _, a := range r.assumptions {
		if a == s {
			r.mu.Unlock()
			return
		}
	}
	r.assumptions = append(r.assumptions, s)
	r.mu.Unlock()
}

func (r *Run) Inconclusive(msg string) {
	r.mu.Lock()
	if len(r.inconclusive) < 50 {
		r.inconclusive = append(r.inconclusive, msg)
	}
	r.mu.Unlock()
}

// Violation reports a refuting observation. sig is a specific, stable signature of *what* failed
// (used for de-duplication and for matching known findings); replay is everything needed to re-run it.
// Returns true if it was reported as a new violation (false: known finding or duplicate).
func (r *Run) Violation(sig string, what string, replay interface{}) bool {
	r.mu.Lock()
	defer r.mu.Unlock()
	for _, k := range r.known {
		if k.re.MatchString(sig) {
			if r.knownHits[k.Match] == 0 {
				fmt.Printf("KNOWN-FINDING: property=%s %s\n", r.ID, k.What)
			}
			r.knownHits[k.Match]++
			return false
		}
	}
	if r.violSigs[sig] {
		return false
	}
	r.violSigs[sig] = true
	r.violations++
	if r.violations > 25 {
		if r.violations < 2000 && os.Getenv("VERIF_ALL") != "" {
			fmt.Printf("  more: %s | %s\n", sig, trunc(what, 300))
		}
		return true
	}
	body, _ := json.MarshalIndent(map[string]interface{}{"property": r.ID, "signature": sig, "what": what, "seed": r.Seed, "tier": r.Tier, "case": replay}, "", " ")
	sum := sha256.Sum256(body)
	dir := filepath.Join(verifRoot(), "replay", r.ID)
	os.MkdirAll(dir, 0o755)
	path := filepath.Join(dir, hex.EncodeToString(sum[:6])+".json")
	os.WriteFile(path, body, 0o644)
	fmt.Printf("VIOLATION property=%s replay=%s\n", r.ID, path)
	fmt.Printf("  what: %s\n  signature: %s\n", what, sig)
	return true
}

func (r *Run) finish() int {
	if r.pool != nil {
		r.pool.Close()
	}
	r.mu.Lock()
	defer r.mu.Unlock()
	cov := map[string]interface{}{
		"evaluations":         r.evals,
		"distinct_nontrivial": len(r.distinct),
		"rule":                r.rule,
		"samples":             r.samples,
	}
	if r.exhaustive {
		cov["exhaustive"] = true
	}
	keys := []string{}
	for k := range r.counters {
		keys = append(keys, k)
	}
	sort.Strings(keys)
	for _, k := range keys {
		cov[k] = r.counters[k]
	}
	for k, v := range r.extra {
		cov[k] = v
	}
	if len(r.knownHits) > 0 {
		cov["known_finding_hits"] = r.knownHits
	}
	if len(r.inconclusive) > 0 {
		cov["inconclusive"] = r.inconclusive
	}
	if r.samples == nil {
		cov["samples"] = []interface{}{}
	}
	ev := map[string]interface{}{
		"property_id": r.ID, "tier": r.Tier, "seed": int64(r.Seed), "level": "exploration",
		"coverage": cov, "assumptions": r.assumptions, "wall_s": time.Since(r.Start).Seconds(), "violations": r.violations,
	}
	if r.assumptions == nil {
		ev["assumptions"] = []string{}
	}
	// evidence is written for the twenty properties only, not for development entry points (C12ONE, GEN, …)
	isProperty := len(r.ID) == 3 && r.ID[0] == 'C' && r.ID[1] >= '0' && r.ID[1] <= '9' && r.ID[2] >= '0' && r.ID[2] <= '9'
	if !r.replayMode && isProperty {
		body, _ := json.MarshalIndent(ev, "", " ")
		os.MkdirAll(filepath.Join(verifRoot(), "evidence"), 0o755)
		os.WriteFile(filepath.Join(verifRoot(), "evidence", r.ID+".json"), append(body, '\n'), 0o644)
	}
	fmt.Printf("%s %s seed=%d: evaluations=%d distinct_nontrivial=%d violations=%d known_hits=%d wall=%.1fs\n", r.ID, r.Tier, r.Seed, r.evals, len(r.distinct), r.violations, len(r.knownHits), time.Since(r.Start).Seconds())
	for _, k := range keys {
		fmt.Printf("  %s=%d\n", k, r.counters[k])
	}
	if r.violations > 0 {
		return 1
	}
	if len(r.inconclusive) > 0 {
		for _, m := range r.inconclusive {
			fmt.Printf("INCONCLUSIVE %s: %s\n", r.ID, m)
		}
		return 2
	}
	return 0
}

func readJSON(path string, v interface{}) error {
	b, err := os.ReadFile(path)
	if err != nil {
		return err
	}
	return json.Unmarshal(b, v)
}
