package main

// C07, CSS source maps: marker style sheets (every class, id, custom property name, string and number unique in the
// build) with adversarial layout, bundled through @import graphs and from JavaScript entry points, minified or not,
// under every source-map mode; the emitted .css.map files are checked by the same decoder/monitor as the JS maps, with
// a CSS tokenizer for the two sides.

import (
	"encoding/base64"
	"fmt"
	"strings"
	"sync/atomic"

	"github.com/evanw/esbuild/pkg/api"
)

type cssMarkGen struct {
	rng *Rng
	n   *int
}

func (g *cssMarkGen) id() int { *g.n++; return 1000 + *g.n }

func (g *cssMarkGen) ws() string {
	return g.rng.Pick([]string{" ", " ", "  ", "\t", "\n", "\n  ", "\r\n", " /* é😀 */ ", "\n/* c */\n", "", " "})
}

func (g *cssMarkGen) decls() string {
	var b strings.Builder
	for i, n := 0, 1+g.rng.Intn(4); i < n; i++ {
		switch g.rng.Intn(5) {
		case 0:
			b.WriteString(fmt.Sprintf("%s--cp_%d:%s%dpx;", g.ws(), g.id(), g.ws(), 1000000+g.id()))
		case 1:
			b.WriteString(fmt.Sprintf("%s--cp_%d:%s\"s_%d\";", g.ws(), g.id(), g.ws(), g.id()))
		case 2:
			b.WriteString(fmt.Sprintf("%sanimation-name:%san_%d;", g.ws(), g.ws(), g.id()))
		case 3:
			b.WriteString(fmt.Sprintf("%swidth:%s%dpx;", g.ws(), g.ws(), 1000000+g.id()))
		default:
			b.WriteString(fmt.Sprintf("%s--cp_%d: mk_%d %s \"s_%d\" ;", g.ws(), g.id(), g.id(), strings.Repeat(" ", g.rng.Intn(3)), g.id()))
		}
	}
	return b.String()
}

func (g *cssMarkGen) rule(depth int) string {
	r := g.rng
	sel := fmt.Sprintf(".mk_%d", g.id())
	switch r.Intn(6) {
	case 0:
		sel = fmt.Sprintf("#id_%d", g.id())
	case 1:
		sel += fmt.Sprintf("%s>%s.mk_%d", g.ws(), g.ws(), g.id())
	case 2:
		sel += fmt.Sprintf(",%s.mk_%d", g.ws(), g.id())
	case 3:
		sel += fmt.Sprintf(":hover%s.mk_%d", " ", g.id())
	}
	body := g.decls()
	if depth > 0 && r.Intn(4) == 0 {
		body += g.ws() + "& " + g.rule(depth-1)
	}
	return sel + g.ws() + "{" + body + g.ws() + "}"
}

func (g *cssMarkGen) sheet(nrules int) string {
	r := g.rng
	var b strings.Builder
	if r.Intn(8) == 0 {
		b.WriteString("\ufeff")
	}
	for i := 0; i < nrules; i++ {
		b.WriteString(g.ws())
		switch r.Intn(8) {
		case 0:
			b.WriteString(fmt.Sprintf("@media (min-width:%s%dpx)%s{%s%s%s%s}", g.ws(), 1000000+g.id(), g.ws(), g.ws(), g.rule(1), g.ws(), g.rule(0)))
		case 1:
			b.WriteString(fmt.Sprintf("@supports (display:grid)%s{%s%s}", g.ws(), g.ws(), g.rule(1)))
		case 2:
			b.WriteString(fmt.Sprintf("@layer ly_%d%s{%s%s}", g.id(), g.ws(), g.ws(), g.rule(0)))
		case 3:
			b.WriteString(fmt.Sprintf("@keyframes kf_%d%s{ from {%s--cp_%d: 1 } to { --cp_%d: 2 } }", g.id(), g.ws(), g.ws(), g.id(), g.id()))
		case 4:
			// a very long line
			b.WriteString(strings.Repeat(" ", 200+r.Intn(3000)) + g.rule(0))
		default:
			b.WriteString(g.rule(1))
		}
		b.WriteString(g.rng.Pick([]string{"\n", "\r\n", " ", "\n\n", "\r"}))
	}
	return b.String()
}

func c07CSS(r *Run, st *c07Stats) {
	pool := r.Pool()
	n := r.pick(200, 4000)
	var cssMaps, rejected int64
	parallel(n, pool.Size(), func(i int) {
		rng := newRng(r.Seed, fmt.Sprint("c07css", i))
		counter := 0
		g := &cssMarkGen{rng: rng, n: &counter}
		nf := 1 + rng.Intn(4)
		files := map[string]string{}
		var imports strings.Builder
		for k := nf - 1; k >= 1; k-- {
			name := fmt.Sprintf("/c%d_%d.css", i, k)
			files[name] = g.sheet(2 + rng.Intn(5))
			cond := rng.Pick([]string{"", "", " screen", " layer(lx)", " supports(display: grid)"})
			imports.WriteString(fmt.Sprintf("@import %q%s;\n", "."+name, cond))
		}
		entry := fmt.Sprintf("/c%d_0.css", i)
		files[entry] = imports.String() + g.sheet(2+rng.Intn(5))
		fromJS := i%4 == 3
		jsEntry := fmt.Sprintf("/e%d.js", i)
		if fromJS {
			files[jsEntry] = fmt.Sprintf("import %q;\nconsole.log(1);\n", "."+entry)
		}
		type cv struct {
			name   string
			minify bool
			mode   api.SourceMap
			noCont bool
		}
		vs := []cv{{"css,linked", false, api.SourceMapLinked, false}, {"css,minify,external", true, api.SourceMapExternal, false}, {"css,inline", false, api.SourceMapInline, false}, {"css,minify,both,no-content", true, api.SourceMapInlineAndExternal, true}}
		if r.quick() {
			vs = []cv{vs[i%4], vs[(i+1)%4]}
		}
		for _, v := range vs {
			ep := entry
			if fromJS {
				ep = jsEntry
			}
			opts := api.BuildOptions{EntryPoints: []string{ep}, Bundle: true, Write: false, Outdir: "/out", Sourcemap: v.mode, MinifyWhitespace: v.minify, MinifySyntax: v.minify, Plugins: []api.Plugin{memPlugin(files)}, LogLevel: api.LogLevelSilent}
			if v.noCont {
				opts.SourcesContent = api.SourcesContentExclude
			}
			res, pan := buildSafe(opts)
			atomic.AddInt64(&st.builds, 1)
			if pan != "" {
				r.Violation("sourcemap:css:panic", "esbuild panicked: "+pan, map[string]interface{}{"files": files})
				continue
			}
			if len(res.Errors) > 0 {
				atomic.AddInt64(&rejected, 1)
				continue
			}
			var code, smap string
			for _, f := range res.OutputFiles {
				if strings.HasSuffix(f.Path, ".css") {
					code = string(f.Contents)
				}
				if strings.HasSuffix(f.Path, ".css.map") {
					smap = string(f.Contents)
				}
			}
			if smap == "" {
				// CSS inline maps: /*# sourceMappingURL=data:application/json;base64,… */
				const tag = "/*# sourceMappingURL=data:application/json;base64,"
				if k := strings.LastIndex(code, tag); k >= 0 {
					rest := code[k+len(tag):]
					if e := strings.Index(rest, " */"); e >= 0 {
						if b, err := base64.StdEncoding.DecodeString(strings.TrimSpace(rest[:e])); err == nil {
							smap = string(b)
						}
					}
				}
			}
			if code == "" || smap == "" {
				r.Count("css_builds_without_a_map", 1)
				continue
			}
			cssFiles := map[string]string{}
			for k, s := range files {
				if strings.HasSuffix(k, ".css") {
					cssFiles[k] = s
				}
			}
			var out smapResult
			req := map[string]interface{}{"op": "smapcheck", "lang": "css", "code": code, "map": smap, "files": cssFiles, "goal": "css", "expectContent": !v.noCont, "expectNoContent": v.noCont}
			if err := pool.Call(req, &out); err != nil {
				r.Count("oracle_errors", 1)
				continue
			}
			if !out.OK {
				continue
			}
			st.add(out.Stats)
			atomic.AddInt64(&cssMaps, 1)
			r.Eval(1)
			r.Nontrivial(fmt.Sprint("css", i, v.name))
			for _, x := range out.Violations {
				r.Violation("sourcemap:css:"+x.Rule, fmt.Sprintf("css (%s): %s: %s", v.name, x.Rule, trunc(x.Detail, 400)), map[string]interface{}{"rule": x.Rule, "detail": x.Detail, "files": files, "output": code, "map": smap, "variant": v.name})
			}
		}
		if i < 1 {
			r.Sample(map[string]interface{}{"kind": "css marker sheet", "head": trunc(files[entry], 300)})
		}
	})
	r.Count("css_maps_checked", int(cssMaps))
	r.Count("css_builds_rejected", int(rejected))
	if cssMaps < int64(n) {
		r.Inconclusive(fmt.Sprintf("only %d CSS source maps were checked", cssMaps))
	}
}
