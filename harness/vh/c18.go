package main

import (
	"bytes"
	"crypto/sha256"
	"encoding/hex"
	"fmt"
	"os"
	"path"
	"path/filepath"
	"regexp"
	"sort"
	"strings"
	"sync"
	"sync/atomic"

	"github.com/evanw/esbuild/pkg/api"
)

func init() { registry["C18"] = checkC18 }

var rePlaceholder = regexp.MustCompile(`[A-Za-z0-9_-]{16}[AC][0-9]{8}`)
var reSourceMappingURL = regexp.MustCompile(`(?m)(?://|/\*)# sourceMappingURL=(\S+?)(?: \*/)?$`)
var reLegalLink = regexp.MustCompile(`For license information please see (\S+)`)
var reCSSURL = regexp.MustCompile(`url\(("?)([^")]+)("?)\)`)
var reCSSImport = regexp.MustCompile(`@import\s+"([^"]+)"`)

const c18Decoy = "QUJDREVGR0hJSktMA00000001" // has the shape of an internal placeholder; must survive verbatim
const c18Decoy2 = "abcdefghijklmnopC00000002"

type c18Project struct {
	Files   map[string]string
	Entries []string
	Desc    string
}

func c18Gen(rng *Rng, i int) c18Project {
	if i%2 == 0 {
		k, s := 2+rng.Intn(2), 1+rng.Intn(4)
		sp := splitGen(rng, k, s, uint32(rng.U64()))
		// dynamic-import cycle between two entries' chunks and an asset referenced from a shared module
		sp.Files["/s0.mjs"] += "import pic from \"./pic.png\";\nexport const picURL = pic;\n/*! legal comment of s0 */\n$(\"s0\", \"decoy\", \"" + c18Decoy + "\");\n"
		sp.Files["/pic.png"] = "\x89PNG" + fmt.Sprint(rng.Intn(1000))
		sp.Files["/e0.mjs"] += "export const lazyCycle = () => import(\"./cyc.mjs\");\nexport const lazyHidden = () => import(\"./.hidden.mjs\");\n"
		sp.Files["/.hidden.mjs"] = "export const hidden = \"h\";\n$(\"hidden\");\n// plain comment in hidden\n"
		sp.Files["/cyc.mjs"] = "export const back = () => import(\"./e0.mjs\");\n$(\"cyc\", \"" + c18Decoy2 + "\");\n// plain comment in cyc\n"
		return c18Project{Files: sp.Files, Entries: sp.Entries, Desc: "split:" + sp.Desc}
	}
	files := map[string]string{
		"/entry.mjs":  "import {a} from \"./lib.mjs\";\nimport \"./style.css\";\nimport img from \"./pic.png\";\nimport raw from \"./raw.bin\";\nexport const out = [a, img, raw, \"" + c18Decoy + "\"];\n/*! legal: entry */\nexport const lazy = () => import(\"./lazy.mjs\");\n",
		"/entry2.mjs": "import {b} from \"./lib.mjs\";\nimport \"./style.css\";\nexport const out2 = b;\nexport const lazy2 = () => import(\"./lazy.mjs\");\n",
		"/lib.mjs":    "export const a = 1;\nexport const b = 2;\n//! legal: lib\n// an ordinary comment in lib\n",
		"/lazy.mjs":   "import \"./lazy.css\";\nimport {a} from \"./lib.mjs\";\nexport default \"lazy\" + a;\nexport const again = () => import(\"./entry.mjs\");\n",
		"/style.css":  "@import \"./base.css\";\nbody { background: url(\"./pic.png\"); color: red; }\n/*! legal: css */\n.decoy::after { content: \"" + c18Decoy2 + "\"; }\n",
		"/base.css":   "html { margin: 0; }\n/* ordinary css comment */\n",
		"/lazy.css":   ".lazy { color: blue; background: url(\"./raw.bin\"); }\n",
		"/pic.png":    "\x89PNG\r\n" + fmt.Sprint(rng.Intn(100000)),
		"/raw.bin":    "raw-bytes-" + fmt.Sprint(rng.Intn(100000)),
		"/logo.svg":   "<svg>" + fmt.Sprint(rng.Intn(100000)) + "</svg>",
	}
	// logo.svg is an entry point handled by the copy loader (its output name comes from the entry-name template)
	return c18Project{Files: files, Entries: []string{"/entry.mjs", "/entry2.mjs", "/logo.svg"}, Desc: "assets+css+copy-entry"}
}

type c18Edit struct {
	name string
	file string
	f    func(string) string
}

func c18Edits(p c18Project) []c18Edit {
	var eds []c18Edit
	var names []string
	for n := range p.Files {
		names = append(names, n)
	}
	sort.Strings(names)
	for _, n := range names {
		n := n
		switch path.Ext(n) {
		case ".mjs":
			eds = append(eds,
				c18Edit{"code", n, func(s string) string { return s + "export const addedByEdit = 12345;\nglobalThis.__edited = 1;\n" }},
				c18Edit{"comment-only", n, func(s string) string { return s + "// a comment that changes nothing\n" }},
				c18Edit{"legal-comment-only", n, func(s string) string {
					if strings.Contains(s, "legal") {
						return strings.Replace(s, "legal", "LEGAL-edited", 1)
					}
					return s + "/*! new legal comment */\n"
				}},
				c18Edit{"same-length", n, func(s string) string { return strings.Replace(s, "1", "7", 1) }})
		case ".css":
			eds = append(eds,
				c18Edit{"code", n, func(s string) string { return s + ".added { top: 1px; }\n" }},
				c18Edit{"comment-only", n, func(s string) string { return s + "/* nothing */\n" }},
				c18Edit{"legal-comment-only", n, func(s string) string { return s + "/*! new css legal comment */\n" }})
		case ".png", ".bin", ".svg":
			eds = append(eds, c18Edit{"asset-bytes", n, func(s string) string { return s + "!" }}, c18Edit{"asset-same-length", n, func(s string) string { return "Z" + s[1:] }})
		}
	}
	return eds
}

func checkC18(r *Run) {
	r.Rule("projects with splitting, dynamic-import cycles between chunks, file-loader assets and CSS url() references, every output name hashed; per project: a base build, one build per single-point edit of every input (code, comment-only, legal-comment-only, same-length, asset bytes) and per option variant (source maps, legal comments linked/external/eof, public path, minify), each built twice; " +
		"monitors: (1) a per-project map hashed path → SHA-256 over all builds (a second digest for a path is a violation), (2) every import specifier, CSS url()/@import, sourceMappingURL and legal-comment link resolves to a file of the same build, (3) no placeholder-shaped token survives except the decoys planted in the inputs, (4) the two runs of each build are identical; " +
		"non-trivial = distinct (project, edit, option set) build")
	pool := r.Pool()
	scratch, _ := os.MkdirTemp("/tmp", "verif-c18-")
	defer os.RemoveAll(scratch)
	nproj := r.pick(60, 300)
	var builds, refsChecked, hashedPaths int64
	parallel(nproj, 16, func(i int) {
		rng := newRng(r.Seed, fmt.Sprint("c18", i))
		p := c18Gen(rng, i)
		dir := filepath.Join(scratch, fmt.Sprint("p", i))
		src := filepath.Join(dir, "src")
		defer os.RemoveAll(dir)
		var mu sync.Mutex
		digests := map[string]string{} // hashed path -> digest
		firstBytes := map[string][]byte{}
		digestsNoMap := map[string]string{} // hashed path -> digest of the bytes before the trailing source map comment
		origin := map[string]string{}
		type variant struct {
			name string
			f    func(*api.BuildOptions)
		}
		variants := []variant{{"base", func(o *api.BuildOptions) {}},
			{"sourcemap-linked", func(o *api.BuildOptions) { o.Sourcemap = api.SourceMapLinked }},
			{"sourcemap-external", func(o *api.BuildOptions) { o.Sourcemap = api.SourceMapExternal }},
			{"sourcemap-inline", func(o *api.BuildOptions) { o.Sourcemap = api.SourceMapInline }},
			{"sourcemap-both", func(o *api.BuildOptions) { o.Sourcemap = api.SourceMapInlineAndExternal }},
			{"dot-chunk-dir", func(o *api.BuildOptions) { o.ChunkNames = ".chunks/[name]-[hash]" }},
			{"legal-linked", func(o *api.BuildOptions) { o.LegalComments = api.LegalCommentsLinked }},
			{"legal-external", func(o *api.BuildOptions) { o.LegalComments = api.LegalCommentsExternal }},
			{"legal-eof", func(o *api.BuildOptions) { o.LegalComments = api.LegalCommentsEndOfFile }},
			{"public-path", func(o *api.BuildOptions) { o.PublicPath = "https://cdn.example/x/" }},
			{"asset-names-unhashed", func(o *api.BuildOptions) { o.AssetNames = "assets/[name]" }},
			{"minify", func(o *api.BuildOptions) { o.MinifyWhitespace, o.MinifySyntax, o.MinifyIdentifiers = true, true, true }},
			{"legal-linked+sourcemap", func(o *api.BuildOptions) {
				o.LegalComments = api.LegalCommentsLinked
				o.Sourcemap = api.SourceMapLinked
			}},
		}
		build := func(files map[string]string, what string, v variant) {
			os.RemoveAll(src)
			if err := writeTree(src, files); err != nil {
				return
			}
			opts := api.BuildOptions{Bundle: true, Write: false, Splitting: true, Format: api.FormatESModule, AbsWorkingDir: src, Outdir: filepath.Join(src, "out"),
				EntryNames: "[name]-[hash]", ChunkNames: "chunks/[name]-[hash]", AssetNames: "assets/[name]-[hash]", Loader: map[string]api.Loader{".png": api.LoaderFile, ".bin": api.LoaderFile, ".svg": api.LoaderCopy}}
			for _, e := range p.Entries {
				opts.EntryPoints = append(opts.EntryPoints, filepath.Join(src, e))
			}
			v.f(&opts)
			res, pan := buildSafe(opts)
			res2, _ := buildSafe(opts)
			if pan != "" || len(res.Errors) > 0 {
				r.Count("builds_with_errors", 1)
				return
			}
			atomic.AddInt64(&builds, 1)
			r.Eval(1)
			r.Nontrivial(fmt.Sprint(i, what, v.name))
			label := what + "/" + v.name
			viol := func(kind, msg string, extra map[string]interface{}) {
				m := map[string]interface{}{"files": files, "entries": p.Entries, "edit": what, "variant": v.name, "project": p.Desc}
				for k, x := range extra {
					m[k] = x
				}
				r.Violation("hash:"+kind, msg+" ["+label+"; "+p.Desc+"]", m)
			}
			// (4) double build
			if len(res.OutputFiles) != len(res2.OutputFiles) {
				viol("double-build-differs", "two builds of the same inputs emit different file sets", nil)
			} else {
				for k := range res.OutputFiles {
					if res.OutputFiles[k].Path != res2.OutputFiles[k].Path || string(res.OutputFiles[k].Contents) != string(res2.OutputFiles[k].Contents) {
						viol("double-build-differs", "two builds of the same inputs differ in "+filepath.Base(res.OutputFiles[k].Path)+" (a per-build random key leaked?)", nil)
						break
					}
				}
			}
			emitted := map[string][]byte{}
			for _, f := range res.OutputFiles {
				rel, _ := filepath.Rel(src, f.Path)
				emitted[filepath.ToSlash(rel)] = f.Contents
			}
			allInputs := ""
			for _, s := range files {
				allInputs += s + "\x00"
			}
			for rel, c := range emitted {
				// (1) hashed path -> digest (paths produced by a template without [hash] are not subject to the rule)
				if v.name == "asset-names-unhashed" && strings.HasPrefix(rel, "out/assets/") {
					continue
				}
				sum := sha256.Sum256(c)
				d := hex.EncodeToString(sum[:8])
				mu.Lock()
				// the same bytes up to the trailing sourceMappingURL comment (or inline map): the recorded "comment appended
				// after hashing" finding, whatever edit separates the two builds (the file is one the edit does not reach)
				noMap := append([]byte("\n"), c...) // (a chunk may consist of nothing but the comment)
				for _, tag := range []string{"\n//# sourceMappingURL=", "\n/*# sourceMappingURL="} {
					if k := bytes.LastIndex(noMap, []byte(tag)); k >= 0 {
						noMap = noMap[:k]
					}
				}
				// … and up to the "For license information please see" line that --legal-comments=linked appends
				if k := bytes.LastIndex(noMap, []byte("/*! For license information please see ")); k >= 0 && bytes.Count(noMap[k:], []byte("\n")) <= 1 {
					noMap = noMap[:k]
				}
				noMap = bytes.TrimRight(noMap, "\n")
				sumNM := sha256.Sum256(noMap)
				dNM := hex.EncodeToString(sumNM[:8])
				if old, ok := digests[rel]; ok && old != d && digestsNoMap[rel] == dNM && c18VariantOf(origin[rel]) != c18VariantOf(label) && c18IsLegalVariant(origin[rel]) && c18IsLegalVariant(label) && !(c18IsSourceMapVariant(origin[rel]) && c18IsSourceMapVariant(label)) {
					viol("same-name-different-content:legal-link-appended-after-hashing:"+path.Ext(rel), fmt.Sprintf("%s is emitted with and without the trailing legal-comments link by two builds of this project (first by %s)", rel, origin[rel]), map[string]interface{}{"path": rel, "first_build": origin[rel]})
				} else if old, ok := digests[rel]; ok && old != d && digestsNoMap[rel] == dNM && c18VariantOf(origin[rel]) != c18VariantOf(label) && c18IsSourceMapVariant(origin[rel]) && c18IsSourceMapVariant(label) {
					viol("same-name-different-content:sourcemap-comment-appended-after-hashing:"+path.Ext(rel), fmt.Sprintf("%s is emitted with and without the trailing source map comment by two builds of this project (first by %s)", rel, origin[rel]), map[string]interface{}{"path": rel, "first_build": origin[rel]})
				} else if old, ok := digests[rel]; ok && old != d {
					if dbg := os.Getenv("VERIF_C18_DEBUG"); dbg != "" {
						os.WriteFile(filepath.Join(dbg, strings.ReplaceAll(rel, "/", "_")+".second"), c, 0o644)
						os.WriteFile(filepath.Join(dbg, strings.ReplaceAll(rel, "/", "_")+".first"), firstBytes[rel], 0o644)
					}
					viol("same-name-different-content:"+c18ConflictClass(origin[rel], label, path.Ext(rel)), fmt.Sprintf("%s is emitted with different bytes by two builds of this project (first by %s)", rel, origin[rel]), map[string]interface{}{"path": rel, "first_build": origin[rel]})
				} else if !ok {
					digests[rel] = d
					digestsNoMap[rel] = dNM
					if os.Getenv("VERIF_C18_DEBUG") != "" {
						firstBytes[rel] = append([]byte{}, c...)
					}
					origin[rel] = label
					atomic.AddInt64(&hashedPaths, 1)
				}
				mu.Unlock()
				// (3) placeholders
				for _, m := range rePlaceholder.FindAllString(string(c), -1) {
					if !strings.Contains(allInputs, m) && !strings.HasSuffix(rel, ".map") {
						viol("placeholder-survives", fmt.Sprintf("%s contains %q, which has the shape of an internal placeholder and does not come from the inputs", rel, m), nil)
						break
					}
				}
				if strings.HasSuffix(rel, ".map") || strings.HasSuffix(rel, ".txt") || strings.HasSuffix(rel, ".png") || strings.HasSuffix(rel, ".bin") || strings.HasSuffix(rel, ".svg") {
					continue
				}
				// (2) references
				resolve := func(spec string) string {
					if opts.PublicPath != "" && strings.HasPrefix(spec, opts.PublicPath) {
						return path.Join("out", strings.TrimPrefix(spec, opts.PublicPath))
					}
					return path.Join(path.Dir(rel), spec)
				}
				check := func(kind, spec string) {
					atomic.AddInt64(&refsChecked, 1)
					if strings.HasPrefix(spec, "data:") {
						return
					}
					if (kind == "import" || kind == "dynamic-import") && !strings.HasPrefix(spec, "./") && !strings.HasPrefix(spec, "../") && !strings.HasPrefix(spec, "/") &&
						!(opts.PublicPath != "" && strings.HasPrefix(spec, opts.PublicPath)) {
						// a module specifier without a leading ./ or ../ names a package, not a file next to the importer
						viol("dangling-reference:"+kind+":bare-specifier", fmt.Sprintf("%s imports %q, a bare specifier that does not refer to a file of this build", rel, spec), nil)
						return
					}
					if _, ok := emitted[resolve(spec)]; !ok {
						viol("dangling-reference:"+kind, fmt.Sprintf("%s refers to %q (%s), which this build did not emit (emitted: %v)", rel, spec, kind, keysOf(emitted)), nil)
					}
				}
				text := string(c)
				if strings.HasSuffix(rel, ".css") {
					for _, m := range reCSSURL.FindAllStringSubmatch(text, -1) {
						check("css-url", m[2])
					}
					for _, m := range reCSSImport.FindAllStringSubmatch(text, -1) {
						check("css-import", m[1])
					}
				} else {
					var fr struct {
						OK    bool `json:"ok"`
						Facts struct {
							StaticImports []struct {
								Path string `json:"path"`
							} `json:"staticImports"`
							DynamicImports []string `json:"dynamicImports"`
						} `json:"facts"`
					}
					if err := pool.Call(map[string]interface{}{"op": "chunkFacts", "code": text, "goal": "module"}, &fr); err == nil && fr.OK {
						for _, s := range fr.Facts.StaticImports {
							check("import", s.Path)
						}
						for _, s := range fr.Facts.DynamicImports {
							check("dynamic-import", s)
						}
					}
					// asset URLs are string literals that start with ./assets or the public path
					for _, m := range regexp.MustCompile(`"((?:\./|\.\./|https://cdn\.example/x/)[^"]*assets/[^"]+)"`).FindAllStringSubmatch(text, -1) {
						check("asset-url", m[1])
					}
				}
				for _, m := range reSourceMappingURL.FindAllStringSubmatch(text, -1) {
					check("sourceMappingURL", m[1])
				}
				for _, m := range reLegalLink.FindAllStringSubmatch(text, -1) {
					check("legal-comments-link", strings.TrimSuffix(m[1], "*/"))
				}
			}
			// decoys survive
			joined := ""
			for _, c := range emitted {
				joined += string(c)
			}
			reachable := ""
			{
				seen := map[string]bool{}
				var q []string
				for _, e := range p.Entries {
					q = append(q, strings.TrimPrefix(e, "/"))
				}
				for len(q) > 0 {
					cur := q[0]
					q = q[1:]
					if seen[cur] {
						continue
					}
					seen[cur] = true
					reachable += files["/"+cur]
					for _, im := range sourceImports(files["/"+cur]) {
						q = append(q, path.Join(path.Dir(cur), im.Original))
					}
				}
			}
			for _, dcy := range []string{c18Decoy, c18Decoy2} {
				if strings.Contains(reachable, "\""+dcy+"\"") && !strings.Contains(joined, dcy) {
					viol("decoy-lost", "a placeholder-shaped string literal of the input ("+dcy+") does not appear in any output", nil)
				}
			}
		}
		edits := c18Edits(p)
		if r.quick() && len(edits) > 10 {
			rng.Shuffle(len(edits), func(a, b int) { edits[a], edits[b] = edits[b], edits[a] })
			var keep []c18Edit
			for k, e := range edits {
				if k < 10 || strings.HasPrefix(e.name, "asset") {
					keep = append(keep, e)
				}
			}
			edits = keep
		}
		for vi, v := range variants {
			if r.quick() && vi > 0 && rng.Intn(2) == 0 && v.name != "asset-names-unhashed" {
				continue
			}
			build(p.Files, "unedited", v)
			for ei, e := range edits {
				if vi > 0 && (r.quick() || ei%3 != vi%3) && !(strings.HasPrefix(v.name, "legal") && e.name == "legal-comment-only") && !(strings.HasPrefix(v.name, "sourcemap") && e.name == "comment-only") && !(v.name == "asset-names-unhashed" && strings.HasPrefix(e.name, "asset")) {
					continue
				}
				files := map[string]string{}
				for k, s := range p.Files {
					files[k] = s
				}
				files[e.file] = e.f(files[e.file])
				build(files, e.name+":"+e.file, v)
			}
		}
		if i < 2 {
			var ks []string
			for k := range digests {
				ks = append(ks, k)
			}
			sort.Strings(ks)
			r.Sample(map[string]interface{}{"project": p.Desc, "distinct_hashed_paths_seen": len(ks), "some": headOf(ks, 8)})
		}
	})
	r.Count("builds", int(builds))
	r.Count("references_resolved", int(refsChecked))
	r.Count("distinct_hashed_paths", int(hashedPaths))
	if builds < int64(nproj*8) {
		r.Inconclusive(fmt.Sprintf("only %d builds", builds))
	}
}

// c18ConflictClass: which two builds disagree about a path — same edit under different options, or different edits
func c18ConflictClass(a, b, ext string) string {
	split := func(l string) (edit, variant string) {
		i := strings.LastIndex(l, "/")
		edit, variant = l[:i], l[i+1:]
		if j := strings.Index(edit, ":"); j > 0 {
			edit = edit[:j] + ":" + path.Ext(edit)
		}
		return
	}
	ea, va := split(a)
	eb, vb := split(b)
	smSet := map[string]bool{"sourcemap-linked": true, "sourcemap-external": true, "sourcemap-inline": true, "sourcemap-both": true, "legal-linked+sourcemap": true}
	legalSet := map[string]bool{"legal-linked": true, "legal-external": true, "legal-linked+sourcemap": true}
	legalEdit := strings.HasPrefix(ea, "legal-comment-only") || strings.HasPrefix(eb, "legal-comment-only")
	otherEdit := func(e string) bool {
		return e != "unedited" && !strings.HasPrefix(e, "legal-comment-only") && !strings.HasPrefix(e, "comment-only")
	}
	if !otherEdit(ea) && !otherEdit(eb) {
		switch {
		case legalEdit && legalSet[va] && legalSet[vb]:
			return "external-legal-comment-text-not-hashed:" + ext
		case va != vb && smSet[va] && smSet[vb]:
			return "sourcemap-comment-appended-after-hashing:" + ext
		case va != vb && legalSet[va] && legalSet[vb]:
			return "legal-link-appended-after-hashing:" + ext
		}
	}
	if a[:strings.LastIndex(a, "/")] == b[:strings.LastIndex(b, "/")] {
		vs := []string{va, vb}
		sort.Strings(vs)
		return "options:" + vs[0] + "~" + vs[1] + ":" + ext
	}
	es := []string{ea, eb}
	sort.Strings(es)
	vs := []string{va, vb}
	sort.Strings(vs)
	return "edits:" + es[0] + "~" + es[1] + "@" + vs[0] + "~" + vs[1] + ":" + ext
}

func c18IsSourceMapVariant(label string) bool {
	v := label[strings.LastIndex(label, "/")+1:]
	return v == "sourcemap-linked" || v == "sourcemap-external" || v == "sourcemap-inline" || v == "sourcemap-both" || v == "legal-linked+sourcemap"
}

func c18IsLegalVariant(label string) bool {
	v := label[strings.LastIndex(label, "/")+1:]
	return v == "legal-linked" || v == "legal-external" || v == "legal-linked+sourcemap"
}

// c18VariantOf: the option-set part of a build label ("<edit>/<variant>"). The recorded findings concern two builds whose
// source-map / legal-comments *modes* differ; two builds in the same mode must agree on the tail as well.
func c18VariantOf(label string) string { return label[strings.LastIndex(label, "/")+1:] }
