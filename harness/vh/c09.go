package main

import (
	"fmt"
	"os"
	"os/exec"
	"path/filepath"
	"sort"
	"strings"
	"sync/atomic"
	"time"

	"github.com/evanw/esbuild/pkg/api"
)

func init() { registry["C09"] = checkC09 }

type fsEdit struct {
	Kind string `json:"kind"`
	Desc string `json:"desc"`
	apply func(root string, step int) error
}

func c09BaseTree() map[string]string {
	return map[string]string{
		"/src/entry.tsx":                "import {a} from './a';\nimport {b} from './b';\nimport pkg from 'pkg';\nimport {Comp} from './comp';\nimport data from './data.json';\nimport {aliased} from '@alias/thing';\nimport './side';\nimport whole, {list, nested} from './fixed.json';\nimport './opt';\nconsole.log(a, b, pkg, <Comp x={1}/>, data.k, aliased, whole, list, nested);\nexport class K { field = 1; }\n",
		// a JSON module whose default export and named properties are both used, and which no edit touches (a cache hit on every rebuild)
		"/src/fixed.json": "{\"list\": [1, 2, 3], \"nested\": {\"n\": 1}, \"other\": \"x\"}\n",
		// optional dependencies behind directories that do not exist at first (unresolved require inside try is a warning)
		"/src/opt.js": "try { console.log(require('./sub/x.js')); } catch (e) { console.log('no sub'); }\ntry { console.log(require('@scope/opt')); } catch (e) { console.log('no scoped package'); }\n",
		"/src/a.js":                     "export const a = 'a1';\n",
		"/src/b.ts":                     "export const b: string = 'b1';\n",
		"/src/comp.tsx":                 "export function Comp(p: {x: number}) { return <div>{p.x}</div>; }\n",
		"/src/data.json":                "{\"k\": 1}\n",
		"/src/side.js":                  "console.log('side effect');\n",
		"/src/lib/thing.ts":             "export const aliased = 'thing1';\n",
		"/src/lib2/thing.ts":            "export const aliased = 'thing-from-lib2';\n",
		"/node_modules/pkg/package.json": "{\"name\": \"pkg\", \"main\": \"./index.js\"}\n",
		"/node_modules/pkg/index.js":    "module.exports = 'pkg-index';\n",
		"/node_modules/pkg/alt.js":      "module.exports = 'pkg-alt';\n",
		"/node_modules/pkg/esm.mjs":     "export default 'pkg-esm';\n",
		"/tsconfig.json":                "{\"compilerOptions\": {\"jsx\": \"react\", \"paths\": {\"@alias/*\": [\"./src/lib/*\"]}, \"baseUrl\": \".\"}}\n",
		"/package.json":                 "{\"name\": \"proj\"}\n",
	}
}

func writeFileAt(root, rel, content string) error {
	p := filepath.Join(root, rel)
	if err := os.MkdirAll(filepath.Dir(p), 0o755); err != nil {
		return err
	}
	return os.WriteFile(p, []byte(content), 0o644)
}

// c09Edits: the edit vocabulary; every edit is a function of the current tree on disk.
func c09Edits(rng *Rng) []fsEdit {
	rd := func(root, rel string) string { b, _ := os.ReadFile(filepath.Join(root, rel)); return string(b) }
	exists := func(root, rel string) bool { _, err := os.Lstat(filepath.Join(root, rel)); return err == nil }
	var eds []fsEdit
	add := func(kind, desc string, f func(root string, step int) error) { eds = append(eds, fsEdit{kind, desc, f}) }
	for _, f := range []string{"/src/a.js", "/src/b.ts", "/src/comp.tsx", "/src/side.js", "/src/lib/thing.ts", "/node_modules/pkg/index.js"} {
		f := f
		add("content", "append to "+f, func(root string, step int) error {
			if !exists(root, f) {
				return nil
			}
			return writeFileAt(root, f, rd(root, f)+fmt.Sprintf("console.log('edit %d');\n", step))
		})
		add("content-same-length", "same-length edit of "+f, func(root string, step int) error {
			if !exists(root, f) {
				return nil
			}
			s := rd(root, f)
			for i := 0; i < len(s); i++ {
				if s[i] >= '1' && s[i] <= '8' {
					return writeFileAt(root, f, s[:i]+string(s[i]+1)+s[i+1:])
				}
			}
			return nil
		})
		add("syntax-error", "break "+f, func(root string, step int) error {
			if !exists(root, f) {
				return nil
			}
			return writeFileAt(root, f, rd(root, f)+"\n)}]\n")
		})
		add("repair", "repair "+f, func(root string, step int) error {
			if !exists(root, f) {
				return nil
			}
			return writeFileAt(root, f, strings.ReplaceAll(rd(root, f), "\n)}]\n", "\n"))
		})
	}
	add("data-json", "edit data.json", func(root string, step int) error { return writeFileAt(root, "/src/data.json", fmt.Sprintf("{\"k\": %d}\n", step)) })
	add("delete", "delete a.js", func(root string, step int) error { os.Remove(filepath.Join(root, "/src/a.js")); return nil })
	add("create", "recreate a.js", func(root string, step int) error { return writeFileAt(root, "/src/a.js", fmt.Sprintf("export const a = 'a-recreated-%d';\n", step)) })
	add("shadow-ts", "add a.ts next to a.js (earlier extension)", func(root string, step int) error { return writeFileAt(root, "/src/a.ts", fmt.Sprintf("export const a: string = 'a-from-ts-%d';\n", step)) })
	add("unshadow-ts", "remove a.ts", func(root string, step int) error { os.Remove(filepath.Join(root, "/src/a.ts")); return nil })
	add("file-to-dir", "replace b.ts by b/index.ts", func(root string, step int) error {
		os.Remove(filepath.Join(root, "/src/b.ts"))
		return writeFileAt(root, "/src/b/index.ts", fmt.Sprintf("export const b = 'b-from-dir-%d';\n", step))
	})
	add("dir-to-file", "replace b/ by b.ts", func(root string, step int) error {
		os.RemoveAll(filepath.Join(root, "/src/b"))
		return writeFileAt(root, "/src/b.ts", fmt.Sprintf("export const b: string = 'b-file-%d';\n", step))
	})
	add("rename", "rename side.js to side.jsx", func(root string, step int) error {
		if exists(root, "/src/side.js") {
			return os.Rename(filepath.Join(root, "/src/side.js"), filepath.Join(root, "/src/side.jsx"))
		}
		return os.Rename(filepath.Join(root, "/src/side.jsx"), filepath.Join(root, "/src/side.js"))
	})
	pj := []string{"{\"name\": \"pkg\", \"main\": \"./index.js\"}\n", "{\"name\": \"pkg\", \"main\": \"./alt.js\"}\n", "{\"name\": \"pkg\", \"main\": \"./index.js\", \"sideEffects\": false}\n",
		"{\"name\": \"pkg\", \"main\": \"./index.js\", \"exports\": {\".\": \"./alt.js\"}}\n", "{\"name\": \"pkg\", \"exports\": {\"import\": \"./esm.mjs\", \"default\": \"./index.js\"}}\n", "{\"name\": \"pkg\", \"main\": \"./index.js\", \"type\": \"module\"}\n", "{\"name\": \"pkg\", \"main\": \"./index.js\", \"browser\": {\"./index.js\": \"./alt.js\"}}\n"}
	for i, c := range pj {
		c := c
		add("package-json", fmt.Sprint("pkg/package.json variant ", i), func(root string, step int) error { return writeFileAt(root, "/node_modules/pkg/package.json", c) })
	}
	add("nearer-node-modules", "add src/node_modules/pkg", func(root string, step int) error {
		writeFileAt(root, "/src/node_modules/pkg/package.json", "{\"name\": \"pkg\", \"main\": \"./near.js\"}\n")
		return writeFileAt(root, "/src/node_modules/pkg/near.js", fmt.Sprintf("module.exports = 'pkg-near-%d';\n", step))
	})
	add("remove-nearer-node-modules", "remove src/node_modules", func(root string, step int) error { return os.RemoveAll(filepath.Join(root, "/src/node_modules")) })
	ts := []string{"{\"compilerOptions\": {\"jsx\": \"react\", \"paths\": {\"@alias/*\": [\"./src/lib/*\"]}, \"baseUrl\": \".\"}}\n",
		"{\"compilerOptions\": {\"jsx\": \"react-jsx\", \"paths\": {\"@alias/*\": [\"./src/lib/*\"]}, \"baseUrl\": \".\"}}\n",
		"{\"compilerOptions\": {\"jsx\": \"react-jsx\", \"jsxImportSource\": \"preact\", \"paths\": {\"@alias/*\": [\"./src/lib/*\"]}, \"baseUrl\": \".\"}}\n",
		"{\"compilerOptions\": {\"jsx\": \"react-jsxdev\", \"paths\": {\"@alias/*\": [\"./src/lib/*\"]}, \"baseUrl\": \".\"}}\n",
		"{\"compilerOptions\": {\"jsx\": \"preserve\", \"paths\": {\"@alias/*\": [\"./src/lib/*\"]}, \"baseUrl\": \".\"}}\n",
		"{\"compilerOptions\": {\"jsx\": \"react\", \"jsxFactory\": \"h\", \"jsxFragmentFactory\": \"Frag\", \"paths\": {\"@alias/*\": [\"./src/lib/*\"]}, \"baseUrl\": \".\"}}\n",
		"{\"compilerOptions\": {\"jsx\": \"react\", \"paths\": {\"@alias/*\": [\"./src/lib2/*\"]}, \"baseUrl\": \".\"}}\n",
		"{\"compilerOptions\": {\"jsx\": \"react\", \"useDefineForClassFields\": false, \"target\": \"es2020\", \"paths\": {\"@alias/*\": [\"./src/lib/*\"]}, \"baseUrl\": \".\"}}\n",
		"{\"compilerOptions\": {\"jsx\": \"react\", \"useDefineForClassFields\": true, \"paths\": {\"@alias/*\": [\"./src/lib/*\"]}, \"baseUrl\": \".\"}}\n",
		"{\"compilerOptions\": {\"jsx\": \"react\", \"verbatimModuleSyntax\": true, \"paths\": {\"@alias/*\": [\"./src/lib/*\"]}, \"baseUrl\": \".\"}}\n",
		"{\"compilerOptions\": {\"jsx\": \"react\", \"paths\": {\"@alias/*\": [\"./src/lib/*\"]}, \"baseUrl\": \".\"}, broken\n"}
	for i, c := range ts {
		c := c
		add("tsconfig", fmt.Sprint("tsconfig.json variant ", i), func(root string, step int) error { return writeFileAt(root, "/tsconfig.json", c) })
	}
	add("root-package-json", "flip root package.json type", func(root string, step int) error {
		if strings.Contains(rd(root, "/package.json"), "module") {
			return writeFileAt(root, "/package.json", "{\"name\": \"proj\"}\n")
		}
		return writeFileAt(root, "/package.json", "{\"name\": \"proj\", \"type\": \"module\", \"sideEffects\": false}\n")
	})
	add("create-dir-module", "create the missing directory src/sub with x.js", func(root string, step int) error {
		return writeFileAt(root, "/src/sub/x.js", fmt.Sprintf("module.exports = 'sub-x-%d';\n", step))
	})
	add("remove-dir-module", "remove src/sub", func(root string, step int) error { return os.RemoveAll(filepath.Join(root, "/src/sub")) })
	add("create-scoped-package", "create the missing directory node_modules/@scope with package opt", func(root string, step int) error {
		writeFileAt(root, "/node_modules/@scope/opt/package.json", "{\"name\": \"@scope/opt\", \"main\": \"./index.js\"}\n")
		return writeFileAt(root, "/node_modules/@scope/opt/index.js", fmt.Sprintf("module.exports = 'scoped-opt-%d';\n", step))
	})
	add("remove-scoped-package", "remove node_modules/@scope", func(root string, step int) error { return os.RemoveAll(filepath.Join(root, "/node_modules/@scope")) })
	add("symlink", "replace lib/thing.ts by a symlink to lib2/thing.ts", func(root string, step int) error {
		os.Remove(filepath.Join(root, "/src/lib/thing.ts"))
		return os.Symlink("../lib2/thing.ts", filepath.Join(root, "/src/lib/thing.ts"))
	})
	add("unsymlink", "replace the symlink by a file", func(root string, step int) error {
		os.Remove(filepath.Join(root, "/src/lib/thing.ts"))
		return writeFileAt(root, "/src/lib/thing.ts", fmt.Sprintf("export const aliased = 'thing-%d';\n", step))
	})
	return eds
}

// setMtimes gives every file under root an explicit modification time: base + per-file offset, advancing by one
// second per step for files whose content changed ("file modification times advancing normally").
func touchChanged(root string, before map[string]string, t time.Time) map[string]string {
	after := map[string]string{}
	filepath.Walk(root, func(p string, info os.FileInfo, err error) error {
		if err != nil || info.IsDir() || strings.Contains(p, "/out/") {
			return nil
		}
		b, _ := os.ReadFile(p)
		rel, _ := filepath.Rel(root, p)
		after[rel] = string(b)
		if before == nil || before[rel] != string(b) {
			os.Chtimes(p, t, t)
		}
		return nil
	})
	return after
}

func checkC09(r *Run) {
	r.Rule("edit histories (8–25 steps) over a real project directory (tsx entry, js/ts/json modules, a tsconfig with jsx and paths, a package in node_modules): content edits incl. same-length, syntax errors introduced and repaired, delete/create/rename, x.ts shadowing x.js, file↔directory, package.json main/exports/sideEffects/type/browser flips, nearer node_modules, tsconfig jsx/jsxImportSource/paths/useDefineForClassFields/verbatimModuleSyntax edits, symlink swaps; × bundle/splitting/minify/sourcemap option sets; " +
		"after every step ctx.Rebuild() is compared byte-wise (outputs, diagnostics, metafile) with a fresh api.Build of the same tree; with watch data on, an edit that changes the fresh result must make ≥1 of the previous build's watch predicates report dirty; half of the histories set explicit mtimes (one hour old, +1 s per step), half keep natural mtimes; " +
		"non-trivial = distinct (history, step) at which the fresh result differs from the previous step's")
	r.Assume("a fresh build in a new context is the specification of the current tree")
	scratch, _ := os.MkdirTemp("/tmp", "verif-c09-")
	defer os.RemoveAll(scratch)
	nhist := r.pick(400, 6000)
	var steps, changedSteps, watchChecks int64
	only := -1
	if v := os.Getenv("VERIF_C09_ONLY"); v != "" {
		fmt.Sscanf(v, "%d", &only)
	}
	parallel(nhist, 16, func(i int) {
		if only >= 0 && i != only {
			return
		}
		rng := newRng(r.Seed, fmt.Sprint("c09h", i))
		root := filepath.Join(scratch, fmt.Sprint("h", i))
		defer os.RemoveAll(root)
		writeTree(root, c09BaseTree())
		explicitMtime := i%2 == 0
		base := time.Now().Add(-time.Hour)
		if i%4 == 0 {
			// package.json of the dependency reached through a symlinked final path component (link as old as the files)
			os.Rename(filepath.Join(root, "node_modules/pkg/package.json"), filepath.Join(root, "node_modules/pkg.package.json"))
			os.Symlink("../pkg.package.json", filepath.Join(root, "node_modules/pkg/package.json"))
			exec.Command("touch", "-h", "-d", base.Format("2006-01-02 15:04:05"), filepath.Join(root, "node_modules/pkg/package.json")).Run()
		}
		var snapshot map[string]string
		if explicitMtime {
			snapshot = touchChanged(root, nil, base)
		}
		optsFor := func() api.BuildOptions {
			o := api.BuildOptions{EntryPoints: []string{filepath.Join(root, "src/entry.tsx")}, Bundle: true, Write: false, AbsWorkingDir: root, Outdir: filepath.Join(root, "out"), LogLevel: api.LogLevelSilent, Metafile: true,
				External: []string{"react", "react/jsx-runtime", "react/jsx-dev-runtime", "preact/jsx-runtime", "preact/jsx-dev-runtime"}, Format: api.FormatESModule}
			switch i % 4 {
			case 1:
				o.MinifySyntax, o.MinifyIdentifiers, o.MinifyWhitespace = true, true, true
			case 2:
				o.Splitting, o.Sourcemap = true, api.SourceMapLinked
			case 3:
				o.Sourcemap, o.Platform = api.SourceMapInline, api.PlatformNode
			}
			return o
		}
		ctx, cerr := api.Context(optsFor())
		if cerr != nil {
			return
		}
		defer ctx.Dispose()
		eds := c09Edits(rng)
		n := 8 + rng.Intn(18)
		var applied []string
		lastEditKind := "initial"
		prevFresh := ""
		var dirty func() []string
		useWatch := i%3 == 0
		for step := 0; step <= n; step++ {
			if step > 0 {
				e := eds[rng.Intn(len(eds))]
				if err := e.apply(root, step); err != nil {
					continue
				}
				applied = append(applied, e.Desc)
				lastEditKind = e.Kind
				if e.Kind == "tsconfig" || e.Kind == "package-json" {
					lastEditKind = strings.ReplaceAll(e.Desc, " ", "-")
				}
				if explicitMtime {
					snapshot = touchChanged(root, snapshot, base.Add(time.Duration(step)*time.Second))
				}
			}
			fresh := api.Build(optsFor())
			freshDump := canonicalResult(root, fresh)
			// watch: the predicates of the previous build must notice an edit that changes the result
			if useWatch && dirty != nil && step > 0 && freshDump != prevFresh {
				atomic.AddInt64(&watchChecks, 1)
				if d := dirty(); len(d) == 0 {
					r.Violation("incremental:watch-misses-change:"+lastEditKind, fmt.Sprintf("the edit %q changes the result of a fresh build but none of the previous build's watch predicates reports a change", applied[len(applied)-1]),
						map[string]interface{}{"history": applied, "option_set": i % 4, "explicit_mtimes": explicitMtime, "history_index": i, "dirty_paths_now": dirty()})
					if only >= 0 {
						fmt.Printf("DEBUG prev fresh:\n%s\nDEBUG new fresh:\n%s\n", trunc(prevFresh, 1500), trunc(freshDump, 1500))
					}
				}
			}
			var inc api.BuildResult
			if useWatch {
				inc, dirty = api.VerifRebuildWatch(ctx)
			} else {
				inc = ctx.Rebuild()
			}
			incDump := canonicalResult(root, inc)
			atomic.AddInt64(&steps, 1)
			r.Eval(1)
			if freshDump != prevFresh {
				atomic.AddInt64(&changedSteps, 1)
				r.Nontrivial(fmt.Sprint(i, step, hash64(freshDump)))
			}
			prevFresh = freshDump
			if incDump != freshDump {
				la, lb := strings.Split(freshDump, "\n"), strings.Split(incDump, "\n")
				k := 0
				for k < len(la) && k < len(lb) && la[k] == lb[k] {
					k++
				}
				fa, ia := "", ""
				if k < len(la) {
					fa = la[k]
				}
				if k < len(lb) {
					ia = lb[k]
				}
				what := fmt.Sprintf("after %d steps (last: %s) Rebuild() differs from a fresh build of the same tree: fresh %q, rebuild %q", step, lastOf(applied), trunc(fa, 160), trunc(ia, 160))
				// which files differ
				detail := map[string]interface{}{"history": applied, "option_set": i % 4, "explicit_mtimes": explicitMtime, "fresh_line": fa, "rebuild_line": ia}
				for _, f := range fresh.OutputFiles {
					for _, g := range inc.OutputFiles {
						if f.Path == g.Path && string(f.Contents) != string(g.Contents) && !strings.HasSuffix(f.Path, ".map") {
							detail["fresh_output"] = trunc(string(f.Contents), 3000)
							detail["rebuild_output"] = trunc(string(g.Contents), 3000)
						}
					}
				}
				r.Violation("incremental:rebuild-differs:"+lastEditKind+":"+strings.SplitN(fa+" ", " ", 2)[0], what, detail)
				break
			}
		}
		if i < 2 {
			r.Sample(map[string]interface{}{"history": applied, "option_set": i % 4, "explicit_mtimes": explicitMtime})
		}
	})
	if os.Getenv("VERIF_C09_ONLY") == "" {
		c09RealWatch(r)
		c09Split(r)
	}
	r.Count("history_steps_compared", int(steps))
	r.Count("steps_where_fresh_result_changed", int(changedSteps))
	r.Count("watch_predicate_checks", int(watchChecks))
	if steps < int64(nhist*6) || changedSteps < int64(nhist*3) {
		r.Inconclusive(fmt.Sprintf("only %d steps, %d with a changed result", steps, changedSteps))
	}
}

func lastOf(a []string) string {
	if len(a) == 0 {
		return "(initial build)"
	}
	return a[len(a)-1]
}

func lastKind(a []string) string {
	if len(a) == 0 {
		return "initial"
	}
	f := strings.Fields(a[len(a)-1])
	sort.Strings(nil)
	if strings.HasPrefix(a[len(a)-1], "tsconfig.json variant") || strings.HasPrefix(a[len(a)-1], "pkg/package.json variant") {
		return strings.Join(f[:3], "-")
	}
	return f[0]
}
