package main

import (
	"fmt"
	"strings"
	"sync/atomic"
)

// Case packs: many independent cases, each inside its own closure, compiled and executed together.
// T logs a segment marker, then the case's result or the thrown value.

const packPrelude = `function T(i, f) { $("[", i); try { $("r", f()); } catch (e) { $("t", e); } }
class C { constructor(x) { $("C", x); } }
`

type packCase struct {
	ID   string // unique within the run
	Body string // a function expression: `() => …` or `function() {…}`
	Sig  string // stable description used in violation signatures (no probe ids)
}

type packVariant struct {
	Name string
	// Compile returns the output program text, or ok=false if esbuild reported errors (then the variant is skipped for this pack)
	Compile func(src string) (out string, errs []string)
	Kind    string // script | module
	SigTag  string // appended to violation signatures as "@tag" (for findings that depend on one option)
}

func packSource(cases []packCase) string {
	var b strings.Builder
	b.WriteString(packPrelude)
	for _, c := range cases {
		b.WriteString("T(")
		b.WriteString(fmt.Sprintf("%q", c.ID))
		b.WriteString(", ")
		b.WriteString(c.Body)
		b.WriteString(");\n")
	}
	return b.String()
}

type packStats struct {
	packs, caseRuns, events, rewritten, skippedVariants, oracleErrors int64
}

// runPacks compiles every pack under every variant, executes reference and outputs, and reports every
// case whose segment trace differs. refWrap turns the pack source into the reference program (identity
// for plain JS). property-specific signature prefix in sigPrefix.
func runPacks(r *Run, cases []packCase, packSize int, variants []packVariant, sigPrefix string, refOf func(src string) string, st *packStats) {
	runPacksWith(r, cases, packSize, variants, sigPrefix, refOf, st, packSource)
}

func runPacksWith(r *Run, cases []packCase, packSize int, variants []packVariant, sigPrefix string, refOf func(src string) string, st *packStats, srcOf func([]packCase) string) {
	pool := r.Pool()
	variantsAll := variants
	byID := map[string]packCase{}
	for _, c := range cases {
		byID[c.ID] = c
	}
	// cases that use ** go into their own packs (only those are compared with the pow tolerance)
	{
		var with, without []packCase
		for _, c := range cases {
			if strings.Contains(c.Body, "**") || strings.Contains(c.Body, "Math.pow") {
				with = append(with, c)
			} else {
				without = append(without, c)
			}
		}
		pad := (packSize - len(without)%packSize) % packSize
		_ = pad
		cases = without
		if len(with) > 0 {
			// align so that no pack mixes the two groups
			for len(cases)%packSize != 0 {
				cases = append(cases, packCase{ID: fmt.Sprint("pad", len(cases)), Body: "() => 0", Sig: "pad"})
			}
			cases = append(cases, with...)
		}
	}
	var packs [][]packCase
	for i := 0; i < len(cases); i += packSize {
		j := i + packSize
		if j > len(cases) {
			j = len(cases)
		}
		packs = append(packs, cases[i:j])
	}
	// runPack executes one pack under the variants in only (all of them when only is nil). A pack in which either side
	// ran into the event or time limit decides nothing for its cases: it is split and its parts run again, down to
	// single cases; a single case that still does not finish makes the run inconclusive instead of being dropped.
	var runPack func(pk []packCase, only map[string]bool)
	runPack = func(pk []packCase, only map[string]bool) {
		variants := variants
		if only != nil {
			variants = nil
			for _, v := range variantsAll {
				if only[v.Name] {
					variants = append(variants, v)
				}
			}
		}
		src := srcOf(pk)
		if refOf != nil {
			src = refOf(src) // wrapper applied to the program itself (input of esbuild and reference alike)
		}
		refSrc := src
		var outs []Prog
		var used []packVariant
		for _, v := range variants {
			out, errs := v.Compile(src)
			if len(errs) > 0 {
				atomic.AddInt64(&st.skippedVariants, 1)
				// a whole pack failing to compile is itself suspicious: find the culprit case and report it
				// (not for lowering, where an error for an untransformable feature is legitimate: retry without the culprits)
				if sigPrefix == "lower" {
					var keep []packCase
					for _, c := range pk {
						one := srcOf([]packCase{c})
						if refOf != nil {
							one = refOf(one)
						}
						if _, e2 := v.Compile(one); len(e2) == 0 {
							keep = append(keep, c)
						}
					}
					if len(keep) > 0 && len(keep) < len(pk) {
						sub := srcOf(keep)
						if refOf != nil {
							sub = refOf(sub)
						}
						if out2, e3 := v.Compile(sub); len(e3) == 0 {
							// run this reduced pack on its own
							if pr, err := pool.ExecPair(progScript(sub), progScript(out2), true, false); err == nil {
								atomic.AddInt64(&st.caseRuns, int64(len(keep)))
								if !pr.Equal && !pr.Inconclusive {
									for _, d := range pr.Diffs {
										id := strings.Trim(d.Seg, `"`)
										if c, ok := byID[id]; ok {
											r.Violation(sigPrefix+":"+c.Sig, fmt.Sprintf("behaviour differs under %s: %s  ref=%v out=%v", v.Name, trunc(c.Body, 300), trunc(fmt.Sprint(d.A), 200), trunc(fmt.Sprint(d.B), 200)),
												map[string]interface{}{"case": c, "variant": v.Name, "ref_trace": d.A, "out_trace": d.B, "pack_input": sub, "pack_output": out2})
										}
									}
								}
							}
						}
					}
					continue
				}
				if len(pk) > 1 {
					for _, c := range pk {
						one := srcOf([]packCase{c})
						if refOf != nil {
							one = refOf(one)
						}
						if _, e2 := v.Compile(one); len(e2) > 0 {
							r.Violation(sigPrefix+":compile-error:"+v.Name+":"+c.Sig, fmt.Sprintf("esbuild reports an error for a valid generated case under %s: %s: %s", v.Name, c.Body, e2[0]),
								map[string]interface{}{"case": c, "variant": v.Name, "errors": e2})
							break
						}
					}
				}
				continue
			}
			if out != src {
				atomic.AddInt64(&st.rewritten, 1)
			}
			if v.Kind == "module" {
				outs = append(outs, progModule(out))
			} else {
				outs = append(outs, progScript(out))
			}
			used = append(used, v)
		}
		if len(outs) == 0 {
			return
		}
		res, err := pool.ExecMulti(progScript(refSrc), outs, true)
		if err != nil {
			atomic.AddInt64(&st.oracleErrors, 1)
			return
		}
		atomic.AddInt64(&st.packs, 1)
		atomic.AddInt64(&st.events, int64(res.RefEvents))
		if strings.HasPrefix(res.RefTerm, "syntax") {
			r.Inconclusive("generator produced a pack the reference engine rejects: " + res.RefTerm + " first case " + pk[0].Body)
			return
		}
		for vi, cmp := range res.Results {
			atomic.AddInt64(&st.caseRuns, int64(len(pk)))
			if cmp.Equal {
				continue
			}
			if cmp.Inconclusive {
				r.Count("inconclusive_packs_split", 1)
				if len(pk) == 1 {
					r.Inconclusive(fmt.Sprintf("case %s under %s did not finish within the executor's limits (reference: %s, output: %s): %s", pk[0].Sig, used[vi].Name, cmp.TermA, cmp.TermB, trunc(pk[0].Body, 200)))
					continue
				}
				step := (len(pk) + 7) / 8
				for i := 0; i < len(pk); i += step {
					j := i + step
					if j > len(pk) {
						j = len(pk)
					}
					runPack(pk[i:j], map[string]bool{used[vi].Name: true})
				}
				continue
			}
			if strings.HasPrefix(cmp.TermB, "syntax") && !strings.HasPrefix(cmp.TermA, "syntax") {
				// the whole output does not parse: find the case(s) whose own output is invalid
				found := 0
				for _, c := range pk {
					one := srcOf([]packCase{c})
					if refOf != nil {
						one = refOf(one)
					}
					out1, errs1 := used[vi].Compile(one)
					if len(errs1) > 0 {
						continue
					}
					goal := "script"
					if used[vi].Kind == "module" {
						goal = "module"
					}
					if pr, err := pool.Parse(out1, goal, 0, "v8"); err == nil && pr.V8 != nil && !pr.V8.OK {
						found++
						r.Violation(sigPrefix+":invalid-output:"+c.Sig, fmt.Sprintf("output is not valid JavaScript under %s: %s → %s: %s", used[vi].Name, trunc(c.Body, 200), trunc(out1, 300), pr.V8.Err),
							map[string]interface{}{"case": c, "variant": used[vi].Name, "input": one, "output": out1, "v8": pr.V8.Err})
						if found >= 3 {
							break
						}
					}
				}
				if found > 0 {
					continue
				}
			}
			for _, d := range cmp.Diffs {
				id := strings.Trim(d.Seg, `"`)
				c, ok := byID[id]
				if !ok {
					r.Violation(sigPrefix+":pack-level:"+used[vi].Name+":"+d.Seg, fmt.Sprintf("pack-level difference (%s) under %s: ref=%v out=%v", d.Seg, used[vi].Name, d.A, d.B),
						map[string]interface{}{"variant": used[vi].Name, "pack_first_case": pk[0], "ref": d.A, "out": d.B, "source": trunc(src, 4000)})
					continue
				}
				// confirm alone
				single := srcOf([]packCase{c})
				if refOf != nil {
					single = refOf(single)
				}
				singleRef := single
				out1, errs1 := used[vi].Compile(single)
				alone := false
				var a1, b1 []string
				if len(errs1) == 0 {
					o := progScript(out1)
					if used[vi].Kind == "module" {
						o = progModule(out1)
					}
					if pr, err := pool.ExecPair(progScript(singleRef), o, true, false); err == nil && !pr.Equal {
						alone = true
						for _, dd := range pr.Diffs {
							a1, b1 = dd.A, dd.B
						}
					}
				}
				rep := map[string]interface{}{"case": c, "variant": used[vi].Name, "ref_trace": d.A, "out_trace": d.B, "reproduces_alone": alone}
				if alone {
					rep["input"] = single
					rep["output"] = out1
					rep["ref_trace"] = a1
					rep["out_trace"] = b1
				} else {
					rep["pack_input"] = src
				}
				sig := sigPrefix + ":" + c.Sig
				if used[vi].SigTag != "" {
					sig += "@" + used[vi].SigTag
				}
				r.Violation(sig, fmt.Sprintf("behaviour differs under %s: %s  ref=%v out=%v", used[vi].Name, trunc(c.Body, 300), trunc(fmt.Sprint(d.A), 200), trunc(fmt.Sprint(d.B), 200)), rep)
			}
		}
	}
	parallel(len(packs), pool.Size(), func(pi int) { runPack(packs[pi], nil) })
}
