package main

import (
	"fmt"
	"sort"
	"strings"
)

// graphgen: seeded module graphs whose module bodies are side-effecting (probes), mixing ES modules and
// CommonJS, with live bindings, namespace/default interop, re-exports, export-star, cycles and dynamic
// imports chained from the entry. Exclusions of the properties are respected by construction:
// at most the entry uses top-level await; CommonJS exports are assigned once, in forms Node's lexer detects,
// and never reassigned after load; no direct eval; no import.meta values; no sloppy-only semantics.

type gmod struct {
	idx   int
	kind  string // esm | cjs
	file  string // "/m3.mjs"
	body  strings.Builder
	heads []string // import declarations (ESM)
	tails []string // statements run at the end of the body
}

type ggraph struct {
	Files     map[string]string `json:"files"`
	Entry     string            `json:"entry"`
	EntryKind string            `json:"entryKind"`
	Desc      []string          `json:"desc"` // edge list, for signatures and samples
	WaitFor   string            `json:"waitFor,omitempty"`
	Kinds     map[string]string `json:"kinds"` // module name -> esm|cjs
}

type ggenOpts struct {
	MaxMods    int
	Cycles     bool
	Dynamic    bool
	PkgType    bool // use .js + package.json "type" instead of .mjs/.cjs for some modules
	SideOnly   bool // add side-effect-only and unused-export modules (tree-shaking workloads)
	ESMOnly    bool
	NoDefaults bool
}

type gspec struct {
	Kinds []string    // per module: esm | cjs
	Edges [][3]string // from index, form, to index (as strings)
}

func graphGen(rng *Rng, o ggenOpts) ggraph { return graphGenSpec(rng, o, nil) }

// graphGenSpec builds a graph; with a spec the module kinds and the edges (and their forms) are fixed.
func graphGenSpec(rng *Rng, o ggenOpts, fixedSpec *gspec) ggraph {
	n := 2 + rng.Intn(o.MaxMods-1)
	if fixedSpec != nil {
		n = len(fixedSpec.Kinds)
	}
	mods := make([]*gmod, n)
	typeModule := o.PkgType && rng.Bool()
	for i := 0; i < n; i++ {
		k := "esm"
		if !o.ESMOnly && rng.Intn(100) < 35 {
			k = "cjs"
		}
		if fixedSpec != nil {
			k = fixedSpec.Kinds[i]
		}
		ext := map[string]string{"esm": ".mjs", "cjs": ".cjs"}[k]
		if o.PkgType && rng.Intn(3) == 0 {
			if (k == "esm") == typeModule {
				ext = ".js"
			}
		}
		mods[i] = &gmod{idx: i, kind: k, file: fmt.Sprintf("/m%d%s", i, ext)}
	}
	var desc []string
	name := func(i int) string { return fmt.Sprintf("m%d", i) }
	spec := func(i int) string { return "." + mods[i].file }
	var chain []string // dynamic imports performed sequentially by the entry at its end
	for i := 0; i < n; i++ {
		m := mods[i]
		// choose targets
		nt := rng.Intn(4)
		if i == 0 && nt == 0 {
			nt = 1
		}
		var fixed [][3]string
		if fixedSpec != nil {
			for _, e := range fixedSpec.Edges {
				if e[0] == fmt.Sprint(i) {
					fixed = append(fixed, e)
				}
			}
			nt = len(fixed)
		}
		seen := map[int]bool{}
		for e := 0; e < nt; e++ {
			var j int
			forced := ""
			if fixedSpec != nil {
				fmt.Sscanf(fixed[e][2], "%d", &j)
				forced = fixed[e][1]
			} else if o.Cycles && rng.Intn(100) < 18 && i > 0 {
				j = rng.Intn(i + 1) // back edge or self import
			} else if i+1 < n {
				j = i + 1 + rng.Intn(n-i-1)
			} else {
				continue
			}
			if seen[j] {
				continue
			}
			seen[j] = true
			t := mods[j]
			back := j <= i
			if m.kind == "esm" {
				forms := []string{"named", "ns", "default", "side", "reexport", "star"}
				if o.NoDefaults {
					forms = []string{"named", "ns", "side", "reexport", "star"}
				}
				f := forms[rng.Intn(len(forms))]
				if forced == "dynamic" {
					if i != 0 {
						continue
					}
					desc = append(desc, fmt.Sprintf("%s -dynamic-> %s", name(i), name(j)))
					chain = append(chain, spec2(mods, j))
					continue
				}
				if forced != "" {
					f = forced
				}
				if back && t.kind != "esm" {
					continue
				}
				if back && (f == "default" || f == "star" || f == "reexport") {
					f = "named"
				}
				if t.kind == "cjs" && f == "reexport" && i != 0 {
					f = "star" // (the CommonJS modules here only use the `exports.x = …` form, which Node's lexer detects, so export * has a defined name set)
				}
				desc = append(desc, fmt.Sprintf("%s -%s-> %s", name(i), f, name(j)))
				switch f {
				case "named":
					if t.kind == "esm" {
						m.heads = append(m.heads, fmt.Sprintf("import {v%d as v%d_%d, inc%d as inc%d_%d, c%d as c%d_%d} from %q;", j, j, i, j, j, i, j, j, i, spec(j)))
						if back {
							// only through functions, after everything has loaded
							m.tails = append(m.tails, fmt.Sprintf("export function late%d_%d() { return [typeof inc%d_%d, c%d_%d]; }", i, j, j, i, j, i))
						} else {
							m.tails = append(m.tails, fmt.Sprintf("$(%q, \"sees\", %q, v%d_%d, c%d_%d); $(%q, \"inc\", inc%d_%d(), v%d_%d);", name(i), name(j), j, i, j, i, name(i), j, i, j, i))
						}
					} else {
						m.heads = append(m.heads, fmt.Sprintf("import {v%d as v%d_%d, c%d as c%d_%d} from %q;", j, j, i, j, j, i, spec(j)))
						m.tails = append(m.tails, fmt.Sprintf("$(%q, \"sees-cjs\", %q, v%d_%d, c%d_%d);", name(i), name(j), j, i, j, i))
					}
				case "ns":
					m.heads = append(m.heads, fmt.Sprintf("import * as ns%d_%d from %q;", j, i, spec(j)))
					if back {
						m.tails = append(m.tails, fmt.Sprintf("export function lateNs%d_%d() { return Object.keys(ns%d_%d).sort(); }", i, j, j, i))
					} else {
						m.tails = append(m.tails, fmt.Sprintf("$(%q, \"ns\", %q, Object.keys(ns%d_%d).filter(k => k !== \"module.exports\").sort(), ns%d_%d.v%d, typeof ns%d_%d.default);", name(i), name(j), j, i, j, i, j, j, i))
					}
				case "default":
					m.heads = append(m.heads, fmt.Sprintf("import d%d_%d from %q;", j, i, spec(j)))
					m.tails = append(m.tails, fmt.Sprintf("$(%q, \"default\", %q, typeof d%d_%d === \"function\" ? d%d_%d() : d%d_%d);", name(i), name(j), j, i, j, i, j, i))
				case "side":
					m.heads = append(m.heads, fmt.Sprintf("import %q;", spec(j)))
				case "reexport":
					m.heads = append(m.heads, fmt.Sprintf("export {v%d as re%d_%d, c%d} from %q;", j, j, i, j, spec(j)))
				case "star":
					m.heads = append(m.heads, fmt.Sprintf("export * from %q;", spec(j)))
				}
			} else {
				if back {
					continue
				}
				if t.kind == "cjs" {
					desc = append(desc, fmt.Sprintf("%s -require-> %s", name(i), name(j)))
					m.tails = append(m.tails, fmt.Sprintf("const r%d = require(%q); $(%q, \"req\", %q, Object.keys(r%d).sort(), r%d.v%d);", j, spec(j), name(i), name(j), j, j, j))
				} else if (o.Dynamic || forced == "dynamic") && i == 0 {
					desc = append(desc, fmt.Sprintf("%s -dynamic-> %s", name(i), name(j)))
					chain = append(chain, spec(j))
				}
			}
		}
		if fixedSpec == nil && i == 0 && o.Dynamic && n > 1 && rng.Intn(2) == 0 {
			j := 1 + rng.Intn(n-1)
			desc = append(desc, fmt.Sprintf("%s -dynamic-> %s", name(0), name(j)))
			chain = append(chain, spec(j))
		}
	}
	cyclic := false
	for _, d := range desc {
		f := strings.Fields(d)
		var a, c int
		fmt.Sscanf(f[0], "m%d", &a)
		fmt.Sscanf(f[2], "m%d", &c)
		if c <= a {
			cyclic = true
		}
	}
	files := map[string]string{}
	waitFor := ""
	for i, m := range mods {
		var b strings.Builder
		if m.kind == "esm" {
			for _, h := range m.heads {
				b.WriteString(h + "\n")
			}
			b.WriteString(fmt.Sprintf("$(%q, \"start\");\n", name(i)))
			b.WriteString(fmt.Sprintf("export let v%d = %d;\nexport function inc%d() { v%d++; return v%d; }\nexport const c%d = \"c%d\";\n", i, i*10, i, i, i, i, i))
			if !o.NoDefaults {
				switch rng.Intn(3) {
				case 0:
					b.WriteString(fmt.Sprintf("export default function() { return \"d%d\"; }\n", i))
				case 1:
					b.WriteString(fmt.Sprintf("export default {d: %d};\n", i))
				default:
					b.WriteString(fmt.Sprintf("const dd%d = [%d]; export {dd%d as default};\n", i, i, i))
				}
			}
			if o.SideOnly && rng.Intn(2) == 0 {
				b.WriteString(fmt.Sprintf("export const unused%d = $(%q, \"unused-export-initialiser\");\n", i, name(i)))
			}
			for _, t := range m.tails {
				if cyclic && !strings.HasPrefix(t, "export ") {
					// in a cyclic graph a module may run before the modules it imports: defer every use until the
					// entry has finished loading (temporal-dead-zone errors are not preserved by bundlers and are not the subject here)
					b.WriteString("(globalThis.__late ||= []).push(() => { " + t + " });\n")
				} else if cyclic {
					fnName := t[len("export function "):strings.Index(t, "(")]
					b.WriteString(t + "\n(globalThis.__late ||= []).push(() => $(" + fmt.Sprintf("%q", name(i)) + ", \"late\", " + fnName + "()));\n")
				} else {
					b.WriteString(t + "\n")
				}
			}
			if i == 0 && cyclic {
				b.WriteString("for (const f of globalThis.__late || []) f();\n")
			}
			if i == 0 && len(chain) > 0 {
				for _, s := range chain {
					b.WriteString(fmt.Sprintf("{ const ns = await import(%q); $(\"m0\", \"dyn\", %q, Object.keys(ns).filter(k => k !== \"module.exports\").sort()); }\n", s, s))
				}
			}
			b.WriteString(fmt.Sprintf("$(%q, \"end\");\n", name(i)))
		} else {
			b.WriteString(fmt.Sprintf("$(%q, \"start\");\n", name(i)))
			b.WriteString(fmt.Sprintf("exports.v%d = %d;\nexports.c%d = \"c%d\";\n", i, i*10, i, i))
			for _, t := range m.tails {
				b.WriteString(t + "\n")
			}
			if i == 0 && len(chain) > 0 {
				b.WriteString("var p = Promise.resolve();\n")
				for _, s := range chain {
					b.WriteString(fmt.Sprintf("p = p.then(() => import(%q)).then(ns => { $(\"m0\", \"dyn\", %q, Object.keys(ns).filter(k => k !== \"module.exports\").sort()); });\n", s, s))
				}
				b.WriteString("p.then(() => $(\"chain-done\"), e => $(\"chain-done\", e));\n")
				waitFor = "\"chain-done\""
			}
			b.WriteString(fmt.Sprintf("$(%q, \"end\");\n", name(i)))
		}
		files[m.file] = b.String()
	}
	if o.PkgType {
		if typeModule {
			files["/package.json"] = `{"type": "module"}`
		} else {
			files["/package.json"] = `{"type": "commonjs"}`
		}
	}
	sort.Strings(desc)
	kinds := map[string]string{}
	for i, m := range mods {
		kinds[name(i)] = m.kind
	}
	return ggraph{Files: files, Entry: mods[0].file, EntryKind: mods[0].kind, Desc: desc, WaitFor: waitFor, Kinds: kinds}
}

// entryStarReachesCJS: does the entry re-export (transitively, through export *) the names of a CommonJS module?
// An esm-format bundle cannot list those names statically (documented limitation of bundlers).
func (g ggraph) entryStarReachesCJS() bool {
	seen := map[string]bool{"m0": true}
	queue := []string{"m0"}
	for len(queue) > 0 {
		cur := queue[0]
		queue = queue[1:]
		for _, d := range g.Desc {
			f := strings.Fields(d)
			if len(f) == 3 && f[0] == cur && f[1] == "-star->" {
				if g.Kinds[f[2]] == "cjs" {
					return true
				}
				if !seen[f[2]] {
					seen[f[2]] = true
					queue = append(queue, f[2])
				}
			}
		}
	}
	return false
}

func spec2(mods []*gmod, j int) string { return "." + mods[j].file }

// graphChains enumerates every chain m0 → m1 → … of the given length over module kinds and edge forms
// (bounded-exhaustive small shapes); invalid combinations (CommonJS requiring ESM, …) are dropped by the builder.
func graphChains(length int) []gspec {
	var out []gspec
	forms := []string{"named", "ns", "default", "side", "reexport", "star", "dynamic", "require"}
	var rec func(kinds []string, edges [][3]string)
	rec = func(kinds []string, edges [][3]string) {
		if len(kinds) == length {
			out = append(out, gspec{Kinds: append([]string{}, kinds...), Edges: append([][3]string{}, edges...)})
			return
		}
		i := len(kinds) - 1
		for _, k := range []string{"esm", "cjs"} {
			for _, f := range forms {
				if f == "dynamic" && i != 0 {
					continue
				}
				from := kinds[i]
				if from == "cjs" && !(f == "require" && k == "cjs") && !(f == "dynamic") {
					continue
				}
				if from == "esm" && f == "require" {
					continue
				}
				rec(append(kinds, k), append(edges, [3]string{fmt.Sprint(i), f, fmt.Sprint(i + 1)}))
			}
		}
	}
	rec([]string{"esm"}, nil)
	rec([]string{"cjs"}, nil)
	return out
}

// starCycleGraphs: export-star cycles (2-3 ES modules that `export *` each other in a ring), one member of which
// also star-exports a leaf (CommonJS or ESM); the entry imports the members' namespaces in every rotation and reads
// the leaf's names statically (ns.foo), by key list and — for an ESM leaf — through named imports.
func starCycleGraphs() []ggraph {
	var out []ggraph
	for _, L := range []int{2, 3} {
		for holder := 0; holder < L; holder++ {
			for _, leafKind := range []string{"cjs", "esm"} {
				for first := 0; first < L; first++ {
					files := map[string]string{}
					leaf := "/leaf.cjs"
					if leafKind == "esm" {
						leaf = "/leaf.mjs"
						files[leaf] = "$(\"leaf\", \"start\");\nexport const foo = \"foo-from-leaf\";\nexport let bar = 2;\n"
					} else {
						files[leaf] = "$(\"leaf\", \"start\");\nexports.foo = \"foo-from-leaf\";\nexports.bar = 2;\n"
					}
					for k := 0; k < L; k++ {
						body := fmt.Sprintf("export * from \"./c%d.mjs\";\n", (k+1)%L)
						if k == holder {
							body += fmt.Sprintf("export * from \".%s\";\n", leaf)
						}
						body += fmt.Sprintf("$(\"c%d\", \"start\");\nexport const own%d = \"own%d\";\n", k, k, k)
						files[fmt.Sprintf("/c%d.mjs", k)] = body
					}
					var entry strings.Builder
					for r := 0; r < L; r++ {
						k := (first + r) % L
						entry.WriteString(fmt.Sprintf("import * as ns%d from \"./c%d.mjs\";\n", k, k))
					}
					if leafKind == "esm" {
						entry.WriteString(fmt.Sprintf("import {foo as fooNamed, own%d as ownNamed} from \"./c%d.mjs\";\n", holder, (holder+1)%L))
					}
					entry.WriteString("export const done = 1;\n$(\"entry\", \"start\");\n")
					for k := 0; k < L; k++ {
						entry.WriteString(fmt.Sprintf("$(\"entry\", \"ns%d\", ns%d.foo, ns%d.bar, ns%d.own0, ns%d.own%d, Object.keys(ns%d).sort());\n", k, k, k, k, k, L-1, k))
					}
					if leafKind == "esm" {
						entry.WriteString("$(\"entry\", \"named\", fooNamed, ownNamed);\n")
					}
					files["/entry.mjs"] = entry.String()
					kinds := map[string]string{"entry": "esm", "leaf": leafKind}
					out = append(out, ggraph{Files: files, Entry: "/entry.mjs", EntryKind: "esm", Kinds: kinds,
						Desc: []string{fmt.Sprintf("star-cycle L=%d holder=c%d leaf=%s first=c%d", L, holder, leafKind, first)}})
				}
			}
		}
	}
	return out
}

// starDiamondGraphs: a module with two `export *` arms that both provide the same names from one original binding
// (so the names are not ambiguous), the arms being named re-exports, import-then-export pairs or further `export *`;
// the module is the entry point, or is consumed as a namespace object by the entry.
func starDiamondGraphs() []ggraph {
	arms := []string{
		"export {x, y} from \"./d.mjs\";\n",
		"import {x, y} from \"./d.mjs\";\nexport {x, y};\n",
		"export * from \"./d.mjs\";\n",
		"export {x} from \"./d.mjs\";\nexport {y} from \"./d.mjs\";\nexport const onlyHere%d = %d;\n",
	}
	var out []ggraph
	for ai, a := range arms {
		for bi, b := range arms {
			for _, asEntry := range []bool{true, false} {
				fa, fb := a, b
				if strings.Contains(fa, "%d") {
					fa = fmt.Sprintf(fa, 1, 1)
				}
				if strings.Contains(fb, "%d") {
					fb = fmt.Sprintf(fb, 2, 2)
				}
				files := map[string]string{
					"/d.mjs": "$(\"d\", \"start\");\nexport let x = \"x-from-d\";\nexport const y = \"y-from-d\";\nexport function setX(v) { x = v; }\n",
					"/b.mjs": "$(\"b\", \"start\");\n" + fa,
					"/c.mjs": "$(\"c\", \"start\");\n" + fb,
					"/m.mjs": "export * from \"./b.mjs\";\nexport * from \"./c.mjs\";\n$(\"m\", \"start\");\nexport const own = \"own-m\";\n",
				}
				entry := "/m.mjs"
				if !asEntry {
					entry = "/entry.mjs"
					files["/entry.mjs"] = "import * as ns from \"./m.mjs\";\nimport {setX} from \"./d.mjs\";\nexport const done = 1;\n$(\"entry\", \"ns\", Object.keys(ns).sort(), ns.x, ns.y, ns.own);\nsetX(\"changed\");\n$(\"entry\", \"live\", ns.x, ns[\"x\"]);\n"
				}
				out = append(out, ggraph{Files: files, Entry: entry, EntryKind: "esm", Kinds: map[string]string{"m": "esm"},
					Desc: []string{fmt.Sprintf("star-diamond armB=%d armC=%d entry=%v", ai, bi, asEntry)}})
			}
		}
	}
	return out
}

// throwGraphs: modules whose evaluation throws, loaded more than once ("the same errors are thrown"): an ES module that
// throws half-way is imported dynamically twice, directly and through a module that imports it statically; natively
// every later load fails again with the very same error object and no body runs twice. Variants: which load comes
// first, an entry whose static dependency throws (the whole program fails), and a CommonJS entry that loads the
// ES modules with import().
func throwGraphs() []ggraph {
	bad := "$(\"bad\", \"start\");\nexport let v = 1;\nfailNow();\nexport let w = 2;\n$(\"bad\", \"unreachable\");\nfunction failNow() { $(\"bad\", \"throwing\", v); throw new Error(\"@bad-init\"); }\n"
	user := "import {v} from \"./bad.mjs\";\n$(\"user\", \"start\", v);\nexport const u = 1;\n"
	ok := "$(\"ok\", \"start\");\nexport const k = 1;\n"
	loader := "var first;\nfunction load(tag, f) { return f().then(function (ns) { $(\"entry\", tag, \"ok\", Object.keys(ns).sort()); }, function (e) { $(\"entry\", tag, \"rejected\", e, first === undefined ? (first = e, \"first\") : e === first); }); }\n"
	orders := [][]string{
		{"bad", "bad", "user", "user", "ok"},
		{"user", "bad", "user", "ok", "bad"},
		{"ok", "user", "user", "bad"},
		{"bad", "ok", "bad", "user"},
	}
	var out []ggraph
	for oi, ord := range orders {
		for _, entryKind := range []string{"esm", "cjs"} {
			var e strings.Builder
			e.WriteString("$(\"entry\", \"start\");\n" + loader + "var p = Promise.resolve();\n")
			for k, m := range ord {
				e.WriteString(fmt.Sprintf("p = p.then(function () { return load(\"%s-%d\", function () { return import(\"./%s.mjs\"); }); });\n", m, k, m))
			}
			e.WriteString("p.then(function () { $(\"chain-done\"); });\n")
			files := map[string]string{"/bad.mjs": bad, "/user.mjs": user, "/ok.mjs": ok}
			entry := "/entry.mjs"
			if entryKind == "cjs" {
				entry = "/entry.cjs"
				e.WriteString("exports.done = 1;\n")
			} else {
				e.WriteString("export const done = 1;\n")
			}
			files[entry] = e.String()
			out = append(out, ggraph{Files: files, Entry: entry, EntryKind: entryKind, WaitFor: "\"chain-done\"", Kinds: map[string]string{"entry": entryKind, "bad": "esm"},
				Desc: []string{fmt.Sprintf("throwing-module order=%d entry=%s", oi, entryKind)}})
		}
	}
	// the entry's own static dependency throws: the program as a whole fails after the modules before it have run
	out = append(out, ggraph{Files: map[string]string{"/bad.mjs": bad, "/ok.mjs": ok, "/after.mjs": "$(\"after\", \"start\");\n",
		"/entry.mjs": "import \"./ok.mjs\";\nimport {v} from \"./bad.mjs\";\nimport \"./after.mjs\";\n$(\"entry\", \"start\", v);\nexport const done = 1;\n"},
		Entry: "/entry.mjs", EntryKind: "esm", Kinds: map[string]string{"entry": "esm"}, Desc: []string{"throwing-module static-dependency-of-entry"}})
	return out
}
