package main

import (
	"encoding/json"
	"fmt"
	"html"
	"os"
	"os/exec"
	"path/filepath"
	"regexp"
	"strings"
	"sync"
	"sync/atomic"
	"time"

	"github.com/evanw/esbuild/pkg/api"
)

func init() { registry["C12"] = checkC12 }

// one comparison for the browser: sheet A (reference) and sheet B (esbuild's output) on the same DOM
type chromeCase struct {
	ID       int      `json:"id"`
	A        string   `json:"a"`
	B        string   `json:"b"`
	Alt      string   `json:"alt,omitempty"` // the reference in an environment that understands more (differences that match it are waived)
	Dom      string   `json:"dom,omitempty"`
	DomA     string   `json:"domA,omitempty"`
	DomB     string   `json:"domB,omitempty"`
	Widths   []int    `json:"widths"`
	Custom   []string `json:"custom,omitempty"`
	AllDiffs bool     `json:"allDiffs,omitempty"`
}
type chromeDiff struct {
	El    string `json:"el"`
	Prop  string `json:"prop"`
	A     string `json:"a"`
	B     string `json:"b"`
	Width int    `json:"width"`
}
type chromeResult struct {
	ID       int          `json:"id"`
	Width    int          `json:"width"`
	Compared int          `json:"compared"`
	Rows     int          `json:"rows"`
	Diffs    []chromeDiff `json:"diffs"`
	Error    string       `json:"error"`
}

func chromePath() string {
	if p := os.Getenv("VERIF_CHROME"); p != "" {
		return p
	}
	m, _ := filepath.Glob("/root/.cache/puppeteer/chrome-headless-shell/*/chrome-headless-shell-linux64/chrome-headless-shell")
	if len(m) > 0 {
		return m[len(m)-1]
	}
	for _, c := range []string{"chrome-headless-shell", "chromium", "google-chrome"} {
		if p, err := exec.LookPath(c); err == nil {
			return p
		}
	}
	return ""
}

var chromeOutRe = regexp.MustCompile(`(?s)<pre id="out">(.*?)</pre>`)

// runChrome evaluates a batch of cases in one headless Chrome process.
func runChrome(bin, scratch string, batch int, cases []chromeCase) ([]chromeResult, error) {
	page, err := os.ReadFile(filepath.Join(verifRoot(), "oracle", "chrome_page.js"))
	if err != nil {
		return nil, err
	}
	cj, _ := json.Marshal(cases)
	pj, _ := json.Marshal(cssReadProps)
	esc := func(b []byte) string { return strings.ReplaceAll(string(b), "</", "<\\/") }
	doc := "<!doctype html><html><head><meta charset=\"utf-8\"><title>RUN</title></head><body><pre id=\"out\"></pre>\n<script type=\"application/json\" id=\"cases\">" + esc(cj) +
		"</script>\n<script type=\"application/json\" id=\"props\">" + esc(pj) + "</script>\n<script>" + string(page) + "</script></body></html>"
	path := filepath.Join(scratch, fmt.Sprintf("batch%d.html", batch))
	if err := os.WriteFile(path, []byte(doc), 0o644); err != nil {
		return nil, err
	}
	prof := filepath.Join(scratch, fmt.Sprintf("prof%d", batch))
	cmd := exec.Command(bin, "--no-sandbox", "--disable-gpu", "--disable-dev-shm-usage", "--user-data-dir="+prof, "--virtual-time-budget=900000", "--dump-dom", "file://"+path)
	cmd.Env = append(os.Environ(), "HOME="+scratch)
	done := make(chan struct{})
	var out []byte
	go func() { out, err = cmd.Output(); close(done) }()
	select {
	case <-done:
	case <-time.After(10 * time.Minute):
		cmd.Process.Kill()
		<-done
		return nil, fmt.Errorf("chrome watchdog fired")
	}
	os.RemoveAll(prof)
	os.Remove(path)
	m := chromeOutRe.FindSubmatch(out)
	if m == nil || len(m[1]) == 0 {
		return nil, fmt.Errorf("chrome produced no result (%v; %d bytes of output)", err, len(out))
	}
	var res []chromeResult
	if e := json.Unmarshal([]byte(html.UnescapeString(string(m[1]))), &res); e != nil {
		return nil, e
	}
	return res, nil
}

type c12Meta struct {
	kind    string
	variant string
	replay  map[string]interface{}
	sig     string
}

type c12Stats struct {
	transforms, rejected, bundles, modules, chromeCases, chromePairs, compared, batches, changed int64
}

type c12Variant struct {
	name    string
	minify  int // 0 none, 1 syntax, 2 all
	engines []api.Engine
}

func c12Variants() []c12Variant {
	old := []api.Engine{{Name: api.EngineChrome, Version: "50"}, {Name: api.EngineFirefox, Version: "50"}, {Name: api.EngineSafari, Version: "10"}}
	mid := []api.Engine{{Name: api.EngineChrome, Version: "100"}, {Name: api.EngineFirefox, Version: "100"}, {Name: api.EngineSafari, Version: "15"}}
	return []c12Variant{
		{"plain", 0, nil}, {"minify-syntax", 1, nil}, {"minify", 2, nil},
		{"lower-old", 0, old}, {"lower-old,minify", 2, old}, {"lower-mid,minify", 2, mid}, {"lower-mid", 0, mid},
	}
}

func checkC12(r *Run) {
	bin := chromePath()
	r.Rule("style sheets from a grammar dense in competing rules (few selectors/properties; duplicate and same-body rules; shorthand/longhand interleavings; every colour notation, numeric form, calc tree; !important; custom properties; @media (old and range syntax), @supports, @layer, @container, nesting with & in every position, :is/:where/:not; malformed constructs) compiled by esbuild (css loader × 7 minify/target variants), " +
		"@import graphs (diamonds, cycles, conditional and layered imports) bundled and compared with the generator's own inlining, and CSS-module files (local-css) whose exported names are applied to the DOM; every pair (reference sheet, esbuild's sheet) is loaded into headless Chrome on the same 16-element DOM at 3 viewport widths and getComputedStyle of every element and pseudo-element is compared for 80 longhand properties plus the custom properties used. non-trivial = distinct pair whose two sheets differ textually and that Chrome evaluated")
	r.Assume("Chrome 147's style engine is the reference environment (it understands all of the generated syntax, so 'equal in every environment that understands all of the input' is checked there; environments that understand less are not modelled)")
	r.Assume("computed colours may differ by one 8-bit step and 0.006 alpha, lengths by 0.02px (rounding of rewritten values)")
	if bin == "" {
		r.Inconclusive("no headless Chrome binary found (set VERIF_CHROME); the cascade oracle cannot run")
		return
	}
	scratch, _ := os.MkdirTemp("/tmp", "verif-c12-")
	defer os.RemoveAll(scratch)
	var st c12Stats
	var mu sync.Mutex
	var cases []chromeCase
	metas := map[int]c12Meta{}
	add := func(c chromeCase, m c12Meta) {
		mu.Lock()
		c.ID = len(cases)
		c.Widths = []int{320, 700, 1100}
		cases = append(cases, c)
		metas[c.ID] = m
		mu.Unlock()
	}
	variants := c12Variants()
	n := r.pick(500, 4000)
	parallel(n, 0, func(i int) {
		rng := newRng(r.Seed, fmt.Sprint("c12", i))
		modern := i%2 == 0
		hostile := i%5 == 4
		g := newCssgen(rng, modern, hostile)
		g.modernVal = i%4 < 3
		src := g.Sheet(4 + rng.Intn(10))
		if i < 2 {
			r.Sample(map[string]interface{}{"kind": "sheet", "modern": modern, "hostile": hostile, "head": trunc(src, 500)})
		}
		vs := variants
		if r.quick() {
			vs = []c12Variant{variants[rng.Intn(len(variants))], variants[rng.Intn(len(variants))]}
		}
		seen := map[string]bool{}
		for _, v := range vs {
			if modern && v.engines != nil && v.engines[0].Version == "50" && i%10 != 0 {
				// targets without :is(): nesting is expanded approximately (a listed finding); kept to a tenth of the modern sheets
				v = variants[5+rng.Intn(2)]
			}
			o := api.TransformOptions{Loader: api.LoaderCSS, MinifySyntax: v.minify >= 1, MinifyWhitespace: v.minify >= 2, Engines: v.engines}
			res, pan := transformSafe(src, o)
			atomic.AddInt64(&st.transforms, 1)
			if pan != "" {
				r.Violation("css:panic", "esbuild panicked: "+pan, map[string]interface{}{"input": src, "variant": v.name})
				continue
			}
			if len(res.Errors) > 0 {
				atomic.AddInt64(&st.rejected, 1)
				continue
			}
			out := string(res.Code)
			if out == src || seen[out] {
				continue
			}
			seen[out] = true
			atomic.AddInt64(&st.changed, 1)
			if g.features["bad-selector-in-list"] && g.features["nesting"] && v.engines != nil {
				// A selector list with an invalid selector invalidates the whole rule natively, nested rules included;
				// lowered nesting wraps the list in the forgiving :is(), so the nested rules apply — which is how an
				// environment that understands the unknown selector would behave (allowed by the property).
				r.Count("skipped_lowered_nesting_under_invalid_selector_list", 1)
				continue
			}
			// known deviations that this (sheet, variant) can run into; they select the signature (see known_findings.jsonl)
			var tags []string
			if g.features["nesting"] && v.engines != nil && v.engines[0].Version == "50" {
				tags = append(tags, "expanded-nesting") // no :is() in the target: parent selector lists are multiplied out, specificity of :is() is lost
			}
			if strings.Contains(src, "calc(-1 * (1px + 2px))") && v.minify >= 1 {
				tags = append(tags, "negative-calc")
			}
			if strings.Contains(src, "a/**/b") {
				tags = append(tags, "comment-between-custom-property-tokens")
			}
			if v.minify >= 1 && cssNegativePadding.MatchString(src) {
				tags = append(tags, "negative-padding")
			}
			if g.features["trailing-decl"] {
				tags = append(tags, "declaration-after-nested-rule")
			}
			if hostile && g.features["layer-order"] && v.engines != nil {
				// an unclosed style rule earlier in a malformed sheet makes the layer-order statement a *nested* statement
				tags = append(tags, "layer-statement-inside-style-rule")
			}
			sig := ""
			if len(tags) > 0 {
				sig = "deviation[" + strings.Join(tags, ",") + "]:"
			}
			add(chromeCase{A: src, B: out, Dom: cssDOM, Custom: g.customList()}, c12Meta{kind: "transform", variant: v.name, sig: sig, replay: map[string]interface{}{"input": src, "variant": v.name, "output": out, "modern": modern, "hostile": hostile, "known_deviation_tags": tags}})
			// the same pair in environments that understand less: the newer selector pseudo-classes (or the newer colour
			// functions) are renamed to unknown ones in both sheets, which makes Chrome drop the rules (declarations) that use
			// them exactly as a browser without that syntax would. Only without a target: lowering is allowed to add :is().
			if v.engines == nil && i%2 == 0 {
				for ei, env := range c12Envs {
					la, lb := env.re.ReplaceAllString(src, env.repl), env.re.ReplaceAllString(out, env.repl)
					if la == src && lb == out {
						continue
					}
					add(chromeCase{A: la, B: lb, Alt: src, Dom: cssDOM, Custom: g.customList()}, c12Meta{kind: "transform-env-" + env.name, variant: v.name, sig: sig, replay: map[string]interface{}{"input": src, "variant": v.name, "output": out, "environment": env.name, "input_in_environment": la, "output_in_environment": lb, "known_deviation_tags": tags}})
					_ = ei
				}
			}
		}
	})
	c12Imports(r, &st, add)
	c12Modules(r, &st, add)

	if lim := os.Getenv("VERIF_C12_LIMIT"); lim != "" {
		var k int
		fmt.Sscan(lim, &k)
		if k > 0 && k < len(cases) {
			cases = cases[:k]
		}
	}
	// evaluate in Chrome, 120 cases per process, 4 processes at a time
	const per = 120
	nb := (len(cases) + per - 1) / per
	var failed int64
	parallel(nb, 4, func(bi int) {
		lo, hi := bi*per, (bi+1)*per
		if hi > len(cases) {
			hi = len(cases)
		}
		res, err := runChrome(bin, scratch, bi, cases[lo:hi])
		atomic.AddInt64(&st.batches, 1)
		if err != nil {
			// one more attempt (a loaded machine can starve a renderer)
			r.Count("chrome_batches_retried", 1)
			res, err = runChrome(bin, scratch, bi+100000, cases[lo:hi])
		}
		if err != nil {
			atomic.AddInt64(&failed, 1)
			fmt.Printf("  note: chrome batch %d failed: %v\n", bi, err)
			return
		}
		byCase := map[int]bool{}
		for _, cr := range res {
			atomic.AddInt64(&st.chromePairs, 1)
			atomic.AddInt64(&st.compared, int64(cr.Compared))
			m := metas[cr.ID]
			if cr.Error != "" {
				r.Count("chrome_case_errors", 1)
				continue
			}
			if !byCase[cr.ID] {
				byCase[cr.ID] = true
				atomic.AddInt64(&st.chromeCases, 1)
				r.Eval(1)
				r.Nontrivial(fmt.Sprint(m.kind, cases[cr.ID].A, cases[cr.ID].B))
			}
			for _, d := range cr.Diffs {
				rp := map[string]interface{}{"element": d.El, "property": d.Prop, "reference_value": d.A, "output_value": d.B, "viewport_width": d.Width}
				for k, v := range m.replay {
					rp[k] = v
				}
				sig := "css:" + m.kind + ":" + d.Prop + ":" + cssValueClass(d.A) + "→" + cssValueClass(d.B)
				if m.sig != "" {
					sig = "css:" + m.kind + ":" + strings.TrimSuffix(m.sig, ":")
				}
				r.Violation(sig, fmt.Sprintf("%s (%s): computed %s of element %s at width %d is %q with the reference sheet and %q with esbuild's output", m.kind, m.variant, d.Prop, d.El, d.Width, trunc(d.A, 80), trunc(d.B, 80)), rp)
				break
			}
		}
	})
	r.Count("css_transforms", int(st.transforms))
	r.Count("css_transforms_rejected", int(st.rejected))
	r.Count("outputs_differing_from_input", int(st.changed))
	r.Count("import_graph_bundles", int(st.bundles))
	r.Count("css_module_builds", int(st.modules))
	r.Count("chrome_processes", int(st.batches))
	r.Count("sheet_pairs_evaluated_in_chrome", int(st.chromeCases))
	r.Count("pair_x_viewport_evaluations", int(st.chromePairs))
	r.Count("computed_values_compared", int(st.compared))
	r.Extra("chrome", bin)
	if failed > 0 || st.chromeCases < int64(len(cases))*9/10 || st.compared == 0 {
		r.Inconclusive(fmt.Sprintf("%d Chrome batches failed; %d of %d sheet pairs were evaluated", failed, st.chromeCases, len(cases)))
	}
}

var cssNumRe = regexp.MustCompile(`-?\d+(\.\d+)?`)

func cssValueClass(v string) string {
	return trunc(cssNumRe.ReplaceAllString(v, "N"), 30)
}

// ---------------------------------------------------------------------------------------------------
// @import graphs

// environments that understand less, emulated in Chrome by renaming syntax to unknown syntax in both sheets
var c12Envs = []struct {
	name string
	re   *regexp.Regexp
	repl string
}{
	{"no-selector-list-pseudo-classes", regexp.MustCompile(`:(is|where|has|not)\(`), ":-x-$1("},
}

// a padding declaration with a negative (hence invalid) component
var cssNegativePadding = regexp.MustCompile(`padding(-[a-z]+)?\s*:[^;{}]*[\s:]-(\d*\.)?\d*[1-9]`)

func dedupStrings(xs []string) []string {
	seen := map[string]bool{}
	var out []string
	for _, x := range xs {
		if !seen[x] {
			seen[x] = true
			out = append(out, x)
		}
	}
	return out
}

type cssImport struct {
	target int
	cond   string // text after the URL: layer(...) supports(...) media
	layer  string // "", "-" for anonymous, or a name
	supp   string
	media  string
}
type cssFile struct {
	pre     string // @layer statements allowed before imports
	imports []cssImport
	body    string
}

func c12InlineFile(files []cssFile, i int, stack []int) string {
	for _, s := range stack {
		if s == i {
			return "" // a cyclic import is ignored
		}
	}
	f := files[i]
	var b strings.Builder
	b.WriteString(f.pre)
	for _, im := range f.imports {
		inner := c12InlineFile(files, im.target, append(stack, i))
		if im.layer == "-" {
			inner = "@layer {\n" + inner + "}\n"
		} else if im.layer != "" {
			inner = "@layer " + im.layer + " {\n" + inner + "}\n"
		}
		if im.supp != "" {
			inner = "@supports " + im.supp + " {\n" + inner + "}\n"
		}
		if im.media != "" {
			inner = "@media " + im.media + " {\n" + inner + "}\n"
		}
		b.WriteString(inner)
	}
	b.WriteString(f.body)
	return b.String()
}

func c12Imports(r *Run, st *c12Stats, add func(chromeCase, c12Meta)) {
	n := r.pick(200, 1500)
	parallel(n, 0, func(i int) {
		rng := newRng(r.Seed, fmt.Sprint("c12imp", i))
		nf := 2 + rng.Intn(4)
		// every third graph is a chain of conditional imports (depth 2-5) whose last file imports 2-3 siblings under
		// different conditions: nested conditions accumulate along the chain and must fork per sibling
		deep := i%3 == 0
		depth, sib := 2+rng.Intn(4), 2+rng.Intn(2)
		if deep {
			nf = depth + 1 + sib
		}
		files := make([]cssFile, nf)
		custom := map[string]bool{}
		for k := 0; k < nf; k++ {
			g := newCssgen(rng.Fork(fmt.Sprint("f", k)), true, false)
			g.noURL = true
			files[k].body = fmt.Sprintf("/* file %d */\n", k) + g.Sheet(2+rng.Intn(4))
			// .box container declaration once is enough but harmless in every file
			if rng.Intn(4) == 0 {
				files[k].pre = rng.Pick([]string{"@layer l1, l2;\n", "@layer l2;\n", "@layer l3, l1;\n"})
			}
			for c := range g.custom {
				custom[c] = true
			}
			// imports: mostly to later files (DAG with diamonds), sometimes backwards (cycles) or to itself
			ni := rng.Intn(3)
			if deep {
				ni = 0
			}
			for j := 0; j < ni; j++ {
				t := rng.Intn(nf)
				if t <= k && rng.Intn(4) != 0 {
					t = k + 1 + rng.Intn(nf-k)
					if t >= nf {
						continue
					}
				}
				im := cssImport{target: t}
				switch rng.Intn(8) {
				case 0:
					im.media = rng.Pick([]string{"(min-width: 500px)", "screen", "(max-width: 900px)", "not all", "(width >= 500px)"})
				case 1:
					im.layer = rng.Pick([]string{"l1", "l2", "l9", "-"})
				case 2:
					im.supp = rng.Pick([]string{"(display: grid)", "(display: nonsense)", "not (display: nonsense)"})
				case 3:
					im.layer, im.media = rng.Pick([]string{"l1", "-"}), "(min-width: 500px)"
				case 4:
					im.layer, im.supp, im.media = "l2", "(display: grid)", "screen"
				}
				if im.layer == "-" {
					im.cond += " layer"
				} else if im.layer != "" {
					im.cond += " layer(" + im.layer + ")"
				}
				if im.supp != "" {
					im.cond += " supports(" + im.supp + ")"
				}
				if im.media != "" {
					im.cond += " " + im.media
				}
				files[k].imports = append(files[k].imports, im)
			}
		}
		if deep {
			mk := func(t int, media, layer, supp string) cssImport {
				im := cssImport{target: t, media: media, layer: layer, supp: supp}
				if layer == "-" {
					im.cond += " layer"
				} else if layer != "" {
					im.cond += " layer(" + layer + ")"
				}
				if supp != "" {
					im.cond += " supports(" + supp + ")"
				}
				if media != "" {
					im.cond += " " + media
				}
				return im
			}
			for k := 0; k < depth; k++ {
				// conditions along the chain are true in at least one of the viewports used
				switch rng.Intn(6) {
				case 0:
					files[k].imports = append(files[k].imports, mk(k+1, "screen", "", ""))
				case 1:
					files[k].imports = append(files[k].imports, mk(k+1, "(min-width: 100px)", "", ""))
				case 2:
					files[k].imports = append(files[k].imports, mk(k+1, "", "", "(display: grid)"))
				case 3:
					files[k].imports = append(files[k].imports, mk(k+1, "all", rng.Pick([]string{"l1", "-"}), ""))
				case 4:
					files[k].imports = append(files[k].imports, mk(k+1, "(max-width: 5000px)", "", ""))
				default:
					files[k].imports = append(files[k].imports, mk(k+1, "", "", ""))
				}
			}
			conds := []string{"(min-width: 500px)", "(max-width: 499px)", "print", "not all", "(min-width: 900px)", "screen", "(width >= 500px)", ""}
			rng.Shuffle(len(conds), func(a, b int) { conds[a], conds[b] = conds[b], conds[a] })
			for j := 0; j < sib; j++ {
				files[depth].imports = append(files[depth].imports, mk(depth+1+j, conds[j], "", ""))
			}
		}
		vfs := map[string]string{}
		for k, f := range files {
			var b strings.Builder
			b.WriteString(f.pre)
			for _, im := range f.imports {
				fmt.Fprintf(&b, "@import %s%s;\n", rng.Pick([]string{fmt.Sprintf("\"./f%d.css\"", im.target), fmt.Sprintf("url(./f%d.css)", im.target), fmt.Sprintf("url(\"./f%d.css\")", im.target)}), im.cond)
			}
			b.WriteString(f.body)
			vfs[fmt.Sprintf("/f%d.css", k)] = b.String()
		}
		ref := c12InlineFile(files, 0, nil)
		for _, minify := range []bool{false, true} {
			if r.quick() && minify != (i%2 == 0) {
				continue
			}
			res, pan := buildSafe(api.BuildOptions{EntryPoints: []string{"/f0.css"}, Bundle: true, Write: false, Outdir: "/out", MinifySyntax: minify, MinifyWhitespace: minify, Plugins: []api.Plugin{memPlugin(vfs)}})
			atomic.AddInt64(&st.bundles, 1)
			if pan != "" {
				r.Violation("css:import:panic", "esbuild panicked: "+pan, map[string]interface{}{"files": vfs})
				continue
			}
			if len(res.Errors) > 0 {
				atomic.AddInt64(&st.rejected, 1)
				continue
			}
			var out string
			for _, f := range res.OutputFiles {
				if strings.HasSuffix(f.Path, ".css") {
					out = string(f.Contents)
				}
			}
			var cl []string
			for c := range custom {
				cl = append(cl, c)
			}
			sortStrings(cl)
			sig := ""
			var tags []string
			if strings.Contains(ref, "calc(-1 * (1px + 2px))") && minify {
				tags = append(tags, "negative-calc")
			}
			if strings.Contains(ref, "a/**/b") {
				tags = append(tags, "comment-between-custom-property-tokens")
			}
			if minify && cssNegativePadding.MatchString(ref) {
				tags = append(tags, "negative-padding")
			}
			incoming := map[int]int{}
			layered := map[int]bool{}
			for _, f := range files {
				for _, im := range f.imports {
					if im.layer == "-" && len(files[im.target].imports) > 0 {
						tags = append(tags, "anonymous-layer-import-of-a-file-with-imports")
					}
					incoming[im.target]++
					if im.layer != "" {
						layered[im.target] = true
					}
				}
			}
			for t, n := range incoming {
				if n > 1 && layered[t] && strings.Contains(strings.ToLower(ref), "important") {
					tags = append(tags, "layered-duplicate-import-with-important")
				}
			}
			if len(tags) > 0 {
				sig = "deviation[" + strings.Join(dedupStrings(tags), ",") + "]:"
			}
			add(chromeCase{A: ref, B: out, Dom: cssDOM, Custom: cl}, c12Meta{sig: sig, kind: "import-graph", variant: fmt.Sprintf("bundle,minify=%v", minify), replay: map[string]interface{}{"files": vfs, "reference_inlining": ref, "output": out, "minify": minify}})
		}
	})
}

// ---------------------------------------------------------------------------------------------------
// CSS modules (local-css): names exported to JavaScript are applied to the DOM

var cssClassRe = regexp.MustCompile(`([.#])(a|b|c|box|r|p1)\b`)
var cssDomNameRe = regexp.MustCompile(`(class|id)="([^"]*)"`)

func c12Modules(r *Run, st *c12Stats, add func(chromeCase, c12Meta)) {
	pool := r.Pool()
	n := r.pick(150, 1200)
	parallel(n, pool.Size(), func(i int) {
		rng := newRng(r.Seed, fmt.Sprint("c12mod", i))
		nm := 1 + rng.Intn(2)
		vfs := map[string]string{}
		var refSheet strings.Builder
		var js strings.Builder
		custom := map[string]bool{}
		for k := 0; k < nm; k++ {
			g := newCssgen(rng.Fork(fmt.Sprint("m", k)), false, false)
			g.noURL, g.plainSel, g.modernVal = true, true, true
			src := g.Sheet(3 + rng.Intn(6))
			src = strings.ReplaceAll(strings.ReplaceAll(src, "animation: k 1s", "opacity: 1"), "animation-name: k", "opacity: 1") // keyframe names are local too: their computed value is the new name
			src = strings.ReplaceAll(src, "animation: 0.5s ease-in 0s 1 normal none running k2", "opacity: 1")
			// keep the text rewritable by name: no escaped spellings of class names, no case variants of ids
			if strings.Contains(src, "\\") || strings.Contains(src, ":root") {
				src = strings.NewReplacer(".\\61", ".a", "#\\72", "#r", ".\\000062", ".b").Replace(src)
			}
			vfs[fmt.Sprintf("/m%d.module.css", k)] = src
			for c := range g.custom {
				custom[c] = true
			}
			// reference: the same sheet as global CSS with every local name suffixed by the module number
			refSheet.WriteString(cssClassRe.ReplaceAllString(src, fmt.Sprintf("${1}${2}_m%d", k)))
			fmt.Fprintf(&js, "import * as m%d from \"./m%d.module.css\"; $(\"m%d\", JSON.stringify(m%d));\n", k, k, k, k)
		}
		if strings.Contains(refSheet.String(), "\\") {
			return
		}
		vfs["/entry.js"] = js.String()
		for _, minify := range []bool{false, true} {
			if r.quick() && minify != (i%2 == 0) {
				continue
			}
			res, pan := buildSafe(api.BuildOptions{EntryPoints: []string{"/entry.js"}, Bundle: true, Write: false, Outdir: "/out", Format: api.FormatESModule, MinifySyntax: minify, MinifyWhitespace: minify, MinifyIdentifiers: minify,
				Plugins: []api.Plugin{memPluginLocalCSS(vfs)}})
			atomic.AddInt64(&st.modules, 1)
			if pan != "" {
				r.Violation("css:modules:panic", "esbuild panicked: "+pan, map[string]interface{}{"files": vfs})
				continue
			}
			if len(res.Errors) > 0 {
				atomic.AddInt64(&st.rejected, 1)
				continue
			}
			var outCSS, outJS string
			for _, f := range res.OutputFiles {
				if strings.HasSuffix(f.Path, ".css") {
					outCSS = string(f.Contents)
				} else if strings.HasSuffix(f.Path, ".js") {
					outJS = string(f.Contents)
				}
			}
			ex, err := pool.Exec(progModule(outJS))
			if err != nil || ex.Term != "ok" {
				r.Count("css_module_js_not_executable", 1)
				continue
			}
			maps := make([]map[string]string, nm)
			for _, ev := range ex.Trace {
				var name, payload string
				var parts []json.RawMessage
				if json.Unmarshal([]byte("["+ev+"]"), &parts) != nil || len(parts) != 2 {
					continue
				}
				json.Unmarshal(parts[0], &name)
				json.Unmarshal(parts[1], &payload)
				var raw map[string]interface{}
				if json.Unmarshal([]byte(payload), &raw) == nil && strings.HasPrefix(name, "m") {
					m := map[string]string{}
					for key, v := range raw {
						if sv, ok := v.(string); ok {
							m[key] = sv
						}
					}
					var k int
					fmt.Sscanf(name, "m%d", &k)
					if k < nm {
						maps[k] = m
					}
				}
			}
			replay := map[string]interface{}{"files": vfs, "output_css": outCSS, "export_maps": maps, "minify": minify}
			// exported names: injective across modules, and never equal to an original (global) name of the universe
			seen := map[string]string{}
			for k, m := range maps {
				for orig, nw := range m {
					if o, dup := seen[nw]; dup {
						r.Violation("css:modules:two-local-names-one-output-name", fmt.Sprintf("local names %s and m%d.%s are both renamed to %q", o, k, orig, nw), replay)
					}
					seen[nw] = fmt.Sprintf("m%d.%s", k, orig)
				}
			}
			// DOMs: reference uses name_mK for every module; output uses the exported names
			rewrite := func(pick func(k int, name string) string) string {
				return cssDomNameRe.ReplaceAllStringFunc(cssDOM, func(attr string) string {
					m := cssDomNameRe.FindStringSubmatch(attr)
					var outNames []string
					for _, nme := range strings.Fields(m[2]) {
						for k := 0; k < nm; k++ {
							if m[1] == "id" && k > 0 {
								continue // an element has one id: ids belong to module 0
							}
							if v := pick(k, nme); v != "" {
								outNames = append(outNames, v)
							}
						}
					}
					return m[1] + "=\"" + strings.Join(outNames, " ") + "\""
				})
			}
			domA := rewrite(func(k int, name string) string { return fmt.Sprintf("%s_m%d", name, k) })
			domB := rewrite(func(k int, name string) string {
				if maps[k] == nil {
					return ""
				}
				return maps[k][name]
			})
			ref := refSheet.String()
			if nm > 1 {
				// ids of later modules do not exist in either DOM: same on both sides
			}
			var cl []string
			for c := range custom {
				cl = append(cl, c)
			}
			sortStrings(cl)
			sig := ""
			if strings.Contains(ref, "a/**/b") {
				sig = "deviation[comment-between-custom-property-tokens]:"
			} else if strings.Contains(ref, "calc(-1 * (1px + 2px))") && minify {
				sig = "deviation[negative-calc]:"
			}
			add(chromeCase{A: ref, B: outCSS, DomA: domA, DomB: domB, Custom: cl}, c12Meta{sig: sig, kind: "css-modules", variant: fmt.Sprintf("local-css,minify=%v", minify), replay: replay})
		}
	})
}

// memPluginLocalCSS serves a virtual tree in which *.module.css files use the local-css loader
func memPluginLocalCSS(files map[string]string) api.Plugin {
	return api.Plugin{Name: "mem-local-css", Setup: func(b api.PluginBuild) {
		b.OnResolve(api.OnResolveOptions{Filter: ".*"}, func(a api.OnResolveArgs) (api.OnResolveResult, error) {
			p := a.Path
			if strings.HasPrefix(p, "./") {
				p = filepath.Join(filepath.Dir(a.Importer), p)
			}
			if _, ok := files[p]; ok {
				return api.OnResolveResult{Path: p, Namespace: "mem"}, nil
			}
			return api.OnResolveResult{Path: p, External: true}, nil
		})
		b.OnLoad(api.OnLoadOptions{Filter: ".*", Namespace: "mem"}, func(a api.OnLoadArgs) (api.OnLoadResult, error) {
			s := files[a.Path]
			l := api.LoaderJS
			if strings.HasSuffix(a.Path, ".module.css") {
				l = api.LoaderLocalCSS
			} else if strings.HasSuffix(a.Path, ".css") {
				l = api.LoaderCSS
			}
			return api.OnLoadResult{Contents: &s, Loader: l, ResolveDir: "/__vmem__"}, nil
		})
	}}
}
