package main

import (
	"fmt"
	"os"
	"path/filepath"
	"regexp"
	"strings"
	"sync/atomic"

	"github.com/evanw/esbuild/pkg/api"
)

func init() { registry["C04"] = checkC04 }

// hostile top-level statements: each looks removable to a shallow analysis but has an observable effect.
// #K# is replaced by a unique probe key, so every effect is attributable. `R:` keys mark effects that a user
// annotation allows esbuild to remove.
var c04Hostile = []string{
	`var u#K# = [...ITER("#K#")];`,
	`var u#K# = {...GET("#K#")};`,
	`var u#K# = {[KEY("#K#")]: 1};`,
	`var u#K# = -VAL("#K#");`,
	`var u#K# = +VAL("#K#");`,
	`var u#K# = ~VAL("#K#");`,
	`var u#K# = !VAL("#K#") || 1;`,
	`var u#K# = VAL("#K#") < 1;`,
	`var u#K# = VAL("#K#") == 1;`,
	`var u#K# = VAL("#K#") + 1;`,
	`var u#K# = VAL("#K#") + "";`,
	`var u#K# = "" + VAL("#K#");`,
	`var u#K# = VAL("#K#") - 0;`,
	"var u#K# = `${VAL(\"#K#\")}`;",
	"var u#K# = `a${1}b${VAL(\"#K#\")}`;",
	"var u#K# = TAG(\"#K#\")`x`;",
	`var u#K# = "a" in HAS("#K#");`,
	`var u#K# = {} instanceof INST("#K#");`,
	`var o#K# = GET("#K#"); var u#K# = o#K#.g;`,
	`var o#K# = GET("#K#"); var u#K# = o#K#["g"];`,
	`var o#K# = GET("#K#"); var u#K# = o#K#?.g;`,
	`var {g: u#K#} = GET("#K#");`,
	`var [u#K#] = ITER("#K#");`,
	`var {u#K# = $("#K#", "default")} = {};`,
	`var [u#K# = $("#K#", "default")] = [];`,
	`var [u#K# = $("#K#", "default")] = [void 0];`,
	`var [, u#K# = $("#K#", "default")] = [1, void 0];`,
	`var {a: {u#K# = $("#K#", "default")} = {}} = {};`,
	`class K#K# { static { $("#K#", "static block"); } }`,
	`class K#K# { static x = $("#K#", "static field"); }`,
	`class K#K# { [KEY("#K#")]() {} }`,
	`class K#K# { static [KEY("#K#")] = 1; }`,
	`class K#K# { [KEY("#K#")] = 1; }`,
	`class K#K# extends EXT("#K#") {}`,
	`var u#K# = class { static { $("#K#", "static block"); } };`,
	`var u#K# = class { static x = $("#K#", "static field"); };`,
	`var u#K# = F("#K#");`,
	`var u#K# = new N("#K#");`,
	`F("#K#");`,
	`function e#K#(x = $("#K#", "default of empty function")) {} e#K#();`,
	`function e#K#(a, x = $("#K#", "default of empty function")) {} e#K#(1); e#K#(1, 2);`,
	`function e#K#({x = $("#K#", "default in pattern")} = {}) {} e#K#();`,
	`var e#K# = function (x = $("#K#", "default of empty function")) {}; e#K#();`,
	`var e#K# = (x = $("#K#", "default of empty arrow")) => {}; e#K#();`,
	`function e#K#(...[x = $("#K#", "default in rest pattern")]) {} e#K#();`,
	`var u#K# = (0, F)("#K#");`,
	`var u#K# = F?.("#K#");`,
	`var u#K# = [F("#K#")];`,
	`var u#K# = {a: F("#K#")};`,
	`var u#K# = {get a() { return 1; }, b: F("#K#")};`,
	`var u#K# = typeof F("#K#");`,
	`var u#K# = void F("#K#");`,
	`var u#K# = true ? F("#K#") : 0;`,
	`var u#K# = 0 || F("#K#");`,
	`var u#K# = null ?? F("#K#");`,
	`var u#K# = (1, F("#K#"));`,
	`var u#K#; u#K# = F("#K#");`,
	`var u#K# = 0; u#K# += F("#K#");`,
	`let u#K# = F("#K#");`,
	`const u#K# = F("#K#");`,
	`export var e#K# = F("#K#");`,
	`export const e#K# = F("#K#");`,
	`export let e#K# = [F("#K#")];`,
	`export default F("#K#");`,
	`export class E#K# { static { $("#K#", "exported class static block"); } }`,
	`export function ef#K#() {} ef#K#.prop = F("#K#");`,
	`function h#K#() {} h#K#.prop = F("#K#");`,
	`var o#K# = {}; o#K#.x = F("#K#");`,
	`var o#K# = {}; o#K#[KEY("#K#")] = 1;`,
	`var a#K# = []; a#K#.push(F("#K#"));`,
	`var u#K# = async () => {}; u#K#().then(() => $("#K#", "then"));`,
	`var u#K# = function*() { F("#K#"); yield 1; }; [...u#K#()];`,
	`if (F("#K#")) { var u#K# = 1; }`,
	`for (var u#K# of ITER("#K#")) ;`,
	`for (var u#K# in GET("#K#")) ;`,
	`try { F("#K#"); } catch {}`,
	`switch (F("#K#")) { default: }`,
	`{ let u#K# = F("#K#"); }`,
	`label#K#: { F("#K#"); }`,
	`var u#K# = (() => F("#K#"))();`,
	`var u#K# = (function() { return F("#K#"); })();`,
	`var u#K# = [1, 2].map(x => F("#K#"));`,
	`var u#K# = Object.defineProperty({}, "x", {get() { return F("#K#"); }}).x;`,
	`var u#K# = JSON.stringify({toJSON() { return F("#K#"); }});`,
	`var u#K# = String(VAL("#K#"));`,
	`var u#K# = Number(VAL("#K#"));`,
	`var u#K# = Symbol.for(VAL("#K#"));`,
	`var u#K# = Object.keys(PROXY("#K#"));`,
	`var u#K# = new Map([[1, F("#K#")]]);`,
	`var u#K# = Promise.resolve().then(() => $("#K#", "microtask"));`,
	`var u#K# = typeof undeclaredGlobal#K# === "undefined" ? F("#K#") : 0;`,
	// property reads that are known to be free of side effects on the real globals, on local bindings that shadow them
	`var Math = GETP("#K#", "PI"); var u#K# = Math.PI;`,
	`var Math = GETP("#K#", "E"); const u#K# = Math.E;`,
	`var Reflect = GETP("#K#", "apply"); var u#K# = Reflect.apply;`,
	`var Reflect = GETP("#K#", "ownKeys"); let u#K# = Reflect.ownKeys;`,
	`var Math = GETP("#K#", "LN2"); var u#K# = [Math.LN2];`,
}

// statements whose removal is unobservable (may be dropped or kept)
var c04Pure = []string{
	`var p#K# = 1;`, `var p#K# = "s" + 1;`, `function p#K#() { $("#K#", "never called"); }`, `class P#K# { m() { $("#K#", "never called"); } static s() {} }`, `var p#K# = [1, "a", null];`, `var p#K# = {a: 1, b: {c: 2}};`,
	`var p#K# = () => $("#K#", "never called");`, `var p#K# = function() {};`, `var p#K# = /re/g;`, "var p#K# = `tpl`;", `var p#K# = 1 + 2 * 3;`, `var p#K# = typeof undeclared === "x";`, `export function unusedFn#K#() {}`, `export var unusedVar#K# = 5;`, `export class UnusedClass#K# {}`,
	`var p#K# = class { static x = 1; static y() {} };`, `var p#K# = !0;`, `var p#K# = void 0;`, `var p#K# = [1, 2].length;`, `let p#K# = null;`, `const p#K# = -1;`,
}

const c04Helpers = `
export function F(k) { $(k, "F"); return k; }
export function GETP(k, p) { return {get [p]() { $(k, "getter " + p); return 1; }}; }
export function N(k) { $(k, "new"); }
export function VAL(k) { return {valueOf() { $(k, "valueOf"); return 1; }, toString() { $(k, "toString"); return "s"; }}; }
export function KEY(k) { return {toString() { $(k, "key"); return "k" + k; }}; }
export function GET(k) { return {get g() { $(k, "getter"); return 1; }, get h() { return 2; }}; }
export function ITER(k) { return {[Symbol.iterator]() { $(k, "iterator"); var n = 0; return {next() { return {done: n++ > 0, value: n}; }}; }}; }
export function TAG(k) { return () => $(k, "tag"); }
export function HAS(k) { return new Proxy({}, {has() { $(k, "has"); return true; }}); }
export function INST(k) { return {[Symbol.hasInstance]() { $(k, "hasInstance"); return false; }}; }
export function EXT(k) { $(k, "extends"); return Object; }
export function PROXY(k) { return new Proxy({}, {ownKeys() { $(k, "ownKeys"); return []; }}); }
`

func init() {
	// operand wrappers × coercing consumers: the primitive-type analysis must see through every wrapper
	wrappers := []string{`%s ?? "lit"`, `%s || "lit"`, `%s && "lit"`, `1 ? %s : "lit"`, `0 ? "lit" : %s`, `(0, %s)`, `null ?? %s`, `"" || %s`, `1 && %s`, `(%s, %s)`}
	consumers := []string{"`${%s}`", "`a${%s}b`", `(%s) + ""`, `"" + (%s)`, `-(%s)`, `+(%s)`, `(%s) < 1`, `(%s) == 1`, `(%s) - 0`, `[(%s) + ""]`, `{a: (%s) + ""}`, `typeof ((%s) + "")`}
	for _, w := range wrappers {
		for _, c := range consumers {
			operand := strings.ReplaceAll(w, "%s", `VAL("#K#")`)
			c04Hostile = append(c04Hostile, "var u#K# = "+strings.ReplaceAll(c, "%s", operand)+";")
		}
	}
	// the same consumers as bare expression statements
	for _, c := range consumers[:9] {
		c04Hostile = append(c04Hostile, "("+strings.ReplaceAll(c, "%s", `VAL("#K#") ?? "lit"`)+");")
	}
}

func c04Module(rng *Rng, idx int, nHostile, nPure int, keyPrefix string) (src string, keys []string) {
	var b strings.Builder
	b.WriteString("import {F, N, VAL, KEY, GET, GETP, ITER, TAG, HAS, INST, EXT, PROXY} from \"./helpers.mjs\";\n")
	b.WriteString(fmt.Sprintf("$(\"%sm%d\", \"start\");\n", keyPrefix, idx))
	type st struct{ s string }
	var stmts []string
	hasDefault := false
	for i := 0; i < nHostile; i++ {
		t := c04Hostile[rng.Intn(len(c04Hostile))]
		if strings.HasPrefix(t, "export default") {
			if hasDefault {
				continue
			}
			hasDefault = true
		}
		k := fmt.Sprintf("%sm%d_%d", keyPrefix, idx, i)
		keys = append(keys, k)
		stmts = append(stmts, c04Fill(t, k))
	}
	for i := 0; i < nPure; i++ {
		k := fmt.Sprintf("%sp%d_%d", keyPrefix, idx, i)
		stmts = append(stmts, c04Fill(c04Pure[rng.Intn(len(c04Pure))], k))
	}
	rng.Shuffle(len(stmts), func(i, j int) { stmts[i], stmts[j] = stmts[j], stmts[i] })
	for _, s := range stmts {
		b.WriteString(s + "\n")
	}
	b.WriteString(fmt.Sprintf("export var used%d = \"used%d\";\nexport function usedFn%d() { return $(\"%sm%d\", \"usedFn\"); }\n", idx, idx, idx, keyPrefix, idx))
	b.WriteString(fmt.Sprintf("$(\"%sm%d\", \"end\");\n", keyPrefix, idx))
	return b.String(), keys
}

// c04Fill: the key goes verbatim into string positions and in an identifier-safe form elsewhere
func c04Fill(tpl, key string) string {
	out := strings.ReplaceAll(tpl, "\"#K#\"", "\""+key+"\"")
	return strings.ReplaceAll(out, "#K#", strings.ReplaceAll(key, ":", "_"))
}

func filterTrace(t []string, drop func(string) bool) []string {
	var out []string
	for _, e := range t {
		if !drop(e) {
			out = append(out, e)
		}
	}
	return out
}

// c04NameClass: a stable class for a dangling name (generated names carry numbers)
func c04NameClass(n string) string {
	var b strings.Builder
	for _, c := range n {
		if c >= '0' && c <= '9' {
			b.WriteByte('N')
		} else {
			b.WriteRune(c)
		}
	}
	return b.String()
}

func checkC04(r *Run) {
	r.Rule("projects of 2–5 ES modules whose top-level code is drawn from a table of ~215 statements with a hidden side effect (one per syntactic position the tree-shaking analysis inspects) shuffled with 21 kinds of removable declarations; imported for a used export, an unused export, or side effects only; " +
		"bundled with tree shaking default/true/false × minify × format and run natively; traces of all bundles must equal the native trace. Annotation sub-workload: sideEffects:false packages and @__PURE__/@__NO_SIDE_EFFECTS__ calls, whose own events (keys R:) may disappear and nothing else; " +
		"non-trivial = distinct project whose native run produced events from hostile statements")
	r.Assume("temporal-dead-zone errors, non-constructible heritage and patched built-ins are not generated (documented assumptions of the analysis)")
	c04CrossBuild(r)
	scratch, _ := os.MkdirTemp("/tmp", "verif-c04-")
	defer os.RemoveAll(scratch)
	nproj := r.pick(220, 4000)
	var projRun, bundlesRun, hostileEvents, freeScans int64
	parallel(nproj, 16, func(i int) {
		rng := newRng(r.Seed, fmt.Sprint("c04p", i))
		dir := filepath.Join(scratch, fmt.Sprint("p", i))
		src := filepath.Join(dir, "src")
		defer os.RemoveAll(dir)
		files := map[string]string{"/helpers.mjs": c04Helpers}
		nm := 1 + rng.Intn(4)
		var entry strings.Builder
		annotated := i%3 == 0
		for m := 1; m <= nm; m++ {
			prefix := ""
			path := fmt.Sprintf("/lib%d.mjs", m)
			spec := "." + path
			if annotated && m == 1 {
				// a package that declares itself free of side effects: everything inside is annotated-removable
				prefix = "R:"
				path = "/node_modules/pure-pkg/index.mjs"
				spec = "pure-pkg"
				files["/node_modules/pure-pkg/package.json"] = `{"name": "pure-pkg", "main": "./index.mjs", "exports": "./index.mjs", "sideEffects": false}`
				files["/node_modules/pure-pkg/helpers.mjs"] = c04Helpers
			}
			code, _ := c04Module(rng, m, 3+rng.Intn(10), rng.Intn(8), prefix)
			files[path] = code
			switch rng.Intn(4) {
			case 0:
				entry.WriteString(fmt.Sprintf("import %q;\n", spec))
			case 1:
				entry.WriteString(fmt.Sprintf("import {used%d} from %q; $(\"entry\", used%d);\n", m, spec, m))
			case 2:
				entry.WriteString(fmt.Sprintf("import {usedFn%d} from %q; usedFn%d();\n", m, spec, m))
			default:
				entry.WriteString(fmt.Sprintf("import {used%d as unusedImport%d} from %q;\n", m, m, spec))
			}
		}
		if annotated {
			entry.WriteString("import {F} from \"./helpers.mjs\";\nvar a1 = /* @__PURE__ */ F(\"R:call\");\nvar a2 = /* @__PURE__ */ new (class { constructor() { $(\"R:new\", \"ctor\"); } })();\n/* @__NO_SIDE_EFFECTS__ */ function nse(k) { $(k, \"nse\"); return k; }\nvar a3 = nse(\"R:nse\");\nvar kept = nse(\"kept-nse\"); $(\"entry\", kept);\n/* @__PURE__ */ F(\"R:stmt\");\nvar a4 = /* @__PURE__ */ F(F(\"arg-of-pure-call\"));\n")
		}
		entry.WriteString("$(\"entry\", \"end\");\n")
		files["/entry.mjs"] = entry.String()
		if err := writeTree(src, files); err != nil {
			return
		}
		jobs := []nodeJob{{ID: "native", File: filepath.Join(src, "entry.mjs"), Mode: "import"}}
		type bv struct {
			name string
			ts   api.TreeShaking
			min  bool
			f    api.Format
		}
		var variants []bv
		for _, ts := range []api.TreeShaking{api.TreeShakingDefault, api.TreeShakingTrue, api.TreeShakingFalse} {
			for _, min := range []bool{false, true} {
				f := []api.Format{api.FormatESModule, api.FormatCommonJS, api.FormatIIFE}[rng.Intn(3)]
				if r.quick() && rng.Intn(2) == 0 && !(ts == api.TreeShakingDefault && !min) {
					continue
				}
				variants = append(variants, bv{fmt.Sprintf("tree-shaking=%d,minify=%v,format=%s", ts, min, formatName(f)), ts, min, f})
			}
		}
		// free names of the inputs (each file analysed on its own)
		inputFree := map[string]bool{}
		for p, code := range files {
			if !strings.HasSuffix(p, ".mjs") && !strings.HasSuffix(p, ".js") && !strings.HasSuffix(p, ".cjs") {
				continue
			}
			goal := "module"
			if strings.HasSuffix(p, ".cjs") {
				goal = "cjs"
			}
			var fr struct {
				OK    bool     `json:"ok"`
				Names []string `json:"names"`
			}
			if err := r.Pool().Call(map[string]interface{}{"op": "freenames", "code": code, "goal": goal}, &fr); err == nil && fr.OK {
				for _, n := range fr.Names {
					inputFree[n] = true
				}
			}
		}
		built := map[string]bv{}
		for vi, v := range variants {
			ext := map[api.Format]string{api.FormatESModule: ".mjs", api.FormatCommonJS: ".cjs", api.FormatIIFE: ".js"}[v.f]
			outFile := filepath.Join(dir, fmt.Sprint("out", vi), "bundle"+ext)
			res, pan := buildSafe(api.BuildOptions{EntryPoints: []string{filepath.Join(src, "entry.mjs")}, Bundle: true, Write: false, Outfile: outFile, Format: v.f, Platform: api.PlatformNode, TreeShaking: v.ts,
				MinifySyntax: v.min, MinifyWhitespace: v.min, MinifyIdentifiers: v.min, AbsWorkingDir: src})
			if pan != "" || len(res.Errors) > 0 || len(res.OutputFiles) != 1 {
				if len(res.Errors) > 0 {
					r.Violation("treeshake:build-error:"+normErr(res.Errors[0].Text), "build error: "+res.Errors[0].Text, map[string]interface{}{"files": files, "variant": v.name})
				}
				continue
			}
			os.MkdirAll(filepath.Dir(outFile), 0o755)
			os.WriteFile(outFile, res.OutputFiles[0].Contents, 0o644)
			id := fmt.Sprint("b", vi)
			built[id] = v
			// static scan: every free name of the bundle must be free in some input too (or be provided by the host / the module
			// system); a name that was bound in the inputs and is free in the output refers to a declaration that was removed
			{
				goal := map[api.Format]string{api.FormatESModule: "module", api.FormatCommonJS: "cjs", api.FormatIIFE: "script"}[v.f]
				var fr struct {
					OK    bool     `json:"ok"`
					Names []string `json:"names"`
				}
				if err := r.Pool().Call(map[string]interface{}{"op": "freenames", "code": string(res.OutputFiles[0].Contents), "goal": goal}, &fr); err == nil && fr.OK {
					atomic.AddInt64(&freeScans, 1)
					for _, n := range fr.Names {
						if !inputFree[n] && n != "$" && n != "require" && n != "module" && n != "exports" && n != "__filename" && n != "__dirname" {
							r.Violation("treeshake:dangling-reference:"+c04NameClass(n), fmt.Sprintf("bundle (%s) refers to %q, which no input leaves free: its declaration is not in the output", v.name, n),
								map[string]interface{}{"files": files, "variant": v.name, "name": n, "output": trunc(string(res.OutputFiles[0].Contents), 20000)})
						}
					}
				}
			}
			mode := map[api.Format]string{api.FormatESModule: "import", api.FormatCommonJS: "require", api.FormatIIFE: "script"}[v.f]
			jobs = append(jobs, nodeJob{ID: id, File: outFile, Mode: mode})
		}
		res, err := runNodeJobs(dir, jobs)
		if err != nil {
			r.Count("node_runner_errors", 1)
			return
		}
		native := res["native"]
		isR := func(e string) bool { return strings.HasPrefix(e, "\"R:") }
		nativeKept := filterTrace(native.Trace, isR)
		atomic.AddInt64(&projRun, 1)
		r.Eval(1)
		he := 0
		for _, e := range native.Trace {
			if strings.Contains(e, "_") {
				he++
			}
		}
		atomic.AddInt64(&hostileEvents, int64(he))
		if he > 0 {
			r.Nontrivial(files["/entry.mjs"] + files["/lib1.mjs"] + files["/lib2.mjs"])
		}
		if i < 2 {
			r.Sample(map[string]interface{}{"entry": files["/entry.mjs"], "lib": trunc(files["/lib2.mjs"]+files["/lib1.mjs"], 700), "native_trace_head": headOf(native.Trace, 10)})
		}
		for id, v := range built {
			got := res[id]
			atomic.AddInt64(&bundlesRun, 1)
			gotKept := filterTrace(got.Trace, isR)
			want := nativeKept
			if !annotated || v.ts == api.TreeShakingFalse {
				// without annotations in play (or with tree shaking off, where annotated code may still stay) compare in full when nothing is annotated
				if !annotated {
					want, gotKept = native.Trace, got.Trace
				}
			}
			if !sameTrace(want, gotKept) {
				_, a, b := firstTraceDiff(want, gotKept)
				stmt := c04FindStmt(files, a, b)
				r.Violation("treeshake:trace:"+c04StmtClass(stmt), fmt.Sprintf("bundle (%s) differs from native execution: native %s, bundle %s; statement: %s", v.name, trunc(a, 120), trunc(b, 120), trunc(stmt, 200)),
					map[string]interface{}{"files": files, "variant": v.name, "native": native.Trace, "bundle": got.Trace, "statement": stmt})
				continue
			}
			// events of annotated code may be missing but never invented or duplicated
			if annotated {
				cnt := map[string]int{}
				for _, e := range native.Trace {
					if isR(e) {
						cnt[e]++
					}
				}
				for _, e := range got.Trace {
					if isR(e) {
						cnt[e]--
						if cnt[e] < 0 {
							r.Violation("treeshake:annotated-event-invented", "bundle logs an annotated-removable event more often than native execution: "+e, map[string]interface{}{"files": files, "variant": v.name})
							break
						}
					}
				}
			}
			if termClass(native.Term) != termClass(got.Term) {
				r.Violation("treeshake:termination:"+termClass(got.Term), fmt.Sprintf("bundle (%s) terminates differently: native %s, bundle %s", v.name, native.Term, got.Term), map[string]interface{}{"files": files, "variant": v.name, "native": native, "bundle": got})
			}
		}
	})
	r.Count("projects_run_natively", int(projRun))
	r.Count("bundles_scanned_for_dangling_references", int(freeScans))
	r.Count("bundles_executed", int(bundlesRun))
	r.Count("hostile_statement_events_native", int(hostileEvents))
	r.Count("hostile_statement_forms", len(c04Hostile))
	if projRun < int64(nproj*8/10) || hostileEvents == 0 {
		r.Inconclusive(fmt.Sprintf("only %d projects ran", projRun))
	}
}

// c04FindStmt: the source statement that owns the probe key of a differing event
func c04FindStmt(files map[string]string, a, b string) string {
	ev := a
	if ev == "∅" {
		ev = b
	}
	if i := strings.Index(ev, ","); i > 2 {
		key := strings.Trim(ev[:i], "\"")
		for _, src := range files {
			for _, line := range strings.Split(src, "\n") {
				if strings.Contains(line, "\""+key+"\"") {
					return line
				}
			}
		}
	}
	return ""
}

var reKeyLike = regexp.MustCompile(`(R:)?[mp][0-9]+_[0-9]+`)

func c04StmtClass(stmt string) string {
	if stmt == "" {
		return "?"
	}
	// replace keys by a placeholder so that the class is the table row
	out := stmt
	for {
		i := strings.Index(out, "m")
		_ = i
		break
	}
	re := strings.NewReplacer()
	_ = re
	return normErr(reKeyLike.ReplaceAllString(out, "K"))
}

// c04CrossBuild: annotations belong to one build. A program full of unused calls to well-known globals is bundled
// first in this process (nothing in the process has been configured yet), then other builds run with `pure` names and
// `define` keys that name those very globals, then the first program is bundled again without any annotation: the two
// outputs of the un-annotated program must be byte-identical (and keep every call), i.e. what one build was told
// to treat as removable must not leak into the next one through process-wide tables.
func c04CrossBuild(r *Run) {
	prog := "console.log(\"kept-1\");\nObject.defineProperty(globalThis, \"zz\", {value: 1, configurable: true});\nReflect.set(globalThis, \"yy\", 2);\nObject.freeze({});\nJSON.stringify({});\n" +
		"Math.random();\nSymbol.for(\"kept\");\nArray.isArray([]);\nObject.keys({});\nvar unusedA = Object.create(null);\nvar unusedB = Math.abs(-1);\nconsole.error(\"kept-2\", Math.PI, Number.MAX_SAFE_INTEGER);\n"
	names := []string{"console.log", "console.error", "Object.defineProperty", "Reflect.set", "Object.freeze", "JSON.stringify", "Math.random", "Symbol.for", "Array.isArray", "Object.keys", "Object.create", "Math.abs"}
	build := func(pure []string, define map[string]string, minify bool) (string, bool) {
		res, pan := buildSafe(api.BuildOptions{EntryPoints: []string{"/entry.js"}, Bundle: true, Write: false, Outdir: "/out", Format: api.FormatESModule, TreeShaking: api.TreeShakingTrue,
			MinifySyntax: minify, Pure: pure, Define: define, Plugins: []api.Plugin{memPlugin(map[string]string{"/entry.js": prog})}, LogLevel: api.LogLevelSilent})
		r.Eval(1)
		if pan != "" || len(res.Errors) > 0 || len(res.OutputFiles) == 0 {
			return "", false
		}
		return string(res.OutputFiles[0].Contents), true
	}
	type before struct {
		code string
		ok   bool
	}
	var first [2]before
	for i, minify := range []bool{false, true} {
		c, ok := build(nil, nil, minify)
		first[i] = before{c, ok}
	}
	// builds that annotate the same globals (every name on its own, then all together, then as define keys)
	for _, n := range names {
		build([]string{n}, nil, false)
	}
	build(names, nil, true)
	build(nil, map[string]string{"Math.PI": "3", "Number.MAX_SAFE_INTEGER": "1", "console.log": "noop", "Object.keys": "keysOf"}, false)
	build(names, map[string]string{"Math.PI": "3"}, true)
	compared := 0
	for i, minify := range []bool{false, true} {
		c, ok := build(nil, nil, minify)
		if !ok || !first[i].ok {
			continue
		}
		compared++
		r.Nontrivial(fmt.Sprint("cross-build", minify))
		if c != first[i].code {
			missing := []string{}
			for _, n := range names {
				if strings.Contains(first[i].code, n+"(") && !strings.Contains(c, n+"(") {
					missing = append(missing, n)
				}
			}
			r.Violation("treeshake:annotation-leaks-into-later-build", fmt.Sprintf("the same un-annotated program bundled before and after other builds that used pure/define for well-known globals gives different output (minify-syntax=%v); calls that disappeared: %v", minify, missing),
				map[string]interface{}{"input": prog, "output_before": first[i].code, "output_after": c, "pure_names_used_in_between": names})
		}
		for _, n := range []string{"console.log(\"kept-1\")", "Reflect.set(", "Object.defineProperty("} {
			if !strings.Contains(c, n) {
				r.Violation("treeshake:unannotated-global-call-removed", fmt.Sprintf("un-annotated top-level call %s… is missing from the bundle (minify-syntax=%v)", n, minify), map[string]interface{}{"input": prog, "output": c})
			}
		}
	}
	r.Count("cross_build_comparisons", compared)
	if compared == 0 {
		r.Inconclusive("the cross-build annotation program could not be bundled")
	}
}
