package main

import (
	"encoding/base64"
	"encoding/json"
	"fmt"
	"os"
	"os/exec"
	"path/filepath"
	"runtime"
	"strconv"
	"strings"
	"sync"
	"sync/atomic"
	"time"

	"github.com/evanw/esbuild/pkg/api"
)

func init() {
	registry["C16"] = checkC16
	registry["C16CHILD"] = c16Child
	registry["C16PROBE"] = c16Probe
	replayers["C16"] = replayC16
}

// One case = (kind, inputs, options), a pure function of (seed, index), so that the parent can
// regenerate the input a child was working on when it died.
type c16Case struct {
	Idx    int               `json:"idx"`
	Kind   string            `json:"kind"`
	Loader string            `json:"loader"`
	Input  string            `json:"input"`
	Files  map[string]string `json:"files,omitempty"`
	Entry  []string          `json:"entry,omitempty"`
	Flags  c16Flags          `json:"flags"`
}

type c16Flags struct {
	MinWS, MinSyn, MinID, KeepNames, Bundle, Splitting, TreeShake bool
	Target                                                        int
	Format                                                        int
	Sourcemap                                                     int
	JSX                                                           int
	Charset                                                       int
	Platform                                                      int
	LineLimit                                                     int
	MangleProps                                                   bool
	Legal                                                         int
	Tsconfig                                                      string
	Drop                                                          bool
	Engine                                                        int // 0 = none; otherwise an old browser engine (activates lowering by engine tables)
}

func c16RandomFlags(rng *Rng) c16Flags {
	f := c16Flags{}
	if rng.Intn(3) == 0 {
		return f
	}
	f.MinWS, f.MinSyn, f.MinID = rng.Bool(), rng.Bool(), rng.Bool()
	f.KeepNames = rng.Intn(4) == 0
	f.Target = rng.Intn(12) // 0 = default, 1..11 = ES2015..ES2024,ESNext
	f.Format = rng.Intn(4)
	f.Sourcemap = rng.Intn(4)
	f.JSX = rng.Intn(3)
	f.Charset = rng.Intn(3)
	f.Platform = rng.Intn(4)
	if rng.Intn(5) == 0 {
		f.LineLimit = 1 + rng.Intn(40)
	}
	f.MangleProps = rng.Intn(6) == 0
	f.Legal = rng.Intn(5)
	f.TreeShake = rng.Intn(4) == 0
	f.Drop = rng.Intn(8) == 0
	if rng.Intn(4) == 0 {
		f.Engine = 1 + rng.Intn(6)
	}
	if rng.Intn(5) == 0 {
		f.Tsconfig = []string{`{"compilerOptions":{"useDefineForClassFields":false,"experimentalDecorators":true}}`, `{"compilerOptions":{"jsx":"react-jsx","jsxImportSource":"p"}}`,
			`{"compilerOptions":{"target":"es5","verbatimModuleSyntax":true}}`, `{"compilerOptions":{"alwaysStrict":true,"importsNotUsedAsValues":"preserve"}}`, `{"compilerOptions":{"paths":{"*":["./x/*"]},"baseUrl":"."}}`, `{bad`}[rng.Intn(6)]
	}
	return f
}

var c16Targets = []api.Target{api.DefaultTarget, api.ES2015, api.ES2016, api.ES2017, api.ES2018, api.ES2019, api.ES2020, api.ES2021, api.ES2022, api.ES2023, api.ES2024, api.ESNext}

func (f c16Flags) transform(loader api.Loader) api.TransformOptions {
	o := api.TransformOptions{Loader: loader, MinifyWhitespace: f.MinWS, MinifySyntax: f.MinSyn, MinifyIdentifiers: f.MinID, KeepNames: f.KeepNames,
		Target: c16Targets[f.Target%len(c16Targets)], Format: api.Format(f.Format), Sourcemap: api.SourceMap(f.Sourcemap), Charset: api.Charset(f.Charset),
		Platform: api.Platform(f.Platform), LineLimit: f.LineLimit, LegalComments: api.LegalComments(f.Legal), TsconfigRaw: f.Tsconfig, Sourcefile: "in.x"}
	switch f.JSX {
	case 1:
		o.JSX = api.JSXAutomatic
	case 2:
		o.JSX = api.JSXPreserve
	}
	if f.MangleProps {
		o.MangleProps = "_$"
	}
	if f.TreeShake {
		o.TreeShaking = api.TreeShakingTrue
	}
	if f.Drop {
		o.Drop = api.DropConsole | api.DropDebugger
		o.DropLabels = []string{"DEV"}
		o.Define = map[string]string{"process.env.NODE_ENV": "\"production\"", "DEBUG": "false"}
		o.Pure = []string{"pureFn"}
	}
	if f.Engine > 0 {
		o.Target = api.DefaultTarget
		o.Engines = [][]api.Engine{{{Name: api.EngineChrome, Version: "30"}}, {{Name: api.EngineSafari, Version: "9"}}, {{Name: api.EngineFirefox, Version: "40"}}, {{Name: api.EngineIE, Version: "11"}},
			{{Name: api.EngineEdge, Version: "16"}, {Name: api.EngineIOS, Version: "10"}}, {{Name: api.EngineChrome, Version: "118"}, {Name: api.EngineNode, Version: "12"}}}[(f.Engine-1)%6]
	}
	if o.Format == api.FormatIIFE && f.Legal == 1 {
		o.GlobalName = "a.b['c']"
	}
	return o
}

func loaderByLang(lang string) api.Loader {
	switch lang {
	case "jsx":
		return api.LoaderJSX
	case "ts":
		return api.LoaderTS
	case "tsx":
		return api.LoaderTSX
	case "css":
		return api.LoaderCSS
	case "local-css":
		return api.LoaderLocalCSS
	case "json":
		return api.LoaderJSON
	}
	return api.LoaderJS
}

var c16Langs = []string{"js", "jsx", "ts", "tsx", "css", "local-css", "json"}

func c16MakeCase(seed uint64, idx int) c16Case {
	rng := newRng(seed, fmt.Sprint("c16:", idx))
	corpus := loadCorpus()
	c := c16Case{Idx: idx, Flags: c16RandomFlags(rng)}
	base := corpus[rng.Intn(len(corpus))]
	c.Loader = base.Lang
	if rng.Intn(6) == 0 {
		c.Loader = c16Langs[rng.Intn(len(c16Langs))]
	}
	if base.Lang == "css" && rng.Intn(3) == 0 {
		c.Loader = "local-css"
	}
	switch k := rng.Intn(20); {
	case k < 7:
		c.Kind = "transform-token-mutant"
		var same []CorpusItem
		for tries := 0; tries < 8 && len(same) < 4; tries++ {
			o := corpus[rng.Intn(len(corpus))]
			if o.Lang == base.Lang {
				same = append(same, o)
			}
		}
		if len(same) == 0 {
			same = []CorpusItem{base}
		}
		c.Input = mutate(rng, base.Src, same)
	case k < 12:
		c.Kind = "transform-byte-mutant"
		c.Input = mutateBytesDepth(rng, base.Src, c16MaxDepth(c.Loader))
	case k < 13:
		c.Kind = "transform-verbatim"
		c.Input = base.Src
	case k < 14:
		c.Kind = "transform-deep-nesting"
		open := []string{"(", "[", "{", "`${", "<a>", "!(", "a?.[", "function f(){", "class A{static{", "a=>(", "{a:", "<T,>(", "@media(a){", ":is(", "calc(", "[[", "{\"a\":", "async()=>{await "}[rng.Intn(18)]
		depth := []int{50, 500, 3000, 10000}[rng.Intn(4)]
		if (c.Loader == "css" || c.Loader == "local-css") && depth > 1500 {
			// nested CSS rules cost quadratic time (known finding, probed separately); keep the general workload below it
			depth = 1500
		}
		if open == "a=>(" && depth > 500 {
			depth = 500 // nested arrows cost cubic time (known finding, probed separately)
		}
		c.Input = strings.Repeat(open, depth) + base.Src
		if len(c.Input) > 1<<16 {
			c.Input = c.Input[:1<<16]
		}
	case k < 16:
		c.Kind = "transform-sourcemap-payload"
		payloads := []string{`{"version":3,"sources":["a.js"],"mappings":"AAAA;;;;;AACA,GAAG"}`, `{"version":3,"sources":[],"mappings":"` + mutateBytes(rng, "AAAA,SAASA;IACT,CAAC") + `"}`,
			`{"version":3,"sources":["a"],"names":["x"],"mappings":"AAAAA,` + strings.Repeat("g", rng.Intn(40)) + `"}`, mutateBytes(rng, `{"version":3,"sources":["a.js","b.js"],"sourcesContent":[null,"x"],"mappings":"AAAA;ACAA","names":[]}`),
			`{"version":3,"sections":[{"offset":{"line":0,"column":0},"map":{"version":3,"sources":["a"],"mappings":"AAAA"}}]}`, `[]`, `null`, `{"version":3,"sources":[1,2],"mappings":5}`, `{"version":3,"sources":["a"],"mappings":"` + strings.Repeat(";", 70000) + `"}`}
		pl := payloads[rng.Intn(len(payloads))]
		if rng.Intn(2) == 0 {
			pl = structuredSourceMap(rng)
		}
		url := "data:application/json;base64," + base64.StdEncoding.EncodeToString([]byte(pl))
		if rng.Intn(3) == 0 {
			url = "data:application/json," + pl
		}
		if rng.Intn(6) == 0 {
			url = mutateBytes(rng, url)
		}
		c.Loader = "js"
		if base.Lang == "css" {
			c.Loader = "css"
			c.Input = base.Src + "\n/*# sourceMappingURL=" + url + " */"
		} else {
			if base.Lang == "js" {
				c.Input = base.Src
			} else {
				c.Input = "let a = 1;\nfoo(a);"
			}
			c.Input += "\n//# sourceMappingURL=" + url
		}
		if c.Flags.Sourcemap == 0 {
			c.Flags.Sourcemap = 1 + rng.Intn(3)
		}
	case k < 18:
		c.Kind = "bundle-tree-mutant"
		trees := loadCorpusTrees()
		t := trees[rng.Intn(len(trees))]
		c.Files = map[string]string{}
		var names []string
		for n := range t.Files {
			names = append(names, n)
		}
		sortStrings(names)
		victim := names[rng.Intn(len(names))]
		for _, n := range names {
			v := t.Files[n]
			if n == victim {
				if rng.Bool() {
					v = mutateBytes(rng, v)
				} else {
					v = mutate(rng, v, []CorpusItem{{Src: v}, base})
				}
			}
			c.Files[n] = v
		}
		c.Entry = t.Entry
		c.Flags.Bundle = true
		c.Flags.Splitting = rng.Intn(4) == 0
	case k == 18 && rng.Intn(5) == 0:
		c.Kind = "bundle-package-grammar"
		t := pkgGenMode(rng, true)
		c.Files = t.Files
		var imports strings.Builder
		seen := map[string]bool{}
		for n := 0; n < 40 && n < len(t.Queries); n++ {
			q := t.Queries[rng.Intn(len(t.Queries))]
			if q.Importer != "/app/src/importer.js" || seen[q.Spec] {
				continue
			}
			seen[q.Spec] = true
			if q.Kind == "import" {
				imports.WriteString(fmt.Sprintf("import %q;\n", q.Spec))
			} else {
				imports.WriteString(fmt.Sprintf("require(%q);\n", q.Spec))
			}
		}
		c.Files["/app/src/entry.js"] = imports.String()
		c.Entry = []string{"/app/src/entry.js"}
		c.Flags.Bundle = true
		c.Loader = "js"
	default:
		c.Kind = "bundle-config-mutant"
		pj := []string{`{"name":"p","main":"./m.js","exports":{".":{"import":"./m.mjs","default":"./m.js"},"./x/*":"./y/*.js"},"imports":{"#i":"./m.js"},"sideEffects":false,"browser":{"./m.js":"./b.js","fs":false},"type":"module"}`,
			`{"exports":"./m.js","sideEffects":["*.css"],"module":"m.mjs"}`, `{"exports":{"./":"./","./a":[{"node":null},"./m.js"]},"browser":"b.js"}`}[rng.Intn(3)]
		ts := []string{`{"extends":"./base.json","compilerOptions":{"baseUrl":".","paths":{"@/*":["src/*"],"p":["node_modules/p/m.js"]},"jsx":"preserve","jsxFactory":"h.x","target":"ES6","useDefineForClassFields":true}}`,
			`{"compilerOptions":{"paths":{"*":["*"]},"importsNotUsedAsValues":"error","preserveValueImports":true},"references":[{"path":"x"}]}`, `{"extends":["./base.json","./nope.json"]}`}[rng.Intn(3)]
		switch rng.Intn(3) {
		case 0:
			pj = mutateBytes(rng, pj)
		case 1:
			ts = mutateBytes(rng, ts)
		default:
			pj = mutate(rng, pj, []CorpusItem{{Src: pj}, {Src: ts}})
			ts = mutate(rng, ts, []CorpusItem{{Src: pj}, {Src: ts}})
		}
		c.Files = map[string]string{"/entry.ts": "import x from 'p'; import y from 'p/x/z'; import z from '#i'; import w from '@/w'; export default [x, y, z, w, <div/>]",
			"/node_modules/p/package.json": pj, "/node_modules/p/m.js": "module.exports = 1", "/node_modules/p/m.mjs": "export default 2", "/node_modules/p/b.js": "exports.b = 3", "/node_modules/p/y/z.js": "export default 4",
			"/tsconfig.json": ts, "/base.json": `{"compilerOptions":{"strict":true,"jsxImportSource":"q"}}`, "/src/w.ts": "export default 5", "/package.json": `{"imports":{"#i":"./src/w.ts"}}`}
		c.Entry = []string{"/entry.ts"}
		c.Flags.Bundle = true
		c.Loader = "tsx"
	}
	if len(c.Input) > 1<<16 {
		c.Input = c.Input[:1<<16]
	}
	return c
}

const vlqChars = "ABCDEFGHIJKLMNOPQRSTUVWXYZabcdefghijklmnopqrstuvwxyz0123456789+/"

func vlq(n int) string {
	v := n << 1
	if n < 0 {
		v = (-n << 1) | 1
	}
	out := ""
	for {
		d := v & 31
		v >>= 5
		if v > 0 {
			d |= 32
		}
		out += string(vlqChars[d])
		if v == 0 {
			return out
		}
	}
}

// structuredSourceMap: a syntactically valid map whose indices sit on and around every boundary
func structuredSourceMap(rng *Rng) string {
	ns, nn := rng.Intn(3), rng.Intn(3)
	var sources, names []string
	for i := 0; i < ns; i++ {
		sources = append(sources, fmt.Sprintf("%q", fmt.Sprint("s", i, ".js")))
	}
	for i := 0; i < nn; i++ {
		names = append(names, fmt.Sprintf("%q", fmt.Sprint("n", i)))
	}
	pick := func(n int) int { return []int{0, n - 1, n, n + 1, -1, 1 << 20}[rng.Intn(6)] }
	var segs []string
	prevSrc, prevName := 0, 0
	for k := 0; k < 1+rng.Intn(4); k++ {
		src, name := pick(ns), pick(nn)
		seg := vlq([]int{0, 1, 7, -1}[rng.Intn(4)]) + vlq(src-prevSrc) + vlq([]int{0, 1, -1, 1 << 20}[rng.Intn(4)]) + vlq([]int{0, 3, -1, 1 << 20}[rng.Intn(4)])
		prevSrc = src
		if rng.Intn(2) == 0 {
			seg += vlq(name - prevName)
			prevName = name
		}
		if rng.Intn(8) == 0 {
			seg = seg[:len(seg)-1]
		}
		segs = append(segs, seg)
	}
	sep := []string{",", ";", ";;", ","}[rng.Intn(4)]
	extra := ""
	if rng.Intn(3) == 0 {
		extra = `,"sourcesContent":[null,"x",1]`
	}
	if rng.Intn(4) == 0 {
		extra += `,"sourceRoot":"/r/"`
	}
	return `{"version":3,"sources":[` + strings.Join(sources, ",") + `],"names":[` + strings.Join(names, ",") + `],"mappings":"` + strings.Join(segs, sep) + `"` + extra + `}`
}

func c16MaxDepth(loader string) int {
	if loader == "css" || loader == "local-css" {
		return 1000
	}
	return 5000
}

func sortStrings(a []string) {
	for i := 1; i < len(a); i++ {
		for j := i; j > 0 && a[j] < a[j-1]; j-- {
			a[j], a[j-1] = a[j-1], a[j]
		}
	}
}

// memPlugin serves a virtual file tree.
func memPlugin(files map[string]string) api.Plugin {
	return api.Plugin{Name: "mem", Setup: func(b api.PluginBuild) {
		b.OnResolve(api.OnResolveOptions{Filter: ".*"}, func(a api.OnResolveArgs) (api.OnResolveResult, error) {
			p := a.Path
			if strings.HasPrefix(p, "./") || strings.HasPrefix(p, "../") {
				p = filepath.Join(filepath.Dir(a.Importer), p)
			} else if !strings.HasPrefix(p, "/") {
				p = "/node_modules/" + p
			}
			for _, ext := range []string{"", ".js", ".ts", ".tsx", ".jsx", ".css", ".json", "/index.js"} {
				if _, ok := files[p+ext]; ok {
					return api.OnResolveResult{Path: p + ext, Namespace: "mem"}, nil
				}
			}
			return api.OnResolveResult{Path: p, External: true}, nil
		})
		b.OnLoad(api.OnLoadOptions{Filter: ".*", Namespace: "mem"}, func(a api.OnLoadArgs) (api.OnLoadResult, error) {
			s := files[a.Path]
			l := api.LoaderJS
			switch filepath.Ext(a.Path) {
			case ".ts":
				l = api.LoaderTS
			case ".tsx":
				l = api.LoaderTSX
			case ".jsx":
				l = api.LoaderJSX
			case ".css":
				l = api.LoaderCSS
			case ".json":
				l = api.LoaderJSON
			case ".txt":
				l = api.LoaderText
			}
			return api.OnLoadResult{Contents: &s, Loader: l, ResolveDir: "/__vmem__" + filepath.Dir(a.Path)}, nil // a directory that does not exist: glob imports must not walk the real disk
		})
	}}
}

// c16Run executes one case and returns a marker text if esbuild reported an internal error or panicked.
func c16Run(c c16Case, scratch string) (marker string) {
	defer func() {
		if r := recover(); r != nil {
			marker = "escaped panic: " + fmt.Sprint(r)
		}
	}()
	f := c.Flags
	if !f.Bundle {
		res := api.Transform(c.Input, func() api.TransformOptions {
			o := f.transform(loaderByLang(c.Loader))
			o.LogLevel = api.LogLevelSilent
			return o
		}())
		if m := hasInternalError(res.Errors); m != "" {
			return m
		}
		return hasInternalError(res.Warnings)
	}
	t := f.transform(api.LoaderJS)
	opts := api.BuildOptions{EntryPoints: c.Entry, Bundle: true, Write: false, Outdir: "/out", LogLevel: api.LogLevelSilent,
		MinifyWhitespace: t.MinifyWhitespace, MinifySyntax: t.MinifySyntax, MinifyIdentifiers: t.MinifyIdentifiers, KeepNames: t.KeepNames, Target: t.Target,
		Format: t.Format, Sourcemap: t.Sourcemap, Charset: t.Charset, Platform: t.Platform, LineLimit: t.LineLimit, LegalComments: t.LegalComments,
		TreeShaking: t.TreeShaking, Metafile: true, Engines: t.Engines, MangleProps: t.MangleProps, Drop: t.Drop, Define: t.Define, JSX: t.JSX,
		Loader: map[string]api.Loader{".png": api.LoaderDataURL, ".txt": api.LoaderText, ".file": api.LoaderFile, ".bin": api.LoaderBinary, ".b64": api.LoaderBase64, ".copy": api.LoaderCopy}}
	if f.Splitting {
		opts.Splitting = true
		opts.Format = api.FormatESModule
	}
	if c.Kind == "bundle-package-grammar" {
		dir := filepath.Join(scratch, fmt.Sprint("pkg", c.Idx))
		for p, s := range c.Files {
			full := filepath.Join(dir, p)
			os.MkdirAll(filepath.Dir(full), 0o755)
			os.WriteFile(full, []byte(s), 0o644)
		}
		defer os.RemoveAll(dir)
		opts.AbsWorkingDir = dir
		opts.EntryPoints = []string{filepath.Join(dir, "app/src/entry.js")}
		opts.Outdir = filepath.Join(dir, "out")
	} else if c.Kind == "bundle-config-mutant" {
		dir := filepath.Join(scratch, fmt.Sprint("cfg", c.Idx))
		for p, s := range c.Files {
			full := filepath.Join(dir, p)
			os.MkdirAll(filepath.Dir(full), 0o755)
			os.WriteFile(full, []byte(s), 0o644)
		}
		defer os.RemoveAll(dir)
		opts.AbsWorkingDir = dir
		opts.EntryPoints = []string{filepath.Join(dir, "entry.ts")}
		opts.Outdir = filepath.Join(dir, "out")
	} else {
		opts.Plugins = []api.Plugin{memPlugin(c.Files)}
	}
	res := api.Build(opts)
	if m := hasInternalError(res.Errors); m != "" {
		return m
	}
	return hasInternalError(res.Warnings)
}

const c16CanarySrc = "let x = 1 + 2, y = `a${x}b`; export { x as default, y }; class A { #p = 1; static f(a) { return a?.b ?? this.#p } }"

func c16Canary() string {
	res := api.Transform(c16CanarySrc, api.TransformOptions{Loader: api.LoaderJS, MinifySyntax: true, MinifyWhitespace: true, Target: api.ES2019, Sourcemap: api.SourceMapInline, LogLevel: api.LogLevelSilent})
	if len(res.Errors) > 0 {
		return "ERR:" + res.Errors[0].Text
	}
	return string(res.Code)
}

// child: vh C16CHILD quick <seed> <from> <to> <dir>
func c16Child(r *Run) {
	if len(os.Args) < 7 {
		os.Exit(3)
	}
	seed, _ := strconv.ParseUint(os.Args[3], 10, 64)
	from, _ := strconv.Atoi(os.Args[4])
	to, _ := strconv.Atoi(os.Args[5])
	dir := os.Args[6]
	journal, err := os.OpenFile(filepath.Join(dir, "journal"), os.O_CREATE|os.O_WRONLY|os.O_TRUNC, 0o644)
	if err != nil {
		os.Exit(3)
	}
	report, _ := os.OpenFile(filepath.Join(dir, "report"), os.O_CREATE|os.O_WRONLY|os.O_TRUNC, 0o644)
	canary0 := c16Canary()
	var started int64
	var cur int64 = -1
	bound := 60 * time.Second
	if v := os.Getenv("VERIF_C16_BOUND"); v != "" {
		if n, err := strconv.Atoi(v); err == nil {
			bound = time.Duration(n) * time.Second
		}
	}
	go func() {
		for {
			time.Sleep(500 * time.Millisecond)
			s := atomic.LoadInt64(&started)
			if s != 0 && time.Since(time.Unix(0, s)) > bound {
				fmt.Fprintf(report, "HANG %d\n", atomic.LoadInt64(&cur))
				os.Exit(7)
			}
		}
	}()
	time.Sleep(400 * time.Millisecond)
	base := runtime.NumGoroutine()
	var slowest time.Duration
	slowIdx := -1
	kinds := map[string]int{}
	for i := from; i < to; i++ {
		c := c16MakeCase(seed, i)
		fmt.Fprintf(journal, "%d\n", i) // unbuffered write(2) before esbuild sees the input
		atomic.StoreInt64(&cur, int64(i))
		t0 := time.Now()
		atomic.StoreInt64(&started, t0.UnixNano())
		marker := c16Run(c, dir)
		atomic.StoreInt64(&started, 0)
		if d := time.Since(t0); d > slowest {
			slowest, slowIdx = d, i
		}
		kinds[c.Kind+"/"+c.Loader]++
		if marker != "" {
			fmt.Fprintf(report, "MARKER %d %s\n", i, strings.ReplaceAll(trunc(marker, 300), "\n", " "))
		}
		if marker != "" || i%500 == 499 {
			if got := c16Canary(); got != canary0 {
				fmt.Fprintf(report, "CANARY %d\n", i)
				os.Exit(8)
			}
		}
	}
	if got := c16Canary(); got != canary0 {
		fmt.Fprintf(report, "CANARY %d\n", to-1)
		os.Exit(8)
	}
	// goroutines must return to the baseline (the context code keeps a 250 ms timer goroutine)
	leaked := 0
	for tries := 0; tries < 400; tries++ { // up to a minute on a loaded machine; returns as soon as the count is back
		time.Sleep(150 * time.Millisecond)
		leaked = runtime.NumGoroutine() - base
		if leaked <= 0 {
			break
		}
	}
	if leaked > 0 {
		buf := make([]byte, 1<<16)
		n := runtime.Stack(buf, true)
		os.WriteFile(filepath.Join(dir, "goroutines"), buf[:n], 0o644)
		fmt.Fprintf(report, "LEAK %d\n", leaked)
	}
	kb, _ := json.Marshal(kinds)
	fmt.Fprintf(report, "DONE %d %d %d %s\n", to-from, slowest.Milliseconds(), slowIdx, kb)
	os.Exit(0)
}

// c16Probe: one fixed input per listed slowness finding; exits 7 if it takes longer than 20 s.
func c16Probe(r *Run) {
	go func() {
		time.Sleep(20 * time.Second)
		os.Exit(7)
	}()
	if len(os.Args) > 3 && os.Args[3] == "arrow" {
		api.Transform(strings.Repeat("a=>", 3000)+"a", api.TransformOptions{Loader: api.LoaderJS, LogLevel: api.LogLevelSilent})
	} else {
		api.Transform(strings.Repeat("a{", 10000), api.TransformOptions{Loader: api.LoaderCSS, LogLevel: api.LogLevelSilent})
	}
	os.Exit(0)
}

func checkC16(r *Run) {
	total := r.pick(120000, 2400000)
	if v := os.Getenv("VERIF_C16_TOTAL"); v != "" {
		if n, err := strconv.Atoi(v); err == nil {
			total = n
		}
	}
	nproc := runtime.NumCPU()
	batch := 5000
	r.Rule("cases are a pure function of (VERIF_SEED, index): repo test inputs for js/jsx/ts/tsx/css/json × token-level and byte-level mutators, deep nesting, malformed sourceMappingURL payloads, " +
		"bundles of the repo's bundler test trees with one mutated file, bundles over a real directory with mutated package.json/tsconfig.json; × random loader/minify/target/format/sourcemap/charset flags; " +
		"non-trivial = distinct (kind, loader) case actually executed to completion in a child process, counted by case index")
	r.Assume("a call is hung if it does not return within 60 s while 16 children share the machine (inputs ≤ 64 KB, normal cases take milliseconds); hangs are re-run alone with a 120 s bound before being reported")
	r.Assume("children run with the case index journalled by write(2) before esbuild sees the input, so process aborts are attributed")
	scratch, _ := os.MkdirTemp("/tmp", "verif-c16-")
	defer os.RemoveAll(scratch)
	self, _ := os.Executable()
	type job struct{ from, to int }
	var jobs []job
	for f := 0; f < total; f += batch {
		t := f + batch
		if t > total {
			t = total
		}
		jobs = append(jobs, job{f, t})
	}
	var mu sync.Mutex
	kindTotals := map[string]int{}
	var done, slowestMs int64
	parallel(len(jobs), nproc, func(j int) {
		jb := jobs[j]
	resume:
		dir := filepath.Join(scratch, fmt.Sprintf("b%d_%d", j, jb.from))
		os.MkdirAll(dir, 0o755)
		cmd := exec.Command("timeout", "-s", "QUIT", "900", self, "C16CHILD", r.Tier, fmt.Sprint(r.Seed), fmt.Sprint(jb.from), fmt.Sprint(jb.to), dir)
		out, _ := os.Create(filepath.Join(dir, "output"))
		cmd.Stdout, cmd.Stderr = out, out
		cmd.Env = append(os.Environ(), "GOTRACEBACK=all")
		err := cmd.Run()
		out.Close()
		code := 0
		if err != nil {
			if ee, ok := err.(*exec.ExitError); ok {
				code = ee.ExitCode()
			} else {
				code = -1
			}
		}
		rep, _ := os.ReadFile(filepath.Join(dir, "report"))
		lastIdx := -1
		if jr, err := os.ReadFile(filepath.Join(dir, "journal")); err == nil {
			lines := strings.Split(strings.TrimSpace(string(jr)), "\n")
			if n, err := strconv.Atoi(lines[len(lines)-1]); err == nil {
				lastIdx = n
			}
		}
		for _, line := range strings.Split(string(rep), "\n") {
			f := strings.SplitN(line, " ", 3)
			switch f[0] {
			case "MARKER":
				idx, _ := strconv.Atoi(f[1])
				c := c16MakeCase(r.Seed, idx)
				r.Violation("internal-error:"+c.Kind+":"+normErr(f[2]), "esbuild reported an internal error / recovered panic: "+f[2], c)
			case "LEAK":
				gs, _ := os.ReadFile(filepath.Join(dir, "goroutines"))
				r.Violation("goroutine-leak", fmt.Sprintf("batch %d..%d left %s goroutines running after all calls returned", jb.from, jb.to, f[1]), map[string]interface{}{"from": jb.from, "to": jb.to, "goroutines": trunc(string(gs), 6000)})
			case "DONE":
				var n, ms, si int
				var kb string
				fmt.Sscanf(line, "DONE %d %d %d", &n, &ms, &si)
				if i := strings.Index(line, "{"); i >= 0 {
					kb = line[i:]
				}
				var km map[string]int
				json.Unmarshal([]byte(kb), &km)
				mu.Lock()
				for k, v := range km {
					kindTotals[k] += v
				}
				mu.Unlock()
				atomic.AddInt64(&done, int64(n))
				for {
					old := atomic.LoadInt64(&slowestMs)
					if int64(ms) <= old || atomic.CompareAndSwapInt64(&slowestMs, old, int64(ms)) {
						break
					}
				}
			}
		}
		if code != 0 {
			c := c16MakeCase(r.Seed, lastIdx)
			outText, _ := os.ReadFile(filepath.Join(dir, "output"))
			switch {
			case code == 7:
				// hang: confirm alone with a generous bound
				if c16ConfirmHang(self, r, lastIdx, scratch) {
					r.Violation("hang:"+c.Kind, fmt.Sprintf("call did not return within the bound (case %d, confirmed on re-run)", lastIdx), c)
				} else {
					r.Count("slow_cases_not_reproduced", 1)
				}
			case code == 8:
				r.Violation("canary:"+c.Kind, fmt.Sprintf("process could not reproduce the canary build after case %d", lastIdx), c)
			case code == 124 || code == 137 || code == 131:
				r.Count("batch_watchdog_fired", 1)
				r.Inconclusive(fmt.Sprintf("batch %d..%d hit the 900 s process watchdog at case %d", jb.from, jb.to, lastIdx))
			default:
				r.Violation("abort:"+c.Kind+":"+normErr(firstLine(string(outText))), fmt.Sprintf("child process died (exit %d) while running case %d: %s", code, lastIdx, trunc(firstLine(string(outText)), 300)),
					map[string]interface{}{"case": c, "output": trunc(string(outText), 4000)})
			}
			// continue after the culprit
			if lastIdx >= jb.from && lastIdx+1 < jb.to && code != 124 && code != 137 && code != 131 {
				r.Count("batches_resumed_after_abort", 1)
				atomic.AddInt64(&done, int64(lastIdx-jb.from))
				jb.from = lastIdx + 1
				goto resume
			}
		}
	})
	// dedicated probe for the listed finding (run alone, after the batches, on an idle machine)
	{
		cmd := exec.Command("timeout", "-s", "KILL", "60", self, "C16PROBE", r.Tier)
		if err := cmd.Run(); err != nil {
			r.Violation("slow:css-deep-nesting", "Transform of 10 000 nested CSS rules (`a{` × 10000, 20 KB, loader css) did not return within 20 s on an idle machine",
				map[string]interface{}{"input": "a{ repeated 10000 times", "loader": "css"})
		}
		cmd = exec.Command("timeout", "-s", "KILL", "60", self, "C16PROBE", r.Tier, "arrow")
		if err := cmd.Run(); err != nil {
			r.Violation("slow:nested-arrow-functions", "Transform of 3 000 nested arrow functions (`a=>` × 3000, 9 KB, loader js) did not return within 20 s on an idle machine",
				map[string]interface{}{"input": "a=> repeated 3000 times, then a", "loader": "js"})
		}
		atomic.AddInt64(&done, 2)
	}
	r.Eval(int(done))
	for k, v := range kindTotals {
		r.Count("kind:"+k, v)
	}
	// distinct non-trivial: completed case indices are distinct by construction
	r.mu.Lock()
	for i := int64(0); i < done; i++ {
		r.distinct[uint64(i)+1<<40] = struct{}{}
	}
	r.mu.Unlock()
	r.Extra("slowest_case_ms", slowestMs)
	for i := 0; i < 3; i++ {
		c := c16MakeCase(r.Seed, i*7919%total)
		r.Sample(map[string]interface{}{"idx": c.Idx, "kind": c.Kind, "loader": c.Loader, "input": trunc(c.Input, 160), "flags": c.Flags})
	}
	if done < int64(total)*9/10 {
		r.Inconclusive(fmt.Sprintf("only %d of %d cases completed", done, total))
	}
}

func firstLine(s string) string {
	for _, l := range strings.Split(s, "\n") {
		if strings.HasPrefix(l, "panic:") || strings.HasPrefix(l, "fatal error:") || strings.HasPrefix(l, "runtime:") {
			return l
		}
	}
	if i := strings.Index(s, "\n"); i >= 0 {
		return s[:i]
	}
	return s
}

func c16ConfirmHang(self string, r *Run, idx int, scratch string) bool {
	dir := filepath.Join(scratch, fmt.Sprint("confirm", idx))
	os.MkdirAll(dir, 0o755)
	// (alone, with ten minutes: a call that is merely slow on a loaded machine finishes, a call that loops does not)
	cmd := exec.Command("timeout", "-s", "KILL", "700", self, "C16CHILD", r.Tier, fmt.Sprint(r.Seed), fmt.Sprint(idx), fmt.Sprint(idx+1), dir)
	cmd.Env = append(os.Environ(), "VERIF_C16_BOUND=600")
	err := cmd.Run()
	return err != nil
}

func replayC16(r *Run, path string) {
	var doc struct {
		Case json.RawMessage `json:"case"`
	}
	if err := readJSON(path, &doc); err != nil {
		r.Inconclusive(err.Error())
		return
	}
	var c c16Case
	if json.Unmarshal(doc.Case, &c) != nil || c.Kind == "" {
		var w struct {
			Case c16Case `json:"case"`
		}
		json.Unmarshal(doc.Case, &w)
		c = w.Case
	}
	scratch, _ := os.MkdirTemp("/tmp", "verif-c16r-")
	defer os.RemoveAll(scratch)
	r.Eval(1)
	if m := c16Run(c, scratch); m != "" {
		r.Violation("internal-error:"+c.Kind+":"+normErr(m), m, c)
	}
}
