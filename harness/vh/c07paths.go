package main

import (
	"encoding/json"
	"fmt"
	"os"
	"path/filepath"
	"strings"

	"github.com/evanw/esbuild/pkg/api"
)

// c07RealPaths: "the named source file". On a real file tree every entry of a map's `sources`, resolved against the
// directory of the map (or of the JavaScript/CSS file for an inline map) and the map's sourceRoot, must be the path of an
// input file of the build, and the sourcesContent entry at the same index must be that file's text. Entry points,
// shared chunks and dynamic-import chunks are placed in different directories by the entry/chunk name templates.
func c07RealPaths(r *Run) {
	root, _ := os.MkdirTemp("/tmp", "verif-c07p-")
	defer os.RemoveAll(root)
	files := map[string]string{
		"src/pages/a.js":      "import {shared} from '../lib/shared.js';\nimport {deep} from '../lib/deep/util.js';\nimport './a.css';\nconsole.log('a', shared(), deep);\nimport('../lazy/panel.js').then(m => m.show());\n",
		"src/pages/b.js":      "import {shared} from '../lib/shared.js';\nconsole.log('b', shared());\nimport('../lazy/panel.js');\n",
		"src/pages/a.css":     "@import '../lib/base.css';\n.a { color: red }\n",
		"src/lib/base.css":    ".base { margin: 0 }\n",
		"src/lib/shared.js":   "let n = 0;\nexport function shared() { return ++n; }\n",
		"src/lib/deep/util.js": "export const deep = 'deep';\n",
		"src/lazy/panel.js":   "import {shared} from '../lib/shared.js';\nexport function show() { console.log('panel', shared()); }\n",
	}
	for p, c := range files {
		os.MkdirAll(filepath.Dir(filepath.Join(root, p)), 0o755)
		os.WriteFile(filepath.Join(root, p), []byte(c), 0o644)
	}
	byAbs := map[string]string{}
	for p, c := range files {
		byAbs[filepath.Join(root, p)] = c
	}
	checked, maps := 0, 0
	for _, chunkNames := range []string{"", "chunks/[name]-[hash]", "assets/js/[hash]/[name]", "[name]/[hash]"} {
		for _, entryNames := range []string{"", "pages/[dir]/[name]", "[name]-[hash]"} {
			for _, mode := range []api.SourceMap{api.SourceMapLinked, api.SourceMapExternal, api.SourceMapInline, api.SourceMapInlineAndExternal} {
				for _, minify := range []bool{false, true} {
					if r.quick() && minify && mode != api.SourceMapLinked {
						continue
					}
					what := fmt.Sprintf("chunk-names=%q,entry-names=%q,sourcemap=%d,minify=%v", chunkNames, entryNames, mode, minify)
					res, pan := buildSafe(api.BuildOptions{EntryPoints: []string{filepath.Join(root, "src/pages/a.js"), filepath.Join(root, "src/pages/b.js")}, Bundle: true, Splitting: true, Format: api.FormatESModule,
						Write: false, Outdir: filepath.Join(root, "out"), Outbase: filepath.Join(root, "src"), AbsWorkingDir: root, ChunkNames: chunkNames, EntryNames: entryNames, Sourcemap: mode,
						MinifyWhitespace: minify, MinifyIdentifiers: minify, MinifySyntax: minify, LogLevel: api.LogLevelSilent})
					r.Eval(1)
					if pan != "" || len(res.Errors) > 0 {
						r.Count("real_path_builds_with_errors", 1)
						continue
					}
					outs := map[string]string{}
					for _, f := range res.OutputFiles {
						outs[f.Path] = string(f.Contents)
					}
					for p, body := range outs {
						var mapText, base string
						switch {
						case strings.HasSuffix(p, ".map"):
							mapText, base = body, filepath.Dir(p)
						case (mode == api.SourceMapInline || mode == api.SourceMapInlineAndExternal) && (strings.HasSuffix(p, ".js") || strings.HasSuffix(p, ".css")):
							m, ok := c07ExtractInline(body)
							if !ok {
								continue
							}
							mapText, base = m, filepath.Dir(p)
						default:
							continue
						}
						var sm struct {
							Sources        []string  `json:"sources"`
							SourcesContent []*string `json:"sourcesContent"`
							SourceRoot     string    `json:"sourceRoot"`
						}
						if json.Unmarshal([]byte(mapText), &sm) != nil {
							r.Violation("sourcemap:paths:malformed", "map of "+p+" is not JSON ("+what+")", map[string]interface{}{"options": what, "output": p})
							continue
						}
						maps++
						rel, _ := filepath.Rel(root, p)
						for i, s := range sm.Sources {
							checked++
							abs := filepath.Clean(filepath.Join(base, sm.SourceRoot, s))
							want, ok := byAbs[abs]
							relAbs, _ := filepath.Rel(root, abs)
							if !ok {
								r.Violation("sourcemap:paths:source-names-no-input-file", fmt.Sprintf("%s: sources[%d] = %q resolves (from the map's directory) to %s, which is not a file of the build (%s)", rel, i, s, relAbs, what),
									map[string]interface{}{"options": what, "output": rel, "sources": sm.Sources})
								continue
							}
							if i < len(sm.SourcesContent) && sm.SourcesContent[i] != nil && *sm.SourcesContent[i] != want {
								r.Violation("sourcemap:paths:content-of-another-file", fmt.Sprintf("%s: sources[%d] names %s but sourcesContent[%d] is not that file's text (%s)", rel, i, relAbs, i, what),
									map[string]interface{}{"options": what, "output": rel, "sources": sm.Sources})
							}
						}
						r.Nontrivial("paths:" + what + ":" + filepath.Ext(strings.TrimSuffix(p, ".map")))
					}
				}
			}
		}
	}
	r.Count("real_path_maps_checked", maps)
	r.Count("real_path_sources_resolved", checked)
	if maps < 20 {
		r.Inconclusive(fmt.Sprintf("only %d maps of real-file builds were checked", maps))
	}
}
