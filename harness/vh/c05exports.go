package main

import (
	"fmt"
	"strings"
	"sync/atomic"

	"github.com/evanw/esbuild/pkg/api"
)

// c05Exports: lowering inside *exported* declarations of a module that is not bundled. The temporaries and helper
// calls that lowering introduces must not change what the module exports: the namespace an importer sees (names and
// values) and the probe trace of the lowered module must equal those of the module as written, for every target.
// Each case is its own compilation unit; the reference is the input itself running in V8's module loader.
type exportCase struct {
	sig string
	src string
}

func exportLoweringCases() []exportCase {
	pre := "const src = {alpha: 1, beta: [2, 3, 4], gamma: 5, delta: 6};\nconst f = () => ($(1, \"f\"), {a: 1, b: 2, c: 3});\nconst g = () => ($(2, \"g\"), {a: 4, d: 5});\n"
	return []exportCase{
		{"object-rest-const", pre + "export const {alpha: e, ...r} = src;\n$(3, e, r);\n"},
		{"object-rest-let-var", pre + "export let {gamma, ...rl} = src;\nexport var {delta, ...rv} = src;\n$(3, gamma, rl, delta, rv);\n"},
		{"object-rest-two-declarators", pre + "export var {a, ...rest} = f(), {d, ...rest2} = g();\n$(3, a, rest, d, rest2);\n"},
		{"object-rest-nested", pre + "export const {beta: [b0, ...bs], ...others} = src, {alpha: {...none}} = src;\n$(3, b0, bs, others, none);\n"},
		{"object-rest-default", pre + "export const {x = $(3, \"dflt\"), ...remaining} = src;\n$(4, x, remaining);\n"},
		{"object-rest-computed-key", pre + "export const {[$(3, \"alpha\")]: first, ...tail} = src;\n$(4, first, tail);\n"},
		{"array-rest-object-pattern", pre + "export const [h, ...{length}] = src.beta;\n$(3, h, length);\n"},
		{"nullish-and-chain", pre + "export var v = src.zz ?? src.alpha, w = src?.beta?.[1], u = src.nope?.x.y;\n$(3, v, w, u);\n"},
		{"logical-assignment", pre + "export let la = null, lb = 1, lc = 0;\nla ??= src.alpha; lb &&= src.gamma; lc ||= src.delta;\n$(3, la, lb, lc);\n"},
		{"exponent", pre + "export let p = src.gamma ** 2, q = 2;\nq **= 3;\n$(3, p, q);\n"},
		{"class-static-private", pre + "export class K { static #p = src.alpha; static q = K.#p + 1; #i = 7; get i() { return this.#i; } static { K.s = 3; } }\n$(3, K.q, K.s, new K().i, Object.getOwnPropertyNames(K).sort());\n"},
		{"default-class-fields", pre + "export default class { static x = src.alpha; y = 2; static #z = 3; static z() { return this.#z; } }\n"},
		{"default-named-class", pre + "export default class N { static #a = 1; static a() { return N.#a; } }\n$(3, N.a());\n"},
		{"class-name-after-lowering", pre + "export class N { static #a = 1; static a() { return N.#a; } }\n$(3, N.a(), N.name);\n"},
		{"async-functions", pre + "export async function af(x) { return (await x) + 1; }\nexport const ar = async (x) => (await x) * 2;\nexport async function* ag() { yield await 1; yield* [2]; }\naf(1).then(v => $(3, v)); ar(2).then(v => $(4, v));\n(async () => { for await (const v of ag()) $(5, v); })();\n"},
		{"object-spread-value", pre + "export const o = {...src, alpha: 9}, o2 = {...f(), ...g()};\n$(3, o, o2);\n"},
		{"for-of-rest-binding", pre + "export var last;\nfor (const {a, ...r1} of [f(), g()]) last = r1;\n$(3, last);\n"},
		{"function-rest-param", pre + "export function fr({a, ...r2}, [b, ...{length: l}] = [1, 2]) { return [a, r2, b, l]; }\n$(3, fr(f()));\n"},
		{"export-list-after-lowering", pre + "const {alpha, ...restAll} = src;\nlet c = alpha ?? 0;\nc ||= 5;\nexport {alpha as first, restAll, c};\n$(3, alpha, restAll, c);\n"},
		{"optional-catch-and-template", pre + "export let t;\ntry { throw 1; } catch { t = ((s, ...v) => [s.raw, v])`a${src.alpha}\\u{`; }\n$(3, t);\n"},
	}
}

func c05Exports(r *Run) {
	pool := r.Pool()
	cases := exportLoweringCases()
	var runs, events int64
	for ci, c := range cases {
		ref := progModule(c.src)
		var outs []Prog
		var names, codes []string
		for _, t := range c05Targets {
			if t.name == "esnext" {
				continue
			}
			if r.quick() && !(t.name == "es2015" || t.name == "es2017" || t.name == "es2019" || t.name == "es2021") {
				continue
			}
			for _, format := range []api.Format{api.FormatDefault, api.FormatESModule} {
				for _, minify := range []bool{false, true} {
					res, pan := transformSafe(c.src, api.TransformOptions{Loader: api.LoaderJS, Target: t.t, Format: format, MinifySyntax: minify})
					r.Eval(1)
					if pan != "" {
						r.Violation("lower:exports:panic", "esbuild panicked: "+pan, map[string]interface{}{"input": c.src})
						continue
					}
					if len(res.Errors) > 0 {
						r.Count("export_lowering_variants_with_errors", 1)
						continue
					}
					outs = append(outs, progModule(string(res.Code)))
					names = append(names, fmt.Sprintf("target=%s,format=%s,minify-syntax=%v", t.name, formatName(format), minify))
					codes = append(codes, string(res.Code))
				}
			}
		}
		if len(outs) == 0 {
			r.Inconclusive("export-lowering case " + c.sig + " was refused for every target")
			continue
		}
		mr, err := pool.ExecMulti(ref, outs, false)
		if err != nil {
			r.Count("oracle_errors", 1)
			continue
		}
		if mr.RefTerm != "ok" {
			r.Inconclusive("export-lowering case " + c.sig + " does not run in the reference engine: " + mr.RefTerm)
			continue
		}
		atomic.AddInt64(&events, int64(mr.RefEvents))
		r.Nontrivial("exports:" + c.sig)
		reported := map[string]bool{}
		for k, pr := range mr.Results {
			atomic.AddInt64(&runs, 1)
			if pr.Equal || pr.Inconclusive {
				continue
			}
			what := "termination differs: reference " + pr.TermA + ", output " + pr.TermB
			kind := "trace"
			if len(pr.Diffs) > 0 {
				d := pr.Diffs[0]
				what = fmt.Sprintf("module as written %s, lowered module %s", trunc(strings.Join(d.A, " "), 300), trunc(strings.Join(d.B, " "), 300))
				if d.Seg == "@exports" {
					kind = "namespace"
				}
			}
			sig := "lower:exports:" + kind + ":" + c.sig
			if reported[sig] {
				continue
			}
			reported[sig] = true
			r.Violation(sig, fmt.Sprintf("exported declaration %s: the lowered module differs (%s) under %s: %s", c.sig, kind, names[k], what),
				map[string]interface{}{"case": c.src, "output": codes[k], "variant": names[k], "diffs": pr.Diffs})
		}
		if ci == 0 {
			r.Sample(map[string]string{"kind": "export-lowering", "case": c.src})
		}
	}
	r.Count("export_lowering_cases", len(cases))
	r.Count("export_lowering_variant_runs", int(runs))
	r.Count("export_lowering_probe_events_ref", int(events))
	if runs < int64(len(cases)*4) {
		r.Inconclusive(fmt.Sprintf("only %d export-lowering variant runs", runs))
	}
}
