package main

import (
	"fmt"
	"strings"
)

// tsgen: programs printed twice at once — as plain JavaScript and with TypeScript type-level syntax inserted at every
// place the TypeScript grammar allows it. The property under test (C06) is that both compile to the same bytes.
// A program is a list of independent top-level units; each unit records which kinds of type syntax it contains,
// so a differing program is narrowed to one unit and reported under the kinds it uses.

type tsUnit struct {
	Plain string   `json:"plain"`
	Typed string   `json:"typed"`
	Kinds []string `json:"kinds"`
	NoTSX bool     `json:"no_tsx"` // uses `<T>expr` casts, which the tsx grammar does not have
}

type tsgen struct {
	rng     *Rng
	derived bool
	p, t    strings.Builder
	kinds   map[string]bool
	noTSX   bool
	n       int
	depth   int
	tsx     bool // generate only syntax valid in .tsx
}

func newTsgen(rng *Rng, tsx bool) *tsgen { return &tsgen{rng: rng, kinds: map[string]bool{}, tsx: tsx} }

func (g *tsgen) W(s string) { g.p.WriteString(s); g.t.WriteString(s) }
func (g *tsgen) T(kind, s string) {
	// `f<<T>(a: T) => T>(x)` would lex as `<<`: TypeScript itself needs the space
	if strings.HasPrefix(s, "<<") {
		s = "< " + s[1:]
	}
	g.t.WriteString(s)
	g.kinds[kind] = true
}

// maybe-typed: insert with probability 2/3 so that typed and partially typed forms both occur
func (g *tsgen) MT(kind, s string) {
	if g.rng.Intn(3) != 0 {
		g.T(kind, s)
	}
}
func (g *tsgen) id(prefix string) string { g.n++; return fmt.Sprintf("%s%d", prefix, g.n) }

var tsPrims = []string{"number", "string", "boolean", "any", "unknown", "never", "void", "null", "undefined", "object", "symbol", "bigint", "this", "T", "U", "Foo", "Foo.Bar", "unique symbol"}
var tsLits = []string{"1", "-1", "\"s\"", "'q'", "true", "false", "0x10", "1n", "-1n", "`tpl`"}

// atom parenthesises a type that cannot be an operand of a type operator as it stands (function, constructor, conditional,
// union/intersection and prefix-operator types), as TypeScript's grammar requires.
func tsAtom(t string) string {
	if strings.Contains(t, "=>") || strings.Contains(t, " extends ") || strings.Contains(t, " | ") || strings.Contains(t, " & ") || strings.HasPrefix(t, "|") ||
		strings.HasPrefix(t, "keyof ") || strings.HasPrefix(t, "typeof ") || strings.HasPrefix(t, "readonly ") || strings.HasPrefix(t, "abstract ") || strings.HasPrefix(t, "new ") ||
		strings.HasPrefix(t, "unique ") || strings.HasPrefix(t, "asserts") || strings.HasPrefix(t, "-") || strings.HasPrefix(t, "<") || strings.HasPrefix(t, "import(") {
		return "(" + t + ")"
	}
	return t
}

// tsArrowRet makes a type usable as the return type annotation of an arrow function: `(x): (T) => y` would read
// `(T) => y` as a function type, so a type that starts with a parenthesis is boxed.
func tsArrowRet(t string) string {
	if strings.ContainsAny(t, "()") || strings.HasPrefix(t, "<") || strings.HasPrefix(t, "new ") || strings.HasPrefix(t, "abstract ") || strings.Contains(t, "=>") {
		return "Array<" + t + ">"
	}
	return t
}

// Type returns a random type from the TypeScript type grammar.
func (g *tsgen) Type(d int) string {
	r := g.rng
	if d <= 0 {
		if r.Intn(4) == 0 {
			return r.Pick(tsLits)
		}
		return r.Pick(tsPrims[:16])
	}
	switch r.Intn(34) {
	case 0, 1:
		return r.Pick(tsPrims)
	case 2:
		return tsAtom(g.Type(d-1)) + "[]"
	case 3:
		return tsAtom(g.Type(d-1)) + " | " + tsAtom(g.Type(d-1))
	case 4:
		return tsAtom(g.Type(d-1)) + " & " + tsAtom(g.Type(d-1))
	case 5:
		return "Array<" + g.Type(d-1) + ">"
	case 6:
		return "Map<" + g.Type(d-1) + ", " + g.Type(d-1) + ">"
	case 7:
		return "[" + g.Type(d-1) + ", " + g.Type(d-1) + "?]"
	case 8:
		return "[a: " + g.Type(d-1) + ", b?: " + g.Type(d-1) + ", ...rest: " + tsAtom(g.Type(d-1)) + "[]]"
	case 9:
		return "(" + g.Type(d-1) + ")"
	case 10:
		return "(a: " + g.Type(d-1) + ", b?: " + g.Type(d-1) + ") => " + g.Type(d-1)
	case 11:
		return "new (...args: " + g.Type(d-1) + "[]) => " + g.Type(d-1)
	case 12:
		return "{ a: " + g.Type(d-1) + "; b?: " + g.Type(d-1) + ", readonly c: " + g.Type(d-1) + " }"
	case 13:
		return "{ [k: string]: " + g.Type(d-1) + "; m(x: " + g.Type(d-1) + "): void; (y: number): string; new (z: any): Foo; get p(): " + g.Type(d-1) + "; set p(v) }"
	case 14:
		return tsAtom(g.Type(d-1)) + " extends " + tsAtom(g.Type(d-1)) + " ? " + g.Type(d-1) + " : " + g.Type(d-1)
	case 15:
		return "T extends (infer U extends string)[] ? U : " + g.Type(d-1)
	case 16:
		return "{ [K in keyof T]?: T[K] }"
	case 17:
		return "{ -readonly [K in keyof T as `get${Capitalize<K & string>}`]-?: () => T[K] }"
	case 18:
		return "`a${" + g.Type(d-1) + "}b${number}`"
	case 19:
		return "typeof x"
	case 20:
		return "typeof x.y<" + g.Type(d-1) + ">"
	case 21:
		return "keyof " + tsAtom(g.Type(d-1))
	case 22:
		return tsAtom(g.Type(d-1)) + "[\"a\"]"
	case 23:
		return "import(\"./m\").Foo<" + g.Type(d-1) + ">"
	case 24:
		return "readonly " + tsAtom(g.Type(d-1)) + "[]"
	case 25:
		return "<T>(a: T) => T"
	case 26:
		return "abstract new () => " + g.Type(d-1)
	case 27:
		return "| " + tsAtom(g.Type(d-1)) + " | " + tsAtom(g.Type(d-1))
	case 28:
		return r.Pick(tsLits)
	case 29:
		return "asserts"
	case 30:
		return "Foo<" + g.Type(d-1) + ">[" + "number]"
	case 31:
		return "(this: Foo, ...r: any[]) => x is string"
	case 32:
		return "{ a: 1 }[\"a\"] extends infer V ? V : never"
	default:
		return "Promise<" + g.Type(d-1) + ">"
	}
}

func (g *tsgen) typeParams() string {
	switch g.rng.Intn(6) {
	case 0:
		return "<T>"
	case 1:
		return "<T, U>"
	case 2:
		return "<T extends " + g.Type(1) + ">"
	case 3:
		return "<T extends object = {}, U = T[]>"
	case 4:
		return "<const T extends readonly unknown[]>"
	default:
		return "<T,>"
	}
}

// Expr writes an expression (both versions) with type-level operators sprinkled in.
func (g *tsgen) Expr(d int) {
	r := g.rng
	if d <= 0 {
		switch r.Intn(6) {
		case 0:
			g.W("a")
		case 1:
			g.W("b")
		case 2:
			g.W("1")
		case 3:
			g.W("\"s\"")
		case 4:
			g.W("o.p")
		default:
			g.W("f")
		}
		return
	}
	switch r.Intn(30) {
	case 0: // as
		g.W("(")
		g.Expr(d - 1)
		g.T("as", " as "+g.Type(d))
		g.W(")")
	case 1: // as without parentheses around it, in an operand position
		g.W("(")
		g.Expr(d - 1)
		g.W(")")
		g.T("as", " as "+g.Type(1))
		g.W(" || (")
		g.Expr(d - 1)
		g.W(")")
	case 2:
		g.W("(")
		g.Expr(d - 1)
		g.T("satisfies", " satisfies "+g.Type(d))
		g.W(")")
	case 3: // non-null
		g.W("a")
		g.T("non-null", "!")
		g.W(".x")
	case 4:
		g.W("a")
		g.T("non-null", "!")
		g.W("[0]")
		g.T("non-null", "!")
		g.W("(b)")
	case 5: // angle-bracket cast
		if g.tsx {
			g.Expr(d - 1)
			return
		}
		g.noTSX = true
		g.W("(")
		g.T("cast", "<"+g.Type(d)+">")
		g.Expr(d - 1)
		g.W(")")
	case 6: // call with type arguments
		g.W("f")
		g.T("type-args", "<"+g.Type(d)+">")
		g.W("(")
		g.Expr(d - 1)
		g.W(")")
	case 7:
		g.W("new Foo")
		g.T("type-args", "<"+g.Type(d)+", "+g.Type(1)+">")
		g.W("(")
		g.Expr(d - 1)
		g.W(")")
	case 8:
		g.W("tag")
		g.T("type-args", "<"+g.Type(1)+">")
		g.W("`x${")
		g.Expr(d - 1)
		g.W("}`")
	case 9:
		g.W("a?.b")
		g.T("type-args", "<"+g.Type(1)+">")
		g.W("(")
		g.Expr(d - 1)
		g.W(")")
	case 10: // arrow with annotations
		g.W("(")
		g.W("x")
		g.MT("param-type", ": "+g.Type(d))
		g.W(", y")
		g.MT("optional-param", "?")
		g.MT("param-type", ": "+g.Type(1))
		g.W(")")
		g.MT("return-type", ": "+tsArrowRet(g.Type(d)))
		g.W(" => ")
		g.Expr(d - 1)
	case 11: // generic arrow
		g.T("type-params", g.typeParamsArrow())
		g.W("(x")
		g.MT("param-type", ": T")
		g.W(") => x")
	case 12: // async arrow
		g.W("async ")
		g.T("type-params", g.typeParamsArrow())
		g.W("(x")
		g.MT("param-type", ": "+g.Type(1))
		g.W(")")
		g.MT("return-type", ": Promise<"+g.Type(1)+">")
		g.W(" => x")
	case 13: // function expression
		g.W("function ")
		g.T("type-params", g.typeParams())
		g.W("(")
		g.T("this-param", "this: "+g.Type(1)+", ")
		g.W("x")
		g.MT("param-type", ": "+g.Type(d))
		g.W(" = 1, ...r")
		g.MT("param-type", ": "+tsAtom(g.Type(1))+"[]")
		g.W(")")
		g.MT("return-type", ": "+g.Type(d))
		g.W(" { return x; }")
	case 14: // conditional with an arrow that has a return type in the true branch
		g.W("a ? (x")
		g.MT("param-type", ": "+g.Type(1))
		g.W(")")
		g.T("return-type-in-conditional", ": "+tsArrowRet(g.Type(1)))
		g.W(" => x : ")
		g.Expr(d - 1)
	case 15:
		g.W("a ? (b) : c")
		g.W(" || (")
		g.Expr(d - 1)
		g.W(")")
	case 16:
		g.W("(")
		g.Expr(d - 1)
		g.W(") + (")
		g.Expr(d - 1)
		g.W(")")
	case 17:
		g.W("[")
		g.Expr(d - 1)
		g.W(", ")
		g.Expr(d - 1)
		g.W("]")
		g.MT("as-const", " as const")
	case 18: // object literal with typed methods
		g.W("{ m")
		g.MT("type-params", g.typeParams())
		g.W("(x")
		g.MT("param-type", ": "+g.Type(1))
		g.W(")")
		g.MT("return-type", ": "+g.Type(1))
		g.W(" { return x; }, get g()")
		g.MT("return-type", ": "+g.Type(1))
		g.W(" { return 1; }, set g(v")
		g.MT("param-type", ": "+g.Type(1))
		g.W(") {}, k: ")
		g.Expr(d - 1)
		g.W(" }")
	case 19: // class expression
		g.W("class")
		g.MT("type-params", g.typeParams())
		g.W(" extends Base")
		g.MT("type-args", "<"+g.Type(1)+">")
		g.MT("implements", " implements I, J<"+g.Type(1)+">")
		g.W(" { ")
		saved := g.derived
		g.derived = true
		g.classMembers(d - 1)
		g.derived = saved
		g.W("}")
	case 20: // instantiation expression
		g.W("(f")
		g.T("instantiation", "<"+g.Type(1)+">")
		g.W(")")
	case 21:
		g.W("a < b")
	case 22:
		g.W("(a")
		g.T("as", " as any")
		g.T("as", " as "+g.Type(1))
		g.W(").y")
	case 23:
		g.W("await")
		g.W(" p")
		g.T("non-null", "!")
	case 24:
		g.W("typeof (")
		g.Expr(d - 1)
		g.W(")")
	case 25:
		g.W("f(")
		g.Expr(d - 1)
		g.W(", ")
		g.Expr(d - 1)
		g.W(")")
	case 26:
		g.W("(a")
		g.T("non-null", "!")
		g.T("as", " as "+g.Type(1))
		g.W(")")
	case 27:
		g.W("o?.p")
		g.T("non-null", "!")
		g.W(".q")
	case 28:
		g.W("x => ")
		g.Expr(d - 1)
	default:
		g.W("(")
		g.Expr(d - 1)
		g.W(")")
	}
}

func (g *tsgen) typeParamsArrow() string {
	if g.tsx {
		// in .tsx a generic arrow needs a trailing comma or a constraint to tell it from a JSX tag
		if g.rng.Bool() {
			return "<T,>"
		}
		return "<T extends unknown>"
	}
	return g.typeParams()
}

func (g *tsgen) classMembers(d int) {
	r := g.rng
	n := 1 + r.Intn(5)
	derived := g.derived
	hasCtor := false
	for i := 0; i < n; i++ {
		c := r.Intn(16)
		if c == 8 && hasCtor {
			c = 0
		}
		switch c {
		case 0:
			g.MT("accessibility", r.Pick([]string{"public ", "private ", "protected "}))
			g.W("x" + fmt.Sprint(i))
			g.MT("field-type", ": "+g.Type(d))
			g.W(" = 1; ")
		case 1:
			g.T("declare-field", "declare d"+fmt.Sprint(i)+": "+g.Type(d)+"; ")
		case 2:
			g.W("static ")
			g.MT("readonly", "readonly ")
			g.W("s" + fmt.Sprint(i))
			g.MT("field-type", ": "+g.Type(1))
			g.W(" = 2; ")
		case 3:
			g.T("index-signature", "[k: string]: "+g.Type(1)+"; ")
		case 4:
			g.T("overload", "m"+fmt.Sprint(i)+"(a: string): void; ")
			g.T("overload", "m"+fmt.Sprint(i)+"(a: number): void; ")
			g.W("m" + fmt.Sprint(i) + "(a")
			g.MT("param-type", ": any")
			g.W(") {} ")
		case 5:
			g.MT("accessibility", "private ")
			g.W("get g" + fmt.Sprint(i) + "()")
			g.MT("return-type", ": "+g.Type(1))
			g.W(" { return 1; } ")
		case 6:
			g.W("m" + fmt.Sprint(i))
			g.MT("optional-member", "?")
			g.MT("type-params", g.typeParams())
			g.W("(")
			g.T("this-param", "this: this, ")
			g.W("a")
			g.MT("optional-param", "?")
			g.MT("param-type", ": "+g.Type(d))
			g.W(")")
			g.MT("return-type", ": "+g.Type(d))
			g.W(" { return a; } ")
		case 7:
			g.W("f" + fmt.Sprint(i))
			g.T("definite", "!")
			g.T("field-type", ": "+g.Type(1))
			g.W("; ")
		case 8:
			hasCtor = true
			g.T("overload", "constructor(a: string); ")
			g.W("constructor(a")
			g.MT("param-type", ": any")
			if derived {
				g.W(") { super(); } ")
			} else {
				g.W(") { this.a = a; } ")
			}
		case 9:
			g.MT("override", "override ")
			g.W("async *gen" + fmt.Sprint(i) + "()")
			g.MT("return-type", ": AsyncGenerator<"+g.Type(1)+">")
			g.W(" {} ")
		case 10:
			g.W("static ")
			g.MT("accessibility", "protected ")
			g.W("sm" + fmt.Sprint(i))
			g.MT("type-params", "<T>")
			g.W("(")
			g.W("...r")
			g.MT("param-type", ": T[]")
			g.W(") { return r; } ")
		case 11:
			g.W("['c' + " + fmt.Sprint(i) + "]")
			g.MT("field-type", ": "+g.Type(1))
			g.W(" = 3; ")
		case 12:
			g.W("#p" + fmt.Sprint(i))
			g.MT("field-type", ": "+g.Type(1))
			g.W(" = 4; ")
		case 13:
			g.W("static { ")
			g.W("let z")
			g.MT("var-type", ": "+g.Type(1))
			g.W(" = 1; } ")
		case 14:
			g.W("o" + fmt.Sprint(i))
			g.T("optional-member", "?")
			g.MT("field-type", ": "+g.Type(1))
			g.W("; ")
		default:
			g.MT("accessibility", "public ")
			g.MT("readonly", "readonly ")
			g.W("k" + fmt.Sprint(i) + " = ")
			g.Expr(d)
			g.W("; ")
		}
	}
}

// Unit generates one top-level statement pair.
func (g *tsgen) Unit() tsUnit {
	g.p.Reset()
	g.t.Reset()
	g.kinds = map[string]bool{}
	g.noTSX = false
	r := g.rng
	d := 1 + r.Intn(3)
	switch r.Intn(30) {
	case 0, 1:
		g.W(r.Pick([]string{"let ", "var ", "const "}) + g.id("v"))
		g.MT("var-type", ": "+g.Type(d))
		g.W(" = ")
		g.Expr(d)
		g.W(";")
	case 2:
		g.W("let " + g.id("v"))
		g.T("definite", "!")
		g.T("var-type", ": "+g.Type(d))
		g.W(";")
	case 3, 4:
		g.W("function " + g.id("fn"))
		g.MT("type-params", g.typeParams())
		g.W("(")
		if r.Bool() {
			g.T("this-param", "this: "+g.Type(1))
			if r.Bool() {
				g.T("this-param", ", ")
				g.W("a")
				g.MT("param-type", ": "+g.Type(d))
			}
		} else {
			g.W("a")
			g.MT("optional-param", "?")
			g.MT("param-type", ": "+g.Type(d))
			g.W(", {b, c}")
			g.MT("param-type", ": {b: "+g.Type(1)+"; c: "+g.Type(1)+"}")
			g.W(" = o, ...r")
			g.MT("param-type", ": "+tsAtom(g.Type(1))+"[]")
		}
		g.W(")")
		switch r.Intn(4) {
		case 0:
			g.T("return-type", ": a is "+g.Type(1))
		case 1:
			g.T("return-type", ": asserts a is "+g.Type(1))
		case 2:
			g.T("return-type", ": asserts a")
		default:
			g.MT("return-type", ": "+g.Type(d))
		}
		g.W(" { return ")
		g.Expr(d)
		g.W("; }")
	case 5:
		name := g.id("ov")
		g.T("overload", "function "+name+"(a: string): void;\n")
		g.T("overload", "function "+name+"<T>(a: T[], b?: "+g.Type(1)+"): T;\n")
		g.W("function " + name + "(a")
		g.MT("param-type", ": any")
		g.W(") {}")
	case 6, 7, 8:
		g.MT("abstract-class", "abstract ")
		abstract := g.kinds["abstract-class"]
		g.W("class " + g.id("C"))
		g.MT("type-params", r.Pick([]string{"<T>", "<in T, out U>", "<in out T extends object = {}>", "<const T>"}))
		g.derived = r.Bool()
		if g.derived {
			g.W(" extends Base")
			g.MT("type-args", "<"+g.Type(1)+">")
		}
		g.MT("implements", " implements I")
		g.W(" { ")
		if abstract && r.Bool() {
			g.T("abstract-member", "abstract am(): "+g.Type(1)+"; ")
			g.T("abstract-member", "protected abstract ap: "+g.Type(1)+"; ")
			g.T("abstract-member", "abstract get ag(): "+g.Type(1)+"; ")
		}
		g.classMembers(d)
		g.W("}")
	case 9:
		g.T("interface", "interface "+g.id("I")+r.Pick([]string{"", "<T>", "<in T, out U = T[]>", "<T extends object>"})+" extends J, K<"+g.Type(1)+"> { a: "+g.Type(d)+"; m?(x: "+g.Type(1)+"): void; readonly [k: number]: "+g.Type(1)+"; new (x: any): any; <T>(y: T): T }")
	case 10:
		g.T("type-alias", "type "+g.id("A")+r.Pick([]string{"", "<T>", "<T extends any[] = []>"})+" = "+g.Type(d+1)+";")
	case 11:
		g.T("declare", "declare "+r.Pick([]string{"const", "let", "var"})+" "+g.id("dv")+": "+g.Type(d)+";")
	case 12:
		g.T("declare", "declare function "+g.id("df")+g.typeParams()+"(a: "+g.Type(1)+"): "+g.Type(d)+";")
	case 13:
		g.T("declare", "declare class "+g.id("DC")+"<T> extends Base<T> implements I { private x: number; static m(): void; constructor(a: T); }")
	case 14:
		g.T("declare", "declare "+r.Pick([]string{"namespace", "module"})+" "+g.id("DN")+" { export const a: number; function f(): void; namespace Inner { type T = "+g.Type(1)+"; } }")
	case 15:
		g.T("declare", "declare module \"mod"+fmt.Sprint(g.n)+"\" { export default function f(): void; export = f; }")
	case 16:
		g.T("declare", "declare global { interface Window { x: "+g.Type(1)+" } var g: number; }")
	case 17:
		g.T("declare", "declare enum "+g.id("DE")+" { A = 1, B, C = A | B }")
	case 18:
		g.T("declare", "declare const enum "+g.id("DE")+" { A, B }")
	case 19:
		g.W("try { void (")
		g.Expr(d)
		g.W("); } catch (e")
		g.MT("catch-type", r.Pick([]string{": unknown", ": any"}))
		g.W(") { e; }")
	case 20:
		g.W("for (const x")
		g.W(" of ")
		g.Expr(d)
		g.W(") { let y")
		g.MT("var-type", ": "+g.Type(1))
		g.W(" = x; }")
	case 21:
		g.W("for ((a")
		g.T("as", " as any")
		g.W(").k of [1]) {}")
	case 22:
		g.W("(a")
		g.T("as", " as "+g.Type(1))
		g.W(") = ")
		g.Expr(d)
		g.W(";")
	case 23:
		g.W("a")
		g.T("non-null", "!")
		g.W(" = ")
		g.Expr(d)
		g.W(";")
	case 24:
		g.W("if (")
		g.Expr(d)
		g.W(") { void (")
		g.Expr(d)
		g.W("); } else void (")
		g.Expr(d)
		g.W(");")
	case 25:
		g.T("type-alias", "type "+g.id("Fn")+" = "+g.Type(2)+"\n")
		g.W("let " + g.id("w") + " = ")
		g.Expr(d)
		g.W(";")
	case 26:
		g.T("abstract-class", "abstract ")
		g.W("class " + g.id("AC") + " { ")
		g.T("abstract-member", "abstract m<T>(a: T): "+g.Type(1)+"; ")
		g.T("accessibility", "private ")
		g.W("constructor() {} }")
	case 27:
		g.W("label: ")
		g.W("{ ")
		g.T("type-alias", "type L = "+g.Type(1)+"; ")
		g.T("interface", "interface LI {} ")
		g.W("void (")
		g.Expr(d)
		g.W("); break label; }")
	default:
		g.W("void (")
		g.Expr(d + 1)
		g.W(");")
	}
	g.derived = false
	plain, typed := g.p.String(), g.t.String()
	var kinds []string
	for k := range g.kinds {
		kinds = append(kinds, k)
	}
	sortStrings(kinds)
	return tsUnit{Plain: plain, Typed: typed, Kinds: kinds, NoTSX: g.noTSX}
}
