package main

import (
	"fmt"
	"strings"
	"sync/atomic"

	"github.com/evanw/esbuild/pkg/api"
)

func init() { registry["C01"] = checkC01; replayers["C01"] = replayC01 }

type c01Opts struct {
	Charset  api.Charset
	MinWS    bool
	Line     int
	Format   api.Format
	Platform api.Platform
}

func (o c01Opts) name() string {
	return fmt.Sprintf("print[charset=%d,minify-ws=%v,line-limit=%d,format=%s,platform=%d]", o.Charset, o.MinWS, o.Line, formatName(o.Format), o.Platform)
}

func c01Variant(o c01Opts) packVariant {
	kind := "script"
	if o.Format == api.FormatESModule {
		kind = "module"
	}
	tag := ""
	if o.Line > 0 {
		tag = "line-limit"
	}
	return packVariant{Name: o.name(), Kind: kind, SigTag: tag, Compile: func(src string) (string, []string) {
		res, pan := transformSafe(src, api.TransformOptions{Loader: api.LoaderJS, Charset: o.Charset, MinifyWhitespace: o.MinWS, LineLimit: o.Line, Format: o.Format, Platform: o.Platform})
		if pan != "" {
			return "", []string{"panic: " + pan}
		}
		return string(res.Code), msgTexts(res.Errors)
	}}
}

// c01Variants: the full cross product in thorough, a seeded covering subset in quick (every value of every
// option appears, in different combinations per seed).
func c01Variants(r *Run, rng *Rng) []packVariant {
	charsets := []api.Charset{api.CharsetASCII, api.CharsetUTF8}
	lines := []int{0, 1, 20, 80}
	formats := []api.Format{api.FormatDefault, api.FormatESModule, api.FormatCommonJS, api.FormatIIFE}
	var vs []packVariant
	if !r.quick() {
		for _, c := range charsets {
			for _, ws := range []bool{false, true} {
				for _, l := range lines {
					for _, f := range formats {
						vs = append(vs, c01Variant(c01Opts{c, ws, l, f, api.PlatformDefault}))
					}
				}
			}
		}
		vs = append(vs, c01Variant(c01Opts{api.CharsetASCII, true, 0, api.FormatCommonJS, api.PlatformNode}), c01Variant(c01Opts{api.CharsetUTF8, false, 0, api.FormatESModule, api.PlatformNeutral}))
		return vs
	}
	for i := 0; i < 6; i++ {
		vs = append(vs, c01Variant(c01Opts{charsets[(i+rng.Intn(2))%2], (i/2+rng.Intn(2))%2 == 0, lines[(i+rng.Intn(4))%4], formats[(i+rng.Intn(4))%4], api.Platform(rng.Intn(4))}))
	}
	vs = append(vs, c01Variant(c01Opts{api.CharsetASCII, true, 0, api.FormatDefault, api.PlatformDefault}), c01Variant(c01Opts{api.CharsetUTF8, false, 0, api.FormatDefault, api.PlatformDefault}))
	return vs
}

func strictRef(src string) string { return "\"use strict\";\n" + src }

func checkC01(r *Run) {
	r.Rule("tables: (parent construct × operand position × child construct) with the child parenthesised (exhaustive in thorough, 1/3 in quick), the operator/literal/statement tables shared with C03, " +
		"literal classes (float64 bit-pattern classes in several textual forms, all 65 536 UTF-16 code units in double/single-quoted strings and templates, surrogate pairings, escape forms, regexps), generated programs; " +
		"× charset × minify-whitespace × line-limit × format × platform; non-trivial = distinct case executed under ≥1 option set with events in the reference trace")
	r.Assume("reference = the input executed by V8 (strict mode, because esm output is strict); literal values compare as serialised values (-0, NaN, bigint, UTF-16 code units exact)")
	r.Assume("with charset=ascii the output may contain bytes > 0x7F only in packs that contain a non-ASCII regular expression literal")
	var st packStats
	rng := newRng(r.Seed, "c01")
	variants := c01Variants(r, rng)
	frac := r.pick(3, 1)
	phase := rng.Intn(frac)
	n := 0
	cases := exprtabPrint(func() bool { n++; return (n+phase)%frac == 0 })
	nParen := len(cases)
	frac2 := r.pick(12, 1)
	m := 0
	tab := exprtabMinify(func(int) bool { m++; return (m+phase)%frac2 == 0 })
	for i := range tab {
		tab[i].ID = "m" + tab[i].ID
	}
	cases = append(cases, tab...)
	lits := litgenCases(rng, r.quick())
	cases = append(cases, lits...)
	for _, c := range cases {
		r.Nontrivial(c.Body)
	}
	r.Eval(len(cases))
	r.Sample(map[string]string{"case": trunc(cases[nParen/2].Body, 400), "sig": cases[nParen/2].Sig})
	r.Sample(map[string]string{"case": trunc(lits[len(lits)/2].Body, 300), "sig": lits[len(lits)/2].Sig})
	// ASCII check wraps the variants
	var asciiChecked, asciiBad int64
	for i := range variants {
		v := variants[i]
		if !strings.Contains(v.Name, "charset=1,") {
			continue
		}
		inner := v.Compile
		variants[i].Compile = func(src string) (string, []string) {
			out, errs := inner(src)
			if len(errs) == 0 && !packHasNonASCIIRegexp(src) {
				atomic.AddInt64(&asciiChecked, 1)
				if j := firstNonASCII(out); j >= 0 {
					if atomic.AddInt64(&asciiBad, 1) <= 3 {
						lo := j - 60
						if lo < 0 {
							lo = 0
						}
						hi := j + 40
						if hi > len(out) {
							hi = len(out)
						}
						r.Violation("print:ascii-charset:non-ascii-byte", fmt.Sprintf("charset=ascii output contains a non-ASCII byte outside regexps/comments: …%q…", out[lo:hi]),
							map[string]interface{}{"variant": v.Name, "input": trunc(src, 20000), "output_excerpt": out[lo:hi]})
					}
				}
			}
			return out, errs
		}
	}
	runPacks(r, cases, 1200, variants, "print", strictRef, &st)
	// the construct table of C05 (optional chains incl. literal bases, class members, destructuring, async, …) must also
	// survive plain printing: esbuild rewrites some of these forms even without minification or lowering
	{
		feat := featgenCases()
		for i := range feat {
			feat[i].Sig = "feat:" + feat[i].Sig
			r.Nontrivial(feat[i].Body)
		}
		r.Eval(len(feat))
		fv := variants
		if len(fv) > 6 {
			fv = fv[:6]
		}
		runPacksWith(r, feat, 60, fv, "print", strictRef, &st, featSource)
		r.Count("featgen_cases", len(feat))
	}
	c01JSX(r)
	// sloppy-mode semantics with the format left alone
	{
		var sv []packVariant
		for _, c := range []api.Charset{api.CharsetASCII, api.CharsetUTF8} {
			for _, ws := range []bool{false, true} {
				for _, l := range []int{0, 20} {
					sv = append(sv, c01Variant(c01Opts{c, ws, l, api.FormatDefault, api.PlatformDefault}))
				}
			}
		}
		sc := sloppyCases()
		for _, c := range sc {
			r.Nontrivial(c.Body)
		}
		r.Eval(len(sc))
		runPacks(r, sc, 1000, sv, "print", nil, &st)
		r.Count("sloppy_cases", len(sc))
	}
	r.Count("paren_table_cases", nParen)
	r.Count("literal_cases", len(lits))
	r.Count("ascii_outputs_scanned", int(asciiChecked))

	// generated programs, one per compilation unit
	pool := r.Pool()
	nprog := r.pick(1200, 40000)
	var progEvents, progRuns int64
	allOpts := func(prng *Rng) c01Opts {
		return c01Opts{[]api.Charset{api.CharsetASCII, api.CharsetUTF8}[prng.Intn(2)], prng.Bool(), []int{0, 1, 20, 80}[prng.Intn(4)],
			[]api.Format{api.FormatDefault, api.FormatESModule, api.FormatCommonJS, api.FormatIIFE}[prng.Intn(4)], api.Platform(prng.Intn(4))}
	}
	parallel(nprog, pool.Size(), func(i int) {
		prng := newRng(r.Seed, fmt.Sprint("c01prog", i))
		g := newProgen(prng, progenOpts{Layout: i%2 == 0, Strict: true})
		src := g.Program(8 + prng.Intn(20))
		var outs []Prog
		var names []string
		for j := 0; j < r.pick(3, 8); j++ {
			o := allOpts(prng)
			v := c01Variant(o)
			out, errs := v.Compile(src)
			if len(errs) > 0 {
				r.Violation("print:progen-compile-error:"+normErr(errs[0]), "esbuild rejects a generated program under "+v.Name+": "+errs[0], map[string]interface{}{"input": src, "variant": v.Name, "errors": errs})
				continue
			}
			if v.Kind == "module" {
				outs = append(outs, progModule(out))
			} else {
				outs = append(outs, progScript(out))
			}
			names = append(names, v.Name)
		}
		if len(outs) == 0 {
			return
		}
		res, err := pool.ExecMulti(progScript(src), outs, true)
		if err != nil {
			r.Count("oracle_errors", 1)
			return
		}
		r.Eval(1)
		atomic.AddInt64(&progEvents, int64(res.RefEvents))
		if res.RefEvents > 0 {
			r.Nontrivial(src)
		}
		for vi, cmp := range res.Results {
			atomic.AddInt64(&progRuns, 1)
			if cmp.Equal || cmp.Inconclusive {
				continue
			}
			d := cmp.Diffs[0]
			r.Violation("print:progen:"+firstDiffSig(d), fmt.Sprintf("generated program behaves differently under %s (term ref=%s out=%s): segment %s ref=%v out=%v", names[vi], cmp.TermA, trunc(cmp.TermB, 120), d.Seg, trunc(fmt.Sprint(d.A), 200), trunc(fmt.Sprint(d.B), 200)),
				map[string]interface{}{"input": src, "variant": names[vi], "output": outs[vi].Files[outs[vi].Entry].Code, "diff": cmp.Diffs})
		}
	})
	r.Count("packs", int(st.packs))
	r.Count("pack_case_executions", int(st.caseRuns))
	r.Count("probe_events_ref", int(st.events+progEvents))
	r.Count("progen_programs", nprog)
	r.Count("progen_variant_runs", int(progRuns))
	r.Count("oracle_errors", int(st.oracleErrors))
	r.Extra("option_sets", func() []string {
		var s []string
		for _, v := range variants {
			s = append(s, v.Name)
		}
		return s
	}())
	if st.caseRuns < int64(len(cases)) {
		r.Inconclusive("the printing workload did not run")
	}
}

func firstNonASCII(s string) int {
	for i := 0; i < len(s); i++ {
		if s[i] >= 0x80 {
			return i
		}
	}
	return -1
}

// packHasNonASCIIRegexp: crude — a regexp case with a non-ASCII byte in the pack source
func packHasNonASCIIRegexp(src string) bool {
	for _, line := range strings.Split(src, "\n") {
		if strings.Contains(line, "var r = /") && firstNonASCII(line) >= 0 {
			return true
		}
		if strings.Contains(line, ".source") && firstNonASCII(line) >= 0 {
			return true
		}
	}
	return false
}

func replayC01(r *Run, path string) {
	var doc struct {
		Case struct {
			Input string   `json:"input"`
			Case  packCase `json:"case"`
		} `json:"case"`
	}
	if err := readJSON(path, &doc); err != nil {
		r.Inconclusive(err.Error())
		return
	}
	src := doc.Case.Input
	if src == "" {
		src = packSource([]packCase{doc.Case.Case})
	}
	pool := r.Pool()
	rng := newRng(1, "replay")
	r.Tier = "thorough"
	for _, v := range c01Variants(r, rng) {
		out, errs := v.Compile(src)
		if len(errs) > 0 {
			continue
		}
		o := progScript(out)
		if v.Kind == "module" {
			o = progModule(out)
		}
		r.Eval(1)
		pr, err := pool.ExecPair(progScript(strictRef(src)), o, true, false)
		if err == nil && !pr.Equal {
			r.Violation("print:replay:"+v.Name, fmt.Sprintf("%s: %v", v.Name, pr.Diffs), map[string]interface{}{"input": src, "output": out})
		}
	}
}
