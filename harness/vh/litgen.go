package main

import (
	"fmt"
	"math"
	"strconv"
	"strings"
)

// litgen: literal classes whose value must survive printing exactly.

// numberForms returns textual forms of float64 values from every exponent/mantissa class.
func numberForms(rng *Rng, n int) []string {
	var out []string
	add := func(s string) { out = append(out, s) }
	// fixed boundary forms
	for _, s := range []string{"0", "0.0", "0e0", ".0", "0.", "-0", "1", "1.0", "1.", "1e0", "10", "100", "1000", "1e3", "1E3", "1e+3", "1e-3", "0.001", ".001", "1e21", "1e20", "999999999999999900000", "1000000000000000000000",
		"123456789012345680000", "1.2345678901234568e+21", "1e-7", "1e-6", "0.000001", "0.0000001", "1.5e-7", "5e-324", "4.9e-324", "2.2250738585072014e-308", "2.225073858507201e-308", "1.7976931348623157e308", "1.7976931348623157e+308",
		"9007199254740991", "9007199254740992", "9007199254740993", "9007199254740994", "18014398509481984", "4294967295", "4294967296", "2147483647", "2147483648", "-2147483648", "0.1", "0.2", "0.30000000000000004", "0.5", ".5", "5.", "5.e1", "5.0e-1",
		"0x0", "0xff", "0XFF", "0xFFFFFFFF", "0x1fffffffffffff", "0x20000000000001", "0xffffffffffffffffff", "0b0", "0b11", "0B1010", "0o0", "0o17", "0O777", "0b" + strings.Repeat("1", 64), "0o" + strings.Repeat("7", 22),
		"1_000", "1_0.0_1", "1e1_0", "0x_f", "0xf_f", "0b1_0", "1_000_000.000_001", "123e-20", "123456789e-30", "0.000000000000000000001", "1" + strings.Repeat("0", 25), "1" + strings.Repeat("0", 308), "1" + strings.Repeat("0", 309),
		"0." + strings.Repeat("0", 323) + "1", "0." + strings.Repeat("0", 322) + "3", "0." + strings.Repeat("0", 330) + "1", "1.0000000000000002", "1.0000000000000001", "0.9999999999999999", "0.99999999999999999", "4.35", "1.005", "8.41", "1e23", "9.5e22",
		"1e22", "5e-7", "123456.789e3", "1.7976931348623158e308", "1.7976931348623159e308", "179769313486231580793728971405303415079934132710037826936173778980444968292764750946649017977587207096330286416692887910946555547851940402630657488671505820681908902000708383676273854845817711531764475730270069855571366959622842914819860834936475292719074168444365510704342711559699508093042880177904174497791.9999999999999999",
		"4.940656458412465e-324", "2.4703282292062328e-324", "2.4703282292062327e-324", "7.4109846876186982e-324"} {
		if !strings.HasPrefix(s, "0x_") { // (0x_f is invalid; keep the table honest)
			add(s)
		}
	}
	// random bit patterns per exponent class
	for i := 0; i < n; i++ {
		var bits uint64
		switch rng.Intn(6) {
		case 0: // any
			bits = rng.U64()
		case 1: // denormal
			bits = rng.U64() & 0x000fffffffffffff
		case 2: // integers near 2^53
			v := float64(uint64(1)<<53) + float64(int64(rng.Intn(2000))-1000)*float64(int64(1)<<uint(rng.Intn(4)))
			bits = math.Float64bits(v)
		case 3: // small exponent range (human-sized numbers)
			bits = (uint64(1023-40+rng.Intn(120)) << 52) | (rng.U64() & 0x000fffffffffffff)
		case 4: // few mantissa bits
			bits = (uint64(rng.Intn(2047)) << 52) | (uint64(rng.Intn(1<<12)) << 40)
		default: // decimal round-trip boundaries: k * 10^e
			v := float64(rng.Intn(100000)) * math.Pow(10, float64(rng.Intn(60)-30))
			bits = math.Float64bits(v)
		}
		v := math.Float64frombits(bits &^ (1 << 63))
		if math.IsNaN(v) || math.IsInf(v, 0) {
			continue
		}
		switch rng.Intn(4) {
		case 0:
			add(strconv.FormatFloat(v, 'g', -1, 64))
		case 1:
			add(strconv.FormatFloat(v, 'e', -1, 64))
		case 2:
			if v < 1e22 && v > 1e-10 {
				add(strconv.FormatFloat(v, 'f', -1, 64))
			} else {
				add(strconv.FormatFloat(v, 'g', 17, 64))
			}
		default:
			add(strconv.FormatFloat(v, 'g', 20, 64)) // more digits than needed
		}
	}
	return out
}

func jsEsc(cu int) string { return fmt.Sprintf("\\u%04x", cu) }

// stringCases: every listed UTF-16 code unit (and surrogate pairings) in every quoting context.
func litgenCases(rng *Rng, quick bool) []packCase {
	var cases []packCase
	n := 0
	add := func(sig, body string) {
		n++
		cases = append(cases, packCase{ID: fmt.Sprint("l", n), Body: body, Sig: sig})
	}
	// numbers, 40 per case
	nums := numberForms(rng, map[bool]int{true: 6000, false: 200000}[quick])
	for i := 0; i < len(nums); i += 40 {
		j := i + 40
		if j > len(nums) {
			j = len(nums)
		}
		add("numbers", "() => ["+strings.Join(nums[i:j], ", ")+"]")
		add("numbers-member", "() => ["+strings.Join(mapStr(nums[i:j], func(s string) string { return "(" + s + ").constructor === Number && (" + s + ").valueOf()" }), ", ")+"]")
		add("numbers-neg", "() => ["+strings.Join(mapStr(nums[i:j], func(s string) string { return "-" + strings.TrimPrefix(s, "-") }), ", ")+"]")
		add("numbers-ops", "() => ["+strings.Join(mapStr(nums[i:j], func(s string) string {
			return "1 - -" + strings.TrimPrefix(s, "-") + " + +" + strings.TrimPrefix(s, "-")
		}), ", ")+"]")
	}
	for _, b := range []string{"0n", "1n", "123456789012345678901234567890n", "0x1fn", "0XFFn", "0b101n", "0o777n", "1_000n", "0xffff_ffff_ffff_ffff_ffffn", "9007199254740993n"} {
		add("bigint", "() => ["+b+", -"+b+", "+b+" + 1n, typeof "+b+", ("+b+").toString()]")
	}
	// code units: all 65536 in quick for 2 contexts (batched 256 per case), all contexts in thorough
	step := 1
	for base := 0; base < 0x10000; base += 256 {
		var dq, sq, tpl, raw []string
		for cu := base; cu < base+256; cu += step {
			e := jsEsc(cu)
			dq = append(dq, "\""+e+"\"")
			sq = append(sq, "'"+e+"a'")
			tpl = append(tpl, "`"+e+"${1}"+e+"`")
			// the raw character itself where it may appear unescaped in source
			if cu >= 0x20 && cu != '"' && cu != '\\' && (cu < 0xd800 || cu > 0xdfff) && cu != 0x2028 && cu != 0x2029 {
				raw = append(raw, "\""+string(rune(cu))+"\"")
			}
		}
		add("string-dq", "() => ["+strings.Join(dq, ", ")+"]")
		add("string-sq", "() => ["+strings.Join(sq, ", ")+"]")
		if !quick || base%1024 == 0 {
			add("template", "() => ["+strings.Join(tpl, ", ")+"]")
		}
		if len(raw) > 0 {
			add("string-raw-char", "() => ["+strings.Join(raw, ", ")+"]")
		}
	}
	// surrogate pairings and special neighbours
	his := []int{0xd800, 0xd83d, 0xdbff}
	los := []int{0xdc00, 0xde00, 0xdfff}
	others := []int{0x41, 0x0, 0x38, 0x5c, 0x22, 0x27, 0x60, 0x24, 0x7b, 0x2028, 0xa, 0xfeff, 0xe9}
	var pairs []string
	for _, a := range append(append(append([]int{}, his...), los...), others...) {
		for _, b := range append(append(append([]int{}, his...), los...), others...) {
			pairs = append(pairs, "\""+jsEsc(a)+jsEsc(b)+"\"", "`"+jsEsc(a)+jsEsc(b)+"`", "'"+jsEsc(a)+jsEsc(b)+"8'")
		}
	}
	for i := 0; i < len(pairs); i += 100 {
		j := i + 100
		if j > len(pairs) {
			j = len(pairs)
		}
		add("string-pairs", "() => ["+strings.Join(pairs[i:j], ", ")+"]")
	}
	// astral characters written literally and as escapes, in strings, templates, identifiers, property names
	for _, cp := range []string{"😀", "𐀀", "𝒳", "é", "ß", "ﬁ", "‍", "ಠ", "ℯ"} {
		add("astral-literal:"+cp, "() => [\""+cp+"\", '"+cp+"', `"+cp+"${\""+cp+"\"}`, \""+cp+"\".length]")
		if cp != "‍" && cp != "😀" {
			add("unicode-ident:"+cp, "() => { var "+cp+"x = 1, o = {"+cp+"x: 2, \""+cp+" y\": 3}; return ["+cp+"x, o."+cp+"x, o[\""+cp+" y\"], Object.keys(o)]; }")
			add("unicode-class:"+cp, "() => { class K { "+cp+"m() { return 1; } static "+cp+"s = 2; #"+cp+"p = 3; g() { return this.#"+cp+"p; } } return [new K()."+cp+"m(), K."+cp+"s, new K().g(), Object.getOwnPropertyNames(K.prototype)]; }")
		}
	}
	// escapes forms in strings and templates
	esc := []string{`\0`, `\x00`, `\x41`, `A`, `\u{41}`, `\u{000041}`, `\u{1F600}`, `\u{10FFFF}`, `\n`, `\r`, `\t`, `\b`, `\f`, `\v`, `\\`, `\'`, `\"`, "\\`", `\$`, `\a`, `\z`, `\-`, `\ `, "\\\n", "\\\r\n", "\\ ", `\x7f`, `\x80`, `\xff`, ` `, ` `, "\ufeff", `😀`, `\ud83d`, `\ude00`}
	for _, e := range esc {
		for _, next := range []string{"", "0", "8", "a", "\\\\"} {
			if e == `\0` && (next == "0" || next == "8") {
				continue // a legacy octal escape: not valid in strict code or templates
			}
			add("escape:"+e, "() => [\""+e+next+"\", '"+e+next+"', `"+e+next+"`, `${0}"+e+next+"${1}`]")
			add("escape-raw:"+e, "() => String.raw`"+e+next+"${0}"+e+"`")
			add("escape-tag:"+e, "() => ((s, ...v) => [s.length, s[0], s.raw[0], s.raw[1], v])`"+e+next+"${0}"+e+"`")
		}
	}
	// invalid escapes are legal in tagged templates (cooked value undefined)
	for _, e := range []string{`\u`, `\u{`, `\u{110000}`, `\xg`, `\x1`, `\1`, `\08`, `\u00g0`} {
		add("tagged-invalid-escape:"+e, "() => ((s) => [s[0], s.raw[0]])`"+e+"`")
	}
	// script-closing and HTML-comment sequences
	for _, s := range []string{"</script>", "</SCRIPT", "<!--", "-->", "]]>", "<\\/script>", "</scr" + "ipt >"} {
		add("html-sensitive:"+s, "() => [\""+s+"\", '"+s+"', `"+s+"`, `${1}"+s+"`, /"+strings.ReplaceAll(strings.ReplaceAll(s, "\\", ""), "/", "\\/")+"/.source, String.raw`"+s+"`]")
		add("html-sensitive-ops:"+s, "() => { var a = 1, script = 2, scr = 3; return [a</script>/.exec, a < !--scr, scr-- > a, a<! --script]; }")
	}
	// regular expressions: source and flags must survive
	res := []string{`/a/`, `/\//`, `/[/]/`, `/[\]/]/`, `/\u{1F600}/u`, `/\p{L}/u`, `/[\p{L}--[a-z]]/v`, `/(?<n>a)\k<n>/`, `/a/dgimsuy`, `/\0/`, `/\cA/`, `/\x41A/`, `/é/`, `/😀/u`, `/😀/`, `/😀/u`, `/[😀]/u`, `/ /`, `/(?:)/`, `/^$/m`, `/a|b|/`, `/(?=a)(?!b)(?<=c)(?<!d)/`, `/a{1,2}?b*?c+?/`, `/{/`, `/]/`, `/<\/script>/`, `/</`, `/[</]/`, `/\$\{/`, "/`/", `/=/`, `/=a/`, `/ a/`, `/\//g`, `/[^\n]/`, `/\n/`, `/\
/`}
	for _, re := range res {
		if strings.Contains(re, "\n") {
			continue
		}
		add("regexp:"+re, "() => { var r = "+re+"; return [r.source, r.flags, String(r)]; }")
		add("regexp-div:"+re, "() => { var a = 4, g = 2, i = 1; return [a / "+re+".lastIndex, "+re+" / 2, a\n/ g / i, typeof "+re+", [1] / 1 / "+re+".lastIndex]; }")
	}
	return cases
}

func mapStr(xs []string, f func(string) string) []string {
	out := make([]string, len(xs))
	for i, x := range xs {
		out[i] = f(x)
	}
	return out
}
