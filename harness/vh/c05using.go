package main

// C05, using / await using: V8 in Node 20 cannot run these declarations, so every case is written twice — with the
// declaration, and as the explicit resource management proposal's desugaring spelled out with a small reference
// library (U$add / U$dispose / U$disposeAsync, this file's own reading of the specification: resources are
// disposed in reverse order after the block completes normally or abruptly; null/undefined are skipped; a missing
// or non-callable dispose method is a TypeError at the declaration; errors thrown while disposing suppress the
// earlier error as `suppressed` of an error named SuppressedError whose `error` is the new one; `await using`
// prefers Symbol.asyncDispose, falls back to Symbol.dispose, and awaits each disposal).

import (
	"fmt"
	"strings"
	"sync/atomic"

	"github.com/evanw/esbuild/pkg/api"
)

const usingPrelude = `if (!Symbol.dispose) Object.defineProperty(Symbol, "dispose", {value: Symbol.for("Symbol.dispose")});
if (!Symbol.asyncDispose) Object.defineProperty(Symbol, "asyncDispose", {value: Symbol.for("Symbol.asyncDispose")});
function U$add(stack, v, isAsync) {
  if (v === null || v === void 0) { if (isAsync) stack.push({noop: true, isAsync: true}); return v; }
  if (typeof v !== "object" && typeof v !== "function") throw new TypeError("Object expected");
  var m;
  if (isAsync) m = v[Symbol.asyncDispose];
  if (m === void 0) m = v[Symbol.dispose];
  if (typeof m !== "function") throw new TypeError("Object not disposable");
  stack.push({v: v, m: m, isAsync: isAsync});
  return v;
}
function U$suppressed(e, s) { var x = new Error("An error was suppressed during disposal"); x.name = "SuppressedError"; x.error = e; x.suppressed = s; return x; }
function U$dispose(stack, hasErr, err) {
  for (var i = stack.length - 1; i >= 0; i--) {
    try { stack[i].m.call(stack[i].v); } catch (e) { err = hasErr ? U$suppressed(e, err) : e; hasErr = true; }
  }
  if (hasErr) throw err;
}
async function U$disposeAsync(stack, hasErr, err) {
  for (var i = stack.length - 1; i >= 0; i--) {
    try { if (stack[i].noop) { await void 0; } else { var r = stack[i].m.call(stack[i].v); if (stack[i].isAsync) await r; } } catch (e) { err = hasErr ? U$suppressed(e, err) : e; hasErr = true; }
  }
  if (hasErr) throw err;
}
function res(k, failWith) { var o = {k: k}; o[Symbol.dispose] = function () { $(k, "dispose", this === o); if (failWith !== void 0) throw failWith; }; return o; }
function ares(k, failWith) { var o = {k: k}; o[Symbol.asyncDispose] = function () { $(k, "asyncDispose", this === o); return Promise.resolve().then(function () { $(k, "asyncDispose-settled"); if (failWith !== void 0) throw failWith; }); }; return o; }
function desc(e) { return e && e.name === "SuppressedError" ? ["Suppressed", desc(e.error), desc(e.suppressed)] : (e instanceof Error ? e.name + ":" + e.message : e); }
`

type usingCase struct {
	sig   string
	src   string // with using declarations
	ref   string // desugared
	async bool
}

func usingCases() []usingCase {
	var out []usingCase
	k := 0
	id := func() string { k++; return fmt.Sprint(9000 + k) }
	add := func(sig, src, ref string, async bool) { out = append(out, usingCase{sig, src, ref, async}) }
	wrapSync := func(decls []string, refDecls []string, body string) (string, string) {
		src := "{ " + strings.Join(decls, " ") + " " + body + " }"
		ref := "{ var st$ = [], he$ = false, er$; try { " + strings.Join(refDecls, " ") + " " + body + " } catch (e$) { er$ = e$; he$ = true; } finally { U$dispose(st$, he$, er$); } }"
		return src, ref
	}
	// 1. order: two resources, body, reverse disposal
	a, b, c := id(), id(), id()
	s, r := wrapSync([]string{"using x = res(" + a + ");", "using y = res(" + b + ");"}, []string{"const x = U$add(st$, res(" + a + "));", "const y = U$add(st$, res(" + b + "));"}, "$("+c+", x.k, y.k);")
	add("using:order", "() => { "+s+" return \"done\"; }", "() => { "+r+" return \"done\"; }", false)
	// 2. null and undefined are skipped
	a, c = id(), id()
	s, r = wrapSync([]string{"using n = null, u = void 0, x = res(" + a + ");"}, []string{"const n = U$add(st$, null), u = U$add(st$, void 0), x = U$add(st$, res(" + a + "));"}, "$("+c+", n, u, x.k);")
	add("using:null-undefined", "() => { "+s+" }", "() => { "+r+" }", false)
	// 3. body throws: disposal still happens, the error propagates
	a, c = id(), id()
	s, r = wrapSync([]string{"using x = res(" + a + ");"}, []string{"const x = U$add(st$, res(" + a + "));"}, "$("+c+", \"body\"); throw new RangeError(\"body failed\");")
	add("using:body-throws", "() => { try { "+s+" } catch (e) { return desc(e); } }", "() => { try { "+r+" } catch (e) { return desc(e); } }", false)
	// 4. dispose throws after a body error: SuppressedError(error = dispose error, suppressed = body error)
	a, b = id(), id()
	s, r = wrapSync([]string{"using x = res(" + a + ", new TypeError(\"d1\"));", "using y = res(" + b + ", new SyntaxError(\"d2\"));"}, []string{"const x = U$add(st$, res(" + a + ", new TypeError(\"d1\")));", "const y = U$add(st$, res(" + b + ", new SyntaxError(\"d2\")));"}, "throw new RangeError(\"body\");")
	add("using:suppressed-chain", "() => { try { "+s+" } catch (e) { return desc(e); } }", "() => { try { "+r+" } catch (e) { return desc(e); } }", false)
	// 5. dispose throws, body completes normally
	a = id()
	s, r = wrapSync([]string{"using x = res(" + a + ", \"plain value\");"}, []string{"const x = U$add(st$, res(" + a + ", \"plain value\"));"}, "$("+id()+", \"ok\");")
	add("using:dispose-throws", "() => { try { "+s+" } catch (e) { return desc(e); } }", "() => { try { "+r+" } catch (e) { return desc(e); } }", false)
	// 6. not disposable: TypeError at the declaration, earlier resources are disposed
	a = id()
	s, r = wrapSync([]string{"using x = res(" + a + ");", "using y = {};"}, []string{"const x = U$add(st$, res(" + a + "));", "const y = U$add(st$, {});"}, "$("+id()+", \"unreachable\");")
	add("using:not-disposable", "() => { try { "+s+" } catch (e) { return desc(e).split(\":\")[0]; } }", "() => { try { "+r+" } catch (e) { return desc(e).split(\":\")[0]; } }", false)
	// 7. primitive: TypeError
	s, r = wrapSync([]string{"using y = 1;"}, []string{"const y = U$add(st$, 1);"}, "$("+id()+", \"unreachable\");")
	add("using:primitive", "() => { try { "+s+" } catch (e) { return desc(e).split(\":\")[0]; } }", "() => { try { "+r+" } catch (e) { return desc(e).split(\":\")[0]; } }", false)
	// 8. return from inside the block: value computed before disposal
	a = id()
	add("using:return-value", "() => { function f() { using x = res("+a+"); return $("+id()+", \"ret\"); } return f(); }",
		"() => { function f() { var st$ = [], he$ = false, er$; try { const x = U$add(st$, res("+a+")); return $("+fmt.Sprint(9000+k)+", \"ret\"); } catch (e$) { er$ = e$; he$ = true; } finally { U$dispose(st$, he$, er$); } } return f(); }", false)
	// 9. loop body: one disposal per iteration; break and continue dispose
	a = id()
	c = id()
	add("using:for-body", "() => { for (var i = 0; i < 3; i++) { using x = res("+a+" + i); if (i === 0) continue; $("+c+", i); if (i === 1) break; } return i; }",
		"() => { for (var i = 0; i < 3; i++) { var st$ = [], he$ = false, er$; try { const x = U$add(st$, res("+a+" + i)); if (i === 0) continue; $("+c+", i); if (i === 1) break; } catch (e$) { er$ = e$; he$ = true; } finally { U$dispose(st$, he$, er$); } } return i; }", false)
	// 10. for-of head: `for (using x of xs)` disposes at the end of each iteration
	a = id()
	c = id()
	add("using:for-of-head", "() => { for (using x of [res("+a+"), null, res("+a+" + 1)]) { $("+c+", x && x.k); } return \"end\"; }",
		"() => { for (const x$ of [res("+a+"), null, res("+a+" + 1)]) { var st$ = [], he$ = false, er$; try { const x = U$add(st$, x$); $("+c+", x && x.k); } catch (e$) { er$ = e$; he$ = true; } finally { U$dispose(st$, he$, er$); } } return \"end\"; }", false)
	// 11. the dispose method is read at the declaration, not at disposal
	a = id()
	add("using:method-read-once", "() => { var o = res("+a+"); { using x = o; o[Symbol.dispose] = function () { $("+a+", \"replaced\"); }; } return \"end\"; }",
		"() => { var o = res("+a+"); { var st$ = [], he$ = false, er$; try { const x = U$add(st$, o); o[Symbol.dispose] = function () { $("+a+", \"replaced\"); }; } catch (e$) { er$ = e$; he$ = true; } finally { U$dispose(st$, he$, er$); } } return \"end\"; }", false)
	// 12. nested blocks and closures capturing the binding
	a, b = id(), id()
	add("using:nested", "() => { var fs = []; { using x = res("+a+"); { using y = res("+b+"); fs.push(() => [x.k, y.k]); } $("+id()+", \"between\"); } return fs[0](); }",
		"() => { var fs = []; { var s1 = [], h1 = false, e1; try { const x = U$add(s1, res("+a+")); { var s2 = [], h2 = false, e2; try { const y = U$add(s2, res("+b+")); fs.push(() => [x.k, y.k]); } catch (q) { e2 = q; h2 = true; } finally { U$dispose(s2, h2, e2); } } $("+fmt.Sprint(9000+k)+", \"between\"); } catch (q) { e1 = q; h1 = true; } finally { U$dispose(s1, h1, e1); } } return fs[0](); }", false)
	// 13. switch case and class static block
	a = id()
	add("using:static-block", "() => { class C { static v; static { using x = res("+a+"); C.v = x.k; } } return C.v; }",
		"() => { class C { static v; static { var st$ = [], he$ = false, er$; try { const x = U$add(st$, res("+a+")); C.v = x.k; } catch (e$) { er$ = e$; he$ = true; } finally { U$dispose(st$, he$, er$); } } } return C.v; }", false)
	// ---- await using
	a, b = id(), id()
	c = id()
	add("await-using:order", "async () => { { await using x = ares("+a+"); await using y = res("+b+"); $("+c+", \"body\"); } return \"after\"; }",
		"async () => { { var st$ = [], he$ = false, er$; try { const x = U$add(st$, ares("+a+"), true); const y = U$add(st$, res("+b+"), true); $("+c+", \"body\"); } catch (e$) { er$ = e$; he$ = true; } finally { await U$disposeAsync(st$, he$, er$); } } return \"after\"; }", true)
	a = id()
	add("await-using:rejects", "async () => { try { await using x = ares("+a+", new RangeError(\"async dispose\")); throw new TypeError(\"body\"); } catch (e) { return desc(e); } }",
		"async () => { try { var st$ = [], he$ = false, er$; try { const x = U$add(st$, ares("+a+", new RangeError(\"async dispose\")), true); throw new TypeError(\"body\"); } catch (e$) { er$ = e$; he$ = true; } finally { await U$disposeAsync(st$, he$, er$); } } catch (e) { return desc(e); } }", true)
	a = id()
	add("await-using:null", "async () => { { await using x = null; $("+a+", \"body\"); } return \"after\"; }",
		"async () => { { var st$ = [], he$ = false, er$; try { const x = U$add(st$, null, true); $("+a+", \"body\"); } catch (e$) { er$ = e$; he$ = true; } finally { await U$disposeAsync(st$, he$, er$); } } return \"after\"; }", true)
	a = id()
	c = id()
	add("await-using:for-await", "async () => { for await (await using x of [ares("+a+"), res("+a+" + 1)]) { $("+c+", x.k); } return \"end\"; }",
		"async () => { for await (const x$ of [ares("+a+"), res("+a+" + 1)]) { var st$ = [], he$ = false, er$; try { const x = U$add(st$, x$, true); $("+c+", x.k); } catch (e$) { er$ = e$; he$ = true; } finally { await U$disposeAsync(st$, he$, er$); } } return \"end\"; }", true)
	a, b = id(), id()
	add("await-using:mixed", "async () => { { using s = res("+a+"); await using t = ares("+b+"); $("+id()+", s.k, t.k); } return \"after\"; }",
		"async () => { { var st$ = [], he$ = false, er$; try { const s = U$add(st$, res("+a+"), false); const t = U$add(st$, ares("+b+"), true); $("+fmt.Sprint(9000+k)+", s.k, t.k); } catch (e$) { er$ = e$; he$ = true; } finally { await U$disposeAsync(st$, he$, er$); } } return \"after\"; }", true)
	return out
}

func usingSource(cases []usingCase, ref bool) string {
	var b strings.Builder
	b.WriteString(packPrelude)
	b.WriteString(featPrelude)
	for i, c := range cases {
		body := c.src
		if ref {
			body = c.ref
		}
		if c.async {
			b.WriteString(fmt.Sprintf("TA(%q, %s);\n", fmt.Sprint("u", i), body))
		} else {
			b.WriteString(fmt.Sprintf("T(%q, %s);\n", fmt.Sprint("u", i), body))
		}
	}
	b.WriteString(featPostlude)
	return b.String()
}

func c05Using(r *Run) {
	pool := r.Pool()
	cases := usingCases()
	var runs, events int64
	// one case per compilation unit, so that a single unsupported shape does not hide the others
	for ci, c := range cases {
		one := []usingCase{c}
		P, R := usingSource(one, false), usingSource(one, true)
		ref := progScript(R)
		ref.Prelude = usingPrelude
		var outs []Prog
		var names, codes []string
		for _, t := range c05Targets {
			if t.name == "esnext" {
				continue // kept as written; Node 20 cannot run it
			}
			if r.quick() && !(t.name == "es2015" || t.name == "es2017" || t.name == "es2022" || t.name == "es2024") {
				continue
			}
			for _, minify := range []bool{false, true} {
				res, pan := transformSafe(P, api.TransformOptions{Loader: api.LoaderJS, Target: t.t, MinifySyntax: minify})
				r.Eval(1)
				if pan != "" {
					r.Violation("lower:using:panic", "esbuild panicked: "+pan, map[string]interface{}{"input": P})
					continue
				}
				if len(res.Errors) > 0 {
					r.Count("using_variants_with_errors", 1)
					continue
				}
				p := progScript(string(res.Code))
				p.Prelude = usingPrelude
				outs = append(outs, p)
				names = append(names, fmt.Sprintf("target=%s,minify-syntax=%v", t.name, minify))
				codes = append(codes, string(res.Code))
			}
		}
		if len(outs) == 0 {
			continue
		}
		mr, err := pool.ExecMulti(ref, outs, true)
		if err != nil {
			r.Count("oracle_errors", 1)
			continue
		}
		atomic.AddInt64(&events, int64(mr.RefEvents))
		if mr.RefEvents > 0 {
			r.Nontrivial("using:" + c.sig)
		}
		for k, pr := range mr.Results {
			atomic.AddInt64(&runs, 1)
			if pr.Equal || pr.Inconclusive {
				continue
			}
			what := "termination differs: reference " + pr.TermA + ", output " + pr.TermB
			if len(pr.Diffs) > 0 {
				d := pr.Diffs[0]
				what = fmt.Sprintf("reference (spelled-out desugaring) %s, output %s", trunc(strings.Join(d.A, " "), 300), trunc(strings.Join(d.B, " "), 300))
			}
			r.Violation("lower:using:"+c.sig, fmt.Sprintf("lowered %s behaves differently from the specified disposal semantics under %s: %s", c.sig, names[k], what),
				map[string]interface{}{"case": c.src, "reference": c.ref, "output": codes[k], "variant": names[k], "diffs": pr.Diffs})
		}
		if ci == 0 {
			r.Sample(map[string]string{"kind": "using", "case": c.src, "reference": c.ref})
		}
	}
	r.Count("using_cases", len(cases))
	r.Count("using_variant_runs", int(runs))
	r.Count("using_probe_events_ref", int(events))
	if runs < int64(len(cases)*2) {
		r.Inconclusive(fmt.Sprintf("only %d using variant runs", runs))
	}
}
