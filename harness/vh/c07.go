package main

import (
	"encoding/base64"
	"fmt"
	"path/filepath"
	"strings"
	"sync/atomic"

	"github.com/evanw/esbuild/pkg/api"
)

func init() { registry["C07"] = checkC07 }

type smapViolation struct {
	Rule   string `json:"rule"`
	Detail string `json:"detail"`
}
type smapResult struct {
	OK         bool            `json:"ok"`
	Err        string          `json:"err"`
	Violations []smapViolation `json:"violations"`
	Stats      map[string]int  `json:"stats"`
}

type c07Stats struct {
	builds, maps, segments, mapped, markerMappings, named, outMarkers, outMarkersMapped, tokenStartHits, composed, inlineMaps, linkedMaps, rejected, transforms int64
}

func (st *c07Stats) add(s map[string]int) {
	atomic.AddInt64(&st.maps, 1)
	atomic.AddInt64(&st.segments, int64(s["segments"]))
	atomic.AddInt64(&st.mapped, int64(s["mapped"]))
	atomic.AddInt64(&st.markerMappings, int64(s["markerMappings"]))
	atomic.AddInt64(&st.named, int64(s["named"]))
	atomic.AddInt64(&st.outMarkers, int64(s["outMarkers"]))
	atomic.AddInt64(&st.outMarkersMapped, int64(s["outMarkersMapped"]))
	atomic.AddInt64(&st.tokenStartHits, int64(s["tokenStartHits"]))
}

type c07Variant struct {
	name      string
	format    api.Format
	splitting bool
	minifyWS  bool
	minifySyn bool
	minifyIDs bool
	mode      api.SourceMap
	noContent bool
	root      string
	banner    string
	footer    string
	charset   api.Charset
	lineLimit int
}

func c07Variants() []c07Variant {
	return []c07Variant{
		{name: "esm,linked", format: api.FormatESModule, mode: api.SourceMapLinked},
		{name: "esm,minify-ids,external", format: api.FormatESModule, minifyIDs: true, mode: api.SourceMapExternal},
		{name: "esm,minify,inline", format: api.FormatESModule, minifyWS: true, minifySyn: true, minifyIDs: true, mode: api.SourceMapInline},
		{name: "iife,minify-ws,both,utf8", format: api.FormatIIFE, minifyWS: true, mode: api.SourceMapInlineAndExternal, charset: api.CharsetUTF8},
		{name: "cjs,minify-syntax+ids,linked,no-content,root", format: api.FormatCommonJS, minifySyn: true, minifyIDs: true, mode: api.SourceMapLinked, noContent: true, root: "https://example.com/src"},
		{name: "esm,splitting,linked", format: api.FormatESModule, splitting: true, mode: api.SourceMapLinked},
		{name: "esm,splitting,minify-ids,linked,banner", format: api.FormatESModule, splitting: true, minifyIDs: true, mode: api.SourceMapLinked, banner: "/* banner \U0001F600 */\n// second line", footer: "// footer"},
		{name: "esm,splitting,minify-ws,utf8,external", format: api.FormatESModule, splitting: true, minifyWS: true, mode: api.SourceMapExternal, charset: api.CharsetUTF8},
		{name: "esm,linked,banner,line-limit", format: api.FormatESModule, mode: api.SourceMapLinked, banner: "\"use strict\";\n/* b */", lineLimit: 60},
	}
}

func c07ExtractInline(code string) (string, bool) {
	const tag = "//# sourceMappingURL=data:application/json;base64,"
	i := strings.LastIndex(code, tag)
	if i < 0 {
		return "", false
	}
	rest := code[i+len(tag):]
	if j := strings.IndexAny(rest, "\r\n"); j >= 0 {
		rest = rest[:j]
	}
	b, err := base64.StdEncoding.DecodeString(strings.TrimSpace(rest))
	if err != nil {
		return "", false
	}
	return string(b), true
}

func c07Check(r *Run, pool *Pool, st *c07Stats, what string, code, smap string, files map[string]string, v c07Variant, goal string, replay map[string]interface{}, unknownOK bool, aliases map[string]string) {
	var res smapResult
	req := map[string]interface{}{"op": "smapcheck", "code": code, "map": smap, "files": files, "goal": goal, "expectContent": !v.noContent, "expectNoContent": v.noContent, "allowUnknownSources": unknownOK, "aliases": aliases, "minifySyntax": v.minifySyn}
	if v.root != "" {
		req["sourceRoot"] = v.root
	}
	if err := pool.Call(req, &res); err != nil {
		r.Count("oracle_errors", 1)
		return
	}
	if !res.OK {
		r.Count("outputs_not_tokenizable(skipped)", 1)
		return
	}
	st.add(res.Stats)
	r.Eval(1)
	for _, x := range res.Violations {
		rp := map[string]interface{}{"rule": x.Rule, "detail": x.Detail, "output": code, "map": smap}
		for k, y := range replay {
			rp[k] = y
		}
		r.Violation("sourcemap:"+what+":"+x.Rule, fmt.Sprintf("%s (%s): %s: %s", what, v.name, x.Rule, trunc(x.Detail, 400)), rp)
	}
}

func checkC07(r *Run) {
	pool := r.Pool()
	r.Rule("marker programs (every identifier, string, number and template chunk unique in the build; tabs, very long lines, CRLF/CR/U+2028 line ends, astral characters in comments and strings, BOM) as single files (Transform) and as graphs of 2–6 files (Build: bundle, splitting with dynamic imports whose hashed paths are substituted in the middle of lines, files that record no names) × 9 variants (format, minify subsets, sourcemap inline/linked/external/both, sources-content, source-root, banner/footer, charset, line-limit); plus inputs that carry an input source map written by the monitor's own encoder (re-laid-out copies of an original). " +
		"Each emitted map is decoded by an own VLQ decoder and checked: version/indices/sortedness/positions in range, every original position against acorn token tables of the sources, every name against the original identifier, every generated marker token against the marker at its mapped origin, sourcesContent against the files. non-trivial = distinct build whose maps contained ≥1 marker mapping")
	r.Assume("acorn's tokenizer gives token starts; UTF-16 columns and the language's line terminators are computed by the monitor; a generated position designates the first token at or after it (statement mappings are recorded before indentation)")
	c07RealPaths(r)
	var st c07Stats
	variants := c07Variants()
	n := r.pick(500, 12000)
	parallel(n, pool.Size(), func(i int) {
		rng := newRng(r.Seed, fmt.Sprint("c07", i))
		nfiles := 1 + rng.Intn(6)
		dynamic := nfiles > 1 && rng.Intn(2) == 0
		files := markFiles(rng, nfiles, dynamic)
		fmap := map[string]string{}
		aliases := map[string]string{}
		for _, f := range files {
			fmap[f.Path] = f.Code
			for a, e := range f.Aliases {
				aliases[a] = e
			}
		}
		if i < 2 {
			r.Sample(map[string]interface{}{"kind": "marker file", "path": files[0].Path, "head": trunc(files[0].Code, 400)})
		}
		// composition: some files are replaced by a re-laid-out copy that carries an input source map back to the original
		composed := map[string]string{} // path -> original text (the source the final map must name)
		buildFiles := map[string]string{}
		for p, c := range fmap {
			buildFiles[p] = c
		}
		if rng.Intn(3) == 0 {
			for _, f := range files {
				if rng.Bool() {
					continue
				}
				orig := "orig_" + strings.TrimPrefix(f.Path, "/")
				var rl struct {
					OK   bool   `json:"ok"`
					Err  string `json:"err"`
					Code string `json:"code"`
					Map  string `json:"map"`
				}
				src := strings.TrimPrefix(f.Code, "\uFEFF")
				if err := pool.Call(map[string]interface{}{"op": "relayout", "code": src, "seed": i*31 + len(composed), "sourceName": orig, "withContent": true}, &rl); err != nil || !rl.OK {
					continue
				}
				buildFiles[f.Path] = rl.Code + "//# sourceMappingURL=data:application/json;base64," + base64.StdEncoding.EncodeToString([]byte(rl.Map)) + "\n"
				composed["/"+orig] = src
			}
		}
		expect := map[string]string{}
		for p, c := range fmap {
			expect[p] = c
		}
		for p, c := range composed {
			expect[p] = c
			delete(expect, "/"+strings.TrimPrefix(p, "/orig_"))
		}
		vs := variants
		if r.quick() {
			a, b := rng.Intn(len(variants)), rng.Intn(len(variants))
			vs = []c07Variant{variants[a], variants[b]}
		}
		nontrivial := false
		for _, v := range vs {
			entries := []string{files[len(files)-1].Path}
			if v.splitting && len(files) > 1 {
				entries = append(entries, files[len(files)-2].Path)
			}
			opts := api.BuildOptions{EntryPoints: entries, Bundle: true, Write: false, Outdir: "/out", Format: v.format, Splitting: v.splitting, MinifyWhitespace: v.minifyWS, MinifySyntax: v.minifySyn, MinifyIdentifiers: v.minifyIDs,
				Sourcemap: v.mode, SourceRoot: v.root, Charset: v.charset, LineLimit: v.lineLimit, Plugins: []api.Plugin{memPlugin(buildFiles)}, TreeShaking: api.TreeShakingFalse,
				ChunkNames: "chunks/[name]-[hash]", LegalComments: api.LegalCommentsNone}
			if v.noContent {
				opts.SourcesContent = api.SourcesContentExclude
			}
			if v.banner != "" {
				opts.Banner = map[string]string{"js": v.banner}
			}
			if v.footer != "" {
				opts.Footer = map[string]string{"js": v.footer}
			}
			if v.format == api.FormatIIFE {
				opts.GlobalName = "G"
			}
			res, pan := buildSafe(opts)
			atomic.AddInt64(&st.builds, 1)
			if pan != "" {
				r.Violation("sourcemap:panic", "esbuild panicked: "+pan, map[string]interface{}{"files": buildFiles, "variant": v.name})
				continue
			}
			if len(res.Errors) > 0 {
				atomic.AddInt64(&st.rejected, 1)
				if r.Counter("rejected_samples") < 3 {
					r.Count("rejected_samples", 1)
					fmt.Printf("  note: generated build rejected: %s\n", res.Errors[0].Text)
				}
				break
			}
			if len(composed) > 0 {
				atomic.AddInt64(&st.composed, 1)
			}
			goal := "module"
			if v.format != api.FormatESModule {
				goal = "script"
			}
			outs := map[string]string{}
			for _, f := range res.OutputFiles {
				outs[f.Path] = string(f.Contents)
			}
			for p, code := range outs {
				if !strings.HasSuffix(p, ".js") {
					continue
				}
				replay := map[string]interface{}{"files": buildFiles, "variant": v.name, "output_file": p, "originals": composed}
				before := st.markerMappings
				if v.mode == api.SourceMapInline || v.mode == api.SourceMapInlineAndExternal {
					m, ok := c07ExtractInline(code)
					if !ok {
						r.Violation("sourcemap:bundle:inline-map-missing", "no inline sourceMappingURL data URL in "+p+" ("+v.name+")", replay)
					} else {
						atomic.AddInt64(&st.inlineMaps, 1)
						c07Check(r, pool, &st, "bundle", code, m, expect, v, goal, replay, false, aliases)
					}
				}
				if v.mode != api.SourceMapInline {
					m, ok := outs[p+".map"]
					if !ok {
						r.Violation("sourcemap:bundle:map-file-missing", "no "+p+".map output ("+v.name+")", replay)
						continue
					}
					atomic.AddInt64(&st.linkedMaps, 1)
					if v.mode == api.SourceMapLinked {
						want := "//# sourceMappingURL=" + filepath.Base(p) + ".map"
						if !strings.Contains(code, want) {
							r.Violation("sourcemap:bundle:link-comment-missing", "output "+p+" lacks "+want, replay)
						}
					}
					if v.mode == api.SourceMapExternal && strings.Contains(code, "sourceMappingURL=") {
						r.Violation("sourcemap:bundle:link-comment-present-for-external", "output "+p+" has a sourceMappingURL comment although the map is external", replay)
					}
					c07Check(r, pool, &st, "bundle", code, m, expect, v, goal, replay, false, aliases)
				}
				if st.markerMappings > before {
					nontrivial = true
				}
			}
		}
		if nontrivial {
			r.Nontrivial(fmt.Sprint(fmap))
		}
		// Transform of a single file (sourcefile name given), a few variants
		if i%3 == 0 {
			f := files[0]
			src := strings.TrimPrefix(f.Code, "\uFEFF")
			if len(f.Exports) >= 0 {
				v := variants[rng.Intn(5)]
				o := api.TransformOptions{Loader: api.LoaderJS, Sourcefile: strings.TrimPrefix(f.Path, "/"), Sourcemap: api.SourceMapExternal, MinifyWhitespace: v.minifyWS, MinifySyntax: v.minifySyn, MinifyIdentifiers: v.minifyIDs, Charset: v.charset, Format: api.FormatESModule, Banner: v.banner, Footer: v.footer}
				res, pan := transformSafe(src, o)
				atomic.AddInt64(&st.transforms, 1)
				if pan == "" && len(res.Errors) == 0 {
					tv := v
					tv.noContent, tv.root = false, ""
					c07Check(r, pool, &st, "transform", string(res.Code), string(res.Map), map[string]string{f.Path: src}, tv, "module", map[string]interface{}{"input": src, "variant": v.name}, true, nil)
				}
			}
		}
	})
	c07CSS(r, &st)
	r.Count("builds", int(st.builds))
	r.Count("builds_rejected(generator defect, skipped)", int(st.rejected))
	r.Count("transforms", int(st.transforms))
	r.Count("maps_checked", int(st.maps))
	r.Count("inline_maps", int(st.inlineMaps))
	r.Count("map_files", int(st.linkedMaps))
	r.Count("builds_with_input_source_maps", int(st.composed))
	r.Count("segments_decoded", int(st.segments))
	r.Count("mappings_checked", int(st.mapped))
	r.Count("original_positions_on_token_starts", int(st.tokenStartHits))
	r.Count("marker_mappings_checked", int(st.markerMappings))
	r.Count("name_mappings_checked", int(st.named))
	r.Count("output_marker_tokens", int(st.outMarkers))
	r.Count("output_marker_tokens_with_a_mapping", int(st.outMarkersMapped))
	if st.outMarkers > 0 {
		r.Extra("marker_coverage", float64(st.outMarkersMapped)/float64(st.outMarkers))
	}
	if st.maps < int64(n) || st.markerMappings < 1000 || st.named == 0 || st.composed == 0 || (st.outMarkers > 0 && float64(st.outMarkersMapped)/float64(st.outMarkers) < 0.5) {
		r.Inconclusive("too few maps, marker mappings, name mappings or composed builds were observed, or fewer than half of the output markers carry a mapping")
	}
}
