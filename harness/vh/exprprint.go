package main

import (
	"fmt"
	"strings"
)

// exprtabPrint: every (parent construct, operand position, child construct) combination, with the child
// parenthesised in the input, so that the printer has to decide the minimal parenthesisation itself.
// Operands are probes with distinct prime values, so a wrong grouping changes values or probe order.

type pchild struct {
	name string
	src  string // uses #N# for fresh probes; must be an expression
	need string // "" | "gen" | "async"
	lhs  bool   // usable as assignment target
}

type pparent struct {
	name  string
	tpl   string // %H% is the hole (the child is inserted as "(child)")
	bound bool   // introduces a function boundary (yield/await children not allowed)
	lhs   bool   // hole must be an assignment target
	stmt  bool   // template is a statement list (case body is a block), else an expression
}

var pchildren = []pchild{
	{"num", "2", "", false}, {"negnum", "-2", "", false}, {"str", `"s"`, "", false}, {"tpl", "`t${#N#}`", "", false}, {"ident", "v", "", true}, {"member", "o.p", "", true}, {"index", "o[#N#]", "", true},
	{"call", "f(#N#)", "", false}, {"new-args", "new K(#N#)", "", false}, {"new-noargs", "new K", "", false}, {"optchain", "o?.p", "", false}, {"optcall", "f?.(#N#)", "", false}, {"optindex", "o?.[#N#]", "", false},
	{"arrow", "() => #N#", "", false}, {"arrow-block", "() => { return #N#; }", "", false}, {"async-arrow", "async () => #N#", "", false}, {"function", "function() { return #N#; }", "", false}, {"class", "class { static s = #N#; }", "", false},
	{"object", "{a: #N#}", "", false}, {"array", "[#N#]", "", false}, {"regex", "/r/g", "", false}, {"neg", "-#N#", "", false}, {"pos", "+#N#", "", false}, {"not", "!#N#", "", false}, {"bitnot", "~#N#", "", false}, {"typeof", "typeof #N#", "", false}, {"void", "void #N#", "", false},
	{"delete", "delete o.q", "", false}, {"preinc", "++v", "", false}, {"predec", "--v", "", false}, {"postinc", "v++", "", false}, {"postdec", "v--", "", false}, {"await", "await #N#", "async", false}, {"yield", "yield #N#", "gen", false}, {"yield-bare", "yield", "gen", false}, {"yield-star", "yield* [#N#]", "gen", false},
	{"pow", "#N# ** #N#", "", false}, {"mul", "#N# * #N#", "", false}, {"div", "#N# / #N#", "", false}, {"rem", "#N# % #N#", "", false}, {"add", "#N# + #N#", "", false}, {"sub", "#N# - #N#", "", false}, {"shl", "#N# << #N#", "", false}, {"shr", "#N# >> #N#", "", false}, {"lt", "#N# < #N#", "", false}, {"gt", "#N# > #N#", "", false},
	{"in", "\"p\" in o", "", false}, {"instanceof", "o instanceof K", "", false}, {"eq", "#N# == #N#", "", false}, {"seq", "#N# === #N#", "", false}, {"band", "#N# & #N#", "", false}, {"bxor", "#N# ^ #N#", "", false}, {"bor", "#N# | #N#", "", false}, {"and", "#N# && #N#", "", false}, {"or", "#N# || #N#", "", false}, {"nullish", "#N# ?? #N#", "", false},
	{"cond", "#N# ? #N# : #N#", "", false}, {"assign", "v = #N#", "", false}, {"assign-op", "v += #N#", "", false}, {"assign-logical", "v ||= #N#", "", false}, {"assign-member", "o.p = #N#", "", false}, {"comma", "#N#, #N#", "", false}, {"tagged", "tag`x${#N#}`", "", false}, {"new-target-fn", "function() { return new.target; }", "", false},
	{"this", "this", "", false}, {"import-call", "import(\"./nope\").catch(() => #N#)", "", false}, {"spread-call", "f(...[#N#])", "", false}, {"new-member", "new o.K2(#N#)", "", false}, {"new-call-result", "new (g())(#N#)", "", false}, {"call-call", "g()(#N#)", "", false}, {"member-call", "o.m(#N#)", "", false},
	{"dot-num", "1.5.toFixed(#N#)", "", false}, {"int-dot", "1 .toFixed(#N#)", "", false}, {"neg-pow-base", "(-#N#) ** 2", "", false}, {"let-ident", "let_", "", true}, {"async-ident", "async_", "", true}, {"paren-assign-target", "(v)", "", true},
	{"object-pattern-like", "{p: v}", "", false}, {"obj-method", "{m() { return #N#; }}", "", false}, {"class-named", "class Q { m() { return #N#; } }", "", false}, {"fn-named", "function q() { return #N#; }", "", false}, {"async-fn", "async function() { return #N#; }", "", false}, {"gen-fn", "function*() { yield #N#; }", "", false},
	{"template-plain", "`x`", "", false}, {"null", "null", "", false}, {"true", "true", "", false}, {"bigint", "5n", "", false}, {"negbigint", "-5n", "", false}, {"undefined", "void 0", "", false}, {"nan", "NaN", "", false}, {"neg-inf", "-Infinity", "", false}, {"huge", "1e400", "", false}, {"neg-zero", "-0", "", false},
}

var pparents = []pparent{
	{"neg", "-%H%", false, false, false}, {"pos", "+%H%", false, false, false}, {"not", "!%H%", false, false, false}, {"bitnot", "~%H%", false, false, false}, {"typeof", "typeof %H%", false, false, false}, {"void", "void %H%", false, false, false}, {"await", "await %H%", false, false, false},
	{"pow-l", "%H% ** #N#", false, false, false}, {"pow-r", "#N# ** %H%", false, false, false}, {"mul-l", "%H% * #N#", false, false, false}, {"mul-r", "#N# * %H%", false, false, false}, {"div-l", "%H% / #N#", false, false, false}, {"div-r", "#N# / %H%", false, false, false}, {"add-l", "%H% + #N#", false, false, false}, {"add-r", "#N# + %H%", false, false, false},
	{"sub-l", "%H% - #N#", false, false, false}, {"sub-r", "#N# - %H%", false, false, false}, {"shl-l", "%H% << #N#", false, false, false}, {"shl-r", "#N# << %H%", false, false, false}, {"lt-l", "%H% < #N#", false, false, false}, {"lt-r", "#N# < %H%", false, false, false}, {"gt-r", "#N# > %H%", false, false, false}, {"in-l", "%H% in o", false, false, false}, {"in-r", "\"p\" in %H%", false, false, false},
	{"instanceof-l", "%H% instanceof K", false, false, false}, {"eq-l", "%H% == #N#", false, false, false}, {"eq-r", "#N# == %H%", false, false, false}, {"seq-l", "%H% !== #N#", false, false, false}, {"band-l", "%H% & #N#", false, false, false}, {"band-r", "#N# & %H%", false, false, false}, {"bxor-r", "#N# ^ %H%", false, false, false}, {"bor-l", "%H% | #N#", false, false, false},
	{"and-l", "%H% && #N#", false, false, false}, {"and-r", "#N# && %H%", false, false, false}, {"or-l", "%H% || #N#", false, false, false}, {"or-r", "#N# || %H%", false, false, false}, {"nullish-l", "%H% ?? #N#", false, false, false}, {"nullish-r", "#N# ?? %H%", false, false, false},
	{"cond-test", "%H% ? #N# : #N#", false, false, false}, {"cond-yes", "#N# ? %H% : #N#", false, false, false}, {"cond-no", "#N# ? #N# : %H%", false, false, false}, {"assign-rhs", "v = %H%", false, false, false}, {"assign-op-rhs", "v += %H%", false, false, false}, {"assign-lhs", "%H% = #N#", false, true, false}, {"assign-op-lhs", "%H% += #N#", false, true, false}, {"assign-logical-lhs", "%H% ??= #N#", false, true, false},
	{"preinc", "++%H%", false, true, false}, {"postinc", "%H%++", false, true, false}, {"delete-member", "delete %H%.z", false, false, false}, {"delete-index", "delete o[%H%]", false, false, false},
	{"member-target", "%H%.p", false, false, false}, {"index-target", "%H%[#N#]", false, false, false}, {"index-key", "o[%H%]", false, false, false}, {"opt-target", "%H%?.p", false, false, false}, {"opt-call-target", "%H%?.(#N#)", false, false, false}, {"call-target", "%H%(#N#)", false, false, false}, {"call-arg", "f(%H%)", false, false, false}, {"call-arg2", "f(#N#, %H%)", false, false, false}, {"spread-arg", "f(...%H%)", false, false, false},
	{"new-target", "new %H%(#N#)", false, false, false}, {"new-target-noargs", "new %H%", false, false, false}, {"new-arg", "new K(%H%)", false, false, false}, {"tag-target", "%H%`x${#N#}`", false, false, false}, {"template-hole", "`a${%H%}b`", false, false, false}, {"array-item", "[#N#, %H%]", false, false, false}, {"array-spread", "[...%H%]", false, false, false},
	{"object-value", "({a: %H%})", false, false, false}, {"object-spread", "({...%H%})", false, false, false}, {"computed-key", "({[%H%]: #N#})", false, false, false}, {"comma-l", "(%H%, #N#)", false, false, false}, {"comma-r", "(#N#, %H%)", false, false, false}, {"paren-call", "(%H%)()", false, false, false},
	{"arrow-body", "(() => %H%)()", true, false, false}, {"arrow-default", "((a = %H%) => a)()", true, false, false}, {"fn-default", "(function(a = %H%) { return a; })()", true, false, false}, {"class-extends", "(class extends %H% {})", false, false, false}, {"class-field", "new (class { x = %H%; })().x", true, false, false}, {"class-static", "(class { static x = %H%; }).x", true, false, false}, {"class-computed", "Object.getOwnPropertyNames((class { static [%H%]() {} })).length", false, false, false},
	{"yield-arg", "yield %H%", false, false, false}, {"yield-star-arg", "yield* %H%", false, false, false},
	{"stmt-start", "%H%;", false, false, true}, {"stmt-return", "return %H%;", false, false, true}, {"stmt-throw", "throw %H%;", false, false, true}, {"stmt-if", "if (%H%) #N#; else #N#;", false, false, true}, {"stmt-while", "var n = 0; while (n++ < 1 && %H%) #N#;", false, false, true}, {"stmt-do", "var n = 0; do #N#; while (n++ < 1 && %H%);", false, false, true},
	{"stmt-for-init", "for (%H%; false;) ;", false, false, true}, {"stmt-for-test", "for (var n = 0; n++ < 1 && %H%;) #N#;", false, false, true}, {"stmt-for-update", "for (var n = 0; n < 1; n++, %H%) #N#;", false, false, true}, {"stmt-for-of", "for (var x of [%H%]) #N#;", false, false, true}, {"stmt-for-of-rhs", "for (var x of %H%) #N#;", false, false, true}, {"stmt-for-in-rhs", "for (var x in %H%) #N#;", false, false, true},
	{"stmt-for-of-lhs", "for (%H% of [#N#]) ;", false, true, true}, {"stmt-for-in-lhs", "for (%H% in {k: 1}) ;", false, true, true}, {"stmt-var-init", "var x = %H%; return x;", false, false, true}, {"stmt-var-init2", "var w = 1, x = %H%, y = #N#; return x;", false, false, true}, {"stmt-for-var-init", "for (var x = %H%; false;) ; return x;", false, false, true},
	{"stmt-switch", "switch (%H%) { case #N#: #N#; }", false, false, true}, {"stmt-case", "switch (#N#) { case %H%: #N#; }", false, false, true}, {"stmt-destructure-default", "var {q = %H%} = {}; return q;", false, false, true}, {"stmt-array-destructure-default", "var [q = %H%] = []; return q;", false, false, true}, {"stmt-assign-destructure", "var q; [q = %H%] = []; return q;", false, false, true},
	{"stmt-label", "L: %H%;", false, false, true}, {"stmt-block", "{ %H%; }", false, false, true}, {"stmt-if-body", "if (#N#) %H%; else %H%;", false, false, true}, {"stmt-with-semis", "#N#\n%H%\n#N#", false, false, true},
}

func exprtabPrint(sample func() bool) []packCase {
	var cases []packCase
	k := 100
	n := 0
	primes := []int{2, 3, 5, 7, 11, 13, 17, 19, 23, 29, 31, 37, 41, 43, 47}
	fill := func(s string) string {
		for strings.Contains(s, "#N#") {
			k++
			s = strings.Replace(s, "#N#", fmt.Sprintf("$(%d, %d)", k, primes[k%len(primes)]), 1)
		}
		return s
	}
	env := "var v = 3, o = {p: 5, q: 1, m(x) { return x; }, K2: function(x) { $(\"K2\", x); }}, let_ = 4, async_ = 6; function f(x) { return $(\"f\", x); } function g() { return f; } function K(x) { $(\"K\", x); } function tag(s, ...a) { return $(\"tag\", s.raw, a); } "
	for _, p := range pparents {
		for _, c := range pchildren {
			if p.lhs && !c.lhs {
				continue
			}
			need := c.need
			if strings.HasPrefix(p.name, "yield") {
				if need == "async" {
					continue
				}
				need = "gen"
			}
			if p.name == "await" {
				if need == "gen" {
					continue
				}
				need = "async"
			}
			if p.bound && c.need != "" {
				continue
			}
			if !sample() {
				continue
			}
			child := "(" + fill(c.src) + ")"
			body := strings.ReplaceAll(fill(p.tpl), "%H%", child)
			var fn string
			inner := body
			if !p.stmt {
				inner = "return " + body + ";"
			}
			switch need {
			case "gen":
				fn = "() => { " + env + "function* G() { " + inner + " } var it = G(), r = [], s; while (!(s = it.next(r.length)).done && r.length < 5) r.push(s.value); return [r, s.value]; }"
			case "async":
				n++
				fn = "() => { " + env + "(async function() { " + inner + " })().then(x => $(\"av" + fmt.Sprint(n) + "\", x), e => $(\"ae" + fmt.Sprint(n) + "\", e)); }"
			default:
				fn = "function() { " + env + inner + " }"
			}
			n++
			cases = append(cases, packCase{ID: fmt.Sprint("p", n), Body: fn, Sig: "paren:" + p.name + "(" + c.name + ")"})
		}
	}
	return cases
}
