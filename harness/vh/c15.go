package main

import (
	"fmt"
	"os"
	"sort"
	"strings"
	"sync/atomic"

	"github.com/evanw/esbuild/pkg/api"
)

func init() { registry["C15"] = checkC15; replayers["C15"] = replayC15 }

type bindViolation struct {
	Rule   string `json:"rule"`
	Name   string `json:"name"`
	Detail string `json:"detail"`
}
type bindResult struct {
	OK         bool              `json:"ok"`
	Err        string            `json:"err"`
	Violations []bindViolation   `json:"violations"`
	Stats      map[string]int    `json:"stats"`
	Mangled    map[string]string `json:"mangled"`
	PlainProps []string          `json:"plainProps"`
}
type alignResult struct {
	OK         bool            `json:"ok"`
	Err        string          `json:"err"`
	Aligned    bool            `json:"aligned"`
	N          int             `json:"n"`
	Decls      int             `json:"decls"`
	Violations []bindViolation `json:"violations"`
}

func (p *Pool) Bindcheck(code, goal string, opts map[string]interface{}) (bindResult, error) {
	var b bindResult
	err := p.Call(map[string]interface{}{"op": "bindcheck", "code": code, "goal": goal, "opts": opts}, &b)
	return b, err
}
func (p *Pool) Bindalign(a, b, goalA, goalB string, sameNames bool) (alignResult, error) {
	var res alignResult
	err := p.Call(map[string]interface{}{"op": "bindalign", "a": a, "b": b, "goalA": goalA, "goalB": goalB, "sameNames": sameNames}, &res)
	return res, err
}

type c15Variant struct {
	name      string
	opts      api.TransformOptions
	pinnedTop bool // no output format: the file may be a script sharing its top level, so top-level names must stay
	align     bool // identifier occurrences of input and output correspond one to one (no syntax rewriting)
	goal      string
	strictOK  bool // usable for sloppy programs too?
}

func c15Variants(sloppy bool, module bool) []c15Variant {
	base := api.TransformOptions{Loader: api.LoaderJS, Sourcemap: api.SourceMapExternal}
	mk := func(name string, f func(o *api.TransformOptions), pinnedTop, align bool, goal string) c15Variant {
		o := base
		f(&o)
		return c15Variant{name: name, opts: o, pinnedTop: pinnedTop, align: align, goal: goal}
	}
	g := "script"
	if module {
		g = "module"
	}
	vs := []c15Variant{
		mk("passthrough", func(o *api.TransformOptions) {}, !module, true, g),
		mk("minify-ids", func(o *api.TransformOptions) { o.MinifyIdentifiers = true }, !module, true, g),
		mk("minify-all", func(o *api.TransformOptions) {
			o.MinifyIdentifiers, o.MinifySyntax, o.MinifyWhitespace = true, true, true
		}, !module, false, g),
		mk("minify-ids,keep-names", func(o *api.TransformOptions) { o.MinifyIdentifiers, o.KeepNames = true, true }, !module, false, g),
		mk("minify-ids,syntax", func(o *api.TransformOptions) { o.MinifyIdentifiers, o.MinifySyntax = true, true }, !module, false, g),
	}
	if !module {
		vs = append(vs, mk("minify-ids,iife", func(o *api.TransformOptions) { o.MinifyIdentifiers, o.Format = true, api.FormatIIFE }, false, true, "script"))
		vs = append(vs, mk("minify-all,iife", func(o *api.TransformOptions) {
			o.MinifyIdentifiers, o.MinifySyntax, o.MinifyWhitespace, o.Format = true, true, true, api.FormatIIFE
		}, false, false, "script"))
	}
	if !sloppy {
		vs = append(vs, mk("minify-ids,esm", func(o *api.TransformOptions) { o.MinifyIdentifiers, o.Format = true, api.FormatESModule }, false, true, "module"))
		vs = append(vs, mk("minify-ids,cjs", func(o *api.TransformOptions) { o.MinifyIdentifiers, o.Format = true, api.FormatCommonJS }, false, !module, "cjs"))
	}
	return vs
}

type c15Stats struct {
	programs, invalid, outputs, occ, tagged, untagged, untaggedNested, symbols, decls, aligned, unaligned, alignedOcc, execRuns, execEvents, renamedOutputs, evalPinned, inWith, topPinned, pinned int64
	bundles, bundleFiles, staticBundles, propBuilds, propTagged, cacheEntries, esbuildRejects                                                                                                      int64
}

func (st *c15Stats) addBind(b bindResult) {
	atomic.AddInt64(&st.outputs, 1)
	atomic.AddInt64(&st.occ, int64(b.Stats["occ"]))
	atomic.AddInt64(&st.tagged, int64(b.Stats["tagged"]))
	atomic.AddInt64(&st.untagged, int64(b.Stats["untagged"]))
	atomic.AddInt64(&st.untaggedNested, int64(b.Stats["untaggedNested"]))
	atomic.AddInt64(&st.symbols, int64(b.Stats["symbols"]))
	atomic.AddInt64(&st.decls, int64(b.Stats["decls"]))
	atomic.AddInt64(&st.evalPinned, int64(b.Stats["evalPinned"]))
	atomic.AddInt64(&st.inWith, int64(b.Stats["inWith"]))
	atomic.AddInt64(&st.topPinned, int64(b.Stats["topPinned"]))
	atomic.AddInt64(&st.pinned, int64(b.Stats["pinnedChecked"]))
	atomic.AddInt64(&st.propTagged, int64(b.Stats["propTagged"]))
}

func stripTags(s string) string {
	var b strings.Builder
	for {
		i := strings.Index(s, "/*@S")
		if i < 0 {
			b.WriteString(s)
			return b.String()
		}
		j := strings.Index(s[i:], "*/")
		if j < 0 {
			b.WriteString(s)
			return b.String()
		}
		b.WriteString(s[:i])
		s = s[i+j+2:]
	}
}

func c15ReportBind(r *Run, what string, b bindResult, replay map[string]interface{}) {
	for _, v := range b.Violations {
		rp := map[string]interface{}{"rule": v.Rule, "name": v.Name, "detail": v.Detail}
		for k, x := range replay {
			rp[k] = x
		}
		r.Violation("rename:"+what+":"+v.Rule, fmt.Sprintf("%s: %s `%s`: %s", what, v.Rule, v.Name, trunc(v.Detail, 500)), rp)
	}
}

func checkC15(r *Run) {
	api.VerifSymbolTags(true)
	defer api.VerifSymbolTags(false)
	pool := r.Pool()
	r.Rule("scopegen programs (nested function/block/class/catch/for/switch scopes, var hoisting, block-level functions, parameter scopes, named function/class expressions, labels, private names, with, direct eval; names from a pool of the minifier's first names + numbered suffixes, also used as free globals) " +
		"× {pass-through, minify-identifiers, all minify, keep-names} × {no format, iife, esm, cjs}; ES-module graphs of such files with identical top-level names bundled (esm/cjs/iife, splitting) and mixed CommonJS-wrapped graphs with external imports; mangle-props programs × regex/reserve/quoted/cache. " +
		"Monitors: (1) symbol tags printed by esbuild before every symbol-bound identifier vs an independent scope resolution of the same text (same symbol ⇔ same declaration; free stays free; pinned, eval-visible, with-visible and unwrapped top-level names unchanged), " +
		"(2) hook-free alignment of the input's and the output's binding partitions, (3) execution of input vs output in V8, (4) mangled property ↔ name bijection, cache agreement and reproduction from the cache. " +
		"non-trivial = distinct program or graph with ≥1 declaration whose output was analysed")
	r.Assume("scope resolver written from the ECMAScript specification over acorn's AST (independent of esbuild); a sloppy block-level function and its Annex B var binding count as one declaration")
	r.Assume("symbol tags (build tag verif) are comments and do not change esbuild's naming decisions")
	var st c15Stats
	prelude := sgPrelude()

	nprog := r.pick(900, 30000)
	parallel(nprog, pool.Size(), func(i int) {
		rng := newRng(r.Seed, fmt.Sprint("c15prog", i))
		sloppy := i%3 != 0
		module := !sloppy && i%6 == 0
		g := newScopegen(rng, sgOpts{Sloppy: sloppy, Module: module, MaxDepth: 3 + rng.Intn(4)})
		src := g.Program()
		if !sloppy && !module {
			src = "\"use strict\";\n" + src
		}
		if module {
			src = "export {};\n" + src // without import/export syntax esbuild must assume a script (sloppy-mode block functions)
		}
		if i < 2 {
			r.Sample(map[string]interface{}{"kind": "scope program", "sloppy": sloppy, "module": module, "declarations": g.decls, "source_head": trunc(src, 600)})
		}
		c15Program(r, pool, &st, rng, src, sloppy, module, prelude, g.decls)
	})

	c15Bundles(r, pool, &st, prelude)
	c15Props(r, pool, &st)

	r.Count("programs", int(st.programs))
	r.Count("programs_rejected_by_reference_engine(skipped)", int(st.invalid))
	r.Count("programs_rejected_by_esbuild_only(C13 matter, skipped)", int(st.esbuildRejects))
	r.Count("outputs_analysed", int(st.outputs))
	r.Count("identifier_occurrences", int(st.occ))
	r.Count("tagged_occurrences", int(st.tagged))
	r.Count("untagged_occurrences", int(st.untagged))
	r.Count("untagged_references_bound_in_nested_scope", int(st.untaggedNested))
	r.Count("symbols_checked", int(st.symbols))
	r.Count("declarations_resolved", int(st.decls))
	r.Count("outputs_with_renamed_identifiers", int(st.renamedOutputs))
	r.Count("aligned_pairs", int(st.aligned))
	r.Count("aligned_occurrences", int(st.alignedOcc))
	r.Count("unaligned_pairs(skipped)", int(st.unaligned))
	r.Count("exec_runs", int(st.execRuns))
	r.Count("probe_events_ref", int(st.execEvents))
	r.Count("eval_visible_names_checked", int(st.evalPinned))
	r.Count("names_inside_with_checked", int(st.inWith))
	r.Count("unwrapped_top_level_names_checked", int(st.topPinned))
	r.Count("pinned_flag_names_checked", int(st.pinned))
	r.Count("bundles", int(st.bundles))
	r.Count("bundle_files_analysed", int(st.bundleFiles))
	r.Count("static_only_bundles", int(st.staticBundles))
	r.Count("mangle_props_builds", int(st.propBuilds))
	r.Count("mangled_property_occurrences", int(st.propTagged))
	r.Count("mangle_cache_entries_checked", int(st.cacheEntries))
	if st.outputs < int64(nprog) || st.tagged == 0 || st.renamedOutputs == 0 || st.execRuns == 0 {
		r.Inconclusive("too few outputs were analysed, no symbol tags were seen, or nothing was renamed")
	}
}

func c15Program(r *Run, pool *Pool, st *c15Stats, rng *Rng, src string, sloppy, module bool, prelude string, ndecls int) {
	atomic.AddInt64(&st.programs, 1)
	refGoal := "script"
	if module {
		refGoal = "module"
	}
	mkProg := func(code, goal string) Prog {
		var p Prog
		switch goal {
		case "module":
			p = progModule(code)
		case "cjs":
			p = progCJS(code)
		default:
			p = progScript(code)
		}
		p.Prelude = prelude
		return p
	}
	vs := c15Variants(sloppy, module)
	k := len(vs)
	if r.quick() && k > 4 {
		// pass-through and plain minify-identifiers always; two more seeded
		rest := vs[2:]
		rng.Shuffle(len(rest), func(a, b int) { rest[a], rest[b] = rest[b], rest[a] })
		vs = append(vs[:2:2], rest[:2]...)
	}
	var outs []Prog
	var names []string
	var codes []string
	var wrappedOut []bool
	passPlain := ""
	for _, v := range vs {
		res, pan := transformSafe(src, v.opts)
		if pan != "" {
			r.Violation("rename:panic", "esbuild panicked: "+pan, map[string]interface{}{"input": src, "variant": v.name})
			continue
		}
		if len(res.Errors) > 0 {
			if v.name == "passthrough" {
				pr, err := pool.Parse(src, refGoal, 0, "v8")
				if err == nil && pr.V8 != nil && pr.V8.OK {
					atomic.AddInt64(&st.esbuildRejects, 1)
				} else {
					atomic.AddInt64(&st.invalid, 1)
				}
				return
			}
			continue
		}
		out := string(res.Code)
		replay := map[string]interface{}{"input": src, "variant": v.name, "output": stripTags(out), "sloppy": sloppy, "module": module}
		b, err := pool.Bindcheck(out, v.goal, map[string]interface{}{"pinnedTop": v.pinnedTop, "reportUntaggedNested": true})
		if err != nil {
			r.Count("oracle_errors", 1)
			continue
		}
		if !b.OK {
			// the reference parser rejects the output: only a finding if the input itself is valid
			pr, perr := pool.Parse(src, refGoal, 0, "acorn")
			if perr == nil && pr.Acorn != nil && pr.Acorn.OK && v.goal != refGoal {
				// format conversion: a script that is not itself a valid module (e.g. top-level `var f` + `function f`) cannot
				// become one; that inheritance is C13's subject, not a naming decision
				if pr2, err2 := pool.Parse(src, v.goal, 0, "acorn"); err2 == nil && pr2.Acorn != nil && !pr2.Acorn.OK {
					r.Count("outputs_invalid_because_the_input_is_invalid_in_the_output_format(skipped)", 1)
					continue
				}
			}
			if perr == nil && pr.Acorn != nil && pr.Acorn.OK {
				replay["parse_error"] = b.Err
				r.Violation("rename:"+v.name+":invalid-output", fmt.Sprintf("%s: output does not parse (%s)", v.name, b.Err), replay)
			} else {
				atomic.AddInt64(&st.invalid, 1)
				return
			}
			continue
		}
		st.addBind(b)
		r.Eval(1)
		if ndecls > 0 {
			r.Nontrivial(src)
		}
		c15ReportBind(r, v.name, b, replay)
		plain := stripTags(out)
		if v.name != "passthrough" && plain != stripTags(codes0(codes)) {
			atomic.AddInt64(&st.renamedOutputs, 1)
		}
		if v.name == "passthrough" {
			passPlain = plain
		}
		// the input is aligned with the pass-through output (same names required); every renamed output is aligned with the
		// pass-through output, which has the same structure (esbuild restructures some code, e.g. sloppy block-level functions)
		alignA, alignGoal := src, refGoal
		if v.name != "passthrough" {
			alignA, alignGoal = passPlain, refGoal
		}
		if v.align && alignA != "" {
			a, err := pool.Bindalign(alignA, plain, alignGoal, v.goal, v.name == "passthrough")
			if err == nil && a.OK {
				if a.Aligned {
					atomic.AddInt64(&st.aligned, 1)
					atomic.AddInt64(&st.alignedOcc, int64(a.N))
					for _, x := range a.Violations {
						rp := map[string]interface{}{"rule": x.Rule, "name": x.Name, "detail": x.Detail}
						for k2, y := range replay {
							rp[k2] = y
						}
						r.Violation("rename:"+v.name+":align:"+x.Rule, fmt.Sprintf("%s: input and output bind differently: %s `%s`: %s", v.name, x.Rule, x.Name, trunc(x.Detail, 400)), rp)
					}
				} else {
					atomic.AddInt64(&st.unaligned, 1)
				}
			}
		}
		codes = append(codes, out)
		if v.opts.KeepNames {
			// static monitors only: keep-names inserts __name(f, "f") calls where a function is declared, which is observable
			// (and can throw) when the program reassigns the name first; what keep-names preserves is C03's subject
			continue
		}
		o := mkProg(out, v.goal)
		outs = append(outs, o)
		names = append(names, v.name)
		wrappedOut = append(wrappedOut, !module && v.opts.Format != api.FormatDefault)
	}
	if len(outs) == 0 {
		return
	}
	// execution (function .name is not observed here: what keep-names preserves is C03's subject). Variants that wrap a script (iife/esm/cjs output of a non-module program) are compared with the program wrapped in a
	// function, because a top-level `var`/function of a script is a property of the global object and a wrapped one is not
	// (the conversion itself is C01's subject; programs here read the same names as free globals).
	for pass := 0; pass < 4; pass++ {
		wrapped, cmpExports := pass&1 == 1, pass&2 == 2
		var sel []Prog
		var selNames []string
		for i, o := range outs {
			if wrappedOut[i] == wrapped && (module && o.Kind == "module") == cmpExports {
				sel = append(sel, o)
				selNames = append(selNames, names[i])
			}
		}
		if len(sel) == 0 {
			continue
		}
		refSrc := src
		if wrapped {
			refSrc = "(function () {\n" + src + "\n})();"
		}
		ref := mkProg(refSrc, refGoal)
		res, err := pool.ExecMulti(ref, sel, !cmpExports)
		if err != nil {
			r.Count("oracle_errors", 1)
			continue
		}
		if strings.HasPrefix(res.RefTerm, "syntax") {
			atomic.AddInt64(&st.invalid, 1)
			return
		}
		atomic.AddInt64(&st.execEvents, int64(res.RefEvents))
		for vi, cmp := range res.Results {
			atomic.AddInt64(&st.execRuns, 1)
			if cmp.Equal || cmp.Inconclusive {
				continue
			}
			d := cmp.Diffs[0]
			r.Violation("rename:"+selNames[vi]+":exec:"+firstDiffSig(d), fmt.Sprintf("%s: program behaves differently after renaming (term ref=%s out=%s): segment %s ref=%v out=%v", selNames[vi], cmp.TermA, trunc(cmp.TermB, 120), d.Seg, trunc(fmt.Sprint(d.A), 200), trunc(fmt.Sprint(d.B), 200)),
				map[string]interface{}{"input": src, "variant": selNames[vi], "output": stripTags(sel[vi].Files[sel[vi].Entry].Code), "diff": cmp.Diffs, "sloppy": sloppy, "module": module})
		}
	}
}

func codes0(c []string) string {
	if len(c) == 0 {
		return ""
	}
	return c[0]
}

// ---------------------------------------------------------------------------------------------------
// bundles

type c15Graph struct {
	Files    map[string]string `json:"files"`
	Entries  []string          `json:"entries"`
	External []string          `json:"external"`
	Static   bool              `json:"static_only"`
}

// c15AliasGraph: 3–5 library files that all export top-level bindings drawn from {x, x2, x3, x22, e, e2}, imported by two
// entry points. In a splitting build the libraries share one chunk, whose cross-chunk export aliases are made unique with
// numbered suffixes — suffixes that are themselves the declared names of other exported symbols.
func c15AliasGraph(rng *Rng) c15Graph {
	names := []string{"x", "x2", "x3", "x22", "e", "e2"}
	n := 3 + rng.Intn(3)
	files := map[string]string{}
	var imports, reads []string
	for j := 0; j < n; j++ {
		var b strings.Builder
		fmt.Fprintf(&b, "$(\"file\", %d);\n", j)
		var items []string
		for k, nm := range names {
			if k > 0 && rng.Intn(3) == 0 {
				continue
			}
			switch rng.Intn(3) {
			case 0:
				fmt.Fprintf(&b, "export let %s = \"%s-of-f%d\";\n", nm, nm, j)
			case 1:
				fmt.Fprintf(&b, "export function %s() { return \"%s-of-f%d\"; }\n", nm, nm, j)
			default:
				fmt.Fprintf(&b, "export class %s { static v = \"%s-of-f%d\"; }\n", nm, nm, j)
			}
			items = append(items, fmt.Sprintf("%s as %s_%d", nm, nm, j))
			reads = append(reads, fmt.Sprintf("typeof %s_%d === \"function\" ? (%s_%d.v || %s_%d()) : %s_%d", nm, j, nm, j, nm, j, nm, j))
		}
		b.WriteString("export default 0;\n")
		files[fmt.Sprintf("/f%d.js", j)] = b.String()
		imports = append(imports, fmt.Sprintf("import {%s} from \"./f%d.js\";", strings.Join(items, ", "), j))
	}
	for e := 0; e < 2; e++ {
		files[fmt.Sprintf("/f%d.js", n+e)] = strings.Join(imports, "\n") + fmt.Sprintf("\n$(\"file\", %d);\n$(\"reads\", %d, %s);\nexport default %d;\n", n+e, e, strings.Join(reads, ", "), e)
	}
	return c15Graph{Files: files, Entries: []string{fmt.Sprintf("/f%d.js", n+1), fmt.Sprintf("/f%d.js", n)}}
}

// c15EvalGraph: direct eval inside *nested* scopes of an ES module that is bundled with another module declaring the same
// names at its top level. The locals, parameters and block bindings that the eval code reads live in scopes containing a
// direct eval, so they must keep their names (collision avoidance would otherwise rename them to name2 and the eval would
// silently read the other module's top-level binding; identifier minification would make it throw).
func c15EvalGraph(rng *Rng) c15Graph {
	names := []string{"secret", "other", "e", "t", "x", "x2", "value"}
	rng.Shuffle(len(names), func(i, j int) { names[i], names[j] = names[j], names[i] })
	a, b := names[0], names[1]
	f0 := fmt.Sprintf("$(\"file\", 0);\nexport let %s = \"top-%s-of-f0\", %s = \"top-%s-of-f0\";\nexport function get() { return [%s, %s]; }\nexport default 0;\n", a, a, b, b, a, b)
	f1 := fmt.Sprintf("import {%s as imported, get} from \"./f0.js\";\n$(\"file\", 1);\n"+
		"export function viaFunction(p) { var %s = \"local-var\"; let %s = \"local-let\"; return [eval(\"%s\"), eval(\"%s\"), eval(\"p\"), imported]; }\n"+
		"export const viaArrow = (%s) => { { let %s = \"block-let\"; return [eval(\"%s + %s\")]; } };\n"+
		"export class K { m(%s) { const %s = \"method-const\"; return eval(\"[%s, %s]\"); } }\n"+
		"function* gen(%s = \"default-param\") { for (let %s of [\"loop-let\"]) yield eval(\"%s + %s\"); }\n"+
		"$(\"r\", viaFunction(\"param\"), viaArrow(\"arrow-param\"), new K().m(\"method-param\"), [...gen()], get());\nexport default 1;\n",
		a, a, b, a, b, a, b, a, b, b, a, a, b, a, b, a, b)
	f2 := fmt.Sprintf("import \"./f1.js\";\nimport {%s, %s} from \"./f0.js\";\n$(\"file\", 2);\n$(\"top\", %s, %s);\nexport default 2;\n", a, b, a, b)
	return c15Graph{Files: map[string]string{"/f0.js": f0, "/f1.js": f1, "/f2.js": f2}, Entries: []string{"/f2.js", "/f1.js"}}
}

// ES-module graph: every file is a scopegen module; later files import pool-named bindings from earlier ones.
func c15EsmGraph(rng *Rng) c15Graph {
	n := 2 + rng.Intn(4)
	files := map[string]string{}
	exports := make([][]string, n)
	pool := append([]string{"e", "t"}, sgPoolAll[2+rng.Intn(4):8+rng.Intn(4)]...)
	if rng.Intn(3) == 0 {
		// few names that are numbered variants of each other: the suffixes collision avoidance hands out (x2, e2, …) are
		// themselves declared names of other files, in the shared chunks of a splitting build as well
		pool = []string{"x", "x2", "x3", "e", "e2", "t", "t2"}[:4+rng.Intn(4)]
	}
	for i := 0; i < n; i++ {
		g := newScopegen(rng.Fork(fmt.Sprint("file", i)), sgOpts{Module: true, TopLexFirst: true, Pool: pool, MaxDepth: 2 + rng.Intn(3)})
		var head, nsProbes strings.Builder
		var pre []string
		used := map[string]bool{}
		for j := 0; j < i; j++ {
			if rng.Intn(3) == 0 && j != i-1 {
				continue
			}
			switch rng.Intn(4) {
			case 0:
				// the namespace object itself is never logged (its shape is C02's subject); its members are read by name
				fmt.Fprintf(&head, "import * as ns%d from \"./f%d.js\";\n", j, j)
				reads := []string{fmt.Sprintf("ns%d.default", j)}
				for _, x := range exports[j] {
					reads = append(reads, fmt.Sprintf("ns%d.%s", j, x))
				}
				fmt.Fprintf(&nsProbes, "try { $(\"ns\", %d, %s); } catch { $(\"ns\", %d, \"!\"); }\n", j, strings.Join(reads, ", "), j)
			case 1:
				l := rng.Pick(pool)
				if !used[l] {
					used[l] = true
					pre = append(pre, l)
					fmt.Fprintf(&head, "import %s from \"./f%d.js\";\n", l, j)
				}
			default:
				var items []string
				for _, x := range exports[j] {
					if rng.Bool() {
						l := x
						if rng.Bool() {
							l = rng.Pick(pool)
						}
						if used[l] {
							continue
						}
						used[l] = true
						pre = append(pre, l)
						if l == x {
							items = append(items, x)
						} else {
							items = append(items, x+" as "+l)
						}
					}
				}
				if len(items) > 0 {
					fmt.Fprintf(&head, "import {%s} from \"./f%d.js\";\n", strings.Join(items, ", "), j)
				} else {
					fmt.Fprintf(&head, "import \"./f%d.js\";\n", j)
				}
			}
		}
		body := g.Program(pre...)
		for x := range g.export {
			exports[i] = append(exports[i], x)
		}
		sort.Strings(exports[i])
		tail := fmt.Sprintf("export default %d;\n", g.uniq()+i*100000)
		if i > 0 && rng.Intn(3) == 0 {
			tail += fmt.Sprintf("export * from \"./f%d.js\";\n", rng.Intn(i))
		}
		files[fmt.Sprintf("/f%d.js", i)] = head.String() + fmt.Sprintf("$(\"file\", %d);\n", i) + nsProbes.String() + body + tail
	}
	gr := c15Graph{Files: files, Entries: []string{fmt.Sprintf("/f%d.js", n-1)}}
	if n > 2 && rng.Bool() {
		gr.Entries = append(gr.Entries, fmt.Sprintf("/f%d.js", n-2))
	}
	return gr
}

// mixed graph for static analysis only: CommonJS-style files (wrapped by esbuild) with external imports hoisted out of the wrappers
func c15MixedGraph(rng *Rng) c15Graph {
	n := 2 + rng.Intn(4)
	files := map[string]string{}
	pool := append([]string{"e", "t"}, sgPoolAll[2+rng.Intn(4):7+rng.Intn(4)]...)
	ext := map[string]bool{}
	var entry strings.Builder
	for i := 0; i < n; i++ {
		// Module: a file with an import statement is an ES module, where top-level function declarations are lexical
		g := newScopegen(rng.Fork(fmt.Sprint("mfile", i)), sgOpts{Sloppy: false, Module: true, NoExport: true, NoEval: true, NoWith: true, Pool: pool, MaxDepth: 2 + rng.Intn(2)})
		var head strings.Builder
		var pre []string
		used := map[string]bool{}
		// external imports bind a name from a very small pool, so that several wrapped files hoist same-named imports
		ne := 1 + rng.Intn(3)
		ipool := pool[:2+rng.Intn(2)]
		for k := 0; k < ne; k++ {
			l := rng.Pick(ipool)
			if used[l] {
				continue
			}
			used[l] = true
			pre = append(pre, l)
			pkg := fmt.Sprintf("ext-%d-%d", i, k)
			ext[pkg] = true
			switch rng.Intn(4) {
			case 0, 1:
				fmt.Fprintf(&head, "import %s from %q;\n", l, pkg)
			case 2:
				fmt.Fprintf(&head, "import * as %s from %q;\n", l, pkg)
			default:
				fmt.Fprintf(&head, "import {%s} from %q;\n", l, pkg)
			}
		}
		cjs := rng.Intn(3) != 0
		body := g.Program(pre...)
		var tail string
		if cjs {
			tail = fmt.Sprintf("exports.k%d = %d;\n", i, g.uniq())
			if rng.Bool() && i > 0 {
				l := rng.Pick(pool)
				tail += fmt.Sprintf("{ const %s = require(\"./m%d.js\"); $(\"req\", typeof %s); }\n", l, rng.Intn(i), l)
			}
		} else {
			tail = fmt.Sprintf("export const k%d = %d;\n", i, g.uniq())
		}
		files[fmt.Sprintf("/m%d.js", i)] = head.String() + body + tail
		if rng.Bool() {
			fmt.Fprintf(&entry, "import * as ns%d from \"./m%d.js\"; $(\"ns\", typeof ns%d);\n", i, i, i)
		} else {
			fmt.Fprintf(&entry, "{ const %s = require(\"./m%d.js\"); $(\"r\", typeof %s); }\n", rng.Pick(pool), i, rng.Pick(pool))
		}
	}
	files["/entry.js"] = entry.String()
	gr := c15Graph{Files: files, Entries: []string{"/entry.js"}, Static: true}
	for e := range ext {
		gr.External = append(gr.External, e)
	}
	sort.Strings(gr.External)
	return gr
}

type c15BundleVariant struct {
	name      string
	format    api.Format
	minifyIDs bool
	minifyAll bool
	splitting bool
	keepNames bool
}

func c15Bundles(r *Run, pool *Pool, st *c15Stats, prelude string) {
	n := r.pick(220, 6000)
	variants := []c15BundleVariant{
		{"bundle,esm", api.FormatESModule, false, false, false, false},
		{"bundle,esm,minify-ids", api.FormatESModule, true, false, false, false},
		{"bundle,cjs", api.FormatCommonJS, false, false, false, false},
		{"bundle,cjs,minify-ids", api.FormatCommonJS, true, false, false, false},
		{"bundle,iife", api.FormatIIFE, false, false, false, false},
		{"bundle,iife,minify-all", api.FormatIIFE, true, true, false, false},
		{"bundle,esm,splitting", api.FormatESModule, false, false, true, false},
		{"bundle,esm,splitting,minify-ids", api.FormatESModule, true, false, true, false},
		{"bundle,esm,minify-ids,keep-names", api.FormatESModule, true, false, false, true},
	}
	parallel(n, pool.Size(), func(i int) {
		rng := newRng(r.Seed, fmt.Sprint("c15bundle", i))
		var gr c15Graph
		aliasGraph := i%11 == 10
		evalGraph := i%11 == 5
		if aliasGraph {
			gr = c15AliasGraph(rng)
		} else if evalGraph {
			gr = c15EvalGraph(rng)
		} else if i%3 == 2 {
			gr = c15MixedGraph(rng)
		} else {
			gr = c15EsmGraph(rng)
		}
		atomic.AddInt64(&st.bundles, 1)
		if gr.Static {
			atomic.AddInt64(&st.staticBundles, 1)
		}
		vs := variants
		if r.quick() {
			a, b := rng.Intn(len(variants)), rng.Intn(len(variants))
			vs = []c15BundleVariant{variants[a], variants[b]}
			if a == b {
				vs = vs[:1]
			}
			if aliasGraph {
				vs = []c15BundleVariant{variants[6], variants[7], variants[0]}
			}
			if evalGraph {
				vs = []c15BundleVariant{variants[0], variants[1], variants[2+rng.Intn(6)]}
			}
			if gr.Static {
				// static-only graphs cost one build and one parse per variant: always include the plain esm bundle
				// (imports hoisted out of CommonJS wrappers keep ESM syntax only there)
				vs = append([]c15BundleVariant{variants[0]}, vs...)
			}
		}
		var refTrace *ExecResult
		for _, v := range vs {
			entries := gr.Entries
			if !v.splitting {
				entries = entries[:1]
			}
			opts := api.BuildOptions{EntryPoints: entries, Bundle: true, Write: false, Outdir: "/out", Format: v.format, Splitting: v.splitting, MinifyIdentifiers: v.minifyIDs, MinifySyntax: v.minifyAll, MinifyWhitespace: v.minifyAll,
				KeepNames: v.keepNames, Plugins: []api.Plugin{memPlugin(gr.Files)}, External: gr.External, Sourcemap: api.SourceMapExternal, Platform: api.PlatformNeutral}
			if gr.Static {
				opts.Platform = api.PlatformNode
			}
			if v.format == api.FormatIIFE {
				opts.GlobalName = "G"
			}
			res, pan := buildSafe(opts)
			if pan != "" {
				r.Violation("rename:bundle:panic", "esbuild panicked: "+pan, map[string]interface{}{"graph": gr, "variant": v.name})
				continue
			}
			if len(res.Errors) > 0 {
				if v.name == vs[0].name {
					atomic.AddInt64(&st.invalid, 1)
					if os.Getenv("VERIF_ALL") != "" {
						fmt.Printf("  bundle rejected: %s\n", res.Errors[0].Text)
					}
				}
				break
			}
			goal := "module"
			if v.format == api.FormatCommonJS {
				goal = "cjs"
			} else if v.format == api.FormatIIFE {
				goal = "script"
			}
			outFiles := map[string]PFile{}
			entryOut := ""
			ok := true
			for _, f := range res.OutputFiles {
				if !strings.HasSuffix(f.Path, ".js") {
					continue
				}
				code := string(f.Contents)
				replay := map[string]interface{}{"graph": gr, "variant": v.name, "file": f.Path, "output": stripTags(code)}
				// (eval graphs: in a scope-hoisted bundle the top-level names of *other* modules also lie on the eval's scope chain,
				// and esbuild may rename top-level names of ES modules when bundling; which names the eval code really reads is
				// decided there by executing the bundle against the native run, not by the static eval-visibility rule)
				b, err := pool.Bindcheck(code, goal, map[string]interface{}{"pinnedTop": false, "reportUntaggedNested": true, "skipEvalVisibleRule": evalGraph})
				if err != nil {
					r.Count("oracle_errors", 1)
					ok = false
					continue
				}
				if !b.OK {
					replay["parse_error"] = b.Err
					r.Violation("rename:"+v.name+":invalid-output", fmt.Sprintf("%s: output file does not parse: %s", v.name, b.Err), replay)
					ok = false
					continue
				}
				st.addBind(b)
				r.Eval(1)
				atomic.AddInt64(&st.bundleFiles, 1)
				r.Nontrivial(fmt.Sprint(gr.Files) + v.name)
				c15ReportBind(r, v.name, b, replay)
				p := strings.TrimPrefix(f.Path, "/out")
				kind := "esm"
				if goal == "cjs" {
					kind = "cjs"
				} else if goal == "script" {
					kind = "script"
				}
				outFiles[p] = PFile{Code: code, Kind: kind}
				if entryOut == "" || strings.HasSuffix(f.Path, strings.TrimSuffix(entries[0], ".js")+".js") {
					entryOut = p
				}
			}
			if v.minifyIDs {
				atomic.AddInt64(&st.renamedOutputs, 1)
			}
			if gr.Static || !ok || entryOut == "" {
				continue
			}
			// execution: the unbundled graph in V8's module loader vs the bundle
			if refTrace == nil {
				ref := Prog{Files: map[string]PFile{}, Entry: entries[0], Kind: "module", Prelude: prelude}
				for p, c := range gr.Files {
					ref.Files[p] = PFile{Code: c, Kind: "esm"}
				}
				rr, err := pool.Exec(ref)
				if err != nil {
					r.Count("oracle_errors", 1)
					continue
				}
				refTrace = &rr
				if strings.HasPrefix(rr.Term, "syntax") || strings.HasPrefix(rr.Term, "link") {
					atomic.AddInt64(&st.invalid, 1)
					break
				}
				atomic.AddInt64(&st.execEvents, int64(len(rr.Trace)))
			}
			if v.keepNames {
				continue
			}
			out := Prog{Files: outFiles, Entry: entryOut, Kind: map[string]string{"module": "module", "cjs": "cjs", "script": "script"}[goal], Prelude: prelude}
			or, err := pool.Exec(out)
			if err != nil {
				r.Count("oracle_errors", 1)
				continue
			}
			atomic.AddInt64(&st.execRuns, 1)
			bad := ""
			if v.splitting && fmt.Sprint(c15FileOrder(refTrace.Trace)) != fmt.Sprint(c15FileOrder(or.Trace)) {
				// with code splitting modules of different chunks may be evaluated in another order than natively (a
				// documented limitation of splitting, and a matter of C02/C18, not of names): nothing is decided here
				r.Count("splitting_runs_skipped_module_order_differs", 1)
				continue
			}
			if !sameTrace(refTrace.Trace, or.Trace) {
				_, a, b := firstTraceDiff(refTrace.Trace, or.Trace)
				bad = fmt.Sprintf("trace differs: native %s, bundle %s", trunc(a, 100), trunc(b, 100))
			} else if c15Term(refTrace.Term) != c15Term(or.Term) {
				bad = fmt.Sprintf("termination differs: native %s, bundle %s", refTrace.Term, or.Term)
			} else if goal == "module" && !v.splitting && refTrace.Exports != or.Exports {
				bad = fmt.Sprintf("entry exports differ: native %s, bundle %s", trunc(refTrace.Exports, 150), trunc(or.Exports, 150))
			}
			if bad != "" {
				r.Violation("rename:"+v.name+":exec", v.name+": "+bad, map[string]interface{}{"graph": gr, "variant": v.name, "native_trace": refTrace.Trace, "bundle_trace": or.Trace})
			}
		}
	})
}

// c15FileOrder lists the "file",k markers of a trace in the order in which they were logged
func c15FileOrder(trace []string) []string {
	var out []string
	for _, ev := range trace {
		if strings.HasPrefix(ev, "\"file\",") {
			out = append(out, ev)
		}
	}
	return out
}

func replayC15(r *Run, path string) {
	var doc struct {
		Case struct {
			Input   string `json:"input"`
			Variant string `json:"variant"`
			Sloppy  bool   `json:"sloppy"`
			Module  bool   `json:"module"`
		} `json:"case"`
	}
	if err := readJSON(path, &doc); err != nil || doc.Case.Input == "" {
		r.Inconclusive("replay file has no single-program input (bundle and mangle-props cases are replayed by re-running the check with the recorded seed)")
		return
	}
	api.VerifSymbolTags(true)
	defer api.VerifSymbolTags(false)
	var st c15Stats
	r.Tier = "thorough"
	c15Program(r, r.Pool(), &st, newRng(r.Seed, "replay"), doc.Case.Input, doc.Case.Sloppy, doc.Case.Module, sgPrelude(), 1)
	r.Eval(int(st.outputs))
}

func c15Term(t string) string {
	if strings.HasPrefix(t, "syntax") {
		return "syntax"
	}
	return t
}
