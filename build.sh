#!/bin/bash
# Builds bin/vh (and, for the properties that need them, the race/CLI binaries) from /repo's working tree.
set -eu
ROOT="$(cd "$(dirname "${BASH_SOURCE[0]}")" && pwd)"
export GOFLAGS=-mod=mod GOPROXY=off GOSUMDB=off GOTOOLCHAIN=local
REPO="${VERIF_REPO:-/repo}"
ID="${1:-all}"
mkdir -p "$ROOT/bin"
cd "$ROOT/harness"
cp "$REPO/go.sum" go.sum
if [ "$REPO" != "/repo" ]; then
  # point the harness at another tree (used for seeded-change validation on scratch copies)
  sed "s#=> /repo#=> $REPO#" go.mod > go.alt.mod; cp go.sum go.alt.sum
  MODFLAG="-modfile=go.alt.mod"
else
  MODFLAG=""
fi
go build $MODFLAG -tags verif -o "$ROOT/bin/vh" ./vh
case "$ID" in
  C08|C16|C20|all|race)
    go build $MODFLAG -race -tags verif -o "$ROOT/bin/vh-race" ./vh ;;
esac
case "$ID" in
  C17|C20|all|cli)
    (cd "$REPO" && go build -tags verif -o "$ROOT/bin/esbuild-verif" ./cmd/esbuild) ;;
esac
case "$ID" in
  C20|all|race)
    (cd "$REPO" && go build -race -tags verif -o "$ROOT/bin/esbuild-race" ./cmd/esbuild) ;;
esac
rm -f go.alt.mod go.alt.sum
