#!/bin/bash
# seedrun.sh <seeded-dir-name | fix-commit-hash> <CHECK-ID> [tier]: run one check against a seeded change (or against
# the reverse of a fix commit, regress/<hash>.diff) in isolation.
# Makes a scratch git worktree of /repo (HEAD + the seeded patch) and a scratch copy of /verif's machinery
# under /tmp, builds there (VERIF_REPO / VERIF_ROOT point at the copies), runs the check, prints the
# verdict lines and removes both copies. /repo and /verif themselves are not touched.
set -u
S=$1; ID=$2; TIER=${3:-quick}
SRC="$(cd "$(dirname "$0")" && pwd)"
WT=/tmp/sw/$S-$ID; SV=/tmp/sv/$S-$ID
rm -rf $SV; git -C /repo worktree remove --force $WT 2>/dev/null; rm -rf $WT
mkdir -p /tmp/sw /tmp/sv $SV
git -C /repo worktree add --detach -q $WT HEAD || { echo "$S $ID: worktree failed"; exit 3; }
P=$SRC/seeded/$S/patch.diff; [ -f $P ] || P=$SRC/regress/$S.diff   # a fix commit's hash selects its reverse patch
git -C $WT apply $P || { echo "$S $ID: PATCH-DOES-NOT-APPLY"; git -C /repo worktree remove --force $WT; exit 3; }
cp -r $SRC/harness $SRC/oracle $SRC/known_findings.jsonl $SRC/build.sh $SRC/check $SV/
export VERIF_REPO=$WT VERIF_ROOT=$SV GOFLAGS=-mod=mod GOPROXY=off GOSUMDB=off GOTOOLCHAIN=local
if ! $SV/build.sh $ID > $SV/build.log 2>&1; then echo "$S $ID: BUILD-FAILED"; tail -5 $SV/build.log; else
  ( cd $SV && timeout -s QUIT ${SEEDRUN_TIMEOUT:-3600} ./bin/vh $ID $TIER > $SV/run.log 2>&1 ); RC=$?
  V=$(grep -a -c '^VIOLATION' $SV/run.log)
  echo "$S $ID $TIER: exit=$RC violations=$V"
  grep -a -E "^  (what|signature):|^INCONCL" $SV/run.log | cut -c1-${SEEDRUN_WIDTH:-300} | head -${SEEDRUN_LINES:-6}
  mkdir -p /tmp/seedlogs; cp $SV/run.log /tmp/seedlogs/$S-$ID.log
fi
git -C /repo worktree remove --force $WT; rm -rf $SV
