#!/bin/bash
# seeded_confirm.sh <ID> <i>: confirm a sub-agent's change in its scratch worktree:
# patch applies, builds, full suite passes, demo fails with it and passes without it. Then import into /verif/seeded/<ID>-<i>.
ID=$1; I=$2
D=/tmp/seedout/$ID/change$I; WT=/tmp/wt/$ID
[ -f $D/patch.diff ] || { echo "$ID-$I: no patch"; exit 1; }
cd $WT && git checkout -q -- . && git clean -fdq
git apply $D/patch.diff || { echo "$ID-$I: patch does not apply in worktree"; exit 1; }
go build ./... || { echo "$ID-$I: does not build"; git checkout -q -- .; exit 1; }
T=$(go test -vet=off -count=1 ./... 2>&1 | grep -c "^FAIL")
export WT
( cd $D && timeout 900 bash ./demo.sh $WT >/tmp/seedout/$ID/demo$I.with.log 2>&1 ); WITH=$?
cd $WT && git checkout -q -- . && git clean -fdq
( cd $D && timeout 900 bash ./demo.sh $WT >/tmp/seedout/$ID/demo$I.without.log 2>&1 ); WITHOUT=$?
APPLIES_REPO=no; git -C /repo apply --check $D/patch.diff 2>/dev/null && APPLIES_REPO=yes
echo "$ID-$I: test_fail_lines=$T demo_with=$WITH demo_without=$WITHOUT applies_to_repo_head=$APPLIES_REPO"
if [ "$T" = 0 ] && [ $WITH != 0 ] && [ $WITHOUT = 0 ]; then
  S=/verif/seeded/$ID-$I; rm -rf $S; mkdir -p $S; cp -r $D/. $S/
  find $S -type f -size +300k -delete
  python3 - "$S" "$ID" "$I" "$WITH" "$APPLIES_REPO" <<'PY'
import json,sys
S,ID,I,WITH,AR=sys.argv[1:]
try: m=json.load(open(S+'/meta.json'))
except Exception: m={}
m['property']=ID
m['confirmed']={"worktree":"/tmp/wt/"+ID,"commands":["git apply patch.diff","go build ./...","go test -vet=off -count=1 ./...  (no FAIL lines)","bash demo.sh /tmp/wt/"+ID+"  -> exit "+WITH+" with the change","git checkout -- . ; bash demo.sh -> exit 0 without the change"],"applies_to_repo_head":AR=="yes"}
json.dump(m,open(S+'/meta.json','w'),indent=1)
PY
  echo "  imported into $S"
fi
