NOT_YET = {}
CLAIMED = {
 "C03": ("differential execution in V8: probe traces of the unminified program vs each minified output (case packs + generated programs); folded constants checked by executing them",
         "Exploration: ~21k table cases per quick run (75k in thorough: operator × boundary-literal grid exhaustive over 52 literals, operator × probe/coercion-object operands, 110 unused-expression forms, ~450 compile-time-evaluable built-in forms, ~250 statement skeletons) × 7 minify flag subsets, plus 1.5k/40k generated programs × minify variants (keep-names observed via .name). Every differing case is re-run alone and reported with its traces. Held-on-observed only.",
         "Trusted: V8 (Node 20) as the language semantics; the probe host's canonical serialisation. ** results may differ by ≤2e-15 relative (only in programs that use **). Programs avoid the documented minifier assumptions by construction. define/pure/drop/drop-labels sub-workload: see C03 notes in DESIGN.",
         "DESIGN.md §3 C03"),
 "C16": ("crash/hang/leak monitor over seeded mutational batches in journalled child processes (API boundary: return, error markers, canary build, goroutine baseline, per-call watchdog)",
         "Exploration: 120k (quick) / 2.4M (thorough) cases, each a pure function of (seed, index): repo test inputs for 7 loaders × token/byte mutators, deep nesting, malformed source-map payloads, bundles of repo test trees with a mutated file, real-directory bundles with mutated package.json/tsconfig.json × random flags. Observed per case: the call returned, no `panic:`/`Internal error` text, canary build still reproducible; per batch: goroutines back to baseline, process alive. Held-on-observed only.",
         "Trusted: the Go runtime (process exit status, goroutine count), the journal written before each call. A hang is a call exceeding 60 s under load, confirmed alone with 120 s. Two super-linear inputs (nested CSS rules, nested arrows) are capped in the workload and probed separately as known findings.",
         "DESIGN.md §3 C16"),
 "C13": ("differential parsing: esbuild output judged by V8 + acorn per goal; token-stream fixed point T(T(x))=T(x); acceptance of reference-valid inputs",
         "Exploration: ~27k inputs per quick run (repo test inputs, rare-production seeds × wrappers × pairs, token-level mutants, generated programs) × option variants; each error-free output is parsed by two independent parsers in the requested goal, re-transformed and compared as token streams; every reference-valid input must be accepted. Held-on-observed only.",
         "Trusted: V8 (Node 20) and acorn 8.16 as the reference grammar (an output counts as invalid only when both reject it while one accepted the input in that goal); acorn's tokenizer for comment-insensitive comparison. Mutant stream pinned by VERIF_MUTSEED (default 1), see DESIGN C13.",
         "DESIGN.md §3 C13"),
}
