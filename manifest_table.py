NOT_YET = {}
CLAIMED = {
 "C13": ("differential parsing: esbuild output judged by V8 + acorn per goal; token-stream fixed point T(T(x))=T(x); acceptance of reference-valid inputs",
         "Exploration: ~27k inputs per quick run (repo test inputs, rare-production seeds × wrappers × pairs, token-level mutants, generated programs) × option variants; each error-free output is parsed by two independent parsers in the requested goal, re-transformed and compared as token streams; every reference-valid input must be accepted. Held-on-observed only.",
         "Trusted: V8 (Node 20) and acorn 8.16 as the reference grammar (an output counts as invalid only when both reject it while one accepted the input in that goal); acorn's tokenizer for comment-insensitive comparison. Mutant stream pinned by VERIF_MUTSEED (default 1), see DESIGN C13.",
         "DESIGN.md §3 C13"),
}
