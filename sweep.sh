#!/bin/bash
# sweep.sh <ID> <tier> <var> <from> <to>: run a check over a range of seeds, print only findings
cd "$(dirname "$0")"
export VERIF_ROOT="$(pwd)"
ID=$1; TIER=$2; VAR=$3; A=$4; B=$5
./build.sh $ID
for s in $(seq $A $B); do
  echo "== $VAR=$s"
  env $VAR=$s VERIF_ALL=1 ./bin/vh $ID $TIER 2>&1 | grep -E "what:|signature:|more:|^C[0-9]+ |INCONCLUSIVE" | cut -c1-700
done
